(* Proofs about Model/Config.v  (property C16).

   Part 1  association lists, shapes, the generic simulation lemma for [foldR]
   Part 2  per-option view of ConfigManager.read and updateFromDict: [layering]
   Part 3  Spec (closed forms) and the layering theorems per option class: M1 scalar, M2 list / dictionary
   Part 4  M3 booleans in files
   Part 5  M4 interpolation
   Part 6  fuel
   Part 7  the command line (argparse model) on well-formed command lines
   Part 8  well-formed tables, defaults    Part 9  assignment
   Part 10 main() from the command line as typed (hypotheses of Parts 3/7 discharged from wf_config)
   Part 11 list entries as written (shlex round trip)    Part 12 integers (decimal round trip)
   Part 13 dictionary lines as written (k1=v1, k2=v2 round trip) *)
From Coq Require Import List ZArith Bool Lia Arith.
Import ListNotations.
From Verif Require Import Val Config.
Local Open Scope Z_scope.

(* ================================================================================================= *)
(* Part 1 *)

Lemma str_eqb_refl : forall a, str_eqb a a = true.
Proof. induction a as [|x a IH]; cbn; [reflexivity|]. rewrite Z.eqb_refl, IH. reflexivity. Qed.

Lemma str_eqb_eq : forall a b, str_eqb a b = true <-> a = b.
Proof.
  induction a as [|x a IH]; destruct b as [|y b]; cbn; split; intro H; try reflexivity; try discriminate.
  - apply andb_true_iff in H. destruct H as [H1 H2]. apply Z.eqb_eq in H1. apply IH in H2. subst. reflexivity.
  - inversion H; subst. rewrite Z.eqb_refl, str_eqb_refl. reflexivity.
Qed.

Lemma str_eqb_neq : forall a b, str_eqb a b = false <-> a <> b.
Proof.
  intros a b. split; intro H.
  - intro E. apply str_eqb_eq in E. congruence.
  - destruct (str_eqb a b) eqn:E; [|reflexivity]. apply str_eqb_eq in E. contradiction.
Qed.

Lemma str_eqb_sym : forall a b, str_eqb a b = str_eqb b a.
Proof.
  intros a b. destruct (str_eqb a b) eqn:E.
  - apply str_eqb_eq in E. subst. symmetry. apply str_eqb_refl.
  - symmetry. apply str_eqb_neq. apply str_eqb_neq in E. congruence.
Qed.

Lemma assoc_set_same : forall A k (v v0 : A) l, assoc k l = Some v0 -> assoc k (assoc_set k v l) = Some v.
Proof.
  intros A k v v0. induction l as [|[k' v'] l IH]; cbn; intro H; [discriminate|].
  destruct (str_eqb k k') eqn:E; cbn; rewrite E; [reflexivity|]. apply IH. exact H.
Qed.

Lemma assoc_set_other : forall A k k' (v : A) l, k' <> k -> assoc k' (assoc_set k v l) = assoc k' l.
Proof.
  intros A k k' v. induction l as [|[k2 v2] l IH]; cbn; intro N; [reflexivity|].
  destruct (str_eqb k k2) eqn:E; cbn.
  - apply str_eqb_eq in E. subst k2. apply str_eqb_neq in N. rewrite N. reflexivity.
  - destruct (str_eqb k' k2); [reflexivity|]. apply IH. exact N.
Qed.

Lemma assoc_set_keys : forall A k (v : A) l, map fst (assoc_set k v l) = map fst l.
Proof.
  intros A k v. induction l as [|[k2 v2] l IH]; cbn; [reflexivity|].
  destruct (str_eqb k k2); cbn; [reflexivity|]. rewrite IH. reflexivity.
Qed.

Lemma assoc_in : forall A k (v : A) l, assoc k l = Some v -> In (k, v) l.
Proof.
  intros A k v. induction l as [|[k2 v2] l IH]; cbn; intro H; [discriminate|].
  destruct (str_eqb k k2) eqn:E.
  - apply str_eqb_eq in E. inversion H; subst. left. reflexivity.
  - right. apply IH. exact H.
Qed.

Lemma in_assoc_nodup : forall A k (v : A) l, NoDup (map fst l) -> In (k, v) l -> assoc k l = Some v.
Proof.
  intros A k v. induction l as [|[k2 v2] l IH]; cbn; intros ND H; [contradiction|].
  inversion ND as [|? ? NI ND']; subst.
  destruct H as [H|H].
  - inversion H; subst. rewrite str_eqb_refl. reflexivity.
  - destruct (str_eqb k k2) eqn:E.
    + apply str_eqb_eq in E. subst k2. exfalso. apply NI. apply in_map_iff. exists (k, v). split; [reflexivity|exact H].
    + apply IH; assumption.
Qed.

(* ---- res ---- *)
Lemma bind_ok : forall A B (r : res A) (f : A -> res B) b, bind r f = Ok b -> exists a, r = Ok a /\ f a = Ok b.
Proof. intros A B [a|k| |] f b H; cbn in H; try discriminate. exists a. split; [reflexivity|exact H]. Qed.

Lemma foldR_app : forall A S (f : S -> A -> res S) l1 l2 st,
  foldR f (l1 ++ l2) st = bind (foldR f l1 st) (foldR f l2).
Proof.
  intros A S f. induction l1 as [|x l1 IH]; intros l2 st; cbn; [reflexivity|].
  destruct (f st x) as [st'|k| |]; cbn; try reflexivity. apply IH.
Qed.

(* the simulation lemma: a fold over the whole state, observed through a relation [R] with the state of a smaller fold *)
Lemma foldR_sim : forall A S T (f : S -> A -> res S) (g : T -> A -> res T) (P : S -> Prop) (R : S -> T -> Prop),
  (forall st t a st', P st -> R st t -> f st a = Ok st' -> exists t', g t a = Ok t' /\ R st' t' /\ P st') ->
  forall l st t st', P st -> R st t -> foldR f l st = Ok st' -> exists t', foldR g l t = Ok t' /\ R st' t' /\ P st'.
Proof.
  intros A S T f g P R Hstep. induction l as [|a l IH]; intros st t st' HP HR H; cbn in *.
  - inversion H; subst. exists t. auto.
  - apply bind_ok in H. destruct H as [st1 [H1 H2]].
    destruct (Hstep _ _ _ _ HP HR H1) as [t1 [G1 [R1 P1]]].
    destruct (IH _ _ _ P1 R1 H2) as [t' [G2 [R2 P2]]].
    exists t'. rewrite G1. cbn. auto.
Qed.

(* ---- shapes: what ConfigManager.read and updateFromDict never change ---- *)
Definition statics_of (opts : section) : list (str * ostatic) := map (fun ko => (fst ko, o_static (snd ko))) opts.
Definition shape (cfg : config) : list (str * list (str * ostatic)) := map (fun s => (fst s, statics_of (snd s))) cfg.

Lemma assoc_statics : forall opts k, assoc k (statics_of opts) = option_map o_static (assoc k opts).
Proof.
  induction opts as [|[k2 o2] opts IH]; intro k; cbn; [reflexivity|].
  destruct (str_eqb k k2); [reflexivity|apply IH].
Qed.

Lemma assoc_shape : forall cfg s, assoc s (shape cfg) = option_map statics_of (assoc s cfg).
Proof.
  induction cfg as [|[s2 o2] cfg IH]; intro s; cbn; [reflexivity|].
  destruct (str_eqb s s2); [reflexivity|apply IH].
Qed.

Lemma first_dict_statics : forall a b, statics_of a = statics_of b -> first_dict a = first_dict b.
Proof.
  induction a as [|[k o] a IH]; destruct b as [|[k' o'] b]; cbn; intro H; try discriminate; [reflexivity|].
  inversion H as [[H1 H2 H3]]. rewrite H2. destruct (is_dict_cls (o_cls (o_static o'))); [reflexivity|]. apply IH. exact H3.
Qed.

Lemma assoc_set_statics : forall opts k o o0, assoc k opts = Some o0 -> o_static o = o_static o0 ->
  statics_of (assoc_set k o opts) = statics_of opts.
Proof.
  induction opts as [|[k2 o2] opts IH]; intros k o o0 H E; cbn in *; [reflexivity|].
  destruct (str_eqb k k2) eqn:Ek; cbn.
  - inversion H; subst. rewrite E. reflexivity.
  - f_equal. eapply IH; eassumption.
Qed.

Lemma assoc_set_shape : forall cfg s opts opts0, assoc s cfg = Some opts0 -> statics_of opts = statics_of opts0 ->
  shape (assoc_set s opts cfg) = shape cfg.
Proof.
  induction cfg as [|[s2 o2] cfg IH]; intros s opts opts0 H E; cbn in *; [reflexivity|].
  destruct (str_eqb s s2) eqn:Es; cbn.
  - inversion H; subst. f_equal. f_equal. exact E.
  - f_equal. eapply IH; eassumption.
Qed.

Lemma set_at_shape : forall cfg s k o o0, opt_at cfg s k = Some o0 -> o_static o = o_static o0 -> shape (set_at cfg s k o) = shape cfg.
Proof.
  intros cfg s k o o0 H E. unfold opt_at, set_at in *. destruct (assoc s cfg) as [opts|] eqn:A; [|discriminate].
  eapply assoc_set_shape; [exact A|]. eapply assoc_set_statics; eassumption.
Qed.

Lemma opt_at_set_same : forall cfg s k o o0, opt_at cfg s k = Some o0 -> opt_at (set_at cfg s k o) s k = Some o.
Proof.
  intros cfg s k o o0 H. unfold opt_at, set_at in *. destruct (assoc s cfg) as [opts|] eqn:A; [|discriminate].
  erewrite assoc_set_same; [|exact A]. eapply assoc_set_same. exact H.
Qed.

Lemma opt_at_set_other : forall cfg s k o s' k', (s' <> s \/ k' <> k) -> opt_at (set_at cfg s k o) s' k' = opt_at cfg s' k'.
Proof.
  intros cfg s k o s' k' N. unfold opt_at, set_at. destruct (assoc s cfg) as [opts|] eqn:A; [|reflexivity].
  destruct (str_eqb s' s) eqn:Es.
  - apply str_eqb_eq in Es. subst s'. erewrite assoc_set_same; [|exact A]. rewrite A.
    destruct N as [N|N]; [contradiction|]. apply assoc_set_other. exact N.
  - apply str_eqb_neq in Es. rewrite assoc_set_other; [reflexivity|exact Es].
Qed.

(* ---- conversions keep the static part ---- *)
Lemma dict_set_static : forall o k v o', dict_set o k v = Ok o' -> o_static o' = o_static o.
Proof.
  intros o k v o' H. unfold dict_set in H. destruct (o_cls (o_static o)); try discriminate.
  destruct (o_value o); try discriminate. apply bind_ok in H. destruct H as [e [_ H]]. inversion H. reflexivity.
Qed.

Lemma foldR_static : forall A (f : opt -> A -> res opt),
  (forall o a o', f o a = Ok o' -> o_static o' = o_static o) ->
  forall l o o', foldR f l o = Ok o' -> o_static o' = o_static o.
Proof.
  intros A f Hf. induction l as [|a l IH]; intros o o' H; cbn in H.
  - inversion H. reflexivity.
  - apply bind_ok in H. destruct H as [o1 [H1 H2]]. rewrite (IH _ _ H2). eapply Hf. exact H1.
Qed.

Lemma set_from_string_static : forall fx o s o', set_from_string fx o s = Ok o' -> o_static o' = o_static o.
Proof.
  intros fx o s o' H. unfold set_from_string in H.
  destruct (o_cls (o_static o)) eqn:C.
  1-3: apply bind_ok in H; destruct H as [v [_ H]]; inversion H; reflexivity.
  - destruct fx; apply bind_ok in H; destruct H as [v [_ H]]; inversion H; reflexivity.
  - destruct (o_value o); try discriminate. apply bind_ok in H. destruct H as [v [_ H]]. inversion H. reflexivity.
  - revert H. apply foldR_static. intros o1 a o2 H1. destruct (split_once 61 a []) as [|x [|y [|z rest]]]; try discriminate.
    eapply dict_set_static. exact H1.
Qed.

Lemma update_opt_static : forall d o o', update_opt d o = Ok o' -> o_static o' = o_static o.
Proof.
  intros d o o' H. unfold update_opt in H.
  destruct (o_cls (o_static o)) eqn:C.
  1-4: destruct (assoc (o_name (o_static o)) d); [apply bind_ok in H; destruct H as [v [_ H]]|]; inversion H; reflexivity.
  - destruct (assoc (o_name (o_static o)) d) as [[]|]; try discriminate; [|inversion H; reflexivity].
    destruct (o_value o); try discriminate. inversion H. reflexivity.
  - destruct st; (destruct (assoc (o_name (o_static o)) d) as [[]|]; try discriminate; [|inversion H; reflexivity]);
      revert H; apply foldR_static; intros o1 a o2 H1.
    + destruct a as [|x [|y [|z rest]]]; try discriminate. eapply dict_set_static. exact H1.
    + destruct a as [|x [|y [|z [|w rest]]]]; try discriminate.
      * eapply dict_set_static. exact H1.
      * apply bind_ok in H1. destruct H1 as [o3 [H3 H4]]. rewrite (dict_set_static _ _ _ _ H4). eapply dict_set_static. exact H3.
Qed.

(* ================================================================================================= *)
(* Part 2: what ConfigManager.read does to ONE option *)

(* the effect of one `k = v` line of section [sec] on the option stored under [key] of that section;
   [opts] is the section (only its static part matters) *)
Definition item_effect (fx : bool) (opts : section) (key : str) (o : opt) (kv : str * str) : res opt :=
  match assoc (fst kv) opts with
  | Some _ => if str_eqb (fst kv) key then set_from_string fx o (snd kv) else Ok o
  | None =>
      match first_dict opts with
      | Some dk => if str_eqb dk key then dict_set o (fst kv) (snd kv) else Ok o
      | None => Ok o
      end
  end.

Definition section_effect (fx : bool) (opts : section) (sec key : str) (o : opt) (s : str * list (str * str)) : res opt :=
  if str_eqb (fst s) sec then foldR (item_effect fx opts key) (snd s) o else Ok o.

Definition file_effect (fx : bool) (opts : section) (sec key : str) (o : opt) (f : file) : res opt :=
  match f with
  | FMissing => Ok o
  | FBad => Crash ParsingError
  | FParsed secs => foldR (section_effect fx opts sec key) secs o
  end.

Section ReadOne.
  Context (fx : bool) (cfg0 : config) (sec key : str) (opts0 : section).
  Context (Hsec : assoc sec cfg0 = Some opts0).

  (* invariant: same shape as at the start;  relation: the option currently stored at (sec, key) *)
  Let P (cfg : config) : Prop := shape cfg = shape cfg0.
  Let R (cfg : config) (o : opt) : Prop := opt_at cfg sec key = Some o.

  Lemma P_section : forall cfg opts, P cfg -> assoc sec cfg = Some opts -> statics_of opts = statics_of opts0.
  Proof.
    intros cfg opts HP A. unfold P in HP.
    assert (E : assoc sec (shape cfg) = assoc sec (shape cfg0)) by (rewrite HP; reflexivity).
    rewrite !assoc_shape, A, Hsec in E. cbn in E. inversion E. reflexivity.
  Qed.

  Lemma assoc_none_statics : forall a b k, statics_of a = statics_of b -> assoc k a = None -> assoc k b = None.
  Proof.
    intros a b k E H. assert (X := assoc_statics a k). assert (Y := assoc_statics b k). rewrite E in X. rewrite X in Y.
    rewrite H in Y. cbn in Y. destruct (assoc k b); [discriminate|reflexivity].
  Qed.

  Lemma assoc_some_statics : forall a b k o, statics_of a = statics_of b -> assoc k a = Some o -> exists o', assoc k b = Some o'.
  Proof.
    intros a b k o E H. assert (X := assoc_statics a k). assert (Y := assoc_statics b k). rewrite E in X. rewrite X in Y.
    rewrite H in Y. cbn in Y. destruct (assoc k b) as [o'|]; [exists o'; reflexivity|discriminate].
  Qed.

  (* one item of a section named [sec] *)
  Lemma read_item_sim : forall cfg o kv cfg',
    P cfg -> R cfg o -> read_item fx sec (first_dict opts0) cfg kv = Ok cfg' ->
    exists o', item_effect fx opts0 key o kv = Ok o' /\ R cfg' o' /\ P cfg'.
  Proof.
    intros cfg o [k v] cfg' HP HR H. unfold read_item in H. unfold item_effect. cbn [fst snd].
    unfold R in *. assert (HR' := HR). unfold opt_at in HR'. destruct (assoc sec cfg) as [opts|] eqn:A; [|discriminate].
    assert (ES := P_section _ _ HP A).
    destruct (opt_at cfg sec k) as [ok|] eqn:K.
    - (* a declared key *)
      apply bind_ok in H. destruct H as [ok' [H1 H2]]. inversion H2; subst cfg'. clear H2.
      assert (K' := K). unfold opt_at in K'. rewrite A in K'.
      destruct (assoc_some_statics _ _ _ _ ES K') as [o0 K0]. rewrite K0.
      assert (PS : P (set_at cfg sec k ok')).
      { unfold P. erewrite set_at_shape; [exact HP|exact K|]. eapply set_from_string_static. exact H1. }
      destruct (str_eqb k key) eqn:E.
      + apply str_eqb_eq in E. subst k. rewrite HR in K. inversion K; subst ok.
        exists ok'. split; [exact H1|]. split; [|exact PS]. eapply opt_at_set_same. exact HR.
      + exists o. split; [reflexivity|]. split; [|exact PS].
        rewrite opt_at_set_other; [exact HR|]. right. apply str_eqb_neq in E. congruence.
    - (* an undeclared key: routed to the first dictionary option of the section *)
      assert (K' := K). unfold opt_at in K'. rewrite A in K'.
      rewrite (assoc_none_statics _ _ _ ES K').
      destruct (first_dict opts0) as [dk|] eqn:FD.
      + destruct (opt_at cfg sec dk) as [dobj|] eqn:D; [|discriminate].
        apply bind_ok in H. destruct H as [d' [H1 H2]]. inversion H2; subst cfg'. clear H2.
        assert (PS : P (set_at cfg sec dk d')).
        { unfold P. erewrite set_at_shape; [exact HP|exact D|]. eapply dict_set_static. exact H1. }
        destruct (str_eqb dk key) eqn:E.
        * apply str_eqb_eq in E. subst dk. rewrite HR in D. inversion D; subst dobj.
          exists d'. split; [exact H1|]. split; [|exact PS]. eapply opt_at_set_same. exact HR.
        * exists o. split; [reflexivity|]. split; [|exact PS].
          rewrite opt_at_set_other; [exact HR|]. right. apply str_eqb_neq in E. congruence.
      + inversion H; subst cfg'. exists o. auto.
  Qed.

  (* one item of a section with another name *)
  Lemma read_item_other : forall s dk cfg o kv cfg',
    s <> sec -> P cfg -> R cfg o -> read_item fx s dk cfg kv = Ok cfg' -> R cfg' o /\ P cfg'.
  Proof.
    intros s dk cfg o [k v] cfg' N HP HR H. unfold read_item in H. unfold R in *.
    destruct (opt_at cfg s k) as [ok|] eqn:K.
    - apply bind_ok in H. destruct H as [ok' [H1 H2]]. inversion H2; subst cfg'. split.
      + rewrite opt_at_set_other; [exact HR|]. left. congruence.
      + unfold P. erewrite set_at_shape; [exact HP|exact K|]. eapply set_from_string_static. exact H1.
    - destruct dk as [dk|]; [|inversion H; subst; auto].
      destruct (opt_at cfg s dk) as [dobj|] eqn:D; [|discriminate].
      apply bind_ok in H. destruct H as [d' [H1 H2]]. inversion H2; subst cfg'. split.
      + rewrite opt_at_set_other; [exact HR|]. left. congruence.
      + unfold P. erewrite set_at_shape; [exact HP|exact D|]. eapply dict_set_static. exact H1.
  Qed.

  Lemma read_section_sim : forall cfg o s cfg',
    P cfg -> R cfg o -> read_section fx cfg s = Ok cfg' ->
    exists o', section_effect fx opts0 sec key o s = Ok o' /\ R cfg' o' /\ P cfg'.
  Proof.
    intros cfg o [s items] cfg' HP HR H. unfold read_section in H. unfold section_effect. cbn [fst snd].
    destruct (str_eqb s sec) eqn:E.
    - apply str_eqb_eq in E. subst s.
      assert (HR' := HR). unfold R, opt_at in HR'. destruct (assoc sec cfg) as [opts|] eqn:A; [|discriminate].
      rewrite (first_dict_statics _ _ (P_section _ _ HP A)) in H.
      eapply (foldR_sim _ _ _ _ (item_effect fx opts0 key) P R); [|exact HP|exact HR|exact H].
      intros st t a st' HP1 HR1 H1. eapply read_item_sim; eassumption.
    - apply str_eqb_neq in E. destruct (assoc s cfg) as [opts|] eqn:A.
      + destruct (foldR_sim _ _ _ (read_item fx s (first_dict opts)) (fun (o : opt) (_ : str * str) => Ok o) P R) with (l := items) (st := cfg) (t := o) (st' := cfg')
          as [o' [G [R' P']]]; try assumption.
        * intros st t a st' HP1 HR1 H1. destruct (read_item_other _ _ _ _ _ _ E HP1 HR1 H1). exists t. auto.
        * assert (G' : forall l (x : opt), foldR (fun (o : opt) (_ : str * str) => Ok o) l x = Ok x) by (induction l; intro x; cbn; auto).
          rewrite G' in G. inversion G; subst o'. exists o. auto.
      + inversion H; subst cfg'. exists o. auto.
  Qed.

  Lemma read_file_sim : forall cfg o f cfg',
    P cfg -> R cfg o -> read_file fx cfg f = Ok cfg' ->
    exists o', file_effect fx opts0 sec key o f = Ok o' /\ R cfg' o' /\ P cfg'.
  Proof.
    intros cfg o f cfg' HP HR H. destruct f as [| |secs]; cbn in *.
    - inversion H; subst. exists o. auto.
    - discriminate.
    - eapply (foldR_sim _ _ _ _ (section_effect fx opts0 sec key) P R); [|exact HP|exact HR|exact H].
      intros st t a st' HP1 HR1 H1. eapply read_section_sim; eassumption.
  Qed.

  Lemma read_sim : forall files o cfg',
    assoc key opts0 = Some o -> read fx cfg0 files = Ok cfg' ->
    exists o', foldR (file_effect fx opts0 sec key) files o = Ok o' /\ opt_at cfg' sec key = Some o' /\ shape cfg' = shape cfg0.
  Proof.
    intros files o cfg' K H. unfold read in H.
    eapply (foldR_sim _ _ _ _ (file_effect fx opts0 sec key) P R); [| | |exact H].
    - intros st t a st' HP1 HR1 H1. eapply read_file_sim; eassumption.
    - reflexivity.
    - unfold R, opt_at. rewrite Hsec. exact K.
  Qed.
End ReadOne.

(* updateFromDict acts on every option separately *)
Lemma mapR_assoc : forall A (f : A -> res A) (l l' : list (str * A)) k a,
  mapR (fun ka => a' <- f (snd ka) ;; Ok (fst ka, a')) l = Ok l' -> assoc k l = Some a ->
  exists a', f a = Ok a' /\ assoc k l' = Some a'.
Proof.
  intros A f. induction l as [|[k2 a2] l IH]; intros l' k a H K; cbn in *; [discriminate|].
  apply bind_ok in H. destruct H as [y [H1 H2]]. apply bind_ok in H1. destruct H1 as [a2' [F1 F2]]. inversion F2; subst y. clear F2.
  apply bind_ok in H2. destruct H2 as [ys [H2 H3]]. inversion H3; subst l'. clear H3. cbn.
  destruct (str_eqb k k2) eqn:E.
  - inversion K; subst a2. exists a2'. auto.
  - eapply IH; eassumption.
Qed.

Lemma update_from_dict_at : forall d cfg cfg' sec key o,
  update_from_dict d cfg = Ok cfg' -> opt_at cfg sec key = Some o ->
  exists o', update_opt d o = Ok o' /\ opt_at cfg' sec key = Some o'.
Proof.
  intros d cfg cfg' sec key o H K. unfold opt_at in *. destruct (assoc sec cfg) as [opts|] eqn:A; [|discriminate].
  unfold update_from_dict in H.
  destruct (mapR_assoc _ (update_section d) _ _ _ _ H A) as [opts' [U A']]. rewrite A'.
  unfold update_section in U. eapply mapR_assoc; eassumption.
Qed.

(* L0: the value of every option after main() is a function of its own default, of the lines of the configuration
   files addressed to it, in order, and of the parsed command line -- in that order. *)
Theorem layering : forall fx cfg f d cfg' sec key opts o,
  layer fx cfg f d = Ok cfg' -> assoc sec cfg = Some opts -> assoc key opts = Some o ->
  exists files o1 o2,
    config_files f d = Ok files /\
    foldR (file_effect fx opts sec key) files o = Ok o1 /\
    update_opt d o1 = Ok o2 /\
    opt_at cfg' sec key = Some o2.
Proof.
  intros fx cfg f d cfg' sec key opts o H A K. unfold layer in H.
  apply bind_ok in H. destruct H as [files [H0 H]]. apply bind_ok in H. destruct H as [cfg1 [H1 H2]].
  destruct (read_sim fx cfg sec key opts A files o cfg1 K H1) as [o1 [F [R1 _]]].
  destruct (update_from_dict_at _ _ _ _ _ _ H2 R1) as [o2 [U R2]].
  exists files, o1, o2. auto.
Qed.

(* ================================================================================================= *)
(* Part 3: Spec -- what the property demands, written without reference to the code -- and the layering theorems *)

(* --- Spec --- *)
(* the `key = value` lines that the files, in order, contain in their sections named [sec] *)
Definition file_items (sec : str) (f : file) : list (str * str) :=
  match f with
  | FParsed secs => flat_map (fun s => if str_eqb (fst s) sec then snd s else []) secs
  | _ => []
  end.
Definition section_items (sec : str) (files : list file) : list (str * str) := flat_map (file_items sec) files.

(* the right-hand sides given to [key], in order *)
Definition strings_for (key : str) (items : list (str * str)) : list str :=
  map snd (filter (fun kv => str_eqb (fst kv) key) items).

Fixpoint last_opt {A} (l : list A) : option A :=
  match l with
  | [] => None
  | x :: l' => match last_opt l' with Some y => Some y | None => Some x end
  end.

(* the value a string denotes for an option of class c *)
Definition conv (fx : bool) (c : cls) (s : str) : res value :=
  match c with
  | CStr => Ok (VStr s)
  | CInt => z <- parse_int s ;; Ok (VInt z)
  | CFloat => me <- parse_float s ;; Ok (VFloat (fst me) (snd me))
  | CBool => b <- bool_of_string fx s ;; Ok (VBool b)
  | _ => Unmodelled
  end.

Definition scalar (c : cls) : bool := match c with CStr | CInt | CFloat | CBool => true | _ => false end.
Definition typed (c : cls) (v : value) : bool :=
  match c, v with
  | CStr, VStr _ | CInt, VInt _ | CFloat, VFloat _ _ | CBool, VBool _ | CMulti, VList _ | CDict _ _, VDict _ => true
  | _, _ => false
  end.

(* Spec of a scalar option: command line, else last file line, else default *)
Definition spec_scalar (fx : bool) (c : cls) (dflt : value) (strs : list str) (cmd : option argval) : res value :=
  match cmd with
  | Some a => value_of_argval a
  | None => match last_opt strs with Some s => conv fx c s | None => Ok dflt end
  end.

(* --- flattening the per-file folds --- *)
Lemma foldR_flat_map : forall A B S (g : S -> B -> res S) (h : A -> list B) l st,
  foldR (fun st a => foldR g (h a) st) l st = foldR g (flat_map h l) st.
Proof.
  intros A B S g h. induction l as [|a l IH]; intro st; cbn; [reflexivity|].
  rewrite foldR_app. destruct (foldR g (h a) st); cbn; try reflexivity. apply IH.
Qed.

Lemma foldR_ext : forall A S (f g : S -> A -> res S), (forall st a, f st a = g st a) -> forall l st, foldR f l st = foldR g l st.
Proof. intros A S f g E. induction l as [|a l IH]; intro st; cbn; [reflexivity|]. rewrite E. destruct (g st a); cbn; auto. Qed.

Lemma file_effect_items : forall fx opts sec key files o o1,
  foldR (file_effect fx opts sec key) files o = Ok o1 ->
  foldR (item_effect fx opts key) (section_items sec files) o = Ok o1.
Proof.
  intros fx opts sec key. induction files as [|f files IH]; intros o o1 H; cbn in *; [exact H|].
  apply bind_ok in H. destruct H as [o' [H1 H2]]. unfold section_items. cbn. rewrite foldR_app.
  assert (E : foldR (item_effect fx opts key) (file_items sec f) o = Ok o').
  { destruct f as [| |secs]; cbn in *; try discriminate; [exact H1|].
    rewrite <- foldR_flat_map. rewrite <- H1. apply foldR_ext. intros st [s items]. unfold section_effect. cbn.
    destruct (str_eqb s sec); reflexivity. }
  rewrite E. cbn. apply IH. exact H2.
Qed.

(* --- the first dictionary option of a section is a dictionary option --- *)
Lemma first_dict_in : forall opts dk, first_dict opts = Some dk -> exists od, In (dk, od) opts /\ is_dict_cls (o_cls (o_static od)) = true.
Proof.
  induction opts as [|[k o] opts IH]; intros dk H; cbn in H; [discriminate|].
  destruct (is_dict_cls (o_cls (o_static o))) eqn:D.
  - inversion H; subst. exists o. split; [left; reflexivity|exact D].
  - destruct (IH _ H) as [od [I1 I2]]. exists od. split; [right; exact I1|exact I2].
Qed.

Lemma first_dict_assoc : forall opts dk, NoDup (map fst opts) -> first_dict opts = Some dk ->
  exists od, assoc dk opts = Some od /\ is_dict_cls (o_cls (o_static od)) = true.
Proof.
  intros opts dk ND H. destruct (first_dict_in _ _ H) as [od [I1 I2]]. exists od. split; [|exact I2].
  apply in_assoc_nodup; assumption.
Qed.

(* an option that is not a dictionary receives only the lines written under its own key *)
Lemma item_effect_nondict : forall fx opts key o0 o kv,
  NoDup (map fst opts) -> assoc key opts = Some o0 -> is_dict_cls (o_cls (o_static o0)) = false ->
  item_effect fx opts key o kv = if str_eqb (fst kv) key then set_from_string fx o (snd kv) else Ok o.
Proof.
  intros fx opts key o0 o [k v] ND K C. unfold item_effect. cbn [fst snd].
  destruct (str_eqb k key) eqn:E.
  - apply str_eqb_eq in E. subst k. rewrite K. reflexivity.
  - destruct (assoc k opts); [reflexivity|].
    destruct (first_dict opts) as [dk|] eqn:FD; [|reflexivity].
    destruct (str_eqb dk key) eqn:E2; [|reflexivity].
    apply str_eqb_eq in E2. subst dk. destruct (first_dict_assoc _ _ ND FD) as [od [A1 A2]]. rewrite K in A1. inversion A1; subst. congruence.
Qed.

(* --- scalars --- *)
Lemma set_scalar : forall fx o s o' c,
  o_cls (o_static o) = c -> scalar c = true -> typed c (o_value o) = true -> set_from_string fx o s = Ok o' ->
  conv fx c s = Ok (o_value o') /\ typed c (o_value o') = true /\ o_static o' = o_static o.
Proof.
  intros fx o s o' c C S T H. assert (ST := set_from_string_static _ _ _ _ H). split; [|split; [|exact ST]];
  unfold set_from_string in H; rewrite C in H; destruct c; try discriminate; cbn in T |- *;
  destruct (o_value o) eqn:V; try discriminate; cbn in H.
  all: try (destruct fx; cbn in H).
  all: try (apply bind_ok in H; destruct H as [x [H1 H2]]; inversion H2; subst o'; cbn).
  all: try (inversion H; subst o'; cbn; reflexivity).
  all: try (apply bind_ok in H1; destruct H1 as [y [H3 H4]]; inversion H4; subst x; cbn; try rewrite H3; reflexivity).
  all: try (rewrite H1; reflexivity).
  all: try reflexivity.
  all: inversion H1; subst x; reflexivity.
Qed.

Lemma scalar_fold : forall fx opts key o0 c, NoDup (map fst opts) -> assoc key opts = Some o0 -> o_cls (o_static o0) = c -> scalar c = true ->
  forall items o o1, o_static o = o_static o0 -> typed c (o_value o) = true ->
  foldR (item_effect fx opts key) items o = Ok o1 ->
  Ok (o_value o1) = match last_opt (strings_for key items) with Some s => conv fx c s | None => Ok (o_value o) end
  /\ o_static o1 = o_static o0.
Proof.
  intros fx opts key o0 c ND K C S. assert (NDc : is_dict_cls (o_cls (o_static o0)) = false) by (rewrite C; destruct c; try discriminate; reflexivity).
  induction items as [|[k v] items IH]; intros o o1 ST T H; cbn in H.
  - inversion H; subst. cbn. auto.
  - apply bind_ok in H. destruct H as [o' [H1 H2]]. rewrite (item_effect_nondict _ _ _ _ _ _ ND K NDc) in H1. cbn [fst snd] in H1.
    unfold strings_for. cbn [filter fst]. destruct (str_eqb k key) eqn:E.
    + assert (Co : o_cls (o_static o) = c) by (rewrite ST; exact C).
      destruct (set_scalar _ _ _ _ _ Co S T H1) as [V [T' ST']].
      destruct (IH o' o1) as [IH1 IH2]; [congruence|exact T'|exact H2|]. split; [|exact IH2].
      cbn [map snd last_opt]. fold (strings_for key items). rewrite IH1.
      destruct (last_opt (strings_for key items)); [reflexivity|]. symmetry. exact V.
    + inversion H1; subst o'. apply IH; assumption.
Qed.

Lemma update_scalar : forall d o o' c, o_cls (o_static o) = c -> scalar c = true -> update_opt d o = Ok o' ->
  Ok (o_value o') = match assoc (o_name (o_static o)) d with Some a => value_of_argval a | None => Ok (o_value o) end.
Proof.
  intros d o o' c C S H. unfold update_opt in H. rewrite C in H.
  destruct c; try discriminate; (destruct (assoc (o_name (o_static o)) d); [apply bind_ok in H; destruct H as [v [H1 H2]]; inversion H2; subst; cbn; auto|inversion H; reflexivity]).
Qed.

(* M1 *)
Theorem layering_scalar : forall fx cfg f d cfg' sec key opts o c,
  layer fx cfg f d = Ok cfg' -> assoc sec cfg = Some opts -> NoDup (map fst opts) -> assoc key opts = Some o ->
  o_cls (o_static o) = c -> scalar c = true -> typed c (o_value o) = true ->
  exists files o',
    config_files f d = Ok files /\ opt_at cfg' sec key = Some o' /\ o_static o' = o_static o /\
    Ok (o_value o') = spec_scalar fx c (o_value o) (strings_for key (section_items sec files)) (assoc (o_name (o_static o)) d).
Proof.
  intros fx cfg f d cfg' sec key opts o c H A ND K C S T.
  destruct (layering _ _ _ _ _ _ _ _ _ H A K) as [files [o1 [o2 [F [E [U R]]]]]].
  apply file_effect_items in E.
  destruct (scalar_fold fx opts key o c ND K C S _ _ _ eq_refl T E) as [V1 ST1].
  exists files, o2. split; [exact F|]. split; [exact R|]. split.
  - rewrite (update_opt_static _ _ _ U). exact ST1.
  - unfold spec_scalar. assert (C1 : o_cls (o_static o1) = c) by (rewrite ST1; exact C).
    rewrite (update_scalar _ _ _ _ C1 S U). rewrite ST1. destruct (assoc (o_name (o_static o)) d); [reflexivity|exact V1].
Qed.

(* --- lists --- *)
Definition cmd_words (cmd : option argval) : list str := match cmd with Some (DLists ll) => concat ll | _ => [] end.

Lemma list_fold : forall fx opts key o0, NoDup (map fst opts) -> assoc key opts = Some o0 -> o_cls (o_static o0) = CMulti ->
  forall items o o1 l, o_static o = o_static o0 -> o_value o = VList l ->
  foldR (item_effect fx opts key) items o = Ok o1 ->
  exists wss, Forall2 (fun s ws => shlex_split s = Ok ws) (strings_for key items) wss /\ o_value o1 = VList (l ++ concat wss)
              /\ o_static o1 = o_static o0.
Proof.
  intros fx opts key o0 ND K C. assert (NDc : is_dict_cls (o_cls (o_static o0)) = false) by (rewrite C; reflexivity).
  induction items as [|[k v] items IH]; intros o o1 l ST V H; cbn in H.
  - inversion H; subst. exists []. cbn. rewrite app_nil_r. auto.
  - apply bind_ok in H. destruct H as [o' [H1 H2]]. rewrite (item_effect_nondict _ _ _ _ _ _ ND K NDc) in H1. cbn [fst snd] in H1.
    unfold strings_for. cbn [filter fst]. destruct (str_eqb k key) eqn:E.
    + assert (ST' := set_from_string_static _ _ _ _ H1).
      unfold set_from_string in H1. rewrite ST, C, V in H1. apply bind_ok in H1. destruct H1 as [ws [W1 W2]]. inversion W2; subst o'.
      destruct (IH (set_value o (VList (l ++ ws))) o1 (l ++ ws)) as [wss [F2 [V2 S2]]]; [exact ST|reflexivity|exact H2|].
      exists (ws :: wss). cbn [map snd concat]. split; [constructor; assumption|]. split; [|exact S2].
      rewrite V2, <- app_assoc. reflexivity.
    + inversion H1; subst o'. eapply IH; eassumption.
Qed.

(* M2, lists: the default, then the words of every file line in order, then the words of every command-line occurrence *)
Theorem layering_list : forall fx cfg f d cfg' sec key opts o l0,
  layer fx cfg f d = Ok cfg' -> assoc sec cfg = Some opts -> NoDup (map fst opts) -> assoc key opts = Some o ->
  o_cls (o_static o) = CMulti -> o_value o = VList l0 ->
  exists files o' wss,
    config_files f d = Ok files /\ opt_at cfg' sec key = Some o' /\ o_static o' = o_static o /\
    Forall2 (fun s ws => shlex_split s = Ok ws) (strings_for key (section_items sec files)) wss /\
    o_value o' = VList (l0 ++ concat wss ++ cmd_words (assoc (o_name (o_static o)) d)).
Proof.
  intros fx cfg f d cfg' sec key opts o l0 H A ND K C V.
  destruct (layering _ _ _ _ _ _ _ _ _ H A K) as [files [o1 [o2 [F [E [U R]]]]]].
  apply file_effect_items in E.
  destruct (list_fold fx opts key o ND K C _ _ _ _ eq_refl V E) as [wss [F2 [V1 ST1]]].
  exists files, o2, wss. split; [exact F|]. split; [exact R|]. split; [rewrite (update_opt_static _ _ _ U); exact ST1|]. split; [exact F2|].
  unfold update_opt in U. rewrite ST1, C in U. unfold cmd_words.
  destruct (assoc (o_name (o_static o)) d) as [[]|]; try discriminate.
  - rewrite V1 in U. inversion U; subst o2. cbn. rewrite app_assoc. reflexivity.
  - inversion U; subst o2. rewrite V1, app_nil_r. reflexivity.
Qed.

(* --- dictionaries --- *)
(* Spec: the (key, string) bindings that a `k = v` line of the section contributes to the dictionary option [key] *)
Fixpoint entry_pairs_l (entries : list str) : option (list (str * str)) :=
  match entries with
  | [] => Some []
  | e :: es =>
      match split_once 61 e [], entry_pairs_l es with
      | [k; v], Some r => Some ((strip k, strip v) :: r)
      | _, _ => None
      end
  end.
Definition entry_pairs (s : str) : option (list (str * str)) := entry_pairs_l (split_on 44 s []).

Definition item_bindings (opts : section) (key : str) (kv : str * str) : option (list (str * str)) :=
  match assoc (fst kv) opts with
  | Some _ => if str_eqb (fst kv) key then entry_pairs (snd kv) else Some []     (* key = k1=v1, k2=v2 *)
  | None =>
      match first_dict opts with
      | Some dk => if str_eqb dk key then Some [kv] else Some []                  (* an undeclared key of the section *)
      | None => Some []
      end
  end.

Fixpoint bindings_of (opts : section) (key : str) (items : list (str * str)) : option (list (str * str)) :=
  match items with
  | [] => Some []
  | kv :: r =>
      match item_bindings opts key kv, bindings_of opts key r with
      | Some a, Some b => Some (a ++ b)
      | _, _ => None
      end
  end.

Definition occ_bindings (st : dstyle) (e : list str) : option (list (str * str)) :=
  match st, e with
  | DPairs, [k; v] => Some [(k, v)]
  | DLinks, [a; b] => Some [(a ++ L_mtitle, b)]
  | DLinks, [a; b; c] => Some [(a ++ L_murl, b); (a ++ L_mtitle, c)]
  | _, _ => None
  end.
Fixpoint occs_bindings (st : dstyle) (ll : list (list str)) : option (list (str * str)) :=
  match ll with
  | [] => Some []
  | e :: r => match occ_bindings st e, occs_bindings st r with Some a, Some b => Some (a ++ b) | _, _ => None end
  end.
Definition cmd_bindings (st : dstyle) (cmd : option argval) : option (list (str * str)) :=
  match cmd with Some (DLists ll) => occs_bindings st ll | _ => Some [] end.

(* a dictionary after the bindings bs, applied in order: a later binding of a key replaces an earlier one *)
Definition dict_after (d0 : list (str * entry)) (bs : list (str * entry)) : list (str * entry) :=
  fold_left (fun d ke => dset (fst ke) (snd ke) d) bs d0.
Definition converted (ek : ekind) (kv : str * str) (ke : str * entry) : Prop :=
  fst ke = fst kv /\ entry_from_string ek (snd kv) = Ok (snd ke).

Lemma dict_after_app : forall d a b, dict_after d (a ++ b) = dict_after (dict_after d a) b.
Proof. intros. unfold dict_after. apply fold_left_app. Qed.

Lemma dict_set_fold : forall ek st bs o o1 d,
  o_cls (o_static o) = CDict ek st -> o_value o = VDict d ->
  foldR (fun o kv => dict_set o (fst kv) (snd kv)) bs o = Ok o1 ->
  exists kes, Forall2 (converted ek) bs kes /\ o_value o1 = VDict (dict_after d kes) /\ o_static o1 = o_static o.
Proof.
  intros ek st. induction bs as [|[k v] bs IH]; intros o o1 d C V H; cbn in H.
  - inversion H; subst. exists []. cbn. auto.
  - apply bind_ok in H. destruct H as [o' [H1 H2]]. cbn [fst snd] in H1.
    assert (ST := dict_set_static _ _ _ _ H1). unfold dict_set in H1. rewrite C, V in H1.
    apply bind_ok in H1. destruct H1 as [e [E1 E2]]. inversion E2; subst o'.
    destruct (IH (set_value o (VDict (dset k e d))) o1 (dset k e d)) as [kes [F [V1 S1]]]; [exact C|reflexivity|exact H2|].
    exists ((k, e) :: kes). split; [constructor; [split; [reflexivity|exact E1]|exact F]|]. split; [exact V1|exact S1].
Qed.

Lemma set_dict_pairs : forall fx o s o' ek st, o_cls (o_static o) = CDict ek st ->
  set_from_string fx o s = Ok o' ->
  exists bs, entry_pairs s = Some bs /\ foldR (fun o kv => dict_set o (fst kv) (snd kv)) bs o = Ok o'.
Proof.
  intros fx o s o' ek st C H. unfold set_from_string in H. rewrite C in H. unfold entry_pairs.
  clear C. revert o H. induction (split_on 44 s []) as [|e es IH]; intros o H; cbn in H.
  - inversion H; subst. exists []. cbn. auto.
  - apply bind_ok in H. destruct H as [o1 [H1 H2]]. cbn.
    destruct (split_once 61 e []) as [|k [|v [|z rest]]]; try discriminate.
    destruct (IH _ H2) as [bs [B1 B2]]. rewrite B1. exists ((strip k, strip v) :: bs). split; [reflexivity|].
    cbn. rewrite H1. cbn. exact B2.
Qed.

Lemma dict_fold : forall fx opts key o0 ek st, assoc key opts = Some o0 -> o_cls (o_static o0) = CDict ek st ->
  forall items o o1, o_static o = o_static o0 ->
  foldR (item_effect fx opts key) items o = Ok o1 ->
  exists bs, bindings_of opts key items = Some bs /\ foldR (fun o kv => dict_set o (fst kv) (snd kv)) bs o = Ok o1.
Proof.
  intros fx opts key o0 ek st K C. induction items as [|[k v] items IH]; intros o o1 ST H; cbn in H.
  - inversion H; subst. exists []. cbn. auto.
  - apply bind_ok in H. destruct H as [o' [H1 H2]].
    assert (E : exists a, item_bindings opts key (k, v) = Some a /\ foldR (fun o kv => dict_set o (fst kv) (snd kv)) a o = Ok o' /\ o_static o' = o_static o).
    { unfold item_effect in H1. unfold item_bindings. cbn [fst snd] in *. destruct (assoc k opts).
      - destruct (str_eqb k key).
        + assert (S1 := set_from_string_static _ _ _ _ H1).
          destruct (set_dict_pairs fx o v o' ek st) as [bs [B1 B2]]; [rewrite ST; exact C|exact H1|]. exists bs. auto.
        + inversion H1; subst. exists []. cbn. auto.
      - destruct (first_dict opts) as [dk|]; [|inversion H1; subst; exists []; cbn; auto].
        destruct (str_eqb dk key); [|inversion H1; subst; exists []; cbn; auto].
        exists [(k, v)]. cbn. rewrite H1. cbn. split; [reflexivity|]. split; [reflexivity|]. eapply dict_set_static. exact H1. }
    destruct E as [a [A1 [A2 A3]]]. destruct (IH o' o1) as [bs [B1 B2]]; [congruence|exact H2|].
    cbn. rewrite A1, B1. exists (a ++ bs). split; [reflexivity|]. rewrite foldR_app, A2. cbn. exact B2.
Qed.

Lemma update_dict : forall d o o' ek st, o_cls (o_static o) = CDict ek st -> update_opt d o = Ok o' ->
  exists bs, cmd_bindings st (assoc (o_name (o_static o)) d) = Some bs /\ foldR (fun o kv => dict_set o (fst kv) (snd kv)) bs o = Ok o'.
Proof.
  intros d o o' ek st C H. unfold update_opt in H. rewrite C in H. unfold cmd_bindings.
  destruct st; (destruct (assoc (o_name (o_static o)) d) as [[]|]; try discriminate; [|inversion H; subst; exists []; cbn; auto]).
  - revert o C H. induction l as [|e ll IH]; intros o C H; cbn in H.
    + inversion H; subst. exists []. cbn. auto.
    + apply bind_ok in H. destruct H as [o1 [H1 H2]]. destruct e as [|k [|v [|z rest]]]; try discriminate.
      destruct (IH o1) as [bs [B1 B2]]; [rewrite (dict_set_static _ _ _ _ H1); exact C|exact H2|].
      cbn. rewrite B1. exists ((k, v) :: bs). split; [reflexivity|]. cbn. rewrite H1. cbn. exact B2.
  - revert o C H. induction l as [|e ll IH]; intros o C H; cbn in H.
    + inversion H; subst. exists []. cbn. auto.
    + apply bind_ok in H. destruct H as [o1 [H1 H2]]. destruct e as [|a [|b [|c [|z rest]]]]; try discriminate.
      * destruct (IH o1) as [bs [B1 B2]]; [rewrite (dict_set_static _ _ _ _ H1); exact C|exact H2|].
        cbn. rewrite B1. exists ((a ++ L_mtitle, b) :: bs). split; [reflexivity|]. cbn. rewrite H1. cbn. exact B2.
      * apply bind_ok in H1. destruct H1 as [o3 [H3 H4]].
        destruct (IH o1) as [bs [B1 B2]]; [rewrite (dict_set_static _ _ _ _ H4), (dict_set_static _ _ _ _ H3); exact C|exact H2|].
        cbn. rewrite B1. exists ((a ++ L_murl, b) :: (a ++ L_mtitle, c) :: bs). split; [reflexivity|]. cbn. rewrite H3. cbn. rewrite H4. cbn. exact B2.
Qed.

(* M2, dictionaries: the default entries, then the bindings of the files in order, then those of the command line *)
Theorem layering_dict : forall fx cfg f d cfg' sec key opts o ek st d0,
  layer fx cfg f d = Ok cfg' -> assoc sec cfg = Some opts -> assoc key opts = Some o ->
  o_cls (o_static o) = CDict ek st -> o_value o = VDict d0 ->
  exists files o' fbs cbs kes,
    config_files f d = Ok files /\ opt_at cfg' sec key = Some o' /\ o_static o' = o_static o /\
    bindings_of opts key (section_items sec files) = Some fbs /\
    cmd_bindings st (assoc (o_name (o_static o)) d) = Some cbs /\
    Forall2 (converted ek) (fbs ++ cbs) kes /\
    o_value o' = VDict (dict_after d0 kes).
Proof.
  intros fx cfg f d cfg' sec key opts o ek st d0 H A K C V.
  destruct (layering _ _ _ _ _ _ _ _ _ H A K) as [files [o1 [o2 [F [E [U R]]]]]].
  apply file_effect_items in E.
  destruct (dict_fold fx opts key o ek st K C _ _ _ eq_refl E) as [fbs [B1 B2]].
  destruct (dict_set_fold ek st _ _ _ _ C V B2) as [kes1 [F1 [V1 S1]]].
  assert (C1 : o_cls (o_static o1) = CDict ek st) by (rewrite S1; exact C).
  destruct (update_dict _ _ _ _ _ C1 U) as [cbs [D1 D2]].
  destruct (dict_set_fold ek st _ _ _ _ C1 V1 D2) as [kes2 [F2 [V2 S2]]].
  exists files, o2, fbs, cbs, (kes1 ++ kes2). rewrite S1 in D1.
  repeat split; try assumption.
  - congruence.
  - apply Forall2_app; assumption.
  - rewrite V2, dict_after_app. reflexivity.
Qed.

(* right bias: the entry found under k is the last binding of k, else the default's *)
Lemma assoc_dset_same : forall A k (v : A) d, assoc k (dset k v d) = Some v.
Proof.
  intros A k v. induction d as [|[k2 v2] d IH]; cbn; [rewrite str_eqb_refl; reflexivity|].
  destruct (str_eqb k k2) eqn:E; cbn; rewrite E; [reflexivity|exact IH].
Qed.
Lemma assoc_dset_other : forall A k k' (v : A) d, k' <> k -> assoc k' (dset k v d) = assoc k' d.
Proof.
  intros A k k' v. induction d as [|[k2 v2] d IH]; intro N; cbn.
  - apply str_eqb_neq in N. rewrite N. reflexivity.
  - destruct (str_eqb k k2) eqn:E; cbn.
    + apply str_eqb_eq in E. subst k2. apply str_eqb_neq in N. rewrite N. reflexivity.
    + destruct (str_eqb k' k2); [reflexivity|]. apply IH. exact N.
Qed.

Theorem dict_after_lookup : forall k bs d,
  assoc k (dict_after d bs) =
  match last_opt (filter (fun ke => str_eqb (fst ke) k) bs) with Some ke => Some (snd ke) | None => assoc k d end.
Proof.
  intro k. induction bs as [|[k2 e] bs IH]; intro d; cbn; [reflexivity|].
  change (fold_left _ bs (dset k2 e d)) with (dict_after (dset k2 e d) bs). rewrite IH.
  destruct (str_eqb k2 k) eqn:E; cbn.
  - apply str_eqb_eq in E. subst k2. destruct (last_opt (filter (fun ke => str_eqb (fst ke) k) bs)); [reflexivity|].
    cbn. apply assoc_dset_same.
  - destruct (last_opt (filter (fun ke => str_eqb (fst ke) k) bs)); [reflexivity|].
    apply assoc_dset_other. apply str_eqb_neq in E. congruence.
Qed.

(* ================================================================================================= *)
(* Part 4: M3 -- booleans written in configuration files *)

Definition true_words : list str := [L_one; L_yes; L_true; L_on].
Definition false_words : list str := [L_zero; L_no; L_false; L_off].

Theorem bool_from_file : forall s,
  (In (map lower s) true_words -> bool_of_string true s = Ok true) /\
  (In (map lower s) false_words -> bool_of_string true s = Ok false) /\
  (~ In (map lower s) true_words -> ~ In (map lower s) false_words -> bool_of_string true s = Crash ValueError).
Proof.
  intro s. unfold bool_of_string. split; [|split].
  - intros [H|[H|[H|[H|[]]]]]; rewrite <- H; reflexivity.
  - intros [H|[H|[H|[H|[]]]]]; rewrite <- H; reflexivity.
  - intros NT NF.
    assert (X : forall w, In w true_words \/ In w false_words -> str_eqb (map lower s) w = false).
    { intros w [I|I]; apply str_eqb_neq; intro E; subst w; contradiction. }
    repeat rewrite X by (cbn; tauto). reflexivity.
Qed.

(* what an option of class BooleanOption holds after a line `key = s` (repaired code) *)
Theorem bool_option_from_file : forall o s (b : bool),
  o_cls (o_static o) = CBool -> In (map lower s) (if b then true_words else false_words) ->
  set_from_string true o s = Ok (set_value o (VBool b)).
Proof.
  intros o s b C I. unfold set_from_string. rewrite C. destruct (bool_from_file s) as [T [F _]].
  destruct b; [rewrite (T I)|rewrite (F I)]; reflexivity.
Qed.

(* the code before the repair: inherited ConfigOption.setFromString = bool(string) *)
Theorem bool_from_file_refuted : exists s, In (map lower s) false_words /\ bool_of_string false s = Ok true.
Proof. exists L_no. split; [cbn; tauto|reflexivity]. Qed.

(* ================================================================================================= *)
(* Part 5: M4 -- interpolation *)

(* Spec: a template is a sequence of pieces; its printed form is what the user writes in a value *)
Inductive piece :=
| PChar (c : Z)        (* a character other than % *)
| PPct                 (* %% *)
| PRefS (k : str)      (* %(k)s *)
| PRefD (k : str).     (* %(k)d *)

Definition no_paren (k : str) : bool := forallb (fun c => negb (c =? 40) && negb (c =? 41)) k.
Definition wf_piece (p : piece) : bool :=
  match p with PChar c => negb (c =? 37) | PPct => true | PRefS k | PRefD k => no_paren k end.

Definition pr_piece (p : piece) : str :=
  match p with
  | PChar c => [c]
  | PPct => [37; 37]
  | PRefS k => 37 :: 40 :: k ++ [41; 115]
  | PRefD k => 37 :: 40 :: k ++ [41; 100]
  end.
Definition pr_t (t : list piece) : str := flat_map pr_piece t.

(* what a piece stands for, given the current value [L k] of every option name k *)
Definition den_piece (L : str -> res value) (p : piece) : res str :=
  match p with
  | PChar c => Ok [c]
  | PPct => Ok [37]
  | PRefS k => v <- L k ;; fmt_s v
  | PRefD k => v <- L k ;; fmt_d v
  end.
Fixpoint den_t (L : str -> res value) (t : list piece) : res str :=
  match t with
  | [] => Ok []
  | p :: t' => a <- den_piece L p ;; b <- den_t L t' ;; Ok (a ++ b)
  end.

Lemma interp_key : forall L k rest acc out, no_paren k = true ->
  interp L (k ++ 41 :: rest) (IKey 1 acc) out = (v <- L (rev acc ++ k) ;; interp L rest (IConv v) out).
Proof.
  intros L. induction k as [|c k IH]; intros rest acc out NP; cbn.
  - rewrite app_nil_r. reflexivity.
  - cbn in NP. apply andb_true_iff in NP. destruct NP as [NP1 NP2]. apply andb_true_iff in NP1. destruct NP1 as [N40 N41].
    apply negb_true_iff in N40, N41. rewrite N41, N40. rewrite IH; [|exact NP2]. cbn. rewrite <- app_assoc. reflexivity.
Qed.

Lemma bind_assoc : forall A B C (r : res A) (f : A -> res B) (g : B -> res C), bind (bind r f) g = bind r (fun a => bind (f a) g).
Proof. intros A B C [a|k| |] f g; reflexivity. Qed.

Lemma interp_piece : forall L p rest out, wf_piece p = true ->
  interp L (pr_piece p ++ rest) IText out = (s <- den_piece L p ;; interp L rest IText (rev s ++ out)).
Proof.
  intros L p rest out W. destruct p as [c| |k|k]; cbn in W |- *.
  - apply negb_true_iff in W. rewrite W. reflexivity.
  - reflexivity.
  - rewrite <- app_assoc. cbn. rewrite interp_key; [|exact W]. cbn. rewrite bind_assoc. reflexivity.
  - rewrite <- app_assoc. cbn. rewrite interp_key; [|exact W]. cbn. rewrite bind_assoc. reflexivity.
Qed.

Lemma interp_template_gen : forall L t rest out, forallb wf_piece t = true ->
  interp L (pr_t t ++ rest) IText out = (s <- den_t L t ;; interp L rest IText (rev s ++ out)).
Proof.
  intros L. induction t as [|p t IH]; intros rest out W; cbn.
  - reflexivity.
  - cbn in W. apply andb_true_iff in W. destruct W as [W1 W2]. rewrite <- app_assoc, interp_piece; [|exact W1].
    rewrite bind_assoc. destruct (den_piece L p) as [a|k| |]; cbn; try reflexivity.
    rewrite IH; [|exact W2]. rewrite bind_assoc. destruct (den_t L t) as [b|k| |]; cbn; try reflexivity.
    rewrite rev_app_distr, <- app_assoc. reflexivity.
Qed.

(* M4a: value % wrapper on the printed form of any template is the concatenation of what its pieces stand for *)
Theorem interp_template : forall L t, forallb wf_piece t = true -> interp L (pr_t t) IText [] = den_t L t.
Proof.
  intros L t W. rewrite <- (app_nil_r (pr_t t)), interp_template_gen; [|exact W].
  destruct (den_t L t) as [s|k| |]; cbn; try reflexivity. rewrite app_nil_r, rev_involutive. reflexivity.
Qed.

(* M4b: doubling the percent signs makes any string read back as itself *)
Definition escape_percent (s : str) : str := flat_map (fun c => if c =? 37 then [37; 37] else [c]) s.

Lemma interp_escape_gen : forall L s rest out,
  interp L (escape_percent s ++ rest) IText out = interp L rest IText (rev s ++ out).
Proof.
  intros L. induction s as [|c s IH]; intros rest out; cbn; [reflexivity|].
  destruct (c =? 37) eqn:E; cbn.
  - rewrite IH. apply Z.eqb_eq in E. subst c. rewrite <- app_assoc. reflexivity.
  - rewrite E, IH, <- app_assoc. reflexivity.
Qed.

Theorem interp_roundtrip : forall L s, interp L (escape_percent s) IText [] = Ok s.
Proof.
  intros L s. rewrite <- (app_nil_r (escape_percent s)), interp_escape_gen. cbn. rewrite app_nil_r, rev_involutive. reflexivity.
Qed.

(* InterpolationWrapper.__getitem__ as ConfigSection.__getitem__ uses it with [n] levels of nesting left *)
Definition wrapper (n : nat) (cfg : config) (k : str) : res value :=
  (fix wr (secs : config) : res value :=
     match secs with
     | [] => Crash KeyError
     | (_, so) :: secs' => let r := sget n cfg so k in if is_keyerror r then wr secs' else r
     end) cfg.

Fixpoint wr_go (n : nat) (full : config) (k : str) (secs : config) : res value :=
  match secs with
  | [] => Crash KeyError
  | (_, so) :: secs' => if is_keyerror (sget n full so k) then wr_go n full k secs' else sget n full so k
  end.
Lemma wrapper_go : forall n cfg k, wrapper n cfg k = wr_go n cfg k cfg.
Proof.
  intros n cfg k. unfold wrapper. generalize cfg at 3 5. intro secs.
  induction secs as [|[s so] secs IH]; cbn [wr_go]; [reflexivity|]. rewrite IH. reflexivity.
Qed.

Lemma sget_unfold : forall n cfg opts key,
  sget (S n) cfg opts key =
  match assoc key opts with
  | None => Crash KeyError
  | Some o =>
      match o_value o with
      | VStr s => t <- interp (wrapper n cfg) s IText [] ;; Ok (VStr t)
      | VList (x :: l) => ts <- mapR (fun x => interp (wrapper n cfg) x IText []) (x :: l) ;; Ok (VList ts)
      | v => Ok v
      end
  end.
Proof. reflexivity. Qed.

(* M4c: config[section][key] for a string option holding the printed form of a template *)
Theorem get_template : forall n cfg opts key o t,
  assoc key opts = Some o -> o_value o = VStr (pr_t t) -> forallb wf_piece t = true ->
  sget (S n) cfg opts key = (s <- den_t (wrapper n cfg) t ;; Ok (VStr s)).
Proof. intros n cfg opts key o t K V W. rewrite sget_unfold, K, V, interp_template; [reflexivity|exact W]. Qed.

(* ... a string option set to escape_percent s reads back as s, whatever the rest of the configuration *)
Theorem get_roundtrip : forall n cfg opts key o s,
  assoc key opts = Some o -> o_value o = VStr (escape_percent s) -> sget (S n) cfg opts key = Ok (VStr s).
Proof. intros n cfg opts key o s K V. rewrite sget_unfold, K, V, interp_roundtrip. reflexivity. Qed.

(* ... every other kind of value reads back as it was set *)
Theorem get_plain : forall n cfg opts key o,
  assoc key opts = Some o -> (forall s, o_value o <> VStr s) -> (forall x l, o_value o <> VList (x :: l)) ->
  sget (S n) cfg opts key = Ok (o_value o).
Proof.
  intros n cfg opts key o K NS NL. rewrite sget_unfold, K. destruct (o_value o) as [s| | | |[|x l]|] eqn:V; try reflexivity.
  - exfalso. eapply NS. reflexivity.
  - exfalso. eapply NL. reflexivity.
Qed.

(* M4d: the name k stands for the CURRENT value of the option stored under k in the first section that has it *)
Fixpoint first_with (k : str) (cfg : config) : option section :=
  match cfg with
  | [] => None
  | (_, so) :: cfg' => match assoc k so with Some _ => Some so | None => first_with k cfg' end
  end.

Theorem wrapper_current : forall n cfg k so,
  first_with k cfg = Some so -> is_keyerror (sget (S n) cfg so k) = false -> wrapper (S n) cfg k = sget (S n) cfg so k.
Proof.
  intros n cfg k so. rewrite wrapper_go. generalize cfg at 2 3 5 as full. intro full.
  induction cfg as [|[s1 o1] cfg IH]; intros F NK; cbn [first_with] in F; [discriminate|]. cbn [wr_go].
  destruct (assoc k o1) eqn:A.
  - inversion F; subst o1. rewrite NK. reflexivity.
  - rewrite (sget_unfold n full o1), A. cbn [is_keyerror]. rewrite Z.eqb_refl. apply IH; assumption.
Qed.

Theorem wrapper_missing : forall n cfg k, first_with k cfg = None -> wrapper (S n) cfg k = Crash KeyError.
Proof.
  intros n cfg k. rewrite wrapper_go. generalize cfg at 2 as full. intro full.
  induction cfg as [|[s1 o1] cfg IH]; intro F; cbn [first_with] in F; cbn [wr_go]; [reflexivity|].
  destruct (assoc k o1) eqn:A; [discriminate|]. rewrite (sget_unfold n full o1), A. cbn [is_keyerror]. rewrite Z.eqb_refl. apply IH. exact F.
Qed.

(* ================================================================================================= *)
(* Part 6: fuel.  More fuel never changes an answer other than OutOfFuel. *)

Definition le_res {A} (r r' : res A) : Prop := r = OutOfFuel \/ r = r'.

Lemma le_bind : forall A B (r r' : res A) (f f' : A -> res B),
  le_res r r' -> (forall a, le_res (f a) (f' a)) -> le_res (bind r f) (bind r' f').
Proof.
  intros A B r r' f f' [H|H] Hf; subst; [left; reflexivity|].
  destruct r' as [a|k| |]; cbn; try (right; reflexivity). apply Hf.
Qed.

Lemma le_refl : forall A (r : res A), le_res r r.
Proof. intros. right. reflexivity. Qed.

Lemma interp_mono : forall L L', (forall k, le_res (L k) (L' k)) ->
  forall s st out, le_res (interp L s st out) (interp L' s st out).
Proof.
  intros L L' HL. induction s as [|c s IH]; intros st out; cbn; [apply le_refl|].
  destruct st as [| |depth key|v].
  - destruct (c =? 37); apply IH.
  - destruct (c =? 37); [apply IH|]. destruct (c =? 40); [apply IH|apply le_refl].
  - destruct (c =? 41).
    + destruct depth as [|[|d]]; try apply IH; (apply le_bind; [apply HL|intro; apply IH]).
    + destruct (c =? 40); apply IH.
  - destruct (c =? 115); [apply le_bind; [apply le_refl|intro; apply IH]|].
    destruct (c =? 100); [apply le_bind; [apply le_refl|intro; apply IH]|apply le_refl].
Qed.

Lemma mapR_mono : forall A B (f f' : A -> res B), (forall a, le_res (f a) (f' a)) -> forall l, le_res (mapR f l) (mapR f' l).
Proof.
  intros A B f f' Hf. induction l as [|a l IH]; cbn; [apply le_refl|].
  apply le_bind; [apply Hf|]. intro b. apply le_bind; [apply IH|]. intro. apply le_refl.
Qed.

Theorem sget_mono : forall n cfg opts key, le_res (sget n cfg opts key) (sget (S n) cfg opts key).
Proof.
  induction n as [|n IH]; intros cfg opts key; [left; reflexivity|].
  rewrite (sget_unfold (S n)), (sget_unfold n).
  destruct (assoc key opts) as [o|]; [|apply le_refl].
  assert (W : forall k, le_res (wrapper n cfg k) (wrapper (S n) cfg k)).
  { intro k. rewrite !wrapper_go. generalize cfg at 1 3 as full. intro full.
    induction cfg as [|[s1 o1] cfg IHc]; cbn [wr_go]; [apply le_refl|].
    destruct (IH full o1 k) as [E|E]; [left; rewrite E; reflexivity|]. rewrite <- E.
    destruct (is_keyerror (sget n full o1 k)); [apply IHc|apply le_refl]. }
  destruct (o_value o) as [s| | | |[|x l]|]; try apply le_refl.
  - apply le_bind; [apply interp_mono; exact W|intro; apply le_refl].
  - apply le_bind; [apply mapR_mono; intro; apply interp_mono; exact W|intro; apply le_refl].
Qed.

Corollary sget_fuel : forall n m cfg opts key r,
  sget n cfg opts key = r -> r <> OutOfFuel -> (n <= m)%nat -> sget m cfg opts key = r.
Proof.
  intros n m cfg opts key r H NF LE. induction LE as [|m LE IH]; [exact H|].
  destruct (sget_mono m cfg opts key) as [E|E]; [congruence|]. rewrite <- E. exact IH.
Qed.

(* ================================================================================================= *)
(* Part 7: the command line.  Spec: a well-formed command line is a sequence of option occurrences (a registered option
   string followed by as many plain arguments as its nargs demands) and positional strings, no positional directly
   after an occurrence that could still take it. *)

Inductive item :=
| IOcc (flag : str) (a : act) (args : list str)
| IPos (s : str).

Definition plain (s : str) : bool := match s with [] => true | c :: _ => negb (c =? 45) end.
Definition flag_like (s : str) : bool := match s with c :: _ => (c =? 45) && forallb is_ascii s | [] => false end.

Definition pr_item (it : item) : list str := match it with IOcc flag _ args => flag :: args | IPos s => [s] end.
Definition cl_item (it : item) : list tokc := match it with IOcc _ a args => TO a None :: map TA args | IPos s => [TA s] end.
Definition argv_of (items : list item) : list str := flat_map pr_item items.

(* [open]: the previous occurrence would swallow a following plain string *)
Fixpoint wf_items (tbl : list (str * act)) (open : bool) (items : list item) : Prop :=
  match items with
  | [] => True
  | IPos s :: r => plain s = true /\ open = false /\ wf_items tbl false r
  | IOcc flag a args :: r =>
      flag_like flag = true /\ assoc flag tbl = Some a /\ forallb plain args = true /\
      enough (act_nargs a) (length args) = true /\ wf_items tbl (can_take (act_nargs a) (length args)) r
  end.

Fixpoint count_pos (items : list item) : nat :=
  match items with [] => O | IPos _ :: r => S (count_pos r) | IOcc _ _ _ :: r => count_pos r end.

(* Spec of the parsed command line: the actions of the occurrences, in order *)
Definition step_item (d : data) (it : item) : res data :=
  match it with IOcc _ a args => take_action a args d | IPos _ => Ok d end.

Lemma mapR_app : forall A B (f : A -> res B) l1 l2 r1 r2, mapR f l1 = Ok r1 -> mapR f l2 = Ok r2 -> mapR f (l1 ++ l2) = Ok (r1 ++ r2).
Proof.
  intros A B f. induction l1 as [|x l1 IH]; intros l2 r1 r2 H1 H2; cbn in *.
  - inversion H1; subst. exact H2.
  - apply bind_ok in H1. destruct H1 as [y [Y H1]]. apply bind_ok in H1. destruct H1 as [ys [YS H1]]. inversion H1; subst r1.
    rewrite Y. cbn. rewrite (IH _ _ _ YS H2). reflexivity.
Qed.

Lemma parse_plain : forall tbl s, plain s = true -> parse_optional tbl s = Ok (TA s).
Proof. intros tbl [|c s] H; cbn in *; [reflexivity|]. rewrite H. reflexivity. Qed.

Lemma parse_flag : forall tbl s a, flag_like s = true -> assoc s tbl = Some a -> parse_optional tbl s = Ok (TO a None).
Proof.
  intros tbl [|c s] a H A; cbn in H; [discriminate|]. apply andb_true_iff in H. destruct H as [H1 H2].
  unfold parse_optional. rewrite H1. cbn [negb]. change (forallb is_ascii (c :: s)) with (is_ascii c && forallb is_ascii s). rewrite H2.
  cbn [negb]. rewrite A. reflexivity.
Qed.

Lemma classify_items : forall tbl items open, wf_items tbl open items ->
  mapR (parse_optional tbl) (argv_of items) = Ok (flat_map cl_item items).
Proof.
  intros tbl. induction items as [|[flag a args|s] r IH]; intros open W; cbn in W |- *; [reflexivity| |].
  - destruct W as [W1 [W2 [W3 [W4 W5]]]]. rewrite (parse_flag _ _ _ W1 W2). cbn.
    assert (E : mapR (parse_optional tbl) (args ++ argv_of r) = Ok (map TA args ++ flat_map cl_item r)).
    { apply mapR_app; [|eapply IH; exact W5]. clear -W3. induction args as [|x args IHa]; cbn in *; [reflexivity|].
      apply andb_true_iff in W3. destruct W3 as [P1 P2]. rewrite (parse_plain _ _ P1). cbn. rewrite (IHa P2). reflexivity. }
    unfold argv_of in E. rewrite E. reflexivity.
  - destruct W as [W1 [W2 W3]]. rewrite (parse_plain _ _ W1). cbn. unfold argv_of in IH. rewrite (IH _ W3). reflexivity.
Qed.

Lemma enough_can_take : forall n k i, enough n k = true -> (i < k)%nat -> can_take n i = true.
Proof.
  intros n k i E L. destruct n; unfold enough, can_take in *; try reflexivity.
  - apply Nat.eqb_eq in E. lia.
  - apply Nat.eqb_eq in E. apply Nat.ltb_lt. lia.
  - apply Nat.eqb_eq in E. apply Nat.ltb_lt. lia.
Qed.

Lemma consume_args : forall a args got rest d npos,
  (forall i, (i < length args)%nat -> can_take (act_nargs a) (length got + i) = true) ->
  consume (map TA args ++ rest) (Some (a, got)) d npos = consume rest (Some (a, got ++ args)) d npos.
Proof.
  intros a. induction args as [|x args IH]; intros got rest d npos H; cbn [map app].
  - rewrite app_nil_r. reflexivity.
  - cbn [consume]. assert (C := H O). rewrite Nat.add_0_r in C. rewrite C; [|cbn; lia].
    rewrite IH.
    + rewrite <- app_assoc. reflexivity.
    + intros i Hi. rewrite app_length. cbn. replace (length got + 1 + i)%nat with (length got + S i)%nat by lia. apply H. cbn. lia.
Qed.

Definition pending_open (p : option (act * list str)) : bool :=
  match p with Some (a, got) => can_take (act_nargs a) (length got) | None => false end.

Lemma consume_items : forall tbl items p d npos d0 d1,
  wf_items tbl (pending_open p) items ->
  (match p with Some (a, got) => enough (act_nargs a) (length got) = true | None => True end) ->
  finish p d = Ok d0 -> foldR step_item items d0 = Ok d1 ->
  consume (flat_map cl_item items) p d npos = if Nat.eqb (npos + count_pos items) 1 then Ok d1 else Crash SystemExit.
Proof.
  intros tbl. induction items as [|[flag a args|s] r IH]; intros p d npos d0 d1 W E F HS; cbn [flat_map cl_item count_pos].
  - cbn in HS. inversion HS; subst d1. cbn [consume]. rewrite F. cbn. rewrite Nat.add_0_r. reflexivity.
  - cbn in W. destruct W as [W1 [W2 [W3 [W4 W5]]]]. cbn in HS. apply bind_ok in HS. destruct HS as [d2 [S1 S2]].
    cbn [app consume]. rewrite F. cbn [bind]. rewrite consume_args.
    + cbn [app]. eapply (IH (Some (a, args))); [exact W5|exact W4| |exact S2]. cbn. rewrite W4. exact S1.
    + intros i Hi. cbn. eapply enough_can_take; eassumption.
  - cbn in W. destruct W as [W1 [W2 W3]]. cbn in HS. cbn [app consume].
    replace (npos + S (count_pos r))%nat with (S npos + count_pos r)%nat by lia.
    destruct p as [[a got]|].
    + cbn in W2. rewrite W2. rewrite F. cbn [bind]. eapply (IH None); [exact W3|exact Logic.I|reflexivity|exact HS].
    + cbn in F. inversion F; subst d0. eapply (IH None); [exact W3|exact Logic.I|reflexivity|exact HS].
Qed.

(* M6: argparse, as modelled, reads a well-formed command line as the sequence of its occurrences *)
Theorem parse_args_wf : forall tbl items d,
  wf_items tbl false items -> count_pos items = 1%nat -> foldR step_item items [] = Ok d ->
  parse_args tbl (argv_of items) = Ok d.
Proof.
  intros tbl items d W C S. unfold parse_args. rewrite (classify_items _ _ _ W). cbn [bind].
  rewrite (consume_items tbl items None [] 0 [] d W Logic.I eq_refl S). rewrite C. reflexivity.
Qed.

(* what the occurrences leave under a dest *)
Definition act_dest (a : act) : option str :=
  match a with AStore n _ | ATrue n | AFalse n | AAppend n _ => Some n | AHelp => None end.
Definition for_dest (name : str) (a : act) : bool := match act_dest a with Some n => str_eqb n name | None => false end.
Fixpoint occs_for (name : str) (items : list item) : list (act * list str) :=
  match items with
  | [] => []
  | IOcc _ a args :: r => if for_dest name a then (a, args) :: occs_for name r else occs_for name r
  | IPos _ :: r => occs_for name r
  end.

Definition scalar_act (a : act) : bool := match a with AStore _ _ | ATrue _ | AFalse _ => true | _ => false end.
Definition occ_result (a : act) (args : list str) : res argval :=
  match a, args with
  | AStore _ t, [s] => convert_arg t s
  | ATrue _, _ => Ok (DBool true)
  | AFalse _, _ => Ok (DBool false)
  | _, _ => Crash SystemExit
  end.

Lemma take_action_other : forall a args d d' name, take_action a args d = Ok d' -> for_dest name a = false -> assoc name d' = assoc name d.
Proof.
  intros a args d d' name H N. unfold for_dest in N.
  assert (X : forall n (v : argval), act_dest a = Some n -> assoc name (dset n v d) = assoc name d).
  { intros n v E. rewrite E in N. apply assoc_dset_other. apply str_eqb_neq in N. congruence. }
  destruct a as [dest t|dest|dest|dest n|]; cbn in H.
  - destruct args as [|s [|]]; try discriminate. apply bind_ok in H. destruct H as [v [_ H]]. inversion H; subst. apply X. reflexivity.
  - inversion H; subst. apply X. reflexivity.
  - inversion H; subst. apply X. reflexivity.
  - destruct n.
    2: { destruct args as [|s [|]]; try discriminate; destruct (assoc dest d) as [[]|]; try discriminate; inversion H; subst; apply X; reflexivity. }
    all: destruct (assoc dest d) as [[]|]; try discriminate; inversion H; subst; apply X; reflexivity.
  - discriminate.
Qed.

(* M7 (scalars and the --x / --no-x pairs): the last occurrence for a dest decides; no occurrence leaves None *)
Theorem data_scalar : forall name items d d',
  foldR step_item items d = Ok d' ->
  (forall a args, In (a, args) (occs_for name items) -> scalar_act a = true) ->
  match last_opt (occs_for name items) with
  | Some (a, args) => exists v, occ_result a args = Ok v /\ assoc name d' = Some v
  | None => assoc name d' = assoc name d
  end.
Proof.
  intros name. induction items as [|[flag a args|s] r IH]; intros d d' H SC; cbn in H.
  - inversion H; subst. reflexivity.
  - apply bind_ok in H. destruct H as [d1 [H1 H2]]. cbn [occs_for] in *. destruct (for_dest name a) eqn:FD.
    + assert (IHr := IH _ _ H2 (fun a0 args0 I => SC a0 args0 (or_intror I))). cbn [last_opt].
      destruct (last_opt (occs_for name r)) as [[a1 args1]|]; [exact IHr|].
      rewrite IHr. assert (SA := SC a args (or_introl eq_refl)).
      unfold for_dest in FD. destruct a as [dest t|dest|dest|dest n|]; try discriminate; cbn in FD; apply str_eqb_eq in FD; subst dest; cbn in H1.
      * destruct args as [|s [|]]; try discriminate. apply bind_ok in H1. destruct H1 as [v [V H1]]. inversion H1; subst.
        exists v. split; [exact V|apply assoc_dset_same].
      * inversion H1; subst. exists (DBool true). split; [reflexivity|apply assoc_dset_same].
      * inversion H1; subst. exists (DBool false). split; [reflexivity|apply assoc_dset_same].
    + assert (IHr := IH _ _ H2 SC). rewrite (take_action_other _ _ _ _ _ H1 FD) in IHr. exact IHr.
  - apply IH; assumption.
Qed.

(* M7 (lists and dictionaries): every occurrence contributes its argument list, in order *)
Definition append_act (a : act) : bool := match a with AAppend _ N1 => false | AAppend _ _ => true | _ => false end.
Definition lists_of (v : option argval) : list (list str) := match v with Some (DLists l) => l | _ => [] end.

Theorem data_append : forall name items d d',
  foldR step_item items d = Ok d' ->
  (forall a args, In (a, args) (occs_for name items) -> append_act a = true) ->
  (assoc name d = None \/ exists l, assoc name d = Some (DLists l)) ->
  match occs_for name items with
  | [] => assoc name d' = assoc name d
  | occs => assoc name d' = Some (DLists (lists_of (assoc name d) ++ map snd occs))
  end.
Proof.
  intros name. induction items as [|[flag a args|s] r IH]; intros d d' H SC Hd; cbn in H.
  - inversion H; subst. reflexivity.
  - apply bind_ok in H. destruct H as [d1 [H1 H2]]. cbn [occs_for] in *. destruct (for_dest name a) eqn:FD.
    + assert (SA := SC a args (or_introl eq_refl)).
      unfold for_dest in FD. destruct a as [dest t|dest|dest|dest n|]; try discriminate. cbn in FD. apply str_eqb_eq in FD. subst dest.
      assert (E1 : assoc name d1 = Some (DLists (lists_of (assoc name d) ++ [args]))).
      { destruct n; try discriminate; cbn in H1; destruct Hd as [Hd|[l Hd]]; rewrite Hd in H1 |- *; inversion H1; subst; cbn; apply assoc_dset_same. }
      assert (IHr := IH _ _ H2 (fun a0 args0 I => SC a0 args0 (or_intror I)) (or_intror (ex_intro _ _ E1))).
      rewrite E1 in IHr. cbn [lists_of] in IHr. destruct (occs_for name r) as [|o1 os].
      * rewrite IHr. reflexivity.
      * rewrite IHr. cbn [map snd]. rewrite <- app_assoc. reflexivity.
    + assert (E := take_action_other _ _ _ _ _ H1 FD).
      assert (IHr := IH _ _ H2 SC). rewrite E in IHr. apply IHr. exact Hd.
  - apply IH; assumption.
Qed.

(* ================================================================================================= *)
(* Part 8: M5 -- well-formed option tables, and the defaults *)

Fixpoint memb (s : str) (l : list str) : bool := match l with [] => false | x :: l' => str_eqb s x || memb s l' end.
Fixpoint nodupb (l : list str) : bool := match l with [] => true | x :: l' => negb (memb x l') && nodupb l' end.

Lemma memb_In : forall s l, memb s l = true <-> In s l.
Proof.
  intros s. induction l as [|x l IH]; cbn; [split; [discriminate|contradiction]|].
  rewrite orb_true_iff, IH, str_eqb_eq. split; intros [H|H]; auto.
Qed.

Lemma nodupb_NoDup : forall l, nodupb l = true -> NoDup l.
Proof.
  induction l as [|x l IH]; cbn; intro H; [constructor|]. apply andb_true_iff in H. destruct H as [H1 H2].
  constructor; [|apply IH; exact H2]. intro I. apply memb_In in I. rewrite I in H1. discriminate.
Qed.

Definition opt_ok (o : opt) : bool :=
  typed (o_cls (o_static o)) (o_value o) &&
  negb (match o_flags (o_static o) with [] => true | _ => false end) &&
  match o_cls (o_static o), o_value o with
  | CDict _ _, VDict d => match d with [] => true | _ => false end     (* shipped dictionaries start empty *)
  | _, _ => true
  end.

(* an option table is well formed when: section names are distinct; keys are distinct within a section; every default
   has the type of its option class; the option strings registered with argparse (with -h/--help/--config/-c) are
   pairwise distinct, start with "-" and are ASCII, none looks like a negative number; dests are pairwise distinct
   and differ from "config" *)
Definition wf_config (cfg : config) : bool :=
  nodupb (map fst cfg) &&
  forallb (fun s => nodupb (map fst (snd s)) && forallb (fun ko => opt_ok (snd ko)) (snd s)) cfg &&
  nodupb (map fst (all_actions cfg)) &&
  forallb (fun fa => flag_like (fst fa) && negb (negative_number_like (fst fa))) (all_actions cfg) &&
  nodupb (L_config :: flat_map (fun s => map (fun ko => o_name (o_static (snd ko))) (snd s)) cfg).

Lemma wf_config_sections : forall cfg, wf_config cfg = true ->
  forallb (fun s => nodupb (map fst (snd s)) && forallb (fun ko => opt_ok (snd ko)) (snd s)) cfg = true.
Proof.
  intros cfg W. unfold wf_config in W.
  apply andb_true_iff in W. destruct W as [W _]. apply andb_true_iff in W. destruct W as [W _].
  apply andb_true_iff in W. destruct W as [W _]. apply andb_true_iff in W. destruct W as [_ W]. exact W.
Qed.

Lemma wf_section_nodup : forall cfg sec opts, wf_config cfg = true -> assoc sec cfg = Some opts -> NoDup (map fst opts).
Proof.
  intros cfg sec opts W A. assert (H2 := wf_config_sections _ W).
  apply assoc_in in A. rewrite forallb_forall in H2. specialize (H2 _ A). cbn in H2. apply andb_true_iff in H2. destruct H2 as [N _].
  apply nodupb_NoDup. exact N.
Qed.

Lemma wf_option_typed : forall cfg sec opts key o, wf_config cfg = true -> assoc sec cfg = Some opts -> assoc key opts = Some o ->
  typed (o_cls (o_static o)) (o_value o) = true.
Proof.
  intros cfg sec opts key o W A K. assert (H2 := wf_config_sections _ W).
  apply assoc_in in A. rewrite forallb_forall in H2. specialize (H2 _ A). cbn in H2. apply andb_true_iff in H2. destruct H2 as [_ T].
  apply assoc_in in K. rewrite forallb_forall in T. specialize (T _ K). cbn in T. unfold opt_ok in T.
  apply andb_true_iff in T. destruct T as [T _]. apply andb_true_iff in T. destruct T as [T _]. exact T.
Qed.

(* M1 for a well-formed table (no side conditions left on the option) *)
Theorem layering_scalar_wf : forall fx cfg f d cfg' sec key opts o,
  wf_config cfg = true -> layer fx cfg f d = Ok cfg' -> assoc sec cfg = Some opts -> assoc key opts = Some o ->
  scalar (o_cls (o_static o)) = true ->
  exists files o',
    config_files f d = Ok files /\ opt_at cfg' sec key = Some o' /\ o_static o' = o_static o /\
    Ok (o_value o') = spec_scalar fx (o_cls (o_static o)) (o_value o) (strings_for key (section_items sec files)) (assoc (o_name (o_static o)) d).
Proof.
  intros fx cfg f d cfg' sec key opts o W H A K S.
  eapply layering_scalar; try eassumption; [eapply wf_section_nodup; eassumption|reflexivity|eapply wf_option_typed; eassumption].
Qed.

Theorem layering_list_wf : forall fx cfg f d cfg' sec key opts o,
  wf_config cfg = true -> layer fx cfg f d = Ok cfg' -> assoc sec cfg = Some opts -> assoc key opts = Some o ->
  o_cls (o_static o) = CMulti ->
  exists files o' l0 wss,
    config_files f d = Ok files /\ opt_at cfg' sec key = Some o' /\ o_static o' = o_static o /\ o_value o = VList l0 /\
    Forall2 (fun s ws => shlex_split s = Ok ws) (strings_for key (section_items sec files)) wss /\
    o_value o' = VList (l0 ++ concat wss ++ cmd_words (assoc (o_name (o_static o)) d)).
Proof.
  intros fx cfg f d cfg' sec key opts o W H A K C.
  assert (T := wf_option_typed _ _ _ _ _ W A K). rewrite C in T. destruct (o_value o) as [| | | |l0|] eqn:V; try discriminate.
  destruct (layering_list fx cfg f d cfg' sec key opts o l0 H A (wf_section_nodup _ _ _ W A) K C V) as [files [o' [wss [X1 [X2 [X3 [X4 X5]]]]]]].
  exists files, o', l0, wss. auto 10.
Qed.

Theorem layering_dict_wf : forall fx cfg f d cfg' sec key opts o ek st,
  wf_config cfg = true -> layer fx cfg f d = Ok cfg' -> assoc sec cfg = Some opts -> assoc key opts = Some o ->
  o_cls (o_static o) = CDict ek st ->
  exists files o' fbs cbs kes,
    config_files f d = Ok files /\ opt_at cfg' sec key = Some o' /\ o_static o' = o_static o /\
    bindings_of opts key (section_items sec files) = Some fbs /\
    cmd_bindings st (assoc (o_name (o_static o)) d) = Some cbs /\
    Forall2 (converted ek) (fbs ++ cbs) kes /\
    o_value o' = VDict (dict_after [] kes).
Proof.
  intros fx cfg f d cfg' sec key opts o ek st W H A K C.
  assert (V : o_value o = VDict []).
  { assert (H2 := wf_config_sections _ W).
    assert (A' := assoc_in _ _ _ _ A). rewrite forallb_forall in H2. specialize (H2 _ A'). cbn in H2. apply andb_true_iff in H2. destruct H2 as [_ T].
    assert (K' := assoc_in _ _ _ _ K). rewrite forallb_forall in T. specialize (T _ K'). cbn in T. unfold opt_ok in T. rewrite C in T.
    apply andb_true_iff in T. destruct T as [T1 T2]. apply andb_true_iff in T1. destruct T1 as [T1 _].
    destruct (o_value o) as [| | | | |dd]; try discriminate. destruct dd; [reflexivity|discriminate]. }
  eapply layering_dict; eassumption.
Qed.

(* defaults: with no configuration file and no option on the command line every option keeps its default *)
Lemma update_opt_nil : forall o, update_opt [] o = Ok o.
Proof. intro o. unfold update_opt. destruct (o_cls (o_static o)) as [| | | | |ek st]; try reflexivity. destruct st; reflexivity. Qed.

Lemma mapR_id : forall A (f : A -> res A), (forall a, f a = Ok a) ->
  forall l : list (str * A), mapR (fun ka => a' <- f (snd ka) ;; Ok (fst ka, a')) l = Ok l.
Proof.
  intros A f Hf. induction l as [|[k a] l IH]; cbn [mapR fst snd]; [reflexivity|]. rewrite Hf. cbn [bind]. rewrite IH. reflexivity.
Qed.

Lemma update_from_dict_nil : forall cfg, update_from_dict [] cfg = Ok cfg.
Proof.
  intro cfg. unfold update_from_dict. apply mapR_id. intro opts. unfold update_section. apply mapR_id. apply update_opt_nil.
Qed.

Theorem defaults : forall fx cfg f file, plain file = true -> main fx cfg f [file] = Ok cfg.
Proof.
  intros fx cfg f file P. unfold main. change [file] with (argv_of [IPos file]).
  rewrite (parse_args_wf (all_actions cfg) [IPos file] []); [| |reflexivity|reflexivity].
  - cbn [bind]. unfold layer, config_files. cbn [assoc bind read foldR]. apply update_from_dict_nil.
  - cbn. auto.
Qed.

(* ================================================================================================= *)
(* Part 9: assignment  config[sec][key] = v  (histories).  Reading back is a function of the current table only
   ([sget] has no other argument), so the theorems of Part 5 hold after every history; an assignment changes exactly
   the option assigned. *)
Theorem assign_current : forall cfg sec key v cfg',
  assign cfg sec key v = Ok cfg' ->
  (exists o, opt_at cfg sec key = Some o /\ opt_at cfg' sec key = Some (set_value o v)) /\
  (forall s' k', s' <> sec \/ k' <> key -> opt_at cfg' s' k' = opt_at cfg s' k') /\
  shape cfg' = shape cfg.
Proof.
  intros cfg sec key v cfg' H. unfold assign in H. destruct (opt_at cfg sec key) as [o|] eqn:K; [|discriminate].
  inversion H; subst cfg'. split; [|split].
  - exists o. split; [reflexivity|]. eapply opt_at_set_same. exact K.
  - intros s' k' N. apply opt_at_set_other. exact N.
  - eapply set_at_shape; [exact K|reflexivity].
Qed.

(* ================================================================================================= *)
(* Part 10: the whole of main() on a well-formed command line -- the hypotheses of Parts 3 and 7 discharged from wf_config *)

Lemma bind_ret : forall A (r : res A), bind r (fun a => Ok a) = r.
Proof. intros A [a|k| |]; reflexivity. Qed.

(* the equational form of consume_items: no assumption that the actions succeed *)
Lemma consume_items_eq : forall tbl items p d npos,
  wf_items tbl (pending_open p) items ->
  (match p with Some (a, got) => enough (act_nargs a) (length got) = true | None => True end) ->
  consume (flat_map cl_item items) p d npos =
  bind (finish p d) (fun d0 => bind (foldR step_item items d0) (fun d1 =>
    if Nat.eqb (npos + count_pos items) 1 then Ok d1 else Crash SystemExit)).
Proof.
  intros tbl. induction items as [|[flag a args|s] r IH]; intros p d npos W E; cbn [flat_map cl_item count_pos].
  - cbn [consume foldR]. destruct (finish p d) as [d0|k| |]; cbn; try reflexivity. rewrite Nat.add_0_r. reflexivity.
  - cbn in W. destruct W as [W1 [W2 [W3 [W4 W5]]]].
    cbn [app consume]. destruct (finish p d) as [d0|k| |]; cbn [bind]; try reflexivity.
    rewrite consume_args; [|intros i Hi; cbn; eapply enough_can_take; eassumption].
    cbn [app]. rewrite (IH (Some (a, args)) d0 npos W5 W4). cbn [finish]. rewrite W4. cbn [foldR step_item].
    rewrite bind_assoc. reflexivity.
  - cbn in W. destruct W as [W1 [W2 W3]]. cbn [app consume foldR step_item].
    replace (npos + S (count_pos r))%nat with (S npos + count_pos r)%nat by lia.
    destruct p as [[a got]|].
    + cbn in W2. rewrite W2. destruct (finish (Some (a, got)) d) as [d0|k| |]; cbn [bind]; try reflexivity.
      rewrite (IH None d0 (S npos) W3 Logic.I). reflexivity.
    + rewrite (IH None d (S npos) W3 Logic.I). reflexivity.
Qed.

Theorem parse_args_eq : forall tbl items,
  wf_items tbl false items -> count_pos items = 1%nat -> parse_args tbl (argv_of items) = foldR step_item items [].
Proof.
  intros tbl items W C. unfold parse_args. rewrite (classify_items _ _ _ W). cbn [bind].
  rewrite (consume_items_eq tbl items None [] 0 W Logic.I). cbn [finish bind]. rewrite C. cbn. apply bind_ret.
Qed.

(* ---- which actions a well-formed table registers under a dest ---- *)
Definition all_opts (cfg : config) : list opt := flat_map (fun s => map snd (snd s)) cfg.
Definition builtin_actions : list (str * act) :=
  [(L_mh, AHelp); (L_mmhelp, AHelp); (L_mmconfig, AAppend L_config N1); (L_mc, AAppend L_config N1)].

Lemma NoDup_map_inj : forall A B (f : A -> B) l x y, NoDup (map f l) -> In x l -> In y l -> f x = f y -> x = y.
Proof.
  intros A B f. induction l as [|a l IH]; intros x y ND Hx Hy E; [contradiction|].
  cbn in ND. inversion ND as [|? ? NI ND']; subst.
  destruct Hx as [Hx|Hx]; destruct Hy as [Hy|Hy]; subst.
  - reflexivity.
  - exfalso. apply NI. rewrite E. apply in_map. exact Hy.
  - exfalso. apply NI. rewrite <- E. apply in_map. exact Hx.
  - eapply IH; eassumption.
Qed.

Lemma names_all_opts : forall cfg,
  flat_map (fun s => map (fun ko => o_name (o_static (snd ko))) (snd s)) cfg = map (fun o => o_name (o_static o)) (all_opts cfg).
Proof.
  induction cfg as [|[s opts] cfg IH]; cbn; [reflexivity|]. unfold all_opts in *. cbn. rewrite map_app, map_map, IH. reflexivity.
Qed.

Lemma in_all_opts : forall cfg sec opts key o, assoc sec cfg = Some opts -> assoc key opts = Some o -> In o (all_opts cfg).
Proof.
  intros cfg sec opts key o A K. apply assoc_in in A. apply assoc_in in K. unfold all_opts. apply in_flat_map.
  exists (sec, opts). split; [exact A|]. cbn. apply in_map_iff. exists (key, o). auto.
Qed.

Lemma in_all_actions : forall cfg fa, In fa (all_actions cfg) ->
  In fa builtin_actions \/ exists o, In o (all_opts cfg) /\ In fa (opt_actions o).
Proof.
  intros cfg fa H. unfold all_actions in H. apply in_app_or in H. destruct H as [H|H]; [left; exact H|right].
  apply in_flat_map in H. destruct H as [[s opts] [I1 I2]]. apply in_flat_map in I2. destruct I2 as [[k o] [I3 I4]].
  exists o. split; [|exact I4]. unfold all_opts. apply in_flat_map. exists (s, opts). split; [exact I1|]. cbn. apply in_map_iff. exists (k, o). auto.
Qed.

(* every action an option registers carries the option's name as dest, and has the shape of its class *)
Definition act_for_cls (c : cls) (a : act) : bool :=
  match c with
  | CStr | CInt | CFloat | CBool => scalar_act a
  | CMulti | CDict _ _ => append_act a
  end.

Lemma opt_actions_dest : forall o fa, In fa (opt_actions o) ->
  act_dest (snd fa) = Some (o_name (o_static o)) /\ act_for_cls (o_cls (o_static o)) (snd fa) = true.
Proof.
  intros o fa H. unfold opt_actions in H. destruct (o_cls (o_static o)) as [| | | | |ek st]; cbn [act_for_cls].
  1-3: apply in_map_iff in H; destruct H as [f [E _]]; subst fa; cbn; auto.
  - apply in_app_or in H. destruct H as [H|H]; apply in_map_iff in H; destruct H as [f [E _]]; subst fa; cbn; auto.
  - apply in_map_iff in H; destruct H as [f [E _]]; subst fa; cbn; auto.
  - destruct st; apply in_map_iff in H; destruct H as [f [E _]]; subst fa; cbn; auto.
Qed.

Lemma wf_config_names : forall cfg, wf_config cfg = true ->
  NoDup (L_config :: map (fun o => o_name (o_static o)) (all_opts cfg)).
Proof.
  intros cfg W. unfold wf_config in W. apply andb_true_iff in W. destruct W as [_ W].
  rewrite names_all_opts in W. apply nodupb_NoDup. exact W.
Qed.

(* the actions registered under the dest of an option of a well-formed table are that option's own *)
Lemma wf_actions_for_option : forall cfg o flag a,
  wf_config cfg = true -> In o (all_opts cfg) -> assoc flag (all_actions cfg) = Some a ->
  for_dest (o_name (o_static o)) a = true -> act_for_cls (o_cls (o_static o)) a = true.
Proof.
  intros cfg o flag a W I A FD. assert (ND := wf_config_names _ W). inversion ND as [|? ? NI ND']; subst.
  apply assoc_in in A. apply in_all_actions in A. unfold for_dest in FD.
  destruct A as [B|[o2 [I2 A2]]].
  - cbn in B. destruct B as [B|[B|[B|[B|[]]]]]; inversion B; subst; cbn [act_dest] in FD; try discriminate.
    + apply str_eqb_eq in FD. exfalso. apply NI. rewrite FD. apply in_map_iff. exists o. auto.
    + apply str_eqb_eq in FD. exfalso. apply NI. rewrite FD. apply in_map_iff. exists o. auto.
  - destruct (opt_actions_dest _ _ A2) as [D C]. cbn in D, C. rewrite D in FD. apply str_eqb_eq in FD.
    assert (E : o2 = o) by (eapply (NoDup_map_inj _ _ (fun o => o_name (o_static o))); eassumption). subst o2. exact C.
Qed.

Lemma wf_actions_config : forall cfg flag a,
  wf_config cfg = true -> assoc flag (all_actions cfg) = Some a -> for_dest L_config a = true -> a = AAppend L_config N1.
Proof.
  intros cfg flag a W A FD. assert (ND := wf_config_names _ W). inversion ND as [|? ? NI ND']; subst.
  apply assoc_in in A. apply in_all_actions in A. unfold for_dest in FD.
  destruct A as [B|[o2 [I2 A2]]].
  - cbn in B. destruct B as [B|[B|[B|[B|[]]]]]; inversion B; subst; cbn [act_dest] in FD; try discriminate; reflexivity.
  - destruct (opt_actions_dest _ _ A2) as [D C]. cbn in D. rewrite D in FD. apply str_eqb_eq in FD.
    exfalso. apply NI. rewrite <- FD. apply in_map_iff. exists o2. auto.
Qed.

(* the occurrences of a well-formed command line use registered option strings *)
Lemma occs_for_registered : forall tbl name items open a args,
  wf_items tbl open items -> In (a, args) (occs_for name items) ->
  exists flag, assoc flag tbl = Some a /\ for_dest name a = true /\ enough (act_nargs a) (length args) = true.
Proof.
  intros tbl name. induction items as [|[flag a0 args0|s] r IH]; intros open a args W I; cbn in *; [contradiction| |].
  - destruct W as [W1 [W2 [W3 [W4 W5]]]]. destruct (for_dest name a0) eqn:FD.
    + destruct I as [I|I]; [inversion I; subst; exists flag; auto|eapply IH; eassumption].
    + eapply IH; eassumption.
  - destruct W as [_ [_ W]]. eapply IH; eassumption.
Qed.

(* ---- the --config / -c occurrences ---- *)
Definition config_names (items : list item) : list str := concat (map snd (occs_for L_config items)).
Definition strs_of (v : option argval) : list str := match v with Some (DStrs l) => l | _ => [] end.

Lemma data_config : forall items d d',
  foldR step_item items d = Ok d' ->
  (forall a args, In (a, args) (occs_for L_config items) -> a = AAppend L_config N1) ->
  (assoc L_config d = None \/ exists l, assoc L_config d = Some (DStrs l)) ->
  match occs_for L_config items with
  | [] => assoc L_config d' = assoc L_config d
  | _ => assoc L_config d' = Some (DStrs (strs_of (assoc L_config d) ++ config_names items))
  end.
Proof.
  unfold config_names. induction items as [|[flag a args|s] r IH]; intros d d' H SC Hd; cbn [foldR step_item] in H.
  - inversion H; subst. reflexivity.
  - apply bind_ok in H. destruct H as [d1 [H1 H2]]. cbn [occs_for] in *. destruct (for_dest L_config a) eqn:FD.
    + assert (SA := SC a args (or_introl eq_refl)). subst a.
      assert (E1 : exists s, args = [s] /\ assoc L_config d1 = Some (DStrs (strs_of (assoc L_config d) ++ [s]))).
      { cbn [take_action] in H1. destruct args as [|s [|s2 rest]].
        - destruct (assoc L_config d); discriminate.
        - exists s. split; [reflexivity|]. destruct Hd as [Hd|[l Hd]]; rewrite Hd in H1 |- *; inversion H1; subst; cbn [strs_of app]; apply assoc_dset_same.
        - destruct (assoc L_config d); discriminate. }
      destruct E1 as [s [EA E1]]. subst args.
      assert (IHr := IH _ _ H2 (fun a0 args0 I => SC a0 args0 (or_intror I)) (or_intror (ex_intro _ _ E1))).
      rewrite E1 in IHr. cbn [strs_of] in IHr. cbn [map snd concat]. destruct (occs_for L_config r) as [|o1 os].
      * rewrite IHr. reflexivity.
      * rewrite IHr. rewrite <- app_assoc. reflexivity.
    + assert (E := take_action_other _ _ _ _ _ H1 FD).
      assert (IHr := IH _ _ H2 SC). rewrite E in IHr. apply IHr. exact Hd.
  - apply IH; assumption.
Qed.

Lemma config_files_of_items : forall cfg f items d,
  wf_config cfg = true -> wf_items (all_actions cfg) false items -> foldR step_item items [] = Ok d ->
  config_files f d = Ok (map (fs_lookup f) (config_names items)).
Proof.
  intros cfg f items d W WI H.
  assert (X := data_config items [] d H).
  assert (SC : forall a args, In (a, args) (occs_for L_config items) -> a = AAppend L_config N1).
  { intros a args I. destruct (occs_for_registered _ _ _ _ _ _ WI I) as [flag [A [FD _]]]. eapply wf_actions_config; eassumption. }
  specialize (X SC (or_introl eq_refl)). unfold config_files, config_names in *.
  destruct (occs_for L_config items) as [|o1 os]; rewrite X; reflexivity.
Qed.

(* ---- M8: main() from the command line as typed, scalars ---- *)
(* Spec: the value a scalar option has after main(), as a function of what the user wrote *)
Definition spec_main_scalar (fx : bool) (o : opt) (key : str) (file_lines : list (str * str)) (items : list item) : res value :=
  match last_opt (occs_for (o_name (o_static o)) items) with
  | Some (a, args) => v <- occ_result a args ;; value_of_argval v
  | None =>
      match last_opt (strings_for key file_lines) with
      | Some s => conv fx (o_cls (o_static o)) s
      | None => Ok (o_value o)
      end
  end.

Theorem main_scalar : forall fx cfg f items cfg' sec key opts o,
  wf_config cfg = true -> wf_items (all_actions cfg) false items -> count_pos items = 1%nat ->
  main fx cfg f (argv_of items) = Ok cfg' ->
  assoc sec cfg = Some opts -> assoc key opts = Some o -> scalar (o_cls (o_static o)) = true ->
  exists o', opt_at cfg' sec key = Some o' /\ o_static o' = o_static o /\
    Ok (o_value o') = spec_main_scalar fx o key (section_items sec (map (fs_lookup f) (config_names items))) items.
Proof.
  intros fx cfg f items cfg' sec key opts o W WI C H A K S.
  unfold main in H. rewrite (parse_args_eq _ _ WI C) in H. apply bind_ok in H. destruct H as [d [HD HL]].
  destruct (layering_scalar_wf fx cfg f d cfg' sec key opts o W HL A K S) as [files [o' [F [R [ST V]]]]].
  rewrite (config_files_of_items cfg f items d W WI HD) in F. inversion F; subst files.
  exists o'. split; [exact R|]. split; [exact ST|]. rewrite V. unfold spec_main_scalar.
  assert (DS := data_scalar (o_name (o_static o)) items [] d HD).
  assert (SC : forall a args, In (a, args) (occs_for (o_name (o_static o)) items) -> scalar_act a = true).
  { intros a args I. destruct (occs_for_registered _ _ _ _ _ _ WI I) as [flag [AF [FD _]]].
    assert (X := wf_actions_for_option cfg o flag a W (in_all_opts _ _ _ _ _ A K) AF FD).
    destruct (o_cls (o_static o)); try discriminate; exact X. }
  specialize (DS SC). destruct (last_opt (occs_for (o_name (o_static o)) items)) as [[a args]|].
  - destruct DS as [v [OR AV]]. rewrite AV, OR. reflexivity.
  - rewrite DS. reflexivity.
Qed.

(* ---- M8, lists ---- *)
Theorem main_list : forall fx cfg f items cfg' sec key opts o,
  wf_config cfg = true -> wf_items (all_actions cfg) false items -> count_pos items = 1%nat ->
  main fx cfg f (argv_of items) = Ok cfg' ->
  assoc sec cfg = Some opts -> assoc key opts = Some o -> o_cls (o_static o) = CMulti ->
  exists o' l0 wss, opt_at cfg' sec key = Some o' /\ o_value o = VList l0 /\
    Forall2 (fun s ws => shlex_split s = Ok ws)
            (strings_for key (section_items sec (map (fs_lookup f) (config_names items)))) wss /\
    o_value o' = VList (l0 ++ concat wss ++ concat (map snd (occs_for (o_name (o_static o)) items))).
Proof.
  intros fx cfg f items cfg' sec key opts o W WI C H A K CM.
  unfold main in H. rewrite (parse_args_eq _ _ WI C) in H. apply bind_ok in H. destruct H as [d [HD HL]].
  destruct (layering_list_wf fx cfg f d cfg' sec key opts o W HL A K CM) as [files [o' [l0 [wss [F [R [ST [V0 [F2 V]]]]]]]]].
  rewrite (config_files_of_items cfg f items d W WI HD) in F. inversion F; subst files.
  exists o', l0, wss. split; [exact R|]. split; [exact V0|]. split; [exact F2|]. rewrite V. do 2 f_equal.
  assert (DA := data_append (o_name (o_static o)) items [] d HD).
  assert (SC : forall a args, In (a, args) (occs_for (o_name (o_static o)) items) -> append_act a = true).
  { intros a args I. destruct (occs_for_registered _ _ _ _ _ _ WI I) as [flag [AF [FD _]]].
    assert (X := wf_actions_for_option cfg o flag a W (in_all_opts _ _ _ _ _ A K) AF FD). rewrite CM in X. exact X. }
  specialize (DA SC (or_introl eq_refl)). unfold cmd_words.
  destruct (occs_for (o_name (o_static o)) items) as [|o1 os]; rewrite DA; reflexivity.
Qed.

(* ---- M8, dictionaries ---- *)
Theorem main_dict : forall fx cfg f items cfg' sec key opts o ek st,
  wf_config cfg = true -> wf_items (all_actions cfg) false items -> count_pos items = 1%nat ->
  main fx cfg f (argv_of items) = Ok cfg' ->
  assoc sec cfg = Some opts -> assoc key opts = Some o -> o_cls (o_static o) = CDict ek st ->
  exists o' fbs cbs kes, opt_at cfg' sec key = Some o' /\
    bindings_of opts key (section_items sec (map (fs_lookup f) (config_names items))) = Some fbs /\
    occs_bindings st (map snd (occs_for (o_name (o_static o)) items)) = Some cbs /\
    Forall2 (converted ek) (fbs ++ cbs) kes /\
    o_value o' = VDict (dict_after [] kes).
Proof.
  intros fx cfg f items cfg' sec key opts o ek st W WI C H A K CD.
  unfold main in H. rewrite (parse_args_eq _ _ WI C) in H. apply bind_ok in H. destruct H as [d [HD HL]].
  destruct (layering_dict_wf fx cfg f d cfg' sec key opts o ek st W HL A K CD) as [files [o' [fbs [cbs [kes [F [R [ST [B1 [B2 [F2 V]]]]]]]]]]].
  rewrite (config_files_of_items cfg f items d W WI HD) in F. inversion F; subst files.
  exists o', fbs, cbs, kes. split; [exact R|]. split; [exact B1|]. split; [|split; assumption].
  assert (DA := data_append (o_name (o_static o)) items [] d HD).
  assert (SC : forall a args, In (a, args) (occs_for (o_name (o_static o)) items) -> append_act a = true).
  { intros a args I. destruct (occs_for_registered _ _ _ _ _ _ WI I) as [flag [AF [FD _]]].
    assert (X := wf_actions_for_option cfg o flag a W (in_all_opts _ _ _ _ _ A K) AF FD). rewrite CD in X. exact X. }
  specialize (DA SC (or_introl eq_refl)). unfold cmd_bindings in B2.
  destruct (occs_for (o_name (o_static o)) items) as [|o1 os]; rewrite DA in B2; exact B2.
Qed.

(* ================================================================================================= *)
(* Part 11: list entries as written in a file.  Spec: a list is written as its words separated by blanks; a word is written
   as it is when it is non-empty and has no blank, quote or backslash, or between single quotes when it has no single quote. *)
Definition plain_char (c : Z) : bool := negb (sh_ws c) && negb (sh_quote c) && negb (c =? 92).
Definition word_ok (qw : bool * str) : bool :=
  if fst qw then forallb (fun c => negb (c =? 39)) (snd qw)
  else negb (str_eqb (snd qw) []) && forallb plain_char (snd qw).
Definition pr_word (qw : bool * str) : str := if fst qw then 39 :: snd qw ++ [39] else snd qw.
Definition pr_words (l : list (bool * str)) : str :=
  match l with [] => [] | w :: r => pr_word w ++ flat_map (fun x => 32 :: pr_word x) r end.

Lemma shlex_in_quote : forall w rest tok q0 acc, forallb (fun c => negb (c =? 39)) w = true ->
  shlex_go (w ++ 39 :: rest) (ShQuote 39) tok q0 acc = shlex_go rest ShWord (rev w ++ tok) true acc.
Proof.
  induction w as [|c w IH]; intros rest tok q0 acc H; cbn [app shlex_go].
  - rewrite Z.eqb_refl. reflexivity.
  - cbn in H. apply andb_true_iff in H. destruct H as [H1 H2]. apply negb_true_iff in H1. rewrite H1.
    replace ((c =? 92) && (39 =? 34)) with false by (rewrite andb_false_r; reflexivity).
    rewrite IH; [|exact H2]. cbn [rev]. rewrite <- app_assoc. reflexivity.
Qed.

Lemma shlex_in_word : forall w rest tok q acc, forallb plain_char w = true ->
  shlex_go (w ++ rest) ShWord tok q acc = shlex_go rest ShWord (rev w ++ tok) q acc.
Proof.
  induction w as [|c w IH]; intros rest tok q acc H; cbn [app]; [reflexivity|].
  cbn in H. apply andb_true_iff in H. destruct H as [H1 H2]. unfold plain_char in H1.
  apply andb_true_iff in H1. destruct H1 as [H1 H3]. apply andb_true_iff in H1. destruct H1 as [H0 H1].
  apply negb_true_iff in H0, H1, H3. cbn [shlex_go]. rewrite H0, H1, H3.
  rewrite IH; [|exact H2]. cbn [rev]. rewrite <- app_assoc. reflexivity.
Qed.

(* one written word, read from the blank state: the scanner is then inside a word holding exactly that word *)
Lemma shlex_word : forall qw rest acc, word_ok qw = true ->
  exists q, shlex_go (pr_word qw ++ rest) ShWs [] false acc = shlex_go rest ShWord (rev (snd qw)) q acc /\
            (negb (str_eqb (rev (snd qw)) []) || q = true).
Proof.
  intros [q w] rest acc H. unfold word_ok, pr_word in *. cbn [fst snd] in *. destruct q.
  - exists true. split; [|apply orb_true_r]. cbn [app]. cbn [shlex_go].
    change (sh_ws 39) with false. change (39 =? 92) with false. change (sh_quote 39) with true. cbn iota.
    rewrite <- app_assoc. cbn [app]. rewrite shlex_in_quote; [|exact H]. rewrite app_nil_r. reflexivity.
  - apply andb_true_iff in H. destruct H as [NE PL]. destruct w as [|c w]; [discriminate|]. exists false.
    cbn in PL. apply andb_true_iff in PL. destruct PL as [P1 P2]. assert (P1' := P1). unfold plain_char in P1.
    apply andb_true_iff in P1. destruct P1 as [P1 P3]. apply andb_true_iff in P1. destruct P1 as [P0 P1].
    apply negb_true_iff in P0, P1, P3. split.
    + cbn [app shlex_go]. rewrite P0, P3, P1. rewrite shlex_in_word; [|exact P2]. cbn [rev]. reflexivity.
    + rewrite orb_false_r. apply negb_true_iff. apply str_eqb_neq. cbn [rev]. intro E. apply app_eq_nil in E. destruct E; discriminate.
Qed.

Lemma shlex_rest : forall r tok q acc, forallb word_ok r = true -> negb (str_eqb tok []) || q = true ->
  shlex_go (flat_map (fun x => 32 :: pr_word x) r) ShWord tok q acc = Ok (rev acc ++ rev tok :: map snd r).
Proof.
  induction r as [|w r IH]; intros tok q acc H E; cbn [flat_map].
  - cbn [shlex_go]. rewrite E. cbn [rev]. reflexivity.
  - cbn in H. apply andb_true_iff in H. destruct H as [H1 H2].
    cbn [app shlex_go]. change (sh_ws 32) with true. cbn iota. rewrite E.
    destruct (shlex_word w (flat_map (fun x => 32 :: pr_word x) r) (rev tok :: acc) H1) as [q' [G1 G2]].
    rewrite G1, IH; [|exact H2|exact G2]. cbn [rev map]. rewrite rev_involutive, <- app_assoc. reflexivity.
Qed.

(* M9: any list of words, written as above, is read back by the Model of shlex.split as exactly those words *)
Theorem shlex_roundtrip : forall l, forallb word_ok l = true -> shlex_split (pr_words l) = Ok (map snd l).
Proof.
  intros [|w r] H; [reflexivity|]. cbn in H. apply andb_true_iff in H. destruct H as [H1 H2].
  unfold shlex_split, pr_words.
  destruct (shlex_word w (flat_map (fun x => 32 :: pr_word x) r) [] H1) as [q [G1 G2]].
  rewrite G1, shlex_rest; [|exact H2|exact G2]. cbn [rev app map]. rewrite rev_involutive. reflexivity.
Qed.

(* ================================================================================================= *)
(* Part 12: integers.  The decimal spelling of every integer (str(int), which is also what %(k)s / %(k)d print) is read back by
   the Model of int() as that integer. *)
Definition dstep (a c : Z) : Z := a * 10 + (c - 48).

Lemma read_digits_all : forall s a n, forallb is_digit s = true ->
  read_digits s a n = (fold_left dstep s a, (n + length s)%nat, []).
Proof.
  induction s as [|c s IH]; intros a n H; cbn [read_digits fold_left length].
  - rewrite Nat.add_0_r. reflexivity.
  - cbn in H. apply andb_true_iff in H. destruct H as [H1 H2]. rewrite H1, IH; [|exact H2].
    replace (S n + length s)%nat with (n + S (length s))%nat by lia. reflexivity.
Qed.

Lemma is_digit_add : forall m, 0 <= m < 10 -> is_digit (48 + m) = true.
Proof. intros m H. unfold is_digit. apply andb_true_iff. split; apply Z.leb_le; lia. Qed.

Lemma digits_fuel_spec : forall f n sfx, 0 <= n -> (Z.to_nat (Z.log2 n) < f)%nat ->
  exists D, digits_fuel f n sfx = D ++ sfx /\ D <> [] /\ forallb is_digit D = true /\
            forall a, fold_left dstep D a = a * 10 ^ Z.of_nat (length D) + n.
Proof.
  induction f as [|f IH]; intros n sfx Hn Hf; [lia|]. cbn [digits_fuel].
  assert (M := Z.mod_pos_bound n 10 ltac:(lia)).
  destruct (n / 10 =? 0) eqn:E.
  - apply Z.eqb_eq in E. assert (n = n mod 10) by (rewrite (Z.div_mod n 10) at 1; lia).
    exists [48 + n mod 10]. split; [reflexivity|]. split; [discriminate|]. split.
    + cbn [forallb]. rewrite is_digit_add by exact M. reflexivity.
    + intro a. cbn [fold_left length]. unfold dstep. change (10 ^ Z.of_nat 1) with 10. lia.
  - apply Z.eqb_neq in E. assert (Q : 0 < n / 10) by (assert (0 <= n / 10) by (apply Z.div_pos; lia); lia).
    assert (Npos : 0 < n) by (destruct (Z.eq_dec n 0); [subst; cbn in Q; lia|lia]).
    assert (L : Z.log2 (n / 10) < Z.log2 n).
    { apply Z.log2_lt_pow2; [exact Q|]. destruct (Z.log2_spec n Npos) as [_ S2].
      rewrite Z.pow_succ_r in S2 by apply Z.log2_nonneg. apply Z.div_lt_upper_bound; [lia|].
      assert (0 < 2 ^ Z.log2 n) by (apply Z.pow_pos_nonneg; [lia|apply Z.log2_nonneg]). lia. }
    destruct (IH (n / 10) ((48 + n mod 10) :: sfx)) as [D [E1 [E2 [E3 E4]]]]; [lia| |].
    { assert (0 <= Z.log2 (n / 10)) by apply Z.log2_nonneg. lia. }
    exists (D ++ [48 + n mod 10]). split; [rewrite E1, <- app_assoc; reflexivity|]. split; [intro X; apply app_eq_nil in X; destruct X; discriminate|]. split.
    + rewrite forallb_app, E3. cbn [forallb]. rewrite is_digit_add by exact M. reflexivity.
    + intro a. rewrite fold_left_app, E4. cbn [fold_left]. unfold dstep. rewrite app_length. cbn [length].
      replace (length D + 1)%nat with (S (length D)) by lia. rewrite Nat2Z.inj_succ, Z.pow_succ_r by lia.
      rewrite (Z.div_mod n 10) at 3 by lia. ring.
Qed.

Lemma digit_facts : forall c, is_digit c = true -> is_ascii c = true /\ is_cspace c = false /\ (c =? 95) = false /\ 48 <= c <= 57.
Proof.
  intros c H. unfold is_digit in H. apply andb_true_iff in H. destruct H as [H1 H2]. apply Z.leb_le in H1, H2.
  split; [|split; [|split; [|lia]]].
  - unfold is_ascii. apply andb_true_iff. split; [apply Z.leb_le|apply Z.ltb_lt]; lia.
  - unfold is_cspace. apply orb_false_iff. split; [apply Z.eqb_neq; lia|]. apply andb_false_iff. right. apply Z.leb_gt. lia.
  - apply Z.eqb_neq. lia.
Qed.

Lemma clstrip_id : forall s, forallb (fun c => negb (is_cspace c)) s = true -> clstrip s = s.
Proof. intros [|c s] H; [reflexivity|]. cbn in H |- *. apply andb_true_iff in H. destruct H as [H _]. apply negb_true_iff in H. rewrite H. reflexivity. Qed.

Lemma cstrip_id : forall s, forallb (fun c => negb (is_cspace c)) s = true -> cstrip s = s.
Proof.
  intros s H. unfold cstrip. rewrite (clstrip_id s H). rewrite clstrip_id; [apply rev_involutive|].
  apply forallb_forall. intros x I. apply in_rev in I. rewrite forallb_forall in H. apply H. exact I.
Qed.

Lemma strip_underscores_digits : forall D b, forallb is_digit D = true -> strip_underscores D b = Some D.
Proof.
  induction D as [|c D IH]; intros b H; cbn [strip_underscores]; [reflexivity|].
  cbn in H. apply andb_true_iff in H. destruct H as [H1 H2]. destruct (digit_facts c H1) as [_ [_ [U _]]]. rewrite U, IH; [reflexivity|exact H2].
Qed.

Lemma read_sign_digit : forall c r, is_digit c = true -> read_sign (c :: r) = (false, c :: r).
Proof.
  intros c r H. destruct (digit_facts c H) as [_ [_ [_ B]]].
  assert (X : c = 48 \/ c = 49 \/ c = 50 \/ c = 51 \/ c = 52 \/ c = 53 \/ c = 54 \/ c = 55 \/ c = 56 \/ c = 57) by lia.
  repeat (destruct X as [X|X]; [subst c; reflexivity|]). subst c. reflexivity.
Qed.

(* M10 *)
Theorem int_roundtrip : forall z, parse_int (str_of_Z z) = Ok z.
Proof.
  intro z. unfold str_of_Z.
  destruct (digits_fuel_spec (S (Z.to_nat (Z.log2 (Z.abs z)))) (Z.abs z) [] (Z.abs_nonneg z) ltac:(lia)) as [D [E1 [E2 [E3 E4]]]].
  rewrite app_nil_r in E1. rewrite E1.
  assert (AS : forallb is_ascii D = true) by (apply forallb_forall; intros x I; rewrite forallb_forall in E3; apply (digit_facts x (E3 x I))).
  assert (NS : forallb (fun c => negb (is_cspace c)) D = true).
  { apply forallb_forall. intros x I. rewrite forallb_forall in E3. destruct (digit_facts x (E3 x I)) as [_ [S0 _]]. rewrite S0. reflexivity. }
  assert (RD : read_digits D 0 0 = (Z.abs z, length D, [])).
  { rewrite read_digits_all by exact E3. rewrite E4. cbn [Nat.add]. rewrite Z.mul_0_l, Z.add_0_l. reflexivity. }
  destruct D as [|d D']; [contradiction|].
  assert (Dd : is_digit d = true) by (cbn in E3; apply andb_true_iff in E3; apply E3).
  unfold parse_int. destruct (z <? 0) eqn:Neg.
  - change (forallb is_ascii (45 :: d :: D')) with (is_ascii 45 && forallb is_ascii (d :: D')). rewrite AS. cbn [andb negb is_ascii].
    change (negb ((0 <=? 45) && (45 <? 128))) with false. cbn iota.
    rewrite cstrip_id by (change (forallb (fun c => negb (is_cspace c)) (45 :: d :: D')) with (negb (is_cspace 45) && forallb (fun c => negb (is_cspace c)) (d :: D')); rewrite NS; reflexivity).
    cbn [read_sign]. rewrite strip_underscores_digits by exact E3. rewrite RD. cbn [length]. apply Z.ltb_lt in Neg. change (is_ascii 45) with true. cbn [andb negb]. f_equal. lia.
  - rewrite AS. cbn [negb]. rewrite cstrip_id by exact NS. rewrite read_sign_digit by exact Dd.
    rewrite strip_underscores_digits by exact E3. rewrite RD. cbn [length]. apply Z.ltb_ge in Neg. f_equal. lia.
Qed.

(* ================================================================================================= *)
(* Part 13: dictionary lines as written.  Spec: `key = k1=v1, k2=v2, ...` -- bindings separated by ", ", a binding written k=v,
   k without "," and "=", v without ",", both without blanks at their ends -- is read as exactly those bindings. *)
Definition no_char (c : Z) (s : str) : bool := forallb (fun x => negb (x =? c)) s.
Definition kv_ok (kv : str * str) : bool :=
  no_char 44 (fst kv) && no_char 61 (fst kv) && no_char 44 (snd kv) &&
  str_eqb (strip (fst kv)) (fst kv) && str_eqb (strip (snd kv)) (snd kv).
Definition pr_kv (kv : str * str) : str := fst kv ++ 61 :: snd kv.
Definition pr_dict (l : list (str * str)) : str :=
  match l with [] => [] | p :: r => pr_kv p ++ flat_map (fun x => 44 :: 32 :: pr_kv x) r end.

Lemma split_on_word : forall sep w cur, no_char sep w = true -> split_on sep w cur = [rev cur ++ w].
Proof.
  intros sep. induction w as [|c w IH]; intros cur H; cbn [split_on]; [rewrite app_nil_r; reflexivity|].
  cbn in H. apply andb_true_iff in H. destruct H as [H1 H2]. apply negb_true_iff in H1. rewrite H1, IH by exact H2.
  cbn [rev]. rewrite <- app_assoc. reflexivity.
Qed.

Lemma split_on_sep : forall sep w rest cur, no_char sep w = true ->
  split_on sep (w ++ sep :: rest) cur = (rev cur ++ w) :: split_on sep rest [].
Proof.
  intros sep. induction w as [|c w IH]; intros rest cur H; cbn [app split_on].
  - rewrite Z.eqb_refl, app_nil_r. reflexivity.
  - cbn in H. apply andb_true_iff in H. destruct H as [H1 H2]. apply negb_true_iff in H1. rewrite H1, IH by exact H2.
    cbn [rev]. rewrite <- app_assoc. reflexivity.
Qed.

Lemma split_once_sep : forall sep w rest cur, no_char sep w = true ->
  split_once sep (w ++ sep :: rest) cur = [rev cur ++ w; rest].
Proof.
  intros sep. induction w as [|c w IH]; intros rest cur H; cbn [app split_once].
  - rewrite Z.eqb_refl, app_nil_r. reflexivity.
  - cbn in H. apply andb_true_iff in H. destruct H as [H1 H2]. apply negb_true_iff in H1. rewrite H1, IH by exact H2.
    cbn [rev]. rewrite <- app_assoc. reflexivity.
Qed.

Lemma no_char_app : forall c a b, no_char c (a ++ b) = no_char c a && no_char c b.
Proof. intros. unfold no_char. apply forallb_app. Qed.

Lemma kv_ok_parts : forall kv, kv_ok kv = true ->
  no_char 44 (fst kv) = true /\ no_char 61 (fst kv) = true /\ no_char 44 (snd kv) = true /\ strip (fst kv) = fst kv /\ strip (snd kv) = snd kv.
Proof.
  intros kv H. unfold kv_ok in H. repeat (apply andb_true_iff in H; destruct H as [H ?]).
  repeat split; try assumption; apply str_eqb_eq; assumption.
Qed.

Lemma pr_kv_no_comma : forall kv, kv_ok kv = true -> no_char 44 (pr_kv kv) = true.
Proof.
  intros kv H. destruct (kv_ok_parts _ H) as [A [_ [C _]]]. unfold pr_kv. rewrite no_char_app, A. cbn. exact C.
Qed.

Lemma strip_blank : forall s, strip (32 :: s) = strip s.
Proof. intro s. unfold strip. cbn [lstrip]. change (is_space 32) with true. reflexivity. Qed.

Lemma split_dict : forall r p, kv_ok p = true -> forallb kv_ok r = true ->
  split_on 44 (pr_kv p ++ flat_map (fun x => 44 :: 32 :: pr_kv x) r) [] = pr_kv p :: map (fun x => 32 :: pr_kv x) r.
Proof.
  induction r as [|q r IH]; intros p Hp Hr; cbn [flat_map map].
  - rewrite app_nil_r. apply (split_on_word 44 (pr_kv p) []). apply pr_kv_no_comma. exact Hp.
  - cbn in Hr. apply andb_true_iff in Hr. destruct Hr as [Hq Hr]. cbn [app].
    rewrite (split_on_sep 44 (pr_kv p) _ [] (pr_kv_no_comma _ Hp)). cbn [rev app]. f_equal.
    change (32 :: pr_kv q ++ flat_map (fun x => 44 :: 32 :: pr_kv x) r) with ((32 :: pr_kv q) ++ flat_map (fun x => 44 :: 32 :: pr_kv x) r).
    assert (G : forall w, no_char 44 w = true ->
                split_on 44 (w ++ flat_map (fun x => 44 :: 32 :: pr_kv x) r) [] = w :: map (fun x => 32 :: pr_kv x) r).
    { clear -Hr. induction r as [|q2 r IHr]; intros w Hw; cbn [flat_map map].
      - rewrite app_nil_r. apply (split_on_word 44 w []). exact Hw.
      - cbn in Hr. apply andb_true_iff in Hr. destruct Hr as [Hq2 Hr]. cbn [app].
        rewrite (split_on_sep 44 w _ [] Hw). cbn [rev app]. f_equal.
        change (32 :: pr_kv q2 ++ flat_map (fun x => 44 :: 32 :: pr_kv x) r) with ((32 :: pr_kv q2) ++ flat_map (fun x => 44 :: 32 :: pr_kv x) r).
        apply IHr; [exact Hr|]. cbn. apply pr_kv_no_comma. exact Hq2. }
    apply G. cbn. apply pr_kv_no_comma. exact Hq.
Qed.

Lemma entry_of_kv : forall kv (lead : bool), kv_ok kv = true ->
  split_once 61 ((if lead then [32] else []) ++ pr_kv kv) [] = [(if lead then [32] else []) ++ fst kv; snd kv] /\
  strip ((if lead then [32] else []) ++ fst kv) = fst kv.
Proof.
  intros kv lead H. destruct (kv_ok_parts _ H) as [_ [B [_ [D _]]]]. unfold pr_kv. split.
  - rewrite app_assoc. rewrite split_once_sep; [reflexivity|]. destruct lead; cbn [app]; [cbn; exact B|exact B].
  - destruct lead; cbn [app]; [rewrite strip_blank|]; exact D.
Qed.

Lemma entry_pairs_rest : forall r, forallb kv_ok r = true -> entry_pairs_l (map (fun x => 32 :: pr_kv x) r) = Some r.
Proof.
  induction r as [|[k v] r IH]; intro H; cbn [map entry_pairs_l]; [reflexivity|].
  cbn in H. apply andb_true_iff in H. destruct H as [H1 H2].
  destruct (entry_of_kv (k, v) true H1) as [E1 E2]. cbn [app fst snd] in E1, E2. rewrite E1, (IH H2), E2.
  destruct (kv_ok_parts _ H1) as [_ [_ [_ [_ E]]]]. cbn [snd] in E. rewrite E. reflexivity.
Qed.

(* M11 *)
Theorem dict_line_roundtrip : forall p r, forallb kv_ok (p :: r) = true -> entry_pairs (pr_dict (p :: r)) = Some (p :: r).
Proof.
  intros [k v] r H. cbn in H. apply andb_true_iff in H. destruct H as [H1 H2].
  unfold entry_pairs, pr_dict. rewrite (split_dict r (k, v) H1 H2). cbn [entry_pairs_l].
  destruct (entry_of_kv (k, v) false H1) as [E1 E2]. cbn [app fst snd] in E1, E2. rewrite E1, (entry_pairs_rest r H2), E2.
  destruct (kv_ok_parts _ H1) as [_ [_ [_ [_ E]]]]. cbn [snd] in E. rewrite E. reflexivity.
Qed.
