(* Proofs about Model/Render.v (properties C13 and C14).

   Part 1  file-name assignment: Renderer.cacheFilenames is one run of the C15 generator over the nodes at or above the split
           level, in document order (so names are distinct, issued in document order, and exactly those nodes have a file).
   Part 2  Spec of the split (written structurally, independent of the traversal of Renderable.__str__) and the partition theorem.
   Part 3  url / links / tableofcontents (C14).                                                                              *)
From Coq Require Import List ZArith NArith Bool Lia Permutation.
Import ListNotations.
From Verif Require Import Val Filenames FilenamesProofs Render.
Local Open Scope Z_scope.

Lemma node_ind2 (P : node -> Prop) (HT : forall w, P (T w)) (HE : forall a cs, Forall P cs -> P (E a cs)) : forall n, P n.
Proof.
  fix IH 1. intros [w|a cs]; [apply HT|]. apply HE. induction cs as [|c cs IHcs]; constructor; [apply IH|exact IHcs].
Qed.

(* ================================================================================================================== *)
(* Part 1: assign                                                                                                       *)

Definition res_name (r : res) : option str := match r with RName f => Some f | _ => None end.

(* the nodes that ask the generator for a name: level <= split level, document (DFS pre-) order *)
Fixpoint askers (lvl : Z) (n : node) : list attrs :=
  match n with
  | T _ => []
  | E a cs => (if lvl <? a_level a then [] else [a]) ++ flat_map (askers lvl) cs
  end.

Fixpoint cache_list (lvl : Z) (fc : Filenames.cfg) (cs : list node) (st : Filenames.st) (files : fileslist) : ares :=
  match cs with
  | [] => AOk st files
  | c :: r => match cache_filenames lvl fc c st files with
              | ACrash k => ACrash k
              | AOk st' files' => cache_list lvl fc r st' files'
              end
  end.

Lemma cache_E : forall lvl fc a cs st files,
  cache_filenames lvl fc (E a cs) st files =
  match ask lvl fc a st files with ACrash k => ACrash k | AOk st1 files1 => cache_list lvl fc cs st1 files1 end.
Proof.
  intros. cbn [cache_filenames]. destruct (ask lvl fc a st files) as [st1 files1|k]; [|reflexivity].
  revert st1 files1. induction cs as [|c cs IH]; intros; cbn [cache_list]; [reflexivity|].
  destruct (cache_filenames lvl fc c st1 files1); [apply IH|reflexivity].
Qed.

Lemma run_app : forall c l1 l2 s,
  run c s (l1 ++ l2) = let '(o1, s1) := run c s l1 in let '(o2, s2) := run c s1 l2 in (o1 ++ o2, s2).
Proof.
  intros c l1. induction l1 as [|b l1 IH]; intros l2 s; cbn [run app].
  - destruct (run c s l2); reflexivity.
  - destruct (request c s b) as [r s1]. rewrite IH. destruct (run c s1 l1) as [o1 s2]. destruct (run c s2 l2) as [o2 s3]. reflexivity.
Qed.

Lemma combine_app {A B} : forall (l1 l2 : list A) (m1 m2 : list B), length l1 = length m1 ->
  combine (l1 ++ l2) (m1 ++ m2) = combine l1 m1 ++ combine l2 m2.
Proof.
  induction l1 as [|x l1 IH]; intros l2 [|y m1] m2 L; cbn in *; try discriminate; [reflexivity|]. f_equal. apply IH. lia.
Qed.

Definition good_res (r : res) : Prop := match r with RName _ | RNone => True | _ => False end.
Definition good (out : list (res * ns)) : Prop := Forall (fun rv => good_res (fst rv)) out.
Definition issued (out : list (res * ns)) : list (option str) := map (fun rv => res_name (fst rv)) out.

Lemma ask_run : forall lvl fc a st files st' files',
  ask lvl fc a st files = AOk st' files' ->
  exists out, run fc st (map bindings (if lvl <? a_level a then [] else [a])) = (out, st') /\ good out /\
              files' = files ++ combine (map a_ser (if lvl <? a_level a then [] else [a])) (issued out).
Proof.
  intros lvl fc a st files st' files' H. unfold ask in H. destruct (lvl <? a_level a).
  - inversion H; subst. exists []. cbn. rewrite app_nil_r. repeat split. constructor.
  - destruct (request fc st (bindings a)) as [r s1] eqn:R. cbn [map run]. rewrite R.
    destruct r as [f| |k|]; inversion H; subst; eexists; (split; [reflexivity|]); split;
      try (constructor; [exact Logic.I|constructor]); reflexivity.
Qed.

Lemma cache_run : forall lvl fc n st files st' files',
  cache_filenames lvl fc n st files = AOk st' files' ->
  exists out, run fc st (map bindings (askers lvl n)) = (out, st') /\ good out /\
              files' = files ++ combine (map a_ser (askers lvl n)) (issued out) /\ length out = length (askers lvl n).
Proof.
  intros lvl fc n. induction n as [w|a cs IH] using node_ind2; intros st files st' files' H.
  - cbn in H. inversion H; subst. exists []. cbn. rewrite app_nil_r. repeat split. constructor.
  - rewrite cache_E in H. destruct (ask lvl fc a st files) as [st1 files1|k] eqn:A; [|discriminate].
    apply ask_run in A. destruct A as [o1 [R1 [G1 F1]]].
    assert (L1 : length o1 = length (if lvl <? a_level a then [] else [a])).
    { destruct (lvl <? a_level a); cbn in R1.
      - inversion R1; reflexivity.
      - destruct (request fc st (bindings a)). inversion R1; reflexivity. }
    cbn [askers].
    assert (HL : forall cs, Forall (fun n => forall st files st' files',
                   cache_filenames lvl fc n st files = AOk st' files' ->
                   exists out, run fc st (map bindings (askers lvl n)) = (out, st') /\ good out /\
                     files' = files ++ combine (map a_ser (askers lvl n)) (issued out) /\ length out = length (askers lvl n)) cs ->
                 forall st files st' files', cache_list lvl fc cs st files = AOk st' files' ->
                 exists out, run fc st (map bindings (flat_map (askers lvl) cs)) = (out, st') /\ good out /\
                   files' = files ++ combine (map a_ser (flat_map (askers lvl) cs)) (issued out) /\
                   length out = length (flat_map (askers lvl) cs)).
    { clear. intros cs F. induction F as [|c cs Hc F IHF]; intros st files st' files' H; cbn [cache_list flat_map] in *.
      - inversion H; subst. exists []. cbn. rewrite app_nil_r. repeat split. constructor.
      - destruct (cache_filenames lvl fc c st files) as [s1 f1|k] eqn:C; [|discriminate].
        apply Hc in C. destruct C as [o1 [R1 [G1 [F1 L1]]]]. apply IHF in H. destruct H as [o2 [R2 [G2 [F2 L2]]]].
        exists (o1 ++ o2). rewrite map_app, run_app, R1, R2. split; [reflexivity|]. split; [apply Forall_app; split; assumption|].
        split.
        + subst. rewrite map_app. unfold issued. rewrite map_app. rewrite <- app_assoc. f_equal.
          rewrite combine_app; [reflexivity|]. rewrite !map_length. symmetry. exact L1.
        + rewrite !app_length. lia. }
    specialize (HL cs IH _ _ _ _ H). destruct HL as [o2 [R2 [G2 [F2 L2]]]].
    exists (o1 ++ o2). rewrite map_app, run_app, R1, R2. split; [reflexivity|]. split; [apply Forall_app; split; assumption|]. split.
    + subst. rewrite map_app. unfold issued. rewrite map_app. rewrite <- app_assoc. f_equal.
      rewrite combine_app; [reflexivity|]. rewrite !map_length. symmetry. exact L1.
    + rewrite !app_length. lia.
Qed.

(* a generator that is alive and never raises issues a name at every request *)
Lemma run_all_names : forall c reqs s out s',
  alive (ph s) -> run c s reqs = (out, s') -> good out -> Forall (fun rv => exists f, fst rv = RName f) out.
Proof.
  intros c reqs. induction reqs as [|b reqs IH]; intros s out s' A H G; cbn [run] in H.
  - inversion H; constructor.
  - destruct (request c s b) as [r s1] eqn:R. destruct (run c s1 reqs) as [o2 s2] eqn:R2. inversion H; subst; clear H.
    apply request_terminates_or_errors in R. inversion G as [|x l G1 G2]; subst. cbn in G1.
    destruct r as [f| |k|]; cbn in R; try contradiction.
    + constructor; [exists f; reflexivity|]. destruct R as [_ [_ [_ A1]]]. exact (IH _ _ _ A1 R2 G2).
    + destruct R as [D _]. exfalso. exact (A D).
Qed.

Definition file_names (files : fileslist) : list str := flat_map (fun xf => match snd xf with Some f => [f] | None => [] end) files.

Lemma names_of_issued : forall out, names_of out = flat_map (fun o => match o with Some f => [f] | None => [] end) (issued out).
Proof.
  induction out as [|[r v] out IH]; [reflexivity|]. cbn [names_of issued map flat_map]. unfold issued in IH.
  destruct r; cbn [res_name fst app]; rewrite IH; reflexivity.
Qed.

Lemma file_names_combine : forall (xs : list Z) (os : list (option str)), length xs = length os ->
  file_names (combine xs os) = flat_map (fun o => match o with Some f => [f] | None => [] end) os.
Proof.
  induction xs as [|x xs IH]; intros [|o os] L; cbn in *; try discriminate; [reflexivity|]. unfold file_names in *. cbn.
  rewrite IH; [reflexivity|lia].
Qed.

(* M2 + M4 + "who has a file": what a successful assignment looks like *)
Theorem assign_spec : forall c doc st files,
  assign c doc = Some (AOk st files) ->
  exists tfiles out,
    parse_filenames (r_template c) = Some tfiles /\
    run (r_fc c) (gen_init c tfiles) (map bindings (askers (eff_level c) doc)) = (out, st) /\
    (* the nodes with an entry are exactly the nodes with level <= split level, in document order *)
    map fst files = map a_ser (askers (eff_level c) doc) /\
    (* the i-th of them got the i-th name the generator issued; every one of them got a name *)
    map snd files = map Some (names_of out) /\
    (* names are pairwise distinct *)
    NoDup (file_names files).
Proof.
  intros c doc st files H. unfold assign in H. destruct (parse_filenames (r_template c)) as [tfiles|] eqn:P; [|discriminate].
  inversion H as [H1]; clear H. apply cache_run in H1. destruct H1 as [out [R [G [F L]]]]. cbn [app] in F.
  exists tfiles, out. split; [reflexivity|]. split; [exact R|].
  assert (A : alive (ph (gen_init c tfiles))) by (cbn; discriminate).
  pose proof (run_all_names _ _ _ _ _ A R G) as N.
  assert (LL : length (map a_ser (askers (eff_level c) doc)) = length (issued out)) by (unfold issued; rewrite !map_length; lia).
  assert (I : issued out = map Some (names_of out)).
  { clear - N. induction out as [|[r v] out IH]; [reflexivity|]. inversion N as [|x l [f Hf] N2]; subst. cbn in Hf. subst r.
    cbn. f_equal. apply IH. exact N2. }
  subst files. split; [|split].
  - clear - LL. revert LL. generalize (map a_ser (askers (eff_level c) doc)) (issued out).
    induction l as [|x l IH]; intros [|o os] L; cbn in *; try discriminate; [reflexivity|]. f_equal. apply IH. lia.
  - rewrite <- I. clear - LL. revert LL. generalize (map a_ser (askers (eff_level c) doc)) (issued out).
    induction l as [|x l IH]; intros [|o os] L; cbn in *; try discriminate; [reflexivity|]. f_equal. apply IH. lia.
  - rewrite file_names_combine by exact LL. rewrite <- names_of_issued. apply (never_twice _ _ _ _ _ R).
Qed.

(* M3: a template that names a single file.  Only nodes with level <= -10 ask. *)
Theorem single_file_level : forall c, single_template (r_template c) = true -> eff_level c = -10.
Proof. intros c H. unfold eff_level. rewrite H. reflexivity. Qed.

Lemma askers_none : forall lvl n, (forall a, In a (elements n) -> lvl < a_level a) -> askers lvl n = [].
Proof.
  intros lvl n. induction n as [w|a cs IH] using node_ind2; intros H; [reflexivity|]. cbn [askers].
  assert (Ha : lvl <? a_level a = true) by (apply Z.ltb_lt; apply H; cbn; left; reflexivity). rewrite Ha. cbn [app].
  assert (HH : forall a0, In a0 (flat_map elements cs) -> lvl < a_level a0) by (intros a0 Hi; apply H; cbn; right; exact Hi).
  clear H Ha. induction IH as [|c cs Hc F IHF]; [reflexivity|]. cbn [flat_map]. rewrite Hc, IHF; [reflexivity| |].
  - intros a0 Hi. apply HH. cbn. apply in_or_app. right. exact Hi.
  - intros a0 Hi. apply HH. cbn. apply in_or_app. left. exact Hi.
Qed.

(* ================================================================================================================== *)
(* Part 2: the split                                                                                                    *)

Lemma flat_map_flat_map {A B C} (f : A -> list B) (g : B -> list C) (l : list A) :
  flat_map g (flat_map f l) = flat_map (fun x => flat_map g (f x)) l.
Proof. induction l as [|x l IH]; [reflexivity|]. cbn. rewrite flat_map_app, IH. reflexivity. Qed.

Lemma filter_flat_map {A B} (p : B -> bool) (f : A -> list B) (l : list A) :
  filter p (flat_map f l) = flat_map (fun x => filter p (f x)) l.
Proof. induction l as [|x l IH]; [reflexivity|]. cbn. rewrite filter_app, IH. reflexivity. Qed.

Lemma map_flat_map {A B C} (f : B -> C) (g : A -> list B) (l : list A) :
  map f (flat_map g l) = flat_map (fun x => map f (g x)) l.
Proof. induction l as [|x l IH]; [reflexivity|]. cbn. rewrite map_app, IH. reflexivity. Qed.

Lemma flat_map_map {A B C} (f : A -> B) (g : B -> list C) (l : list A) :
  flat_map g (map f l) = flat_map (fun x => g (f x)) l.
Proof. induction l as [|x l IH]; [reflexivity|]. cbn. rewrite IH. reflexivity. Qed.

Lemma flat_map_nil_all {A B} (f : A -> list B) (l : list A) : (forall x, In x l -> f x = []) -> flat_map f l = [].
Proof. induction l as [|x l IH]; intros H; [reflexivity|]. cbn. rewrite (H x (or_introl eq_refl)), IH; [reflexivity|]. intros y Hy. apply H. right. exact Hy. Qed.

Lemma flat_map_ext_in {A B} (f g : A -> list B) (l : list A) : (forall x, In x l -> f x = g x) -> flat_map f l = flat_map g l.
Proof. induction l as [|x l IH]; intros H; [reflexivity|]. cbn. rewrite (H x (or_introl eq_refl)), IH; [reflexivity|]. intros y Hy. apply H. right. exact Hy. Qed.

Lemma flat_map_nil_inv {A B} (f : A -> list B) (l : list A) : flat_map f l = [] -> forall x, In x l -> f x = [].
Proof. induction l as [|y l IH]; intros H x Hx; [destruct Hx|]. cbn in H. apply app_eq_nil in H. destruct Hx as [->|Hx]; [exact (proj1 H)|exact (IH (proj2 H) _ Hx)]. Qed.

Lemma words_app : forall a b, words (a ++ b) = words a ++ words b.
Proof. intros. unfold words. apply flat_map_app. Qed.

Lemma perm_flat3 {A B} (L X Y Z : A -> list B) (l : list A) :
  (forall c, In c l -> Permutation (L c) (X c ++ Y c ++ Z c)) ->
  Permutation (flat_map L l) (flat_map X l ++ flat_map Y l ++ flat_map Z l).
Proof.
  induction l as [|c l IH]; intros H; [constructor|]. cbn [flat_map].
  specialize (IH (fun c0 H0 => H c0 (or_intror H0))). pose proof (H c (or_introl eq_refl)) as Hc.
  eapply Permutation_trans; [apply Permutation_app; [exact Hc|exact IH]|].
  (* (Xc ++ Yc ++ Zc) ++ (Xl ++ Yl ++ Zl)  ~  (Xc ++ Xl) ++ (Yc ++ Yl) ++ (Zc ++ Zl) *)
  rewrite <- !app_assoc. apply Permutation_app_head.
  rewrite !app_assoc. apply Permutation_app_tail.
  (* ((Yc ++ Zc) ++ Xl) ++ Yl ~ ((Xl ++ Yc) ++ Yl) ++ Zc   -- reorganise *)
  rewrite <- !app_assoc.
  eapply Permutation_trans; [apply Permutation_app_head; apply Permutation_app_swap_app|].
  eapply Permutation_trans; [apply Permutation_app_swap_app|]. apply Permutation_app_head.
  apply Permutation_app_head. apply Permutation_app_comm.
Qed.

Ltac perm_from HK :=
  let x := fresh "x" in let HKx := fresh "HKx" in
  apply (Permutation_count_occ Z.eq_dec); intro x;
  pose proof (proj1 (Permutation_count_occ Z.eq_dec _ _) HK x) as HKx;
  rewrite ?count_occ_app in *; cbn [count_occ] in *; lia.

Section Split.
  Context (fmap : Z -> option str).
  Context (tmpl : attrs -> out -> out) (layout : attrs -> out -> list (attrs * out) -> out) (shows : attrs -> bool).
  Context (is_note : attrs -> bool).

  (* the templates are linear in the body text: a node template returns the text of str(node) exactly once, in order, or -- if it does
     not evaluate {{ obj }} -- none of it; the layout returns the content and then the footnotes.  NOT proved for Jinja2 / simpleTAL. *)
  Definition tmpl_linear : Prop := forall a s, words (tmpl a s) = if shows a then words s else [].
  Definition layout_linear : Prop := forall a v fns, words (layout a v fns) = words v ++ flat_map (fun fn => words (snd fn)) fns.
  Context (H_tmpl : tmpl_linear) (H_layout : layout_linear).

  Notation hasf := (has_file fmap).
  Definition is_owner (a : attrs) : bool := (a_level a <? ENDSECTIONS_LEVEL) && hasf a.
  Definition fname (a : attrs) : str := match fmap (a_ser a) with Some f => f | None => [] end.

  (* ---- Spec, written structurally ---- *)
  (* the body text a node contributes to the file it is in: its text leaves in document order, not entering units that have a file
     of their own, nor nodes whose template does not show their content (footnotes) *)
  Fixpoint own_words (n : node) : list Z :=
    match n with
    | T w => [w]
    | E a cs => if hasf a then [] else if shows a then flat_map (fun c => if vis a c then own_words c else []) cs else []
    end.
  Definition kids_words (a : attrs) (cs : list node) : list Z := flat_map (fun c => if vis a c then own_words c else []) cs.

  (* the footnotes below a node that belong to the file the node is in: not entering section-level units that have a file *)
  Fixpoint own_notes (n : node) : list (attrs * list node) :=
    match n with
    | T _ => []
    | E a cs => (if is_note a then [(a, cs)] else []) ++ (if is_owner a then [] else flat_map own_notes cs)
    end.
  Definition nwords (p : attrs * list node) : list Z := kids_words (fst p) (snd p).

  (* the file-producing units whose files are written, in the order of writing *)
  Fixpoint producers (n : node) : list (attrs * list node) :=
    match n with
    | T _ => []
    | E a cs => (if shows a then flat_map (fun c => if vis a c then producers c else []) cs else []) ++ (if hasf a then [(a, cs)] else [])
    end.

  (* what the file of the unit (a, cs) must contain: its own body text in document order, then the text of its footnotes in order *)
  Definition fwords (p : attrs * list node) : list Z :=
    (if shows (fst p) then kids_words (fst p) (snd p) else []) ++
    (if is_owner (fst p) then flat_map nwords (flat_map own_notes (snd p)) else []).

  Fixpoint leaves (n : node) : list Z :=
    match n with T w => [w] | E a cs => flat_map (fun c => if vis a c then leaves c else []) cs end.
  Fixpoint all_files (n : node) : list attrs :=
    match n with T _ => [] | E a cs => (if hasf a then [a] else []) ++ flat_map (fun c => if vis a c then all_files c else []) cs end.

  (* ---- (A) strings ---- *)
  Lemma str_words : forall n, words (str_node fmap tmpl n) = own_words n.
  Proof.
    induction n as [w|a cs IH] using node_ind2; [reflexivity|]. cbn [str_node own_words].
    destruct (hasf a); [reflexivity|]. rewrite H_tmpl. destruct (shows a); [|reflexivity].
    induction IH as [|c cs Hc F IHF]; [reflexivity|]. cbn [flat_map]. rewrite words_app, IHF. f_equal.
    destruct (vis a c); [exact Hc|reflexivity].
  Qed.

  Lemma str_kids_words : forall a cs, words (str_kids fmap tmpl a cs) = kids_words a cs.
  Proof.
    intros a cs. unfold str_kids, kids_words. induction cs as [|c cs IH]; [reflexivity|]. cbn [flat_map]. rewrite words_app, IH. f_equal.
    destruct (vis a c); [apply str_words|reflexivity].
  Qed.

  (* ---- (B) SectionUtils.footnotes: the global scan with parent walks selects exactly the structural own_notes ---- *)
  Fixpoint elems_ctx (ch : list attrs) (n : node) : list (list attrs * attrs * list node) :=
    match n with T _ => [] | E a cs => (ch, a, cs) :: flat_map (elems_ctx (a :: ch)) cs end.
  Definition sers (n : node) : list Z := map a_ser (elements n).

  Lemma elems_ctx_elements : forall n ch, map (fun e => snd (fst e)) (elems_ctx ch n) = elements n.
  Proof.
    induction n as [w|a cs IH] using node_ind2; intros ch; [reflexivity|]. cbn [elems_ctx elements map]. f_equal.
    rewrite map_flat_map. induction IH as [|c cs Hc F IHF]; [reflexivity|]. cbn [flat_map]. rewrite Hc, IHF. reflexivity.
  Qed.

  Fixpoint locate_list (x : Z) (ch : list attrs) (cs : list node) : option (list attrs * attrs * list node) :=
    match cs with [] => None | c :: r => match locate x ch c with Some res => Some res | None => locate_list x ch r end end.

  Lemma locate_E : forall x ch a cs,
    locate x ch (E a cs) = if a_ser a =? x then Some (ch, a, cs) else locate_list x (a :: ch) cs.
  Proof.
    intros. cbn [locate]. destruct (a_ser a =? x); [reflexivity|]. induction cs as [|c cs IH]; [reflexivity|].
    cbn [locate_list]. destruct (locate x (a :: ch) c); [reflexivity|exact IH].
  Qed.

  Lemma sers_E : forall a cs, sers (E a cs) = a_ser a :: flat_map sers cs.
  Proof. intros. unfold sers. cbn [elements map]. f_equal. rewrite map_flat_map. reflexivity. Qed.

  Lemma locate_none : forall x n ch, ~ In x (sers n) -> locate x ch n = None.
  Proof.
    intros x. induction n as [w|a cs IH] using node_ind2; intros ch H; [reflexivity|]. rewrite locate_E. rewrite sers_E in H.
    destruct (a_ser a =? x) eqn:E1; [exfalso; apply H; left; lia|].
    assert (H2 : ~ In x (flat_map sers cs)) by (intro Hi; apply H; right; exact Hi). clear H E1.
    induction IH as [|c cs Hc F IHF]; [reflexivity|]. cbn [locate_list]. cbn [flat_map] in H2.
    rewrite Hc; [apply IHF|]; intro Hi; apply H2; apply in_or_app; [right|left]; exact Hi.
  Qed.

  Lemma locate_some_in : forall x n ch res, locate x ch n = Some res -> In x (sers n).
  Proof.
    intros x. induction n as [w|a cs IH] using node_ind2; intros ch res H; [discriminate|]. rewrite locate_E in H. rewrite sers_E.
    destruct (a_ser a =? x) eqn:E1; [left; lia|]. right.
    induction IH as [|c cs Hc F IHF]; [discriminate|]. cbn [locate_list] in H. cbn [flat_map]. apply in_or_app.
    destruct (locate x (a :: ch) c) eqn:L; [left; exact (Hc _ _ L)|right; exact (IHF H)].
  Qed.

  Lemma NoDup_app_l {A} : forall (l1 l2 : list A), NoDup (l1 ++ l2) -> NoDup l1.
  Proof. induction l1 as [|x l1 IH]; intros l2 H; [constructor|]. inversion H; subst. constructor; [intro Hi; apply H2; apply in_or_app; left; exact Hi|exact (IH _ H3)]. Qed.
  Lemma NoDup_app_r {A} : forall (l1 l2 : list A), NoDup (l1 ++ l2) -> NoDup l2.
  Proof. induction l1 as [|x l1 IH]; intros l2 H; [exact H|]. inversion H; subst. exact (IH _ H3). Qed.
  Lemma NoDup_app_disj {A} : forall (l1 l2 : list A) x, NoDup (l1 ++ l2) -> In x l1 -> ~ In x l2.
  Proof.
    induction l1 as [|y l1 IH]; intros l2 x H Hi; [destruct Hi|]. inversion H; subst. destruct Hi as [->|Hi].
    - intro Hx. apply H2. apply in_or_app. right. exact Hx.
    - exact (IH _ _ H3 Hi).
  Qed.

  Lemma locate_elems : forall n ch c a cs, NoDup (sers n) -> In (c, a, cs) (elems_ctx ch n) -> locate (a_ser a) ch n = Some (c, a, cs).
  Proof.
    induction n as [w|a0 cs0 IH] using node_ind2; intros ch c a cs ND Hin; [destruct Hin|]. rewrite locate_E. rewrite sers_E in ND.
    cbn [elems_ctx] in Hin. destruct Hin as [Heq|Hin].
    - inversion Heq; subst. rewrite Z.eqb_refl. reflexivity.
    - inversion ND as [|x l Hx ND2]; subst.
      assert (Hne : a_ser a0 =? a_ser a = false).
      { apply Z.eqb_neq. intro Heq. apply Hx. rewrite Heq. apply in_flat_map in Hin. destruct Hin as [c0 [Hc0 Hin]].
        apply in_flat_map. exists c0. split; [exact Hc0|]. unfold sers. rewrite <- (elems_ctx_elements c0 (a0 :: ch)).
        rewrite map_map. apply in_map_iff. exists (c, a, cs). split; [reflexivity|exact Hin]. }
      rewrite Hne. clear Hx Hne ND.
      induction IH as [|c0 cs0 Hc0 F IHF]; [destruct Hin|]. cbn [flat_map] in Hin, ND2. cbn [locate_list].
      apply in_app_or in Hin. destruct Hin as [Hin|Hin].
      + rewrite (Hc0 _ _ _ _ (NoDup_app_l _ _ ND2) Hin). reflexivity.
      + rewrite locate_none.
        * exact (IHF Hin (NoDup_app_r _ _ ND2)).
        * intro Hi. apply in_flat_map in Hin. destruct Hin as [c1 [Hc1 Hin]].
          refine (NoDup_app_disj _ _ _ ND2 Hi _). apply in_flat_map. exists c1. split; [exact Hc1|]. unfold sers.
          rewrite <- (elems_ctx_elements c1 (a0 :: ch)). rewrite map_map. apply in_map_iff. exists (c, a, cs). split; [reflexivity|exact Hin].
  Qed.

  Definition note_strs (l : list (attrs * list node)) : list (attrs * out) := map (fun p => (fst p, str_kids fmap tmpl (fst p) (snd p))) l.
  Definition sel (x : Z) (e : list attrs * attrs * list node) : list (attrs * out) :=
    match owner_of fmap (fst (fst e)) with
    | Some o => if o =? x then [(snd (fst e), str_kids fmap tmpl (snd (fst e)) (snd e))] else []
    | None => []
    end.
  Definition notep (e : list attrs * attrs * list node) : bool := is_note (snd (fst e)).
  Definition NN (x : Z) (ch : list attrs) (n : node) : list (attrs * out) := flat_map (sel x) (filter notep (elems_ctx ch n)).

  Lemma owner_cons : forall a ch, owner_of fmap (a :: ch) = if is_owner a then Some (a_ser a) else owner_of fmap ch.
  Proof. intros. unfold owner_of, is_owner. cbn [find]. destruct ((a_level a <? ENDSECTIONS_LEVEL) && hasf a); reflexivity. Qed.

  Lemma NN_E : forall x ch a cs,
    NN x ch (E a cs) = (if is_note a then sel x (ch, a, cs) else []) ++ flat_map (NN x (a :: ch)) cs.
  Proof.
    intros. unfold NN. cbn [elems_ctx]. cbn [filter]. unfold notep at 1. cbn [fst snd].
    destruct (is_note a); cbn [flat_map app]; rewrite filter_flat_map, flat_map_flat_map; reflexivity.
  Qed.

  Lemma sel_other : forall x ch a cs, owner_of fmap ch <> Some x -> sel x (ch, a, cs) = [].
  Proof.
    intros x ch a cs H. unfold sel. cbn [fst snd]. destruct (owner_of fmap ch) as [o|]; [|reflexivity].
    destruct (o =? x) eqn:E1; [|reflexivity]. exfalso. apply H. f_equal. lia.
  Qed.

  Lemma L0 : forall x n ch, owner_of fmap ch <> Some x -> ~ In x (sers n) -> NN x ch n = [].
  Proof.
    intros x. induction n as [w|a cs IH] using node_ind2; intros ch Ho Hx; [reflexivity|]. rewrite NN_E. rewrite sers_E in Hx.
    rewrite (sel_other _ _ _ _ Ho). assert (E0 : (if is_note a then @nil (attrs * out) else []) = []) by (destruct (is_note a); reflexivity).
    rewrite E0. cbn [app].
    assert (Ho' : owner_of fmap (a :: ch) <> Some x).
    { rewrite owner_cons. destruct (is_owner a); [|exact Ho]. intro Heq. inversion Heq. apply Hx. left. assumption. }
    assert (Hx' : ~ In x (flat_map sers cs)) by (intro Hi; apply Hx; right; exact Hi). clear Hx Ho E0.
    induction IH as [|c cs Hc F IHF]; [reflexivity|]. cbn [flat_map] in *.
    rewrite Hc, IHF; try reflexivity; try exact Ho'; intro Hi; apply Hx'; apply in_or_app; [right|left]; exact Hi.
  Qed.

  Lemma L1 : forall x n ch, owner_of fmap ch = Some x -> ~ In x (sers n) -> NN x ch n = note_strs (own_notes n).
  Proof.
    intros x. induction n as [w|a cs IH] using node_ind2; intros ch Ho Hx; [reflexivity|]. rewrite NN_E. rewrite sers_E in Hx.
    cbn [own_notes]. unfold note_strs. rewrite map_app. f_equal.
    - unfold sel. cbn [fst snd]. rewrite Ho, Z.eqb_refl. destruct (is_note a); reflexivity.
    - assert (Hx' : ~ In x (flat_map sers cs)) by (intro Hi; apply Hx; right; exact Hi).
      destruct (is_owner a) eqn:EO.
      + cbn [map]. apply flat_map_nil_all. intros c Hc. apply L0.
        * rewrite owner_cons, EO. intro Heq. inversion Heq. apply Hx. left. assumption.
        * intro Hi. apply Hx'. apply in_flat_map. exists c. split; assumption.
      + assert (Ho' : owner_of fmap (a :: ch) = Some x) by (rewrite owner_cons, EO; exact Ho).
        rewrite map_flat_map. clear Hx Ho EO.
        induction IH as [|c cs Hc F IHF]; [reflexivity|]. cbn [flat_map] in *. f_equal.
        * apply Hc; [exact Ho'|]. intro Hi. apply Hx'. apply in_or_app. left. exact Hi.
        * apply IHF. intro Hi. apply Hx'. apply in_or_app. right. exact Hi.
  Qed.

  Definition struct_notes (x : Z) (ch : list attrs) (r : option (list attrs * attrs * list node)) : list (attrs * out) :=
    match r with
    | Some (_, a, cs) => if is_owner a then note_strs (flat_map own_notes cs) else []
    | None => []
    end.

  Lemma L2 : forall x n ch, owner_of fmap ch <> Some x -> NoDup (sers n) -> NN x ch n = struct_notes x ch (locate x ch n).
  Proof.
    intros x. induction n as [w|a cs IH] using node_ind2; intros ch Ho ND; [reflexivity|]. rewrite NN_E, locate_E. rewrite sers_E in ND.
    rewrite (sel_other _ _ _ _ Ho). assert (E0 : (if is_note a then @nil (attrs * out) else []) = []) by (destruct (is_note a); reflexivity).
    rewrite E0. cbn [app]. clear E0. inversion ND as [|y l Hy ND2]; subst.
    destruct (a_ser a =? x) eqn:E1.
    - assert (Hax : a_ser a = x) by lia. subst x. cbn [struct_notes]. destruct (is_owner a) eqn:EO.
      + unfold note_strs. rewrite map_flat_map. apply flat_map_ext_in. intros c Hc. apply L1.
        * rewrite owner_cons, EO. reflexivity.
        * intro Hi. apply Hy. apply in_flat_map. exists c. split; assumption.
      + apply flat_map_nil_all. intros c Hc. apply L0.
        * rewrite owner_cons, EO. exact Ho.
        * intro Hi. apply Hy. apply in_flat_map. exists c. split; assumption.
    - assert (Ho' : owner_of fmap (a :: ch) <> Some x).
      { rewrite owner_cons. destruct (is_owner a); [|exact Ho]. intro Heq. inversion Heq. lia. }
      clear Hy ND Ho E1.
      induction IH as [|c cs Hc F IHF]; [reflexivity|]. cbn [flat_map locate_list] in *.
      rewrite (Hc _ Ho' (NoDup_app_l _ _ ND2)). destruct (locate x (a :: ch) c) as [res|] eqn:L.
      + rewrite flat_map_nil_all; [apply app_nil_r|]. intros c1 Hc1. apply L0; [exact Ho'|].
        intro Hi. refine (NoDup_app_disj _ _ _ ND2 (locate_some_in _ _ _ _ L) _). apply in_flat_map. exists c1. split; assumption.
      + cbn [struct_notes app]. apply IHF. exact (NoDup_app_r _ _ ND2).
  Qed.

  (* userdata['footnotes'] lists the footnote nodes of the document *)
  Definition notes_listed (doc : node) (fnotes : list Z) : Prop :=
    fnotes = map (fun e => a_ser (snd (fst e))) (filter notep (elems_ctx [] doc)).

  Theorem footnotes_struct : forall doc fnotes ch a cs,
    NoDup (sers doc) -> notes_listed doc fnotes -> In (ch, a, cs) (elems_ctx [] doc) ->
    footnotes_of fmap tmpl doc fnotes a = if is_owner a then note_strs (flat_map own_notes cs) else [].
  Proof.
    intros doc fnotes ch a cs ND HF Hin. unfold footnotes_of. rewrite HF. rewrite flat_map_map.
    transitivity (NN (a_ser a) [] doc).
    - unfold NN. apply flat_map_ext_in. intros [[c fa] fcs] He. apply filter_In in He. destruct He as [He _]. cbn [fst snd].
      rewrite (locate_elems _ _ _ _ _ ND He). unfold sel. cbn [fst snd]. reflexivity.
    - rewrite L2; [|cbn; discriminate|exact ND]. rewrite (locate_elems _ _ _ _ _ ND Hin). reflexivity.
  Qed.

  (* ---- (C) the files written ---- *)
  Lemma wr_spec : forall doc fnotes n,
    wr fmap tmpl layout shows doc fnotes n =
    map (fun p => (fname (fst p), content fmap tmpl layout doc fnotes (fst p) (snd p))) (producers n).
  Proof.
    intros doc fnotes. induction n as [w|a cs IH] using node_ind2; [reflexivity|]. cbn [wr producers]. rewrite map_app.
    assert (HI : (if shows a then flat_map (fun c => if vis a c then wr fmap tmpl layout shows doc fnotes c else []) cs else []) =
                 map (fun p => (fname (fst p), content fmap tmpl layout doc fnotes (fst p) (snd p)))
                     (if shows a then flat_map (fun c => if vis a c then producers c else []) cs else [])).
    { destruct (shows a); [|reflexivity]. rewrite map_flat_map. induction IH as [|c cs Hc F IHF]; [reflexivity|]. cbn [flat_map].
      rewrite IHF. f_equal. destruct (vis a c); [exact Hc|reflexivity]. }
    rewrite HI. unfold has_file. destruct (fmap (a_ser a)) as [f|] eqn:EF.
    - destruct (nonempty_s f); cbn [map]; [unfold fname; cbn [fst snd]; rewrite EF; reflexivity|rewrite app_nil_r; reflexivity].
    - cbn [map]. rewrite app_nil_r. reflexivity.
  Qed.

  Lemma producers_in_elems : forall n ch a cs, In (a, cs) (producers n) -> exists c, In (c, a, cs) (elems_ctx ch n).
  Proof.
    induction n as [w|a0 cs0 IH] using node_ind2; intros ch a cs H; [destruct H|]. cbn [producers] in H. cbn [elems_ctx].
    apply in_app_or in H. destruct H as [H|H].
    - destruct (shows a0); [|destruct H]. apply in_flat_map in H. destruct H as [c0 [Hc0 H]]. destruct (vis a0 c0); [|destruct H].
      rewrite Forall_forall in IH. destruct (IH _ Hc0 (a0 :: ch) _ _ H) as [c Hc]. exists c. right. apply in_flat_map. exists c0. split; assumption.
    - destruct (hasf a0); [|destruct H]. destruct H as [H|[]]. inversion H; subst. exists ch. left. reflexivity.
  Qed.

  (* ---- (D) M1: the words of the file of a unit ---- *)
  Theorem file_words : forall doc fnotes ch a cs,
    NoDup (sers doc) -> notes_listed doc fnotes -> In (ch, a, cs) (elems_ctx [] doc) ->
    words (content fmap tmpl layout doc fnotes a cs) = fwords (a, cs).
  Proof.
    intros doc fnotes ch a cs ND HF Hin. unfold content, fwords. cbn [fst snd]. rewrite H_layout, H_tmpl, str_kids_words. f_equal.
    rewrite (footnotes_struct _ _ _ _ _ ND HF Hin). destruct (is_owner a); [|reflexivity].
    unfold note_strs. rewrite flat_map_map. apply flat_map_ext_in. intros p _. cbn [snd]. apply str_kids_words.
  Qed.

  (* ---- (E) nothing lost, nothing repeated ---- *)
  (* a (sub)document the linear templates can render without loss: no node is of type DOCUMENT_NODE; a footnote's own template does
     not show its content; below a node whose template does not show its content there is no file-producing unit, and -- unless the
     node is a footnote, whose text the layout prints -- no text *)
  Fixpoint sound (n : node) : Prop :=
    match n with
    | T _ => True
    | E a cs =>
        a_isdoc a = false /\ (is_note a = true -> shows a = false) /\
        (shows a = false -> flat_map all_files cs = [] /\ (is_note a = false -> flat_map leaves cs = [])) /\
        (fix go (cs : list node) : Prop := match cs with [] => True | c :: r => sound c /\ go r end) cs
    end.

  Lemma sound_kids : forall a cs, sound (E a cs) -> Forall sound cs.
  Proof. intros a cs [_ [_ [_ H]]]. induction cs as [|c cs IH]; constructor; [exact (proj1 H)|exact (IH (proj2 H))]. Qed.

  Lemma vis_nodoc : forall a c, a_isdoc a = false -> vis a c = true.
  Proof. intros a c H. unfold vis. rewrite H. reflexivity. Qed.

  Lemma over_nodoc {A} : forall a (F : node -> list A) cs, a_isdoc a = false -> flat_map (fun c => if vis a c then F c else []) cs = flat_map F cs.
  Proof. intros a F cs H. apply flat_map_ext_in. intros c _. rewrite vis_nodoc by exact H. reflexivity. Qed.

  Lemma all_files_producers : forall n, sound n -> all_files n = [] -> producers n = [].
  Proof.
    induction n as [w|a cs IH] using node_ind2; intros S H; [reflexivity|]. pose proof (sound_kids _ _ S) as SK. destruct S as [ND _].
    cbn [all_files producers] in *. apply app_eq_nil in H. destruct H as [H1 H2].
    destruct (hasf a); [discriminate|]. rewrite app_nil_r. destruct (shows a); [|reflexivity].
    apply flat_map_nil_all. intros c Hc. rewrite vis_nodoc by exact ND. rewrite Forall_forall in IH, SK. apply IH; [exact Hc|exact (SK _ Hc)|].
    pose proof (flat_map_nil_inv _ _ H2 _ Hc) as H3. cbn beta in H3. rewrite vis_nodoc in H3 by exact ND. exact H3.
  Qed.

  Lemma partition_node : forall n, sound n ->
    Permutation (leaves n) (own_words n ++ flat_map nwords (own_notes n) ++ flat_map fwords (producers n)).
  Proof.
    induction n as [w|a cs IH] using node_ind2; intros S; [cbn; constructor; constructor|].
    pose proof (sound_kids _ _ S) as SK. destruct S as [ND [HN [HS _]]].
    assert (HK : Permutation (flat_map leaves cs)
                   (flat_map own_words cs ++ flat_map (fun c => flat_map nwords (own_notes c)) cs ++ flat_map (fun c => flat_map fwords (producers c)) cs)).
    { apply perm_flat3. intros c Hc. rewrite Forall_forall in IH, SK. exact (IH _ Hc (SK _ Hc)). }
    rewrite <- !flat_map_flat_map in HK.
    cbn [leaves own_words own_notes producers]. rewrite !over_nodoc by exact ND.
    set (W := flat_map own_words cs) in *. set (P := flat_map nwords (flat_map own_notes cs)) in *.
    set (F := flat_map fwords (flat_map producers cs)) in *.
    assert (FW : fwords (a, cs) = (if shows a then W else []) ++ (if is_owner a then P else [])).
    { unfold fwords, kids_words. cbn [fst snd]. rewrite over_nodoc by exact ND. reflexivity. }
    assert (NW : nwords (a, cs) = W) by (unfold nwords, kids_words; cbn [fst snd]; rewrite over_nodoc by exact ND; reflexivity).
    assert (OH : is_owner a = true -> hasf a = true) by (unfold is_owner; intros H; apply andb_prop in H; exact (proj2 H)).
    assert (F0 : shows a = false -> F = []).
    { intros ES. destruct (HS ES) as [HF0 _]. unfold F. apply flat_map_nil_all. intros p Hp. apply in_flat_map in Hp.
      destruct Hp as [c [Hc Hp]]. rewrite Forall_forall in SK.
      rewrite (all_files_producers c (SK _ Hc) (flat_map_nil_inv _ _ HF0 _ Hc)) in Hp. destruct Hp. }
    assert (L0 : shows a = false -> is_note a = false -> W = [] /\ P = []).
    { intros ES EN. destruct (HS ES) as [_ HL0]. specialize (HL0 EN). rewrite HL0 in HK. apply Permutation_nil in HK.
      apply app_eq_nil in HK. destruct HK as [W0 HK]. apply app_eq_nil in HK. split; [exact W0|exact (proj1 HK)]. }
    destruct (shows a) eqn:ES; destruct (is_note a) eqn:EN; destruct (hasf a) eqn:EF; destruct (is_owner a) eqn:EO;
      try (specialize (HN eq_refl); discriminate); try (specialize (OH eq_refl); discriminate);
      try (rewrite (F0 eq_refl) in * );
      try (destruct (L0 eq_refl eq_refl) as [W0 P0]; rewrite ?W0, ?P0 in * );
      rewrite ?flat_map_app; cbn [flat_map app]; rewrite ?FW, ?NW, ?app_nil_r; cbn [flat_map app]; fold P; rewrite ?app_nil_r;
      try (rewrite ?W0, ?P0);
      subst W P F; perm_from HK.
  Qed.

  (* the document node and the units rendered at the top: each has a file, is a section-level unit and no footnote *)
  Definition top_unit (c : node) : Prop :=
    match c with E da _ => is_owner da = true /\ is_note da = false /\ shows da = true | T _ => False end.

  Theorem split_partition : forall ra rcs fnotes,
    let doc := E ra rcs in
    NoDup (sers doc) -> notes_listed doc fnotes ->
    (forall c, In c rcs -> vis ra c = true -> sound c /\ top_unit c) ->
    (* the files written are those of the file-producing units reached, each with exactly the words the Spec gives it ... *)
    render fmap tmpl layout shows doc fnotes =
      map (fun p => (fname (fst p), content fmap tmpl layout doc fnotes (fst p) (snd p)))
          (flat_map (fun c => if vis ra c then producers c else []) rcs) /\
    (forall p, In p (flat_map (fun c => if vis ra c then producers c else []) rcs) ->
               words (content fmap tmpl layout doc fnotes (fst p) (snd p)) = fwords p) /\
    (* ... and together they hold every text leaf of the rendered document exactly once *)
    Permutation (flat_map (fun f => words (snd f)) (render fmap tmpl layout shows doc fnotes)) (leaves doc).
  Proof.
    intros ra rcs fnotes doc ND HF HT.
    assert (R : render fmap tmpl layout shows doc fnotes =
                map (fun p => (fname (fst p), content fmap tmpl layout doc fnotes (fst p) (snd p)))
                    (flat_map (fun c => if vis ra c then producers c else []) rcs)).
    { unfold doc. cbn [render]. rewrite map_flat_map. apply flat_map_ext_in. intros c _. destruct (vis ra c); [apply wr_spec|reflexivity]. }
    assert (FWp : forall p, In p (flat_map (fun c => if vis ra c then producers c else []) rcs) ->
                            words (content fmap tmpl layout doc fnotes (fst p) (snd p)) = fwords p).
    { intros [a cs] Hp. apply in_flat_map in Hp. destruct Hp as [c [Hc Hp]]. destruct (vis ra c); [|destruct Hp].
      destruct (producers_in_elems c [ra] a cs Hp) as [ch Hch]. cbn [fst snd].
      apply (file_words doc fnotes ch a cs ND HF). unfold doc. cbn [elems_ctx]. right. apply in_flat_map. exists c. split; assumption. }
    split; [exact R|]. split; [exact FWp|].
    rewrite R. rewrite flat_map_map. cbn [snd].
    rewrite (flat_map_ext_in _ fwords _ FWp). rewrite flat_map_flat_map. unfold doc. cbn [leaves].
    apply Permutation_sym. clear R FWp.
    assert (HH : forall c, In c rcs -> Permutation (if vis ra c then leaves c else []) (flat_map fwords (if vis ra c then producers c else []))).
    { intros c Hc. destruct (vis ra c) eqn:V; [|constructor]. destruct (HT c Hc V) as [S TU].
      pose proof (partition_node c S) as PN. destruct c as [w|da dcs]; [destruct TU|]. destruct TU as [EO [EN ES]].
      assert (EF : hasf da = true) by (unfold is_owner in EO; apply andb_prop in EO; exact (proj2 EO)).
      cbn [own_words own_notes] in PN. rewrite EF, EN, EO in PN. cbn [app flat_map] in PN. exact PN. }
    clear HT ND HF. induction rcs as [|c rcs IH]; [constructor|]. cbn [flat_map]. apply Permutation_app.
    - apply HH. left. reflexivity.
    - apply IH. intros c0 Hc0. apply HH. right. exact Hc0.
  Qed.

  (* exactly once: when the text leaves of the document are pairwise different words, each of them is in one file, at one place *)
  Corollary each_word_once : forall ra rcs fnotes,
    let doc := E ra rcs in
    NoDup (sers doc) -> notes_listed doc fnotes ->
    (forall c, In c rcs -> vis ra c = true -> sound c /\ top_unit c) ->
    NoDup (leaves doc) ->
    let allw := flat_map (fun f => words (snd f)) (render fmap tmpl layout shows doc fnotes) in
    NoDup allw /\ (forall w, In w allw <-> In w (leaves doc)).
  Proof.
    intros ra rcs fnotes doc ND HF HT NL allw. destruct (split_partition ra rcs fnotes ND HF HT) as [_ [_ P]]. fold doc in P. fold allw in P.
    split.
    - apply (Permutation_NoDup (Permutation_sym P) NL).
    - intros w. split; intro H; [apply (Permutation_in _ P H)|apply (Permutation_in _ (Permutation_sym P) H)].
  Qed.
End Split.

(* ================================================================================================================== *)
(* the table of shipped templates (std_tmpl / std_layout / std_shows) satisfies the linearity hypotheses                *)

Definition std_note (a : attrs) : bool := a_kind a =? K_FOOTNOTE.

Lemma words_opt_id : forall a, words (opt_id a) = [].
Proof. intros a. unfold opt_id. destruct (a_id a); reflexivity. Qed.

Lemma words_link_to : forall e l, words (flat_map (link_to e) l) = [].
Proof.
  intros e l. induction l as [|t l IH]; [reflexivity|]. cbn [flat_map]. rewrite words_app, IH. unfold link_to.
  destruct (e_url e t); reflexivity.
Qed.

Lemma words_pagerefs : forall e l, words (flat_map (fun t => match e_url e t with Some u => [ILink u [42]] | None => [] end) l) = [].
Proof. intros e l. induction l as [|t l IH]; [reflexivity|]. cbn [flat_map]. rewrite words_app, IH. destruct (e_url e t); reflexivity. Qed.

Lemma std_tmpl_linear : forall e, tmpl_linear (std_tmpl e) std_shows.
Proof.
  intros e a s. unfold std_tmpl, std_shows.
  destruct (a_kind a =? K_SECTION) eqn:E1.
  { apply Z.eqb_eq in E1. rewrite E1. cbn. rewrite !words_app, words_opt_id. reflexivity. }
  destruct (a_kind a =? K_FOOTNOTE) eqn:E2; [cbn; destruct (a_id a); reflexivity|].
  destruct (a_kind a =? K_REF) eqn:E3; [cbn; destruct (a_resolved a); [apply words_link_to|reflexivity]|].
  destruct (a_kind a =? K_PAGEREF) eqn:E4; [cbn; destruct (a_resolved a); [apply words_pagerefs|reflexivity]|].
  destruct (a_kind a =? K_ANCHOR) eqn:E5; [cbn; apply words_opt_id|].
  destruct (a_kind a =? K_CITE) eqn:E6; [cbn; apply words_link_to|].
  destruct (a_kind a =? K_BIBITEM) eqn:E7.
  { apply Z.eqb_eq in E7. rewrite E7. cbn. rewrite words_app, words_opt_id. reflexivity. }
  destruct (a_kind a =? K_CAPTION) eqn:E8.
  { apply Z.eqb_eq in E8. rewrite E8. cbn. rewrite words_app, words_opt_id. reflexivity. }
  destruct (a_kind a =? K_INDEXPAGE) eqn:E9.
  { apply Z.eqb_eq in E9. rewrite E9. cbn. rewrite !words_app, words_opt_id, words_link_to. reflexivity. }
  destruct (a_kind a =? K_HIDDEN) eqn:E10; [reflexivity|].
  cbn [orb negb].
  destruct (a_kind a =? K_ITEM) eqn:E11; [|reflexivity].
  rewrite words_app. destruct (e_item_ids e); [rewrite words_opt_id|]; reflexivity.
Qed.

Lemma std_layout_linear : layout_linear std_layout.
Proof.
  intros a v fns. unfold std_layout. rewrite words_app. f_equal. induction fns as [|fn fns IH]; [reflexivity|]. cbn [flat_map].
  rewrite !words_app, IH, words_opt_id. reflexivity.
Qed.

Lemma std_note_hidden : forall a, std_note a = true -> std_shows a = false.
Proof. intros a H. unfold std_note in H. unfold std_shows. rewrite H. reflexivity. Qed.

(* ================================================================================================================== *)
(* a concrete document (non-vacuity of the hypotheses)                                                                 *)

Definition ex_root : attrs := mkA 0 K_ROOT 1001 true None false None None [35] [] true.
Definition ex_docenv : attrs := mkA 1 K_DOCENV DOCUMENT_LEVEL false None false (Some []) None [100] [] true.
Definition ex_sec1 : attrs := mkA 2 K_SECTION 1 false (Some [115; 49]) false (Some [116]) (Some [49]) [115] [] true.
Definition ex_fn : attrs := mkA 3 K_FOOTNOTE 1001 false (Some [102]) true None None [102] [] true.
Definition ex_sec2 : attrs := mkA 4 K_SECTION 1 false (Some [97; 50]) true (Some [117]) (Some [50]) [115] [] true.
Definition ex_kids : list node := [E ex_docenv [T 1; E ex_sec1 [T 2; E ex_fn [T 3]; T 4]; E ex_sec2 [T 5]]].
Definition ex_doc : node := E ex_root ex_kids.
(* split-level 2, filename "index [$id, sect$num(4)]", extension ".html", no forbidden characters *)
Definition ex_cfg : rcfg :=
  {| r_split := 2;
     r_template := [105;110;100;101;120;32;91;36;105;100;44;32;115;101;99;116;36;110;117;109;40;52;41;93];
     r_fc := mk_fcfg [] [45] [46;104;116;109;108] 0 0 0; r_jobname := [106]; r_base := []; r_tocdepth := 3; r_tocnonfiles := false |}.
Definition ex_index : str := [105;110;100;101;120;46;104;116;109;108].
Definition ex_s1 : str := [115;49;46;104;116;109;108].
Definition ex_sect1 : str := [115;101;99;116;48;48;48;49;46;104;116;109;108].

Lemma ex_nonvacuous :
  match assign ex_cfg ex_doc with
  | Some (AOk _ files) =>
      files = [(1, Some ex_index); (2, Some ex_s1); (4, Some ex_sect1)] /\
      map (fun f => (fst f, words (snd f)))
          (render (the_fmap files) (std_tmpl (the_env ex_doc ex_cfg files false)) std_layout std_shows ex_doc [3]) =
        [(ex_s1, [2; 4; 3]); (ex_sect1, [5]); (ex_index, [1])] /\
      NoDup (sers ex_doc) /\ notes_listed std_note ex_doc [3] /\
      (forall c, In c ex_kids -> vis ex_root c = true ->
                 sound (the_fmap files) std_shows std_note c /\ top_unit (the_fmap files) std_shows std_note c)
  | _ => False
  end.
Proof.
  assert (A : assign ex_cfg ex_doc = Some (AOk
      (match assign ex_cfg ex_doc with Some (AOk st _) => st | _ => gen_init ex_cfg [] end)
      [(1, Some ex_index); (2, Some ex_s1); (4, Some ex_sect1)])) by (vm_compute; reflexivity).
  rewrite A. split; [reflexivity|]. split; [vm_compute; reflexivity|]. split.
  - vm_compute. repeat constructor; cbn; intuition discriminate.
  - split; [vm_compute; reflexivity|]. intros c Hc _. destruct Hc as [<-|[]].
    split; [|vm_compute; repeat split; reflexivity].
    vm_compute. repeat split; intros; try discriminate; try reflexivity.
Qed.

(* ================================================================================================================== *)
(* Part 3: links (C14)                                                                                                  *)

Section Links.
  Context (fmap : Z -> option str).
  Notation hasf := (has_file fmap).
  Notation fnm := (fname fmap).

  (* the generator never issues an empty name (every name ends in the extension), so "has a filename" and "filename is not None" agree *)
  Definition names_nonempty : Prop := forall x f, fmap x = Some f -> nonempty_s f = true.

  Definition filep (p : attrs) : bool := match fmap (a_ser p) with Some _ => true | None => false end.
  (* the file a node lies in, found from below: the nearest ancestor that has a file *)
  Definition first_file (ch : list attrs) : str := match find filep ch with Some p => fnm p | None => [] end.
  Definition url_prefix (base : str) : str := if nonempty_s (base_of base) then base_of base ++ [47] else [].

  (* Renderable.url in closed form *)
  Theorem url_spec : forall doc base ch a cs,
    NoDup (sers doc) -> In (ch, a, cs) (elems_ctx [] doc) ->
    url fmap doc base (a_ser a) =
      if hasf a then Some (url_prefix base ++ fnm a)
      else match a_id a with Some i => Some (url_prefix base ++ first_file ch ++ [35] ++ i) | None => None end.
  Proof.
    intros doc base ch a cs ND Hin. unfold url. rewrite (locate_elems _ _ _ _ _ ND Hin). unfold url_prefix, first_file, fname, filep.
    destruct (hasf a) eqn:EF.
    - unfold has_file in EF. destruct (fmap (a_ser a)) as [f|]; [|discriminate].
      destruct (nonempty_s (base_of base)); [rewrite <- app_assoc|]; reflexivity.
    - destruct (a_id a); [|reflexivity]. reflexivity.
  Qed.

  Lemma elems_trans : forall n ch0 ch a cs c e,
    In (ch, a, cs) (elems_ctx ch0 n) -> In c cs -> In e (elems_ctx (a :: ch) c) -> In e (elems_ctx ch0 n).
  Proof.
    induction n as [w|a0 cs0 IH] using node_ind2; intros ch0 ch a cs c e H Hc He; [destruct H|]. cbn [elems_ctx] in *.
    destruct H as [H|H].
    - inversion H; subst. right. apply in_flat_map. exists c. split; assumption.
    - right. apply in_flat_map in H. destruct H as [c0 [Hc0 H]]. apply in_flat_map. exists c0. split; [exact Hc0|].
      rewrite Forall_forall in IH. exact (IH _ Hc0 _ _ _ _ _ _ H Hc He).
  Qed.

  Section Provenance.
    Context (tmpl : attrs -> out -> out) (layout : attrs -> out -> list (attrs * out) -> out) (shows : attrs -> bool).
    Context (is_note : attrs -> bool).
    (* what the template of a node prints by itself, and what the layout prints for a footnote of the file *)
    Context (pre : attrs -> out) (lpre : attrs -> out).
    Definition tmpl_own : Prop := forall a s it, In it (pre a) -> In it (tmpl a s).
    Definition tmpl_keeps : Prop := forall a s it, shows a = true -> In it s -> In it (tmpl a s).
    Definition layout_keeps : Prop :=
      forall a v fns it, (In it v -> In it (layout a v fns)) /\
                         (forall fn, In fn fns -> In it (lpre (fst fn)) \/ In it (snd fn) -> In it (layout a v fns)).
    Context (H_own : tmpl_own) (H_keeps : tmpl_keeps) (H_lay : layout_keeps).

    (* the nodes whose template output is part of the string a node contributes to the file it is in *)
    Fixpoint shown_ctx (ch : list attrs) (n : node) : list (list attrs * attrs) :=
      match n with
      | T _ => []
      | E a cs => if hasf a then [] else (ch, a) :: (if shows a then flat_map (fun c => if vis a c then shown_ctx (a :: ch) c else []) cs else [])
      end.

    Lemma in_str : forall n ch ch' a' it, In (ch', a') (shown_ctx ch n) -> In it (pre a') -> In it (str_node fmap tmpl n).
    Proof.
      induction n as [w|a cs IH] using node_ind2; intros ch ch' a' it H Hit; [destruct H|]. cbn [shown_ctx str_node] in *.
      destruct (hasf a); [destruct H|]. destruct H as [H|H].
      - inversion H; subst. apply H_own. exact Hit.
      - destruct (shows a) eqn:ES; [|destruct H]. apply H_keeps; [exact ES|]. apply in_flat_map in H. destruct H as [c [Hc H]].
        apply in_flat_map. exists c. split; [exact Hc|]. destruct (vis a c); [|destruct H]. rewrite Forall_forall in IH.
        exact (IH _ Hc _ _ _ _ H Hit).
    Qed.

    Lemma shown_chain : forall n ch ch' a', names_nonempty -> In (ch', a') (shown_ctx ch n) ->
      first_file ch' = first_file ch /\ exists cs', In (ch', a', cs') (elems_ctx ch n).
    Proof.
      intros n ch ch' a' NN. revert ch ch' a'. induction n as [w|a cs IH] using node_ind2; intros ch ch' a' H; [destruct H|].
      cbn [shown_ctx elems_ctx] in *. destruct (hasf a) eqn:EF; [destruct H|]. destruct H as [H|H].
      - inversion H; subst. split; [reflexivity|]. exists cs. left. reflexivity.
      - destruct (shows a); [|destruct H]. apply in_flat_map in H. destruct H as [c [Hc H]]. destruct (vis a c); [|destruct H].
        rewrite Forall_forall in IH. destruct (IH _ Hc _ _ _ H) as [F1 [cs' F2]]. split.
        + rewrite F1. unfold first_file. cbn [find]. unfold filep at 1. unfold has_file in EF.
          destruct (fmap (a_ser a)) as [f|] eqn:EM; [|reflexivity]. rewrite (NN _ _ EM) in EF. discriminate.
        + exists cs'. right. apply in_flat_map. exists c. split; assumption.
    Qed.

    (* the body of the file of unit (a, cs): the unit itself and the nodes shown below it *)
    Definition body_nodes (chp : list attrs) (a : attrs) (cs : list node) : list (list attrs * attrs) :=
      if shows a then flat_map (fun c => if vis a c then shown_ctx (a :: chp) c else []) cs else [].

    (* M1: every node rendered in the body of a file has a url that names that file (and its own identifier), and whatever its template
       prints -- in particular the element that carries the identifier -- is in that file *)
    Theorem rendered_in_file : forall doc base fnotes chp a cs ch' a',
      NoDup (sers doc) -> names_nonempty -> In (chp, a, cs) (elems_ctx [] doc) -> hasf a = true ->
      In (ch', a') (body_nodes chp a cs) ->
      url fmap doc base (a_ser a') =
        match a_id a' with Some i => Some (url_prefix base ++ fnm a ++ [35] ++ i) | None => None end /\
      (forall it, In it (pre a') -> In it (content fmap tmpl layout doc fnotes a cs)).
    Proof.
      intros doc base fnotes chp a cs ch' a' ND NN Hin EF H. unfold body_nodes in H. destruct (shows a) eqn:ES; [|destruct H].
      apply in_flat_map in H. destruct H as [c [Hc H]]. destruct (vis a c) eqn:EV; [|destruct H].
      destruct (shown_chain _ _ _ _ NN H) as [F1 [cs' F2]]. split.
      - rewrite (url_spec doc base ch' a' cs' ND (elems_trans _ _ _ _ _ _ _ Hin Hc F2)).
        assert (EF' : hasf a' = false).
        { clear - H. revert H. generalize (a :: chp). induction c as [w|a0 cs0 IH] using node_ind2; intros ch H; [destruct H|].
          cbn [shown_ctx] in H. destruct (hasf a0) eqn:E0; [destruct H|]. destruct H as [H|H]; [inversion H; subst; exact E0|].
          destruct (shows a0); [|destruct H]. apply in_flat_map in H. destruct H as [c1 [Hc1 H]]. destruct (vis a0 c1); [|destruct H].
          rewrite Forall_forall in IH. exact (IH _ Hc1 _ H). }
        rewrite EF', F1. unfold first_file. cbn [find]. unfold filep. unfold has_file in EF. destruct (fmap (a_ser a)); [reflexivity|discriminate].
      - intros it Hit. unfold content. apply (proj1 (H_lay a _ _ it)). apply H_keeps; [exact ES|]. unfold str_kids.
        apply in_flat_map. exists c. split; [exact Hc|]. rewrite EV. exact (in_str _ _ _ _ _ H Hit).
    Qed.

    (* ... the unit itself: its url is its file, and what its own template prints is in its file *)
    Theorem unit_in_file : forall doc base fnotes chp a cs,
      NoDup (sers doc) -> In (chp, a, cs) (elems_ctx [] doc) -> hasf a = true ->
      url fmap doc base (a_ser a) = Some (url_prefix base ++ fnm a) /\
      (forall it, In it (pre a) -> In it (content fmap tmpl layout doc fnotes a cs)).
    Proof.
      intros doc base fnotes chp a cs ND Hin EF. split.
      - rewrite (url_spec doc base chp a cs ND Hin), EF. reflexivity.
      - intros it Hit. unfold content. apply (proj1 (H_lay a _ _ it)). apply H_own. exact Hit.
    Qed.

    (* ... and the footnotes of the file: what the layout prints for them (the <li id=...>) and their text *)
    Theorem note_in_file : forall doc fnotes chp a cs fa fcs it,
      NoDup (sers doc) -> notes_listed is_note doc fnotes -> In (chp, a, cs) (elems_ctx [] doc) -> is_owner fmap a = true ->
      In (fa, fcs) (flat_map (own_notes fmap is_note) cs) ->
      In it (lpre fa) \/ In it (str_kids fmap tmpl fa fcs) ->
      In it (content fmap tmpl layout doc fnotes a cs).
    Proof.
      intros doc fnotes chp a cs fa fcs it ND HF Hin EO Hn Hit. unfold content.
      apply (proj2 (H_lay a _ _ it) (fa, str_kids fmap tmpl fa fcs)); [|exact Hit].
      rewrite (footnotes_struct fmap tmpl is_note doc fnotes chp a cs ND HF Hin), EO. unfold note_strs.
      apply in_map_iff. exists (fa, fcs). split; [reflexivity|exact Hn].
    Qed.
  End Provenance.

  (* ---- navigation ---- *)
  Lemma prev_next_after : forall self l p, (forall y, In y l -> a_ser y <> self) ->
    prev_next self l p true = (p, match l with y :: _ => Some (a_ser y) | [] => None end).
  Proof.
    intros self [|y l] p H; [reflexivity|]. cbn [prev_next]. assert (a_ser y =? self = false) as ->; [|reflexivity].
    apply Z.eqb_neq. apply H. left. reflexivity.
  Qed.

  Lemma prev_next_spec : forall self l1 x l2 p,
    a_ser x = self -> (forall y, In y l1 -> a_ser y <> self) -> (forall y, In y l2 -> a_ser y <> self) ->
    prev_next self (l1 ++ x :: l2) p false =
      (match rev l1 with y :: _ => Some (a_ser y) | [] => p end, match l2 with y :: _ => Some (a_ser y) | [] => None end).
  Proof.
    intros self l1. induction l1 as [|y l1 IH]; intros x l2 p Hx H1 H2; cbn [app prev_next].
    - rewrite Hx, Z.eqb_refl. rewrite prev_next_after by exact H2. reflexivity.
    - assert (a_ser y =? self = false) as -> by (apply Z.eqb_neq; apply H1; left; reflexivity).
      rewrite (IH x l2 (Some (a_ser y)) Hx (fun z Hz => H1 z (or_intror Hz)) H2). f_equal. cbn [rev].
      destruct (rev l1) as [|z r]; reflexivity.
  Qed.

  Definition next_of (doc : node) (x : Z) : option Z := match links fmap doc x with Some n => n_next n | None => None end.
  Definition prev_of (doc : node) (x : Z) : option Z := match links fmap doc x with Some n => n_prev n | None => None end.

  (* M3: SectionUtils.links chains the file-producing sections of the document in document order *)
  Theorem nav_chain : forall doc secs,
    NoDup (map a_ser secs) ->
    (forall s, In s secs -> exists ch cs, locate (a_ser s) [] doc = Some (ch, s, cs) /\ filter hasf (document_sections doc s ch) = secs) ->
    forall l1 s t l2, secs = l1 ++ s :: t :: l2 ->
      next_of doc (a_ser s) = Some (a_ser t) /\ prev_of doc (a_ser t) = Some (a_ser s).
  Proof.
    intros doc secs ND HS l1 s t l2 E.
    assert (D : forall (l1 : list attrs) x l2, secs = l1 ++ x :: l2 ->
                (forall y, In y l1 -> a_ser y <> a_ser x) /\ (forall y, In y l2 -> a_ser y <> a_ser x)).
    { intros k1 x k2 E2. rewrite E2, map_app in ND. cbn [map] in ND. split; intros y Hy Heq.
      - apply (NoDup_app_disj _ _ (a_ser y) ND); [apply in_map; exact Hy|left; symmetry; exact Heq].
      - apply NoDup_app_r in ND. inversion ND; subst. apply H1. rewrite <- Heq. apply in_map. exact Hy. }
    split.
    - destruct (HS s) as [ch [cs [L F]]]; [rewrite E; apply in_or_app; right; left; reflexivity|].
      unfold next_of, links. rewrite L, F, E. destruct (D l1 s (t :: l2) E) as [D1 D2].
      rewrite (prev_next_spec (a_ser s) l1 s (t :: l2) None eq_refl D1 D2). reflexivity.
    - destruct (HS t) as [ch [cs [L F]]]; [rewrite E; apply in_or_app; right; right; left; reflexivity|].
      assert (E' : secs = (l1 ++ [s]) ++ t :: l2) by (rewrite E, <- app_assoc; reflexivity).
      unfold prev_of, links. rewrite L, F, E'. destruct (D (l1 ++ [s]) t l2 E') as [D1 D2].
      rewrite (prev_next_spec (a_ser t) (l1 ++ [s]) t l2 None eq_refl D1 D2). rewrite rev_app_distr. reflexivity.
  Qed.

  Fixpoint iter_next (doc : node) (k : nat) (x : Z) : option Z :=
    match k with O => Some x | S k' => match next_of doc x with Some y => iter_next doc k' y | None => None end end.

  (* ... so following the next-links from the first of them (the start page) reaches every one of them *)
  Theorem nav_reaches_all : forall doc secs first rest,
    NoDup (map a_ser secs) ->
    (forall s, In s secs -> exists ch cs, locate (a_ser s) [] doc = Some (ch, s, cs) /\ filter hasf (document_sections doc s ch) = secs) ->
    secs = first :: rest ->
    forall t, In t secs -> exists k, iter_next doc k (a_ser first) = Some (a_ser t).
  Proof.
    intros doc secs first rest ND HS E.
    assert (G : forall (l1 : list attrs) s l2, secs = l1 ++ s :: l2 -> iter_next doc (length l1) (a_ser first) = Some (a_ser s)).
    { intros l1. induction l1 as [|y l1 IH] using rev_ind; intros s l2 E2.
      - cbn in E2. rewrite E in E2. inversion E2; subst. reflexivity.
      - rewrite <- app_assoc in E2. cbn [app] in E2. specialize (IH y (s :: l2) E2).
        destruct (nav_chain doc secs ND HS l1 y s l2 E2) as [N _]. rewrite app_length. cbn [length]. rewrite Nat.add_1_r.
        clear - IH N. revert IH. generalize (a_ser first). induction (length l1) as [|k IHk]; intros x0 IH; cbn [iter_next] in *.
        + inversion IH; subst. rewrite N. reflexivity.
        + destruct (next_of doc x0); [exact (IHk _ IH)|discriminate]. }
    intros t Ht. apply in_split in Ht. destruct Ht as [l1 [l2 E2]]. exists (length l1). exact (G l1 t l2 E2).
  Qed.

  (* every file-producing unit is one of those sections when units are nested directly in one another (no unit hidden in a list, a float, ...) *)
  Fixpoint direct (n : node) : Prop :=
    match n with
    | T _ => True
    | E a cs => (fix go (cs : list node) : Prop :=
                   match cs with [] => True | c :: r => (is_sub c = true \/ all_files fmap c = []) /\ direct c /\ go r end) cs
    end.

  Lemma files_are_sections : forall n, (forall a, In a (elements n) -> a_isdoc a = false) -> direct n ->
    forall a, In a (all_files fmap n) -> In a (all_sections n).
  Proof.
    induction n as [w|a0 cs0 IH] using node_ind2; intros ND Dn a H; [destruct H|]. cbn [all_files all_sections] in *.
    assert (ND0 : a_isdoc a0 = false) by (apply ND; cbn; left; reflexivity).
    apply in_app_or in H. destruct H as [H|H]; [destruct (hasf a0); [destruct H as [<-|[]]; left; reflexivity|destruct H]|].
    right. apply in_flat_map in H. destruct H as [c [Hc H]]. rewrite vis_nodoc in H by exact ND0.
    apply in_flat_map. exists c. split; [exact Hc|].
    assert (Dc : (is_sub c = true \/ all_files fmap c = []) /\ direct c).
    { clear - Dn Hc. cbn [direct] in Dn. induction cs0 as [|c0 cs0 IHc]; [destruct Hc|]. destruct Dn as [D1 [D2 D3]].
      destruct Hc as [->|Hc]; [split; assumption|exact (IHc D3 Hc)]. }
    destruct Dc as [[Hs|Hn] Dc]; [|rewrite Hn in H; destruct H]. rewrite Hs. rewrite Forall_forall in IH.
    apply (IH _ Hc); [|exact Dc|exact H]. intros b Hb. apply ND. cbn. right. apply in_flat_map. exists c. split; assumption.
  Qed.
End Links.

(* ---- the shipped templates: what they print by themselves; M4 ---- *)
Definition std_pre (e : env) (a : attrs) : out := std_tmpl e a [].
Definition std_lpre (a : attrs) : out := opt_id a.

Lemma std_tmpl_split : forall e a s, std_tmpl e a s = std_pre e a ++ (if std_shows a then s else []).
Proof.
  intros e a s. unfold std_pre, std_tmpl, std_shows.
  destruct (a_kind a =? K_SECTION) eqn:E1.
  { apply Z.eqb_eq in E1. rewrite E1. cbn. rewrite <- !app_assoc. cbn. reflexivity. }
  destruct (a_kind a =? K_FOOTNOTE) eqn:E2; [cbn; rewrite app_nil_r; reflexivity|].
  destruct (a_kind a =? K_REF) eqn:E3; [cbn; rewrite app_nil_r; reflexivity|].
  destruct (a_kind a =? K_PAGEREF) eqn:E4; [cbn; rewrite app_nil_r; reflexivity|].
  destruct (a_kind a =? K_ANCHOR) eqn:E5; [cbn; rewrite app_nil_r; reflexivity|].
  destruct (a_kind a =? K_CITE) eqn:E6; [cbn; rewrite app_nil_r; reflexivity|].
  destruct (a_kind a =? K_BIBITEM) eqn:E7.
  { apply Z.eqb_eq in E7. rewrite E7. cbn. rewrite <- !app_assoc. cbn. reflexivity. }
  destruct (a_kind a =? K_CAPTION) eqn:E8.
  { apply Z.eqb_eq in E8. rewrite E8. cbn. rewrite <- !app_assoc. cbn. reflexivity. }
  destruct (a_kind a =? K_INDEXPAGE) eqn:E9.
  { apply Z.eqb_eq in E9. rewrite E9. cbn. rewrite <- !app_assoc. cbn. rewrite ?app_nil_r. reflexivity. }
  destruct (a_kind a =? K_HIDDEN) eqn:E10; [reflexivity|]. cbn [orb negb].
  destruct (a_kind a =? K_ITEM) eqn:E11; [rewrite <- !app_assoc; cbn; reflexivity|reflexivity].
Qed.

Lemma std_own : forall e, tmpl_own (std_tmpl e) (std_pre e).
Proof. intros e a s it H. rewrite std_tmpl_split. apply in_or_app. left. exact H. Qed.
Lemma std_keeps : forall e, tmpl_keeps (std_tmpl e) std_shows.
Proof. intros e a s it ES H. rewrite std_tmpl_split, ES. apply in_or_app. right. exact H. Qed.
Lemma std_lay : layout_keeps std_layout std_lpre.
Proof.
  intros a v fns it. unfold std_layout. split; [intro H; apply in_or_app; left; exact H|].
  intros fn Hfn H. apply in_or_app. right. apply in_flat_map. exists fn. split; [exact Hfn|]. apply in_or_app. exact H.
Qed.

(* M4: the link printed for a resolved \ref is <a href="url of the target">number of the target</a> *)
Lemma std_ref_shows_number : forall e a t u,
  a_kind a = K_REF -> a_resolved a = true -> a_targets a = [t] -> e_url e t = Some u ->
  std_pre e a = [ILink u (match e_ref e t with Some r => r | None => [] end)].
Proof.
  intros e a t u HK HR HT HU. unfold std_pre, std_tmpl. rewrite HK. cbn. rewrite HR, HT. cbn. unfold link_to. rewrite HU. reflexivity.
Qed.

(* the elements that carry an identifier: headings, index anchors, bibliography items, captions (their figure), index pages *)
Lemma std_id_printed : forall e a i,
  a_id a = Some i ->
  a_kind a = K_SECTION \/ a_kind a = K_ANCHOR \/ a_kind a = K_BIBITEM \/ a_kind a = K_CAPTION \/ a_kind a = K_INDEXPAGE ->
  In (IId i) (std_pre e a).
Proof.
  intros e a i HI HK. unfold std_pre, std_tmpl, opt_id. rewrite HI.
  destruct HK as [H|[H|[H|[H|H]]]]; rewrite H; cbn; left; reflexivity.
Qed.

(* the file of every unit reached is written, under the unit's name, with the unit's content (no hypothesis on the templates) *)
Lemma producer_written : forall fmap tmpl layout shows ra rcs fnotes p,
  In p (flat_map (fun c => if vis ra c then producers fmap shows c else []) rcs) ->
  In (fname fmap (fst p), content fmap tmpl layout (E ra rcs) fnotes (fst p) (snd p)) (render fmap tmpl layout shows (E ra rcs) fnotes).
Proof.
  intros fmap tmpl layout shows ra rcs fnotes p H. cbn [render]. apply in_flat_map in H. destruct H as [c [Hc H]].
  apply in_flat_map. exists c. split; [exact Hc|]. destruct (vis ra c); [|destruct H]. rewrite wr_spec.
  apply in_map_iff. exists p. split; [reflexivity|exact H].
Qed.

(* a unit all of whose ancestors show their content is reached *)
Lemma reached : forall fmap shows n ch0 ch a cs,
  In (ch, a, cs) (elems_ctx ch0 n) -> has_file fmap a = true ->
  (forall k q, nth_error ch k = Some q -> (k < length ch - length ch0)%nat -> shows q = true /\ a_isdoc q = false) ->
  (length ch0 <= length ch)%nat ->
  In (a, cs) (producers fmap shows n).
Proof.
  intros fmap shows. induction n as [w|a0 cs0 IH] using node_ind2; intros ch0 ch a cs H EF HS HL; [destruct H|].
  cbn [elems_ctx producers] in *. destruct H as [H|H].
  - inversion H; subst. apply in_or_app. right. rewrite EF. left. reflexivity.
  - apply in_flat_map in H. destruct H as [c [Hc H]]. apply in_or_app. left.
    assert (LL : forall n ch0 e, In e (elems_ctx ch0 n) -> exists mid, fst (fst e) = mid ++ ch0).
    { clear. induction n as [w|a1 cs1 IH1] using node_ind2; intros ch0 e H; [destruct H|]. cbn [elems_ctx] in H. destruct H as [<-|H].
      - exists []. reflexivity.
      - apply in_flat_map in H. destruct H as [c [Hc H]]. rewrite Forall_forall in IH1. destruct (IH1 _ Hc _ _ H) as [mid Hm].
        exists (mid ++ [a1]). rewrite Hm, <- app_assoc. reflexivity. }
    destruct (LL c (a0 :: ch0) _ H) as [mid Hm]. cbn [fst] in Hm. subst ch.
    assert (Hq : shows a0 = true /\ a_isdoc a0 = false).
    { apply (HS (length mid)); [rewrite nth_error_app2 by lia; rewrite Nat.sub_diag; reflexivity|].
      rewrite app_length. cbn [length]. lia. }
    destruct Hq as [ES ND]. rewrite ES. apply in_flat_map. exists c. split; [exact Hc|]. rewrite vis_nodoc by exact ND.
    rewrite Forall_forall in IH. apply (IH _ Hc (a0 :: ch0) (mid ++ a0 :: ch0) a cs H EF).
    + intros k q Hk Hlt. apply (HS k q Hk). rewrite app_length in *. cbn [length] in *. lia.
    + rewrite app_length. cbn [length]. lia.
Qed.

Definition ex_files : fileslist := [(1, Some ex_index); (2, Some ex_s1); (4, Some ex_sect1)].

Lemma ex_links :
  let fm := the_fmap ex_files in
  let secs := [ex_docenv; ex_sec1; ex_sec2] in
  url fm ex_doc [] 2 = Some ex_s1 /\ url fm ex_doc [] 3 = Some (ex_s1 ++ [35; 102]) /\
  next_of fm ex_doc 1 = Some 2 /\ next_of fm ex_doc 2 = Some 4 /\ next_of fm ex_doc 4 = None /\
  names_nonempty fm /\ NoDup (map a_ser secs) /\
  (forall s, In s secs -> exists ch cs, locate (a_ser s) [] ex_doc = Some (ch, s, cs) /\
                                        filter (has_file fm) (document_sections ex_doc s ch) = secs) /\
  In ([ex_sec1; ex_docenv; ex_root], ex_fn) (body_nodes fm std_shows [ex_docenv; ex_root] ex_sec1 [T 2; E ex_fn [T 3]; T 4]).
Proof.
  cbv zeta. repeat split; try (vm_compute; reflexivity).
  - intros x f H. unfold the_fmap, ex_files in H. cbn [files_lookup] in H.
    destruct (x =? 1); [inversion H; reflexivity|]. destruct (x =? 2); [inversion H; reflexivity|].
    destruct (x =? 4); [inversion H; reflexivity|discriminate].
  - vm_compute. repeat constructor; cbn; intuition discriminate.
  - intros s [<-|[<-|[<-|[]]]]; eexists; eexists; (split; [vm_compute; reflexivity|vm_compute; reflexivity]).
  - vm_compute. left. reflexivity.
Qed.

(* ================================================================================================================== *)
(* M2 of C14: identifiers unique within each file                                                                       *)

Definition str_dec : forall a b : str, {a = b} + {a <> b} := list_eq_dec Z.eq_dec.
Definition cnt (i : str) (l : list str) : nat := count_occ str_dec l i.

Lemma ids_app : forall a b, ids (a ++ b) = ids a ++ ids b.
Proof. intros. unfold ids. apply flat_map_app. Qed.
Lemma cnt_app : forall i a b, cnt i (a ++ b) = (cnt i a + cnt i b)%nat.
Proof. intros. unfold cnt. apply count_occ_app. Qed.
Lemma ids_flat_map {A} : forall (f : A -> out) l, ids (flat_map f l) = flat_map (fun x => ids (f x)) l.
Proof. intros f l. induction l as [|x l IH]; [reflexivity|]. cbn [flat_map]. rewrite ids_app, IH. reflexivity. Qed.
Lemma cnt_flat_map {A} : forall i (f : A -> list str) l, cnt i (flat_map f l) = list_sum (map (fun x => cnt i (f x)) l).
Proof. intros i f l. induction l as [|x l IH]; [reflexivity|]. cbn [flat_map map list_sum]. rewrite cnt_app, IH. reflexivity. Qed.
Lemma list_sum_cons : forall x l, list_sum (x :: l) = (x + list_sum l)%nat.
Proof. reflexivity. Qed.
Lemma list_sum_le {A} : forall (f g : A -> nat) l, (forall x, In x l -> (f x <= g x)%nat) -> (list_sum (map f l) <= list_sum (map g l))%nat.
Proof.
  intros f g l. induction l as [|x l IH]; intros H; [apply Nat.le_refl|]. cbn [map]. rewrite !list_sum_cons.
  apply Nat.add_le_mono; [apply H; left; reflexivity|apply IH; intros y Hy; apply H; right; exact Hy].
Qed.
Lemma list_sum_add {A} : forall (f g : A -> nat) l, list_sum (map (fun x => (f x + g x)%nat) l) = (list_sum (map f l) + list_sum (map g l))%nat.
Proof. intros f g l. induction l as [|x l IH]; [reflexivity|]. cbn [map]. rewrite !list_sum_cons, IH. lia. Qed.
Lemma list_sum_in {A} : forall (f : A -> nat) l x, In x l -> (f x <= list_sum (map f l))%nat.
Proof. intros f l x. induction l as [|y l IH]; intros H; [destruct H|]. cbn [map]. rewrite list_sum_cons. destruct H as [->|H]; [lia|specialize (IH H); lia]. Qed.

Section Ids.
  Context (fmap : Z -> option str).
  Context (tmpl : attrs -> out -> out) (layout : attrs -> out -> list (attrs * out) -> out) (shows : attrs -> bool).
  Context (is_note : attrs -> bool) (pre lpre : attrs -> out).
  (* a node template prints the identifiers of [pre a] and, if it shows its content, those of the content; the layout prints the
     identifiers of the content and, per footnote, those of [lpre f] and of the footnote text; and a node's own templates print at most
     the node's own identifier, at most once *)
  Definition ids_tmpl : Prop := forall a s, ids (tmpl a s) = ids (pre a) ++ (if shows a then ids s else []).
  Definition ids_layout : Prop := forall a v fns, ids (layout a v fns) = ids v ++ flat_map (fun fn => ids (lpre (fst fn)) ++ ids (snd fn)) fns.
  Definition opt_list (o : option str) : list str := match o with Some i => [i] | None => [] end.
  Definition own_id_only : Prop :=
    forall a i, (cnt i (ids (pre a)) + (if is_note a then cnt i (ids (lpre a)) else O) <= cnt i (opt_list (a_id a)))%nat.
  Context (H1 : ids_tmpl) (H2 : ids_layout) (H3 : own_id_only) (H4 : forall a, is_note a = true -> shows a = false).
  Notation hasf := (has_file fmap).

  (* how often the templates of the nodes of a subtree can print the identifier i *)
  Fixpoint PL (i : str) (n : node) : nat :=
    match n with
    | T _ => O
    | E a cs => (cnt i (ids (pre a)) + (if is_note a then cnt i (ids (lpre a)) else O) + list_sum (map (PL i) cs))%nat
    end.
  Definition SS (i : str) (n : node) : nat := cnt i (ids (str_node fmap tmpl n)).
  Definition N1 (i : str) (p : attrs * list node) : nat := (cnt i (ids (lpre (fst p))) + cnt i (ids (str_kids fmap tmpl (fst p) (snd p))))%nat.
  Definition NS (i : str) (n : node) : nat := list_sum (map (N1 i) (own_notes fmap is_note n)).

  Lemma str_kids_cnt : forall i a cs, a_isdoc a = false -> cnt i (ids (str_kids fmap tmpl a cs)) = list_sum (map (SS i) cs).
  Proof.
    intros i a cs ND. unfold str_kids. rewrite ids_flat_map, cnt_flat_map. f_equal. apply map_ext. intros c. rewrite vis_nodoc by exact ND. reflexivity.
  Qed.

  Lemma NS_kids : forall i cs, list_sum (map (N1 i) (flat_map (own_notes fmap is_note) cs)) = list_sum (map (NS i) cs).
  Proof.
    intros i cs. induction cs as [|c cs IH]; [reflexivity|]. cbn [flat_map map]. rewrite map_app, list_sum_app, list_sum_cons, IH. reflexivity.
  Qed.

  Lemma list_sum_nil : list_sum [] = O.
  Proof. reflexivity. Qed.

  Lemma ids_inv : forall i n, (forall a, In a (elements n) -> a_isdoc a = false) -> (SS i n + NS i n <= PL i n)%nat.
  Proof.
    intros i. induction n as [w|a cs IH] using node_ind2; intros ND; [cbn; lia|].
    assert (ND0 : a_isdoc a = false) by (apply ND; cbn; left; reflexivity).
    assert (IHs : (list_sum (map (SS i) cs) + list_sum (map (NS i) cs) <= list_sum (map (PL i) cs))%nat).
    { rewrite <- list_sum_add. apply list_sum_le. intros c Hc. rewrite Forall_forall in IH. apply (IH _ Hc).
      intros b Hb. apply ND. cbn. right. apply in_flat_map. exists c. split; assumption. }
    unfold SS, NS. cbn [str_node own_notes PL]. rewrite map_app, list_sum_app.
    assert (K : cnt i (ids (flat_map (fun c => if vis a c then str_node fmap tmpl c else []) cs)) = list_sum (map (SS i) cs)) by (apply (str_kids_cnt i a cs ND0)).
    assert (NK : (list_sum (map (N1 i) (if is_owner fmap a then [] else flat_map (own_notes fmap is_note) cs)) <= list_sum (map (NS i) cs))%nat).
    { destruct (is_owner fmap a); [cbn; lia|]. rewrite NS_kids. apply Nat.le_refl. }
    pose proof (H3 a i) as Hown.
    assert (KK : cnt i (ids (str_kids fmap tmpl a cs)) = list_sum (map (SS i) cs)) by (apply (str_kids_cnt i a cs ND0)).
    assert (C0 : cnt i [] = O) by reflexivity.
    assert (NH : N1 i (a, cs) = (cnt i (ids (lpre a)) + list_sum (map (SS i) cs))%nat) by (unfold N1; cbn [fst snd]; rewrite KK; reflexivity).
    destruct (hasf a) eqn:EF.
    - change (ids []) with (@nil str). rewrite C0.
      destruct (is_note a) eqn:EN; cbn [map]; rewrite ?list_sum_cons, ?list_sum_nil, ?NH; lia.
    - rewrite H1, cnt_app. destruct (is_note a) eqn:EN.
      + rewrite (H4 a EN). rewrite C0. cbn [map]. rewrite ?list_sum_cons, ?list_sum_nil, ?NH. lia.
      + cbn [map]. rewrite ?list_sum_nil. destruct (shows a); [rewrite K|rewrite C0]; lia.
  Qed.

  Lemma PL_mono : forall i n ch0 ch a cs, In (ch, a, cs) (elems_ctx ch0 n) -> (PL i (E a cs) <= PL i n)%nat.
  Proof.
    intros i. induction n as [w|a0 cs0 IH] using node_ind2; intros ch0 ch a cs H; [destruct H|]. cbn [elems_ctx] in H. destruct H as [H|H].
    - inversion H; subst. apply Nat.le_refl.
    - apply in_flat_map in H. destruct H as [c [Hc H]]. rewrite Forall_forall in IH. specialize (IH _ Hc _ _ _ _ H).
      pose proof (list_sum_in (PL i) cs0 c Hc) as L. cbn [PL] in *. lia.
  Qed.

  Lemma PL_total : forall i n, (PL i n <= cnt i (flat_map (fun a => opt_list (a_id a)) (elements n)))%nat.
  Proof.
    intros i. induction n as [w|a cs IH] using node_ind2; [cbn; lia|]. cbn [PL elements flat_map]. rewrite cnt_app. pose proof (H3 a i) as Hown.
    assert (L : (list_sum (map (PL i) cs) <= cnt i (flat_map (fun a => opt_list (a_id a)) (flat_map elements cs)))%nat).
    { rewrite flat_map_flat_map, cnt_flat_map. apply list_sum_le. intros c Hc. rewrite Forall_forall in IH. exact (IH _ Hc). }
    destruct (is_note a); lia.
  Qed.

  (* M2: in every document whose nodes have pairwise different identifiers, no identifier is printed twice into the file of a unit *)
  Theorem ids_unique_in_file : forall doc fnotes ch a cs,
    NoDup (sers doc) -> notes_listed is_note doc fnotes -> In (ch, a, cs) (elems_ctx [] doc) ->
    (forall b, In b (elements (E a cs)) -> a_isdoc b = false) ->
    NoDup (flat_map (fun b => opt_list (a_id b)) (elements doc)) ->
    NoDup (ids (content fmap tmpl layout doc fnotes a cs)).
  Proof.
    intros doc fnotes ch a cs ND HF Hin NDoc NI. apply (NoDup_count_occ str_dec). intro i. fold (cnt i (ids (content fmap tmpl layout doc fnotes a cs))).
    assert (ND0 : a_isdoc a = false) by (apply NDoc; cbn; left; reflexivity).
    assert (B : (cnt i (ids (content fmap tmpl layout doc fnotes a cs)) <= PL i (E a cs))%nat).
    { unfold content. rewrite H2, cnt_app, H1, cnt_app. rewrite (footnotes_struct fmap tmpl is_note doc fnotes ch a cs ND HF Hin).
      assert (IHs : (list_sum (map (SS i) cs) + list_sum (map (NS i) cs) <= list_sum (map (PL i) cs))%nat).
      { rewrite <- list_sum_add. apply list_sum_le. intros c Hc. apply ids_inv. intros b Hb. apply NDoc. cbn. right. apply in_flat_map. exists c. split; assumption. }
      assert (F : (cnt i (flat_map (fun fn => ids (lpre (fst fn)) ++ ids (snd fn))
                            (if is_owner fmap a then note_strs fmap tmpl (flat_map (own_notes fmap is_note) cs) else [])) <= list_sum (map (NS i) cs))%nat).
      { destruct (is_owner fmap a); [|cbn; lia]. rewrite cnt_flat_map. unfold note_strs. rewrite map_map. rewrite <- NS_kids.
        apply Nat.eq_le_incl. f_equal. apply map_ext. intros p. cbn [fst snd]. rewrite cnt_app. reflexivity. }
      pose proof (H3 a i) as Hown. cbn [PL].
      assert (S1 : (cnt i (if shows a then ids (str_kids fmap tmpl a cs) else []) <= list_sum (map (SS i) cs))%nat).
      { destruct (shows a); [rewrite (str_kids_cnt i a cs ND0); apply Nat.le_refl|cbn; lia]. }
      destruct (is_note a); lia. }
    pose proof (PL_mono i doc [] ch a cs Hin) as M. pose proof (PL_total i doc) as TT.
    pose proof (proj1 (NoDup_count_occ str_dec _) NI i) as C1. unfold cnt in *. lia.
  Qed.
End Ids.

Lemma std_ids_tmpl : forall e, ids_tmpl (std_tmpl e) std_shows (std_pre e).
Proof. intros e a s. rewrite std_tmpl_split, ids_app. destruct (std_shows a); reflexivity. Qed.
Lemma std_ids_layout : ids_layout std_layout std_lpre.
Proof.
  intros a v fns. unfold std_layout. rewrite ids_app. f_equal. rewrite ids_flat_map. apply flat_map_ext_in. intros fn _. apply ids_app.
Qed.

Lemma ids_link_to : forall e l, ids (flat_map (link_to e) l) = [].
Proof. intros e l. rewrite ids_flat_map. apply flat_map_nil_all. intros t _. unfold link_to. destruct (e_url e t); reflexivity. Qed.

Lemma ids_opt_id : forall a, ids (opt_id a) = opt_list (a_id a).
Proof. intros a. unfold opt_id, opt_list. destruct (a_id a); reflexivity. Qed.

Lemma std_own_id_only : forall e, e_item_ids e = false -> own_id_only std_note (std_pre e) std_lpre.
Proof.
  intros e HI a i. unfold std_note, std_lpre, std_pre, std_tmpl. rewrite ids_opt_id.
  destruct (a_kind a =? K_SECTION) eqn:E1.
  { apply Z.eqb_eq in E1. rewrite E1. cbn. rewrite !ids_app, ids_opt_id. cbn. rewrite app_nil_r. lia. }
  destruct (a_kind a =? K_FOOTNOTE) eqn:E2; [destruct (a_id a); cbn; lia|].
  destruct (a_kind a =? K_REF) eqn:E3; [destruct (a_resolved a); [rewrite ids_link_to|]; cbn; lia|].
  destruct (a_kind a =? K_PAGEREF) eqn:E4.
  { destruct (a_resolved a); [|cbn; lia]. rewrite ids_flat_map, flat_map_nil_all; [cbn; lia|]. intros t _. destruct (e_url e t); reflexivity. }
  destruct (a_kind a =? K_ANCHOR) eqn:E5; [rewrite ids_opt_id; lia|].
  destruct (a_kind a =? K_CITE) eqn:E6; [rewrite ids_link_to; cbn; lia|].
  destruct (a_kind a =? K_BIBITEM) eqn:E7; [rewrite app_nil_r, ids_opt_id; lia|].
  destruct (a_kind a =? K_CAPTION) eqn:E8; [rewrite app_nil_r, ids_opt_id; lia|].
  destruct (a_kind a =? K_INDEXPAGE) eqn:E9; [rewrite app_nil_r, ids_app, ids_opt_id, ids_link_to, app_nil_r; lia|].
  destruct (a_kind a =? K_HIDDEN) eqn:E10; [cbn; lia|].
  destruct (a_kind a =? K_ITEM) eqn:E11; [rewrite HI; cbn; lia|cbn; lia].
Qed.

(* the identifier generator (Macro.id / idgen) does not look at the labels of the document: a label that reads like a generated
   identifier can equal the identifier generated for another node of the same file.  On the faithful Model with the shipped templates:
   \section{t}\label{f} whose footnote gets the generated identifier "f": the heading and the footnote entry carry the same id. *)
Definition ex_sec1_clash : attrs := mkA 2 K_SECTION 1 false (Some [102]) false (Some [116]) (Some [49]) [115] [] true.
Definition ex_doc_clash : node := E ex_root [E ex_docenv [T 1; E ex_sec1_clash [T 2; E ex_fn [T 3]; T 4]; E ex_sec2 [T 5]]].

Lemma ids_unique_refuted :
  let fm := the_fmap ex_files in
  let e := the_env ex_doc_clash ex_cfg ex_files false in
  NoDup (sers ex_doc_clash) /\ notes_listed std_note ex_doc_clash [3] /\
  In ([ex_docenv; ex_root], ex_sec1_clash, [T 2; E ex_fn [T 3]; T 4]) (elems_ctx [] ex_doc_clash) /\
  ~ NoDup (ids (content fm (std_tmpl e) std_layout ex_doc_clash [3] ex_sec1_clash [T 2; E ex_fn [T 3]; T 4])).
Proof.
  cbv zeta. split; [vm_compute; repeat constructor; cbn; intuition discriminate|]. split; [vm_compute; reflexivity|].
  split; [vm_compute; right; right; left; reflexivity|]. vm_compute. intro H. inversion H as [|x l Hn Hd]; subst. apply Hn. left. reflexivity.
Qed.

(* ================================================================================================================== *)
(* Part 4: the names issued are expansions of the template; their substituted values carry no forbidden character      *)

Definition gphase_ok (p : phase) : Prop :=
  match p with PStatic _ _ g _ => lookup k_num g = None | PWild _ g _ _ => lookup k_num g = None | _ => True end.
Definition inv_num (s : Filenames.st) : Prop := lookup k_num (vars s) = None /\ gphase_ok (ph s).

(* [name] is what one alternative [item] of the template expands to in some namespace v that does not bind "num" *)
Definition is_expansion (c : Filenames.cfg) (items : list str) (name : str) : Prop :=
  exists item v taken n1 n', In item items /\ lookup k_num v = None /\ chosen c v taken n1 item name n'.

Lemma wild_outcome_name : forall c wild g num v taken passes name s',
  wild_outcome c wild g num v taken passes (RName name) s' ->
  (exists item n1 n', In item wild /\ chosen c v taken n1 item name n') /\ vars s' = g /\ exists n' p', ph s' = PWild wild g n' p'.
Proof.
  intros c wild g num v taken passes name s' H. cbn in H. destruct H as [k [pre [item [post [n1 [n' [E [_ [C [S _]]]]]]]]]].
  split; [exists item, n1, n'; split; [rewrite E; apply in_or_app; right; left; reflexivity|exact C]|]. subst s'. cbn. split; [reflexivity|eauto].
Qed.

Lemma static_outcome_name : forall c rest wild g num v taken name s',
  static_outcome c rest wild g num v taken (RName name) s' ->
  (exists item n1 n', In item (rest ++ wild) /\ chosen c v taken n1 item name n') /\ vars s' = g /\
  ((exists rest' n', ph s' = PStatic rest' wild g n' /\ exists used, rest = used ++ rest') \/ exists n' p', ph s' = PWild wild g n' p').
Proof.
  intros c rest wild g num v taken name s' [H|[H|H]].
  - destruct H as [pre [item [rest' [n1 [n' [name0 [E [R [_ [C S]]]]]]]]]]. inversion E; subst name0. split.
    + exists item, n1, n'. split; [rewrite R; apply in_or_app; left; apply in_or_app; right; left; reflexivity|exact C].
    + subst s'. cbn. split; [reflexivity|]. left. exists rest', n'. split; [reflexivity|]. exists (pre ++ [item]). rewrite R, <- app_assoc. reflexivity.
  - destruct H as [n1 [_ W]]. apply wild_outcome_name in W. destruct W as [[item [m1 [m' [I C]]]] [V P]]. split.
    + exists item, m1, m'. split; [apply in_or_app; right; exact I|exact C].
    + split; [exact V|right; exact P].
  - destruct H as [pre [item [rest' [n1 [e [E _]]]]]]. discriminate.
Qed.

Lemma request_expansion : forall c s b static wild name s',
  legacy_reset c = false -> follows static wild (ph s) -> inv_num s -> lookup k_num (update (vars s) b) = None ->
  request c s b = (RName name, s') -> is_expansion c (static ++ wild) name /\ inv_num s'.
Proof.
  intros c s b static wild name s' Hr F [I1 I2] Hn H. destruct (ph s) as [files|rest w g num|w g num passes|] eqn:P; cbn [follows gphase_ok] in *.
  - pose proof (first_request c s b files static wild _ _ Hr P F Hn H) as O. apply static_outcome_name in O.
    destruct O as [[item [n1 [n' [I C]]]] [V Q]]. split.
    + exists item, (update (vars s) b), (inval s), n1, n'. repeat split; assumption.
    + split; [rewrite V; exact Hn|]. destruct Q as [[rest' [m [Q _]]]|[m [p Q]]]; rewrite Q; cbn; exact Hn.
  - destruct F as [-> [used U]]. pose proof (static_request c s b rest wild g num _ _ Hr P Hn H) as O. apply static_outcome_name in O.
    destruct O as [[item [n1 [n' [I C]]]] [V Q]]. split.
    + exists item, (update (vars s) b), (inval s), n1, n'. split; [|split; assumption]. rewrite U, <- app_assoc. apply in_or_app. right. exact I.
    + split; [rewrite V; exact I2|]. destruct Q as [[rest' [m [Q _]]]|[m [p Q]]]; rewrite Q; cbn; exact I2.
  - subst w. pose proof (wildcard_request c s b wild g num passes _ _ Hr P Hn H) as O. apply wild_outcome_name in O.
    destruct O as [[item [n1 [n' [I C]]]] [V [m [p Q]]]]. split.
    + exists item, (update (vars s) b), (inval s), n1, n'. split; [apply in_or_app; right; exact I|split; assumption].
    + split; [rewrite V; exact I2|rewrite Q; cbn; exact I2].
  - unfold request in H. rewrite P in H. discriminate.
Qed.

Lemma dead_no_names : forall c reqs s out s', ph s = PDead -> run c s reqs = (out, s') -> names_of out = [].
Proof.
  intros c reqs. induction reqs as [|b reqs IH]; intros s out s' D H; cbn [run] in H; [inversion H; reflexivity|].
  unfold request in H. rewrite D in H. cbn iota in H.
  match type of H with context [run c ?s1 reqs] => destruct (run c s1 reqs) as [o2 s2] eqn:R2 end.
  inversion H; subst. cbn [names_of]. refine (IH _ _ _ _ R2). reflexivity.
Qed.

Definition keeps_num (b : list (str * str)) : Prop := forall v, lookup k_num v = None -> lookup k_num (update v b) = None.

Lemma run_expansion : forall c static wild reqs s out s',
  legacy_reset c = false -> follows static wild (ph s) -> inv_num s -> Forall keeps_num reqs ->
  run c s reqs = (out, s') -> forall name, In name (names_of out) -> is_expansion c (static ++ wild) name.
Proof.
  intros c static wild reqs. induction reqs as [|b reqs IH]; intros s out s' Hr F I K H name Hin; cbn [run] in H.
  - inversion H; subst. destruct Hin.
  - destruct (request c s b) as [r s1] eqn:R1. destruct (run c s1 reqs) as [o2 s2] eqn:R2. inversion H; subst; clear H.
    inversion K as [|x l K1 K2]; subst. pose proof (request_terminates_or_errors _ _ _ _ _ R1) as T.
    destruct r as [f| |k|]; cbn [names_of] in Hin; cbn in T.
    + destruct (request_expansion c s b static wild f s1 Hr F I (K1 _ (proj1 I)) R1) as [E I1].
      destruct Hin as [<-|Hin]; [exact E|].
      destruct (stages_in_order c s b _ s1 static wild F R1) as [F1 _]. exact (IH _ _ _ Hr F1 I1 K2 R2 _ Hin).
    + destruct T as [_ [D _]]. rewrite (dead_no_names _ _ _ _ _ D R2) in Hin. destruct Hin.
    + destruct T as [_ [D _]]. rewrite (dead_no_names _ _ _ _ _ D R2) in Hin. destruct Hin.
    + contradiction.
Qed.

Lemma update_other : forall b v, Forall (fun kv => str_eqb k_num (fst kv) = false) b -> lookup k_num (update v b) = lookup k_num v.
Proof.
  intros b. unfold update. induction b as [|[k x] b IH]; intros v H; cbn [fold_left]; [reflexivity|]. inversion H; subst.
  rewrite IH by assumption. apply lookup_set_other. assumption.
Qed.

Lemma bindings_keep_num : forall a, keeps_num (bindings a).
Proof.
  intros a v H. rewrite update_other; [exact H|]. unfold bindings. repeat (apply Forall_app; split).
  - destruct (a_id a); [destruct (a_genid a)|]; repeat constructor.
  - destruct (a_title a); repeat constructor.
  - destruct (a_ref a) as [r|]; [destruct (nonempty_s r)|]; repeat constructor.
  - destruct (nonempty_s (a_name a)); repeat constructor.
Qed.

(* the characters of a word-limited value: those of the value, and the blank that joins the words *)
Lemma split_words_chars : forall s cur w ch, In w (split_words cur s) -> In ch w -> In ch cur \/ In ch s.
Proof.
  induction s as [|c s IH]; intros cur w ch Hw Hc; cbn [split_words] in Hw.
  - destruct cur; [destruct Hw|]. destruct Hw as [<-|[]]. left. apply in_rev. exact Hc.
  - destruct (is_space c).
    + destruct cur as [|x cur].
      * destruct (IH _ _ _ Hw Hc) as [[]|H]. right. right. exact H.
      * destruct Hw as [<-|Hw]; [left; apply in_rev; exact Hc|]. destruct (IH _ _ _ Hw Hc) as [[]|H]. right. right. exact H.
    + destruct (IH _ _ _ Hw Hc) as [[<-|H]|H]; [right; left; reflexivity|left; exact H|right; right; exact H].
Qed.

Lemma join_sp_chars : forall l ch, In ch (join_sp l) -> ch = 32 \/ exists w, In w l /\ In ch w.
Proof.
  induction l as [|w l IH]; intros ch H; [destruct H|]. cbn [join_sp] in H. destruct l as [|w2 l].
  - right. exists w. split; [left; reflexivity|exact H].
  - apply in_app_or in H. destruct H as [H|[H|H]].
    + right. exists w. split; [left; reflexivity|exact H].
    + left. symmetry. exact H.
    + destruct (IH _ H) as [E|[w3 [A B]]]; [left; exact E|right; exists w3; split; [right; exact A|exact B]].
Qed.

Lemma firstn_In' {A} : forall n (l : list A) x, In x (firstn n l) -> In x l.
Proof. induction n as [|n IH]; intros [|y l] x H; cbn in *; try contradiction. destruct H as [H|H]; [left; exact H|right; exact (IH _ _ H)]. Qed.

Lemma limitf_chars : forall d v ch, In ch (limitf d v) -> ch = 32 \/ In ch v.
Proof.
  intros d v ch H. unfold limitf in H. destruct (join_sp_chars _ _ H) as [E|[w [A B]]]; [left; exact E|]. right.
  apply firstn_In' in A. destruct (split_words_chars _ _ _ _ A B) as [[]|C]. exact C.
Qed.

Definition clean (bad s : str) : Prop := forall ch, In ch s -> ~ In ch bad.

(* one candidate: its text is the literals of the template alternative and the values of its variables; a value substituted for a
   variable other than $num carries no forbidden character -- unless it is word-limited and the blank itself is forbidden (the
   words are joined by blanks AFTER the substitution) *)
Lemma chosen_clean : forall c bad sub v taken n1 nt name n',
  legacy_words c = false -> cs c = Some (bad, sub) -> clean bad sub ->
  wf_name nt -> NoDup (map fst (keys_of nt)) -> lookup k_num v = None ->
  chosen c v taken n1 (pr_int nt) name n' ->
  exists r, spec_expand c n1 v nt = Some r /\ name = add_extension (ext c) r /\
            forall y w val, In (SVar y w) nt -> str_eqb y k_num = false -> var_value c n1 v y w = Some val ->
                            (w = None \/ ~ In 32 bad) -> clean bad val.
Proof.
  intros c bad sub v taken n1 nt name n' Hw Hcs Hsub WF ND Hn [r [nb [E [N _]]]].
  rewrite (expand_spec c Hw n1 v nt WF ND Hn) in E. destruct (spec_expand c n1 v nt) as [r0|] eqn:SE; [|discriminate].
  inversion E; subst r0. exists r. split; [reflexivity|]. split; [exact N|].
  intros y w val _ Hy HV Hc. unfold var_value in HV. rewrite Hy in HV. destruct (lookup y v) as [v0|]; [|discriminate].
  inversion HV; subst val; clear HV. rewrite Hcs. intros ch Hin.
  destruct w as [d|].
  - destruct (limitf_chars _ _ _ Hin) as [E32|Hv].
    + subst ch. destruct Hc as [Hc|Hc]; [discriminate|exact Hc].
    + exact (charsub_clean bad sub v0 ch Hsub Hv).
  - exact (charsub_clean bad sub v0 ch Hsub Hin).
Qed.

(* C13 names_clean: every file name issued by the assignment is the expansion of one alternative of the template, and its variable
   parts -- the values substituted for $id, $title, $ref, $name, $jobname; not the literal text of the template, not $num -- contain
   none of the configured forbidden characters (for a word-limited variable: provided the blank is not itself forbidden) *)
Theorem names_clean : forall c doc st files bad sub tfiles static wild,
  assign c doc = Some (AOk st files) ->
  legacy_reset (r_fc c) = false -> legacy_words (r_fc c) = false ->
  cs (r_fc c) = Some (bad, sub) -> clean bad sub ->
  parse_filenames (r_template c) = Some tfiles -> split_files tfiles [] = (static, wild) ->
  (forall item, In item (static ++ wild) -> exists nt, item = pr_int nt /\ wf_name nt /\ NoDup (map fst (keys_of nt))) ->
  forall x f, In (x, Some f) files ->
    exists nt v n1 r,
      In (pr_int nt) (static ++ wild) /\ spec_expand (r_fc c) n1 v nt = Some r /\ f = add_extension (ext (r_fc c)) r /\
      forall y w val, In (SVar y w) nt -> str_eqb y k_num = false -> var_value (r_fc c) n1 v y w = Some val ->
                      (w = None \/ ~ In 32 bad) -> clean bad val.
Proof.
  intros c doc st files bad sub tfiles static wild A Hr Hw Hcs Hsub P S G x f Hin.
  destruct (assign_spec c doc st files A) as [tf [out [P2 [R [_ [M _]]]]]]. rewrite P in P2. inversion P2; subst tf.
  assert (Hf : In f (names_of out)).
  { apply (in_map snd) in Hin. cbn [snd] in Hin. rewrite M in Hin. apply in_map_iff in Hin. destruct Hin as [f0 [E H0]]. inversion E; subst. exact H0. }
  assert (X : is_expansion (r_fc c) (static ++ wild) f).
  { apply (run_expansion (r_fc c) static wild (map bindings (askers (eff_level c) doc)) (gen_init c tfiles) out st Hr); [cbn; exact S|split; [reflexivity|exact Logic.I]| |exact R|exact Hf].
    apply Forall_forall. intros b Hb. apply in_map_iff in Hb. destruct Hb as [a [<- _]]. apply bindings_keep_num. }
  destruct X as [item [v [taken [n1 [n' [I [Hn C]]]]]]]. destruct (G item I) as [nt [-> [WF ND]]].
  destruct (chosen_clean _ _ _ _ _ _ _ _ _ Hw Hcs Hsub WF ND Hn C) as [r [SE [N CL]]].
  exists nt, v, n1, r. repeat split; assumption.
Qed.

(* the clause fails for a word-limited variable when the blank is forbidden but the value holds other white space: the words are
   split and joined by blanks after the forbidden characters were replaced.  title "A<nbsp>B C", template "$title(2)", bad-chars " ",
   substitute "-": the candidate is "A B-C" *)
Lemma names_clean_refuted :
  let c := mk_fcfg [32] [45] [46;104;116;109;108] 0 0 0 in
  let v := [(k_title, [65; 160; 66; 32; 67])] in
  let nt := [SVar k_title (Some [50])] in
  wf_name nt /\ spec_expand c 1 v nt = Some [65; 32; 66; 45; 67] /\ In 32 [65; 32; 66; 45; 67] /\ cs c = Some ([32], [45]).
Proof.
  cbv zeta. split; [|split; [vm_compute; reflexivity|split; [right; left; reflexivity|reflexivity]]].
  constructor; [|constructor]. cbn. split; [split; [repeat constructor|reflexivity]|split; [discriminate|repeat constructor]].
Qed.

(* determinism: file names, file set and file contents are functions of (configuration, document, footnote list) *)
Theorem render_deterministic : forall c1 c2 d1 d2 fn1 fn2 tmpl layout shows,
  c1 = c2 -> d1 = d2 -> fn1 = fn2 ->
  assign c1 d1 = assign c2 d2 /\
  forall st1 st2 files1 files2, assign c1 d1 = Some (AOk st1 files1) -> assign c2 d2 = Some (AOk st2 files2) ->
    files1 = files2 /\
    render (the_fmap files1) tmpl layout shows d1 fn1 = render (the_fmap files2) tmpl layout shows d2 fn2.
Proof.
  intros c1 c2 d1 d2 fn1 fn2 tmpl layout shows -> -> ->. split; [reflexivity|]. intros st1 st2 files1 files2 H1 H2.
  rewrite H1 in H2. inversion H2; subst. split; reflexivity.
Qed.

(* ================================================================================================================== *)
(* Part 5: tables of contents (C14)                                                                                     *)

Section Toc.
  Context (fmap : Z -> option str).
  Notation hasf := (has_file fmap).

  Definition toc_ser (t : toc) : Z := match t with TocEntry s _ => s end.
  Fixpoint toc_all (t : toc) : list Z := match t with TocEntry s sub => s :: flat_map toc_all sub end.

  (* the table of contents a page prints for itself: SectionUtils.tableofcontents of the node with identity x *)
  Definition toc_of (doc : node) (nonfiles : bool) (depth : Z) (x : Z) : list toc :=
    match locate x [] doc with Some (_, _, cs) => tableofcontents fmap nonfiles depth cs | None => [] end.

  (* with toc-depth >= 1 the table of contents of a node lists, at its top level, every direct subsection that has a file *)
  Lemma toc_lists_children : forall nonfiles depth cs c b bcs,
    1 <= depth -> In c cs -> c = E b bcs -> is_sub c = true -> hasf b = true ->
    In (a_ser b) (map toc_ser (tableofcontents fmap nonfiles depth cs)).
  Proof.
    intros nonfiles depth cs c b bcs Hd Hc -> Hs Hf. unfold tableofcontents.
    assert (D : depth <? 1 = false) by (apply Z.ltb_ge; exact Hd). rewrite D.
    assert (X : existsb (fun c => match c with E b _ => is_sub c && hasf b | T _ => false end) cs = true).
    { apply existsb_exists. exists (E b bcs). split; [exact Hc|]. rewrite Hs, Hf. reflexivity. }
    rewrite X. cbn [negb]. apply in_map_iff.
    exists (TocEntry (a_ser b)
              (if 1 <? depth
               then flat_map (fun c => match c with
                                       | E b0 _ => if is_sub c && (nonfiles || hasf b0) then toc_entry fmap nonfiles depth (1 + 1) c else []
                                       | T _ => []
                                       end) bcs
               else [])).
    split; [reflexivity|]. apply in_flat_map. exists (E b bcs). split; [exact Hc|]. rewrite Hs, Hf, orb_true_r. cbn [andb toc_entry]. left. reflexivity.
  Qed.

  (* reachable through tables of contents alone: x's own table lists y at its top level *)
  Inductive toc_reach (doc : node) (nonfiles : bool) (depth : Z) : Z -> Z -> Prop :=
  | tr_refl : forall x, toc_reach doc nonfiles depth x x
  | tr_step : forall x y z, In y (map toc_ser (toc_of doc nonfiles depth x)) -> toc_reach doc nonfiles depth y z ->
                            toc_reach doc nonfiles depth x z.

  Definition secfiles (n : node) : list attrs := filter hasf (all_sections n).
  Definition root_attrs (n : node) : option attrs := match n with E a _ => Some a | T _ => None end.

  (* a subsection that contains a file-producing section has a file itself (plasTeX: a section only contains deeper levels, and
     a node asks for a file iff its level <= split level) *)
  Fixpoint closed (n : node) : Prop :=
    match n with
    | T _ => True
    | E a cs => (fix go (cs : list node) : Prop :=
                   match cs with
                   | [] => True
                   | c :: r => (is_sub c = true -> secfiles c <> [] -> match c with E b _ => hasf b = true | T _ => True end) /\ closed c /\ go r
                   end) cs
    end.

  Lemma closed_kid : forall a cs c, closed (E a cs) -> In c cs ->
    (is_sub c = true -> secfiles c <> [] -> match c with E b _ => hasf b = true | T _ => True end) /\ closed c.
  Proof.
    intros a cs c H Hc. cbn [closed] in H. induction cs as [|c0 cs IH]; [destruct Hc|]. destruct H as [H1 [H2 H3]].
    destruct Hc as [->|Hc]; [split; assumption|exact (IH H3 Hc)].
  Qed.

  (* M3 for tables of contents: with toc-depth >= 1, following top-level toc entries of the pages' own tables of contents from a
     unit reaches every file-producing section below it (link kind used: the entries of obj.tableofcontents printed on obj's page) *)
  Theorem toc_reaches_all : forall doc nonfiles depth,
    NoDup (sers doc) -> 1 <= depth ->
    forall n ch a cs, n = E a cs -> In (ch, a, cs) (elems_ctx [] doc) -> closed n ->
      forall b, In b (secfiles n) -> toc_reach doc nonfiles depth (a_ser a) (a_ser b).
  Proof.
    intros doc nonfiles depth ND Hd. induction n as [w|a0 cs0 IH] using node_ind2; intros ch a cs E0 Hin CL b Hb; [discriminate|].
    inversion E0; subst a0 cs0; clear E0. unfold secfiles in Hb. apply filter_In in Hb. destruct Hb as [Hb Hf]. cbn [all_sections] in Hb.
    destruct Hb as [<-|Hb]; [apply tr_refl|]. apply in_flat_map in Hb. destruct Hb as [c [Hc Hb]].
    destruct (is_sub c) eqn:Hs; [|destruct Hb]. destruct c as [w|a' cs']; [discriminate|].
    destruct (closed_kid _ _ _ CL Hc) as [K1 K2].
    assert (NE : secfiles (E a' cs') <> []).
    { intro Z0. assert (In b (secfiles (E a' cs'))) by (apply filter_In; split; assumption). rewrite Z0 in H. destruct H. }
    specialize (K1 Hs NE). cbn in K1.
    apply tr_step with (y := a_ser a').
    - unfold toc_of. rewrite (locate_elems _ _ _ _ _ ND Hin). exact (toc_lists_children nonfiles depth cs (E a' cs') a' cs' Hd Hc eq_refl Hs K1).
    - rewrite Forall_forall in IH. apply (IH _ Hc (a :: ch) a' cs' eq_refl); [|exact K2|apply filter_In; split; assumption].
      apply (elems_trans doc [] ch a cs (E a' cs') _ Hin Hc). cbn [elems_ctx]. left. reflexivity.
  Qed.

  (* every entry of a table of contents, at any nesting level, is a section-level node below the node -- and has a file unless toc-non-files is on *)
  Lemma toc_entry_sound : forall nonfiles limit n level s,
    In s (flat_map toc_all (toc_entry fmap nonfiles limit level n)) ->
    match n with
    | T _ => False
    | E a cs => s = a_ser a \/ exists b, In b (flat_map elements cs) /\ a_ser b = s /\ a_level b < ENDSECTIONS_LEVEL /\ (nonfiles = false -> hasf b = true)
    end.
  Proof.
    intros nonfiles limit. induction n as [w|a cs IH] using node_ind2; intros level s H; [destruct H|].
    cbn [toc_entry flat_map toc_all] in H. rewrite app_nil_r in H. destruct H as [H|H]; [left; symmetry; exact H|]. right.
    destruct (level <? limit); [|destruct H]. rewrite flat_map_flat_map in H. apply in_flat_map in H. destruct H as [c [Hc H]].
    destruct c as [w|b bcs]; [destruct H|]. destruct (is_sub (E b bcs) && (nonfiles || hasf b)) eqn:F; [|destruct H].
    apply andb_prop in F. destruct F as [F1 F2]. rewrite Forall_forall in IH. specialize (IH _ Hc _ _ H). cbn in IH.
    destruct IH as [->|[b' [B1 [B2 [B3 B4]]]]].
    - exists b. split; [apply in_flat_map; exists (E b bcs); split; [exact Hc|cbn; left; reflexivity]|]. split; [reflexivity|].
      split; [cbn in F1; apply Z.ltb_lt; exact F1|]. intros ->. cbn in F2. exact F2.
    - exists b'. split; [apply in_flat_map; exists (E b bcs); split; [exact Hc|cbn; right; exact B1]|]. repeat split; assumption.
  Qed.

  Lemma toc_sound : forall nonfiles depth cs s,
    In s (flat_map toc_all (tableofcontents fmap nonfiles depth cs)) ->
    exists b, In b (flat_map elements cs) /\ a_ser b = s /\ a_level b < ENDSECTIONS_LEVEL /\ (nonfiles = false -> hasf b = true).
  Proof.
    intros nonfiles depth cs s H. unfold tableofcontents in H. destruct (depth <? 1); [destruct H|].
    destruct (negb _); [destruct H|]. rewrite flat_map_flat_map in H. apply in_flat_map in H. destruct H as [c [Hc H]].
    destruct c as [w|b bcs]; [destruct H|]. destruct (is_sub (E b bcs) && (nonfiles || hasf b)) eqn:F; [|destruct H].
    apply andb_prop in F. destruct F as [F1 F2]. pose proof (toc_entry_sound _ _ _ _ _ H) as S. cbn in S.
    destruct S as [->|[b' [B1 [B2 [B3 B4]]]]].
    - exists b. split; [apply in_flat_map; exists (E b bcs); split; [exact Hc|cbn; left; reflexivity]|]. split; [reflexivity|].
      split; [cbn in F1; apply Z.ltb_lt; exact F1|]. intros ->. cbn in F2. exact F2.
    - exists b'. split; [apply in_flat_map; exists (E b bcs); split; [exact Hc|cbn; right; exact B1]|]. repeat split; assumption.
  Qed.

  (* toc targets exist: every entry of the table of contents of every node is a node of the document; with toc-non-files off it has a
     file of its own and its url is base + that file name *)
  Theorem toc_targets_exist : forall doc base nonfiles depth ch a cs s,
    NoDup (sers doc) -> In (ch, a, cs) (elems_ctx [] doc) ->
    In s (flat_map toc_all (tableofcontents fmap nonfiles depth cs)) ->
    exists ch' b bcs, In (ch', b, bcs) (elems_ctx [] doc) /\ a_ser b = s /\ a_level b < ENDSECTIONS_LEVEL /\
      (nonfiles = false -> hasf b = true /\ url fmap doc base s = Some (url_prefix base ++ fname fmap b)).
  Proof.
    intros doc base nonfiles depth ch a cs s ND Hin H. destruct (toc_sound _ _ _ _ H) as [b [B1 [B2 [B3 B4]]]].
    apply in_flat_map in B1. destruct B1 as [c [Hc B1]]. rewrite <- (elems_ctx_elements c (a :: ch)) in B1.
    apply in_map_iff in B1. destruct B1 as [[[ch' b0] bcs] [E0 B1]]. cbn in E0. subst b0.
    pose proof (elems_trans doc [] ch a cs c _ Hin Hc B1) as O. exists ch', b, bcs. split; [exact O|]. split; [exact B2|]. split; [exact B3|].
    intros NF. specialize (B4 NF). split; [exact B4|]. rewrite <- B2. rewrite (url_spec fmap doc base ch' b bcs ND O), B4. reflexivity.
  Qed.
End Toc.

Lemma ex_toc :
  let fm := the_fmap ex_files in
  toc_of fm ex_doc false 3 1 = [TocEntry 2 []; TocEntry 4 []] /\
  closed fm (E ex_docenv [T 1; E ex_sec1 [T 2; E ex_fn [T 3]; T 4]; E ex_sec2 [T 5]]) /\
  map a_ser (secfiles fm (E ex_docenv [T 1; E ex_sec1 [T 2; E ex_fn [T 3]; T 4]; E ex_sec2 [T 5]])) = [1; 2; 4].
Proof.
  cbv zeta. split; [vm_compute; reflexivity|]. split; [|vm_compute; reflexivity].
  cbn. repeat split; intros; try discriminate; try reflexivity.
Qed.
