(* Proofs about Model/Filenames.v (property C15). *)
From Coq Require Import List ZArith NArith Bool Lia ZifyBool.
Import ListNotations.
From Verif Require Import Val Filenames.
Local Open Scope Z_scope.

(* ------------------------------------------------------------------------------------------------ *)
(* strings, membership *)

Lemma str_eqb_eq : forall a b, str_eqb a b = true <-> a = b.
Proof.
  induction a as [|x a IH]; destruct b as [|y b]; cbn; split; intro H; try reflexivity; try discriminate.
  - apply andb_true_iff in H. destruct H as [H1 H2]. apply Z.eqb_eq in H1. apply IH in H2. subst. reflexivity.
  - inversion H; subst. apply andb_true_iff. split. apply Z.eqb_refl. apply IH. reflexivity.
Qed.

Lemma str_eqb_refl : forall a, str_eqb a a = true.
Proof. intro a. apply str_eqb_eq. reflexivity. Qed.

Lemma mem_In : forall s l, mem s l = true <-> In s l.
Proof.
  intros s l. unfold mem. rewrite existsb_exists. split.
  - intros [x [Hin Heq]]. apply str_eqb_eq in Heq. subst. exact Hin.
  - intro Hin. exists s. split. exact Hin. apply str_eqb_refl.
Qed.

Lemma mem_false_not_In : forall s l, mem s l = false <-> ~ In s l.
Proof.
  intros s l. split.
  - intros H Hin. apply mem_In in Hin. congruence.
  - intro H. destruct (mem s l) eqn:E; [apply mem_In in E; contradiction | reflexivity].
Qed.

(* ------------------------------------------------------------------------------------------------ *)
(* M1 / M6 : uniqueness and termination.  Nothing here looks inside [expand]. *)

Definition alive (p : phase) : Prop := p <> PDead.

(* what one request may do to the issued-name set *)
Definition step_ok (s : st) (r : res) (s' : st) : Prop :=
  match r with
  | RName name => ~ In name (inval s) /\ inval s' = inval s ++ [name] /\ alive (ph s) /\ alive (ph s')
  | RNone => ph s = PDead /\ ph s' = PDead /\ inval s' = inval s
  | RRaise _ => alive (ph s) /\ ph s' = PDead /\ inval s' = inval s
  | RFuel => False
  end.

Lemma try_item_yield : forall c w g num vars inval item name num' vars' inval',
  try_item c w g num vars inval item = TYield name num' vars' inval' ->
  ~ In name inval /\ inval' = inval ++ [name] /\ vars' = g.
Proof.
  intros c w g num vars inval item name num' vars' inval' H. unfold try_item in H.
  destruct (expand c vars num item) as [r nb| |k]; try discriminate.
  destruct (mem (add_extension (ext c) r) inval) eqn:E; try discriminate.
  inversion H; subst. apply mem_false_not_In in E. auto.
Qed.

Lemma wild_for_yield : forall c g alts num vars inval name num' vars' inval',
  wild_for c g num vars inval alts = FYield name num' vars' inval' ->
  ~ In name inval /\ inval' = inval ++ [name] /\ vars' = g.
Proof.
  intros c g alts. induction alts as [|item alts IH]; intros num vars inval name num' vars' inval' H; cbn in H.
  - discriminate.
  - destruct (try_item c true g num vars inval item) as [n1 m1 v1 i1|m1 v1|v1|k] eqn:E.
    + inversion H; subst. eapply try_item_yield. exact E.
    + eapply IH. exact H.
    + eapply IH. exact H.
    + discriminate.
Qed.

(* the wildcard loop: fuel f suffices as soon as f + passes >= 101 *)
Lemma wild_loop_ok : forall fuel c wild g num vars inval passes,
  fuel <> O -> (101 <= N.of_nat fuel + passes)%N ->
  forall r s', wild_loop fuel c wild g num vars inval passes = (r, s') ->
  match r with
  | RName name => ~ In name inval /\ Filenames.inval s' = inval ++ [name] /\ alive (ph s') /\ Filenames.vars s' = g
  | RRaise _ => ph s' = PDead /\ Filenames.inval s' = inval
  | _ => False
  end.
Proof.
  induction fuel as [|f IH]; intros c wild g num vars inval passes Hf Hp r s' H.
  - congruence.
  - cbn [wild_loop] in H.
    destruct (wild_for c g num vars inval wild) as [name num' vars' inval'|num' vars'|k vars'] eqn:E.
    + inversion H; subst. cbn. apply wild_for_yield in E. destruct E as [E1 [E2 E3]].
      repeat split; auto. unfold alive. discriminate.
    + destruct (100 <? passes + 1)%N eqn:Hb.
      * inversion H; subst. cbn. auto.
      * apply N.ltb_ge in Hb. eapply IH in H; [exact H| |]; lia.
    + inversion H; subst. cbn. auto.
Qed.

Lemma wild_loop_fuel_irrelevant : forall fuel c wild g num vars inval passes,
  fuel <> O -> (101 <= N.of_nat fuel + passes)%N ->
  forall fuel', fuel' <> O -> (101 <= N.of_nat fuel' + passes)%N ->
  wild_loop fuel' c wild g num vars inval passes = wild_loop fuel c wild g num vars inval passes.
Proof.
  induction fuel as [|f IH]; intros c wild g num vars inval passes Hf Hp fuel' Hf' Hp'.
  - congruence.
  - destruct fuel' as [|f']; [congruence|]. cbn [wild_loop].
    destruct (wild_for c g num vars inval wild) as [name num' vars' inval'|num' vars'|k vars']; try reflexivity.
    destruct (100 <? passes + 1)%N eqn:Hb; try reflexivity.
    apply N.ltb_ge in Hb. apply IH; lia.
Qed.

Lemma static_loop_ok : forall c wild g rest num vars inval r s',
  static_loop c wild g num vars inval rest = (r, s') ->
  match r with
  | RName name => ~ In name inval /\ Filenames.inval s' = inval ++ [name] /\ alive (ph s') /\ Filenames.vars s' = g
  | RRaise _ => ph s' = PDead /\ Filenames.inval s' = inval
  | _ => False
  end.
Proof.
  intros c wild g rest. induction rest as [|item rest IH]; intros num vars inval r s' H; cbn [static_loop] in H.
  - eapply wild_loop_ok in H; [exact H| |]; unfold pass_fuel; [discriminate|lia].
  - destruct (try_item c false g num vars inval item) as [n1 m1 v1 i1|m1 v1|v1|k] eqn:E.
    + inversion H; subst. cbn. apply try_item_yield in E. destruct E as [E1 [E2 E3]]. repeat split; auto. unfold alive. discriminate.
    + eapply IH. exact H.
    + eapply IH. exact H.
    + inversion H; subst. cbn. auto.
Qed.

(* M6 *)
Theorem request_terminates_or_errors : forall c s b r s',
  request c s b = (r, s') -> step_ok s r s'.
Proof.
  intros c s b r s' H. unfold request in H.
  destruct (ph s) as [files|rest wild g num|wild g num passes|] eqn:Hph.
  - destruct (split_files files []) as [static wild]. apply static_loop_ok in H.
    destruct r; cbn; try exact H; try contradiction.
    + destruct H as [H1 [H2 [H3 _]]]. repeat split; auto. unfold alive. rewrite Hph. discriminate.
    + destruct H as [H1 H2]. repeat split; auto. unfold alive. rewrite Hph. discriminate.
  - apply static_loop_ok in H.
    destruct r; cbn; try exact H; try contradiction.
    + destruct H as [H1 [H2 [H3 _]]]. repeat split; auto. unfold alive. rewrite Hph. discriminate.
    + destruct H as [H1 H2]. repeat split; auto. unfold alive. rewrite Hph. discriminate.
  - eapply wild_loop_ok in H; [| unfold pass_fuel; discriminate | unfold pass_fuel; lia].
    destruct r; cbn; try exact H; try contradiction.
    + destruct H as [H1 [H2 [H3 _]]]. repeat split; auto. unfold alive. rewrite Hph. discriminate.
    + destruct H as [H1 H2]. repeat split; auto. unfold alive. rewrite Hph. discriminate.
  - inversion H; subst. cbn. auto.
Qed.

(* the pass bound: 101 iterations of the while loop always suffice; more fuel changes nothing *)
Theorem pass_bound : forall c wild g num vars inval passes fuel,
  (pass_fuel <= fuel)%nat ->
  wild_loop fuel c wild g num vars inval passes = wild_loop pass_fuel c wild g num vars inval passes.
Proof.
  intros. apply wild_loop_fuel_irrelevant; unfold pass_fuel in *; try lia.
Qed.

(* M1 *)
Fixpoint names_of (out : list (res * ns)) : list str :=
  match out with
  | [] => []
  | (RName n, _) :: r => n :: names_of r
  | _ :: r => names_of r
  end.

Theorem never_twice : forall c reqs s out s',
  run c s reqs = (out, s') ->
  NoDup (names_of out) /\ (forall n, In n (names_of out) -> ~ In n (inval s)) /\ inval s' = inval s ++ names_of out.
Proof.
  intros c reqs. induction reqs as [|b reqs IH]; intros s out s' H; cbn [run] in H.
  - inversion H; subst. cbn. rewrite app_nil_r. repeat split; [constructor | intros n []].
  - destruct (request c s b) as [r s1] eqn:E1. destruct (run c s1 reqs) as [out1 s2] eqn:E2.
    inversion H; subst. clear H. apply request_terminates_or_errors in E1.
    specialize (IH _ _ _ E2). destruct IH as [IH1 [IH2 IH3]].
    destruct r as [name| |k|]; cbn in E1; cbn [names_of].
    + destruct E1 as [F1 [F2 _]]. rewrite F2 in *. repeat split.
      * constructor; [|exact IH1]. intro Hin. apply (IH2 _ Hin). apply in_or_app. right. left. reflexivity.
      * intros n [Hn|Hn]; [subst; exact F1|]. intro Hi. apply (IH2 _ Hn). apply in_or_app. left. exact Hi.
      * rewrite IH3. rewrite <- app_assoc. reflexivity.
    + destruct E1 as [_ [_ F]]. rewrite F in *. auto.
    + destruct E1 as [_ [_ F]]. rewrite F in *. auto.
    + contradiction.
Qed.

(* once finished, always finished: every later request returns None *)
Lemma dead_stays_dead : forall c s b, ph s = PDead -> fst (request c s b) = RNone /\ ph (snd (request c s b)) = PDead.
Proof. intros c s b H. unfold request. rewrite H. cbn. auto. Qed.

(* ------------------------------------------------------------------------------------------------ *)
(* M2 / M3 / M4 : order of candidates and the running number, for the repaired code (legacy_reset = false)
   and callers that do not bind the reserved name "num".  [expand] is still a black box here:
   EKeyError = some variable of the candidate is unbound; EOk r nb = all bound, nb = the candidate is numbered. *)

Section Order.
  Context (c : cfg) (Hreset : legacy_reset c = false).

  (* Spec: the candidates in [items] are all passed over, starting with number n and ending with number n':
     an unbound candidate leaves the number alone; a bound candidate whose name is already taken is skipped and,
     if it is numbered, advances the number by one. *)
  Inductive passed_over (v : ns) (taken : list str) : N -> list str -> N -> Prop :=
  | po_nil : forall n, passed_over v taken n [] n
  | po_unbound : forall n item rest n',
      expand c v n item = EKeyError -> passed_over v taken n rest n' -> passed_over v taken n (item :: rest) n'
  | po_taken : forall n item rest n' r nb,
      expand c v n item = EOk r nb -> In (add_extension (ext c) r) taken ->
      passed_over v taken (if nb then n + 1 else n)%N rest n' -> passed_over v taken n (item :: rest) n'.

  Lemma passed_over_app : forall v taken l1 l2 n1 n2 n3,
    passed_over v taken n1 l1 n2 -> passed_over v taken n2 l2 n3 -> passed_over v taken n1 (l1 ++ l2) n3.
  Proof.
    intros v taken l1 l2 n1 n2 n3 H1 H2. induction H1; cbn; [exact H2 | eapply po_unbound | eapply po_taken]; eauto.
  Qed.

  Lemma passed_over_det : forall v taken l n n1, passed_over v taken n l n1 -> forall n2, passed_over v taken n l n2 -> n1 = n2.
  Proof.
    intros v taken l n n1 H. induction H as [n|n item rest n' E P IH|n item rest n' r nb E I P IH]; intros n2 H2.
    - inversion H2; reflexivity.
    - inversion H2 as [|? ? ? ? E2 P2|? ? ? ? r2 nb2 E2 I2 P2]; subst.
      + apply IH; exact P2.
      + congruence.
    - inversion H2 as [|? ? ? ? E2 P2|? ? ? ? r2 nb2 E2 I2 P2]; subst.
      + congruence.
      + rewrite E in E2. inversion E2; subst. apply IH. exact P2.
  Qed.

  (* the number only grows while candidates are passed over, by at most one per candidate *)
  Lemma passed_over_mono : forall v taken l n n', passed_over v taken n l n' -> (n <= n' <= n + N.of_nat (length l))%N.
  Proof.
    intros v taken l n n' H. induction H; cbn [length]; try lia. destruct nb; lia.
  Qed.

  Lemma remove_absent : forall k n, lookup k n = None -> remove k n = n.
  Proof.
    intros k n. induction n as [|[k' v'] n IH]; cbn; intro H; [reflexivity|].
    destruct (str_eqb k k'); [discriminate|]. rewrite IH; auto.
  Qed.

  (* the chosen candidate: [item] is tried with number n1, all its variables are bound, its name is fresh *)
  Definition chosen (v : ns) (taken : list str) (n1 : N) (item : str) (name : str) (n' : N) : Prop :=
    exists r nb, expand c v n1 item = EOk r nb /\ name = add_extension (ext c) r /\ ~ In name taken /\
                 n' = (if nb then n1 + 1 else n1)%N.

  Lemma try_item_cases : forall w g num v taken item, lookup k_num v = None ->
    match try_item c w g num v taken item with
    | TYield name num' v' taken' => chosen v taken num item name num' /\ v' = g /\ taken' = taken ++ [name]
    | TSkip num' v' => passed_over v taken num [item] num' /\ v' = v
    | TKey v' => passed_over v taken num [item] num /\ v' = v
    | TCrash k => expand c v num item = ECrash k
    end.
  Proof.
    intros w g num v taken item Hn. unfold try_item.
    destruct (expand c v num item) as [r nb| |k] eqn:E.
    - destruct (mem (add_extension (ext c) r) taken) eqn:M.
      + rewrite Hreset. split; [|reflexivity]. apply mem_In in M. eapply po_taken; eauto. constructor.
      + apply mem_false_not_In in M. split; [|auto]. exists r, nb. auto.
    - split. eapply po_unbound; eauto. constructor. destruct w; [apply remove_absent; exact Hn | reflexivity].
    - reflexivity.
  Qed.

  (* one pass over the alternatives *)
  Lemma wild_for_sound : forall g taken alts num v, lookup k_num v = None ->
    match wild_for c g num v taken alts with
    | FYield name num' v' taken' =>
        exists pre item post n1, alts = pre ++ item :: post /\ passed_over v taken num pre n1 /\
                                 chosen v taken n1 item name num' /\ v' = g /\ taken' = taken ++ [name]
    | FExhausted num' v' => passed_over v taken num alts num' /\ v' = v
    | FCrash k v' => exists pre item post n1, alts = pre ++ item :: post /\ passed_over v taken num pre n1 /\
                                              expand c v n1 item = ECrash k
    end.
  Proof.
    intros g taken alts. induction alts as [|item alts IH]; intros num v Hn; cbn [wild_for].
    - split; [constructor | reflexivity].
    - pose proof (try_item_cases true g num v taken item Hn) as T.
      destruct (try_item c true g num v taken item) as [name num' v' taken'|num' v'|v'|k].
      + destruct T as [T1 [T2 T3]]. exists [], item, alts, num. repeat split; auto. constructor.
      + destruct T as [T1 T2]. subst v'. specialize (IH num' v Hn).
        destruct (wild_for c g num' v taken alts) as [name n2 v2 t2|n2 v2|k v2].
        * destruct IH as [pre [it [post [n1 [A [B C]]]]]]. exists (item :: pre), it, post, n1. subst alts. split; [reflexivity|].
          split; [|exact C]. apply (passed_over_app v taken [item] pre num num' n1 T1 B).
        * destruct IH as [A B]. split; [|exact B]. apply (passed_over_app v taken [item] alts num num' n2 T1 A).
        * destruct IH as [pre [it [post [n1 [A [B C]]]]]]. exists (item :: pre), it, post, n1. subst alts. split; [reflexivity|].
          split; [|exact C]. apply (passed_over_app v taken [item] pre num num' n1 T1 B).
      + destruct T as [T1 T2]. subst v'. specialize (IH num v Hn).
        destruct (wild_for c g num v taken alts) as [name n2 v2 t2|n2 v2|k v2].
        * destruct IH as [pre [it [post [n1 [A [B C]]]]]]. exists (item :: pre), it, post, n1. subst alts. split; [reflexivity|].
          split; [|exact C]. apply (passed_over_app v taken [item] pre num num n1 T1 B).
        * destruct IH as [A B]. split; [|exact B]. apply (passed_over_app v taken [item] alts num num n2 T1 A).
        * destruct IH as [pre [it [post [n1 [A [B C]]]]]]. exists (item :: pre), it, post, n1. subst alts. split; [reflexivity|].
          split; [|exact C]. apply (passed_over_app v taken [item] pre num num n1 T1 B).
      + exists [], item, alts, num. repeat split; auto. constructor.
  Qed.

  (* k full passes over the alternatives *)
  Fixpoint cycles (k : nat) (alts : list str) : list str :=
    match k with O => [] | S k' => alts ++ cycles k' alts end.

  Lemma cycles_snoc : forall k alts, cycles (S k) alts = cycles k alts ++ alts.
  Proof.
    induction k as [|k IH]; intro alts; cbn [cycles].
    - rewrite app_nil_r. reflexivity.
    - rewrite <- app_assoc. rewrite <- IH. reflexivity.
  Qed.

  (* the wildcard stage of one request.  k = number of complete fruitless passes before the deciding one. *)
  Lemma wild_loop_sound : forall fuel wild g num v taken passes, lookup k_num v = None ->
    fuel <> O -> (101 <= N.of_nat fuel + passes)%N ->
    forall r s', wild_loop fuel c wild g num v taken passes = (r, s') ->
    match r with
    | RName name =>
        exists k pre item post n1 n',
          wild = pre ++ item :: post /\ passed_over v taken num (cycles k wild ++ pre) n1 /\ chosen v taken n1 item name n' /\
          s' = {| ph := PWild wild g n' (if legacy_passes c then passes + N.of_nat k + 1 else 0)%N; vars := g; inval := taken ++ [name] |} /\
          (k = O \/ passes + N.of_nat k <= 100)%N
    | RRaise e =>
        (exists k n', e = K_Bail /\ passed_over v taken num (cycles (S k) wild) n' /\ (100 < passes + N.of_nat k + 1)%N /\
                      (k = O \/ passes + N.of_nat k <= 100)%N) \/
        (exists k pre item post n1, wild = pre ++ item :: post /\ passed_over v taken num (cycles k wild ++ pre) n1 /\
                                    expand c v n1 item = ECrash e)
    | _ => False
    end.
  Proof.
    induction fuel as [|f IH]; intros wild g num v taken passes Hn Hf Hp r s' H; [congruence|].
    cbn [wild_loop] in H. pose proof (wild_for_sound g taken wild num v Hn) as W.
    destruct (wild_for c g num v taken wild) as [name num' v' taken'|num' v'|e v'].
    - inversion H; subst. destruct W as [pre [item [post [n1 [A [B [C [D E]]]]]]]]. subst.
      exists O, pre, item, post, n1, num'. cbn [cycles app]. repeat split; auto. f_equal. f_equal. destruct (legacy_passes c); [lia|reflexivity].
    - destruct W as [W1 W2]. subst v'. destruct (100 <? passes + 1)%N eqn:Hb.
      + inversion H; subst. left. exists O, num'. cbn [cycles]. rewrite app_nil_r. apply N.ltb_lt in Hb. repeat split; auto. lia.
      + apply N.ltb_ge in Hb. eapply IH in H; [| exact Hn | lia | lia].
        destruct r as [name| |e|]; try contradiction.
        * destruct H as [k [pre [item [post [n1 [n' [A [B [C [D E]]]]]]]]]].
          exists (S k), pre, item, post, n1, n'. split; [exact A|]. split.
          { cbn [cycles]. rewrite <- app_assoc. eapply passed_over_app; eauto. }
          split; [exact C|]. split; [rewrite D; f_equal; f_equal; destruct (legacy_passes c); [lia|reflexivity] | right; lia].
        * destruct H as [[k [n' [A [B [C D]]]]] | [k [pre [item [post [n1 [A [B C]]]]]]]].
          { left. exists (S k), n'. split; [exact A|]. split.
            - change (cycles (S (S k)) wild) with (wild ++ cycles (S k) wild). eapply passed_over_app; eauto.
            - split; lia. }
          { right. exists (S k), pre, item, post, n1. split; [exact A|]. split; [|exact C].
            cbn [cycles]. rewrite <- app_assoc. eapply passed_over_app; eauto. }
    - inversion H; subst. destruct W as [pre [item [post [n1 [A [B C]]]]]]. right.
      exists O, pre, item, post, n1. cbn [cycles app]. auto.
  Qed.

  (* the static stage of one request: either a static name is issued -- then everything before it in the remaining
     static list was passed over and the generator stays in the static stage with the rest of the list -- or the whole
     remaining list is passed over and the wildcard stage decides *)
  Lemma static_loop_sound : forall wild g taken rest num v, lookup k_num v = None ->
    forall r s', static_loop c wild g num v taken rest = (r, s') ->
    (exists pre item rest' n1 n' name, r = RName name /\ rest = pre ++ item :: rest' /\ passed_over v taken num pre n1 /\
        chosen v taken n1 item name n' /\
        s' = {| ph := PStatic rest' wild g n'; vars := g; inval := taken ++ [name] |}) \/
    (exists n1, passed_over v taken num rest n1 /\ wild_loop pass_fuel c wild g n1 v taken 0 = (r, s')) \/
    (exists pre item rest' n1 e, r = RRaise e /\ rest = pre ++ item :: rest' /\ passed_over v taken num pre n1 /\
        expand c v n1 item = ECrash e).
  Proof.
    intros wild g taken rest. induction rest as [|item rest IH]; intros num v Hn r s' H; cbn [static_loop] in H.
    - right. left. exists num. split; [constructor | exact H].
    - pose proof (try_item_cases false g num v taken item Hn) as T.
      destruct (try_item c false g num v taken item) as [name num' v' taken'|num' v'|v'|k].
      + destruct T as [T1 [T2 T3]]. subst. inversion H; subst. left.
        exists [], item, rest, num, num', name. repeat split; auto. constructor.
      + destruct T as [T1 T2]. subst v'. specialize (IH num' v Hn r s' H).
        destruct IH as [[pre [it [rest' [n1 [n' [name [A [B [C [D E]]]]]]]]]] | [[n1 [A B]] | [pre [it [rest' [n1 [e [A [B [C D]]]]]]]]]].
        * left. exists (item :: pre), it, rest', n1, n', name. subst rest. repeat split; auto.
          apply (passed_over_app v taken [item] pre num num' n1 T1 C).
        * right. left. exists n1. split; [|exact B]. apply (passed_over_app v taken [item] rest num num' n1 T1 A).
        * right. right. exists (item :: pre), it, rest', n1, e. subst rest. repeat split; auto.
          apply (passed_over_app v taken [item] pre num num' n1 T1 C).
      + destruct T as [T1 T2]. subst v'. specialize (IH num v Hn r s' H).
        destruct IH as [[pre [it [rest' [n1 [n' [name [A [B [C [D E]]]]]]]]]] | [[n1 [A B]] | [pre [it [rest' [n1 [e [A [B [C D]]]]]]]]]].
        * left. exists (item :: pre), it, rest', n1, n', name. subst rest. repeat split; auto.
          apply (passed_over_app v taken [item] pre num num n1 T1 C).
        * right. left. exists n1. split; [|exact B]. apply (passed_over_app v taken [item] rest num num n1 T1 A).
        * right. right. exists (item :: pre), it, rest', n1, e. subst rest. repeat split; auto.
          apply (passed_over_app v taken [item] pre num num n1 T1 C).
      + inversion H; subst. right. right. exists [], item, rest, num, k. repeat split; auto. constructor.
  Qed.

  (* completeness: a bound, fresh candidate reached after passing over the ones before it IS issued (never an error) *)
  Lemma wild_for_complete : forall g taken pre item post num v n1 name n', lookup k_num v = None ->
    passed_over v taken num pre n1 -> chosen v taken n1 item name n' ->
    wild_for c g num v taken (pre ++ item :: post) = FYield name n' g (taken ++ [name]).
  Proof.
    intros g taken pre item post num v n1 name n' Hn P. revert item post name n'.
    induction P as [n|n it rest n2 E P IH|n it rest n2 r nb E I P IH]; intros item post name n' C; cbn [app wild_for].
    - destruct C as [r [nb [E [F [G K]]]]]. unfold try_item. rewrite E. rewrite <- F.
      apply mem_false_not_In in G. rewrite G. subst n'. reflexivity.
    - unfold try_item. rewrite E. rewrite (remove_absent _ _ Hn). apply IH. exact C.
    - unfold try_item. rewrite E. apply mem_In in I. rewrite I. rewrite Hreset. apply IH. exact C.
  Qed.
End Order.

(* ------------------------------------------------------------------------------------------------ *)
(* History level: the stages are visited in order static -> wildcard -> finished, the static list is consumed from
   the front one template per issued name, g / wildcard never change.  (No assumption on legacy switches or on "num".) *)

Definition stage (p : phase) : nat :=
  match p with PFresh _ => 0 | PStatic _ _ _ _ => 0 | PWild _ _ _ _ => 1 | PDead => 2 end%nat.

Lemma wild_loop_phase : forall fuel c wild g num v taken passes r s',
  wild_loop fuel c wild g num v taken passes = (r, s') ->
  (exists n' p', ph s' = PWild wild g n' p' /\ exists name, r = RName name) \/ ph s' = PDead.
Proof.
  induction fuel as [|f IH]; intros c wild g num v taken passes r s' H; cbn [wild_loop] in H.
  - inversion H; subst. right. reflexivity.
  - destruct (wild_for c g num v taken wild) as [name num' v' taken'|num' v'|e v'].
    + inversion H; subst. left. eexists num', _. cbn. split; [reflexivity|]. eauto.
    + destruct (100 <? passes + 1)%N.
      * inversion H; subst. right. reflexivity.
      * apply IH in H. exact H.
    + inversion H; subst. right. reflexivity.
Qed.

Lemma static_loop_phase : forall c wild g taken rest num v r s',
  static_loop c wild g num v taken rest = (r, s') ->
  (exists pre item rest' n' name, rest = pre ++ item :: rest' /\ ph s' = PStatic rest' wild g n' /\ r = RName name) \/
  (exists n' p', ph s' = PWild wild g n' p' /\ exists name, r = RName name) \/ ph s' = PDead.
Proof.
  intros c wild g taken rest. induction rest as [|item rest IH]; intros num v r s' H; cbn [static_loop] in H.
  - apply wild_loop_phase in H. destruct H as [[n' [p' [A C]]]|D]; [right; left; eauto | right; right; exact D].
  - destruct (try_item c false g num v taken item) as [name num' v' taken'|num' v'|v'|k].
    + inversion H; subst. left. exists [], item, rest, num', name. auto.
    + apply IH in H. destruct H as [[pre [it [rest' [n' [name [A [B C]]]]]]]|[H|H]]; [left|right;left;exact H|right;right;exact H].
      exists (item :: pre), it, rest', n', name. subst rest. auto.
    + apply IH in H. destruct H as [[pre [it [rest' [n' [name [A [B C]]]]]]]|[H|H]]; [left|right;left;exact H|right;right;exact H].
      exists (item :: pre), it, rest', n', name. subst rest. auto.
    + inversion H; subst. right. right. reflexivity.
Qed.

(* the generator follows the template (static, wild) *)
Definition follows (static wild : list str) (p : phase) : Prop :=
  match p with
  | PFresh files => split_files files [] = (static, wild)
  | PStatic rest w _ _ => w = wild /\ exists used, static = used ++ rest
  | PWild w _ _ _ => w = wild
  | PDead => True
  end.

Theorem stages_in_order : forall c s b r s' static wild,
  follows static wild (ph s) -> request c s b = (r, s') ->
  follows static wild (ph s') /\ (stage (ph s) <= stage (ph s'))%nat /\
  (* a name issued in the static stage consumes a non-empty prefix of what was left of the static list *)
  (forall rest' w' g' n', ph s' = PStatic rest' w' g' n' ->
     exists rest, (match ph s with PFresh _ => rest = static | PStatic r0 _ _ _ => rest = r0 | _ => False end) /\
                  exists pre item, rest = pre ++ item :: rest') /\
  (* g and the wildcard are fixed by the first request *)
  (forall g, (match ph s with PStatic _ _ g0 _ => g0 = g | PWild _ g0 _ _ => g0 = g | _ => False end) ->
             match ph s' with PStatic _ _ g1 _ => g1 = g | PWild _ g1 _ _ => g1 = g | PDead => True | PFresh _ => False end).
Proof.
  intros c s b r s' static wild F H. unfold request in H.
  destruct (ph s) as [files|rest w g num|w g num passes|] eqn:Hph; cbn [follows] in F.
  - rewrite F in H. apply static_loop_phase in H.
    destruct H as [[pre [item [rest' [n' [name [A [B C]]]]]]]|[[n' [p' [A C]]]|D]].
    + rewrite B. cbn. repeat split; auto.
      * exists (pre ++ [item]). rewrite <- app_assoc. exact A.
      * intros r1 w1 g1 n1 E. inversion E; subst. exists (pre ++ item :: r1). split; [reflexivity|]. eauto.
      * intros g0 [].
    + rewrite A. cbn. repeat split; auto. intros ? ? ? ? E; discriminate. intros g0 [].
    + rewrite D. cbn. repeat split; auto. intros ? ? ? ? E; discriminate.
  - destruct F as [F1 [used F2]]. subst w. apply static_loop_phase in H.
    destruct H as [[pre [item [rest' [n' [name [A [B C]]]]]]]|[[n' [p' [A C]]]|D]].
    + rewrite B. cbn. repeat split; auto.
      * exists (used ++ pre ++ [item]). rewrite F2, A. repeat rewrite <- app_assoc. reflexivity.
      * intros r1 w1 g1 n1 E. inversion E; subst. exists (pre ++ item :: r1). split; [reflexivity|]. eauto.
    + rewrite A. cbn. repeat split; auto. intros ? ? ? ? E; discriminate.
    + rewrite D. cbn. repeat split; auto. intros ? ? ? ? E; discriminate.
  - subst w. apply wild_loop_phase in H. destruct H as [[n' [p' [A C]]]|D].
    + rewrite A. cbn. repeat split; auto. intros ? ? ? ? E; discriminate.
    + rewrite D. cbn. repeat split; auto. intros ? ? ? ? E; discriminate.
  - inversion H; subst. cbn. repeat split; auto. intros ? ? ? ? E; discriminate.
Qed.

Theorem follows_run : forall c reqs s out s' static wild,
  follows static wild (ph s) -> run c s reqs = (out, s') -> follows static wild (ph s') /\ (stage (ph s) <= stage (ph s'))%nat.
Proof.
  intros c reqs. induction reqs as [|b reqs IH]; intros s out s' static wild F H; cbn [run] in H.
  - inversion H; subst. auto.
  - destruct (request c s b) as [r s1] eqn:E1. destruct (run c s1 reqs) as [out1 s2] eqn:E2. inversion H; subst.
    destruct (stages_in_order c s b r s1 static wild F E1) as [F1 [L1 _]].
    destruct (IH s1 out1 s' static wild F1 E2) as [F2 L2]. split; [exact F2 | lia].
Qed.

(* ------------------------------------------------------------------------------------------------ *)
(* M4/M5 : values *)

(* --- decimal numbers, zero padding --- *)
Lemma int_of_snoc : forall a d, int_of (a ++ [d]) = (int_of a * 10 + Z.to_N (d - 48))%N.
Proof. intros a d. unfold int_of. rewrite fold_left_app. reflexivity. Qed.

Lemma int_of_dec_fuel : forall fuel n, (N.to_nat n < fuel)%nat -> int_of (dec_fuel fuel n) = n.
Proof.
  induction fuel as [|f IH]; intros n H; [lia|]. cbn [dec_fuel].
  destruct (n <? 10)%N eqn:E.
  - unfold int_of. cbn [fold_left]. replace (48 + Z.of_N n - 48) with (Z.of_N n) by lia. rewrite N2Z.id. lia.
  - apply N.ltb_ge in E. rewrite int_of_snoc. rewrite IH.
    + replace (48 + Z.of_N (n mod 10) - 48) with (Z.of_N (n mod 10)) by lia. rewrite N2Z.id.
      pose proof (N.div_mod' n 10). lia.
    + assert (n / 10 < n)%N by (apply N.div_lt; lia). lia.
Qed.

Theorem int_of_dec : forall n, int_of (dec n) = n.
Proof. intro n. apply int_of_dec_fuel. lia. Qed.

Lemma dec_fuel_digits : forall fuel n, Forall (fun ch => is_digit ch = true) (dec_fuel fuel n).
Proof.
  induction fuel as [|f IH]; intro n; cbn [dec_fuel]; [constructor|].
  destruct (n <? 10)%N eqn:E.
  - apply N.ltb_lt in E. constructor; [|constructor]. clear IH. unfold is_digit, between. apply andb_true_iff. split; apply Z.leb_le; lia.
  - apply Forall_app. split; [apply IH|]. constructor; [|constructor]. clear IH.
    assert (M : (n mod 10 < 10)%N) by (apply N.mod_lt; discriminate). revert M. generalize (n mod 10)%N. clear. intros m M.
    unfold is_digit, between. apply andb_true_iff. split; apply Z.leb_le; lia.
Qed.

Lemma dec_fuel_nonempty : forall fuel n, fuel <> O -> dec_fuel fuel n <> [].
Proof.
  intros [|f] n H; [congruence|]. cbn [dec_fuel]. destruct (n <? 10)%N; [discriminate|].
  intro E. apply app_eq_nil in E. destruct E; discriminate.
Qed.

(* no leading zero *)
Lemma dec_fuel_head : forall fuel n, (N.to_nat n < fuel)%nat -> (0 < n)%N -> hd 48 (dec_fuel fuel n) <> 48.
Proof.
  induction fuel as [|f IH]; intros n H P; [lia|]. cbn [dec_fuel].
  destruct (n <? 10)%N eqn:E.
  - cbn [hd]. clear IH. lia.
  - apply N.ltb_ge in E.
    assert (D : (n / 10 < n)%N) by (clear IH; apply N.div_lt; lia).
    assert (Q : (0 < n / 10)%N) by (clear IH; apply N.div_str_pos; lia).
    assert (F : (N.to_nat (n / 10) < f)%nat) by (clear IH; lia).
    specialize (IH (n / 10)%N F Q).
    destruct (dec_fuel f (n / 10)) as [|x xs] eqn:G.
    + exfalso. destruct f; [clear IH; lia|]. revert G. apply dec_fuel_nonempty. discriminate.
    + cbn in *. exact IH.
Qed.

Lemma fold_zeros : forall k a,
  fold_left (fun (a : N) (c : Z) => (a * 10 + Z.to_N (c - 48))%N) (repeat 48 k) a = (a * 10 ^ N.of_nat k)%N.
Proof.
  induction k as [|k IH]; intro a; cbn [repeat fold_left].
  - change (N.of_nat 0) with 0%N. rewrite N.pow_0_r. ring.
  - rewrite IH. rewrite Nat2N.inj_succ, N.pow_succ_r'. replace (Z.to_N (48 - 48)) with 0%N by reflexivity. ring.
Qed.

Lemma int_of_zeros : forall k s, int_of (repeat 48 k ++ s) = int_of s.
Proof.
  intros k s. unfold int_of. rewrite fold_left_app, fold_zeros. rewrite N.mul_0_l. reflexivity.
Qed.

(* $num(w): the decimal digits of the number (no leading zero), padded on the left with zeros to w digits;
   reading the field back gives the number *)
Theorem fmt_num_spec : forall format n,
  let w := N.to_nat (int_of format) in
  fmt_num format n = repeat 48 (w - length (dec n)) ++ dec n /\
  length (fmt_num format n) = Nat.max w (length (dec n)) /\
  int_of (fmt_num format n) = n /\
  Forall (fun ch => is_digit ch = true) (fmt_num format n) /\
  ((0 < n)%N -> hd 48 (dec n) <> 48).
Proof.
  intros format n w. unfold fmt_num. fold w. unfold c_zero. split; [reflexivity|]. split; [|split; [|split]].
  - rewrite app_length, repeat_length. lia.
  - rewrite int_of_zeros. apply int_of_dec.
  - apply Forall_app. split; [|apply dec_fuel_digits]. apply Forall_forall. intros x Hx. apply repeat_spec in Hx. subst. reflexivity.
  - intro P. apply dec_fuel_head; lia.
Qed.

(* --- forbidden characters --- *)
Definition memz (x : Z) (l : str) : bool := existsb (Z.eqb x) l.

Lemma memz_In : forall x l, memz x l = true <-> In x l.
Proof.
  intros x l. unfold memz. rewrite existsb_exists. split.
  - intros [y [A B]]. apply Z.eqb_eq in B. subst. exact A.
  - intro A. exists x. split; [exact A | apply Z.eqb_refl].
Qed.

(* Spec: every forbidden character of the value is replaced by the substitute, all at once *)
Definition charsub_spec (bad sub v : str) : str := flat_map (fun x => if memz x bad then sub else [x]) v.

Lemma flat_map_single : forall (v : str), flat_map (fun x => [x]) v = v.
Proof. induction v as [|x v IH]; cbn; [reflexivity | rewrite IH; reflexivity]. Qed.

Lemma charsub_spec_clean_id : forall bad sub s, (forall ch, In ch s -> ~ In ch bad) -> charsub_spec bad sub s = s.
Proof.
  intros bad sub s. unfold charsub_spec. induction s as [|x s IH]; intro H; cbn [flat_map]; [reflexivity|].
  destruct (memz x bad) eqn:E.
  - apply memz_In in E. exfalso. apply (H x); [left; reflexivity | exact E].
  - cbn [app]. rewrite IH; [reflexivity|]. intros ch Hc. apply H. right. exact Hc.
Qed.

Theorem charsub_simultaneous : forall bad sub v,
  (forall ch, In ch sub -> ~ In ch bad) -> charsub_val (Some (bad, sub)) v = charsub_spec bad sub v.
Proof.
  intros bad sub. cbn [charsub_val]. induction bad as [|c bad IH]; intros v H; cbn [fold_left].
  - unfold charsub_spec. cbn. apply eq_sym. apply flat_map_single.
  - rewrite IH; [|intros ch Hc Hb; apply (H ch Hc); right; exact Hb].
    assert (S0 : charsub_spec bad sub sub = sub).
    { apply charsub_spec_clean_id. intros ch Hc Hb. apply (H ch Hc). right. exact Hb. }
    clear IH. induction v as [|x v IHv]; [reflexivity|].
    unfold replace_char. cbn [flat_map]. fold (replace_char c sub v).
    unfold charsub_spec at 1. rewrite flat_map_app. fold (charsub_spec bad sub (replace_char c sub v)). rewrite IHv.
    unfold charsub_spec at 2. cbn [flat_map]. fold (charsub_spec (c :: bad) sub v). f_equal.
    cbn [memz existsb]. destruct (x =? c) eqn:E.
    + cbn [orb]. exact S0.
    + cbn [orb flat_map]. rewrite app_nil_r. reflexivity.
Qed.

(* clean names: no forbidden character survives in a substituted value *)
Theorem charsub_clean : forall bad sub v ch,
  (forall x, In x sub -> ~ In x bad) -> In ch (charsub_val (Some (bad, sub)) v) -> ~ In ch bad.
Proof.
  intros bad sub v ch H. rewrite charsub_simultaneous; [|exact H]. unfold charsub_spec. intro Hin.
  apply in_flat_map in Hin. destruct Hin as [x [_ Hx]]. destruct (memz x bad) eqn:E.
  - apply H. exact Hx.
  - destruct Hx as [Hx|[]]. subst. intro Hb. apply memz_In in Hb. congruence.
Qed.

(* --- words --- *)
Definition spaces (s : str) : Prop := Forall (fun ch => is_space ch = true) s.
Definition solid (s : str) : Prop := Forall (fun ch => is_space ch = false) s.

(* Spec: v consists of the words ws, separated (and possibly surrounded) by runs of white space *)
Inductive words_of : str -> list str -> Prop :=
| wo_nil : forall sp, spaces sp -> words_of sp []
| wo_cons : forall sp w rest ws, spaces sp -> w <> [] -> solid w ->
    (rest = [] \/ exists ch r, rest = ch :: r /\ is_space ch = true) -> words_of rest ws ->
    words_of (sp ++ w ++ rest) (w :: ws).

Lemma split_spaces : forall sp r, spaces sp -> split_words [] (sp ++ r) = split_words [] r.
Proof.
  intros sp r H. induction H as [|ch sp Hc H IH]; cbn [app split_words]; [reflexivity|]. rewrite Hc. exact IH.
Qed.

Lemma split_solid : forall w cur r, solid w -> split_words cur (w ++ r) = split_words (rev w ++ cur) r.
Proof.
  intros w. induction w as [|ch w IH]; intros cur r H; cbn [app rev]; [reflexivity|].
  inversion H; subst. cbn [split_words]. rewrite H2. rewrite IH; [|assumption]. rewrite <- app_assoc. reflexivity.
Qed.

Lemma words_of_nil : forall ws, words_of [] ws -> ws = [].
Proof.
  intros ws H. remember (@nil Z) as v eqn:E. destruct H as [sp Hs|sp w rest ws Hs Hw Hsol Hrest Hr]; [reflexivity|].
  exfalso. apply app_eq_nil in E. destruct E as [_ E]. apply app_eq_nil in E. destruct E as [E _]. contradiction.
Qed.

Theorem split_words_spec : forall v ws, words_of v ws -> split_words [] v = ws.
Proof.
  intros v ws H. induction H as [sp H|sp w rest ws Hs Hw Hsol Hrest Hr IH].
  - rewrite <- (app_nil_r sp). rewrite split_spaces; [reflexivity | exact H].
  - rewrite split_spaces; [|exact Hs]. rewrite split_solid; [|exact Hsol]. rewrite app_nil_r.
    assert (Hrev : rev w <> []). { intro E. apply (f_equal (@rev Z)) in E. rewrite rev_involutive in E. cbn in E. contradiction. }
    destruct Hrest as [E | [ch [r [E Hc]]]]; subst rest.
    + apply words_of_nil in Hr. subst ws. cbn [split_words]. destruct (rev w) eqn:R; [contradiction|]. rewrite <- R, rev_involutive. reflexivity.
    + cbn [split_words] in *. rewrite Hc in *. destruct (rev w) eqn:R; [contradiction|]. rewrite <- R, rev_involutive. rewrite IH. reflexivity.
Qed.

(* $name(n): the first n words, joined by single blanks (repaired code: never an exception) *)
Theorem words_limit : forall format v ws, words_of v ws ->
  limit_words false format v = Some (join_sp (firstn (N.to_nat (int_of format)) ws)).
Proof.
  intros format v ws H. unfold limit_words. rewrite (split_words_spec v ws H). reflexivity.
Qed.

(* before the repair: a value without words raises IndexError as soon as a positive limit is applied *)
Theorem words_limit_legacy_refuted : exists format v, limit_words true format v = None /\ limit_words false format v = Some [].
Proof. exists [50], [32]. vm_compute. split; reflexivity. Qed.

(* ------------------------------------------------------------------------------------------------ *)
(* The documented template grammar (Spec side): a name is a sequence of literal runs and variables with an
   optional width.  "num" is the variable SVar k_num w. *)

Inductive seg := SLit (s : str) | SVar (x : str) (w : option str).
Definition name_t := list seg.

(* characters with a meaning for the template syntax *)
Definition special (ch : Z) : bool :=
  (ch =? 36) || (ch =? 123) || (ch =? 125) || (ch =? 40) || (ch =? 41) || (ch =? 91) || (ch =? 93) || (ch =? 44) || is_space ch.
Definition plain (s : str) : Prop := Forall (fun ch => special ch = false) s.
Definition wordy (s : str) : Prop := Forall (fun ch => is_word ch = true) s.
Definition ident (x : str) : Prop := wordy x /\ is_idstart (hd 0 x) = true.
Definition digits (d : str) : Prop := d <> [] /\ Forall (fun ch => is_digit ch = true) d.
Definition wf_seg (s : seg) : Prop :=
  match s with
  | SLit l => plain l
  | SVar x w => ident x /\ match w with Some d => digits d | None => True end
  end.
Definition wf_name (n : name_t) : Prop := Forall wf_seg n.

(* the form the names have after parseFilenames: ${x} and ${x.width} *)
Definition pr_var (x : str) (w : option str) : str :=
  match w with None => 36 :: 123 :: x ++ [125] | Some d => 36 :: 123 :: x ++ 46 :: d ++ [125] end.
Definition pr_int_seg (s : seg) : str := match s with SLit l => l | SVar x w => pr_var x w end.
Definition pr_int (n : name_t) : str := flat_map pr_int_seg n.
Definition pr_bare (n : name_t) : str := flat_map (fun s => match s with SLit l => l | SVar x _ => pr_var x None end) n.
Definition fmt_of (w : option str) : str := match w with Some d => d | None => [] end.
Definition keys_of (n : name_t) : list (str * str) :=
  flat_map (fun s => match s with SLit _ => [] | SVar x w => [(x, fmt_of w)] end) n.

Ltac llen := repeat (progress cbn [length app] || rewrite app_length); lia.
Ltac lnorm := repeat (progress (repeat rewrite <- app_assoc; cbn [app])).

Lemma ident_nonempty : forall x, ident x -> exists c r, x = c :: r /\ is_idstart c = true.
Proof. intros [|c r] [_ H]; cbn in H; [discriminate|]. exists c, r. auto. Qed.

Lemma span_app : forall p x ch r, Forall (fun c => p c = true) x -> p ch = false -> span p (x ++ ch :: r) = (x, ch :: r).
Proof.
  intros p x ch r H Hc. induction H as [|c x Hp H IH]; cbn [app span].
  - rewrite Hc. reflexivity.
  - rewrite Hp, IH. reflexivity.
Qed.

(* scanners: skipping, literal prefixes, a match at the head *)
Lemma resub_skip : forall m y r, resub m (length y) (y ++ r) = resub m 0 r.
Proof. intros m y r. induction y as [|c y IH]; cbn [length app resub]; [reflexivity|exact IH]. Qed.
Lemma refind_skip : forall A (m : str -> option (A * nat)) y r, refind m (length y) (y ++ r) = refind m 0 r.
Proof. intros A m y r. induction y as [|c y IH]; cbn [length app refind]; [reflexivity|exact IH]. Qed.
Lemma subst_skip : forall n y r, subst n (length y) (y ++ r) = subst n 0 r.
Proof. intros n y r. induction y as [|c y IH]; cbn [length app subst]; [reflexivity|exact IH]. Qed.

Lemma resub_match : forall m pre r rep, pre <> [] -> m (pre ++ r) = Some (rep, length pre) ->
  resub m 0 (pre ++ r) = rep ++ resub m 0 r.
Proof.
  intros m [|c pre] r rep Hne H; [congruence|]. cbn [app resub]. cbn [app] in H. rewrite H. cbn [length].
  rewrite resub_skip. reflexivity.
Qed.
Lemma refind_match : forall A (m : str -> option (A * nat)) pre r x, pre <> [] -> m (pre ++ r) = Some (x, length pre) ->
  refind m 0 (pre ++ r) = x :: refind m 0 r.
Proof.
  intros A m [|c pre] r x Hne H; [congruence|]. cbn [app refind]. cbn [app] in H. rewrite H. cbn [length].
  rewrite refind_skip. reflexivity.
Qed.

Lemma resub_nomatch : forall m l r, (forall ch t, In ch l -> m (ch :: t) = None) -> resub m 0 (l ++ r) = l ++ resub m 0 r.
Proof.
  intros m l r H. induction l as [|c l IH]; cbn [app resub]; [reflexivity|].
  rewrite (H c (l ++ r)); [|left; reflexivity]. rewrite IH; [reflexivity|]. intros ch t Hc. apply H. right. exact Hc.
Qed.
Lemma refind_nomatch : forall A (m : str -> option (A * nat)) l r, (forall ch t, In ch l -> m (ch :: t) = None) ->
  refind m 0 (l ++ r) = refind m 0 r.
Proof.
  intros A m l r H. induction l as [|c l IH]; cbn [app refind]; [reflexivity|].
  rewrite (H c (l ++ r)); [|left; reflexivity]. apply IH. intros ch t Hc. apply H. right. exact Hc.
Qed.

Lemma plain_not_dollar : forall l ch, plain l -> In ch l -> ch <> 36.
Proof.
  intros l ch H Hin. unfold plain in H. rewrite Forall_forall in H. specialize (H ch Hin). unfold special in H.
  intro E. subst. cbn in H. discriminate.
Qed.

Lemma m_key_head : forall ch t, ch <> 36 -> m_key (ch :: t) = None.
Proof. intros ch t H. unfold m_key. destruct ch as [|p|p]; try reflexivity. do 6 (destruct p as [p|p|]; try reflexivity). congruence. Qed.

Lemma not_word_rbrace : is_word 125 = false. Proof. reflexivity. Qed.
Lemma not_word_dot : is_word 46 = false. Proof. reflexivity. Qed.
Lemma not_digit_rbrace : is_digit 125 = false. Proof. reflexivity. Qed.

(* the key pattern on a printed variable *)
Lemma m_key_var : forall x w r, ident x -> match w with Some d => digits d | None => True end ->
  m_key (pr_var x w ++ r) = Some ((x, fmt_of w), length (pr_var x w)).
Proof.
  intros x w r Hx Hw. destruct (ident_nonempty x Hx) as [c [x' [E Hc]]]. destruct Hx as [Hx _].
  destruct w as [d|]; unfold pr_var.
  - destruct Hw as [Hd1 Hd2]. cbn [app]. unfold m_key.
    replace ((x ++ 46 :: d ++ [125]) ++ r) with (x ++ 46 :: (d ++ 125 :: r)) by (lnorm; reflexivity).
    rewrite (span_app is_word x 46 _ Hx not_word_dot). subst x.
    rewrite (span_app is_digit d 125 r Hd2 not_digit_rbrace).
    destruct d as [|d0 d']; [congruence|]. cbn [fmt_of]. f_equal. f_equal. llen.
  - cbn [app]. unfold m_key. rewrite <- app_assoc. cbn [app].
    rewrite (span_app is_word x 125 r Hx not_word_rbrace). subst x. cbn [fmt_of]. f_equal. f_equal. llen.
Qed.

Lemma pr_var_nonempty : forall x w, pr_var x w <> [].
Proof. intros x [d|]; discriminate. Qed.

Theorem find_keys_spec : forall n, wf_name n -> find_keys (pr_int n) = keys_of n.
Proof.
  intros n H. unfold find_keys. induction H as [|s n Hs H IH]; [reflexivity|].
  unfold pr_int, keys_of. cbn [flat_map]. fold (pr_int n). fold (keys_of n). destruct s as [l|x w]; cbn [pr_int_seg].
  - rewrite refind_nomatch; [exact IH|]. intros ch t Hc. apply m_key_head. eapply plain_not_dollar; eauto.
  - destruct Hs as [Hx Hw]. rewrite (refind_match _ m_key (pr_var x w) (pr_int n) (x, fmt_of w)).
    + rewrite IH. reflexivity.
    + apply pr_var_nonempty.
    + apply m_key_var; assumption.
Qed.

Lemma m_stripfmt_head : forall ch t, ch <> 36 -> m_stripfmt (ch :: t) = None.
Proof. intros ch t H. unfold m_stripfmt. rewrite m_key_head; [reflexivity|exact H]. Qed.

Theorem strip_formats_spec : forall n, wf_name n -> strip_formats (pr_int n) = pr_bare n.
Proof.
  intros n H. unfold strip_formats. induction H as [|s n Hs H IH]; [reflexivity|].
  unfold pr_int, pr_bare. cbn [flat_map]. fold (pr_int n). fold (pr_bare n). destruct s as [l|x w]; cbn [pr_int_seg].
  - rewrite resub_nomatch; [rewrite IH; reflexivity|]. intros ch t Hc. apply m_stripfmt_head. eapply plain_not_dollar; eauto.
  - destruct Hs as [Hx Hw]. destruct w as [d|].
    + rewrite (resub_match m_stripfmt (pr_var x (Some d)) (pr_int n) (pr_var x None)).
      * rewrite IH. reflexivity.
      * apply pr_var_nonempty.
      * unfold m_stripfmt. rewrite (m_key_var x (Some d) (pr_int n) Hx Hw). cbn [fmt_of].
        destruct Hw as [Hd _]. destruct d; [congruence|]. reflexivity.
    + (* no format: the pattern does not match at "$"; the remaining characters are no "$" *)
      unfold pr_var at 1. cbn [app resub].
      assert (M : m_stripfmt (36 :: 123 :: (x ++ [125]) ++ pr_int n) = None).
      { unfold m_stripfmt. change (36 :: 123 :: (x ++ [125]) ++ pr_int n) with (pr_var x None ++ pr_int n).
        rewrite (m_key_var x None (pr_int n) Hx I). reflexivity. }
      rewrite M. f_equal.
      change (123 :: (x ++ [125]) ++ pr_int n) with ((123 :: x ++ [125]) ++ pr_int n).
      rewrite resub_nomatch; [rewrite IH; reflexivity|].
      intros ch t Hc. apply m_stripfmt_head. destruct Hx as [Hx _]. unfold wordy in Hx. rewrite Forall_forall in Hx.
      assert (Hin : In 36 (123 :: x ++ [125]) -> False).
      { intros [F|F]; [discriminate|]. apply in_app_or in F. destruct F as [F|[F|[]]]; [specialize (Hx _ F); discriminate | discriminate]. }
      intro E. subst ch. apply Hin. first [exact Hc | right; exact Hc].
Qed.

(* Spec of the substitution: literals stand for themselves, a variable for its value; the leftmost unbound variable
   makes the whole candidate unbound *)
Fixpoint subst_spec (n : ns) (name : name_t) : sres :=
  match name with
  | [] => SOk []
  | SLit l :: r => sres_app l (subst_spec n r)
  | SVar x _ :: r => match lookup x n with Some v => sres_app v (subst_spec n r) | None => SKeyError end
  end.

Lemma sres_app_app : forall a b r, sres_app a (sres_app b r) = sres_app (a ++ b) r.
Proof. intros a b [s| |]; cbn; [rewrite app_assoc|idtac|idtac]; reflexivity. Qed.

Lemma subst_lit : forall n l r, (forall ch, In ch l -> ch <> 36) -> subst n 0 (l ++ r) = sres_app l (subst n 0 r).
Proof.
  intros n l r H. induction l as [|c l IH]; cbn [app].
  - destruct (subst n 0 r); reflexivity.
  - cbn [subst]. assert (E : (c =? c_dollar) = false). { apply Z.eqb_neq. apply H. left. reflexivity. }
    rewrite E. rewrite IH; [|intros ch Hc; apply H; right; exact Hc]. rewrite sres_app_app. reflexivity.
Qed.

Lemma subst_dollar : forall n r, subst n 0 (36 :: r) =
  match tmpl_at r with
  | TEsc => sres_app [c_dollar] (subst n 1 r)
  | TVar name k => match lookup name n with Some v => sres_app v (subst n k r) | None => SKeyError end
  | TInvalid => SValueError
  end.
Proof. reflexivity. Qed.

Lemma tmpl_at_braced : forall x r, ident x -> tmpl_at (123 :: x ++ 125 :: r) = TVar x (2 + length x).
Proof.
  intros x r Hx. destruct (ident_nonempty x Hx) as [c [x' [E Hc]]]. destruct Hx as [Hx _].
  unfold tmpl_at. rewrite (span_app is_word x 125 r Hx not_word_rbrace). subst x. rewrite Hc. reflexivity.
Qed.

Lemma subst_var : forall n x r, ident x ->
  subst n 0 (pr_var x None ++ r) = match lookup x n with Some v => sres_app v (subst n 0 r) | None => SKeyError end.
Proof.
  intros n x r Hx. unfold pr_var. cbn [app]. rewrite subst_dollar. rewrite <- app_assoc. cbn [app].
  rewrite (tmpl_at_braced x r Hx). destruct (lookup x n) as [v|]; [|reflexivity]. f_equal.
  replace (123 :: x ++ 125 :: r) with ((123 :: x ++ [125]) ++ r) by (lnorm; reflexivity).
  replace (2 + length x)%nat with (length (123 :: x ++ [125])) by llen.
  apply subst_skip.
Qed.

Theorem subst_bare_spec : forall n name, wf_name name -> subst n 0 (pr_bare name) = subst_spec n name.
Proof.
  intros n name H. induction H as [|s name Hs H IH]; [reflexivity|].
  unfold pr_bare. cbn [flat_map]. fold (pr_bare name). destruct s as [l|x w]; cbn [subst_spec].
  - rewrite subst_lit; [rewrite IH; reflexivity|]. intros ch Hc. eapply plain_not_dollar; eauto.
  - destruct Hs as [Hx _]. rewrite subst_var; [|exact Hx]. rewrite IH. reflexivity.
Qed.

(* ------------------------------------------------------------------------------------------------ *)
(* expand on a name of the documented grammar = the Spec evaluation of that name *)

Lemma str_eqb_sym : forall a b, str_eqb a b = str_eqb b a.
Proof.
  intros a b. destruct (str_eqb a b) eqn:E1; destruct (str_eqb b a) eqn:E2; try reflexivity.
  - apply str_eqb_eq in E1. subst. rewrite str_eqb_refl in E2. discriminate.
  - apply str_eqb_eq in E2. subst. rewrite str_eqb_refl in E1. discriminate.
Qed.

Lemma lookup_set_same : forall k v n, lookup k (set k v n) = Some v.
Proof.
  intros k v n. induction n as [|[k' v'] n IH]; cbn [set lookup].
  - rewrite str_eqb_refl. reflexivity.
  - destruct (str_eqb k k') eqn:E; cbn [lookup]; rewrite E; [reflexivity|exact IH].
Qed.

Lemma lookup_set_other : forall x k v n, str_eqb x k = false -> lookup x (set k v n) = lookup x n.
Proof.
  intros x k v n H. induction n as [|[k' v'] n IH]; cbn [set lookup].
  - rewrite H. reflexivity.
  - destruct (str_eqb k k') eqn:E; cbn [lookup].
    + apply str_eqb_eq in E. subst k'. rewrite H. reflexivity.
    + destruct (str_eqb x k'); [reflexivity|exact IH].
Qed.

Lemma lookup_map : forall f x (n : ns), lookup x (map (fun kv => (fst kv, f (snd kv))) n) = option_map f (lookup x n).
Proof.
  intros f x n. induction n as [|[k v] n IH]; cbn [map lookup fst snd]; [reflexivity|].
  destruct (str_eqb x k); [reflexivity|exact IH].
Qed.

Definition limitf (format v : str) : str := join_sp (firstn (N.to_nat (int_of format)) (split_words [] v)).

Section Expand.
  Context (c : cfg) (Hwords : legacy_words c = false) (num : N).

  Definition key_val (x d : str) (o : option str) : option str :=
    if str_eqb x k_num then Some (fmt_num d num)
    else if nonempty d then option_map (limitf d) o else o.

  Lemma apply_key_step : forall cur k d, exists cur1,
    apply_key c num (Some cur) (k, d) = Some cur1 /\ lookup k cur1 = key_val k d (lookup k cur) /\
    forall x, str_eqb x k = false -> lookup x cur1 = lookup x cur.
  Proof.
    intros cur k d. unfold apply_key, key_val. destruct (str_eqb k k_num) eqn:E.
    - apply str_eqb_eq in E. subst k. eexists. split; [reflexivity|]. split; [apply lookup_set_same|].
      intros x Hx. apply lookup_set_other. exact Hx.
    - destruct (nonempty d).
      + destruct (lookup k cur) as [v|] eqn:L.
        * unfold limit_words. rewrite Hwords. cbn [andb]. eexists. split; [reflexivity|]. split; [apply lookup_set_same|].
          intros x Hx. apply lookup_set_other. exact Hx.
        * exists cur. rewrite L. auto.
      + exists cur. auto.
  Qed.

  Lemma fold_keys : forall keys cur, NoDup (map fst keys) -> exists cur',
    fold_left (apply_key c num) keys (Some cur) = Some cur' /\
    (forall x, ~ In x (map fst keys) -> lookup x cur' = lookup x cur) /\
    (forall x d, In (x, d) keys -> lookup x cur' = key_val x d (lookup x cur)).
  Proof.
    induction keys as [|[k d] keys IH]; intros cur ND; cbn [fold_left map fst] in *.
    - exists cur. split; [reflexivity|]. split; [auto|]. intros x d [].
    - inversion ND as [|? ? Hk ND']; subst.
      destruct (apply_key_step cur k d) as [cur1 [A [B C]]]. rewrite A.
      destruct (IH cur1 ND') as [cur' [F [G K]]]. exists cur'. split; [exact F|]. split.
      + intros x Hx. rewrite G; [|intro Hin; apply Hx; right; exact Hin]. apply C.
        destruct (str_eqb x k) eqn:E; [|reflexivity]. apply str_eqb_eq in E. subst. exfalso. apply Hx. left. reflexivity.
      + intros x dd [Hin|Hin].
        * inversion Hin; subst. rewrite G; [exact B|exact Hk].
        * rewrite (K x dd Hin). f_equal. apply C. destruct (str_eqb x k) eqn:E; [|reflexivity].
          apply str_eqb_eq in E. subst. exfalso. apply Hk. apply (in_map fst) in Hin. exact Hin.
  Qed.

  (* Spec: the value a variable contributes to a name *)
  Definition var_value (vars : ns) (x : str) (w : option str) : option str :=
    if str_eqb x k_num then Some (fmt_num (fmt_of w) num)                        (* the running number, zero padded *)
    else match lookup x vars with
         | None => None                                                          (* unbound *)
         | Some v => let v1 := charsub_val (cs c) v in                           (* forbidden characters replaced *)
                     Some (match w with Some d => limitf d v1 | None => v1 end)  (* first n words *)
         end.

  Fixpoint spec_expand (vars : ns) (name : name_t) : option str :=
    match name with
    | [] => Some []
    | SLit l :: r => option_map (app l) (spec_expand vars r)
    | SVar x w :: r => match var_value vars x w, spec_expand vars r with
                       | Some v, Some s => Some (v ++ s)
                       | _, _ => None
                       end
    end.

  Definition numbered (name : name_t) : bool :=
    existsb (fun s => match s with SVar x _ => str_eqb x k_num | SLit _ => false end) name.

  Lemma subst_spec_values : forall cur vars name, wf_name name ->
    (forall x w, In (SVar x w) name -> lookup x cur = var_value vars x w) ->
    subst_spec cur name = match spec_expand vars name with Some s => SOk s | None => SKeyError end.
  Proof.
    intros cur vars name H. induction H as [|s name Hs H IH]; intro V; [reflexivity|].
    assert (V' : forall x w, In (SVar x w) name -> lookup x cur = var_value vars x w) by (intros; apply V; right; assumption).
    specialize (IH V'). destruct s as [l|x w]; cbn [subst_spec spec_expand].
    - rewrite IH. destruct (spec_expand vars name); reflexivity.
    - rewrite (V x w); [|left; reflexivity]. destruct (var_value vars x w) as [v|]; [|reflexivity].
      rewrite IH. destruct (spec_expand vars name); reflexivity.
  Qed.

  Lemma keys_of_In : forall name x w, In (SVar x w) name -> In (x, fmt_of w) (keys_of name).
  Proof.
    intros name x w H. unfold keys_of. apply in_flat_map. exists (SVar x w). split; [exact H|]. left. reflexivity.
  Qed.

  Lemma keys_of_num : forall name, numbered name = true <-> In k_num (map fst (keys_of name)).
  Proof.
    intro name. unfold numbered. rewrite existsb_exists. split.
    - intros [s [Hin Hs]]. destruct s as [l|x w]; [discriminate|]. apply str_eqb_eq in Hs. subst x.
      apply keys_of_In in Hin. apply (in_map fst) in Hin. exact Hin.
    - intro H. apply in_map_iff in H. destruct H as [[k d] [E Hin]]. cbn in E. subst k. unfold keys_of in Hin.
      apply in_flat_map in Hin. destruct Hin as [s [Hs Hk]]. exists s. split; [exact Hs|].
      destruct s as [l|x w]; [destruct Hk|]. destruct Hk as [Hk|[]]. inversion Hk; subst. apply str_eqb_refl.
  Qed.

  (* M3/M4/M5 at the level of one candidate: for a name of the documented grammar in which every variable occurs once,
     and a caller that does not bind "num": the candidate is unbound exactly when one of its variables is, otherwise its
     text is the concatenation of the literals and the variable values (Spec), and it is numbered iff it contains $num *)
  Theorem expand_spec : forall vars name,
    wf_name name -> NoDup (map fst (keys_of name)) -> lookup k_num vars = None ->
    expand c vars num (pr_int name) =
      match spec_expand vars name with Some s => EOk s (numbered name) | None => EKeyError end.
  Proof.
    intros vars name Hwf ND Hn. unfold expand. cbv zeta. rewrite (find_keys_spec name Hwf).
    match goal with |- context [fold_left _ _ (Some ?c0)] => destruct (fold_keys (keys_of name) c0 ND) as [cur' [F [G K]]] end.
    match goal with |- match ?X with _ => _ end = _ => replace X with (Some cur') by (symmetry; exact F) end.
    rewrite (strip_formats_spec name Hwf). rewrite (subst_bare_spec cur' name Hwf).
    rewrite (subst_spec_values cur' vars name Hwf).
    - destruct (spec_expand vars name) as [s|]; [|reflexivity]. f_equal. unfold has.
      destruct (numbered name) eqn:Nb.
      + apply keys_of_num in Nb. apply in_map_iff in Nb. destruct Nb as [[k d] [E Hin]]. cbn in E. subst k.
        rewrite (K k_num d Hin). unfold key_val. rewrite str_eqb_refl. reflexivity.
      + rewrite G.
        * rewrite lookup_map, Hn. reflexivity.
        * intro Hin. apply keys_of_num in Hin. congruence.
    - intros x w Hin. rewrite (K x (fmt_of w) (keys_of_In name x w Hin)). rewrite lookup_map. unfold key_val, var_value.
      destruct (str_eqb x k_num); [reflexivity|].
      assert (Hs : wf_seg (SVar x w)). { unfold wf_name in Hwf. rewrite Forall_forall in Hwf. apply Hwf. exact Hin. }
      destruct Hs as [_ Hw]. destruct w as [d|]; cbn [fmt_of].
      + destruct Hw as [Hd _]. destruct d as [|d0 d']; [congruence|]. cbn [nonempty]. destruct (lookup x vars); reflexivity.
      + cbn [nonempty]. destruct (lookup x vars); reflexivity.
  Qed.
End Expand.

(* ------------------------------------------------------------------------------------------------ *)
(* request-level statements of M2 / M3 / M4 *)

(* what the wildcard stage of one request may produce, starting with number num, namespace v, taken names, pass counter passes *)
Definition wild_outcome (c : cfg) (wild : list str) (g : ns) (num : N) (v : ns) (taken : list str) (passes : N) (r : res) (s' : st) : Prop :=
  match r with
  | RName name =>
      (* k fruitless passes, then the candidates before [item] in the deciding pass: all passed over; [item] is bound and fresh *)
      exists k pre item post n1 n',
        wild = pre ++ item :: post /\ passed_over c v taken num (cycles k wild ++ pre) n1 /\ chosen c v taken n1 item name n' /\
        s' = {| ph := PWild wild g n' (if legacy_passes c then passes + N.of_nat k + 1 else 0)%N; vars := g; inval := taken ++ [name] |} /\
        (k = O \/ passes + N.of_nat k <= 100)%N
  | RRaise e =>
      (* the error: every candidate of k+1 complete passes was passed over and the pass counter exceeded 100 ... *)
      (exists k n', e = K_Bail /\ passed_over c v taken num (cycles (S k) wild) n' /\ (100 < passes + N.of_nat k + 1)%N /\
                    (k = O \/ passes + N.of_nat k <= 100)%N) \/
      (* ... or the candidate reached raised an exception of its own (malformed placeholder) *)
      (exists k pre item post n1, wild = pre ++ item :: post /\ passed_over c v taken num (cycles k wild ++ pre) n1 /\
                                  expand c v n1 item = ECrash e)
  | _ => False
  end.

Definition static_outcome (c : cfg) (rest wild : list str) (g : ns) (num : N) (v : ns) (taken : list str) (r : res) (s' : st) : Prop :=
  (* a static name: the first remaining static template that is bound and fresh; the ones before it are dropped for good *)
  (exists pre item rest' n1 n' name, r = RName name /\ rest = pre ++ item :: rest' /\ passed_over c v taken num pre n1 /\
      chosen c v taken n1 item name n' /\ s' = {| ph := PStatic rest' wild g n'; vars := g; inval := taken ++ [name] |}) \/
  (* none left: the wildcard decides, with a fresh pass counter *)
  (exists n1, passed_over c v taken num rest n1 /\ wild_outcome c wild g n1 v taken 0 r s') \/
  (exists pre item rest' n1 e, r = RRaise e /\ rest = pre ++ item :: rest' /\ passed_over c v taken num pre n1 /\
      expand c v n1 item = ECrash e).

Theorem wildcard_request : forall c s b wild g num passes r s',
  legacy_reset c = false -> ph s = PWild wild g num passes -> lookup k_num (update (vars s) b) = None ->
  request c s b = (r, s') -> wild_outcome c wild g num (update (vars s) b) (inval s) passes r s'.
Proof.
  intros c s b wild g num passes r s' Hr Hph Hn H. unfold request in H. rewrite Hph in H.
  unfold wild_outcome. eapply (wild_loop_sound c Hr pass_fuel) in H; [exact H | exact Hn | discriminate | unfold pass_fuel; lia].
Qed.

Lemma static_loop_outcome : forall c wild g taken rest num v r s',
  legacy_reset c = false -> lookup k_num v = None ->
  static_loop c wild g num v taken rest = (r, s') -> static_outcome c rest wild g num v taken r s'.
Proof.
  intros c wild g taken rest num v r s' Hr Hn H. apply (static_loop_sound c Hr wild g taken rest num v Hn) in H.
  destruct H as [H|[[n1 [A B]]|H]]; [left; exact H | | right; right; exact H].
  right. left. exists n1. split; [exact A|]. unfold wild_outcome.
  eapply (wild_loop_sound c Hr pass_fuel) in B; [exact B | exact Hn | discriminate | unfold pass_fuel; lia].
Qed.

Theorem static_request : forall c s b rest wild g num r s',
  legacy_reset c = false -> ph s = PStatic rest wild g num -> lookup k_num (update (vars s) b) = None ->
  request c s b = (r, s') -> static_outcome c rest wild g num (update (vars s) b) (inval s) r s'.
Proof.
  intros c s b rest wild g num r s' Hr Hph Hn H. unfold request in H. rewrite Hph in H.
  apply static_loop_outcome; assumption.
Qed.

(* the first request fixes g (its own namespace) and starts the running number at 1 *)
Theorem first_request : forall c s b files static wild r s',
  legacy_reset c = false -> ph s = PFresh files -> split_files files [] = (static, wild) ->
  lookup k_num (update (vars s) b) = None ->
  request c s b = (r, s') ->
  static_outcome c static wild (update (vars s) b) 1 (update (vars s) b) (inval s) r s'.
Proof.
  intros c s b files static wild r s' Hr Hph Hs Hn H. unfold request in H. rewrite Hph, Hs in H.
  apply static_loop_outcome; assumption.
Qed.

(* completeness for the first pass of a wildcard request: a bound fresh alternative preceded only by passed-over ones is issued *)
Theorem wildcard_request_complete : forall c s b wild g num passes pre item post n1 name n',
  legacy_reset c = false -> ph s = PWild wild g num passes -> lookup k_num (update (vars s) b) = None ->
  wild = pre ++ item :: post -> passed_over c (update (vars s) b) (inval s) num pre n1 ->
  chosen c (update (vars s) b) (inval s) n1 item name n' ->
  request c s b = (RName name, {| ph := PWild wild g n' (if legacy_passes c then passes + 1 else 0)%N; vars := g; inval := inval s ++ [name] |}).
Proof.
  intros c s b wild g num passes pre item post n1 name n' Hr Hph Hn Hw P C. unfold request. rewrite Hph.
  unfold pass_fuel. cbn [wild_loop]. subst wild.
  rewrite (wild_for_complete c Hr g (inval s) pre item post num (update (vars s) b) n1 name n' Hn P C). reflexivity.
Qed.

(* the legacy behaviour (before fix-1): a skipped candidate resets the namespace, so a later alternative whose variable IS
   bound by the caller is reported unbound.  Template [e, $i] (already normalised), second request binds i = "a". *)
Theorem legacy_reset_refuted :
  let c0 := {| cs := None; ext := []; legacy_reset := true; legacy_words := false; legacy_passes := false |} in
  let c1 := {| cs := None; ext := []; legacy_reset := false; legacy_words := false; legacy_passes := false |} in
  let files := [FList [[101]; [36; 123; 105; 125]]] in
  let s0 := {| ph := PFresh files; vars := []; inval := [] |} in
  let reqs := [[]; [([105], [97])]] in
  map fst (fst (run c0 s0 reqs)) = [RName [101]; RRaise K_Bail] /\
  map fst (fst (run c1 s0 reqs)) = [RName [101]; RName [97]].
Proof. vm_compute. split; reflexivity. Qed.

(* ------------------------------------------------------------------------------------------------ *)
(* M7 : parseFilenames on a printed template of the documented grammar gives back the template.
   Printed form: names separated by one blank, variables ${x} and ${x}(width), at most one bracket group
   pre[alt1,alt2,...]post in the last name.  (The $x spelling and optional blanks inside ${ }, ( ), [ ] and around commas are
   exercised by the correspondence only.) *)

Inductive tok := KLit (l : str) | KVar (x : str) (w : option str) | KSp | KLb | KRb | KCm.

Definition pr_tok_surf (t : tok) : str :=
  match t with
  | KLit l => l
  | KVar x None => 36 :: 123 :: x ++ [125]
  | KVar x (Some d) => 36 :: 123 :: x ++ 125 :: 40 :: d ++ [41]
  | KSp => [32] | KLb => [91] | KRb => [93] | KCm => [44]
  end.
Definition pr_tok_int (t : tok) : str :=
  match t with
  | KLit l => l
  | KVar x w => pr_var x w
  | KSp => [32] | KLb => [91] | KRb => [93] | KCm => [44]
  end.
Definition pr_surf (ts : list tok) : str := flat_map pr_tok_surf ts.
Definition pr_ints (ts : list tok) : str := flat_map pr_tok_int ts.

(* what may follow a blank, an opening bracket or a comma *)
Definition after_sep (ch : Z) : bool := negb (is_space ch) && negb (ch =? 93) && negb (ch =? 44).

Definition first_of (ts : list tok) : option Z :=
  match ts with
  | [] => None
  | KLit l :: _ => hd_error l
  | KVar _ _ :: _ => Some 36
  | KSp :: _ => Some 32 | KLb :: _ => Some 91 | KRb :: _ => Some 93 | KCm :: _ => Some 44
  end.

Definition tok_ok (t : tok) (next : option Z) : Prop :=
  match t with
  | KLit l => plain l /\ l <> []
  | KVar x w => ident x /\ match w with Some d => digits d | None => True end
  | KSp | KLb | KCm => exists ch, next = Some ch /\ after_sep ch = true
  | KRb => True
  end.

Fixpoint toks_ok (ts : list tok) : Prop :=
  match ts with [] => True | t :: r => tok_ok t (first_of r) /\ toks_ok r end.

Lemma first_of_surf : forall ts, toks_ok ts -> hd_error (pr_surf ts) = first_of ts.
Proof.
  intros [|t r] H; [reflexivity|]. destruct H as [H _]. unfold pr_surf. cbn [flat_map].
  destruct t as [l|x [d|]| | | |]; cbn [pr_tok_surf first_of app hd_error]; try reflexivity.
  destruct H as [_ H]. destruct l; [congruence|reflexivity].
Qed.
Lemma first_of_int : forall ts, toks_ok ts -> hd_error (pr_ints ts) = first_of ts.
Proof.
  intros [|t r] H; [reflexivity|]. destruct H as [H _]. unfold pr_ints. cbn [flat_map].
  destruct t as [l|x [d|]| | | |]; cbn [pr_tok_int pr_var first_of app hd_error]; try reflexivity.
  destruct H as [_ H]. destruct l; [congruence|reflexivity].
Qed.

(* first characters never are "(" *)
Lemma first_of_not_paren : forall ts, toks_ok ts -> first_of ts <> Some 40.
Proof.
  intros [|t r] H; [discriminate|]. destruct H as [H _]. destruct t as [l|x w| | | |]; cbn [first_of]; try discriminate.
  destruct H as [H _]. destruct l as [|c l]; [discriminate|]. cbn. inversion H; subst. intro E. inversion E; subst. discriminate.
Qed.

(* character-class facts *)
Lemma word_not_space : forall ch, is_word ch = true -> is_space ch = false.
Proof. intros ch H. unfold is_word, is_digit, is_alpha, is_space, between in *. lia. Qed.
Lemma word_not_sep : forall ch, is_word ch = true -> ch <> 36 /\ ch <> 125 /\ ch <> 91 /\ ch <> 93 /\ ch <> 44 /\ ch <> 32.
Proof. intros ch H. unfold is_word, is_digit, is_alpha, between in *. lia. Qed.
Lemma digit_word : forall ch, is_digit ch = true -> is_word ch = true.
Proof. intros ch H. unfold is_word. rewrite H. reflexivity. Qed.
Lemma plain_char : forall ch, special ch = false ->
  ch <> 36 /\ ch <> 123 /\ ch <> 125 /\ ch <> 40 /\ ch <> 41 /\ ch <> 91 /\ ch <> 93 /\ ch <> 44 /\ is_space ch = false.
Proof. intros ch H. unfold special in H. repeat (apply orb_false_iff in H; destruct H as [H ?]). repeat split; try (apply Z.eqb_neq; assumption). assumption. Qed.

Ltac zlit ch := destruct ch as [|?p|?p]; try reflexivity; repeat (match goal with p : positive |- _ => destruct p as [p|p|]; try reflexivity end); try congruence.

(* a matcher does not fire on a head character that is not its trigger *)
Lemma m_dollar_head : forall ch t, ch <> 36 -> m_dollar (ch :: t) = None.
Proof. intros ch t H. unfold m_dollar. zlit ch. Qed.
Lemma m_braced_head : forall ch t, ch <> 36 -> m_braced (ch :: t) = None.
Proof. intros ch t H. unfold m_braced. zlit ch. Qed.
Lemma m_fmt_head : forall ch t, ch <> 125 -> m_fmt (ch :: t) = None.
Proof. intros ch t H. unfold m_fmt. zlit ch. Qed.
Lemma m_lbrack_head : forall ch t, ch <> 91 -> m_lbrack (ch :: t) = None.
Proof. intros ch t H. unfold m_lbrack. zlit ch. Qed.
Lemma m_rbrack_head : forall ch t, is_space ch = false -> ch <> 93 -> m_rbrack (ch :: t) = None.
Proof. intros ch t Hs H. unfold m_rbrack. cbn [span]. rewrite Hs. zlit ch. Qed.
Lemma m_comma_head : forall ch t, is_space ch = false -> ch <> 44 -> m_comma (ch :: t) = None.
Proof. intros ch t Hs H. unfold m_comma. cbn [span]. rewrite Hs. zlit ch. Qed.

Ltac split_in H := repeat match type of H with
  | In _ (_ :: _) => destruct H as [H|H]; [subst|]
  | In _ (_ ++ _) => apply in_app_or in H; destruct H as [H|H]
  | In _ [] => destruct H
  end.

Lemma wordy_In : forall x ch, wordy x -> In ch x -> is_word ch = true.
Proof. intros x ch H Hin. unfold wordy in H. rewrite Forall_forall in H. apply H. exact Hin. Qed.
Lemma digits_In : forall d ch, digits d -> In ch d -> is_word ch = true.
Proof. intros d ch [_ H] Hin. rewrite Forall_forall in H. apply digit_word. apply H. exact Hin. Qed.

Lemma var_chars_surf : forall x w ch, tok_ok (KVar x w) None -> In ch (pr_tok_surf (KVar x w)) ->
  ch = 36 \/ ch = 123 \/ ch = 125 \/ ch = 40 \/ ch = 41 \/ is_word ch = true.
Proof.
  intros x w ch [[Hx _] Hw] Hin. destruct w as [d|]; cbn [pr_tok_surf] in Hin; split_in Hin; auto 10;
    try (right; right; right; right; right; eapply wordy_In; eassumption);
    try (right; right; right; right; right; eapply digits_In; eassumption).
Qed.

Lemma var_chars_int : forall x w ch, tok_ok (KVar x w) None -> In ch (pr_var x w) ->
  ch = 36 \/ ch = 123 \/ ch = 125 \/ ch = 46 \/ is_word ch = true.
Proof.
  intros x w ch [[Hx _] Hw] Hin. destruct w as [d|]; unfold pr_var in Hin; split_in Hin; auto 10;
    try (right; right; right; right; eapply wordy_In; eassumption);
    try (right; right; right; right; eapply digits_In; eassumption).
Qed.

Lemma lit_chars : forall l ch, plain l -> In ch l -> special ch = false.
Proof. intros l ch H Hin. unfold plain in H. rewrite Forall_forall in H. apply H. exact Hin. Qed.

Lemma resub_cons_nomatch : forall m c l r, m (c :: l ++ r) = None -> (forall ch t, In ch l -> m (ch :: t) = None) ->
  resub m 0 (c :: l ++ r) = c :: l ++ resub m 0 r.
Proof. intros m c l r H1 H2. cbn [resub]. rewrite H1. rewrite resub_nomatch; auto. Qed.

Lemma tok_ok_weaken : forall x w n, tok_ok (KVar x w) n -> tok_ok (KVar x w) None.
Proof. intros x w n H. exact H. Qed.

(* pass 1: \$(\w+) does not fire: every "$" is followed by "{" *)
Lemma pass_dollar : forall ts, toks_ok ts -> resub m_dollar 0 (pr_surf ts) = pr_surf ts.
Proof.
  induction ts as [|t ts IH]; intro H; [reflexivity|]. destruct H as [Ht Hr]. specialize (IH Hr).
  unfold pr_surf. cbn [flat_map]. fold (pr_surf ts).
  destruct t as [l|x w| | | |].
  - cbn [pr_tok_surf]. rewrite resub_nomatch; [rewrite IH; reflexivity|]. intros ch t Hc. apply m_dollar_head.
    destruct Ht as [Hp _]. apply (lit_chars l ch Hp) in Hc. apply plain_char in Hc. tauto.
  - assert (E : exists l, pr_tok_surf (KVar x w) = 36 :: 123 :: l).
    { destruct w; cbn [pr_tok_surf]; eexists; reflexivity. }
    destruct E as [l E].
    assert (Hl : forall ch, In ch (123 :: l) -> ch <> 36).
    { intros ch Hc. assert (Hin : In ch (pr_tok_surf (KVar x w))) by (rewrite E; right; exact Hc).
      apply (var_chars_surf x w ch Ht) in Hin. destruct Hc as [Hc|Hc]; [subst; discriminate|].
      (* ch is in l: it is not the leading dollar, but could var_chars say 36?  use position: l has no 36 *)
      clear Hin. revert Hc. destruct w as [d|]; cbn [pr_tok_surf] in E; inversion E; subst l; intro Hc; split_in Hc; try discriminate;
        destruct Ht as [[Hx _] Hw]; try (apply (wordy_In x ch Hx) in Hc; apply word_not_sep in Hc; tauto);
        try (apply (digits_In d ch Hw) in Hc; apply word_not_sep in Hc; tauto). }
    rewrite E. change ((36 :: 123 :: l) ++ pr_surf ts) with (36 :: (123 :: l) ++ pr_surf ts).
    rewrite resub_cons_nomatch.
    + rewrite IH. reflexivity.
    + reflexivity.
    + intros ch t Hc. apply m_dollar_head. apply Hl. exact Hc.
  - cbn [pr_tok_surf]. rewrite (resub_nomatch m_dollar [32]); [rewrite IH; reflexivity|]. intros ch t [Hc|[]]. subst. reflexivity.
  - cbn [pr_tok_surf]. rewrite (resub_nomatch m_dollar [91]); [rewrite IH; reflexivity|]. intros ch t [Hc|[]]. subst. reflexivity.
  - cbn [pr_tok_surf]. rewrite (resub_nomatch m_dollar [93]); [rewrite IH; reflexivity|]. intros ch t [Hc|[]]. subst. reflexivity.
  - cbn [pr_tok_surf]. rewrite (resub_nomatch m_dollar [44]); [rewrite IH; reflexivity|]. intros ch t [Hc|[]]. subst. reflexivity.
Qed.

Lemma span_space_word : forall x r, x <> [] -> wordy x -> span is_space (x ++ r) = ([], x ++ r).
Proof.
  intros [|c x] r Hne H; [congruence|]. cbn [app span]. inversion H; subst. rewrite (word_not_space c); [reflexivity|assumption].
Qed.

Lemma ident_ne : forall x, ident x -> x <> [].
Proof. intros x H. destruct (ident_nonempty x H) as [c [r [E _]]]. subst. discriminate. Qed.

(* the braced pattern on a printed variable: replaces ${x} by itself *)
Lemma m_braced_var : forall x r, ident x ->
  m_braced (36 :: 123 :: x ++ 125 :: r) = Some (36 :: 123 :: x ++ [125], length (36 :: 123 :: x ++ [125])).
Proof.
  intros x r Hx. pose proof (ident_ne x Hx) as Hne. destruct Hx as [Hx _]. unfold m_braced.
  rewrite (span_space_word x (125 :: r) Hne Hx). rewrite (span_app is_word x 125 r Hx not_word_rbrace).
  cbn [span]. change (is_space 125) with false. cbv iota. destruct x as [|c x]; [congruence|].
  unfold c_dollar, c_lbrace, c_rbrace. f_equal. f_equal. llen.
Qed.

(* pass 2: \${\s*(\w+)\s*} rewrites every ${x} to itself *)
Lemma pass_braced : forall ts, toks_ok ts -> resub m_braced 0 (pr_surf ts) = pr_surf ts.
Proof.
  induction ts as [|t ts IH]; intro H; [reflexivity|]. destruct H as [Ht Hr]. specialize (IH Hr).
  unfold pr_surf. cbn [flat_map]. fold (pr_surf ts).
  destruct t as [l|x w| | | |].
  - cbn [pr_tok_surf]. rewrite resub_nomatch; [rewrite IH; reflexivity|]. intros ch t Hc. apply m_braced_head.
    destruct Ht as [Hp _]. apply (lit_chars l ch Hp) in Hc. apply plain_char in Hc. tauto.
  - destruct Ht as [Hx Hw]. destruct w as [d|]; cbn [pr_tok_surf].
    + replace ((36 :: 123 :: x ++ 125 :: 40 :: d ++ [41]) ++ pr_surf ts)
        with ((36 :: 123 :: x ++ [125]) ++ (40 :: d ++ [41]) ++ pr_surf ts) by (lnorm; reflexivity).
      rewrite (resub_match m_braced (36 :: 123 :: x ++ [125]) _ (36 :: 123 :: x ++ [125])).
      * rewrite resub_nomatch; [rewrite IH; lnorm; reflexivity|].
        intros ch t Hc. apply m_braced_head. split_in Hc; try discriminate.
        apply (digits_In d ch Hw) in Hc. apply word_not_sep in Hc. tauto.
      * discriminate.
      * replace ((36 :: 123 :: x ++ [125]) ++ (40 :: d ++ [41]) ++ pr_surf ts)
          with (36 :: 123 :: x ++ 125 :: ((40 :: d ++ [41]) ++ pr_surf ts)) by (lnorm; reflexivity).
        apply m_braced_var. exact Hx.
    + rewrite (resub_match m_braced (36 :: 123 :: x ++ [125]) _ (36 :: 123 :: x ++ [125])).
      * rewrite IH. reflexivity.
      * discriminate.
      * replace ((36 :: 123 :: x ++ [125]) ++ pr_surf ts) with (36 :: 123 :: x ++ 125 :: pr_surf ts) by (lnorm; reflexivity).
        apply m_braced_var. exact Hx.
  - cbn [pr_tok_surf]. rewrite (resub_nomatch m_braced [32]); [rewrite IH; reflexivity|]. intros ch t [Hc|[]]. subst. reflexivity.
  - cbn [pr_tok_surf]. rewrite (resub_nomatch m_braced [91]); [rewrite IH; reflexivity|]. intros ch t [Hc|[]]. subst. reflexivity.
  - cbn [pr_tok_surf]. rewrite (resub_nomatch m_braced [93]); [rewrite IH; reflexivity|]. intros ch t [Hc|[]]. subst. reflexivity.
  - cbn [pr_tok_surf]. rewrite (resub_nomatch m_braced [44]); [rewrite IH; reflexivity|]. intros ch t [Hc|[]]. subst. reflexivity.
Qed.

Lemma m_fmt_width : forall d r, digits d ->
  m_fmt (125 :: 40 :: d ++ 41 :: r) = Some (46 :: d ++ [125], length (125 :: 40 :: d ++ [41])).
Proof.
  intros d r [Hne Hd]. unfold m_fmt.
  assert (S1 : span is_space (d ++ 41 :: r) = ([], d ++ 41 :: r)).
  { destruct d as [|c d]; [congruence|]. cbn [app span]. inversion Hd; subst.
    rewrite (word_not_space c); [reflexivity|]. apply digit_word. assumption. }
  rewrite S1. assert (N41 : is_digit 41 = false) by reflexivity. rewrite (span_app is_digit d 41 r Hd N41).
  cbn [span]. change (is_space 41) with false. cbv iota. destruct d as [|c d]; [congruence|].
  unfold c_dot, c_rbrace. f_equal. f_equal. llen.
Qed.

Lemma m_fmt_no_paren : forall r, hd_error r <> Some 40 -> m_fmt (125 :: r) = None.
Proof.
  intros [|c r] H; [reflexivity|]. unfold m_fmt. cbn [hd_error] in H.
  destruct c as [|p|p]; try reflexivity. do 6 (destruct p as [p|p|]; try reflexivity). congruence.
Qed.

(* pass 3: \}\(\s*(\d+)\s*\) turns ${x}(d) into ${x.d}; everything else is left alone *)
Lemma pass_fmt : forall ts, toks_ok ts -> resub m_fmt 0 (pr_surf ts) = pr_ints ts.
Proof.
  induction ts as [|t ts IH]; intro H; [reflexivity|]. destruct H as [Ht Hr]. specialize (IH Hr).
  unfold pr_surf, pr_ints. cbn [flat_map]. fold (pr_surf ts). fold (pr_ints ts).
  destruct t as [l|x w| | | |].
  - cbn [pr_tok_surf pr_tok_int]. rewrite resub_nomatch; [rewrite IH; reflexivity|]. intros ch t Hc. apply m_fmt_head.
    destruct Ht as [Hp _]. apply (lit_chars l ch Hp) in Hc. apply plain_char in Hc. tauto.
  - destruct Ht as [Hx Hw]. assert (Hpre : forall ch t, In ch (36 :: 123 :: x) -> m_fmt (ch :: t) = None).
    { intros ch t Hc. apply m_fmt_head. split_in Hc; try discriminate. destruct Hx as [Hx _].
      apply (wordy_In x ch Hx) in Hc. apply word_not_sep in Hc. tauto. }
    destruct w as [d|]; cbn [pr_tok_surf pr_tok_int pr_var].
    + replace ((36 :: 123 :: x ++ 125 :: 40 :: d ++ [41]) ++ pr_surf ts)
        with ((36 :: 123 :: x) ++ (125 :: 40 :: d ++ [41]) ++ pr_surf ts) by (lnorm; reflexivity).
      rewrite resub_nomatch; [|exact Hpre].
      rewrite (resub_match m_fmt (125 :: 40 :: d ++ [41]) _ (46 :: d ++ [125])).
      * rewrite IH. lnorm. reflexivity.
      * discriminate.
      * replace ((125 :: 40 :: d ++ [41]) ++ pr_surf ts) with (125 :: 40 :: d ++ 41 :: pr_surf ts) by (lnorm; reflexivity).
        apply m_fmt_width. exact Hw.
    + replace ((36 :: 123 :: x ++ [125]) ++ pr_surf ts) with ((36 :: 123 :: x) ++ 125 :: [] ++ pr_surf ts) by (lnorm; reflexivity).
      rewrite resub_nomatch; [|exact Hpre].
      rewrite resub_cons_nomatch.
      * rewrite IH. lnorm. reflexivity.
      * cbn [app]. apply m_fmt_no_paren. rewrite first_of_surf; [|exact Hr]. apply first_of_not_paren. exact Hr.
      * intros ch t [].
  - cbn [pr_tok_surf pr_tok_int]. rewrite (resub_nomatch m_fmt [32]); [rewrite IH; reflexivity|]. intros ch t [Hc|[]]. subst. reflexivity.
  - cbn [pr_tok_surf pr_tok_int]. rewrite (resub_nomatch m_fmt [91]); [rewrite IH; reflexivity|]. intros ch t [Hc|[]]. subst. reflexivity.
  - cbn [pr_tok_surf pr_tok_int]. rewrite (resub_nomatch m_fmt [93]); [rewrite IH; reflexivity|]. intros ch t [Hc|[]]. subst. reflexivity.
  - cbn [pr_tok_surf pr_tok_int]. rewrite (resub_nomatch m_fmt [44]); [rewrite IH; reflexivity|]. intros ch t [Hc|[]]. subst. reflexivity.
Qed.

Lemma int_tok_chars : forall t n ch, tok_ok t n -> (match t with KLit _ | KVar _ _ => True | _ => False end) ->
  In ch (pr_tok_int t) -> is_space ch = false /\ ch <> 91 /\ ch <> 93 /\ ch <> 44.
Proof.
  intros t n ch Ht Hk Hin. destruct t as [l|x w| | | |]; try contradiction; cbn [pr_tok_int] in Hin.
  - destruct Ht as [Hp _]. apply (lit_chars l ch Hp) in Hin. apply plain_char in Hin. tauto.
  - apply (var_chars_int x w ch Ht) in Hin.
    destruct Hin as [E|[E|[E|[E|E]]]]; try (subst; repeat split; (reflexivity || discriminate)).
    pose proof (word_not_space ch E). pose proof (word_not_sep ch E). tauto.
Qed.

Lemma hd_error_cons : forall (l : str) ch, hd_error l = Some ch -> exists r, l = ch :: r.
Proof. intros [|c l] ch H; [discriminate|]. inversion H; subst. eauto. Qed.

Lemma after_sep_facts : forall ch, after_sep ch = true -> is_space ch = false /\ ch <> 93 /\ ch <> 44.
Proof.
  intros ch H. unfold after_sep in H. apply andb_true_iff in H. destruct H as [H H3]. apply andb_true_iff in H. destruct H as [H1 H2].
  apply negb_true_iff in H1, H2, H3. apply Z.eqb_neq in H2, H3. auto.
Qed.

(* the printed rest after a separator token starts with a character that is neither white space nor "]" nor "," *)
Lemma sep_next : forall ts n, toks_ok ts -> (exists ch, first_of ts = Some ch /\ after_sep ch = true) -> n = first_of ts ->
  exists ch r, pr_ints ts = ch :: r /\ is_space ch = false /\ ch <> 93 /\ ch <> 44.
Proof.
  intros ts n Hr [ch [F A]] _. rewrite <- (first_of_int ts Hr) in F. destruct (hd_error_cons _ _ F) as [r E].
  exists ch, r. split; [exact E|]. apply after_sep_facts. exact A.
Qed.

(* passes 4-6 leave the normalised text alone: no blank follows "[" or ",", none precedes "]" or "," *)
Lemma pass_lbrack : forall ts, toks_ok ts -> resub m_lbrack 0 (pr_ints ts) = pr_ints ts.
Proof.
  induction ts as [|t ts IH]; intro H; [reflexivity|]. destruct H as [Ht Hr]. specialize (IH Hr).
  unfold pr_ints. cbn [flat_map]. fold (pr_ints ts).
  destruct t as [l|x w| | | |].
  - rewrite resub_nomatch; [rewrite IH; reflexivity|]. intros ch t Hc. apply m_lbrack_head.
    apply (int_tok_chars (KLit l) _ ch Ht I) in Hc. tauto.
  - rewrite resub_nomatch; [rewrite IH; reflexivity|]. intros ch t Hc. apply m_lbrack_head.
    apply (int_tok_chars (KVar x w) _ ch Ht I) in Hc. tauto.
  - cbn [pr_tok_int]. rewrite (resub_nomatch m_lbrack [32]); [rewrite IH; reflexivity|]. intros ch t [Hc|[]]. subst. reflexivity.
  - cbn [pr_tok_int]. destruct (sep_next ts _ Hr Ht eq_refl) as [ch [r [E [S1 _]]]].
    rewrite (resub_match m_lbrack [91] (pr_ints ts) [91]).
    + rewrite IH. reflexivity.
    + discriminate.
    + cbn [app]. unfold m_lbrack. rewrite E. cbn [span]. rewrite S1. reflexivity.
  - cbn [pr_tok_int]. rewrite (resub_nomatch m_lbrack [93]); [rewrite IH; reflexivity|]. intros ch t [Hc|[]]. subst. reflexivity.
  - cbn [pr_tok_int]. rewrite (resub_nomatch m_lbrack [44]); [rewrite IH; reflexivity|]. intros ch t [Hc|[]]. subst. reflexivity.
Qed.

Lemma pass_rbrack : forall ts, toks_ok ts -> resub m_rbrack 0 (pr_ints ts) = pr_ints ts.
Proof.
  induction ts as [|t ts IH]; intro H; [reflexivity|]. destruct H as [Ht Hr]. specialize (IH Hr).
  unfold pr_ints. cbn [flat_map]. fold (pr_ints ts).
  destruct t as [l|x w| | | |].
  - rewrite resub_nomatch; [rewrite IH; reflexivity|]. intros ch t Hc.
    apply (int_tok_chars (KLit l) _ ch Ht I) in Hc. apply m_rbrack_head; tauto.
  - rewrite resub_nomatch; [rewrite IH; reflexivity|]. intros ch t Hc.
    apply (int_tok_chars (KVar x w) _ ch Ht I) in Hc. apply m_rbrack_head; tauto.
  - cbn [pr_tok_int]. destruct (sep_next ts _ Hr Ht eq_refl) as [ch [r [E [S1 [S2 _]]]]].
    change ([32] ++ pr_ints ts) with (32 :: [] ++ pr_ints ts). rewrite resub_cons_nomatch.
    + rewrite IH. reflexivity.
    + cbn [app]. unfold m_rbrack. rewrite E. cbn [span]. change (is_space 32) with true. cbv iota. rewrite S1.
      destruct ch as [|p|p]; try reflexivity. do 7 (destruct p as [p|p|]; try reflexivity). congruence.
    + intros c t [].
  - cbn [pr_tok_int]. rewrite (resub_nomatch m_rbrack [91]); [rewrite IH; reflexivity|]. intros ch t [Hc|[]]. subst. reflexivity.
  - cbn [pr_tok_int]. rewrite (resub_match m_rbrack [93] (pr_ints ts) [93]).
    + rewrite IH. reflexivity.
    + discriminate.
    + reflexivity.
  - cbn [pr_tok_int]. rewrite (resub_nomatch m_rbrack [44]); [rewrite IH; reflexivity|]. intros ch t [Hc|[]]. subst. reflexivity.
Qed.

Lemma pass_comma : forall ts, toks_ok ts -> resub m_comma 0 (pr_ints ts) = pr_ints ts.
Proof.
  induction ts as [|t ts IH]; intro H; [reflexivity|]. destruct H as [Ht Hr]. specialize (IH Hr).
  unfold pr_ints. cbn [flat_map]. fold (pr_ints ts).
  destruct t as [l|x w| | | |].
  - rewrite resub_nomatch; [rewrite IH; reflexivity|]. intros ch t Hc.
    apply (int_tok_chars (KLit l) _ ch Ht I) in Hc. apply m_comma_head; tauto.
  - rewrite resub_nomatch; [rewrite IH; reflexivity|]. intros ch t Hc.
    apply (int_tok_chars (KVar x w) _ ch Ht I) in Hc. apply m_comma_head; tauto.
  - cbn [pr_tok_int]. destruct (sep_next ts _ Hr Ht eq_refl) as [ch [r [E [S1 [_ S3]]]]].
    change ([32] ++ pr_ints ts) with (32 :: [] ++ pr_ints ts). rewrite resub_cons_nomatch.
    + rewrite IH. reflexivity.
    + cbn [app]. unfold m_comma. rewrite E. cbn [span]. change (is_space 32) with true. cbv iota. rewrite S1.
      destruct ch as [|p|p]; try reflexivity. do 6 (destruct p as [p|p|]; try reflexivity). congruence.
    + intros c t [].
  - cbn [pr_tok_int]. rewrite (resub_nomatch m_comma [91]); [rewrite IH; reflexivity|]. intros ch t [Hc|[]]. subst. reflexivity.
  - cbn [pr_tok_int]. rewrite (resub_nomatch m_comma [93]); [rewrite IH; reflexivity|]. intros ch t [Hc|[]]. subst. reflexivity.
  - cbn [pr_tok_int]. destruct (sep_next ts _ Hr Ht eq_refl) as [ch [r [E [S1 _]]]].
    rewrite (resub_match m_comma [44] (pr_ints ts) [44]).
    + rewrite IH. reflexivity.
    + discriminate.
    + cbn [app]. unfold m_comma. cbn [span]. change (is_space 44) with false. cbv iota. rewrite E. cbn [span]. rewrite S1. reflexivity.
Qed.

(* --- templates of the documented grammar and their token lists --- *)
Definition seg_tok (s : seg) : tok := match s with SLit l => KLit l | SVar x w => KVar x w end.
Definition name_toks (n : name_t) : list tok := map seg_tok n.

(* for M7 literal runs are non-empty and names are non-empty *)
Definition wf_seg1 (s : seg) : Prop := wf_seg s /\ match s with SLit l => l <> [] | SVar _ _ => True end.
Definition wf_name1 (n : name_t) : Prop := Forall wf_seg1 n /\ n <> [].

(* pre[alt0,alts...]post *)
Record wildcard := { w_pre : name_t; w_alt0 : name_t; w_alts : list name_t; w_post : name_t }.
Definition wild_toks (w : wildcard) : list tok :=
  name_toks (w_pre w) ++ KLb :: name_toks (w_alt0 w) ++ flat_map (fun a => KCm :: name_toks a) (w_alts w) ++ KRb :: name_toks (w_post w).
Definition wf_wild (w : wildcard) : Prop :=
  Forall wf_seg1 (w_pre w) /\ wf_name1 (w_alt0 w) /\ Forall wf_name1 (w_alts w) /\ Forall wf_seg1 (w_post w).

(* items separated by one blank *)
Definition join_items (items : list (list tok)) : list tok :=
  match items with [] => [] | i :: r => i ++ flat_map (fun j => KSp :: j) r end.
Definition template_items (static : list name_t) (wild : option wildcard) : list (list tok) :=
  map name_toks static ++ match wild with Some w => [wild_toks w] | None => [] end.
Definition template_toks (static : list name_t) (wild : option wildcard) : list tok := join_items (template_items static wild).

(* the files parseFilenames must produce *)
Definition wild_alts (w : wildcard) : list str :=
  map (fun a => pr_int (w_pre w ++ a ++ w_post w)) (w_alt0 w :: w_alts w).
Definition template_files (static : list name_t) (wild : option wildcard) : list fileent :=
  map (fun n => FStr (pr_int n)) static ++ match wild with Some w => [FList (wild_alts w)] | None => [] end.

Lemma pr_ints_app : forall a b, pr_ints (a ++ b) = pr_ints a ++ pr_ints b.
Proof. intros. unfold pr_ints. apply flat_map_app. Qed.
Lemma pr_surf_app : forall a b, pr_surf (a ++ b) = pr_surf a ++ pr_surf b.
Proof. intros. unfold pr_surf. apply flat_map_app. Qed.
Lemma pr_ints_name : forall n, pr_ints (name_toks n) = pr_int n.
Proof.
  induction n as [|s n IH]; [reflexivity|]. unfold pr_ints, pr_int, name_toks in *. cbn [map flat_map]. rewrite IH.
  destruct s; reflexivity.
Qed.
Lemma pr_int_app : forall a b, pr_int (a ++ b) = pr_int a ++ pr_int b.
Proof. intros. unfold pr_int. apply flat_map_app. Qed.

Lemma seg_tok_ok : forall s n, wf_seg1 s -> tok_ok (seg_tok s) n.
Proof. intros [l|x w] n [H1 H2]; cbn [seg_tok tok_ok wf_seg] in *; auto. Qed.

Lemma toks_ok_name_app : forall n r, Forall wf_seg1 n -> toks_ok r -> toks_ok (name_toks n ++ r).
Proof.
  intros n r H Hr. induction H as [|s n Hs H IH]; [exact Hr|]. cbn [name_toks map app toks_ok].
  split; [apply seg_tok_ok; exact Hs | exact IH].
Qed.

(* the first character of a non-empty name may follow a separator *)
Lemma first_of_name : forall n r, wf_name1 n -> exists ch, first_of (name_toks n ++ r) = Some ch /\ after_sep ch = true.
Proof.
  intros [|s n] r [H Hne]; [congruence|]. inversion H as [|? ? Hs _]; subst. destruct s as [l|x w]; cbn [name_toks map seg_tok app first_of].
  - destruct Hs as [Hp Hl]. destruct l as [|c l]; [congruence|]. exists c. split; [reflexivity|].
    cbn [wf_seg] in Hp. inversion Hp; subst. pose proof (plain_char c H2) as P. unfold after_sep.
    destruct P as [_ [_ [_ [_ [_ [_ [P1 [P2 P3]]]]]]]]. rewrite P3. apply Z.eqb_neq in P1, P2. rewrite P1, P2. reflexivity.
  - exists 36. split; reflexivity.
Qed.

Lemma first_of_opt_name : forall n r ch0, Forall wf_seg1 n -> first_of r = Some ch0 -> after_sep ch0 = true ->
  exists ch, first_of (name_toks n ++ r) = Some ch /\ after_sep ch = true.
Proof.
  intros [|s n] r ch0 H F A; [exists ch0; auto|]. apply first_of_name. split; [exact H|discriminate].
Qed.

Lemma toks_ok_alts : forall alts r, Forall wf_name1 alts -> toks_ok r ->
  toks_ok (flat_map (fun a => KCm :: name_toks a) alts ++ r).
Proof.
  intros alts r H Hr. induction H as [|a alts Ha H IH]; [exact Hr|]. cbn [flat_map]. rewrite <- app_assoc. cbn [app toks_ok].
  split.
  - cbn [tok_ok]. apply first_of_name. exact Ha.
  - apply toks_ok_name_app; [apply Ha | exact IH].
Qed.

Lemma toks_ok_wild : forall w r, wf_wild w -> toks_ok r -> toks_ok (wild_toks w ++ r).
Proof.
  intros w r [Hpre [Ha0 [Halts Hpost]]] Hr. unfold wild_toks. rewrite <- app_assoc. apply toks_ok_name_app; [exact Hpre|].
  cbn [app toks_ok]. split.
  - cbn [tok_ok]. rewrite <- app_assoc. apply first_of_name. exact Ha0.
  - rewrite <- app_assoc. apply toks_ok_name_app; [apply Ha0|]. rewrite <- app_assoc. apply toks_ok_alts; [exact Halts|].
    cbn [app toks_ok]. split; [exact I|]. apply toks_ok_name_app; assumption.
Qed.

Lemma first_of_wild : forall w r, wf_wild w -> exists ch, first_of (wild_toks w ++ r) = Some ch /\ after_sep ch = true.
Proof.
  intros w r [Hpre _]. unfold wild_toks. rewrite <- app_assoc.
  apply (first_of_opt_name (w_pre w) _ 91 Hpre); reflexivity.
Qed.

Definition item_ok (i : list tok) : Prop := (exists n, wf_name1 n /\ i = name_toks n) \/ (exists w, wf_wild w /\ i = wild_toks w).

Lemma item_toks_ok : forall i r, item_ok i -> toks_ok r -> toks_ok (i ++ r).
Proof.
  intros i r [[n [H E]]|[w [H E]]] Hr; subst.
  - apply toks_ok_name_app; [apply H | exact Hr].
  - apply toks_ok_wild; assumption.
Qed.
Lemma item_first : forall i r, item_ok i -> exists ch, first_of (i ++ r) = Some ch /\ after_sep ch = true.
Proof. intros i r [[n [H E]]|[w [H E]]]; subst; [apply first_of_name | apply first_of_wild]; exact H. Qed.

Lemma toks_ok_items : forall items, Forall item_ok items -> toks_ok (flat_map (fun j => KSp :: j) items).
Proof.
  intros items H. induction H as [|i items Hi H IH]; [exact I|]. cbn [flat_map app toks_ok]. split.
  - cbn [tok_ok]. apply item_first. exact Hi.
  - apply item_toks_ok; assumption.
Qed.

Lemma template_items_ok : forall static wild, Forall wf_name1 static -> (match wild with Some w => wf_wild w | None => True end) ->
  Forall item_ok (template_items static wild).
Proof.
  intros static wild Hs Hw. unfold template_items. apply Forall_app. split.
  - apply Forall_forall. intros i Hi. apply in_map_iff in Hi. destruct Hi as [n [E Hn]]. left. exists n. split; [|auto].
    rewrite Forall_forall in Hs. apply Hs. exact Hn.
  - destruct wild as [w|]; [|constructor]. constructor; [|constructor]. right. exists w. auto.
Qed.

Theorem template_toks_ok : forall static wild, Forall wf_name1 static -> (match wild with Some w => wf_wild w | None => True end) ->
  toks_ok (template_toks static wild).
Proof.
  intros static wild Hs Hw. pose proof (template_items_ok static wild Hs Hw) as H. unfold template_toks, join_items.
  destruct (template_items static wild) as [|i items]; [exact I|]. inversion H; subst.
  apply item_toks_ok; [assumption|]. apply toks_ok_items. assumption.
Qed.

(* the six substitutions turn the printed template into its normalised text *)
Theorem normalise_passes : forall ts, toks_ok ts ->
  resub m_comma 0 (resub m_rbrack 0 (resub m_lbrack 0 (resub m_fmt 0 (resub m_braced 0 (resub m_dollar 0 (pr_surf ts)))))) = pr_ints ts.
Proof.
  intros ts H. rewrite (pass_dollar ts H), (pass_braced ts H), (pass_fmt ts H), (pass_lbrack ts H), (pass_rbrack ts H). apply pass_comma. exact H.
Qed.

(* --- str.strip() leaves the printed template alone --- *)
Fixpoint last_ok (ts : list tok) : Prop :=
  match ts with
  | [] => False
  | [t] => match t with KLit _ | KVar _ _ | KRb => True | _ => False end
  | _ :: r => last_ok r
  end.

Lemma last_ok_app : forall a b, last_ok b -> last_ok (a ++ b).
Proof.
  induction a as [|t a IH]; intros b H; [exact H|]. cbn [app]. specialize (IH b H).
  destruct (a ++ b) as [|t' r] eqn:E; [destruct IH|]. exact IH.
Qed.

Lemma last_ok_name : forall n, wf_name1 n -> last_ok (name_toks n).
Proof.
  intros n [H Hne]. induction n as [|s n IH]; [congruence|]. cbn [name_toks map].
  destruct n as [|s' n'].
  - destruct s; exact I.
  - inversion H; subst. apply (last_ok_app [seg_tok s]). apply IH; [assumption|discriminate].
Qed.

Lemma last_ok_opt_name : forall n t, Forall wf_seg1 n -> (match t with KLit _ | KVar _ _ | KRb => True | _ => False end) ->
  last_ok (t :: name_toks n).
Proof.
  intros [|s n] t H Ht; [exact Ht|]. apply (last_ok_app [t]). apply last_ok_name. split; [exact H|discriminate].
Qed.

Lemma last_ok_item : forall i, item_ok i -> last_ok i.
Proof.
  intros i [[n [H E]]|[w [H E]]]; subst; [apply last_ok_name; exact H|].
  unfold wild_toks. apply last_ok_app. apply (last_ok_app [KLb]). apply last_ok_app. apply last_ok_app.
  apply last_ok_opt_name; [apply H | exact I].
Qed.

Lemma last_ok_items : forall items i, Forall item_ok (i :: items) -> last_ok (join_items (i :: items)).
Proof.
  intros items. induction items as [|j items IH]; intros i H; cbn [join_items flat_map].
  - rewrite app_nil_r. inversion H; subst. apply last_ok_item. assumption.
  - inversion H as [|? ? Hi H']; subst. apply last_ok_app. apply (last_ok_app [KSp]).
    specialize (IH j H'). cbn [join_items] in IH. exact IH.
Qed.

Lemma last_char : forall ts, toks_ok ts -> last_ok ts -> exists pre c, pr_surf ts = pre ++ [c] /\ is_space c = false.
Proof.
  induction ts as [|t ts IH]; intros H L; [destruct L|]. destruct ts as [|t' r].
  - destruct H as [Ht _]. unfold pr_surf. cbn [flat_map]. rewrite app_nil_r. destruct t as [l|x [d|]| | | |]; try destruct L; cbn [pr_tok_surf].
    + destruct Ht as [Hp Hne]. destruct (exists_last Hne) as [l' [c E]]. subst l. exists l', c. split; [reflexivity|].
      assert (Hc : In c (l' ++ [c])) by (apply in_or_app; right; left; reflexivity).
      apply (lit_chars _ c Hp) in Hc. apply plain_char in Hc. tauto.
    + exists (36 :: 123 :: x ++ 125 :: 40 :: d), 41. split; [lnorm; reflexivity | reflexivity].
    + exists (36 :: 123 :: x), 125. split; reflexivity.
    + exists [], 93. split; reflexivity.
  - destruct H as [_ Hr]. destruct (IH Hr L) as [pre [c [E Hc]]]. exists (pr_tok_surf t ++ pre), c.
    split; [|exact Hc]. unfold pr_surf in *. cbn [flat_map] in *. rewrite E. rewrite app_assoc. reflexivity.
Qed.

Lemma dropspace_id : forall s, (forall c r, s = c :: r -> is_space c = false) -> dropspace s = s.
Proof.
  intros [|c r] H; [reflexivity|]. unfold dropspace. cbn [span]. rewrite (H c r eq_refl). reflexivity.
Qed.

Lemma strip_printed : forall i items, Forall item_ok (i :: items) ->
  strip (pr_surf (join_items (i :: items))) = pr_surf (join_items (i :: items)).
Proof.
  intros i items H.
  assert (Hok : toks_ok (join_items (i :: items))).
  { cbn [join_items]. inversion H; subst. apply item_toks_ok; [assumption|]. apply toks_ok_items. assumption. }
  destruct (last_char _ Hok (last_ok_items items i H)) as [pre [c [E Hc]]].
  assert (Hfirst : forall c0 r0, pr_surf (join_items (i :: items)) = c0 :: r0 -> is_space c0 = false).
  { intros c0 r0 E0. pose proof (first_of_surf _ Hok) as F. rewrite E0 in F. cbn [hd_error] in F.
    cbn [join_items] in F. inversion H; subst. destruct (item_first i (flat_map (fun j => KSp :: j) items) H2) as [ch [F1 A]].
    rewrite F1 in F. inversion F; subst. apply after_sep_facts in A. tauto. }
  unfold strip. rewrite (dropspace_id _ Hfirst). rewrite E. rewrite rev_app_distr. cbn [rev app].
  rewrite dropspace_id.
  - cbn [rev]. rewrite rev_involutive. reflexivity.
  - intros c0 r0 E0. inversion E0; subst. exact Hc.
Qed.

(* --- the character loop on the normalised text --- *)
Definition ordinary (s : str) : Prop := Forall (fun ch => is_space ch = false /\ ch <> 91 /\ ch <> 93 /\ ch <> 44) s.

Lemma ordinary_name : forall n, Forall wf_seg1 n -> ordinary (pr_int n).
Proof.
  intros n H. unfold ordinary. apply Forall_forall. intros ch Hc. unfold pr_int in Hc. apply in_flat_map in Hc.
  destruct Hc as [s [Hs Hc]]. rewrite Forall_forall in H. specialize (H s Hs).
  apply (int_tok_chars (seg_tok s) None ch (seg_tok_ok s None H)).
  - destruct s; exact I.
  - destruct s; exact Hc.
Qed.

Definition ent_adds (e : fileent) (o : str) : fileent :=
  match e with FStr s => FStr (s ++ o) | FList l => FList (map (fun x => x ++ o) l) end.

Lemma ent_add_adds : forall e c o, ent_adds (ent_add e c) o = ent_adds e (c :: o).
Proof.
  intros [s|l] c o; cbn [ent_add ent_adds].
  - rewrite <- app_assoc. reflexivity.
  - rewrite map_map. f_equal. apply map_ext. intro x. rewrite <- app_assoc. reflexivity.
Qed.

Lemma ent_adds_nil : forall e, ent_adds e [] = e.
Proof.
  intros [s|l]; cbn [ent_adds]; [rewrite app_nil_r; reflexivity|]. f_equal. rewrite <- (map_id l) at 2. apply map_ext. intro x. apply app_nil_r.
Qed.

Lemma parse_outer_ordinary : forall o cur done r, ordinary o ->
  parse_loop POuter cur done (o ++ r) = parse_loop POuter (ent_adds cur o) done r.
Proof.
  induction o as [|c o IH]; intros cur done r H; cbn [app].
  - rewrite ent_adds_nil. reflexivity.
  - inversion H as [|? ? [H1 [H2 _]] H']; subst. cbn [parse_loop]. rewrite H1.
    assert (E : (c =? c_lbrack) = false) by (apply Z.eqb_neq; exact H2). rewrite E.
    rewrite IH; [|exact H']. rewrite ent_add_adds. reflexivity.
Qed.

Lemma parse_inner_ordinary : forall o opt opts base cur done r, ordinary o ->
  parse_loop (PInner (opt :: opts) base) cur done (o ++ r) = parse_loop (PInner ((opt ++ o) :: opts) base) cur done r.
Proof.
  induction o as [|c o IH]; intros opt opts base cur done r H; cbn [app].
  - rewrite app_nil_r. reflexivity.
  - inversion H as [|? ? [_ [_ [H3 H4]]] H']; subst. cbn [parse_loop].
    assert (E1 : (c =? c_comma) = false) by (apply Z.eqb_neq; exact H4).
    assert (E2 : (c =? c_rbrack) = false) by (apply Z.eqb_neq; exact H3). rewrite E1, E2.
    rewrite IH; [|exact H']. rewrite <- app_assoc. reflexivity.
Qed.

Lemma parse_inner_alts : forall alts opt opts base cur done r, Forall wf_name1 alts ->
  parse_loop (PInner (opt :: opts) base) cur done (flat_map (fun a => 44 :: pr_int a) alts ++ 93 :: r) =
  parse_loop POuter (close_options (rev (map (fun a => base ++ pr_int a) alts) ++ opt :: opts)) done r.
Proof.
  induction alts as [|a alts IH]; intros opt opts base cur done r H; cbn [flat_map map rev app].
  - cbn [parse_loop]. reflexivity.
  - inversion H as [|? ? Ha H']; subst. rewrite <- app_assoc. cbn [app parse_loop].
    change (44 =? c_comma) with true. cbv iota. rewrite <- app_assoc.
    rewrite parse_inner_ordinary; [|apply ordinary_name; apply Ha].
    rewrite IH; [|exact H']. reflexivity.
Qed.

Lemma pr_ints_alts : forall alts, pr_ints (flat_map (fun a => KCm :: name_toks a) alts) = flat_map (fun a => 44 :: pr_int a) alts.
Proof.
  induction alts as [|a alts IH]; [reflexivity|]. cbn [flat_map]. rewrite pr_ints_app. rewrite IH.
  unfold pr_ints at 1. cbn [flat_map pr_tok_int]. fold (pr_ints (name_toks a)). rewrite pr_ints_name. reflexivity.
Qed.

Lemma pr_int_nonempty : forall n, wf_name1 n -> pr_int n <> [].
Proof.
  intros [|s n] [H Hne]; [congruence|]. inversion H as [|? ? Hs _]; subst. unfold pr_int. cbn [flat_map].
  destruct s as [l|x w]; cbn [pr_int_seg].
  - destruct Hs as [_ Hl]. destruct l; [congruence|discriminate].
  - destruct w; discriminate.
Qed.

Lemma filter_nonempty_id : forall l : list str, Forall (fun s => s <> []) l -> filter nonempty l = l.
Proof.
  intros l H. induction H as [|s l Hs H IH]; [reflexivity|]. cbn [filter]. destruct s; [congruence|]. cbn [nonempty]. rewrite IH. reflexivity.
Qed.

(* what one item parses to *)
Definition item_spec (i : list tok) (e : fileent) : Prop :=
  (exists n, wf_name1 n /\ i = name_toks n /\ e = FStr (pr_int n)) \/
  (exists w, wf_wild w /\ i = wild_toks w /\ e = FList (wild_alts w)).

Lemma parse_item : forall i e done r, item_spec i e ->
  parse_loop POuter (FStr []) done (pr_ints i ++ r) = parse_loop POuter e done r.
Proof.
  intros i e done r [[n [H [Ei Ee]]]|[w [H [Ei Ee]]]]; subst.
  - rewrite pr_ints_name. rewrite parse_outer_ordinary; [reflexivity|]. apply ordinary_name. apply H.
  - destruct H as [Hpre [Ha0 [Halts Hpost]]]. unfold wild_toks.
    rewrite pr_ints_app, pr_ints_name. rewrite <- app_assoc.
    rewrite parse_outer_ordinary; [|apply ordinary_name; exact Hpre]. cbn [ent_adds app].
    change (pr_ints (KLb :: name_toks (w_alt0 w) ++ flat_map (fun a => KCm :: name_toks a) (w_alts w) ++ KRb :: name_toks (w_post w)))
      with (91 :: pr_ints (name_toks (w_alt0 w) ++ flat_map (fun a => KCm :: name_toks a) (w_alts w) ++ KRb :: name_toks (w_post w))).
    cbn [app parse_loop]. change (is_space 91) with false. change (91 =? c_lbrack) with true. cbv iota.
    rewrite pr_ints_app, pr_ints_name, pr_ints_app, pr_ints_alts.
    change (pr_ints (KRb :: name_toks (w_post w))) with (93 :: pr_ints (name_toks (w_post w))). rewrite pr_ints_name.
    repeat rewrite <- app_assoc.
    rewrite parse_inner_ordinary; [|apply ordinary_name; apply Ha0].
    cbn [app]. rewrite parse_inner_alts; [|exact Halts].
    rewrite parse_outer_ordinary; [|apply ordinary_name; exact Hpost].
    f_equal. unfold close_options. rewrite rev_app_distr, rev_involutive. cbn [rev app].
    rewrite filter_nonempty_id.
    + unfold wild_alts. cbn [ent_adds map]. f_equal. f_equal.
      * rewrite !pr_int_app. rewrite <- app_assoc. reflexivity.
      * rewrite map_map. apply map_ext. intro a. rewrite !pr_int_app. rewrite <- app_assoc. reflexivity.
    + constructor.
      * intro E. apply app_eq_nil in E. destruct E as [_ E]. revert E. apply pr_int_nonempty. exact Ha0.
      * apply Forall_forall. intros s Hs. apply in_map_iff in Hs. destruct Hs as [a [E Ha]]. subst s.
        intro E. apply app_eq_nil in E. destruct E as [_ E]. revert E. apply pr_int_nonempty.
        rewrite Forall_forall in Halts. apply Halts. exact Ha.
Qed.

Lemma parse_rest : forall items ents cur done, Forall2 item_spec items ents ->
  parse_loop POuter cur done (pr_ints (flat_map (fun j => KSp :: j) items)) = Some (rev done ++ cur :: ents).
Proof.
  intros items ents cur done H. revert cur done. induction H as [|i e items ents Hi H IH]; intros cur done.
  - cbn [flat_map]. unfold pr_ints. cbn [flat_map parse_loop rev]. reflexivity.
  - cbn [flat_map]. change (pr_ints ((KSp :: i) ++ flat_map (fun j => KSp :: j) items))
      with (32 :: pr_ints (i ++ flat_map (fun j => KSp :: j) items)).
    cbn [parse_loop]. change (is_space 32) with true. cbv iota. rewrite pr_ints_app.
    rewrite (parse_item i e (cur :: done) _ Hi). rewrite IH. cbn [rev]. rewrite <- app_assoc. reflexivity.
Qed.

Lemma template_items_spec : forall static wild, Forall wf_name1 static -> (match wild with Some w => wf_wild w | None => True end) ->
  Forall2 item_spec (template_items static wild) (template_files static wild).
Proof.
  intros static wild Hs Hw. unfold template_items, template_files. apply Forall2_app.
  - induction Hs as [|n static Hn Hs IH]; cbn [map]; constructor; [|exact IH]. left. exists n. auto.
  - destruct wild as [w|]; constructor; [|constructor]. right. exists w. auto.
Qed.

Lemma item_spec_nonempty : forall i e, item_spec i e -> ent_nonempty e = true.
Proof.
  intros i e [[n [H [_ E]]]|[w [H [_ E]]]]; subst; cbn [ent_nonempty].
  - pose proof (pr_int_nonempty n H). destruct (pr_int n); [congruence|reflexivity].
  - reflexivity.
Qed.

(* M7 *)
Theorem parse_print_template : forall static wild,
  Forall wf_name1 static -> (match wild with Some w => wf_wild w | None => True end) ->
  parse_filenames (pr_surf (template_toks static wild)) = Some (template_files static wild).
Proof.
  intros static wild Hs Hw. pose proof (template_items_spec static wild Hs Hw) as Sp.
  pose proof (template_items_ok static wild Hs Hw) as Ok. pose proof (template_toks_ok static wild Hs Hw) as Tok.
  unfold parse_filenames, normalise, template_toks in *.
  destruct (template_items static wild) as [|i items] eqn:E.
  - inversion Sp; subst. reflexivity.
  - rewrite (strip_printed i items Ok). rewrite (normalise_passes _ Tok).
    inversion Sp as [|? e ? ents Hi Hrest]; subst. cbn [join_items]. rewrite pr_ints_app.
    rewrite (parse_item i e [] _ Hi). rewrite (parse_rest items ents e [] Hrest). cbn [rev app].
    f_equal. assert (F : Forall (fun e => ent_nonempty e = true) (e :: ents)).
    { constructor; [eapply item_spec_nonempty; eassumption|]. clear -Hrest. induction Hrest; constructor; [eapply item_spec_nonempty; eassumption|assumption]. }
    clear -F. induction F as [|x l Hx F IH]; [reflexivity|]. cbn [filter]. rewrite Hx, IH. reflexivity.
Qed.

(* a template of the documented grammar that meets the hypotheses of M7: index [${id},sect${num}(4)] *)
Example parse_print_example :
  let static := [[SLit [105;110;100;101;120]]] in
  let w := {| w_pre := []; w_alt0 := [SVar [105;100] None]; w_alts := [[SLit [115;101;99;116]; SVar k_num (Some [52])]]; w_post := [] |} in
  pr_surf (template_toks static (Some w)) =
    [105;110;100;101;120;32;91;36;123;105;100;125;44;115;101;99;116;36;123;110;117;109;125;40;52;41;93] /\
  template_files static (Some w) =
    [FStr [105;110;100;101;120]; FList [[36;123;105;100;125]; [115;101;99;116;36;123;110;117;109;46;52;125]]].
Proof. vm_compute. split; reflexivity. Qed.

(* ------------------------------------------------------------------------------------------------ *)
(* M5 : the extension *)

Lemma rfind_from_spec : forall c s i acc,
  (~ In c s /\ rfind_from c s i acc = acc) \/
  (exists a b, s = a ++ c :: b /\ ~ In c b /\ rfind_from c s i acc = i + Z.of_nat (length a)).
Proof.
  intros c s. induction s as [|x s IH]; intros i acc; cbn [rfind_from].
  - left. split; [intros []|reflexivity].
  - destruct (IH (i + 1) (if x =? c then i else acc)) as [[Hn E]|[a [b [E1 [Hn E2]]]]].
    + destruct (x =? c) eqn:Ex.
      * apply Z.eqb_eq in Ex. subst x. right. exists [], s. cbn [app length]. repeat split; [exact Hn | rewrite E; lia].
      * left. split; [|exact E]. intros [H|H]; [apply Z.eqb_neq in Ex; congruence | contradiction].
    + right. exists (x :: a), b. subst s. cbn [app length]. repeat split; [exact Hn|]. rewrite E2. lia.
Qed.

Lemma last_occurrence_unique : forall (c : Z) a b a' b',
  a ++ c :: b = a' ++ c :: b' -> ~ In c b -> ~ In c b' -> a = a'.
Proof.
  intros c a. induction a as [|x a IH]; intros b a' b' E Hb Hb'.
  - destruct a' as [|y a']; [reflexivity|]. cbn [app] in E. inversion E; subst. exfalso. apply Hb. apply in_or_app. right. left. reflexivity.
  - destruct a' as [|y a'].
    + cbn [app] in E. inversion E; subst. exfalso. apply Hb'. apply in_or_app. right. left. reflexivity.
    + cbn [app] in E. inversion E; subst. f_equal. eapply IH; eauto.
Qed.

Lemma rfind_last : forall c a b, ~ In c b -> rfind c (a ++ c :: b) = Z.of_nat (length a).
Proof.
  intros c a b Hb. unfold rfind. destruct (rfind_from_spec c (a ++ c :: b) 0 (-1)) as [[Hn _]|[a' [b' [E [Hb' R]]]]].
  - exfalso. apply Hn. apply in_or_app. right. left. reflexivity.
  - rewrite R. rewrite (last_occurrence_unique c a b a' b' E Hb Hb'). lia.
Qed.

Lemma rfind_none : forall c s, ~ In c s -> rfind c s = -1.
Proof.
  intros c s H. unfold rfind. destruct (rfind_from_spec c s 0 (-1)) as [[_ E]|[a [b [E _]]]]; [exact E|].
  exfalso. apply H. subst s. apply in_or_app. right. left. reflexivity.
Qed.

Lemma rfind_bound : forall c s, -1 <= rfind c s < Z.of_nat (length s).
Proof.
  intros c s. unfold rfind. destruct (rfind_from_spec c s 0 (-1)) as [[_ E]|[a [b [E [_ R]]]]]; [rewrite E; lia|].
  rewrite R. subst s. rewrite app_length. cbn [length]. lia.
Qed.

(* Spec: the name has an extension iff, in its last path component, some character other than "." stands before the last "." *)
Theorem has_ext_spec : forall dir comp,
  ~ In 47 comp -> (dir = [] \/ exists d, dir = d ++ [47]) ->
  (~ In 46 comp -> has_ext (dir ++ comp) = false) /\
  (forall a e, comp = a ++ 46 :: e -> ~ In 46 e -> has_ext (dir ++ comp) = existsb (fun x => negb (x =? 46)) a).
Proof.
  intros dir comp Hslash Hdir.
  assert (Hsep : rfind c_slash (dir ++ comp) + 1 = Z.of_nat (length dir)).
  { unfold c_slash. destruct Hdir as [E|[d E]]; subst dir.
    - cbn [app length]. rewrite rfind_none; [reflexivity|exact Hslash].
    - rewrite <- app_assoc. cbn [app]. rewrite rfind_last; [|exact Hslash]. rewrite app_length. cbn [length]. lia. }
  split.
  - intro Hdot. unfold has_ext. apply andb_false_iff. left. apply Z.ltb_ge. unfold c_dot.
    destruct Hdir as [E|[d E]]; subst dir.
    + cbn [app] in *. rewrite (rfind_none 46 comp Hdot). pose proof (rfind_bound c_slash comp). lia.
    + destruct (rfind_from_spec 46 d 0 (-1)) as [[Hn _]|[a [b [E [Hb _]]]]].
      * rewrite rfind_none; [pose proof (rfind_bound c_slash ((d ++ [47]) ++ comp)); lia|].
        intro Hin. apply in_app_or in Hin. destruct Hin as [Hin|Hin]; [|contradiction].
        apply in_app_or in Hin. destruct Hin as [Hin|[Hin|[]]]; [contradiction|discriminate].
      * subst d. replace (((a ++ 46 :: b) ++ [47]) ++ comp) with (a ++ 46 :: (b ++ 47 :: comp)) by (lnorm; reflexivity).
        rewrite rfind_last.
        { replace (a ++ 46 :: b ++ 47 :: comp) with (((a ++ 46 :: b) ++ [47]) ++ comp) by (lnorm; reflexivity).
          rewrite !app_length in Hsep. cbn [length] in Hsep. lia. }
        intro Hin. apply in_app_or in Hin. destruct Hin as [Hin|[Hin|Hin]]; [contradiction|discriminate|contradiction].
  - intros a e E He. subst comp. unfold has_ext.
    assert (Hd : rfind c_dot (dir ++ a ++ 46 :: e) = Z.of_nat (length dir + length a)).
    { unfold c_dot. rewrite app_assoc. rewrite rfind_last; [|exact He]. rewrite app_length. reflexivity. }
    rewrite Hd. replace (rfind c_slash (dir ++ a ++ 46 :: e) <? Z.of_nat (length dir + length a)) with true by (symmetry; apply Z.ltb_lt; lia).
    cbn [andb]. f_equal. unfold slice. rewrite Hsep.
    replace (Z.to_nat (Z.of_nat (length dir))) with (length dir) by lia.
    replace (Z.to_nat (Z.of_nat (length dir + length a) - Z.of_nat (length dir))) with (length a) by lia.
    rewrite skipn_app. rewrite skipn_all. rewrite Nat.sub_diag. cbn [skipn app].
    rewrite firstn_app. rewrite firstn_all. rewrite Nat.sub_diag. cbn [firstn]. apply app_nil_r.
Qed.

(* the extension is added exactly when the name has none *)
Theorem add_extension_spec : forall ext f, add_extension ext f = if has_ext f then f else f ++ ext.
Proof. reflexivity. Qed.

(* the legacy pass counter (before fix-3): after 101 issued names the first collision is fatal although the next number is free.
   Template [s${num}], reserved "s102", 102 requests. *)
Theorem legacy_passes_refuted :
  let c0 := {| cs := None; ext := []; legacy_reset := false; legacy_words := false; legacy_passes := true |} in
  let c1 := {| cs := None; ext := []; legacy_reset := false; legacy_words := false; legacy_passes := false |} in
  let s0 := {| ph := PFresh [FList [[115; 36; 123; 110; 117; 109; 125]]]; vars := []; inval := [[115; 49; 48; 50]] |} in
  let reqs := repeat [] 102 in
  last (map fst (fst (run c0 s0 reqs))) RNone = RRaise K_Bail /\
  last (map fst (fst (run c1 s0 reqs))) RNone = RName [115; 49; 48; 51].
Proof. vm_compute. split; reflexivity. Qed.
