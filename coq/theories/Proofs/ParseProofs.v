(* C05 -- signature string x conforming call, end to end: M4 and M5 composed. *)
From Coq Require Import List ZArith Bool QArith Lia.
From Verif Require Import Val Units Numeric Args NumericSpec NumericProofs ArgsProofs SigProofs GlueProofs TypedProofs.
Import ListNotations.
Local Open Scope Z_scope.

(* ================================================================ signature string x call, end to end *)

(* Macro.parse as the harness runs it: compile the args string, then read the arguments *)
Definition macro_parse (sig : list Z) (s : list tok) (lvl : Z) : pres :=
  match compile_sig sig with
  | SigOk args => parse_args args s lvl []
  | SigErr k => PCrash k lvl
  end.

Theorem macro_parse_binds : forall lead (l : list (sitem * nat)) s b s',
  Forall wf_item (map fst l) ->
  tcall (map (fun p => arg_of_item (fst p)) l) s b s' ->
  forall lvl, exists vals, macro_parse (print_sig lead l) s lvl = POk vals s' lvl /\ Forall2 bound vals b.
Proof.
  intros lead l s b s' Hwf Hc lvl. unfold macro_parse. rewrite (compile_print_sig lead l Hwf).
  destruct (parse_binds_typed _ s b s' Hc lvl []) as (vals & Hp & Hb). exists vals. split; [exact Hp|exact Hb].
Qed.
