(* Proofs for C11, part 2: re-tokenizing the reconstructed source of a node under the ordinary category codes
   gives back, blanks aside, the tokens the author wrote (M4 for flat token lists, S1 for whole trees of any depth). *)
From Coq Require Import List NArith ZArith Bool Arith Lia.
Import ListNotations.
From Verif Require Import Val Catcodes Tokenizer Lexer Verbatim Source Verb TokenizerProofs VerbatimProofs.
Local Open Scope N_scope.

Section Print.
Context (t : table).
Notation code := (which_code t).
(* what the proof needs to know about the table: the escape character, the group / math-shift characters, blank,
   the two brackets of \[ \], and that the letters of encoding.stringletters() are the letters of the table *)
Context (H_esc : code 92 = CC_ESCAPE) (H_sp : code 32 = CC_SPACE) (H_lb : code 123 = CC_BGROUP) (H_rb : code 125 = CC_EGROUP)
        (H_math : code 36 = CC_MATH) (H_lbr : code 91 = CC_OTHER) (H_rbr : code 93 = CC_OTHER)
        (H_letter : forall c, letterb c = (code c =? CC_LETTER)).

(* ---- runs of the tokenizer: the non-blank tokens emitted between two states ---- *)
Inductive Run : tst -> list tok -> tst -> Prop :=
| RunNil s : Run s [] s
| RunEmit s tk s1 l s' : step t s = Emit tk s1 -> Run s1 l s' -> Run s (strip_blanks [tk] ++ l) s'
| RunSkip s s1 l s' : step t s = Skip s1 -> Run s1 l s' -> Run s l s'.

Lemma Run_trans s1 l1 s2 l2 s3 : Run s1 l1 s2 -> Run s2 l2 s3 -> Run s1 (l1 ++ l2) s3.
Proof.
  induction 1 as [s|s tk sa l s' Hs _ IH|s sa l s' Hs _ IH]; intros H2.
  - exact H2.
  - rewrite <- app_assoc. eapply RunEmit; eauto.
  - eapply RunSkip; eauto.
Qed.

Lemma strip_blanks_app a b : strip_blanks (a ++ b) = strip_blanks a ++ strip_blanks b.
Proof. apply filter_app. Qed.

Lemma Run_lex s l s' : Run s l s' -> forall l', Lex t s' l' -> exists l0, Lex t s l0 /\ strip_blanks l0 = l ++ strip_blanks l'.
Proof.
  induction 1 as [s|s tk sa l s' Hs _ IH|s sa l s' Hs _ IH]; intros l' Hl.
  - exists l'. split; [assumption|reflexivity].
  - destruct (IH _ Hl) as (l0 & Hl0 & E). exists (tk :: l0). split.
    + eapply LexEmit; [|eassumption]. rewrite <- Hs. apply step_lex.
    + change (tk :: l0) with ([tk] ++ l0). rewrite strip_blanks_app, E. now rewrite app_assoc.
  - destruct (IH _ Hl) as (l0 & Hl0 & E). exists l0. split; [|assumption].
    eapply LexSkip; [|eassumption]. rewrite <- Hs. apply step_lex.
Qed.

Lemma Run_tokenize str l s' : Run (init_state str) l s' -> inp s' = [] ->
  exists l0, tokenize t str = RToks l0 /\ strip_blanks l0 = l.
Proof.
  intros HR He. destruct (Run_lex _ _ _ HR [] ) as (l0 & Hl0 & E).
  - apply LexDone. pose proof (step_lex t s') as Hs. unfold step in Hs. rewrite He in Hs. exact Hs.
  - exists l0. split; [now apply lex_tokenize|]. cbn in E. now rewrite app_nil_r in E.
Qed.

Lemma Run_one s tk s1 : step t s = Emit tk s1 -> is_blank tk = false -> Run s [tk] s1.
Proof.
  intros Hs Hb. replace [tk] with (strip_blanks [tk] ++ []) by (unfold strip_blanks; cbn; rewrite Hb; reflexivity).
  eapply RunEmit; [eassumption | apply RunNil].
Qed.
Lemma Run_blank s tk s1 : step t s = Emit tk s1 -> is_blank tk = true -> Run s [] s1.
Proof.
  intros Hs Hb. replace (@nil tok) with (strip_blanks [tk] ++ []) by (unfold strip_blanks; cbn; rewrite Hb; reflexivity).
  eapply RunEmit; [eassumption | apply RunNil].
Qed.
Lemma Run_skip1 s s1 : step t s = Skip s1 -> Run s [] s1.
Proof. intros Hs. eapply RunSkip; [eassumption | apply RunNil]. Qed.

(* ---- one character ---- *)
Lemma next_char_plain c r : code c <> CC_SUPER -> dropped (code c) = false -> next_char t (c :: r) = CChar (code c) c r.
Proof.
  intros Hs Hd. cbn [next_char]. replace (code c =? CC_SUPER) with false by (symmetry; now apply N.eqb_neq). now rewrite Hd.
Qed.

(* a character "reads as itself": the decoder returns it with its own category and consumes nothing else *)
Definition head_ok (l : list N) : Prop :=
  match l with [] => True | x :: r => next_char t l = CChar (code x) x r end.

Lemma in_cats_cases c ks : in_cats t c ks = true -> In (code c) ks.
Proof.
  unfold in_cats. intros H. apply existsb_exists in H. destruct H as (k & Hk & E). apply N.eqb_eq in E. now subst k.
Qed.

Ltac cats H := apply in_cats_cases in H; cbn [In] in H;
  repeat match type of H with _ \/ _ => destruct H as [H|H] end; try contradiction; symmetry in H.

Lemma plainc_head_ok c r : plainc t c = true -> head_ok (c :: r).
Proof.
  intros H. unfold plainc in H. cats H; cbn [head_ok]; apply next_char_plain; rewrite H; (discriminate || reflexivity).
Qed.

Lemma run_char c : plainc t c = true -> forall s rest, inp s = c :: rest ->
  exists s', Run s (char_toks t c) s' /\ inp s' = rest.
Proof.
  intros Hp s rest Hi. pose proof (plainc_head_ok c rest Hp) as Hh. cbn [head_ok] in Hh.
  unfold plainc in Hp. unfold char_toks.
  cats Hp; rewrite Hp in *;
    try (eexists; split; [apply Run_one; [unfold step; rewrite Hi, Hh; reflexivity | reflexivity] | reflexivity]).
  (* the blank: a space token in state M, nothing otherwise -- nothing at all, blanks aside *)
  destruct (lx s) eqn:El.
  - eexists. split; [apply Run_skip1; unfold step; rewrite Hi, Hh, El; reflexivity | reflexivity].
  - eexists. split; [eapply Run_blank; [unfold step; rewrite Hi, Hh, El; reflexivity | reflexivity] | reflexivity].
  - eexists. split; [apply Run_skip1; unfold step; rewrite Hi, Hh, El; reflexivity | reflexivity].
Qed.

Lemma run_chars : forall l, forallb (plainc t) l = true -> forall s rest, inp s = l ++ rest ->
  exists s', Run s (chars_toks t l) s' /\ inp s' = rest.
Proof.
  induction l as [|c l IH]; intros Hp s rest Hi.
  - exists s. split; [apply RunNil | assumption].
  - cbn [forallb] in Hp. apply andb_prop in Hp. destruct Hp as [Hc Hl].
    destruct (run_char c Hc s (l ++ rest) Hi) as (s1 & R1 & I1).
    destruct (IH Hl s1 rest I1) as (s2 & R2 & I2). exists s2. split; [|assumption].
    unfold chars_toks. cbn [flat_map]. eapply Run_trans; eassumption.
Qed.

(* a superscript character that is not followed by itself *)
Lemma super_head_ok c r : code c = CC_SUPER -> first_is_not c r = true -> head_ok (c :: r).
Proof.
  intros Hc Hf. cbn [head_ok next_char]. rewrite Hc. cbn [N.eqb CC_SUPER Pos.eqb].
  destruct r as [|c2 r2]; [reflexivity|]. cbn [first_is_not] in Hf. apply negb_true_iff in Hf. now rewrite Hf.
Qed.

Lemma run_super c : code c = CC_SUPER -> forall s rest, first_is_not c rest = true -> inp s = c :: rest ->
  exists s', Run s (char_toks t c) s' /\ inp s' = rest.
Proof.
  intros Hc s rest Hf Hi. pose proof (super_head_ok c rest Hc Hf) as Hh. cbn [head_ok] in Hh. unfold char_toks. rewrite Hc in *.
  eexists. split; [apply Run_one; [unfold step; rewrite Hi, Hh; reflexivity | reflexivity] | reflexivity].
Qed.

(* ---- control sequences ---- *)
Lemma esc_head_ok r : head_ok (92 :: r).
Proof. cbn [head_ok]. apply next_char_plain; rewrite H_esc; (discriminate || reflexivity). Qed.

Lemma letter_next c r : code c = CC_LETTER -> next_char t (c :: r) = CChar CC_LETTER c r.
Proof. intros H. rewrite <- H. apply next_char_plain; rewrite H; (discriminate || reflexivity). Qed.

Lemma cw_letters : forall w n acc x r, forallb (letterc t) w = true -> (length w < n)%nat ->
  next_char t (x :: r) = CChar (code x) x r -> code x <> CC_LETTER ->
  cw_fuel n t acc (w ++ x :: r) = Some (rev acc ++ w, x :: r).
Proof.
  induction w as [|c w IH]; intros n acc x r Hw Hn Hx Hnl.
  - destruct n; [cbn in Hn; lia|]. cbn [cw_fuel app]. rewrite Hx.
    replace (code x =? CC_LETTER) with false by (symmetry; now apply N.eqb_neq). now rewrite app_nil_r.
  - destruct n; [cbn in Hn; lia|]. cbn [forallb] in Hw. apply andb_prop in Hw. destruct Hw as [Hc Hw].
    unfold letterc in Hc. apply N.eqb_eq in Hc. cbn [cw_fuel app]. rewrite (letter_next c _ Hc). cbn [N.eqb CC_LETTER Pos.eqb].
    rewrite IH by (assumption || (cbn in Hn; lia)). cbn [rev]. now rewrite <- app_assoc.
Qed.

(* \word followed by a character that reads as itself and is not a letter *)
Lemma run_word w x r : w <> [] -> forallb (letterc t) w = true -> head_ok (x :: r) -> code x <> CC_LETTER ->
  forall s, inp s = 92 :: w ++ x :: r ->
  exists s', Run s [Tok CC_ESCAPE w] s' /\ inp s' = x :: r.
Proof.
  intros Hne Hw Hx Hnl s Hi. cbn [head_ok] in Hx.
  destruct w as [|c w]; [congruence|]. cbn [forallb] in Hw. apply andb_prop in Hw. destruct Hw as [Hc Hw].
  unfold letterc in Hc. apply N.eqb_eq in Hc.
  eexists. split; [apply Run_one; [|reflexivity]|].
  - unfold step. rewrite Hi. pose proof (esc_head_ok ((c :: w) ++ x :: r)) as He. cbn [head_ok] in He. rewrite He, H_esc.
    cbn [N.eqb CC_ESCAPE CC_LETTER CC_OTHER CC_SPACE CC_EOL orb]. cbn [app]. rewrite (letter_next c _ Hc).
    cbn [N.eqb CC_LETTER Pos.eqb]. rewrite (cw_letters w (S (length (w ++ x :: r))) [c] x r Hw); [reflexivity| |assumption|assumption].
    rewrite app_length. cbn. lia.
  - reflexivity.
Qed.

(* \c for a non-letter c *)
Lemma symc_head_ok c r : symc t c = true -> head_ok (c :: r).
Proof.
  intros H. unfold symc in H. cats H; cbn [head_ok]; apply next_char_plain; rewrite H; (discriminate || reflexivity).
Qed.

Lemma run_sym c : symc t c = true -> forall s rest, inp s = 92 :: c :: rest ->
  exists s', Run s [Tok CC_ESCAPE [c]] s' /\ inp s' = rest.
Proof.
  intros Hc s rest Hi. pose proof (symc_head_ok c rest Hc) as Hh. cbn [head_ok] in Hh.
  pose proof (esc_head_ok (c :: rest)) as He. cbn [head_ok] in He.
  unfold symc in Hc.
  cats Hc; rewrite Hc in *;
    (eexists; split; [apply Run_one; [unfold step; rewrite Hi, He, H_esc; cbn [N.eqb CC_ESCAPE CC_LETTER CC_OTHER CC_SPACE CC_EOL orb]; rewrite Hh; reflexivity | reflexivity] | reflexivity]).
Qed.


(* ---- induction principle for the nested node type ---- *)
Section NodeInd.
Context (P : node -> Prop).
Context (HTok : forall c, P (NTok c)) (HEsc : forall name, P (NEsc name))
        (HMacro : forall m name sa args body, Forall P args -> Forall P body -> P (NMacro m name sa args body))
        (HGroup : forall e body, Forall P body -> P (NGroup e body))
        (HMath : forall body, Forall P body -> P (NMath body))
        (HDisplay : forall m body, Forall P body -> P (NDisplay m body)).
Fixpoint node_ind' (n : node) : P n :=
  let all := fix go (l : list node) : Forall P l :=
    match l with [] => Forall_nil P | x :: r => Forall_cons x (node_ind' x) (go r) end in
  match n with
  | NTok c => HTok c
  | NEsc name => HEsc name
  | NMacro m name sa args body => HMacro m name sa args body (all args) (all body)
  | NGroup e body => HGroup e body (all body)
  | NMath body => HMath body (all body)
  | NDisplay m body => HDisplay m body (all body)
  end.
End NodeInd.

(* ---- facts about names ---- *)
Lemma colon_not_letter : (code 58 =? CC_LETTER) = false.
Proof. rewrite <- H_letter. reflexivity. Qed.

Lemma letters_no_colon w : forallb (letterc t) w = true -> ~ In 58 w.
Proof.
  intros Hw Hi. rewrite forallb_forall in Hw. specialize (Hw 58 Hi). unfold letterc in Hw. rewrite colon_not_letter in Hw. discriminate.
Qed.

Lemma no_colon_no_sep : forall w, ~ In 58 w -> has_sep w = false.
Proof.
  induction w as [|c r IH]; intros Hn; [reflexivity|]. cbn [has_sep]. destruct r as [|c2 r2]; [reflexivity|].
  replace (c =? 58) with false by (symmetry; apply N.eqb_neq; intros ->; apply Hn; now left). cbn [andb orb].
  apply IH. intros Hi. apply Hn. now right.
Qed.

Lemma active_char_some name c : active_char name = Some c -> name = active_prefix ++ [c].
Proof.
  unfold active_char. destruct (nlist_eqb (firstn 8 name) active_prefix) eqn:E; [|discriminate].
  apply nlist_eqb_true in E. destruct (skipn 8 name) as [|x [|y l]] eqn:E2; try discriminate.
  intros H. inversion H; subst x. rewrite <- (firstn_skipn 8 name). now rewrite E, E2.
Qed.

Lemma active_char_no_colon name : ~ In 58 name -> active_char name = None.
Proof.
  intros Hn. unfold active_char. destruct (nlist_eqb (firstn 8 name) active_prefix) eqn:E; [|reflexivity].
  exfalso. apply nlist_eqb_true in E. apply Hn. rewrite <- (firstn_skipn 8 name). rewrite E. apply in_or_app. left.
  unfold active_prefix. cbn. tauto.
Qed.

Lemma active_char_single c : active_char [c] = None.
Proof.
  unfold active_char. replace (nlist_eqb (firstn 8 [c]) active_prefix) with false; [reflexivity|].
  symmetry. apply nlist_eqb_false. cbn. unfold active_prefix. intros E. inversion E.
Qed.

Definition word_name (name : list N) : Prop := name <> [] /\ forallb (letterc t) name = true /\ name <> s_par.
Lemma wordb_spec name : wordb t name = true -> word_name name.
Proof.
  unfold wordb, word_name. intros H. apply andb_prop in H. destruct H as [H H3]. apply andb_prop in H. destruct H as [H1 H2].
  repeat split.
  - destruct name; [discriminate|discriminate].
  - assumption.
  - apply negb_true_iff in H3. now apply nlist_eqb_false.
Qed.

Lemma name_cases name : nameb t name = true ->
  (exists c, name = active_prefix ++ [c] /\ activec t c = true /\ active_char name = Some c) \/
  (active_char name = None /\ word_name name) \/
  (active_char name = None /\ exists c, name = [c] /\ symc t c = true).
Proof.
  unfold nameb. destruct (active_char name) as [c|] eqn:E.
  - intros H. left. exists c. split; [now apply active_char_some|]. tauto.
  - intros H. apply orb_prop in H. destruct H as [H|H].
    + right. left. split; [reflexivity|]. now apply wordb_spec.
    + right. right. split; [reflexivity|]. destruct name as [|c [|]]; try discriminate. now exists c.
Qed.

Lemma word_has_no_sep name : word_name name -> has_sep name = false.
Proof. intros (_ & H & _). apply no_colon_no_sep. now apply letters_no_colon. Qed.

Lemma symc_not_letter c : symc t c = true -> letterb c = false.
Proof. intros H. rewrite H_letter. unfold symc in H. cats H; rewrite H; reflexivity. Qed.
Lemma activec_not_letter c : activec t c = true -> letterb c = false.
Proof. intros H. rewrite H_letter. unfold activec in H. cats H; rewrite H; reflexivity. Qed.

Lemma word_not_single_nonletter name : word_name name -> single_nonletter name = false.
Proof.
  intros (_ & H & _). destruct name as [|x [|y l]]; try reflexivity. cbn [single_nonletter forallb] in *.
  apply andb_prop in H. destruct H as [H _]. unfold letterc in H. rewrite H_letter, H. reflexivity.
Qed.

Lemma not_angle_id name a : not_angle name a = true -> angle_src name a = a.
Proof.
  unfold not_angle, angle_src. intros H. apply negb_true_iff in H. destruct (angle_name name); [|reflexivity].
  cbn [andb] in H. apply orb_false_elim in H. destruct H as [H1 H2]. now rewrite H1, H2.
Qed.

(* ---- the reconstructed source of a well-formed node starts with a character that reads as itself ---- *)
Lemma space_plain : plainc t 32 = true.
Proof. unfold plainc, in_cats. rewrite H_sp. reflexivity. Qed.
Lemma lb_plain : plainc t 123 = true.
Proof. unfold plainc, in_cats. rewrite H_lb. reflexivity. Qed.
Lemma rb_plain : plainc t 125 = true.
Proof. unfold plainc, in_cats. rewrite H_rb. reflexivity. Qed.
Lemma math_plain : plainc t 36 = true.
Proof. unfold plainc, in_cats. rewrite H_math. reflexivity. Qed.
Lemma lbr_sym : symc t 91 = true.
Proof. unfold symc, in_cats. rewrite H_lbr. reflexivity. Qed.
Lemma rbr_sym : symc t 93 = true.
Proof. unfold symc, in_cats. rewrite H_rbr. reflexivity. Qed.

Lemma esc_of_word name : word_name name -> esc_of name = [92] /\ base_of name = name.
Proof. intros H. unfold esc_of, base_of. now rewrite (word_has_no_sep name H). Qed.
Lemma esc_of_sym c : esc_of [c] = [92] /\ base_of [c] = [c].
Proof. split; reflexivity. Qed.
Lemma esc_of_active c : esc_of (active_prefix ++ [c]) = [] /\ base_of (active_prefix ++ [c]) = [c].
Proof. split; reflexivity. Qed.

Lemma envname_spec name : envnameb t name = true -> forallb (plainc t) name = true /\ has_sep name = false.
Proof.
  unfold envnameb. intros H. apply andb_prop in H. destruct H as [H1 H2]. split; [|now apply negb_true_iff].
  rewrite forallb_forall in *. intros c Hc. specialize (H1 c Hc). unfold plainc. cats H1; unfold in_cats; rewrite H1; reflexivity.
Qed.

Lemma wf_macro_parts m name sa args body : wf t (NMacro m name sa args body) = true ->
  forallb (wf t) args = true /\ forallb (wf t) body = true /\ not_angle name (flat_map src args) = true /\
  match m with
  | MNone => nameb t name = true /\
    match active_char name with
    | Some c => code c = CC_SUPER -> first_is_not c (sep_args [c] (flat_map src args) ++ (if sa then [] else flat_map src body)) = true
    | None => True
    end
  | _ => envnameb t name = true
  end.
Proof.
  cbn [wf]. intros H. apply andb_prop in H. destruct H as [H H4]. apply andb_prop in H. destruct H as [H H3].
  apply andb_prop in H. destruct H as [H1 H2]. repeat split; try assumption.
  destruct m; try assumption. apply andb_prop in H4. destruct H4 as [Hn Hs]. split; [assumption|].
  destruct (active_char name) as [c|]; [|exact I]. intros Hc. rewrite Hc in Hs. exact Hs.
Qed.

Lemma src_nonempty n : wf t n = true -> src n <> [].
Proof.
  destruct n as [c|name|m name sa args body|e body|body|m body]; intros H.
  - discriminate.
  - cbn [wf src] in *. unfold esc_source. apply orb_prop in H. destruct H as [H|H].
    + apply wordb_spec in H. destruct H as (H1 & H2 & H3). replace (nlist_eqb name s_par) with false by (symmetry; now apply nlist_eqb_false).
      rewrite (no_colon_no_sep name (letters_no_colon name H2)). discriminate.
    + destruct name as [|c [|]]; try discriminate. destruct (nlist_eqb [c] s_par); [discriminate|]. cbn [has_sep]. discriminate.
  - apply wf_macro_parts in H. destruct H as (_ & _ & _ & H). cbn [src].
    destruct m.
    + destruct H as (Hn & _). destruct (name_cases name Hn) as [(c & -> & _)|[(_ & Hw)|(_ & c & -> & _)]].
      * destruct (esc_of_active c) as (-> & ->). discriminate.
      * destruct (esc_of_word name Hw) as (-> & ->). discriminate.
      * discriminate.
    + unfold begin_of. destruct (envname_spec name H) as (_ & Hs). unfold esc_of. rewrite Hs. discriminate.
    + unfold end_of. destruct (envname_spec name H) as (_ & Hs). unfold esc_of. rewrite Hs. discriminate.
  - cbn [src]. destruct (is_nil body); [destruct e|]; discriminate.
  - cbn [src]. destruct (is_nil body); discriminate.
  - cbn [src]. destruct (is_nil body); [destruct m|]; discriminate.
Qed.

Lemma flat_src_nil l : forallb (wf t) l = true -> flat_map src l = [] -> l = [].
Proof.
  destruct l as [|a l]; [reflexivity|]. cbn [forallb flat_map]. intros H E. apply andb_prop in H. destruct H as [Ha _].
  apply app_eq_nil in E. destruct E as [E _]. now apply src_nonempty in Ha.
Qed.

Lemma src_head_ok n : wf t n = true -> forall rest, head_ok (src n ++ rest).
Proof.
  destruct n as [c|name|m name sa args body|e body|body|m body]; intros H rest.
  - cbn [src app]. now apply plainc_head_ok.
  - cbn [wf src] in *. unfold esc_source. apply orb_prop in H. destruct H as [H|H].
    + apply wordb_spec in H. destruct H as (H1 & H2 & H3). replace (nlist_eqb name s_par) with false by (symmetry; now apply nlist_eqb_false).
      rewrite (no_colon_no_sep name (letters_no_colon name H2)). apply esc_head_ok.
    + destruct name as [|c [|]]; try discriminate.
      replace (nlist_eqb [c] s_par) with false by (symmetry; apply nlist_eqb_false; unfold s_par; intros E; inversion E).
      cbn [has_sep]. apply esc_head_ok.
  - apply wf_macro_parts in H. destruct H as (_ & _ & Hang & H). cbn [src]. rewrite (not_angle_id _ _ Hang).
    destruct m.
    + destruct H as (Hn & Hsup). destruct (name_cases name Hn) as [(c & -> & Ha & Hac)|[(_ & Hw)|(_ & c & -> & _)]].
      * rewrite Hac in Hsup. destruct (esc_of_active c) as (-> & ->). cbn [app].
        destruct (N.eq_dec (code c) CC_SUPER) as [Hc|Hc].
        -- apply super_head_ok; [assumption|]. specialize (Hsup Hc).
           destruct (sep_args [c] (flat_map src args) ++ (if sa then [] else flat_map src body)) as [|x l] eqn:E.
           ++ exfalso. unfold sep_args in E. destruct (flat_map src args); [discriminate|]. destruct (_ && _); discriminate.
           ++ cbn [app first_is_not] in *. exact Hsup.
        -- cbn [head_ok]. apply next_char_plain; [assumption|]. unfold activec in Ha. cats Ha; rewrite Ha; reflexivity.
      * destruct (esc_of_word name Hw) as (-> & ->). apply esc_head_ok.
      * apply esc_head_ok.
    + unfold begin_of. destruct (envname_spec name H) as (_ & Hs). unfold esc_of. rewrite Hs. apply esc_head_ok.
    + unfold end_of. destruct (envname_spec name H) as (_ & Hs). unfold esc_of. rewrite Hs. apply esc_head_ok.
  - cbn [src]. destruct (is_nil body); [destruct e|]; apply plainc_head_ok, lb_plain.
  - cbn [src]. destruct (is_nil body); apply plainc_head_ok, math_plain.
  - cbn [src]. destruct (is_nil body); [destruct m|]; apply esc_head_ok.
Qed.


(* ---- the main statement ---- *)
Definition Pn (n : node) : Prop :=
  wf t n = true -> forall s rest, inp s = src n ++ rest -> exists s', Run s (node_toks t n) s' /\ inp s' = rest.
Definition Pl (l : list node) : Prop :=
  forallb (wf t) l = true -> forall s rest, inp s = flat_map src l ++ rest ->
  exists s', Run s (flat_map (node_toks t) l) s' /\ inp s' = rest.

Lemma Pl_of_Forall l : Forall Pn l -> Pl l.
Proof.
  induction 1 as [|n l Hn _ IH]; intros Hw s rest Hi.
  - exists s. split; [apply RunNil | assumption].
  - cbn [forallb flat_map] in *. apply andb_prop in Hw. destruct Hw as [Hwn Hwl]. rewrite <- app_assoc in Hi.
    destruct (Hn Hwn s _ Hi) as (s1 & R1 & I1). destruct (IH Hwl s1 rest I1) as (s2 & R2 & I2).
    exists s2. split; [eapply Run_trans; eassumption | assumption].
Qed.

Lemma char_toks_lb : char_toks t 123 = [Tok CC_BGROUP [123]].
Proof. unfold char_toks. rewrite H_lb. reflexivity. Qed.
Lemma char_toks_rb : char_toks t 125 = [Tok CC_EGROUP [125]].
Proof. unfold char_toks. rewrite H_rb. reflexivity. Qed.
Lemma char_toks_math : char_toks t 36 = [Tok CC_MATH [36]].
Proof. unfold char_toks. rewrite H_math. reflexivity. Qed.
Lemma char_toks_sp : char_toks t 32 = [].
Proof. unfold char_toks. rewrite H_sp. reflexivity. Qed.

Lemma begin_letters : forallb (letterc t) s_begin = true.
Proof. unfold s_begin, letterc. cbn [forallb]. rewrite <- !H_letter. reflexivity. Qed.
Lemma end_letters : forallb (letterc t) s_end = true.
Proof. unfold s_end, letterc. cbn [forallb]. rewrite <- !H_letter. reflexivity. Qed.
Lemma lb_not_letter : code 123 <> CC_LETTER.
Proof. rewrite H_lb. discriminate. Qed.
Lemma sp_not_letter : code 32 <> CC_LETTER.
Proof. rewrite H_sp. discriminate. Qed.

(* \begin{name} and \end{name} *)
Lemma run_env_head (kw : list N) name : kw <> [] -> forallb (letterc t) kw = true -> forallb (plainc t) name = true ->
  forall s rest, inp s = ([92] ++ kw ++ [123] ++ name ++ [125]) ++ rest ->
  exists s', Run s ([Tok CC_ESCAPE kw; Tok CC_BGROUP [123]] ++ chars_toks t name ++ [Tok CC_EGROUP [125]]) s' /\ inp s' = rest.
Proof.
  intros Hk Hkl Hn s rest Hi.
  assert (Hi' : inp s = 92 :: kw ++ 123 :: (name ++ 125 :: rest)).
  { rewrite Hi. cbn [app]. rewrite <- !app_assoc. cbn [app]. rewrite <- app_assoc. reflexivity. }
  destruct (run_word kw 123 _ Hk Hkl (plainc_head_ok 123 _ lb_plain) lb_not_letter s Hi') as (s1 & R1 & I1).
  destruct (run_char 123 lb_plain s1 _ I1) as (s2 & R2 & I2). rewrite char_toks_lb in R2.
  destruct (run_chars name Hn s2 _ I2) as (s3 & R3 & I3).
  destruct (run_char 125 rb_plain s3 _ I3) as (s4 & R4 & I4). rewrite char_toks_rb in R4.
  exists s4. split; [|assumption].
  change ([Tok CC_ESCAPE kw; Tok CC_BGROUP [123]] ++ chars_toks t name ++ [Tok CC_EGROUP [125]])
    with ([Tok CC_ESCAPE kw] ++ [Tok CC_BGROUP [123]] ++ chars_toks t name ++ [Tok CC_EGROUP [125]]).
  eapply Run_trans; [eassumption|]. eapply Run_trans; [eassumption|]. eapply Run_trans; eassumption.
Qed.

Lemma sep_args_single b A : single_nonletter b = true -> sep_args b A = if is_nil A then [32] else A.
Proof. intros H. unfold sep_args. destruct A; [reflexivity|]. rewrite H. now rewrite andb_false_r. Qed.
Lemma sep_args_word b A : single_nonletter b = false ->
  sep_args b A = match A with [] => [32] | x :: _ => if letterb x then 32 :: A else A end.
Proof. intros H. unfold sep_args. destruct A; [reflexivity|]. rewrite H. now rewrite andb_true_r. Qed.

Lemma first_is_not_app c a b : a <> [] -> first_is_not c a = first_is_not c (a ++ b).
Proof. destruct a; [congruence|reflexivity]. Qed.

Ltac norm_app := repeat (progress (cbn [app]; rewrite <- ?app_assoc)).

Lemma run_macro_none name sa args body : Pl args -> Pl body -> Pn (NMacro MNone name sa args body).
Proof.
  intros IHa IHb H s rest Hi.
  apply wf_macro_parts in H. destruct H as (Hwa & Hwb & Hang & Hn & Hsup).
  cbn [src] in Hi. rewrite (not_angle_id _ _ Hang) in Hi. cbn [node_toks].
  set (A := flat_map src args) in *. set (K := if sa then [] else flat_map src body) in *.
  set (TA := flat_map (node_toks t) args). set (TK := if sa then [] else flat_map (node_toks t) body).
  (* the arguments and the children *)
  assert (Htail : forall s1, inp s1 = A ++ K ++ rest -> exists s', Run s1 (TA ++ TK) s' /\ inp s' = rest).
  { intros s1 H1. destruct (IHa Hwa s1 (K ++ rest) H1) as (s2 & R2 & I2). subst K TK. destruct sa.
    - exists s2. rewrite app_nil_r. split; assumption.
    - destruct (IHb Hwb s2 rest I2) as (s3 & R3 & I3). exists s3. split; [eapply Run_trans; eassumption | assumption]. }
  assert (Hblank : forall s1 l, inp s1 = 32 :: l -> (forall s2, inp s2 = l -> exists s', Run s2 (TA ++ TK) s' /\ inp s' = rest) ->
            exists s', Run s1 (TA ++ TK) s' /\ inp s' = rest).
  { intros s1 l H1 Hk. destruct (run_char 32 space_plain s1 l H1) as (s2 & R2 & I2). rewrite char_toks_sp in R2.
    destruct (Hk s2 I2) as (s3 & R3 & I3). exists s3. split; [|assumption]. apply (Run_trans _ _ _ _ _ R2 R3). }
  (* separator for a name that is a single non-letter: a blank only when there are no arguments *)
  assert (Hsingle : forall s1, inp s1 = (if is_nil A then [32] else A) ++ K ++ rest -> exists s', Run s1 (TA ++ TK) s' /\ inp s' = rest).
  { intros s1 H1. destruct A as [|x A'] eqn:EA; cbn [is_nil] in H1.
    - apply (Hblank s1 _ H1). intros s2 H2. apply Htail. exact H2.
    - apply Htail. exact H1. }
  destruct (name_cases name Hn) as [(c & -> & Ha & Hac)|[(Hac & Hw)|(Hac & c & -> & Hc)]].
  - (* an active character *)
    rewrite Hac in Hsup. destruct (esc_of_active c) as (He & Hb). rewrite He, Hb in Hi.
    unfold name_toks. rewrite Hac.
    rewrite sep_args_single in Hi by (cbn [single_nonletter]; now rewrite (activec_not_letter c Ha)).
    cbn [app] in Hi. rewrite <- app_assoc in Hi.
    assert (Hname : exists s1, Run s (char_toks t c) s1 /\ inp s1 = (if is_nil A then [32] else A) ++ K ++ rest).
    { destruct (N.eq_dec (code c) CC_SUPER) as [Hcs|Hcs].
      - apply (run_super c Hcs s _); [|exact Hi]. specialize (Hsup Hcs).
        rewrite sep_args_single in Hsup by (cbn [single_nonletter]; now rewrite (activec_not_letter c Ha)).
        rewrite app_assoc. rewrite <- first_is_not_app; [exact Hsup|]. clear. destruct A as [|y A'']; cbn; discriminate.
      - apply (run_char c); [|exact Hi]. unfold plainc. unfold activec in Ha. cats Ha; unfold in_cats; rewrite Ha; try reflexivity.
        exfalso. apply Hcs. now rewrite Ha. }
    destruct Hname as (s1 & R1 & I1). destruct (Hsingle s1 I1) as (s2 & R2 & I2).
    exists s2. split; [eapply Run_trans; eassumption | assumption].
  - (* a control word *)
    destruct (esc_of_word name Hw) as (He & Hb). rewrite He, Hb in Hi. unfold name_toks. rewrite Hac.
    rewrite sep_args_word in Hi by now apply word_not_single_nonletter.
    destruct Hw as (Hne & Hlet & _).
    destruct A as [|x A'] eqn:EA.
    + (* no arguments: a blank *)
      assert (Hi' : inp s = 92 :: name ++ 32 :: (K ++ rest)). { rewrite Hi. norm_app. reflexivity. }
      destruct (run_word name 32 _ Hne Hlet (plainc_head_ok 32 _ space_plain) sp_not_letter s Hi') as (s1 & R1 & I1).
      destruct (Hblank s1 _ I1) as (s2 & R2 & I2).
      * intros s2 H2. apply Htail. exact H2.
      * exists s2. split; [apply (Run_trans _ _ _ _ _ R1 R2) | assumption].
    + destruct (letterb x) eqn:Ex.
      * (* the first argument starts with a letter: a blank is inserted *)
        assert (Hi' : inp s = 92 :: name ++ 32 :: ((x :: A') ++ K ++ rest)). { rewrite Hi. norm_app. reflexivity. }
        destruct (run_word name 32 _ Hne Hlet (plainc_head_ok 32 _ space_plain) sp_not_letter s Hi') as (s1 & R1 & I1).
        destruct (Hblank s1 _ I1) as (s2 & R2 & I2).
        -- intros s2 H2. apply Htail. exact H2.
        -- exists s2. split; [apply (Run_trans _ _ _ _ _ R1 R2) | assumption].
      * (* the arguments follow the name directly: their first character is not a letter and reads as itself *)
        assert (Hi' : inp s = 92 :: name ++ x :: (A' ++ K ++ rest)). { rewrite Hi. norm_app. reflexivity. }
        assert (Hx : head_ok (x :: A' ++ K ++ rest)).
        { destruct args as [|a args']; [subst A; discriminate|]. cbn [forallb] in Hwa. apply andb_prop in Hwa. destruct Hwa as [Hwa0 _].
          pose proof (src_head_ok a Hwa0 (flat_map src args' ++ K ++ rest)) as Hh.
          subst A. cbn [flat_map] in EA.
          replace (src a ++ flat_map src args' ++ K ++ rest) with ((src a ++ flat_map src args') ++ K ++ rest) in Hh by now rewrite <- app_assoc.
          rewrite EA in Hh. exact Hh. }
        assert (Hxl : code x <> CC_LETTER). { intros E. rewrite H_letter, E in Ex. discriminate. }
        destruct (run_word name x _ Hne Hlet Hx Hxl s Hi') as (s1 & R1 & I1).
        destruct (Htail s1 I1) as (s2 & R2 & I2).
        exists s2. split; [apply (Run_trans _ _ _ _ _ R1 R2) | assumption].
  - (* a control symbol *)
    destruct (esc_of_sym c) as (He & Hb). rewrite He, Hb in Hi. unfold name_toks. rewrite Hac.
    rewrite sep_args_single in Hi by (cbn [single_nonletter]; now rewrite (symc_not_letter c Hc)).
    assert (Hi' : inp s = 92 :: c :: ((if is_nil A then [32] else A) ++ K ++ rest)). { rewrite Hi. norm_app. reflexivity. }
    destruct (run_sym c Hc s _ Hi') as (s1 & R1 & I1). destruct (Hsingle s1 I1) as (s2 & R2 & I2).
    exists s2. split; [apply (Run_trans _ _ _ _ _ R1 R2) | assumption].
Qed.


Lemma run_blank_then {l} (TT : list tok) rest :
  forall s1, inp s1 = 32 :: l -> (forall s2, inp s2 = l -> exists s', Run s2 TT s' /\ inp s' = rest) ->
  exists s', Run s1 TT s' /\ inp s' = rest.
Proof.
  intros s1 H1 Hk. destruct (run_char 32 space_plain s1 l H1) as (s2 & R2 & I2). rewrite char_toks_sp in R2.
  destruct (Hk s2 I2) as (s3 & R3 & I3). exists s3. split; [|assumption]. apply (Run_trans _ _ _ _ _ R2 R3).
Qed.

Lemma run_macro_env m name sa args body : m <> MNone -> Pl args -> Pl body -> Pn (NMacro m name sa args body).
Proof.
  intros Hm IHa IHb H s rest Hi.
  apply wf_macro_parts in H. destruct H as (Hwa & Hwb & Hang & Hn).
  assert (Hn' : envnameb t name = true) by (destruct m; [congruence|assumption|assumption]). clear Hn.
  destruct (envname_spec name Hn') as (Hpl & Hsep).
  cbn [src] in Hi. rewrite (not_angle_id _ _ Hang) in Hi. unfold esc_of, base_of in Hi. rewrite Hsep in Hi.
  cbn [node_toks]. destruct m; [congruence| |].
  - (* \begin{name} args [body \end{name}] *)
    rewrite <- !app_assoc in Hi. unfold begin_of in Hi.
    destruct (run_env_head s_begin name ltac:(discriminate) begin_letters Hpl s _ Hi) as (s1 & R1 & I1).
    fold (t_begin t name) in R1.
    assert (Hbody : forall s3, inp s3 = (if is_nil body then [] else flat_map src body ++ end_of [92] name) ++ rest ->
              exists s', Run s3 (if is_nil body then [] else flat_map (node_toks t) body ++ t_end t name) s' /\ inp s' = rest).
    { intros s3 H3. destruct body as [|b body']; cbn [is_nil] in *.
      - exists s3. split; [apply RunNil | exact H3].
      - rewrite <- app_assoc in H3. destruct (IHb Hwb s3 _ H3) as (s4 & R4 & I4).
        destruct (run_env_head s_end name ltac:(discriminate) end_letters Hpl s4 rest I4) as (s5 & R5 & I5).
        exists s5. split; [|assumption]. eapply Run_trans; eassumption. }
    assert (Hargs : forall s2, inp s2 = flat_map src args ++ (if is_nil body then [] else flat_map src body ++ end_of [92] name) ++ rest ->
              exists s', Run s2 (flat_map (node_toks t) args ++ (if is_nil body then [] else flat_map (node_toks t) body ++ t_end t name)) s' /\ inp s' = rest).
    { intros s2 H2. destruct (IHa Hwa s2 _ H2) as (s3 & R3 & I3). destruct (Hbody s3 I3) as (s4 & R4 & I4).
      exists s4. split; [eapply Run_trans; eassumption | assumption]. }
    destruct (flat_map src args) as [|x A'] eqn:EA; cbn [is_nil] in I1.
    + cbn [app] in I1. destruct (run_blank_then _ rest s1 I1 (fun s2 H2 => Hargs s2 H2)) as (s2 & R2 & I2).
      exists s2. split; [eapply Run_trans; eassumption | assumption].
    + destruct (Hargs s1 I1) as (s2 & R2 & I2). exists s2. split; [eapply Run_trans; eassumption | assumption].
  - unfold end_of in Hi. exact (run_env_head s_end name ltac:(discriminate) end_letters Hpl s rest Hi).
Qed.

Lemma run_group e body : Pl body -> Pn (NGroup e body).
Proof.
  intros IH H s rest Hi. cbn [wf src node_toks] in *. destruct body as [|b body']; cbn [is_nil] in *.
  - destruct e.
    + destruct (run_char 123 lb_plain s _ Hi) as (s1 & R1 & I1). destruct (run_char 125 rb_plain s1 _ I1) as (s2 & R2 & I2).
      rewrite char_toks_lb in R1. rewrite char_toks_rb in R2. exists s2. split; [apply (Run_trans _ _ _ _ _ R1 R2) | assumption].
    + destruct (run_char 123 lb_plain s _ Hi) as (s1 & R1 & I1). rewrite char_toks_lb in R1. exists s1. split; assumption.
  - cbn [app] in Hi. rewrite <- app_assoc in Hi.
    destruct (run_char 123 lb_plain s _ Hi) as (s1 & R1 & I1). rewrite char_toks_lb in R1.
    destruct (IH H s1 _ I1) as (s2 & R2 & I2). destruct (run_char 125 rb_plain s2 _ I2) as (s3 & R3 & I3). rewrite char_toks_rb in R3.
    exists s3. split; [|assumption].
    change (Tok CC_BGROUP [123] :: flat_map (node_toks t) (b :: body') ++ [Tok CC_EGROUP [125]])
      with ([Tok CC_BGROUP [123]] ++ flat_map (node_toks t) (b :: body') ++ [Tok CC_EGROUP [125]]).
    eapply Run_trans; [eassumption|]. eapply Run_trans; eassumption.
Qed.

Lemma run_math body : Pl body -> Pn (NMath body).
Proof.
  intros IH H s rest Hi. cbn [wf src node_toks] in *. destruct body as [|b body']; cbn [is_nil] in *.
  - destruct (run_char 36 math_plain s _ Hi) as (s1 & R1 & I1). rewrite char_toks_math in R1. exists s1. split; assumption.
  - cbn [app] in Hi. rewrite <- app_assoc in Hi.
    destruct (run_char 36 math_plain s _ Hi) as (s1 & R1 & I1). rewrite char_toks_math in R1.
    destruct (IH H s1 _ I1) as (s2 & R2 & I2). destruct (run_char 36 math_plain s2 _ I2) as (s3 & R3 & I3). rewrite char_toks_math in R3.
    exists s3. split; [|assumption].
    change (Tok CC_MATH [36] :: flat_map (node_toks t) (b :: body') ++ [Tok CC_MATH [36]])
      with ([Tok CC_MATH [36]] ++ flat_map (node_toks t) (b :: body') ++ [Tok CC_MATH [36]]).
    eapply Run_trans; [eassumption|]. eapply Run_trans; eassumption.
Qed.

Lemma run_display m body : Pl body -> Pn (NDisplay m body).
Proof.
  intros IH H s rest Hi. cbn [wf src node_toks] in *. destruct body as [|b body']; cbn [is_nil] in *.
  - destruct m; cbn [app] in Hi.
    + exact (run_sym 91 lbr_sym s rest Hi).
    + exact (run_sym 91 lbr_sym s rest Hi).
    + exact (run_sym 93 rbr_sym s rest Hi).
  - assert (Hi' : inp s = 92 :: 91 :: 32 :: (flat_map src (b :: body') ++ 32 :: 92 :: 93 :: rest)).
    { rewrite Hi. norm_app. reflexivity. }
    destruct (run_sym 91 lbr_sym s _ Hi') as (s1 & R1 & I1).
    destruct (run_char 32 space_plain s1 _ I1) as (s2 & R2 & I2). rewrite char_toks_sp in R2.
    destruct (IH H s2 _ I2) as (s3 & R3 & I3).
    destruct (run_char 32 space_plain s3 _ I3) as (s4 & R4 & I4). rewrite char_toks_sp in R4.
    destruct (run_sym 93 rbr_sym s4 _ I4) as (s5 & R5 & I5).
    exists s5. split; [|assumption].
    change (Tok CC_ESCAPE [91] :: flat_map (node_toks t) (b :: body') ++ [Tok CC_ESCAPE [93]])
      with ([Tok CC_ESCAPE [91]] ++ [] ++ flat_map (node_toks t) (b :: body') ++ [] ++ [Tok CC_ESCAPE [93]]).
    eapply Run_trans; [eassumption|]. eapply Run_trans; [eassumption|]. eapply Run_trans; [eassumption|]. eapply Run_trans; eassumption.
Qed.

Lemma run_esc name : Pn (NEsc name).
Proof.
  intros H s rest Hi. cbn [wf src node_toks] in *. unfold esc_source in Hi. apply orb_prop in H. destruct H as [H|H].
  - apply wordb_spec in H. pose proof (word_has_no_sep name H) as Hs. pose proof H as (Hne & Hlet & Hpar).
    replace (nlist_eqb name s_par) with false in Hi by (symmetry; now apply nlist_eqb_false). rewrite Hs in Hi.
    unfold name_toks. rewrite (active_char_no_colon name (letters_no_colon name Hlet)).
    assert (Hi' : inp s = 92 :: name ++ 32 :: rest). { rewrite Hi. norm_app. reflexivity. }
    destruct (run_word name 32 _ Hne Hlet (plainc_head_ok 32 _ space_plain) sp_not_letter s Hi') as (s1 & R1 & I1).
    destruct (run_char 32 space_plain s1 _ I1) as (s2 & R2 & I2). rewrite char_toks_sp in R2.
    exists s2. split; [|assumption]. rewrite <- (app_nil_r [Tok CC_ESCAPE name]). eapply Run_trans; eassumption.
  - destruct name as [|c [|]]; try discriminate.
    replace (nlist_eqb [c] s_par) with false in Hi by (symmetry; apply nlist_eqb_false; unfold s_par; intros E; inversion E).
    cbn [has_sep app] in Hi. unfold name_toks. rewrite active_char_single.
    destruct (run_sym c H s _ Hi) as (s1 & R1 & I1).
    destruct (run_char 32 space_plain s1 _ I1) as (s2 & R2 & I2). rewrite char_toks_sp in R2.
    exists s2. split; [|assumption]. rewrite <- (app_nil_r [Tok CC_ESCAPE [c]]). eapply Run_trans; eassumption.
Qed.

Lemma run_node : forall n, Pn n.
Proof.
  apply node_ind'.
  - intros c H s rest Hi. cbn [wf src node_toks] in *. exact (run_char c H s rest Hi).
  - exact run_esc.
  - intros m name sa args body Ha Hb. destruct m.
    + apply run_macro_none; now apply Pl_of_Forall.
    + apply run_macro_env; [discriminate| |]; now apply Pl_of_Forall.
    + apply run_macro_env; [discriminate| |]; now apply Pl_of_Forall.
  - intros e body Hb. apply run_group. now apply Pl_of_Forall.
  - intros body Hb. apply run_math. now apply Pl_of_Forall.
  - intros m body Hb. apply run_display. now apply Pl_of_Forall.
Qed.

(* S1: every well-formed node, of any depth *)
Theorem print_tokenize_node_gen n : wf t n = true ->
  exists l, tokenize t (src n) = RToks l /\ strip_blanks l = node_toks t n.
Proof.
  intros H. destruct (run_node n H (init_state (src n)) []) as (s' & R & I).
  - cbn. now rewrite app_nil_r.
  - exact (Run_tokenize _ _ _ R I).
Qed.

(* M4: every list of nodes (TeX.source of a token list, sourceChildren of a node) *)
Theorem print_tokenize_list_gen l : forallb (wf t) l = true ->
  exists l0, tokenize t (src_list l) = RToks l0 /\ strip_blanks l0 = flat_map (node_toks t) l.
Proof.
  intros H. assert (HP : Pl l) by (apply Pl_of_Forall; apply Forall_forall; intros n _; apply run_node).
  destruct (HP H (init_state (src_list l)) []) as (s' & R & I).
  - unfold src_list. cbn. now rewrite app_nil_r.
  - exact (Run_tokenize _ _ _ R I).
Qed.

(* M4 in its token-list form *)
Lemma good_toks_nodes : forall ts, forallb (good_tok t) ts = true ->
  forallb (wf t) (map tok_node ts) = true /\ flat_map (node_toks t) (map tok_node ts) = strip_blanks ts.
Proof.
  induction ts as [|[k txt] ts IH]; intros H; [split; reflexivity|].
  cbn [forallb] in H. apply andb_prop in H. destruct H as [Hg Hts]. destruct (IH Hts) as (IH1 & IH2).
  cbn [map forallb flat_map]. unfold good_tok in Hg. unfold tok_node at 1 3. destruct (k =? CC_ESCAPE) eqn:Ek.
  - apply N.eqb_eq in Ek. subst k. rewrite Hg, IH1, IH2. split; [reflexivity|].
    change (strip_blanks (Tok CC_ESCAPE txt :: ts)) with (Tok CC_ESCAPE txt :: strip_blanks ts). f_equal.
    cbn [node_toks wf] in *. unfold name_toks. apply orb_prop in Hg. destruct Hg as [Hg|Hg].
    + apply wordb_spec in Hg. destruct Hg as (_ & Hl & _). now rewrite (active_char_no_colon txt (letters_no_colon txt Hl)).
    + destruct txt as [|c [|]]; try discriminate. now rewrite active_char_single.
  - destruct txt as [|c [|]]; try discriminate. apply andb_prop in Hg. destruct Hg as [Hk Hc]. apply N.eqb_eq in Hk. subst k.
    cbn [hd wf node_toks]. rewrite IH1, IH2. unfold plainc, char_toks, strip_blanks. cbn [filter is_blank].
    cats Hc; unfold in_cats; rewrite Hc; split; reflexivity.
Qed.

Theorem print_tokenize_gen ts : forallb (good_tok t) ts = true ->
  exists l, tokenize t (print_toks ts) = RToks l /\ strip_blanks l = strip_blanks ts.
Proof.
  intros H. destruct (good_toks_nodes ts H) as (Hw & Ht). destruct (print_tokenize_list_gen _ Hw) as (l & Hl & E).
  exists l. split; [exact Hl|]. now rewrite E.
Qed.

End Print.

(* ---- the ordinary category codes (regenerated table) meet the section's hypotheses ---- *)
Lemma default_letters c : letterb c = (which_code default_table c =? CC_LETTER).
Proof.
  unfold which_code, default_table. unfold gen_chain. cbn [which_chain].
  change (cls gen_default_table 11) with gen_letters. unfold letterb.
  destruct (mem c gen_letters) eqn:E; [reflexivity|].
  repeat (match goal with |- context [if ?b then _ else _] => destruct b end; [reflexivity|]). reflexivity.
Qed.

Definition default_node_toks := node_toks default_table.
Definition default_wf := wf default_table.

Theorem print_tokenize_node n : wf default_table n = true ->
  exists l, tokenize default_table (src n) = RToks l /\ strip_blanks l = node_toks default_table n.
Proof. apply print_tokenize_node_gen; try reflexivity. exact default_letters. Qed.

Theorem print_tokenize_list l : forallb (wf default_table) l = true ->
  exists l0, tokenize default_table (src_list l) = RToks l0 /\ strip_blanks l0 = flat_map (node_toks default_table) l.
Proof. apply print_tokenize_list_gen; try reflexivity. exact default_letters. Qed.

(* M4 in its token-list form: tokens printed by Token.source / EscapeSequence.source *)
Theorem print_tokenize ts : forallb (good_tok default_table) ts = true ->
  exists l, tokenize default_table (print_toks ts) = RToks l /\ strip_blanks l = strip_blanks ts.
Proof. apply print_tokenize_gen; try reflexivity. exact default_letters. Qed.

(* the rewriting of \left< is a deviation from the statement (known finding): the full statement without the exclusion is false *)
Theorem print_tokenize_angle_refuted :
  exists n, (forall a, In a (match n with NMacro _ _ _ args _ => args | _ => [] end) -> wf default_table a = true) /\
    forall l, tokenize default_table (src n) = RToks l -> strip_blanks l <> node_toks default_table n.
Proof.
  exists (NMacro MNone [108; 101; 102; 116] false [NTok 60] []). split.
  - intros a [<-|[]]. reflexivity.
  - intros l Hl E. vm_compute in Hl. inversion Hl; subst l. vm_compute in E. discriminate.
Qed.

(* non-vacuity:  $x^{2}_\alpha\frac ab\left(\text{a $y$}\right]\begin{array}{c}1&2\\ 3\end{array}$ *)
Example print_example :
  let w s := map (fun c => NTok c) s in
  let n := NMath [NTok 120;
                  NMacro MNone (active_prefix ++ [94]) true [NTok 123; NTok 50; NTok 125] [NTok 50];
                  NMacro MNone (active_prefix ++ [95]) true [NMacro MNone [97;108;112;104;97] false [] []] [];
                  NMacro MNone [102;114;97;99] false [NTok 97; NTok 98] [];
                  NMacro MNone [108;101;102;116] false [NTok 40] [];
                  NMacro MNone [116;101;120;116] true [NTok 123; NTok 97; NTok 32; NMath [NTok 121]; NTok 125] [];
                  NMacro MNone [114;105;103;104;116] false [NTok 93] [];
                  NMacro MBegin [97;114;114;97;121] false (w [123;99;125])
                    [NTok 49; NMacro MNone (active_prefix ++ [38]) false [] []; NTok 50; NMacro MNone [92] false [] []; NTok 51]] in
  wf default_table n = true /\
  src n = [36;120;94;123;50;125;95;92;97;108;112;104;97;32;92;102;114;97;99;32;97;98;92;108;101;102;116;40;
           92;116;101;120;116;123;97;32;36;121;36;125;92;114;105;103;104;116;93;
           92;98;101;103;105;110;123;97;114;114;97;121;125;123;99;125;49;38;32;50;92;92;32;51;92;101;110;100;123;97;114;114;97;121;125;36].
Proof. vm_compute. split; reflexivity. Qed.
