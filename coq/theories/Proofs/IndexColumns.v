(* C18 (M5, continued): balance of the column split -- no column but the first is overfull, empty columns come last --
   and the weight of an entry is the number of index lines it shows. *)
From Coq Require Import List ZArith Bool Arith Lia.
Import ListNotations.
From Verif Require Import Val Index IndexOrder IndexDigest IndexGroups.
Local Open Scope Z_scope.

(* ---------- balance of the column split ---------- *)
Section Balance.
  Context {A : Type} (size : A -> Z).
  Definition weight (col : list A) : Z := fold_right (fun it a => size it + a) 0 col.
  (* not overfull: at most the target weight, unless it is a single entry (or empty) *)
  Definition fits (coltotal : Z) (col : list A) : Prop := weight col <= coltotal \/ (length col <= 1)%nat.

  Lemma fill_balance cols coltotal : forall (ents : list (Z * A)) current c cs,
    Forall (fun p => fst p = size (snd p)) ents ->
    current = weight c -> (current < coltotal \/ (length c <= 1)%nat \/ cols <= Z.of_nat (length (c :: cs))) ->
    Forall (fits coltotal) cs ->
    Forall (fits coltotal) (tl (fill cols coltotal ents current c cs)).
  Proof.
    induction ents as [|[num item] rest IH]; intros current c cs He Hw Hp Hc; [exact Hc|].
    inversion He as [|? ? Hn He']; subst. cbn [fst snd] in Hn. subst num. cbn [fill].
    assert (Wc : weight (item :: c) = weight c + size item) by (cbn [weight fold_right]; fold (weight c); lia).
    destruct (Z.of_nat (length (c :: cs)) >=? cols) eqn:E1; rewrite Z.geb_leb in E1.
    - apply Z.leb_le in E1. apply (IH _ _ _ He'); [symmetry; exact Wc | right; right; cbn [length] in *; lia | exact Hc].
    - apply Z.leb_gt in E1. assert (L : Z.of_nat (length (c :: cs)) < cols) by lia.
      assert (Fc : fits coltotal c) by (destruct Hp as [Hp | [Hp | Hp]]; [left; lia | right; exact Hp | lia]).
      destruct (weight c + size item >? coltotal) eqn:E2; rewrite Z.gtb_ltb in E2; [apply Z.ltb_lt in E2 | apply Z.ltb_ge in E2].
      + apply (IH _ _ _ He'); [cbn; lia | right; left; simpl; lia | constructor; [exact Fc | exact Hc]].
      + destruct (weight c + size item =? coltotal) eqn:E3; [apply Z.eqb_eq in E3 | apply Z.eqb_neq in E3].
        * apply (IH _ _ _ He'); [reflexivity | right; left; simpl; lia | constructor; [left; lia | exact Hc]].
        * apply (IH _ _ _ He'); [symmetry; exact Wc | left; lia | exact Hc].
  Qed.

  Lemma Forall_tl_filter (P : list A -> Prop) (f : list A -> bool) l : Forall P (tl l) -> Forall P (tl (filter f l)).
  Proof.
    destruct l as [|c cs]; simpl; auto. intro H.
    assert (F : Forall P (filter f cs)).
    { rewrite Forall_forall in *. intros x Hx. apply filter_In in Hx. apply H. apply Hx. }
    destruct (f c); simpl; auto. destruct (filter f cs); simpl; auto. inversion F; auto.
  Qed.

  (* every column but the first (which takes what remains) is not overfull; the target is floor(total / columns) *)
  Theorem columns_balance (items : list A) (cols : Z) cs :
    1 <= cols -> split_columns size items cols = Some cs ->
    Forall (fits (Z.quot (fold_left (fun a it => a + size it) items 0) cols)) (tl cs).
  Proof.
    intros C E. unfold split_columns in E. destruct (cols =? 0) eqn:E0; [lia|]. inversion E. subst cs. clear E.
    set (coltotal := Z.quot _ cols).
    set (ents := rev (map (fun it => (size it, it)) items)).
    assert (B : Forall (fits coltotal) (tl (fill cols coltotal ents 0 [] []))).
    { apply fill_balance; [|reflexivity|right; left; simpl; lia|constructor].
      unfold ents. rewrite Forall_forall. intros p Hp. apply in_rev in Hp. apply in_map_iff in Hp.
      destruct Hp as (it & Ep & _). subst p. reflexivity. }
    apply (Forall_tl_filter _ nonempty) in B.
    destruct (filter nonempty (fill cols coltotal ents 0 [] [])) as [|h r]; simpl in *.
    - destruct (Z.to_nat (cols - 0)); simpl; [constructor|]. rewrite Forall_forall. intros x Hx. apply repeat_spec in Hx. subst x. right. simpl. lia.
    - apply Forall_app. split; auto. rewrite Forall_forall. intros x Hx. apply repeat_spec in Hx. subst x. right. simpl. lia.
  Qed.

  (* empty columns come last *)
  Theorem columns_empty_last (items : list A) (cols : Z) cs :
    split_columns size items cols = Some cs ->
    exists full n, cs = full ++ repeat [] n /\ Forall (fun col => col <> []) full.
  Proof.
    unfold split_columns. destruct (cols =? 0); [discriminate|]. intro E. inversion E. eexists _, _. split; [reflexivity|].
    rewrite Forall_forall. intros x Hx. apply filter_In in Hx. destruct Hx as [_ Hx]. destruct x; [discriminate | discriminate].
  Qed.
End Balance.

(* the weight used for the split is the number of index lines a top-level entry shows *)
Lemma totallen_counts_lines : forall n pre, totallen n = Z.of_nat (length (nodes_at pre n)).
Proof.
  induction n as [k s pgs kids IH] using node_ind'. intro pre.
  cbn [totallen nodes_at length]. rewrite Nat2Z.inj_succ. unfold Z.succ. rewrite Z.add_comm. f_equal.
  generalize (pre ++ [(s, k)]). intro p. induction kids as [|x kids IHk]; [reflexivity|].
  inversion IH as [|? ? Hx Hk]; subst. cbn [flat_map]. rewrite app_length, Nat2Z.inj_add, <- (Hx p), <- (IHk Hk). reflexivity.
Qed.
