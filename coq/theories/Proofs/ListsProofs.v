(* Proofs about digestion (Model/Lists.v loops tied by Model/Arrays.v dg): fuel monotonicity, fuel sufficiency
   (digestion terminates on every item stream), and the round trip digest (print c) = tree_of c (M1, M5, M6). *)
From Coq Require Import List ZArith Bool Lia Arith.
Import ListNotations.
From Verif Require Import Val Lists TableSpec Arrays.
Local Open Scope Z_scope.

(* ================================================================================================ *)
(* more fuel never changes an answer                                                                  *)

Definition refines (d1 d2 : dig) : Prop := forall tok s R, d1 tok s = Some R -> d2 tok s = Some R.

Lemma until_mono : forall d1 d2 endc, refines d1 d2 ->
  forall n n' self s R, (n <= n')%nat -> until_loop d1 endc n self s = Some R -> until_loop d2 endc n' self s = Some R.
Proof.
  intros d1 d2 endc Hr. induction n as [|n IH]; intros n' self s R Hle H; [discriminate|].
  destruct n' as [|n']; [lia|]. cbn [until_loop] in *.
  destruct s as [|tok r]; [exact H|].
  destruct (is_elem tok).
  - destruct (endc (kind_of tok)); [exact H|].
    destruct (d1 tok r) as [[tok' r']|] eqn:E; [|discriminate]. rewrite (Hr _ _ _ E).
    destruct (depth_of tok' <? depth_of self); [exact H|]. apply IH; [lia|exact H].
  - destruct (depth_of tok <? depth_of self); [exact H|]. apply IH; [lia|exact H].
Qed.

Lemma env_mono : forall d1 d2, refines d1 d2 ->
  forall n n' self s R, (n <= n')%nat -> env_loop d1 n self s = Some R -> env_loop d2 n' self s = Some R.
Proof.
  intros d1 d2 Hr. induction n as [|n IH]; intros n' self s R Hle H; [discriminate|].
  destruct n' as [|n']; [lia|]. cbn [env_loop] in *.
  destruct s as [|tok r]; [exact H|].
  destruct (lvl tok =? PAR_LEVEL); [apply IH; [lia|exact H]|].
  destruct (lvl tok <? lvl self); [exact H|].
  destruct (is_elem tok).
  - destruct (is_end_of tok self); [exact H|].
    destruct (d1 tok r) as [[tok' r']|] eqn:E; [|discriminate]. rewrite (Hr _ _ _ E).
    destruct (depth_of tok' <? depth_of self); [exact H|]. apply IH; [lia|exact H].
  - destruct (depth_of tok <? depth_of self); [exact H|]. apply IH; [lia|exact H].
Qed.

Lemma group_mono : forall d1 d2, refines d1 d2 ->
  forall n n' self s R, (n <= n')%nat -> group_loop d1 n self s = Some R -> group_loop d2 n' self s = Some R.
Proof.
  intros d1 d2 Hr. induction n as [|n IH]; intros n' self s R Hle H; [discriminate|].
  destruct n' as [|n']; [lia|]. cbn [group_loop] in *.
  destruct s as [|tok r]; [exact H|].
  destruct (is_elem tok).
  - destruct (lvl tok <? ENDSECTIONS_LEVEL); [exact H|].
    destruct (kind_of tok); try exact H;
      (destruct (depth_of tok <? depth_of self); [exact H|];
       destruct (d1 tok r) as [[tok' r']|] eqn:E; [|discriminate]; rewrite (Hr _ _ _ E); apply IH; [lia|exact H]).
  - apply IH; [lia|exact H].
Qed.

Lemma dg_mono : forall f f' tok s R, (f <= f')%nat -> dg f tok s = Some R -> dg f' tok s = Some R.
Proof.
  induction f as [|f IH]; intros f' tok s R Hle H; [discriminate|].
  destruct f' as [|f']; [lia|].
  assert (Hr : refines (dg f) (dg f')) by (intros t s0 R0 H0; apply (IH f'); [lia|exact H0]).
  assert (Hle' : (f <= f')%nat) by lia.
  cbn [dg] in *. destruct (kind_of tok) as [c| | |e cols|e| | | | | |a b|n col body|term| | |c]; try exact H.
  - (* KBegin *)
    destruct e.
    + exact (env_mono _ _ Hr _ _ _ _ _ Hle' H).
    + unfold list_digest in *. exact (env_mono _ _ Hr _ _ _ _ _ Hle' H).
    + exact (env_mono _ _ Hr _ _ _ _ _ Hle' H).
    + exact (env_mono _ _ Hr _ _ _ _ _ Hle' H).
  - (* KRow *)
    unfold row_digest in *. destruct (until_loop (dg f) is_cr_k f tok s) as [[[self' e] s']|] eqn:E; [|discriminate].
    rewrite (until_mono _ _ _ Hr _ _ _ _ _ Hle' E). exact H.
  - (* KCell *)
    unfold cell_digest in *. destruct (until_loop (dg f) is_cell_end_k f tok s) as [[[self' e] s']|] eqn:E; [|discriminate].
    rewrite (until_mono _ _ _ Hr _ _ _ _ _ Hle' E). exact H.
  - (* KItem *)
    unfold item_digest in *. destruct (until_loop (dg f) is_item_k f tok (skip_ws s)) as [[[self' e] s']|] eqn:E; [|discriminate].
    rewrite (until_mono _ _ _ Hr _ _ _ _ _ Hle' E). exact H.
  - (* KBgroup *)
    exact (group_mono _ _ Hr _ _ _ _ _ Hle' H).
Qed.

(* ================================================================================================ *)
(* digestion terminates: the fuel of digest_top is never exhausted                                    *)

Definition total_below (d : dig) (s : stream) : Prop :=
  forall tok r, (length r < length s)%nat -> exists t' r', d tok r = Some (t', r') /\ (length r' <= length r)%nat.

Lemma total_below_le : forall d s s', total_below d s -> (length s' <= length s)%nat -> total_below d s'.
Proof. intros d s s' H Hle tok r Hr. apply H. lia. Qed.

Lemma until_total : forall d endc n self s, total_below d s -> (length s < n)%nat ->
  exists self' e s', until_loop d endc n self s = Some (self', e, s') /\ (length s' <= length s)%nat.
Proof.
  intros d endc. induction n as [|n IH]; intros self s Ht Hn; [lia|].
  cbn [until_loop]. destruct s as [|tok r]; [eexists _, _, _; split; [reflexivity|lia]|].
  simpl in Hn. destruct (is_elem tok).
  - destruct (endc (kind_of tok)); [eexists _, _, _; split; [reflexivity|lia]|].
    destruct (Ht tok r ltac:(simpl; lia)) as (t' & r' & E & Hl). rewrite E.
    destruct (depth_of t' <? depth_of self); [eexists _, _, _; split; [reflexivity|simpl; lia]|].
    destruct (IH (add_child self t') r') as (self' & e & s' & E' & Hl'); [eapply total_below_le; [exact Ht|simpl; lia]|lia|].
    eexists _, _, _; split; [exact E'|simpl; lia].
  - destruct (depth_of tok <? depth_of self); [eexists _, _, _; split; [reflexivity|lia]|].
    destruct (IH (add_child self tok) r) as (self' & e & s' & E' & Hl'); [eapply total_below_le; [exact Ht|simpl; lia]|lia|].
    eexists _, _, _; split; [exact E'|simpl; lia].
Qed.

Lemma env_total : forall d n self s, total_below d s -> (length s < n)%nat ->
  exists self' s', env_loop d n self s = Some (self', s') /\ (length s' <= length s)%nat.
Proof.
  intros d. induction n as [|n IH]; intros self s Ht Hn; [lia|].
  cbn [env_loop]. destruct s as [|tok r]; [eexists _, _; split; [reflexivity|lia]|].
  simpl in Hn.
  assert (Hrec : forall self0 r0, (length r0 <= length r)%nat ->
            exists self' s', env_loop d n self0 r0 = Some (self', s') /\ (length s' <= length (tok :: r))%nat).
  { intros self0 r0 Hr0. destruct (IH self0 r0) as (self' & s' & E' & Hl'); [eapply total_below_le; [exact Ht|simpl; lia]|lia|].
    eexists _, _; split; [exact E'|simpl; lia]. }
  destruct (lvl tok =? PAR_LEVEL); [apply Hrec; lia|].
  destruct (lvl tok <? lvl self); [eexists _, _; split; [reflexivity|lia]|].
  destruct (is_elem tok).
  - destruct (is_end_of tok self); [eexists _, _; split; [reflexivity|simpl; lia]|].
    destruct (Ht tok r ltac:(simpl; lia)) as (t' & r' & E & Hl). rewrite E.
    destruct (depth_of t' <? depth_of self); [eexists _, _; split; [reflexivity|simpl; lia]|].
    apply Hrec; lia.
  - destruct (depth_of tok <? depth_of self); [eexists _, _; split; [reflexivity|lia]|]. apply Hrec; lia.
Qed.

Lemma group_total : forall d n self s, total_below d s -> (length s < n)%nat ->
  exists self' s', group_loop d n self s = Some (self', s') /\ (length s' <= length s)%nat.
Proof.
  intros d. induction n as [|n IH]; intros self s Ht Hn; [lia|].
  cbn [group_loop]. destruct s as [|tok r]; [eexists _, _; split; [reflexivity|lia]|].
  simpl in Hn.
  assert (Hrec : forall self0 r0, (length r0 <= length r)%nat ->
            exists self' s', group_loop d n self0 r0 = Some (self', s') /\ (length s' <= length (tok :: r))%nat).
  { intros self0 r0 Hr0. destruct (IH self0 r0) as (self' & s' & E' & Hl'); [eapply total_below_le; [exact Ht|simpl; lia]|lia|].
    eexists _, _; split; [exact E'|simpl; lia]. }
  destruct (is_elem tok); [|apply Hrec; lia].
  destruct (lvl tok <? ENDSECTIONS_LEVEL); [eexists _, _; split; [reflexivity|lia]|].
  destruct (Ht tok r ltac:(simpl; lia)) as (t' & r' & E & Hl).
  destruct (kind_of tok); try (destruct (depth_of tok <? depth_of self); [eexists _, _; split; [reflexivity|lia]|]; rewrite E; apply Hrec; lia).
  eexists _, _; split; [reflexivity|simpl; lia].
Qed.

Lemma skip_ws_length : forall s, (length (skip_ws s) <= length s)%nat.
Proof. induction s as [|t r IH]; simpl; [lia|]. destruct (is_ws t); simpl; lia. Qed.

Lemma dg_total : forall m f tok s, (length s <= m)%nat -> (m + 2 <= f)%nat ->
  exists t' s', dg f tok s = Some (t', s') /\ (length s' <= length s)%nat.
Proof.
  induction m as [|m IH]; intros f tok s Hs Hf.
  - destruct s; [|simpl in Hs; lia]. destruct f as [|f]; [lia|].
    assert (Ht : total_below (dg f) []) by (intros t r Hr; simpl in Hr; lia).
    cbn [dg]. destruct (kind_of tok) as [c| | |e cols|e| | | | | |a b|n col body|term| | |c];
      try (eexists _, _; split; [reflexivity|lia]).
    + destruct e; unfold list_digest; cbn [skip_ws]; apply env_total; try exact Ht; simpl; lia.
    + unfold row_digest. destruct (until_total (dg f) is_cr_k f tok [] Ht ltac:(simpl; lia)) as (self' & e & s' & E & Hl).
      rewrite E. destruct s'; [|simpl in Hl; lia]. destruct e; eexists _, _; split; try reflexivity; simpl; lia.
    + unfold cell_digest. destruct (until_total (dg f) is_cell_end_k f tok [] Ht ltac:(simpl; lia)) as (self' & e & s' & E & Hl).
      rewrite E. destruct s'; [|simpl in Hl; lia]. destruct e as [[[] ? ?]|]; eexists _, _; split; try reflexivity; simpl; lia.
    + unfold item_digest. cbn [skip_ws]. destruct (until_total (dg f) is_item_k f tok [] Ht ltac:(simpl; lia)) as (self' & e & s' & E & Hl).
      rewrite E. eexists _, _; split; [reflexivity|exact Hl].
    + apply group_total; [exact Ht|simpl; lia].
  - destruct f as [|f]; [lia|].
    assert (Ht : forall s0, (length s0 <= length s)%nat -> total_below (dg f) s0).
    { intros s0 Hs0 t r Hr. apply (IH f t r); lia. }
    cbn [dg]. destruct (kind_of tok) as [c| | |e cols|e| | | | | |a b|n col body|term| | |c];
      try (eexists _, _; split; [reflexivity|lia]).
    + destruct e; unfold list_digest; try (apply env_total; [apply Ht; lia|lia]).
      pose proof (skip_ws_length s) as Hk.
      destruct (env_total (dg f) f tok (skip_ws s)) as (self' & s' & E & Hl); [apply Ht; lia|lia|].
      eexists _, _; split; [exact E|lia].
    + unfold row_digest. destruct (until_total (dg f) is_cr_k f tok s (Ht s ltac:(lia)) ltac:(lia)) as (self' & e & s' & E & Hl).
      rewrite E. destruct e; eexists _, _; split; try reflexivity; destruct s'; simpl in *; lia.
    + unfold cell_digest. destruct (until_total (dg f) is_cell_end_k f tok s (Ht s ltac:(lia)) ltac:(lia)) as (self' & e & s' & E & Hl).
      rewrite E. destruct e as [[[] ? ?]|]; eexists _, _; split; try reflexivity; destruct s'; simpl in *; lia.
    + unfold item_digest. pose proof (skip_ws_length s) as Hk.
      destruct (until_total (dg f) is_item_k f tok (skip_ws s)) as (self' & e & s' & E & Hl); [apply Ht; lia|lia|].
      rewrite E. eexists _, _; split; [reflexivity|lia].
    + apply group_total; [apply Ht; lia|lia].
Qed.

(* the fuel digest_top gives itself always suffices *)
Theorem digest_top_total : forall s, exists t' s', digest_top s = Some (t', s') /\ (length s' <= length s)%nat.
Proof.
  intros [|tok r]; [eexists _, _; split; [reflexivity|lia]|].
  unfold digest_top, fuel_for. destruct (dg_total (length r) (2 * length (tok :: r) + 4)%nat tok r) as (t' & s' & E & Hl);
    [lia|simpl; lia|]. eexists _, _; split; [exact E|simpl; lia].
Qed.

(* whatever some amount of fuel yields is what digest_top yields *)
Lemma digest_top_any_fuel : forall f tok r R, dg f tok r = Some R -> digest_top (tok :: r) = Some R.
Proof.
  intros f tok r R H. destruct (digest_top_total (tok :: r)) as (t' & s' & E & _).
  unfold digest_top in *. set (F := fuel_for (tok :: r)) in *.
  destruct (Nat.le_ge_cases f F) as [Hle|Hge].
  - exact (dg_mono _ _ _ _ _ Hle H).
  - rewrite E. rewrite (dg_mono _ _ _ _ _ Hge E) in H. exact H.
Qed.

(* ================================================================================================ *)
(* digestion with "enough fuel", as relations closed under the steps of the loops                     *)

Definition DG (tok : tree) (s : stream) (R : tree * stream) : Prop := exists f, dg f tok s = Some R.
Definition UL (endc : kind -> bool) (self : tree) (s : stream) (R : tree * option tree * stream) : Prop :=
  exists f n, until_loop (dg f) endc n self s = Some R.
Definition EL (self : tree) (s : stream) (R : tree * stream) : Prop := exists f n, env_loop (dg f) n self s = Some R.
Definition GL (self : tree) (s : stream) (R : tree * stream) : Prop := exists f n, group_loop (dg f) n self s = Some R.

Lemma refines_dg : forall f f', (f <= f')%nat -> refines (dg f) (dg f').
Proof. intros f f' H tok s R E. exact (dg_mono _ _ _ _ _ H E). Qed.

(* ---- until_loop ---- *)
Lemma UL_nil : forall endc self, UL endc self [] (self, None, []).
Proof. intros. exists 0%nat, 1%nat. reflexivity. Qed.

Lemma UL_end : forall endc self tok r, is_elem tok = true -> endc (kind_of tok) = true ->
  UL endc self (tok :: r) (self, Some tok, tok :: r).
Proof. intros endc self tok r H1 H2. exists 0%nat, 1%nat. cbn [until_loop]. rewrite H1, H2. reflexivity. Qed.

Lemma UL_text : forall endc self tok r R, is_elem tok = false -> depth_of self <= depth_of tok ->
  UL endc (add_child self tok) r R -> UL endc self (tok :: r) R.
Proof.
  intros endc self tok r R H1 H2 (f & n & H). exists f, (S n). cbn [until_loop]. rewrite H1.
  replace (depth_of tok <? depth_of self) with false by (symmetry; apply Z.ltb_ge; lia). exact H.
Qed.

Lemma UL_elem : forall endc self tok r tok' r' R, is_elem tok = true -> endc (kind_of tok) = false ->
  DG tok r (tok', r') -> depth_of self <= depth_of tok' ->
  UL endc (add_child self tok') r' R -> UL endc self (tok :: r) R.
Proof.
  intros endc self tok r tok' r' R H1 H2 (f1 & HD) H3 (f2 & n & H).
  exists (Nat.max f1 f2), (S n). cbn [until_loop]. rewrite H1, H2.
  rewrite (dg_mono f1 (Nat.max f1 f2) _ _ _ ltac:(lia) HD).
  replace (depth_of tok' <? depth_of self) with false by (symmetry; apply Z.ltb_ge; lia).
  apply (until_mono (dg f2) _ endc (refines_dg f2 (Nat.max f1 f2) ltac:(lia)) n n); [lia|exact H].
Qed.

Lemma UL_low : forall endc self tok r tok' r', is_elem tok = true -> endc (kind_of tok) = false ->
  DG tok r (tok', r') -> depth_of tok' < depth_of self ->
  UL endc self (tok :: r) (self, None, tok' :: r').
Proof.
  intros endc self tok r tok' r' H1 H2 (f1 & HD) H3. exists f1, 1%nat. cbn [until_loop]. rewrite H1, H2, HD.
  replace (depth_of tok' <? depth_of self) with true by (symmetry; apply Z.ltb_lt; lia). reflexivity.
Qed.

(* ---- env_loop, for a self that is an environment (level ENVIRONMENT_LEVEL) ---- *)
Definition is_begin (t : tree) : Prop := exists e cols, kind_of t = KBegin e cols.

Lemma is_begin_add : forall self x, is_begin self -> is_begin (add_child self x).
Proof. intros [k d ch] x (e & cols & H). exists e, cols. exact H. Qed.

Lemma lvl_begin : forall self, is_begin self -> lvl self = ENVIRONMENT_LEVEL.
Proof. intros [k d ch] (e & cols & H). simpl in H. subst. reflexivity. Qed.

Lemma EL_end : forall self tok r, is_begin self -> is_end_of tok self = true -> EL self (tok :: r) (self, r).
Proof.
  intros self tok r Hs H. exists 0%nat, 1%nat. cbn [env_loop].
  assert (Hk : exists e, kind_of tok = KEnd e).
  { unfold is_end_of in H. destruct (kind_of tok); try discriminate. eexists; reflexivity. }
  destruct Hk as (e & Hk). unfold lvl at 1 2. rewrite Hk. rewrite (lvl_begin self Hs). cbn.
  unfold is_elem. rewrite Hk. cbn. rewrite H. reflexivity.
Qed.

Lemma EL_step : forall self tok r tok' r' R, is_begin self ->
  (lvl tok = PAR_LEVEL \/ lvl tok = ENVIRONMENT_LEVEL \/ lvl tok = COMMAND_LEVEL) ->
  is_end_of tok self = false ->
  (if is_elem tok then DG tok r (tok', r') else (tok' = tok /\ r' = r)) ->
  depth_of self <= depth_of tok' ->
  EL (add_child self tok') r' R -> EL self (tok :: r) R.
Proof.
  intros self tok r tok' r' R Hs Hl He HD Hd (f2 & n & H).
  destruct (lvl tok =? PAR_LEVEL) eqn:Ep.
  - (* \par: appended as it is *)
    assert (Hk : kind_of tok = KPar).
    { apply Z.eqb_eq in Ep. unfold lvl, lvl_k in Ep. destruct (kind_of tok); try reflexivity; discriminate. }
    assert (Hel : is_elem tok = true) by (unfold is_elem; rewrite Hk; reflexivity).
    rewrite Hel in HD. destruct HD as (f1 & HD).
    assert (tok' = tok /\ r' = r) as [-> ->].
    { destruct f1; [discriminate|]. cbn [dg] in HD. rewrite Hk in HD. inversion HD; subst; auto. }
    exists f2, (S n). cbn [env_loop]. rewrite Ep. exact H.
  - assert (Hlt : (lvl tok <? lvl self) = false).
    { rewrite (lvl_begin self Hs). apply Z.ltb_ge. apply Z.eqb_neq in Ep. destruct Hl as [Hl|[Hl|Hl]]; rewrite Hl in *; unfold PAR_LEVEL, ENVIRONMENT_LEVEL, COMMAND_LEVEL in *; lia. }
    destruct (is_elem tok) eqn:Hel.
    + destruct HD as (f1 & HD). exists (Nat.max f1 f2), (S n). cbn [env_loop]. rewrite Ep, Hlt, Hel, He.
      rewrite (dg_mono f1 (Nat.max f1 f2) _ _ _ ltac:(lia) HD).
      replace (depth_of tok' <? depth_of self) with false by (symmetry; apply Z.ltb_ge; lia).
      apply (env_mono (dg f2) _ (refines_dg f2 (Nat.max f1 f2) ltac:(lia)) n n); [lia|exact H].
    + destruct HD as [-> ->]. exists f2, (S n). cbn [env_loop]. rewrite Ep, Hlt, Hel.
      replace (depth_of tok <? depth_of self) with false by (symmetry; apply Z.ltb_ge; lia). exact H.
Qed.

Lemma EL_low : forall self tok r tok' r', is_begin self ->
  (lvl tok = ENVIRONMENT_LEVEL \/ lvl tok = COMMAND_LEVEL) -> is_elem tok = true -> is_end_of tok self = false ->
  DG tok r (tok', r') -> depth_of tok' < depth_of self ->
  EL self (tok :: r) (self, tok' :: r').
Proof.
  intros self tok r tok' r' Hs Hl Hel He (f1 & HD) Hd. exists f1, 1%nat. cbn [env_loop].
  replace (lvl tok =? PAR_LEVEL) with false
    by (symmetry; apply Z.eqb_neq; destruct Hl as [Hl|Hl]; rewrite Hl; unfold PAR_LEVEL, ENVIRONMENT_LEVEL, COMMAND_LEVEL; lia).
  replace (lvl tok <? lvl self) with false
    by (symmetry; rewrite (lvl_begin self Hs); apply Z.ltb_ge; destruct Hl as [Hl|Hl]; rewrite Hl; unfold ENVIRONMENT_LEVEL, COMMAND_LEVEL; lia).
  rewrite Hel, He, HD.
  replace (depth_of tok' <? depth_of self) with true by (symmetry; apply Z.ltb_lt; lia). reflexivity.
Qed.

(* ---- group_loop ---- *)
Lemma GL_end : forall self tok r, kind_of tok = KEgroup -> GL self (tok :: r) (self, r).
Proof.
  intros self tok r Hk. exists 0%nat, 1%nat. cbn [group_loop]. unfold is_elem, lvl. rewrite Hk. reflexivity.
Qed.

Lemma GL_step : forall self tok r tok' r' R,
  kind_of tok <> KEgroup ->
  (if is_elem tok then DG tok r (tok', r') /\ depth_of self <= depth_of tok else (tok' = tok /\ r' = r)) ->
  GL (add_child self tok') r' R -> GL self (tok :: r) R.
Proof.
  intros self tok r tok' r' R Hk HD (f2 & n & H).
  destruct (is_elem tok) eqn:Hel.
  - destruct HD as ((f1 & HD) & Hd). exists (Nat.max f1 f2), (S n). cbn [group_loop]. rewrite Hel.
    replace (lvl tok <? ENDSECTIONS_LEVEL) with false
      by (symmetry; apply Z.ltb_ge; unfold lvl, lvl_k, ENDSECTIONS_LEVEL, PAR_LEVEL, ENVIRONMENT_LEVEL, COMMAND_LEVEL; destruct (kind_of tok); lia).
    replace (depth_of tok <? depth_of self) with false by (symmetry; apply Z.ltb_ge; lia).
    rewrite (dg_mono f1 (Nat.max f1 f2) _ _ _ ltac:(lia) HD).
    assert (HG : group_loop (dg (Nat.max f1 f2)) n (add_child self tok') r' = Some R)
      by (apply (group_mono (dg f2) _ (refines_dg f2 (Nat.max f1 f2) ltac:(lia)) n n); [lia|exact H]).
    destruct (kind_of tok); try exact HG. congruence.
  - destruct HD as [-> ->]. exists f2, (S n). cbn [group_loop]. rewrite Hel. exact H.
Qed.

(* ---- dg from the loops ---- *)
Definition inert_k (k : kind) : bool :=
  match k with KBegin _ _ | KItem _ | KRow | KCell | KBgroup => false | _ => true end.

Lemma DG_inert : forall tok s, inert_k (kind_of tok) = true -> DG tok s (tok, s).
Proof. intros tok s H. exists 1%nat. cbn [dg]. destruct (kind_of tok); try discriminate; reflexivity. Qed.

Lemma DG_env : forall tok s R e cols, kind_of tok = KBegin e cols -> (forall lk, e <> EList lk) -> EL tok s R -> DG tok s R.
Proof.
  intros tok s R e cols Hk He (f & n & H). exists (S (Nat.max f n)). cbn [dg]. rewrite Hk.
  assert (HE : env_loop (dg (Nat.max f n)) (Nat.max f n) tok s = Some R)
    by (apply (env_mono (dg f) _ (refines_dg f (Nat.max f n) ltac:(lia)) n); [lia|exact H]).
  destruct e; try exact HE. exfalso. exact (He lk eq_refl).
Qed.

Lemma DG_list : forall tok s R lk cols, kind_of tok = KBegin (EList lk) cols -> EL tok (skip_ws s) R -> DG tok s R.
Proof.
  intros tok s R lk cols Hk (f & n & H). exists (S (Nat.max f n)). cbn [dg]. rewrite Hk. unfold list_digest.
  apply (env_mono (dg f) _ (refines_dg f (Nat.max f n) ltac:(lia)) n); [lia|exact H].
Qed.

Lemma DG_item : forall tok s self' e s' t, kind_of tok = KItem t -> UL is_item_k tok (skip_ws s) (self', e, s') -> DG tok s (self', s').
Proof.
  intros tok s self' e s' t Hk (f & n & H). exists (S (Nat.max f n)). cbn [dg]. rewrite Hk. unfold item_digest.
  rewrite (until_mono (dg f) _ _ (refines_dg f (Nat.max f n) ltac:(lia)) n (Nat.max f n) _ _ _ ltac:(lia) H). reflexivity.
Qed.

Lemma DG_row : forall tok s self' e s', kind_of tok = KRow -> UL is_cr_k tok s (self', e, s') ->
  DG tok s (self', match e with Some _ => tl s' | None => s' end).
Proof.
  intros tok s self' e s' Hk (f & n & H). exists (S (Nat.max f n)). cbn [dg]. rewrite Hk. unfold row_digest.
  rewrite (until_mono (dg f) _ _ (refines_dg f (Nat.max f n) ltac:(lia)) n (Nat.max f n) _ _ _ ltac:(lia) H). destruct e; reflexivity.
Qed.

Lemma DG_cell : forall tok s self' e s', kind_of tok = KCell -> UL is_cell_end_k tok s (self', e, s') ->
  DG tok s (self', match e with Some (T KAmp _ _) => tl s' | _ => s' end).
Proof.
  intros tok s self' e s' Hk (f & n & H). exists (S (Nat.max f n)). cbn [dg]. rewrite Hk. unfold cell_digest.
  rewrite (until_mono (dg f) _ _ (refines_dg f (Nat.max f n) ltac:(lia)) n (Nat.max f n) _ _ _ ltac:(lia) H).
  destruct e as [[[] ? ?]|]; reflexivity.
Qed.

Lemma DG_group : forall tok s R, kind_of tok = KBgroup -> GL tok s R -> DG tok s R.
Proof.
  intros tok s R Hk (f & n & H). exists (S (Nat.max f n)). cbn [dg]. rewrite Hk.
  apply (group_mono (dg f) _ (refines_dg f (Nat.max f n) ltac:(lia)) n); [lia|exact H].
Qed.

(* ================================================================================================ *)
(* what every loop does with one more piece of content                                                *)

(* element tokens a piece of content may begin with *)
Definition ordinary_k (k : kind) : bool :=
  match k with KPar | KHline | KCline _ _ | KMulti _ _ _ | KCmd _ | KBgroup | KBegin _ _ => true | _ => false end.

Section Absorbing.
  Context {X : Type} (ok : tree -> Prop) (L : tree -> stream -> X -> Prop).
  Definition absorbing : Prop :=
    (forall self x, ok self -> ok (add_child self x)) /\
    (forall self tok r R, ok self -> is_elem tok = false -> depth_of self <= depth_of tok ->
       L (add_child self tok) r R -> L self (tok :: r) R) /\
    (forall self tok r tok' r' R, ok self -> ordinary_k (kind_of tok) = true ->
       DG tok r (tok', r') -> depth_of self <= depth_of tok -> depth_of self <= depth_of tok' ->
       L (add_child self tok') r' R -> L self (tok :: r) R).
End Absorbing.

Definition good_endc (endc : kind -> bool) : Prop := forall k, ordinary_k k = true -> endc k = false.

Lemma ordinary_elem : forall tok, ordinary_k (kind_of tok) = true -> is_elem tok = true.
Proof. intros tok H. unfold is_elem. destruct (kind_of tok); try discriminate; reflexivity. Qed.

Lemma abs_UL : forall endc, good_endc endc -> absorbing (fun _ => True) (UL endc).
Proof.
  intros endc Hg. split; [auto|]. split.
  - intros self tok r R _ H1 H2 H. exact (UL_text endc self tok r R H1 H2 H).
  - intros self tok r tok' r' R _ Ho HD H1 H2 H.
    exact (UL_elem endc self tok r tok' r' R (ordinary_elem tok Ho) (Hg _ Ho) HD H2 H).
Qed.

Lemma abs_EL : absorbing is_begin EL.
Proof.
  split; [exact is_begin_add|]. split.
  - intros self tok r R Hs H1 H2 H. apply (EL_step self tok r tok r R Hs); try assumption.
    + right. right. unfold is_elem in H1. unfold lvl. destruct (kind_of tok); try discriminate; reflexivity.
    + unfold is_elem in H1. unfold is_end_of. destruct (kind_of tok); try discriminate; reflexivity.
    + rewrite H1. auto.
  - intros self tok r tok' r' R Hs Ho HD H1 H2 H. apply (EL_step self tok r tok' r' R Hs); try assumption.
    + unfold lvl. destruct (kind_of tok); try discriminate; auto.
    + unfold is_end_of. destruct (kind_of tok); try discriminate; reflexivity.
    + rewrite (ordinary_elem tok Ho). exact HD.
Qed.

Lemma abs_GL : absorbing (fun _ => True) GL.
Proof.
  split; [auto|]. split.
  - intros self tok r R _ H1 H2 H. apply (GL_step self tok r tok r R); try assumption.
    + unfold is_elem in H1. destruct (kind_of tok); try discriminate; congruence.
    + rewrite H1. auto.
  - intros self tok r tok' r' R _ Ho HD H1 H2 H. apply (GL_step self tok r tok' r' R); try assumption.
    + destruct (kind_of tok); try discriminate; congruence.
    + rewrite (ordinary_elem tok Ho). auto.
Qed.

(* tokens that end a container: their own digestion does nothing, and they sit at the depth outside the content *)
Definition closer_k (k : kind) : bool :=
  match k with KAmp | KCr | KEgroup | KEnd (EArr _) | KEnd (EList _) | KEnd EMath => true | _ => false end.
Definition closer (d : Z) (s : stream) : Prop :=
  exists tok r, s = tok :: r /\ closer_k (kind_of tok) = true /\ depth_of tok <= d.

Lemma closer_up : forall d d' s, closer d s -> d <= d' -> closer d' s.
Proof. intros d d' s (tok & r & E & Hk & Hd) Hle. exists tok, r. repeat split; try assumption. lia. Qed.

Fixpoint needs_closer (b : list content) : bool :=
  match b with [] => false | [c] => is_decl c | _ :: r => needs_closer r end.

Lemma no_decl_needs : forall b, no_decl b = true -> needs_closer b = false /\ decl_last b = true.
Proof.
  induction b as [|c b IH]; intros H; [auto|]. simpl in H. apply andb_true_iff in H. destruct H as [Hc Hb].
  destruct (IH Hb) as [H1 H2]. apply negb_true_iff in Hc. destruct b as [|c' b'].
  - simpl. auto.
  - split; [exact H1|]. cbn [decl_last]. rewrite Hc. exact H2.
Qed.

(* induction principle for the nested type content *)
Section content_ind.
  Context (P : content -> Prop).
  Context (Hleaf : forall k, P (CLeaf k))
          (Hgroup : forall b, Forall P b -> P (CGroup b))
          (Hmath : forall b, Forall P b -> P (CMath b))
          (Hdecl : forall c b, Forall P b -> P (CDecl c b))
          (Htable : forall ak cols rows, Forall (Forall (Forall P)) rows -> P (CTable ak cols rows))
          (Hlist : forall lk pre items, Forall (fun it => Forall P (snd it)) items -> P (CList lk pre items)).
  Fixpoint content_ind' (c : content) : P c :=
    let fix go (l : list content) : Forall P l :=
      match l with [] => Forall_nil P | x :: xs => Forall_cons x (content_ind' x) (go xs) end in
    match c with
    | CLeaf k => Hleaf k
    | CGroup b => Hgroup b (go b)
    | CMath b => Hmath b (go b)
    | CDecl c0 b => Hdecl c0 b (go b)
    | CTable ak cols rows =>
        Htable ak cols rows
          ((fix go3 (l : list (list (list content))) : Forall (Forall (Forall P)) l :=
              match l with
              | [] => Forall_nil _
              | row :: rs =>
                  Forall_cons row
                    ((fix go2 (l2 : list (list content)) : Forall (Forall P) l2 :=
                        match l2 with [] => Forall_nil _ | cell :: cs => Forall_cons cell (go cell) (go2 cs) end) row)
                    (go3 rs)
              end) rows)
    | CList lk pre items =>
        Hlist lk pre items
          ((fix goi (l : list (option (list Z) * list content)) : Forall (fun it => Forall P (snd it)) l :=
              match l with
              | [] => Forall_nil _
              | it :: its => Forall_cons it (go (snd it)) (goi its)
              end) items)
    end.
End content_ind.

(* the statement proved for every piece of content *)
Definition absorbs (c : content) : Prop :=
  wf c = true ->
  forall d (X : Type) (ok : tree -> Prop) (L : tree -> stream -> X -> Prop), absorbing ok L ->
  forall self k R, ok self -> depth_of self <= d -> (is_decl c = true -> closer d k) ->
    L (add_child self (tree_of d c)) k R -> L self (print d c ++ k) R.

Lemma absorb_list : forall b, Forall absorbs b -> forallb wf b = true -> decl_last b = true ->
  forall d (X : Type) (ok : tree -> Prop) (L : tree -> stream -> X -> Prop), absorbing ok L ->
  forall ks ds chs k R, ok (T ks ds chs) -> ds <= d -> (needs_closer b = true -> closer d k) ->
    L (T ks ds (chs ++ map (tree_of d) b)) k R -> L (T ks ds chs) (flat_map (print d) b ++ k) R.
Proof.
  induction b as [|c b IH]; intros HF Hwf Hdl d X ok L HA ks ds chs k R Hok Hds Hcl H.
  - simpl in *. rewrite app_nil_r in H. exact H.
  - inversion HF as [|? ? Hc Hb]; subst. cbn [forallb] in Hwf. apply andb_true_iff in Hwf. destruct Hwf as [Hwc Hwb].
    cbn [flat_map]. rewrite <- app_assoc.
    apply (Hc Hwc d X ok L HA (T ks ds chs) _ R Hok); [exact Hds| |].
    + intros Hd. destruct b as [|c' b'].
      * simpl. apply Hcl. exact Hd.
      * cbn [decl_last] in Hdl. rewrite Hd in Hdl. discriminate.
    + cbn [add_child].
      assert (Hdl' : decl_last b = true).
      { destruct b as [|c' b']; [reflexivity|]. cbn [decl_last] in Hdl. apply andb_true_iff in Hdl. tauto. }
      apply (IH Hb Hwb Hdl' d X ok L HA ks ds (chs ++ [tree_of d c]) k R).
      * pose proof HA as HA'. unfold absorbing in HA'. destruct HA' as (Hadd & _). exact (Hadd (T ks ds chs) (tree_of d c) Hok).
      * exact Hds.
      * intros Hn. apply Hcl. destruct b; [discriminate|exact Hn].
      * rewrite <- app_assoc. exact H.
Qed.

Lemma abs_text : forall {X} ok (L : tree -> stream -> X -> Prop), absorbing ok L ->
  forall self tok r R, ok self -> is_elem tok = false -> depth_of self <= depth_of tok ->
    L (add_child self tok) r R -> L self (tok :: r) R.
Proof. intros X ok L (_ & H & _). exact H. Qed.

Lemma abs_elem : forall {X} ok (L : tree -> stream -> X -> Prop), absorbing ok L ->
  forall self tok r tok' r' R, ok self -> ordinary_k (kind_of tok) = true ->
    DG tok r (tok', r') -> depth_of self <= depth_of tok -> depth_of self <= depth_of tok' ->
    L (add_child self tok') r' R -> L self (tok :: r) R.
Proof. intros X ok L (_ & _ & H). exact H. Qed.

Lemma absorbs_leaf : forall kd, absorbs (CLeaf kd).
Proof.
  intros kd Hwf d X ok L HA self k R Hok Hd _ H. cbn [wf] in Hwf. cbn [print tree_of app] in *.
  destruct (is_elem_k kd) eqn:He.
  - apply (abs_elem ok L HA self (leaf kd d) k (leaf kd d) k R Hok); try assumption.
    + simpl. destruct kd; try discriminate; reflexivity.
    + apply DG_inert. simpl. destruct kd; try discriminate; reflexivity.
  - apply (abs_text ok L HA self (leaf kd d) k R Hok); try assumption.
Qed.

Lemma closer_inert : forall tok, closer_k (kind_of tok) = true -> inert_k (kind_of tok) = true /\ is_elem tok = true.
Proof. intros tok H. unfold is_elem. destruct (kind_of tok) as [| | | |[]| | | | | | | | | | |]; try discriminate; auto. Qed.

Lemma DGc_group : forall b, Forall absorbs b -> wf (CGroup b) = true -> forall d k,
  DG (leaf KBgroup (d + 1)) ((flat_map (print (d + 1)) b ++ [leaf KEgroup d]) ++ k) (T KBgroup (d + 1) (map (tree_of (d + 1)) b), k).
Proof.
  intros b HF Hwf d k. cbn [wf] in Hwf. apply andb_true_iff in Hwf. destruct Hwf as [Hdl Hwf].
  apply DG_group; [reflexivity|].
  rewrite <- app_assoc. cbn [app].
  apply (absorb_list b HF Hwf Hdl (d + 1) _ (fun _ => True) GL abs_GL KBgroup (d + 1) [] _ _ I); [lia| |].
  - intros _. eexists _, _. split; [reflexivity|]. split; [reflexivity|simpl; lia].
  - cbn [app]. apply GL_end. reflexivity.
Qed.

Lemma absorbs_group : forall b, Forall absorbs b -> absorbs (CGroup b).
Proof.
  intros b HF Hwf d X ok L HA self k R Hok Hd _ H. cbn [print tree_of] in *. cbn [app].
  apply (abs_elem ok L HA self (leaf KBgroup (d + 1)) _ (T KBgroup (d + 1) (map (tree_of (d + 1)) b)) k R Hok);
    try reflexivity; try (simpl; lia); [|exact H].
  apply DGc_group; assumption.
Qed.

Lemma DGc_math : forall b, Forall absorbs b -> wf (CMath b) = true -> forall d k,
  DG (leaf (KBegin EMath []) (d + 1)) ((flat_map (print (d + 1)) b ++ [leaf (KEnd EMath) d]) ++ k)
     (T (KBegin EMath []) (d + 1) (map (tree_of (d + 1)) b), k).
Proof.
  intros b HF Hwf d k. cbn [wf] in Hwf. apply andb_true_iff in Hwf. destruct Hwf as [Hdl Hwf].
  apply (DG_env _ _ _ EMath []); [reflexivity|discriminate|].
  rewrite <- app_assoc. cbn [app].
  assert (Hb : is_begin (T (KBegin EMath []) (d + 1) [])) by (eexists _, _; reflexivity).
  apply (absorb_list b HF Hwf Hdl (d + 1) _ is_begin EL abs_EL (KBegin EMath []) (d + 1) [] _ _ Hb); [lia| |].
  - intros _. eexists _, _. split; [reflexivity|]. split; [reflexivity|simpl; lia].
  - cbn [app]. apply EL_end; [eexists _, _; reflexivity|reflexivity].
Qed.

Lemma absorbs_math : forall b, Forall absorbs b -> absorbs (CMath b).
Proof.
  intros b HF Hwf d X ok L HA self k R Hok Hd _ H. cbn [print tree_of] in *. cbn [app].
  apply (abs_elem ok L HA self (leaf (KBegin EMath []) (d + 1)) _ (T (KBegin EMath []) (d + 1) (map (tree_of (d + 1)) b)) k R Hok);
    try reflexivity; try (simpl; lia); [|exact H].
  apply DGc_math; assumption.
Qed.

Lemma DGc_decl : forall c b, Forall absorbs b -> wf (CDecl c b) = true -> forall d k, closer d k ->
  DG (leaf (KBegin (EDecl c) []) (d + 1)) (flat_map (print (d + 1)) b ++ k)
     (T (KBegin (EDecl c) []) (d + 1) (map (tree_of (d + 1)) b), k).
Proof.
  intros c b HF Hwf d k Hcl. cbn [wf] in Hwf. apply andb_true_iff in Hwf. destruct Hwf as [Hdl Hwf].
  apply (DG_env _ _ _ (EDecl c) []); [reflexivity|discriminate|].
  assert (Hb : is_begin (T (KBegin (EDecl c) []) (d + 1) [])) by (eexists _, _; reflexivity).
  apply (absorb_list b HF Hwf Hdl (d + 1) _ is_begin EL abs_EL (KBegin (EDecl c) []) (d + 1) [] _ _ Hb); [lia| |].
  - intros _. apply (closer_up d); [exact Hcl|lia].
  - cbn [app]. destruct Hcl as (tok & r & -> & Hk & Hdt). destruct (closer_inert tok Hk) as [Hin Hel].
    apply EL_low; try assumption.
    + unfold lvl. destruct (kind_of tok); try discriminate; auto.
    + unfold is_end_of. cbn [kind_of]. destruct (kind_of tok) as [| | | |[]| | | | | | | | | | |]; try discriminate; reflexivity.
    + apply DG_inert. exact Hin.
    + simpl. lia.
Qed.

Lemma absorbs_decl : forall c b, Forall absorbs b -> absorbs (CDecl c b).
Proof.
  intros c b HF Hwf d X ok L HA self k R Hok Hd Hcl H. specialize (Hcl eq_refl). cbn [print tree_of] in *. cbn [app].
  apply (abs_elem ok L HA self (leaf (KBegin (EDecl c) []) (d + 1)) _ (T (KBegin (EDecl c) []) (d + 1) (map (tree_of (d + 1)) b)) k R Hok);
    try reflexivity; try (simpl; lia); [|exact H].
  apply DGc_decl; assumption.
Qed.

(* ---- lists ---- *)
Definition item_stream (d : Z) (it : option (list Z) * list content) : stream :=
  match it with (t, b) => leaf (KItem t) (d + 1) :: flat_map (print (d + 1)) b end.
Definition item_tree (d : Z) (it : option (list Z) * list content) : tree :=
  match it with (t, b) => T (KItem t) (d + 1) (map (tree_of (d + 1)) b) end.

Lemma print_head : forall c d, exists tok r, print d c = tok :: r /\ (wf c = true -> blank_content c = false -> is_ws tok = false).
Proof.
  intros c d. destruct c as [kd|b|b|c0 b|ak cols rows|lk pre items]; cbn [print]; eexists _, _; (split; [reflexivity|]); intros Hw Hb; try reflexivity.
  simpl in *. destruct kd; try discriminate; reflexivity.
Qed.

Lemma skip_ws_nonws : forall tok r, is_ws tok = false -> skip_ws (tok :: r) = tok :: r.
Proof. intros tok r H. cbn [skip_ws]. rewrite H. reflexivity. Qed.

Lemma skip_ws_body : forall b d tokN r, starts_nonblank b = true -> forallb wf b = true -> is_ws tokN = false ->
  skip_ws (flat_map (print d) b ++ tokN :: r) = flat_map (print d) b ++ tokN :: r.
Proof.
  intros b d tokN r Hs Hw Hn. destruct b as [|c b]; [simpl; rewrite Hn; reflexivity|].
  cbn [flat_map]. destruct (print_head c d) as (tok & r' & E & Hnw). rewrite E. cbn [app].
  apply skip_ws_nonws. simpl in Hs, Hw. apply andb_true_iff in Hw. apply Hnw; [tauto|]. apply negb_true_iff. exact Hs.
Qed.

Definition item_stop (lk d : Z) (N : stream) : Prop :=
  exists tok r, N = tok :: r /\ ((exists t, tok = leaf (KItem t) (d + 1)) \/ tok = leaf (KEnd (EList lk)) d).

Lemma UL_item_stop : forall lk d N k0 ch, item_stop lk d N ->
  exists e, UL is_item_k (T k0 (d + 1) ch) N (T k0 (d + 1) ch, e, N).
Proof.
  intros lk d N k0 ch (tok & r & -> & [(t & ->)| ->]).
  - eexists. apply UL_end; reflexivity.
  - eexists. apply UL_low; try reflexivity; [apply DG_inert; reflexivity|simpl; lia].
Qed.

Lemma good_item : good_endc is_item_k.
Proof. intros k H. destruct k; try discriminate; reflexivity. Qed.

Lemma DG_one_item : forall lk d t b N, Forall absorbs b -> starts_nonblank b = true -> no_decl b = true -> forallb wf b = true ->
  item_stop lk d N ->
  DG (leaf (KItem t) (d + 1)) (flat_map (print (d + 1)) b ++ N) (T (KItem t) (d + 1) (map (tree_of (d + 1)) b), N).
Proof.
  intros lk d t b N HF Hs Hnd Hw HN. destruct (no_decl_needs b Hnd) as [Hnc Hdl].
  destruct (UL_item_stop lk d N (KItem t) (map (tree_of (d + 1)) b) HN) as (e & HU).
  apply (DG_item _ _ _ e _ t); [reflexivity|].
  assert (Hsk : skip_ws (flat_map (print (d + 1)) b ++ N) = flat_map (print (d + 1)) b ++ N).
  { destruct HN as (tok & r & -> & Ht). apply skip_ws_body; try assumption. destruct Ht as [(t0 & ->)| ->]; reflexivity. }
  rewrite Hsk.
  apply (absorb_list b HF Hw Hdl (d + 1) _ (fun _ => True) (UL is_item_k) (abs_UL _ good_item) (KItem t) (d + 1) [] N _ I); [lia| |].
  - rewrite Hnc. discriminate.
  - exact HU.
Qed.

Lemma EL_items : forall lk d items, Forall (fun it => Forall absorbs (snd it)) items ->
  forallb (fun it => match it with (t, b) => starts_nonblank b && no_decl b && forallb wf b end) items = true ->
  forall chs k R,
    EL (T (KBegin (EList lk) []) (d + 1) (chs ++ map (item_tree d) items)) (leaf (KEnd (EList lk)) d :: k) R ->
    EL (T (KBegin (EList lk) []) (d + 1) chs) (flat_map (item_stream d) items ++ leaf (KEnd (EList lk)) d :: k) R.
Proof.
  intros lk d. induction items as [|[t b] items IH]; intros HF Hw chs k R H.
  - simpl in *. rewrite app_nil_r in H. exact H.
  - inversion HF as [|? ? Hb Hits]; subst. cbn [snd] in Hb. cbn [forallb] in Hw. apply andb_true_iff in Hw. destruct Hw as [Hwb Hwits].
    apply andb_true_iff in Hwb. destruct Hwb as [Hwb Hwfb]. apply andb_true_iff in Hwb. destruct Hwb as [Hs Hnd].
    cbn [flat_map item_stream]. rewrite <- app_assoc. cbn [app].
    assert (HN : item_stop lk d (flat_map (item_stream d) items ++ leaf (KEnd (EList lk)) d :: k)).
    { destruct items as [|[t' b'] items']; cbn [flat_map item_stream app]; eexists _, _; (split; [reflexivity|]); [right; reflexivity|left; eexists; reflexivity]. }
    eapply (EL_step (T (KBegin (EList lk) []) (d + 1) chs) (leaf (KItem t) (d + 1)) _ (T (KItem t) (d + 1) (map (tree_of (d + 1)) b))
              (flat_map (item_stream d) items ++ leaf (KEnd (EList lk)) d :: k) R).
    + eexists _, _; reflexivity.
    + right. right. reflexivity.
    + reflexivity.
    + cbn. apply (DG_one_item lk); assumption.
    + simpl. lia.
    + cbn [add_child]. apply IH; try assumption. rewrite <- app_assoc. exact H.
Qed.

Definition blank_stream (d : Z) (pre : list bool) : stream :=
  map (fun b : bool => leaf (if b then KPar else KSpace) (d + 1)) pre.

Lemma skip_ws_blanks : forall d pre s, skip_ws (blank_stream d pre ++ s) = skip_ws s.
Proof. intros d. induction pre as [|b pre IH]; intros s; [reflexivity|]. destruct b; cbn [blank_stream map app skip_ws is_ws leaf]; apply IH. Qed.

Lemma DGc_list : forall lk pre items, Forall (fun it => Forall absorbs (snd it)) items -> wf (CList lk pre items) = true -> forall d k,
  DG (leaf (KBegin (EList lk) []) (d + 1)) ((blank_stream d pre ++ flat_map (item_stream d) items ++ [leaf (KEnd (EList lk)) d]) ++ k)
     (T (KBegin (EList lk) []) (d + 1) (map (item_tree d) items), k).
Proof.
  intros lk pre items HF Hwf d k. cbn [wf] in Hwf.
  apply (DG_list _ _ _ lk []); [reflexivity|].
  rewrite <- !app_assoc. cbn [app]. rewrite skip_ws_blanks.
  assert (Hsk : skip_ws (flat_map (item_stream d) items ++ leaf (KEnd (EList lk)) d :: k)
                = flat_map (item_stream d) items ++ leaf (KEnd (EList lk)) d :: k).
  { destruct items as [|[t' b'] items']; cbn [flat_map item_stream app]; apply skip_ws_nonws; reflexivity. }
  rewrite Hsk. apply (EL_items lk d items HF Hwf []). cbn [app].
  apply EL_end; [eexists _, _; reflexivity|]. unfold is_end_of. cbn. apply Z.eqb_refl.
Qed.

Lemma absorbs_clist : forall lk pre items, Forall (fun it => Forall absorbs (snd it)) items -> absorbs (CList lk pre items).
Proof.
  intros lk pre items HF Hwf d X ok L HA self k R Hok Hd _ H.
  cbn [print tree_of] in *. cbn [app].
  change (map _ pre) with (blank_stream d pre).
  change (flat_map _ items) with (flat_map (item_stream d) items).
  change (map _ items) with (map (item_tree d) items) in H.
  apply (abs_elem ok L HA self (leaf (KBegin (EList lk) []) (d + 1)) _ (T (KBegin (EList lk) []) (d + 1) (map (item_tree d) items)) k R Hok);
    try reflexivity; try (simpl; lia); [|exact H].
  apply DGc_list; assumption.
Qed.

(* ---- tables ---- *)
Definition cell_stream (d2 : Z) (cell : list content) : stream := leaf KCell d2 :: flat_map (print d2) cell.
Definition cell_tree (d2 : Z) (cell : list content) : tree := T KCell d2 (map (tree_of d2) cell).
Definition row_stream (d2 : Z) (row : list (list content)) : stream :=
  leaf KRow d2 :: join [leaf KAmp d2] (map (cell_stream d2) row).
Definition row_tree (d2 : Z) (row : list (list content)) : tree := T KRow d2 (map (cell_tree d2) row).

Lemma good_cell_end : good_endc is_cell_end_k.
Proof. intros k H. destruct k; try discriminate; reflexivity. Qed.

Lemma join_cons_ne : forall {A} (sep x : list A) l, l <> [] -> join sep (x :: l) = x ++ sep ++ join sep l.
Proof. intros A sep x l H. destruct l; [congruence|reflexivity]. Qed.

(* what may follow the content of a cell *)
Inductive cell_next (ak d : Z) : stream -> stream -> Prop :=
| cn_amp : forall r, cell_next ak d (leaf KAmp (d + 2) :: r) r
| cn_cr : forall r, cell_next ak d (leaf KCr (d + 2) :: r) (leaf KCr (d + 2) :: r)
| cn_end : forall r, cell_next ak d (leaf (KEnd (EArr ak)) d :: r) (leaf (KEnd (EArr ak)) d :: r).

Lemma DG_one_cell : forall ak d cell N N', Forall absorbs cell -> decl_last cell = true -> forallb wf cell = true ->
  cell_next ak d N N' ->
  DG (leaf KCell (d + 2)) (flat_map (print (d + 2)) cell ++ N) (cell_tree (d + 2) cell, N').
Proof.
  intros ak d cell N N' HF Hdl Hw HN.
  assert (HU : exists e, UL is_cell_end_k (cell_tree (d + 2) cell) N (cell_tree (d + 2) cell, e, N)
                         /\ match e with Some (T KAmp _ _) => tl N | _ => N end = N').
  { destruct HN.
    - eexists. split; [apply UL_end; reflexivity|reflexivity].
    - eexists. split; [apply UL_end; reflexivity|reflexivity].
    - eexists. split; [apply UL_low; try reflexivity; [apply DG_inert; reflexivity|simpl; lia]|reflexivity]. }
  destruct HU as (e & HU & He). rewrite <- He.
  apply (DG_cell (leaf KCell (d + 2)) _ (cell_tree (d + 2) cell) e N eq_refl).
  apply (absorb_list cell HF Hw Hdl (d + 2) _ (fun _ => True) (UL is_cell_end_k) (abs_UL _ good_cell_end) KCell (d + 2) [] N _ I); [lia| |exact HU].
  intros _. destruct HN; eexists _, _; (split; [reflexivity|]); (split; [reflexivity|simpl; lia]).
Qed.

(* what may follow the last cell of a row *)
Inductive row_next (ak d : Z) : stream -> stream -> Prop :=
| rn_cr : forall r, row_next ak d (leaf KCr (d + 2) :: r) r
| rn_end : forall r, row_next ak d (leaf (KEnd (EArr ak)) d :: r) (leaf (KEnd (EArr ak)) d :: r).

Definition wf_cell (cell : list content) : bool := decl_last cell && forallb wf cell.

Lemma UL_cells : forall ak d cells, cells <> [] -> Forall (Forall absorbs) cells -> forallb wf_cell cells = true ->
  forall chs N N' R, row_next ak d N N' ->
    UL is_cr_k (T KRow (d + 2) (chs ++ map (cell_tree (d + 2)) cells)) N R ->
    UL is_cr_k (T KRow (d + 2) chs) (join [leaf KAmp (d + 2)] (map (cell_stream (d + 2)) cells) ++ N) R.
Proof.
  intros ak d. induction cells as [|cell cells IH]; intros Hne HF Hw chs N N' R HN H; [congruence|].
  inversion HF as [|? ? Hc Hcs]; subst. cbn [forallb] in Hw. apply andb_true_iff in Hw. destruct Hw as [Hwc Hwcs].
  unfold wf_cell in Hwc. apply andb_true_iff in Hwc. destruct Hwc as [Hdl Hwf].
  destruct cells as [|cell' cells'].
  - (* the last cell of the row *)
    cbn [map join cell_stream]. cbn [app].
    eapply (UL_elem is_cr_k (T KRow (d + 2) chs) (leaf KCell (d + 2)) _ (cell_tree (d + 2) cell) N R); try reflexivity.
    + apply (DG_one_cell ak d cell N N Hc Hdl Hwf). destruct HN; constructor.
    + cbn [add_child]. simpl in H. exact H.
  - change (join [leaf KAmp (d + 2)] (map (cell_stream (d + 2)) (cell :: cell' :: cells')))
      with (cell_stream (d + 2) cell ++ [leaf KAmp (d + 2)] ++ join [leaf KAmp (d + 2)] (map (cell_stream (d + 2)) (cell' :: cells'))).
    rewrite <- !app_assoc. cbn [cell_stream]. cbn [app].
    eapply (UL_elem is_cr_k (T KRow (d + 2) chs) (leaf KCell (d + 2)) _ (cell_tree (d + 2) cell)
              (join [leaf KAmp (d + 2)] (map (cell_stream (d + 2)) (cell' :: cells')) ++ N) R); try reflexivity.
    + apply (DG_one_cell ak d cell _ _ Hc Hdl Hwf). constructor.
    + cbn [add_child]. apply (IH ltac:(discriminate) Hcs Hwcs (chs ++ [cell_tree (d + 2) cell]) N N' R HN).
      rewrite <- app_assoc. exact H.
Qed.

Definition wf_row (row : list (list content)) : bool :=
  negb (match row with [] => true | _ => false end) && forallb wf_cell row.

Lemma DG_one_row : forall ak d row N N', Forall (Forall absorbs) row -> wf_row row = true -> row_next ak d N N' ->
  DG (leaf KRow (d + 2)) (join [leaf KAmp (d + 2)] (map (cell_stream (d + 2)) row) ++ N) (row_tree (d + 2) row, N').
Proof.
  intros ak d row N N' HF Hw HN. unfold wf_row in Hw. apply andb_true_iff in Hw. destruct Hw as [Hne Hw].
  assert (Hne' : row <> []) by (destruct row; [discriminate|discriminate]).
  assert (HU : exists e, UL is_cr_k (row_tree (d + 2) row) N (row_tree (d + 2) row, e, N)
                         /\ match e with Some _ => tl N | None => N end = N').
  { destruct HN.
    - eexists. split; [apply UL_end; reflexivity|reflexivity].
    - eexists. split; [apply UL_low; try reflexivity; [apply DG_inert; reflexivity|simpl; lia]|reflexivity]. }
  destruct HU as (e & HU & He). rewrite <- He.
  apply (DG_row (leaf KRow (d + 2)) _ (row_tree (d + 2) row) e N eq_refl).
  apply (UL_cells ak d row Hne' HF Hw [] N N' _ HN). exact HU.
Qed.

Lemma EL_rows : forall ak cols d rows, rows <> [] -> Forall (Forall (Forall absorbs)) rows -> forallb wf_row rows = true ->
  forall chs k R,
    EL (T (KBegin (EArr ak) cols) (d + 2) (chs ++ map (row_tree (d + 2)) rows)) (leaf (KEnd (EArr ak)) d :: k) R ->
    EL (T (KBegin (EArr ak) cols) (d + 2) chs)
       (join [leaf KCr (d + 2)] (map (row_stream (d + 2)) rows) ++ leaf (KEnd (EArr ak)) d :: k) R.
Proof.
  intros ak cols d. induction rows as [|row rows IH]; intros Hne HF Hw chs k R H; [congruence|].
  inversion HF as [|? ? Hr Hrs]; subst. cbn [forallb] in Hw. apply andb_true_iff in Hw. destruct Hw as [Hwr Hwrs].
  destruct rows as [|row' rows'].
  - cbn [map join row_stream]. cbn [app].
    eapply (EL_step (T (KBegin (EArr ak) cols) (d + 2) chs) (leaf KRow (d + 2)) _ (row_tree (d + 2) row)
              (leaf (KEnd (EArr ak)) d :: k) R).
    + eexists _, _; reflexivity.
    + right. right. reflexivity.
    + reflexivity.
    + cbn. apply (DG_one_row ak d row _ _ Hr Hwr). constructor.
    + simpl. lia.
    + cbn [add_child]. simpl in H. exact H.
  - change (join [leaf KCr (d + 2)] (map (row_stream (d + 2)) (row :: row' :: rows')))
      with (row_stream (d + 2) row ++ [leaf KCr (d + 2)] ++ join [leaf KCr (d + 2)] (map (row_stream (d + 2)) (row' :: rows'))).
    rewrite <- !app_assoc. cbn [row_stream]. cbn [app].
    eapply (EL_step (T (KBegin (EArr ak) cols) (d + 2) chs) (leaf KRow (d + 2)) _ (row_tree (d + 2) row)
              (join [leaf KCr (d + 2)] (map (row_stream (d + 2)) (row' :: rows')) ++ leaf (KEnd (EArr ak)) d :: k) R).
    + eexists _, _; reflexivity.
    + right. right. reflexivity.
    + reflexivity.
    + cbn. apply (DG_one_row ak d row _ _ Hr Hwr). constructor.
    + simpl. lia.
    + cbn [add_child]. apply (IH ltac:(discriminate) Hrs Hwrs (chs ++ [row_tree (d + 2) row]) k R).
      rewrite <- app_assoc. exact H.
Qed.

Lemma DGc_table : forall ak cols rows, Forall (Forall (Forall absorbs)) rows -> wf (CTable ak cols rows) = true -> forall d k,
  DG (leaf (KBegin (EArr ak) cols) (d + 2))
     ((join [leaf KCr (d + 2)] (map (row_stream (d + 2)) rows) ++ [leaf (KEnd (EArr ak)) d]) ++ k)
     (T (KBegin (EArr ak) cols) (d + 2) (map (row_tree (d + 2)) rows), k).
Proof.
  intros ak cols rows HF Hwf d k. cbn [wf] in Hwf.
  apply andb_true_iff in Hwf. destruct Hwf as [Hne Hwf].
  assert (Hne' : rows <> []) by (destruct rows; discriminate).
  apply (DG_env _ _ _ (EArr ak) cols); [reflexivity|discriminate|].
  rewrite <- app_assoc. cbn [app].
  apply (EL_rows ak cols d rows Hne' HF Hwf []). cbn [app].
  apply EL_end; [eexists _, _; reflexivity|]. unfold is_end_of. cbn. apply Z.eqb_refl.
Qed.

Lemma absorbs_table : forall ak cols rows, Forall (Forall (Forall absorbs)) rows -> absorbs (CTable ak cols rows).
Proof.
  intros ak cols rows HF Hwf d X ok L HA self k R Hok Hd _ H.
  cbn [print tree_of] in *. cbn [app].
  change (map _ rows) with (map (row_stream (d + 2)) rows).
  change (map _ rows) with (map (row_tree (d + 2)) rows) in H.
  apply (abs_elem ok L HA self (leaf (KBegin (EArr ak) cols) (d + 2)) _ (T (KBegin (EArr ak) cols) (d + 2) (map (row_tree (d + 2)) rows)) k R Hok);
    try reflexivity; try (simpl; lia); [|exact H].
  apply DGc_table; assumption.
Qed.

(* every well-formed piece of content is absorbed by every loop as the tree the Spec demands *)
Theorem absorbs_all : forall c, absorbs c.
Proof.
  induction c using content_ind'.
  - apply absorbs_leaf.
  - apply absorbs_group; assumption.
  - apply absorbs_math; assumption.
  - apply absorbs_decl; assumption.
  - apply absorbs_table; assumption.
  - apply absorbs_clist; assumption.
Qed.

(* ================================================================================================ *)
(* the round trip                                                                                     *)

Definition compound (c : content) : bool := match c with CLeaf _ => false | _ => true end.

Lemma Forall_absorbs : forall b, Forall absorbs b.
Proof. intros b. apply Forall_forall. intros c _. apply absorbs_all. Qed.

(* with enough fuel, the first token of a printed structure digests the rest of its print into the demanded tree and
   leaves exactly what follows *)
Theorem digest_print_DG : forall c, wf c = true -> compound c = true ->
  forall d k, (is_decl c = true -> closer d k) ->
  exists tok rest, print d c = tok :: rest /\ DG tok (rest ++ k) (tree_of d c, k).
Proof.
  intros c Hwf Hc d k Hcl. destruct c as [kd|b|b|c0 b|ak cols rows|lk pre items]; [discriminate| | | | |];
    cbn [print tree_of]; eexists _, _; (split; [reflexivity|]).
  - apply DGc_group; [apply Forall_absorbs|exact Hwf].
  - apply DGc_math; [apply Forall_absorbs|exact Hwf].
  - apply DGc_decl; [apply Forall_absorbs|exact Hwf|apply Hcl; reflexivity].
  - apply (DGc_table ak cols rows); [|exact Hwf].
    apply Forall_forall. intros row _. apply Forall_forall. intros cell _. apply Forall_absorbs.
  - apply (DGc_list lk pre items); [|exact Hwf]. apply Forall_forall. intros it _. apply Forall_absorbs.
Qed.

(* M1 + M5 (+ the structural half of M6): digest_top, with the fuel it gives itself, turns the printed source of every
   well-formed table, list, group or formula -- nested to any depth -- into exactly the tree the Spec demands, and
   consumes exactly its own tokens *)
Theorem roundtrip : forall c, wf c = true -> compound c = true -> is_decl c = false ->
  forall d k, digest_top (print d c ++ k) = Some (tree_of d c, k).
Proof.
  intros c Hwf Hc Hnd d k.
  destruct (digest_print_DG c Hwf Hc d k) as (tok & rest & E & (f & HD)); [rewrite Hnd; discriminate|].
  rewrite E. cbn [app]. exact (digest_top_any_fuel f tok (rest ++ k) _ HD).
Qed.

(* M1, M5, M6 spelled out *)
Theorem table_roundtrip : forall ak cols rows, wf (CTable ak cols rows) = true -> forall d k,
  digest_top (print d (CTable ak cols rows) ++ k)
  = Some (T (KBegin (EArr ak) cols) (d + 2)
            (map (fun row => T KRow (d + 2) (map (fun cell => T KCell (d + 2) (map (tree_of (d + 2)) cell)) row)) rows), k).
Proof. intros ak cols rows Hwf d k. exact (roundtrip (CTable ak cols rows) Hwf eq_refl eq_refl d k). Qed.

Theorem list_roundtrip : forall lk pre items, wf (CList lk pre items) = true -> forall d k,
  digest_top (print d (CList lk pre items) ++ k)
  = Some (T (KBegin (EList lk) []) (d + 1)
            (map (fun it => match it with (t, b) => T (KItem t) (d + 1) (map (tree_of (d + 1)) b) end) items), k).
Proof. intros lk pre items Hwf d k. exact (roundtrip (CList lk pre items) Hwf eq_refl eq_refl d k). Qed.

(* a declaration written in one cell scopes over the rest of that cell only: the next cell is a sibling holding exactly its own
   content, whatever follows in the row *)
Theorem cell_scope : forall ak cols c before body next more rows_after,
  wf (CTable ak cols (((before ++ [CDecl c body]) :: next :: more) :: rows_after)) = true -> forall d k,
  exists rest_rows,
    digest_top (print d (CTable ak cols (((before ++ [CDecl c body]) :: next :: more) :: rows_after)) ++ k)
    = Some (T (KBegin (EArr ak) cols) (d + 2)
              (T KRow (d + 2)
                 (T KCell (d + 2) (map (tree_of (d + 2)) before ++ [T (KBegin (EDecl c) []) (d + 3) (map (tree_of (d + 3)) body)])
                  :: T KCell (d + 2) (map (tree_of (d + 2)) next)
                  :: map (fun cell => T KCell (d + 2) (map (tree_of (d + 2)) cell)) more)
               :: rest_rows), k).
Proof.
  intros ak cols c before body next more rows_after Hwf d k. eexists.
  rewrite (table_roundtrip ak cols _ Hwf d k). cbn [map]. rewrite map_app. cbn [map tree_of].
  replace (d + 2 + 1) with (d + 3) by lia. reflexivity.
Qed.

(* the known finding: a declaration written directly in a list item that is not the last.  \item does not close the
   frame the declaration opened, so the items after it are read one level deeper (the stream below is the one the
   implementation expands "\begin{itemize}\item a\bfseries b\item c\end{itemize}" to: same tokens as the print, deeper
   after the declaration) and the declaration swallows them: the digested tree is not the one the property demands *)
Theorem list_declaration_refuted :
  let c := CList 0 [] [(None, [CLeaf (KChar 97); CDecl 0 [CLeaf (KChar 98)]]); (None, [CLeaf (KChar 99)])] in
  let s := [leaf (KBegin (EList 0) []) 1; leaf (KItem None) 1; leaf (KChar 97) 1; leaf (KBegin (EDecl 0) []) 2;
            leaf (KChar 98) 2; leaf (KItem None) 2; leaf (KChar 99) 2; leaf (KEnd (EList 0)) 0] in
  map kind_of s = map kind_of (print 0 c) /\ digest_top s <> Some (tree_of 0 c, []).
Proof. split; [reflexivity|]. intro H. vm_compute in H. discriminate. Qed.
