(* C18 (M1): index.invoke reads back every entry that the makeindex syntax spells; what it stores always has at
   least one key and a sort key for every key.  Refutations for the comparator before fix-1. *)
From Coq Require Import List ZArith Bool Arith Lia.
Import ListNotations.
From Verif Require Import Val Index IndexOrder.
Local Open Scope Z_scope.

Lemma scan_bang X s : scan (bang :: X) s = scan X (close_key s (COwn [])).
Proof. reflexivity. Qed.
Lemma scan_at X s : scan (at_ :: X) s = scan X (mkP (p_sort s ++ [p_cur s]) (p_key s) (p_fmt s) (COwn [])).
Proof. reflexivity. Qed.
Lemma scan_bar X s : scan (bar :: X) s = scan X (close_key s CFmt).
Proof. reflexivity. Qed.
Lemma scan_dq t X s : scan (dq :: t :: X) s = scan X (push s t).
Proof. reflexivity. Qed.

Lemma scan_nonspecial t X s : special t = false -> scan (t :: X) s = scan X (push s t).
Proof.
  intro N. cbn [scan]. unfold special in N. destruct (alnum t); [|reflexivity].
  simpl in N. apply orb_false_iff in N. destruct N as [N N4]. apply orb_false_iff in N. destruct N as [N N3].
  apply orb_false_iff in N. destruct N as [N1 N2]. rewrite N1, N2, N3, N4. reflexivity.
Qed.

Lemma scan_quote : forall w rest s c, p_cur s = COwn c ->
  scan (quote w ++ rest) s = scan rest (mkP (p_sort s) (p_key s) (p_fmt s) (COwn (c ++ w))).
Proof.
  induction w as [|t w IH]; intros rest s c Hc.
  - simpl. rewrite app_nil_r. destruct s; simpl in *. subst. reflexivity.
  - cbn [quote]. destruct (special t) eqn:Sp.
    + cbn [app]. rewrite scan_dq. rewrite (IH rest (push s t) (c ++ [t])).
      * unfold push. rewrite Hc. cbn [p_sort p_key p_fmt]. rewrite <- app_assoc. reflexivity.
      * unfold push. rewrite Hc. reflexivity.
    + cbn [app]. rewrite (scan_nonspecial _ _ _ Sp). rewrite (IH rest (push s t) (c ++ [t])).
      * unfold push. rewrite Hc. cbn [p_sort p_key p_fmt]. rewrite <- app_assoc. reflexivity.
      * unfold push. rewrite Hc. reflexivity.
Qed.

Definition plain (l : list tok) : Prop := Forall (fun t => special t = false) l.

Lemma scan_plain_fmt : forall w s, p_cur s = CFmt -> plain w ->
  scan w s = mkP (p_sort s) (p_key s) (p_fmt s ++ w) CFmt.
Proof.
  induction w as [|t w IH]; intros s Hc P.
  - simpl. rewrite app_nil_r. destruct s; simpl in *. subst. reflexivity.
  - inversion P as [|? ? Pt Pw]; subst. rewrite (scan_nonspecial _ _ _ Pt). rewrite IH; auto.
    + unfold push. rewrite Hc. cbn [p_sort p_key p_fmt]. rewrite <- app_assoc. reflexivity.
    + unfold push. rewrite Hc. reflexivity.
Qed.

Definition after_level (l : level) (S Kx : list cell) : pst :=
  match l_sort l with
  | Some s => mkP (S ++ [COwn s]) Kx [] (COwn (l_disp l))
  | None => mkP S Kx [] (COwn (l_disp l))
  end.
Definition cs (l : level) : cell := COwn (sort_part l).
Definition cd (l : level) : cell := COwn (l_disp l).

Lemma scan_level l rest S Kx : scan (print_level l ++ rest) (mkP S Kx [] (COwn [])) = scan rest (after_level l S Kx).
Proof.
  unfold print_level, after_level. destruct (l_sort l) as [s|].
  - rewrite <- !app_assoc. rewrite (scan_quote s _ _ []) by reflexivity. cbn [app p_sort p_key p_fmt].
    rewrite scan_at. cbn [p_sort p_key p_fmt p_cur]. rewrite (scan_quote (l_disp l) _ _ []) by reflexivity. reflexivity.
  - rewrite (scan_quote (l_disp l) _ _ []) by reflexivity. reflexivity.
Qed.

Lemma level_close l S Kx nc : length S = length Kx ->
  close_key (after_level l S Kx) nc = mkP (S ++ [cs l]) (Kx ++ [cd l]) [] nc.
Proof.
  intro L. unfold after_level, close_key, cs, cd, sort_part. destruct (l_sort l) as [s|]; cbn [p_sort p_key p_fmt p_cur].
  - rewrite !app_length, L. simpl. rewrite Nat.ltb_irrefl. reflexivity.
  - rewrite app_length, L. simpl. replace (length Kx <? length Kx + 1)%nat with true by (symmetry; apply Nat.ltb_lt; lia). reflexivity.
Qed.

Lemma scan_levels : forall ls S Kx rest, length S = length Kx -> ls <> [] ->
  scan (print_levels ls ++ rest) (mkP S Kx [] (COwn [])) =
  scan rest (after_level (last ls (mkLevel None [])) (S ++ map cs (removelast ls)) (Kx ++ map cd (removelast ls))).
Proof.
  induction ls as [|l ls IH]; intros S Kx rest L N; [congruence|].
  destruct ls as [|l2 ls].
  - cbn [print_levels last removelast map]. rewrite !app_nil_r. apply scan_level.
  - change (print_levels (l :: l2 :: ls)) with (print_level l ++ [bang] ++ print_levels (l2 :: ls)).
    rewrite <- !app_assoc. rewrite scan_level. cbn [app]. rewrite scan_bang, level_close by exact L.
    rewrite IH; [|rewrite !app_length; simpl; lia|discriminate].
    change (last (l :: l2 :: ls) (mkLevel None [])) with (last (l2 :: ls) (mkLevel None [])).
    change (removelast (l :: l2 :: ls)) with (l :: removelast (l2 :: ls)).
    cbn [map]. rewrite <- !app_assoc. reflexivity.
Qed.

Lemma span_letters_names name args :
  match args with t :: _ => is_letter t = false | [] => True end ->
  span_letters (name_toks name ++ args) = (name_toks name, args).
Proof.
  intro H. induction name as [|c name IH]; simpl.
  - destruct args as [|t args]; [reflexivity|]. simpl. rewrite H. reflexivity.
  - change (is_letter (11, [c])) with true. cbn iota. rewrite IH. reflexivity.
Qed.
Lemma concat_name_toks name : concat (map snd (name_toks name)) = name.
Proof. induction name as [|c name IH]; simpl; auto. rewrite IH. reflexivity. Qed.

Definition fmt_ok (f : option (str * list tok)) : Prop :=
  match f with
  | None => True
  | Some (name, args) => name <> [] /\ plain (name_toks name) /\ plain args /\
                         match args with t :: _ => is_letter t = false | [] => True end
  end.

Section Parse.
  Context (tx : list tok -> str).

  Lemma resolve_cd s l : map (resolve s) (map cd l) = map l_disp l.
  Proof. rewrite map_map. apply map_ext. reflexivity. Qed.
  Lemma resolve_cs s l : map (fun c => tx (resolve s c)) (map cs l) = map (fun l => tx (sort_part l)) l.
  Proof. rewrite map_map. apply map_ext. reflexivity. Qed.

  (* M1 *)
  Theorem parse_entry_print (e : ientry) :
    i_levels e <> [] -> fmt_ok (i_fmt e) ->
    parse_entry tx (print_entry e) =
      (map l_disp (i_levels e), map (fun l => tx (sort_part l)) (i_levels e),
       match i_fmt e with
       | None => (None, 0)
       | Some (name, args) => (Some ((0, name) :: args ++ [(0, s_ipn)]), fmt_type name)
       end).
  Proof.
    intros N F. unfold parse_entry, print_entry.
    rewrite (scan_levels (i_levels e) [] [] _ eq_refl N). cbn [app].
    set (lst := last (i_levels e) (mkLevel None [])).
    set (rl := removelast (i_levels e)).
    assert (Els : i_levels e = rl ++ [lst]) by (apply app_removelast_last; exact N).
    assert (Lrl : length (map cs rl) = length (map cd rl)) by (rewrite !map_length; reflexivity).
    destruct (i_fmt e) as [[name args]|].
    - destruct F as (Nn & Pn & Pa & Ha). cbn [app]. rewrite scan_bar, (level_close _ _ _ _ Lrl).
      rewrite scan_plain_fmt; [|reflexivity|apply Forall_app; split; assumption].
      cbn [p_sort p_key p_fmt app].
      assert (Ne : name_toks name ++ args <> []) by (destruct name; [congruence | discriminate]).
      unfold finish. cbn [p_fmt]. destruct (name_toks name ++ args) as [|t0 r0] eqn:Ef; [congruence|]. rewrite <- Ef.
      cbn [p_key p_sort p_fmt].
      replace (map cd rl ++ [cd lst]) with (map cd (i_levels e)) by (rewrite Els, map_app; reflexivity).
      replace (map cs rl ++ [cs lst]) with (map cs (i_levels e)) by (rewrite Els, map_app; reflexivity).
      rewrite resolve_cd, resolve_cs. f_equal.
      unfold parse_format. rewrite Ef at 1. rewrite span_letters_names by exact Ha.
      destruct (name_toks name) as [|n0 nr] eqn:En; [destruct name; [congruence | discriminate]|].
      rewrite <- En, concat_name_toks. reflexivity.
    - cbn [scan]. unfold finish.
      assert (Ef : p_fmt (after_level lst (map cs rl) (map cd rl)) = []) by (unfold after_level; destruct (l_sort lst); reflexivity).
      rewrite Ef, (level_close _ _ _ _ Lrl). cbn [p_key p_sort p_fmt].
      replace (map cd rl ++ [cd lst]) with (map cd (i_levels e)) by (rewrite Els, map_app; reflexivity).
      replace (map cs rl ++ [cs lst]) with (map cs (i_levels e)) by (rewrite Els, map_app; reflexivity).
      rewrite resolve_cd, resolve_cs. reflexivity.
  Qed.

  (* what index.invoke stores is well formed *)
  Definition pinv (s : pst) : Prop :=
    (length (p_key s) <= length (p_sort s))%nat /\ (p_fmt s <> [] -> p_key s <> []) /\ (p_cur s = CFmt -> p_key s <> []).

  Lemma pinv_push s t : pinv s -> pinv (push s t).
  Proof.
    intros (A & B & C). unfold push. destruct (p_cur s) eqn:E; unfold pinv; cbn [p_key p_sort p_fmt p_cur]; repeat split; auto.
    discriminate.
  Qed.
  Lemma pinv_close s nc : pinv s -> pinv (close_key s nc).
  Proof.
    intros (A & B & C). unfold close_key, pinv. cbn [p_key p_sort p_fmt p_cur].
    assert (Nk : p_key s ++ [p_cur s] <> []) by (destruct (p_key s); discriminate).
    repeat split; auto.
    destruct (length (p_sort s) <? length (p_key s ++ [p_cur s]))%nat eqn:E.
    - rewrite !app_length. simpl. lia.
    - apply Nat.ltb_ge in E. exact E.
  Qed.

  Lemma scan_pinv : forall ts s, pinv s -> pinv (scan ts s).
  Proof.
    fix IH 1. intros ts s J. destruct ts as [|t rest]; [exact J|].
    cbn [scan]. destruct (alnum t); [|apply IH; apply pinv_push; exact J].
    destruct (is_ch t 34).
    { destruct rest as [|t2 rest']; [exact J | apply IH; apply pinv_push; exact J]. }
    destruct (is_ch t 33); [apply IH; apply pinv_close; exact J|].
    destruct (is_ch t 64).
    { apply IH. destruct J as (A & B & C). unfold pinv. cbn [p_key p_sort p_fmt p_cur]. repeat split; auto.
      - rewrite app_length. simpl. lia.
      - discriminate. }
    destruct (is_ch t 124); [apply IH; apply pinv_close; exact J | apply IH; apply pinv_push; exact J].
  Qed.

  Theorem parse_entry_wf ts :
    let '(k, s, _) := parse_entry tx ts in (1 <= length k <= length s)%nat.
  Proof.
    unfold parse_entry. set (s0 := scan ts (mkP [] [] [] (COwn []))).
    assert (J : pinv s0).
    { apply scan_pinv. unfold pinv. simpl. repeat split; auto; try congruence; try discriminate. }
    assert (Jf : pinv (finish s0) /\ p_key (finish s0) <> []).
    { unfold finish. destruct (p_fmt s0) eqn:E.
      - split; [apply pinv_close; exact J|]. unfold close_key. cbn [p_key]. destruct (p_key s0); discriminate.
      - split; [exact J|]. destruct J as (_ & B & _). apply B. rewrite E. discriminate. }
    destruct Jf as [(A & _ & _) Nk]. rewrite !map_length. split; [|exact A].
    destruct (p_key (finish s0)); [congruence | simpl; lia].
  Qed.
End Parse.
