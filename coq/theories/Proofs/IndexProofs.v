(* C18: collects the proofs about Model/Index.v (IndexOrder: comparator; IndexSort: sorted(); IndexDigest: the prefix
   merge; IndexGroups: groups and columns; IndexParse: entry syntax) and adds the concrete instance that the extracted
   Model runs, the refutations for the comparator before fix-1, and the non-vacuity witnesses. *)
From Coq Require Import List ZArith Bool Arith Lia Permutation Sorted.
Import ListNotations.
From Verif Require Import Val Index.
From Verif Require Export IndexOrder IndexSort IndexDigest IndexGroups IndexParse IndexDocument IndexColumns.
Local Open Scope Z_scope.

(* the order on collation keys that run_case uses (sequences of integers, compared like Python tuples / strings) *)
Lemma lexZ_sto : sto zs_eqb zs_lt.
Proof. exact str_sto. Qed.

(* an injective rendering of token lists exists, so the hypothesis src_inj is satisfiable *)
Definition src_enc (l : list tok) : str := concat (map (fun t : tok => fst t :: Z.of_nat (length (snd t)) :: snd t) l).

Lemma app_eq_length {A} : forall (s s' r r' : list A), length s = length s' -> s ++ r = s' ++ r' -> s = s' /\ r = r'.
Proof.
  induction s as [|x s IH]; destruct s' as [|y s']; simpl; intros r r' L E; try discriminate; auto.
  injection E as E1 E2. injection L as L. destruct (IH s' r r' L E2). subst. auto.
Qed.

Lemma src_enc_inj : forall a b, src_enc a = src_enc b -> a = b.
Proof.
  unfold src_enc. induction a as [|[c s] a IH]; destruct b as [|[c' s'] b]; simpl; intro E; try discriminate; auto.
  injection E as E1 E2 E3. apply Nat2Z.inj in E2. destruct (app_eq_length _ _ _ _ E2 E3) as [Es Er].
  subst. f_equal. apply IH. exact Er.
Qed.

(* ---------- a concrete fallback collator (str.lower on ASCII) for the witnesses ---------- *)
Definition lower (c : Z) : Z := if (65 <=? c) && (c <=? 90) then c + 32 else c.
Definition ck_lower (s : str) : list Z := map lower s.

Definition L (c : Z) : tok := (11, [c]).
Definition ent (n : Z) (ts : list tok) : entry := entry_of tx_c n ts.
Definition lt_orig := entry_lt_orig ck_lower zs_eqb zs_lt tx_c.
Definition lt_fixed := entry_lt ck_lower zs_eqb zs_lt tx_c src_c.

(* b!p , B!q , b!q : before fix-1 the first two and the last two cannot be separated, yet the first is below the third *)
Theorem orig_comparator_not_swo :
  exists a b c, lt_orig a b = false /\ lt_orig b a = false /\ lt_orig b c = false /\ lt_orig c b = false /\ lt_orig a c = true.
Proof.
  exists (ent 0 [L 98; bang; L 112]), (ent 1 [L 66; bang; L 113]), (ent 2 [L 98; bang; L 113]).
  vm_compute. repeat split.
Qed.

(* \index{b}\index{B}\index{b}: with the comparator before fix-1 the line b is listed twice *)
Theorem orig_merge_split :
  exists es t p q, Forall wf es /\
    digest_with (entry_lt_orig ck_lower zs_eqb zs_lt tx_c) es = Some t /\
    map fst (nodes_f [] t) = [p; q; p].
Proof.
  exists [ent 0 [L 98]; ent 1 [L 66]; ent 2 [L 98]]. eexists. eexists. eexists.
  split; [|split].
  - repeat constructor.
  - vm_compute. reflexivity.
  - vm_compute. reflexivity.
Qed.

(* with the fixed comparator the same document gives the two lines B, b and b carries both pages in document order *)
Example fixed_merge_example :
  digest ck_lower zs_eqb zs_lt tx_c src_c [ent 0 [L 98]; ent 1 [L 66]; ent 2 [L 98]] =
  Some [Node [L 66] [66] [(0, 1)] []; Node [L 98] [98] [(0, 0); (0, 2)] []].
Proof. vm_compute. reflexivity. Qed.

(* a three-level example with a sort key, a see-format and a quoted special *)
Example parse_example :
  parse_entry tx_c [L 97; at_; (0, [116;101;120;116;98;102]); (1, [123]); L 65; (2, [125]); bang; dq; bang; L 120; bar; L 115; L 101; L 101; (1,[123]); L 121; (2,[125])] =
  ([[(0, [116;101;120;116;98;102]); (1, [123]); L 65; (2, [125])]; [bang; L 120]], [[97]; [33; 120]],
   (Some [(0, s_see); (1,[123]); L 121; (2,[125]); (0, s_ipn)], 1)).
Proof. vm_compute. reflexivity. Qed.

Lemma nonvacuous_example :
  Forall wf [ent 0 [L 98]; ent 1 [L 66]; ent 2 [L 98]] /\
  digest ck_lower zs_eqb zs_lt tx_c src_c [ent 0 [L 98]; ent 1 [L 66]; ent 2 [L 98]] =
    Some [Node [L 66] [66] [(0, 1)] []; Node [L 98] [98] [(0, 0); (0, 2)] []] /\
  split_columns (fun x : Z => x) [1; 1; 3; 1] 2 = Some [[1; 1; 3]; [1]].
Proof.
  split; [|split; vm_compute; reflexivity].
  repeat (apply Forall_cons; [unfold wf; simpl; lia|]). apply Forall_nil.
Qed.

(* a document of three \index commands:  b ,  B|see{x} ,  b@\textbf{b}!y  -- what it spells is well formed, and its index *)
Definition doc_example : list ientry :=
  [mkI [mkLevel None [L 98]] None;
   mkI [mkLevel None [L 66]] (Some (s_see, [(1, [123]); L 120; (2, [125])]));
   mkI [mkLevel (Some [L 98]) [(0, [116;101;120;116;98;102]); (1, [123]); L 98; (2, [125])]; mkLevel None [L 121]] None].

Lemma doc_example_ok :
  Forall ispec_ok doc_example /\
  digest ck_lower zs_eqb zs_lt tx_c src_c (entries_of tx_c doc_example) =
    Some [Node [L 66] [66] [(1, 1)] [];
          Node [(0, [116;101;120;116;98;102]); (1, [123]); L 98; (2, [125])] [98] [] [Node [L 121] [121] [(0, 2)] []];
          Node [L 98] [98] [(0, 0)] []].
Proof.
  split; [|vm_compute; reflexivity].
  repeat (apply Forall_cons; [split; [discriminate | simpl; auto]|]); [| apply Forall_nil].
  repeat split; try discriminate; repeat (apply Forall_cons; [reflexivity|]); apply Forall_nil.
Qed.

Lemma balance_example :
  split_columns (fun x : Z => x) [1; 1; 3; 1; 2; 2] 3 = Some [[1; 1; 3]; [1; 2]; [2]] /\
  Z.quot (fold_left (fun a it => a + it) [1; 1; 3; 1; 2; 2] 0) 3 = 3.
Proof. vm_compute. split; reflexivity. Qed.
