(* C18 x C01: from the CHARACTERS of the source to the stored index entry.  The token model of Model/Index.v
   ((catcode, characters) pairs) is connected to the proved tokenizer of C01 (Model/Tokenizer.v, Spec/LexItems.v):
   an \index command whose argument is written with the tokens ts is tokenized, under plasTeX's default category
   table, into \index { ts } ; hence (with M1) the entry that the characters spell is the entry that is stored. *)
From Coq Require Import List ZArith NArith Bool Arith Lia.
Import ListNotations.
From Verif Require Import Val Catcodes Tokenizer Lexer LexItems LexItemsProofs.
From Verif Require Index IndexParse.

Local Open Scope N_scope.

Notation T := default_table.
Notation code := (which_code default_table).

Definition zN (z : Z) : N := Z.to_N z.

(* the token of Model/Tokenizer.v that a token of Model/Index.v stands for, and back *)
Definition conv (t : Index.tok) : tok := Tok (zN (fst t)) (map zN (snd t)).
Definition unconv (t : tok) : Index.tok := match t with Tok k text => (Z.of_N k, map Z.of_N text) end.

(* how a token is written in the source (escape character: backslash) *)
Definition item_of (t : Index.tok) : option item :=
  let c := fst t in
  match snd t with
  | [] => None
  | [x] =>
      if Z.eqb c 10 then (if Z.eqb x 32 then Some (IBlanks 32 []) else None)
      else if Z.eqb c 0 then (if code (zN x) =? CC_LETTER then Some (ICtrlWord 92 (zN x) []) else Some (ICtrlSym 92 (zN x)))
      else Some (IChar (zN x))
  | x :: w => if Z.eqb c 0 then Some (ICtrlWord 92 (zN x) (map zN w)) else None
  end.

Fixpoint items_of (ts : list Index.tok) : option (list item) :=
  match ts with
  | [] => Some []
  | t :: r => match item_of t, items_of r with Some i, Some l => Some (i :: l) | _, _ => None end
  end.

Definition nonneg (t : Index.tok) : bool := Z.leb 0 (fst t) && forallb (Z.leb 0) (snd t).

(* the conditions under which the written tokens are read back as themselves (st: SM in the middle of a line, SS after a
   control word or a blank): a character token carries the category of its character; a blank is written only where
   TeX does not skip blanks (not after a control word, not after another blank) *)
Fixpoint lex_ok (st : lst) (ts : list Index.tok) : bool :=
  match ts with
  | [] => true
  | t :: r =>
      nonneg t &&
      match item_of t with
      | Some (IChar x) => (code x =? zN (fst t)) && lex_ok SM r
      | Some (IBlanks _ _) => (match st with SM => true | _ => false end) && lex_ok SS r
      | Some (ICtrlWord _ _ _) => lex_ok SS r
      | Some (ICtrlSym _ _) => lex_ok SM r
      | _ => false
      end
  end.

Lemma zN_of_N n : zN (Z.of_N n) = n.
Proof. apply N2Z.id. Qed.
Lemma unconv_conv t : nonneg t = true -> unconv (conv t) = t.
Proof.
  destruct t as [c s]. unfold nonneg, conv, unconv, zN. simpl. intro H. apply andb_true_iff in H. destruct H as [Hc Hs].
  apply Z.leb_le in Hc. rewrite Z2N.id by exact Hc. f_equal.
  induction s as [|x s IH]; simpl in *; auto. apply andb_true_iff in Hs. destruct Hs as [Hx Hs].
  apply Z.leb_le in Hx. rewrite Z2N.id by exact Hx. f_equal. apply IH. exact Hs.
Qed.

Lemma lex_toks : forall ts its st pv tail,
  items_of ts = Some its -> lex_ok st ts = true ->
  lex_items T st pv (its ++ [IChar tail]) = map conv ts ++ [Tok (code tail) [tail]] /\ map unconv (map conv ts) = ts.
Proof.
  induction ts as [|t r IH]; intros its st pv tail Hi Hl.
  - simpl in Hi. inversion Hi. subst. simpl. auto.
  - cbn [items_of] in Hi. destruct (item_of t) as [i|] eqn:Ei; [|discriminate].
    destruct (items_of r) as [l|] eqn:El; [|discriminate]. inversion Hi. subst its. clear Hi.
    cbn [lex_ok] in Hl. rewrite Ei in Hl. apply andb_true_iff in Hl. destruct Hl as [Hn Hl].
    assert (Hu : unconv (conv t) = t) by (apply unconv_conv; exact Hn).
    destruct t as [c s]. unfold item_of in Ei. cbn [fst snd] in *.
    destruct s as [|x [|y w]]; [discriminate| |].
    + destruct (Z.eqb c 10) eqn:E10.
      * destruct (Z.eqb x 32) eqn:E32; [|discriminate]. inversion Ei. subst i.
        apply Z.eqb_eq in E10. apply Z.eqb_eq in E32. subst c x.
        destruct st; try discriminate. simpl in Hl.
        destruct (IH l SS (Some space_tok) tail eq_refl Hl) as [A B].
        cbn [app lex_items map]. rewrite A, B, Hu. split; reflexivity.
      * destruct (Z.eqb c 0) eqn:E0.
        { apply Z.eqb_eq in E0. subst c.
          destruct (code (zN x) =? CC_LETTER) eqn:EL; inversion Ei; subst i.
          - destruct (IH l SS (Some (Tok CC_ESCAPE [zN x])) tail eq_refl Hl) as [A B].
            cbn [app lex_items map]. rewrite A, B, Hu. split; reflexivity.
          - destruct (IH l SM (Some (Tok CC_ESCAPE [zN x])) tail eq_refl Hl) as [A B].
            cbn [app lex_items map]. rewrite A, B, Hu. split; reflexivity. }
        { inversion Ei. subst i. apply andb_true_iff in Hl. destruct Hl as [Hc Hl]. apply N.eqb_eq in Hc.
          destruct (IH l SM (Some (Tok (code (zN x)) [zN x])) tail eq_refl Hl) as [A B].
          cbn [app lex_items map]. rewrite A, B, Hu. split; [|reflexivity].
          unfold conv at 1. cbn [fst snd map]. rewrite Hc. reflexivity. }
    + destruct (Z.eqb c 0) eqn:E0; [|discriminate]. inversion Ei. subst i. apply Z.eqb_eq in E0. subst c.
      destruct (IH l SS (Some (Tok CC_ESCAPE (zN x :: zN y :: map zN w))) tail eq_refl Hl) as [A B].
      cbn [app lex_items map]. rewrite A, B, Hu. split; reflexivity.
Qed.

(* \index{ ... } as lexical items *)
Definition index_cmd (its : list item) : list item :=
  ICtrlWord 92 105 [110; 100; 101; 120] :: IChar 123 :: its ++ [IChar 125].
Definition index_tokens (ts : list tok) : list tok :=
  Tok CC_ESCAPE [105; 110; 100; 101; 120] :: Tok CC_BGROUP [123] :: ts ++ [Tok CC_EGROUP [125]].

(* regenerated-table obligation: under plasTeX's default table the four makeindex specials and the blank have the
   categories index.invoke tests for, and the braces delimit *)
Lemma default_categories :
  code 34 = CC_OTHER /\ code 33 = CC_OTHER /\ code 64 = CC_OTHER /\ code 124 = CC_OTHER /\ code 32 = CC_SPACE /\
  code 123 = CC_BGROUP /\ code 125 = CC_EGROUP /\ code 92 = CC_ESCAPE.
Proof. vm_compute. repeat split; reflexivity. Qed.

Theorem index_source_tokens (ts : list Index.tok) (its : list item) :
  items_of ts = Some its -> lex_ok SM ts = true -> items_ok T (index_cmd its) = true ->
  tokenize T (print_items (index_cmd its)) = RToks (index_tokens (map conv ts)) /\ map unconv (map conv ts) = ts.
Proof.
  intros Hi Hl Hok. rewrite (items_tokenize T _ Hok). unfold index_cmd, index_tokens.
  cbn [lex_items].
  destruct (lex_toks ts its SM (Some (Tok (code 123) [123])) 125 Hi Hl) as [A B].
  rewrite A. split; [|exact B].
  destruct default_categories as (_ & _ & _ & _ & _ & C1 & C2 & _). rewrite C1, C2. reflexivity.
Qed.

(* with M1: the entry spelled by the characters is the entry stored *)
Theorem index_source_entry (tx : list Index.tok -> Index.str) (e : Index.ientry) (its : list item) :
  Index.i_levels e <> [] -> IndexParse.fmt_ok (Index.i_fmt e) ->
  items_of (Index.print_entry e) = Some its -> lex_ok SM (Index.print_entry e) = true -> items_ok T (index_cmd its) = true ->
  exists toks,
    tokenize T (print_items (index_cmd its)) = RToks (index_tokens toks) /\
    Index.parse_entry tx (map unconv toks) =
      (map Index.l_disp (Index.i_levels e), map (fun l => tx (Index.sort_part l)) (Index.i_levels e),
       match Index.i_fmt e with
       | None => (None, 0%Z)
       | Some (name, args) => (Some ((0%Z, name) :: args ++ [(0%Z, Index.s_ipn)]), Index.fmt_type name)
       end).
Proof.
  intros N F Hi Hl Hok. destruct (index_source_tokens _ _ Hi Hl Hok) as [A B].
  exists (map conv (Index.print_entry e)). split; [exact A|]. rewrite B. apply IndexParse.parse_entry_print; assumption.
Qed.

(* non-vacuity:  \index{Zeta!b@\textbf{B}|see{x y}}  *)
Definition ex_entry : Index.ientry :=
  Index.mkI [Index.mkLevel None [(11, [90]); (11, [101]); (11, [116]); (11, [97])]%Z;
             Index.mkLevel (Some [(11, [98])]%Z) [(0, [116;101;120;116;98;102]); (1, [123]); (11, [66]); (2, [125])]%Z]
            (Some ([115; 101; 101]%Z, [(1, [123]); (11, [120]); (10, [32]); (11, [121]); (2, [125])]%Z)).

Example index_source_example :
  exists its, items_of (Index.print_entry ex_entry) = Some its /\ lex_ok SM (Index.print_entry ex_entry) = true /\
              items_ok T (index_cmd its) = true /\
              print_items (index_cmd its) =
                [92;105;110;100;101;120;123; 90;101;116;97; 33; 98; 64; 92;116;101;120;116;98;102;123;66;125; 124;115;101;101;123;120;32;121;125; 125].
Proof. eexists. split; [vm_compute; reflexivity|]. vm_compute. repeat split; reflexivity. Qed.
