(* C09 -- proofs about Model/RefsDoc.v: documents = numbering machine (C08) + labels and references *)
From Coq Require Import List ZArith Bool Lia.
Import ListNotations.
From Verif Require Import Refs RefsSpec RefsProofs RefsDoc.
From Verif Require Counters CounterSyntax ClassCounters.
Local Open Scope Z_scope.

(* the numbers assigned to the objects n, n+1, ... *)
Fixpoint numlist (n : nat) (os : list oinfo) : list (obj * option str) :=
  match os with
  | [] => []
  | o :: t => (Z.of_nat n, o_number o) :: numlist (S n) t
  end.

Lemma numlist_app : forall a b n, numlist n (a ++ b) = numlist n a ++ numlist (n + length a) b.
Proof.
  induction a as [|x a IH]; intros b n; cbn.
  - rewrite Nat.add_0_r. reflexivity.
  - rewrite IH. f_equal. f_equal. f_equal. lia.
Qed.

Lemma numlist_keys_ge : forall os n k, In k (map fst (numlist n os)) -> (Z.of_nat n <= k)%Z.
Proof.
  induction os as [|o os IH]; intros n k H; cbn in H; [contradiction|].
  destruct H as [H|H]; [lia|]. apply IH in H. lia.
Qed.

Lemma numlist_keys_nodup : forall os n, NoDup (map fst (numlist n os)).
Proof.
  induction os as [|o os IH]; intro n; cbn; constructor; auto.
  intro H. apply numlist_keys_ge in H. lia.
Qed.

Lemma dget_numlist : forall os n i,
    dget Z.eqb (Z.of_nat (n + i)) (numlist n os) = option_map o_number (nth_error os i).
Proof.
  induction os as [|o os IH]; intros n i; cbn.
  - destruct i; reflexivity.
  - destruct i as [|i].
    + rewrite Nat.add_0_r, Z.eqb_refl. reflexivity.
    + replace (Z.of_nat (n + S i) =? Z.of_nat n) with false by (symmetry; apply Z.eqb_neq; lia).
      replace (n + S i)%nat with (S n + i)%nat by lia. apply IH.
Qed.

Lemma numberings_inl : forall ins, numberings (map inl_event ins) = [].
Proof. induction ins as [|i ins IH]; cbn; auto. destruct i; cbn; auto. Qed.

Section JointProofs.
  Context {CE CS : Type} (cstep : CE -> CS -> option (CS * list oinfo)).

  Lemma numberings_emit : forall os n inner, numberings (emit n os inner) = numlist n os.
  Proof.
    induction os as [|o os IH]; intros n inner; cbn [emit numlist]; auto.
    rewrite numberings_app, IH. destruct (o_numfirst o), (o_current o); cbn; rewrite ?numberings_app, ?numberings_inl; cbn; reflexivity.
  Qed.

  Lemma numberings_translate : forall d cs n es os,
      translate cstep d cs n = Some (es, os) -> numberings es = numlist n os.
  Proof.
    induction d as [|j d IH]; intros cs n es os H; cbn in H.
    - inversion H; subst. reflexivity.
    - destruct j as [e inner|i].
      + destruct (cstep e cs) as [[cs' os1]|]; [|discriminate].
        destruct (translate cstep d cs' (n + length os1)) as [[es2 os2]|] eqn:E; [|discriminate].
        inversion H; subst. rewrite numberings_app, numberings_emit, numlist_app. f_equal. eapply IH. exact E.
      + destruct (translate cstep d cs n) as [[es2 os2]|] eqn:E; [|discriminate].
        inversion H; subst. destruct i; cbn; eapply IH; exact E.
  Qed.

  (* J1: the number Model/Refs.v records for the i-th object of a document is the number the numbering machine gave it *)
  Theorem number_of_object : forall d cs es os,
      translate cstep d cs 0 = Some (es, os) ->
      forall i, number_spec es (Z.of_nat i) = match nth_error os i with Some o => o_number o | None => None end.
  Proof.
    intros d cs es os H i. unfold number_spec. rewrite (numberings_translate _ _ _ _ _ H).
    rewrite (dget_rev_nodup Z.eqb zeqb_spec) by apply numlist_keys_nodup.
    change i with (0 + i)%nat at 1. rewrite dget_numlist. destruct (nth_error os i); reflexivity.
  Qed.

  (* the numbering machine alone makes the same objects *)
  Lemma translate_run_numbering : forall d cs n es os,
      translate cstep d cs n = Some (es, os) -> run_numbering cstep (numbering_part d) cs = Some os.
  Proof.
    induction d as [|j d IH]; intros cs n es os H; cbn in H.
    - inversion H; reflexivity.
    - destruct j as [e inner|i]; cbn.
      + destruct (cstep e cs) as [[cs' os1]|]; [|discriminate].
        destruct (translate cstep d cs' (n + length os1)) as [[es2 os2]|] eqn:E; [|discriminate].
        inversion H; subst. rewrite (IH _ _ _ _ E). reflexivity.
      + destruct (translate cstep d cs n) as [[es2 os2]|] eqn:E; [|discriminate].
        inversion H; subst. eapply IH. exact E.
  Qed.

  (* ---- which objects can a label name ---------------------------------------------------------- *)

  (* every label event of a translated document is written without an explicit node, every current-label assignment
     names an object of the numbering machine that has a counter attribute *)
  Definition good_event (n m : nat) (os : list oinfo) (e : event) : Prop :=
    match e with
    | ELabel _ (Some _) => False
    | ECurrent o => exists i oi, (n <= i < m)%nat /\ o = Z.of_nat i /\ nth_error os (i - n) = Some oi /\ o_current oi = true
    | _ => True
    end.

  Lemma good_inl : forall n m os ins e, In e (map inl_event ins) -> good_event n m os e.
  Proof.
    intros n m os ins e H. apply in_map_iff in H. destruct H as [i [H _]]. subst. destruct i; cbn; auto.
  Qed.

  Lemma good_emit : forall os n inner e, In e (emit n os inner) -> good_event n (n + length os) os e.
  Proof.
    induction os as [|o os IH]; intros n inner e H; cbn [emit] in H; [contradiction|].
    apply in_app_or in H. destruct H as [H|H].
    - assert (Hc : In e ((if o_current o then [ECurrent (Z.of_nat n)] else []) ++ map inl_event (hd [] inner) ++ [ENumber (Z.of_nat n) (o_number o)])).
      { destruct (o_numfirst o); [|exact H].
        apply in_app_or in H. destruct H as [H|H].
        - apply in_or_app. right. apply in_or_app. right. exact H.
        - apply in_app_or in H. destruct H as [H|H]; apply in_or_app; [left|right; apply in_or_app; left]; exact H. }
      clear H. apply in_app_or in Hc. destruct Hc as [H|H].
      + destruct (o_current o) eqn:Ec; [|contradiction]. destruct H as [H|[]]. subst e. cbn.
        exists n, o. repeat split; try lia. rewrite Nat.sub_diag. reflexivity. exact Ec.
      + apply in_app_or in H. destruct H as [H|H].
        * eapply good_inl. exact H.
        * destruct H as [H|[]]. subst e. exact Logic.I.
    - apply IH in H. destruct e; cbn in *; auto.
      destruct H as [i [oi [H1 [H2 [H3 H4]]]]]. exists i, oi. repeat split; try lia; auto.
      replace (i - n)%nat with (S (i - S n)) by lia. exact H3.
  Qed.

  Lemma good_weaken : forall n m os e a b,
      good_event (n + length a) m os e -> good_event n m (a ++ os ++ b) e.
  Proof.
    intros n m os e a b H. destruct e; cbn in *; auto.
    destruct H as [i [oi [H1 [H2 [H3 H4]]]]]. exists i, oi. repeat split; try lia; auto.
    rewrite nth_error_app2 by lia. rewrite nth_error_app1.
    - rewrite <- H3. f_equal. lia.
    - apply nth_error_Some. replace (i - n - length a)%nat with (i - (n + length a))%nat by lia. congruence.
  Qed.

  Lemma good_translate : forall d cs n es os,
      translate cstep d cs n = Some (es, os) -> forall e, In e es -> good_event n (n + length os) os e.
  Proof.
    induction d as [|j d IH]; intros cs n es os H e Hin; cbn in H.
    - inversion H; subst. contradiction.
    - destruct j as [ce inner|i].
      + destruct (cstep ce cs) as [[cs' os1]|]; [|discriminate].
        destruct (translate cstep d cs' (n + length os1)) as [[es2 os2]|] eqn:E; [|discriminate].
        inversion H; subst. apply in_app_or in Hin. destruct Hin as [Hin|Hin].
        * apply good_emit in Hin. rewrite app_length.
          pose proof (good_weaken n (n + length os1) os1 e [] os2) as W. cbn in W. rewrite Nat.add_0_r in W. specialize (W Hin).
          destruct e; cbn in *; auto. destruct W as [i [oi [H1 [H2 [H3 H4]]]]]. exists i, oi. repeat split; try lia; auto.
        * pose proof (IH _ _ _ _ E e Hin) as G. rewrite app_length.
          pose proof (good_weaken n (n + length os1 + length os2) os2 e os1 []) as W. rewrite app_nil_r in W. specialize (W G).
          destruct e; cbn in *; auto. destruct W as [i [oi [H1 [H2 [H3 H4]]]]]. exists i, oi. repeat split; try lia; auto.
      + destruct (translate cstep d cs n) as [[es2 os2]|] eqn:E; [|discriminate].
        inversion H; subst. destruct Hin as [Hin|Hin].
        * subst e. destruct i; cbn; auto.
        * eapply IH; eauto.
  Qed.

  (* the objects labels attach to are objects made current by an event of the history (or the initial current object) *)
  Lemma attach_flat_objects : forall es c l o,
      (forall e, In e es -> match e with ELabel _ (Some _) => False | _ => True end) ->
      In (l, o) (attach_flat c es) -> c = Some o \/ In (ECurrent o) es.
  Proof.
    induction es as [|e es IH]; intros c l o Hg H; cbn in H; [contradiction|].
    assert (Hg' : forall e0, In e0 es -> match e0 with ELabel _ (Some _) => False | _ => True end).
    { intros e0 H0. apply Hg. right. exact H0. }
    destruct e; try (destruct (IH _ _ _ Hg' H) as [H1|H1]; [left; exact H1 | right; right; exact H1]).
    - destruct (IH _ _ _ Hg' H) as [H1|H1]; [inversion H1; subst; right; left; reflexivity | right; right; exact H1].
    - destruct node as [nd|]; [exfalso; apply (Hg (ELabel l0 (Some nd))); left; reflexivity|].
      destruct (name_of l0) as [k0|]; [|destruct (IH _ _ _ Hg' H) as [H1|H1]; [left; exact H1 | right; right; exact H1]].
      destruct c as [c0|]; [|destruct (IH _ _ _ Hg' H) as [H1|H1]; [left; exact H1 | right; right; exact H1]].
      destruct H as [H|H].
      + inversion H; subst. left. reflexivity.
      + destruct (IH _ _ _ Hg' H) as [H1|H1]; [left; exact H1 | right; right; exact H1].
  Qed.

  (* J2: the printed number of a resolved reference is the number the numbering machine gave its target *)
  Theorem ref_number_joint : forall d cs es os,
      translate cstep d cs 0 = Some (es, os) -> NoDup (eff_labels es) ->
      forall r k l o, last_ref es r k = Some l -> target es l = Some o ->
        exists i oi, o = Z.of_nat i /\ nth_error os i = Some oi /\ o_current oi = true /\
                     dget hk_eqb (r, k) (idrefs (run es)) = Some (TObj o) /\ printed (run es) r k = o_number oi.
  Proof.
    intros d cs es os H Hnd r k l o Hl Ht.
    pose proof (good_translate _ _ _ _ _ H) as G.
    assert (Hin : In (l, o) (attachments es)). { apply (dget_In str_eqb str_eqb_spec). exact Ht. }
    apply attach_flat_objects in Hin.
    - destruct Hin as [Hin|Hin]; [discriminate|].
      apply G in Hin. cbn in Hin. destruct Hin as [i [oi [H1 [H2 [H3 H4]]]]]. rewrite Nat.sub_0_r in H3.
      exists i, oi. repeat split; auto.
      + pose proof (resolve_all es Hnd r k l Hl) as R. rewrite Ht in R. exact R.
      + rewrite (ref_number es Hnd r k l o Hl Ht). subst o. rewrite (number_of_object _ _ _ _ H). rewrite H3. reflexivity.
    - intros e He. apply G in He. destruct e; auto.
  Qed.

  (* ---- J3: a label written in a numbered object attaches to that object ------------------------- *)

  Lemma attach_inl : forall ins tail o l k,
      In (NLabel l) ins -> name_of l = Some k -> In (k, o) (attach_flat (Some o) (map inl_event ins ++ tail)).
  Proof.
    induction ins as [|i ins IH]; intros tail o l k Hin Hn; [contradiction|].
    destruct Hin as [Hin|Hin].
    - subst i. cbn. rewrite Hn. left. reflexivity.
    - destruct i; cbn; try (eapply IH; eassumption).
      destruct (name_of l0); [right|]; eapply IH; eassumption.
  Qed.

  Lemma attach_flat_app_r : forall a b c x, (forall c', In x (attach_flat c' b)) -> In x (attach_flat c (a ++ b)).
  Proof. intros a b c x H. rewrite attach_flat_app. apply in_or_app. right. apply H. Qed.

  Lemma attach_flat_app_l : forall a b c x, In x (attach_flat c a) -> In x (attach_flat c (a ++ b)).
  Proof. intros a b c x H. rewrite attach_flat_app. apply in_or_app. left. exact H. Qed.

  (* inside the block of events of one numbering event *)
  Lemma attach_emit : forall os c n inner j oj ins l k,
      nth_error os j = Some oj -> o_current oj = true -> nth_error inner j = Some ins ->
      In (NLabel l) ins -> name_of l = Some k ->
      In (k, Z.of_nat (n + j)) (attach_flat c (emit n os inner)).
  Proof.
    induction os as [|o os IH]; intros c n inner j oj ins l k Ho Hc Hi Hin Hn; [destruct j; discriminate|].
    destruct j as [|j]; cbn [emit].
    - cbn in Ho. inversion Ho; subst o. destruct inner as [|i0 inner]; [discriminate|]. cbn in Hi. inversion Hi; subst i0.
      rewrite Nat.add_0_r. apply attach_flat_app_l. rewrite Hc. cbn [hd].
      destruct (o_numfirst oj).
      + cbn. rewrite <- (app_nil_r (map inl_event ins)). apply (attach_inl ins [] (Z.of_nat n) l k Hin Hn).
      + cbn. apply (attach_inl ins [ENumber (Z.of_nat n) (o_number oj)] (Z.of_nat n) l k Hin Hn).
    - apply attach_flat_app_r. intro c'. replace (n + S j)%nat with (S n + j)%nat by lia.
      eapply IH; eauto. destruct inner; [destruct j; discriminate | exact Hi].
  Qed.

  (* where the block of a numbering event sits in the translated history *)
  Lemma translate_block : forall d cs n es os e inner,
      translate cstep d cs n = Some (es, os) -> In (JNum e inner) d ->
      exists pre post m os_e cs1 cs2,
        cstep e cs1 = Some (cs2, os_e) /\
        es = pre ++ emit (n + m) os_e inner ++ post /\
        forall j oj, nth_error os_e j = Some oj -> nth_error os (m + j) = Some oj.
  Proof.
    induction d as [|jv d IH]; intros cs n es os e inner H Hin; [contradiction|]. cbn in H.
    destruct jv as [ce inner0|i].
    - destruct (cstep ce cs) as [[cs' os1]|] eqn:Es; [|discriminate].
      destruct (translate cstep d cs' (n + length os1)) as [[es2 os2]|] eqn:E; [|discriminate].
      inversion H; subst. destruct Hin as [Hin|Hin].
      + inversion Hin; subst. exists [], es2, 0%nat, os1, cs, cs'. split; [exact Es|]. split.
        * rewrite Nat.add_0_r. reflexivity.
        * intros j oj Hj. cbn. rewrite nth_error_app1; auto. apply nth_error_Some. congruence.
      + destruct (IH _ _ _ _ _ _ E Hin) as [pre [post [m [os_e [cs1 [cs2 [H0 [H1 H2]]]]]]]].
        exists (emit n os1 inner0 ++ pre), post, (length os1 + m)%nat, os_e, cs1, cs2. split; [exact H0|]. split.
        * rewrite H1, <- app_assoc. replace (n + (length os1 + m))%nat with (n + length os1 + m)%nat by lia. reflexivity.
        * intros j oj Hj. rewrite nth_error_app2 by lia. replace (length os1 + m + j - length os1)%nat with (m + j)%nat by lia. auto.
    - destruct (translate cstep d cs n) as [[es2 os2]|] eqn:E; [|discriminate].
      inversion H; subst. destruct Hin as [Hin|Hin]; [discriminate|].
      destruct (IH _ _ _ _ _ _ E Hin) as [pre [post [m [os_e [cs1 [cs2 [H0 [H1 H2]]]]]]]].
      exists (inl_event i :: pre), post, m, os_e, cs1, cs2. split; [exact H0|]. split; auto. rewrite H1. reflexivity.
  Qed.

  (* J3: whatever stands before and after: a label written in the arguments of an object that has a counter attribute
     (title, caption, optional argument, eqnarray row) names that object.  [os_e] are the objects the numbering event makes,
     [m] is the number of objects made before it. *)
  Theorem label_in_object : forall d cs es os e inner,
      translate cstep d cs 0 = Some (es, os) -> In (JNum e inner) d ->
      exists m os_e cs1 cs2,
        cstep e cs1 = Some (cs2, os_e) /\
        (forall j oj, nth_error os_e j = Some oj -> nth_error os (m + j) = Some oj) /\
        forall j oj ins l k,
          nth_error os_e j = Some oj -> o_current oj = true -> nth_error inner j = Some ins ->
          In (NLabel l) ins -> name_of l = Some k ->
          In (k, Z.of_nat (m + j)) (attachments es).
  Proof.
    intros d cs es os e inner H Hin.
    destruct (translate_block _ _ _ _ _ _ _ H Hin) as [pre [post [m [os_e [cs1 [cs2 [H0 [H1 H2]]]]]]]]. cbn in H1.
    exists m, os_e, cs1, cs2. split; [exact H0|]. split; [exact H2|].
    intros j oj ins l k Ho Hc Hi Hl Hn.
    subst es. unfold attachments. apply attach_flat_app_r. intro c'. apply attach_flat_app_l.
    eapply attach_emit; eauto.
  Qed.
End JointProofs.

(* J4: "directly after": once an object is the current label, every label written before the next object becomes current
   -- whatever references, groups or (event-less) commands without a counter stand in between -- names that object *)
Theorem label_directly_after : forall pre o ins post l k,
    In (NLabel l) ins -> name_of l = Some k ->
    In (k, o) (attachments (pre ++ ECurrent o :: map inl_event ins ++ post)).
Proof.
  intros pre o ins post l k Hin Hn. unfold attachments. rewrite attach_flat_app. apply in_or_app. right.
  cbn. eapply attach_inl; eassumption.
Qed.

(* ================================================================================================ *)
(* instance: Model/Counters.v (C08) as the numbering machine *)

Lemma c08_run_events_acc : forall cls depth es ms acc,
    Counters.run_events cls depth es ms acc =
    match Counters.run_events cls depth es ms [] with
    | Counters.Ok (ms', o) => Counters.Ok (ms', acc ++ o)
    | Counters.Crash k => Counters.Crash k
    | Counters.Fuel => Counters.Fuel
    end.
Proof.
  intros cls depth es. induction es as [|e es IH]; intros ms acc; cbn.
  - rewrite app_nil_r. reflexivity.
  - destruct (Counters.run_event cls depth e ms) as [[ms1 o]| |]; cbn; auto.
    rewrite (IH ms1 (acc ++ o)), (IH ms1 o).
    destruct (Counters.run_events cls depth es ms1 []) as [[ms2 o2]| |]; auto. rewrite app_assoc. reflexivity.
Qed.

Lemma c08_objects_app : forall a b, c08_objects (a ++ b) = c08_objects a ++ c08_objects b.
Proof. intros. unfold c08_objects. apply filter_app. Qed.

(* the objects of a translated document are the outputs of Counters.run_events (every output except those of
   \arabic / \the... printing commands), with the same printed numbers *)
Lemma c08_run_numbering : forall cls depth es ms os,
    run_numbering (c08_step cls depth) es ms = Some os ->
    exists ms' outs, Counters.run_events cls depth es ms [] = Counters.Ok (ms', outs) /\
                     map o_number os = map snd (c08_objects outs).
Proof.
  intros cls depth es. induction es as [|e es IH]; intros ms os H; cbn in H.
  - inversion H; subst. exists ms, []. split; reflexivity.
  - unfold c08_step in H at 1. cbn [Counters.run_events].
    destruct (Counters.run_event cls depth e ms) as [[ms1 o]| |]; try discriminate.
    destruct (run_numbering (c08_step cls depth) es ms1) as [os2|] eqn:E; [|discriminate].
    inversion H; subst. destruct (IH _ _ E) as [ms' [outs [H1 H2]]].
    exists ms', (o ++ outs). split.
    + cbn. rewrite c08_run_events_acc, H1. reflexivity.
    + rewrite map_app, c08_objects_app, map_app, H2. f_equal. unfold c08_objects. rewrite map_map. reflexivity.
Qed.

(* J2 for C08's numbering: the printed number of a resolved reference is the number Counters.number_doc gives its target *)
Theorem ref_number_c08 : forall cls depth d es os,
    translate_c08 cls depth d = Some (es, os) -> NoDup (eff_labels es) ->
    exists ms outs,
      Counters.number_doc cls depth (numbering_part d) = Counters.Ok (ms, outs) /\
      forall r k l o, last_ref es r k = Some l -> target es l = Some o ->
        exists i, o = Z.of_nat i /\
                  dget hk_eqb (r, k) (idrefs (run es)) = Some (TObj o) /\
                  Some (printed (run es) r k) = option_map snd (nth_error (c08_objects outs) i).
Proof.
  intros cls depth d es os H Hnd. unfold translate_c08 in H.
  pose proof (translate_run_numbering _ _ _ _ _ _ H) as Hr.
  destruct (c08_run_numbering _ _ _ _ _ Hr) as [ms [outs [H1 H2]]].
  exists ms, outs. split; [exact H1|].
  intros r k l o Hl Ht.
  destruct (ref_number_joint _ _ _ _ _ H Hnd r k l o Hl Ht) as [i [oi [E1 [E2 [E3 [E4 E5]]]]]].
  exists i. repeat split; auto.
  assert (Hm : nth_error (map o_number os) i = nth_error (map snd (c08_objects outs)) i) by (rewrite H2; reflexivity).
  rewrite !nth_error_map, E2 in Hm. cbn in Hm. rewrite E5. exact Hm.
Qed.
