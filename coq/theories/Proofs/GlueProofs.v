(* C05 -- glue: readGlue on the printed form of any glue value (dimension, optional `plus` stretch, optional `minus` shrink,
   each in any unit or fil order) returns exactly the three components and consumes exactly the literal. *)
From Coq Require Import List ZArith Bool QArith Qabs Lia.
From Verif Require Import Val Units Numeric NumericSpec NumericProofs.
Import ListNotations.
Local Open Scope Z_scope.

(* ================================================================ keywords, generally *)

Lemma match_word_split : forall l1 l2 toks rest acc,
  Forall kw_tok toks -> length l1 = length toks ->
  match_word (l1 ++ l2) (toks ++ rest) acc =
  if list_eqb (map upper (codes toks)) l1 then match_word l2 rest (rev toks ++ acc) else (false, rev acc ++ toks ++ rest).
Proof.
  induction l1 as [|l ls IH]; intros l2 toks rest acc Hk Hlen.
  - destruct toks; [|discriminate]. reflexivity.
  - destruct toks as [|t toks]; [discriminate|]. inversion Hk as [|? ? Ht Hk']; subst.
    destruct Ht as (cat & c & -> & _ & _).
    cbn [app match_word is_element tok_upper_is codes map list_eqb].
    destruct (upper c =? l) eqn:E; cbn [andb]; [|reflexivity].
    rewrite (IH l2 toks rest (Ch cat c :: acc) Hk' (eq_add_S _ _ Hlen)).
    change (map (fun t : tok => match t with Ch _ c0 => c0 | Cs _ _ => 0 end) toks) with (codes toks).
    destruct (list_eqb (map upper (codes toks)) ls).
    + cbn [rev]. rewrite <- app_assoc. reflexivity.
    + cbn [rev]. rewrite <- app_assoc. reflexivity.
Qed.

(* a word that is not matched and leaves the stream as it was *)
Definition misses (w : list Z) (s : list tok) : Prop := match_word (map upper w) s [] = (false, s).

Lemma keyword_loop_miss : forall w ws o s, misses w s -> keyword_loop (w :: ws) o s = keyword_loop ws o s.
Proof. intros w ws o s H. cbn [keyword_loop]. rewrite H. reflexivity. Qed.

Lemma keyword_loop_misses : forall pre ws o s, Forall (fun w => misses w s) pre -> keyword_loop (pre ++ ws) o s = keyword_loop ws o s.
Proof. induction pre as [|w pre IH]; intros ws o s H; [reflexivity|]. inversion H; subst. cbn [app]. rewrite keyword_loop_miss; auto. Qed.

Lemma keyword_loop_match : forall u ws o toks rest, spells u toks ->
  keyword_loop (u :: ws) o (toks ++ rest) = (Some u, if o then read_one_optional_space rest else rest).
Proof.
  intros u ws o toks rest (Hk & Hup). cbn [keyword_loop].
  rewrite (match_word_chars (map upper u) toks rest [] Hk).
  - rewrite Hup. assert (list_eqb (map upper u) (map upper u) = true) as -> by (apply list_eqb_eq; reflexivity). reflexivity.
  - apply (f_equal (@length Z)) in Hup. unfold codes in Hup. rewrite !map_length in Hup. rewrite map_length. exact Hup.
Qed.

(* a shorter or equally long word whose letters differ from the head of the tokens misses *)
Lemma misses_prefix : forall w t1 t2 rest, Forall kw_tok t1 -> length t1 = length w ->
  map upper (codes t1) <> map upper w -> misses w (t1 ++ t2 ++ rest).
Proof.
  intros w t1 t2 rest Hk Hlen Hne. unfold misses.
  rewrite <- (app_nil_r (map upper w)).
  rewrite (match_word_split (map upper w) [] t1 (t2 ++ rest) [] Hk) by (rewrite map_length; auto).
  destruct (list_eqb (map upper (codes t1)) (map upper w)) eqn:E; [apply list_eqb_eq in E; congruence|reflexivity].
Qed.

(* a longer word that continues with the letter x misses when the next token does not spell x (and is not an element,
   which readKeyword would drop) *)
Definition not_letter_next (x : Z) (rest : list tok) : Prop :=
  match rest with [] => True | t :: _ => is_element t = false /\ tok_upper_is t x = false end.

Lemma misses_longer : forall l1 x l2 toks rest, Forall kw_tok toks -> map upper (codes toks) = l1 ->
  not_letter_next x rest -> match_word (l1 ++ x :: l2) (toks ++ rest) [] = (false, toks ++ rest).
Proof.
  intros l1 x l2 toks rest Hk Hup Hn.
  rewrite (match_word_split l1 (x :: l2) toks rest [] Hk).
  - rewrite Hup. assert (list_eqb l1 l1 = true) as -> by (apply list_eqb_eq; reflexivity).
    rewrite app_nil_r. destruct rest as [|t r]; cbn [match_word].
    + rewrite rev_involutive, app_nil_r. reflexivity.
    + destruct Hn as (He & Hx). rewrite He, Hx, rev_involutive. reflexivity.
  - subst l1. unfold codes. rewrite !map_length. reflexivity.
Qed.

(* ================================================================ the unit keyword for a unit list U *)

Definition unit_reads (U : list (list Z)) (u : list Z) (utoks rest : list tok) : Prop :=
  (forall r, keyword_loop [kw_true] true (utoks ++ r) = (None, utoks ++ r)) /\
  keyword_loop U true (utoks ++ rest) = (Some u, read_one_optional_space rest).

Lemma upper_idem : forall c, upper (upper c) = upper c.
Proof.
  intros c. unfold upper. destruct ((97 <=? c) && (c <=? 122)) eqn:E; [|rewrite E; reflexivity].
  apply andb_prop in E. destruct E as (E1 & E2). apply Z.leb_le in E1, E2.
  replace ((97 <=? c - 32) && (c - 32 <=? 122)) with false; [reflexivity|].
  symmetry. apply andb_false_iff. left. apply Z.leb_gt. lia.
Qed.

Lemma not_true_kw : forall u utoks, spells u utoks -> match u with c0 :: _ => upper c0 <> 84 | [] => False end ->
  forall r, keyword_loop [kw_true] true (utoks ++ r) = (None, utoks ++ r).
Proof.
  intros u utoks (Hk & Hup) Hu r. destruct u as [|c0 u']; [destruct Hu|].
  destruct utoks as [|t0 ut]; [discriminate|]. inversion Hk as [|? ? Ht0 _]; subst.
  destruct Ht0 as (cat & c & -> & _ & _).
  assert (Hc : upper c = upper c0) by (cbn in Hup; inversion Hup; reflexivity).
  cbn [keyword_loop app map kw_true]. cbn [match_word is_element tok_upper_is]. change (upper 116) with 84.
  rewrite Hc. replace (upper c0 =? 84) with false by (symmetry; apply Z.eqb_neq, Hu). reflexivity.
Qed.

Lemma read_unit_gen : forall U tr utoks u f rest lvl0,
  true_part tr -> spells u utoks -> utoks <> [] -> unit_reads U u utoks rest -> dimen_of_unit u = Some f ->
  forall n1, read_unit_of_measure U (blanks n1 ++ tr ++ utoks ++ rest) lvl0 = Ok f (read_one_optional_space rest) lvl0.
Proof.
  intros U tr utoks u f rest lvl0 Htr Hsp Hne (Hnot_t & Hunits) Hf n1.
  destruct Hsp as (Hk & Hup).
  assert (Hhead : exists t0 r0, tr ++ utoks ++ rest = t0 :: r0 /\ kw_tok t0).
  { destruct Htr as [->|(tt & n2 & -> & (Hkt & Hupt))].
    - destruct utoks as [|t0 ut]; [congruence|]. inversion Hk; subst. cbn. eauto.
    - destruct tt as [|t0 tt']; [discriminate|]. inversion Hkt; subst. cbn. eauto. }
  destruct Hhead as (t0 & r0 & HK & Ht0).
  unfold read_unit_of_measure. rewrite ros_blanks, HK, (ros_kw t0 r0 Ht0).
  destruct (kw_tok_inv t0 Ht0) as (cat0 & c0 & -> & Hm0 & _ & _).
  rewrite (expand1_plain _ _ _ Hm0). cbv zeta. rewrite <- HK.
  unfold read_keyword.
  assert (HrosK : read_optional_spaces (tr ++ utoks ++ rest) = tr ++ utoks ++ rest).
  { rewrite HK. apply ros_kw. exists cat0, c0. destruct Ht0 as (a & b & E & H1 & H2). inversion E; subst. auto. }
  rewrite HrosK.
  assert (Hros2 : read_optional_spaces (utoks ++ rest) = utoks ++ rest).
  { destruct utoks as [|t1 ut]; [congruence|]. inversion Hk; subst. apply ros_kw. assumption. }
  destruct Htr as [->|(tt & n2 & -> & (Hkt & Hupt))].
  - cbn [app]. rewrite Hnot_t, Hros2, Hunits. cbn [hd_error]. rewrite Hf. replace (lvl0 - 1 + 1) with lvl0 by lia. reflexivity.
  - rewrite <- !app_assoc. cbn [keyword_loop].
    assert (Hlt : length tt = length (map upper kw_true)).
    { apply (f_equal (@length Z)) in Hupt. unfold codes in Hupt. rewrite !map_length in Hupt. rewrite map_length. exact Hupt. }
    rewrite (match_word_chars (map upper kw_true) tt _ [] Hkt Hlt).
    change [116; 114; 117; 101] with kw_true in Hupt. rewrite Hupt.
    assert (list_eqb (map upper kw_true) (map upper kw_true) = true) as -> by (apply list_eqb_eq; reflexivity).
    rewrite ros_one_space, ros_blanks, Hros2, Hunits. cbn [hd_error]. rewrite Hf. replace (lvl0 - 1 + 1) with lvl0 by lia. reflexivity.
Qed.

(* sign run, decimal, blanks, [true], unit -- for any unit list whose keyword search finds the unit *)
Lemma read_dimen_gen : forall U sr d n1 tr utoks u f rest lvl0,
  declit_ok d -> true_part tr -> spells u utoks -> utoks <> [] -> unit_reads U u utoks rest -> dimen_of_unit u = Some f ->
  exists q, read_dimen U (print_signs sr ++ print_dec d ++ blanks n1 ++ tr ++ utoks ++ rest) lvl0
            = Ok (scale_unit (inject_Z (sign_value sr) * q) f) (read_one_optional_space rest) lvl0 /\
            (q == dec_value d)%Q.
Proof.
  intros U sr d n1 tr utoks u f rest lvl0 Hd Htr Hsp Hne Hur Hf.
  set (K := tr ++ utoks ++ rest).
  assert (HK : exists t0 r0, K = t0 :: r0 /\ kw_tok t0).
  { unfold K. destruct Hsp as (Hk & Hup).
    destruct Htr as [->|(tt & n2 & -> & (Hkt & Hupt))].
    - destruct utoks as [|t0 ut]; [congruence|]. inversion Hk; subst. cbn. eauto.
    - destruct tt as [|t0 tt']; [discriminate|]. inversion Hkt; subst. cbn. eauto. }
  destruct HK as (t0 & r0 & HK & Ht0).
  destruct (blank_or_kw_ends (lvl0 - 1) n1 K t0 r0 HK Ht0) as (Hend & Hnp & (np & Hpeek) & (ns & Hseq)).
  assert (Hhead : exists cat c pd, print_dec d = Ch cat c :: pd /\ has_macro cat = false /\ stops_signs (Ch cat c)).
  { destruct d as [ip pt fp]. destruct Hd as (Hip & _ & Hpt). unfold print_dec. cbn [d_ip d_point d_fp] in *.
    destruct ip as [|i ip'].
    - destruct pt as [p|]; [|destruct Hpt; congruence]. destruct (point_tok_inv p Hpt) as (cat & c & -> & Hm & Hp & _ & Hc10).
      exists cat, c, fp. split; [reflexivity|]. split; [exact Hm|]. apply point_stops_signs; auto.
    - inversion Hip as [|? ? Hi _]; subst. destruct Hi as (cat & c & -> & Hcat & Hm).
      exists cat, c, (ip' ++ match pt with Some p => p :: fp | None => [] end).
      split; [reflexivity|]. split; [apply has_macro_11_12, Hcat|].
      apply (digit_stops_signs tex_dec cat c); auto. intros x Hx. apply (proj1 (tex_sets_sub x)), Hx. }
  destruct Hhead as (cat & c & pd & Hpd & Hm & Hstop).
  destruct (read_decimal_print (lvl0 - 1) (mkSR 0 []) d (blanks n1 ++ K) Hd Hend (fun _ => Hnp)) as (q & Hq & Hqv).
  change (print_signs (mkSR 0 [])) with (@nil tok) in Hq. cbn [app] in Hq.
  unfold read_dimen. fold K.
  replace (print_signs sr ++ print_dec d ++ blanks n1 ++ K) with (print_signs sr ++ Ch cat c :: pd ++ blanks n1 ++ K)
    by (rewrite Hpd; reflexivity).
  rewrite (read_signs_print (lvl0 - 1) sr (Ch cat c) (Ch cat c) _ (expand1_plain _ _ _ Hm) Hstop).
  rewrite (expand1_plain _ _ _ Hm). cbv zeta.
  replace (Ch cat c :: pd ++ blanks n1 ++ K) with (print_dec d ++ blanks n1 ++ K) by (rewrite Hpd; reflexivity).
  rewrite Hq.
  assert (Hrest : exists n', dec_rest (lvl0 - 1) d (blanks n1 ++ K) = blanks n' ++ tr ++ utoks ++ rest).
  { unfold dec_rest. destruct (d_point d); [exists ns; exact Hseq|exists np; exact Hpeek]. }
  destruct Hrest as (n' & ->).
  rewrite (read_unit_gen U tr utoks u f rest (lvl0 - 1) Htr Hsp Hne Hur Hf n').
  exists q. split.
  - replace (lvl0 - 1 + 1) with lvl0 by lia. reflexivity.
  - rewrite Hqv. change (sign_value (mkSR 0 [])) with 1. change (inject_Z 1) with 1%Q. ring.
Qed.

(* ================================================================ the unit lists of readDimen / readStretch / readShrink *)

Definition fil3 : list (list Z) := [s_filll; s_fill; s_fil].
Definition UF : list (list Z) := dimen_units ++ fil3.

Lemma UF_is_stretch_shrink : dimen_units ++ fil_units = UF /\ dimen_units ++ fil_units_minus = UF.
Proof. split; reflexivity. Qed.

(* w is no longer than u and differs from the head of u (letters upper-cased) *)
Definition differs (u w : list Z) : bool :=
  (length w <=? length u)%nat && negb (list_eqb (firstn (length w) (map upper u)) (map upper w)).

Lemma firstn_app_exact : forall A (a b : list A), firstn (length a) (a ++ b) = a.
Proof. intros A a b. rewrite firstn_app, Nat.sub_diag, firstn_all. cbn. apply app_nil_r. Qed.

Lemma Forall_firstn : forall A (P : A -> Prop) n l, Forall P l -> Forall P (firstn n l).
Proof. intros A P n. induction n as [|n IH]; intros l H; [constructor|]. destruct l; [constructor|]. inversion H; subst. cbn. constructor; auto. Qed.

Lemma misses_differs : forall u w toks rest, spells u toks -> differs u w = true -> misses w (toks ++ rest).
Proof.
  intros u w toks rest (Hk & Hup) Hd. unfold differs in Hd. apply andb_prop in Hd. destruct Hd as (Hl & Hne).
  apply Nat.leb_le in Hl. apply negb_true_iff in Hne.
  assert (Hlen : length toks = length u).
  { apply (f_equal (@length Z)) in Hup. unfold codes in Hup. rewrite !map_length in Hup. exact Hup. }
  rewrite <- (firstn_skipn (length w) toks), <- app_assoc.
  apply misses_prefix.
  - apply Forall_firstn, Hk.
  - rewrite firstn_length. lia.
  - unfold codes. rewrite <- !firstn_map. fold (codes toks). rewrite Hup. intros E. rewrite E in Hne.
    assert (list_eqb (map upper w) (map upper w) = true) by (apply list_eqb_eq; reflexivity). congruence.
Qed.

Lemma dimen_units_split : forall u, In u dimen_units ->
  exists pre post, dimen_units = pre ++ u :: post /\ forallb (differs u) pre = true.
Proof.
  intros u H. cbn in H.
  destruct H as [<-|H]; [exists (firstn 0 dimen_units), (skipn 1 dimen_units); split; reflexivity|].
  destruct H as [<-|H]; [exists (firstn 1 dimen_units), (skipn 2 dimen_units); split; reflexivity|].
  destruct H as [<-|H]; [exists (firstn 2 dimen_units), (skipn 3 dimen_units); split; reflexivity|].
  destruct H as [<-|H]; [exists (firstn 3 dimen_units), (skipn 4 dimen_units); split; reflexivity|].
  destruct H as [<-|H]; [exists (firstn 4 dimen_units), (skipn 5 dimen_units); split; reflexivity|].
  destruct H as [<-|H]; [exists (firstn 5 dimen_units), (skipn 6 dimen_units); split; reflexivity|].
  destruct H as [<-|H]; [exists (firstn 6 dimen_units), (skipn 7 dimen_units); split; reflexivity|].
  destruct H as [<-|H]; [exists (firstn 7 dimen_units), (skipn 8 dimen_units); split; reflexivity|].
  destruct H as [<-|H]; [exists (firstn 8 dimen_units), (skipn 9 dimen_units); split; reflexivity|].
  destruct H as [<-|H]; [exists (firstn 9 dimen_units), (skipn 10 dimen_units); split; reflexivity|].
  destruct H as [<-|H]; [exists (firstn 10 dimen_units), (skipn 11 dimen_units); split; reflexivity|].
  destruct H.
Qed.

Lemma Forall_misses : forall u pre toks rest, spells u toks -> forallb (differs u) pre = true ->
  Forall (fun w => misses w (toks ++ rest)) pre.
Proof.
  intros u pre toks rest Hsp H. apply Forall_forall. intros w Hw.
  apply (misses_differs u w toks rest Hsp). exact (proj1 (forallb_forall _ _) H w Hw).
Qed.

Lemma first_letter_not_t : forallb (fun w => match w with c :: _ => negb (upper c =? 84) | [] => false end) UF = true.
Proof. vm_compute. reflexivity. Qed.

Lemma UF_nonempty : forall u toks, In u UF -> spells u toks -> toks <> [].
Proof.
  intros u toks Hu (_ & Hup) ->. cbn in Hup.
  assert (u <> []).
  { intros ->. cbn in Hu. repeat (destruct Hu as [Hu|Hu]; [discriminate|]). destruct Hu. }
  destruct u; [congruence|discriminate].
Qed.

(* the keyword search finds every unit of dimen.units + [filll, fill, fil]; after fil and fill the next token must not spell
   one more l (that would be the next order, in TeX too) nor be an already expanded element (readKeyword drops it) *)
Theorem unit_reads_UF : forall u utoks rest,
  In u UF -> spells u utoks ->
  (u = s_fil \/ u = s_fill -> not_letter_next 76 rest) ->
  unit_reads UF u utoks rest.
Proof.
  intros u utoks rest Hu Hsp Hrest. split.
  - apply (not_true_kw u utoks Hsp).
    pose proof (proj1 (forallb_forall _ _) first_letter_not_t u Hu) as H. destruct u as [|c0 u']; [discriminate|].
    apply negb_true_iff, Z.eqb_neq in H. exact H.
  - unfold UF in *. apply in_app_or in Hu. destruct Hu as [Hu|Hu].
    + destruct (dimen_units_split u Hu) as (pre & post & -> & Hpre).
      rewrite <- app_assoc. rewrite (keyword_loop_misses pre _ true _ (Forall_misses u pre utoks rest Hsp Hpre)).
      cbn [app]. apply keyword_loop_match, Hsp.
    + cbn in Hu. destruct Hu as [<-|[<-|[<-|[]]]].
      * (* filll *)
        rewrite (keyword_loop_misses dimen_units _ true _ (Forall_misses s_filll dimen_units utoks rest Hsp eq_refl)).
        apply keyword_loop_match, Hsp.
      * (* fill: filll is tried first *)
        rewrite (keyword_loop_misses dimen_units _ true _ (Forall_misses s_fill dimen_units utoks rest Hsp eq_refl)).
        unfold fil3. rewrite keyword_loop_miss; [apply keyword_loop_match, Hsp|].
        unfold misses. change (map upper s_filll) with ([70; 73; 76; 76] ++ 76 :: []).
        destruct Hsp as (Hk & Hup). apply misses_longer; auto.
      * (* fil: filll and fill are tried first *)
        rewrite (keyword_loop_misses dimen_units _ true _ (Forall_misses s_fil dimen_units utoks rest Hsp eq_refl)).
        unfold fil3. destruct Hsp as (Hk & Hup).
        rewrite keyword_loop_miss.
        2: { unfold misses. change (map upper s_filll) with ([70; 73; 76] ++ 76 :: [76]). apply misses_longer; auto. }
        rewrite keyword_loop_miss.
        2: { unfold misses. change (map upper s_fill) with ([70; 73; 76] ++ 76 :: []). apply misses_longer; auto. }
        apply keyword_loop_match. split; assumption.
Qed.

Lemma unit_reads_dimen : forall u utoks rest, In u dimen_units -> spells u utoks -> unit_reads dimen_units u utoks rest.
Proof.
  intros u utoks rest Hu Hsp. split.
  - apply (not_true_kw u utoks Hsp).
    assert (HuF : In u UF) by (apply in_or_app; left; exact Hu).
    pose proof (proj1 (forallb_forall _ _) first_letter_not_t u HuF) as H. destruct u as [|c0 u']; [discriminate|].
    apply negb_true_iff, Z.eqb_neq in H. exact H.
  - destruct (dimen_units_split u Hu) as (pre & post & E & Hpre). rewrite E.
    rewrite (keyword_loop_misses pre _ true _ (Forall_misses u pre utoks rest Hsp Hpre)). apply keyword_loop_match, Hsp.
Qed.

(* ================================================================ printed dimensions and glue (Spec side) *)

Record pdim := mkPD { p_sr : signrun; p_dec : declit; p_gap : nat; p_true : list tok; p_utoks : list tok; p_unit : list Z }.

Definition print_dim (p : pdim) : list tok :=
  print_signs (p_sr p) ++ print_dec (p_dec p) ++ blanks (p_gap p) ++ p_true p ++ p_utoks p.

Definition pdim_ok (U : list (list Z)) (p : pdim) : Prop :=
  declit_ok (p_dec p) /\ true_part (p_true p) /\ In (p_unit p) U /\ spells (p_unit p) (p_utoks p).

(* v is what the printed dimension denotes: sign * decimal scaled by the unit (scale_unit keeps a fil order, see fil_scale) *)
Definition dim_denotes (p : pdim) (v : Q) : Prop :=
  exists q f, dimen_of_unit (p_unit p) = Some f /\ (q == dec_value (p_dec p))%Q /\
              v = scale_unit (inject_Z (sign_value (p_sr p)) * q) f.

Definition fil_next_ok (p : pdim) (rest : list tok) : Prop :=
  p_unit p = s_fil \/ p_unit p = s_fill -> not_letter_next 76 rest.

Lemma UF_handled : forall u, In u UF -> exists f, dimen_of_unit u = Some f.
Proof.
  intros u Hu. cbn in Hu.
  repeat (destruct Hu as [<-|Hu]; [eexists; vm_compute; reflexivity|]). destruct Hu.
Qed.

Lemma print_dec_head : forall d, declit_ok d -> exists cat c pd, print_dec d = Ch cat c :: pd /\ has_macro cat = false /\ stops_signs (Ch cat c).
Proof.
  intros [ip pt fp] (Hip & _ & Hpt). unfold print_dec. cbn [d_ip d_point d_fp] in *.
  destruct ip as [|i ip'].
  - destruct pt as [p|]; [|destruct Hpt; congruence]. destruct (point_tok_inv p Hpt) as (cat & c & -> & Hm & Hp & _ & Hc10).
    exists cat, c, fp. split; [reflexivity|]. split; [exact Hm|]. apply point_stops_signs; auto.
  - inversion Hip as [|? ? Hi _]; subst. destruct Hi as (cat & c & -> & Hcat & Hm).
    exists cat, c, (ip' ++ match pt with Some p => p :: fp | None => [] end).
    split; [reflexivity|]. split; [apply has_macro_11_12, Hcat|].
    apply (digit_stops_signs tex_dec cat c); auto. intros x Hx. apply (proj1 (tex_sets_sub x)), Hx.
Qed.

Lemma read_dim_UF : forall p rest lvl0, pdim_ok UF p -> fil_next_ok p rest ->
  exists v, read_dimen UF (print_dim p ++ rest) lvl0 = Ok v (read_one_optional_space rest) lvl0 /\ dim_denotes p v.
Proof.
  intros [sr d gap tr utoks u] rest lvl0 (Hd & Htr & Hu & Hsp) Hfil. unfold print_dim, fil_next_ok in *. cbn [p_sr p_dec p_gap p_true p_utoks p_unit] in *.
  destruct (UF_handled u Hu) as (f & Hf).
  rewrite <- !app_assoc.
  destruct (read_dimen_gen UF sr d gap tr utoks u f rest lvl0 Hd Htr Hsp (UF_nonempty u utoks Hu Hsp)
              (unit_reads_UF u utoks rest Hu Hsp Hfil) Hf) as (q & Hr & Hq).
  eexists. split; [exact Hr|]. exists q, f. cbn [p_sr p_dec p_unit]. auto.
Qed.

(* one optional blank in front of a printed dimension is part of its sign run *)
Lemma ros1_print_dim : forall p rest, declit_ok (p_dec p) ->
  exists p', read_one_optional_space (print_dim p ++ rest) = print_dim p' ++ rest /\
             sign_value (p_sr p') = sign_value (p_sr p) /\ p_dec p' = p_dec p /\ p_gap p' = p_gap p /\ p_true p' = p_true p /\
             p_utoks p' = p_utoks p /\ p_unit p' = p_unit p.
Proof.
  intros [[lead signs] d gap tr utoks u] rest Hd. cbn [p_dec] in Hd.
  destruct lead as [|k].
  - exists (mkPD (mkSR 0 signs) d gap tr utoks u). split; [|repeat split].
    unfold print_dim, print_signs. cbn [p_sr p_dec p_gap p_true p_utoks sr_lead sr_signs blanks repeat app].
    destruct signs as [|[m n] l].
    + cbn [print_sign_list app]. destruct (print_dec_head d Hd) as (cat & c & pd & -> & _ & Hs).
      cbn [app read_one_optional_space]. destruct Hs as (_ & _ & Hc). replace (cat =? 10) with false by (symmetry; apply Z.eqb_neq, Hc). reflexivity.
    + cbn [print_sign_list app]. destruct m; reflexivity.
  - exists (mkPD (mkSR k signs) d gap tr utoks u). split; [reflexivity|repeat split].
Qed.

Lemma spells_kw_head : forall kw ktoks r, spells kw ktoks -> kw <> [] -> read_optional_spaces (ktoks ++ r) = ktoks ++ r.
Proof.
  intros kw ktoks r (Hk & Hup) Hne. destruct ktoks as [|t0 kt]; [destruct kw; [congruence|discriminate]|].
  inversion Hk; subst. apply ros_kw. assumption.
Qed.

(* `plus` / `minus` present: the stream (blanks skipped) starts with the keyword followed by a printed dimension *)
Lemma fil_part_present : forall kw F ktoks p R T lvl,
  dimen_units ++ F = UF -> kw <> [] -> spells kw ktoks -> pdim_ok UF p -> fil_next_ok p R ->
  read_optional_spaces T = ktoks ++ print_dim p ++ R ->
  exists v, read_fil_part kw dimen_units F T lvl = Ok (Some v) (read_one_optional_space R) lvl /\ dim_denotes p v.
Proof.
  intros kw F ktoks p R T lvl HF Hne Hsp Hp Hfil HT. unfold read_fil_part, read_keyword. rewrite HT, HF.
  rewrite (keyword_loop_match kw [] true ktoks _ Hsp).
  destruct (ros1_print_dim p R (proj1 Hp)) as (p' & -> & Hs & Hd & Hg & Ht & Hu & Hun).
  assert (Hp' : pdim_ok UF p').
  { destruct Hp as (H1 & H2 & H3 & H4). unfold pdim_ok. rewrite Hd, Ht, Hu, Hun. auto. }
  assert (Hfil' : fil_next_ok p' R) by (unfold fil_next_ok in *; rewrite Hun; exact Hfil).
  destruct (read_dim_UF p' R lvl Hp' Hfil') as (v & Hr & (q & f & Hf & Hq & Hv)).
  rewrite Hr. exists v. split; [reflexivity|]. exists q, f. rewrite <- Hun, <- Hd, <- Hs. auto.
Qed.

Lemma fil_part_absent : forall kw units F T lvl, misses kw (read_optional_spaces T) ->
  read_fil_part kw units F T lvl = Ok None (read_optional_spaces T) lvl.
Proof.
  intros kw units F T lvl H. unfold read_fil_part, read_keyword. cbn [keyword_loop]. unfold misses in H. rewrite H. reflexivity.
Qed.

Record pfil := mkPF { f_gap : nat; f_kw : list tok; f_dim : pdim }.

Definition print_fil (o : option pfil) : list tok :=
  match o with None => [] | Some x => blanks (f_gap x) ++ f_kw x ++ print_dim (f_dim x) end.

Definition pfil_ok (kw : list Z) (o : option pfil) : Prop :=
  match o with None => True | Some x => spells kw (f_kw x) /\ pdim_ok UF (f_dim x) end.

Definition opt_denotes (o : option pfil) (ov : option Q) : Prop :=
  match o, ov with
  | None, None => True
  | Some x, Some v => dim_denotes (f_dim x) v
  | _, _ => False
  end.

Lemma ros_idem : forall s, read_optional_spaces (read_optional_spaces s) = read_optional_spaces s.
Proof.
  induction s as [|[cat c|k e] r IH]; try reflexivity. cbn [read_optional_spaces].
  destruct (cat =? 10) eqn:E; [exact IH|]. cbn [read_optional_spaces]. rewrite E. reflexivity.
Qed.

Lemma ros_print_fil : forall kw x R, spells kw (f_kw x) -> kw <> [] ->
  read_optional_spaces (print_fil (Some x) ++ R) = f_kw x ++ print_dim (f_dim x) ++ R.
Proof.
  intros kw x R Hsp Hne. unfold print_fil. rewrite <- !app_assoc, ros_blanks. apply (spells_kw_head kw); assumption.
Qed.

Lemma plus_misses_minus : forall ktoks r, spells kw_minus ktoks -> misses kw_plus (ktoks ++ r).
Proof. intros ktoks r Hsp. apply (misses_differs kw_minus kw_plus ktoks r Hsp). reflexivity. Qed.

(* glue: width [plus stretch] [minus shrink] *)
Theorem read_glue_exact : forall p0 st sh rest lvl0,
  pdim_ok dimen_units p0 -> pfil_ok kw_plus st -> pfil_ok kw_minus sh ->
  match st with Some x => fil_next_ok (f_dim x) (print_fil sh ++ rest) | None => True end ->
  match sh with Some x => fil_next_ok (f_dim x) rest | None => True end ->
  (st = None -> sh = None -> misses kw_plus (read_optional_spaces rest)) ->
  (sh = None -> misses kw_minus (read_optional_spaces rest)) ->
  exists v0 ov1 ov2,
    read_glue dimen_units (print_dim p0 ++ print_fil st ++ print_fil sh ++ rest) lvl0
    = Ok (v0, ov1, ov2) (match sh with Some _ => read_one_optional_space rest | None => read_optional_spaces rest end) lvl0 /\
    (exists f0, dimen_of_unit (p_unit p0) = Some f0 /\
                (v0 == inject_Z (sign_value (p_sr p0)) * dec_value (p_dec p0) * f0)%Q) /\
    opt_denotes st ov1 /\ opt_denotes sh ov2.
Proof.
  intros [sr0 d0 g0 tr0 ut0 u0] st sh rest lvl0 (Hd0 & Htr0 & Hu0 & Hsp0) Hst Hsh Hfil1 Hfil2 Habs1 Habs2.
  cbn [p_sr p_dec p_unit]. unfold print_dim. cbn [p_sr p_dec p_gap p_true p_utoks p_unit].
  set (TAIL := print_fil st ++ print_fil sh ++ rest).
  assert (HuF : In u0 UF) by (apply in_or_app; left; exact Hu0).
  destruct (UF_handled u0 HuF) as (f0 & Hf0).
  destruct (print_dec_head d0 Hd0) as (cat & c & pd & Hpd & Hm & Hstop).
  destruct (read_dimen_gen dimen_units (mkSR 0 []) d0 g0 tr0 ut0 u0 f0 TAIL (lvl0 - 1) Hd0 Htr0 Hsp0
              (UF_nonempty u0 ut0 HuF Hsp0) (unit_reads_dimen u0 ut0 TAIL Hu0 Hsp0) Hf0) as (q & Hrd & Hq).
  change (print_signs (mkSR 0 [])) with (@nil tok) in Hrd. cbn [app] in Hrd.
  change (sign_value (mkSR 0 [])) with 1 in Hrd.
  pose proof (proj1 (forallb_forall _ _) dimen_units_small u0 Hu0) as Hsmall. cbn beta in Hsmall. rewrite Hf0 in Hsmall.
  apply negb_true_iff in Hsmall.
  (* the width *)
  assert (Hwidth : forall st' sh' s5 l3,
            (let s3 := read_one_optional_space TAIL in
             match read_fil_part kw_plus dimen_units fil_units s3 (lvl0 - 1) with
             | Ok a s4 l2 => match read_fil_part kw_minus dimen_units fil_units_minus s4 l2 with
                             | Ok b s5' l3' => a = st' /\ b = sh' /\ s5' = s5 /\ l3' = l3
                             | _ => False end
             | _ => False end) ->
            read_glue dimen_units ((print_signs sr0 ++ print_dec d0 ++ blanks g0 ++ tr0 ++ ut0) ++ TAIL) lvl0
            = Ok ((inject_Z (sign_value sr0) * scale_unit (inject_Z 1 * q) f0)%Q, st', sh') s5 (l3 + 1)).
  { intros st' sh' s5 l3 Hparts. unfold read_glue. rewrite <- !app_assoc.
    replace (print_signs sr0 ++ print_dec d0 ++ blanks g0 ++ tr0 ++ ut0 ++ TAIL)
      with (print_signs sr0 ++ Ch cat c :: pd ++ blanks g0 ++ tr0 ++ ut0 ++ TAIL) by (rewrite Hpd; reflexivity).
    rewrite (read_signs_print (lvl0 - 1) sr0 (Ch cat c) (Ch cat c) _ (expand1_plain _ _ _ Hm) Hstop).
    rewrite (expand1_plain _ _ _ Hm). cbv zeta.
    replace (Ch cat c :: pd ++ blanks g0 ++ tr0 ++ ut0 ++ TAIL) with (print_dec d0 ++ blanks g0 ++ tr0 ++ ut0 ++ TAIL) by (rewrite Hpd; reflexivity).
    rewrite Hrd. cbv zeta in Hparts.
    destruct (read_fil_part kw_plus dimen_units fil_units (read_one_optional_space TAIL) (lvl0 - 1)) as [a s4 l2| |]; try contradiction.
    destruct (read_fil_part kw_minus dimen_units fil_units_minus s4 l2) as [b s5' l3'| |]; try contradiction.
    destruct Hparts as (-> & -> & -> & ->). reflexivity. }
  assert (Hv0 : (inject_Z (sign_value sr0) * scale_unit (inject_Z 1 * q) f0 == inject_Z (sign_value sr0) * dec_value d0 * f0)%Q).
  { unfold scale_unit. rewrite Hsmall, Hq. change (inject_Z 1) with 1%Q. ring. }
  destruct UF_is_stretch_shrink as (HF1 & HF2).
  destruct st as [x|]; destruct sh as [y|]; cbn [pfil_ok] in Hst, Hsh.
  - (* plus and minus *)
    destruct Hst as (Hk1 & Hp1). destruct Hsh as (Hk2 & Hp2).
    destruct (fil_part_present kw_plus fil_units (f_kw x) (f_dim x) (print_fil (Some y) ++ rest) (read_one_optional_space TAIL) (lvl0 - 1)
                HF1 ltac:(discriminate) Hk1 Hp1 Hfil1) as (v1 & Hr1 & Hden1).
    { rewrite ros_one_space. unfold TAIL. rewrite (ros_print_fil kw_plus x _ Hk1) by discriminate. reflexivity. }
    destruct (fil_part_present kw_minus fil_units_minus (f_kw y) (f_dim y) rest (read_one_optional_space (print_fil (Some y) ++ rest)) (lvl0 - 1)
                HF2 ltac:(discriminate) Hk2 Hp2 Hfil2) as (v2 & Hr2 & Hden2).
    { rewrite ros_one_space. rewrite (ros_print_fil kw_minus y _ Hk2) by discriminate. reflexivity. }
    eexists. exists (Some v1), (Some v2). split.
    + replace lvl0 with (lvl0 - 1 + 1) at 2 by lia. apply Hwidth. cbv zeta. rewrite Hr1, Hr2. auto.
    + split; [exists f0; auto|]. split; assumption.
  - (* plus only *)
    destruct Hst as (Hk1 & Hp1).
    destruct (fil_part_present kw_plus fil_units (f_kw x) (f_dim x) (print_fil None ++ rest) (read_one_optional_space TAIL) (lvl0 - 1)
                HF1 ltac:(discriminate) Hk1 Hp1 Hfil1) as (v1 & Hr1 & Hden1).
    { rewrite ros_one_space. unfold TAIL. rewrite (ros_print_fil kw_plus x _ Hk1) by discriminate. reflexivity. }
    cbn [print_fil app] in Hr1.
    pose proof (fil_part_absent kw_minus dimen_units fil_units_minus (read_one_optional_space rest) (lvl0 - 1)) as Hr2.
    rewrite ros_one_space in Hr2. specialize (Hr2 (Habs2 eq_refl)).
    eexists. exists (Some v1), None. split.
    + replace lvl0 with (lvl0 - 1 + 1) at 2 by lia. apply Hwidth. cbv zeta. rewrite Hr1, Hr2. auto.
    + split; [exists f0; auto|]. split; [assumption|exact I].
  - (* minus only *)
    destruct Hsh as (Hk2 & Hp2).
    assert (HT : read_optional_spaces (read_one_optional_space TAIL) = f_kw y ++ print_dim (f_dim y) ++ rest).
    { rewrite ros_one_space. unfold TAIL. cbn [print_fil app]. apply (ros_print_fil kw_minus y rest Hk2). discriminate. }
    pose proof (fil_part_absent kw_plus dimen_units fil_units (read_one_optional_space TAIL) (lvl0 - 1)) as Hr1.
    rewrite HT in Hr1. specialize (Hr1 (plus_misses_minus _ _ Hk2)).
    destruct (fil_part_present kw_minus fil_units_minus (f_kw y) (f_dim y) rest (f_kw y ++ print_dim (f_dim y) ++ rest) (lvl0 - 1)
                HF2 ltac:(discriminate) Hk2 Hp2 Hfil2) as (v2 & Hr2 & Hden2).
    { apply (spells_kw_head kw_minus); [assumption|discriminate]. }
    eexists. exists None, (Some v2). split.
    + replace lvl0 with (lvl0 - 1 + 1) at 2 by lia. apply Hwidth. cbv zeta. rewrite Hr1, Hr2. auto.
    + split; [exists f0; auto|]. split; [exact I|assumption].
  - (* neither *)
    unfold TAIL. cbn [print_fil app].
    pose proof (fil_part_absent kw_plus dimen_units fil_units (read_one_optional_space rest) (lvl0 - 1)) as Hr1.
    rewrite ros_one_space in Hr1. specialize (Hr1 (Habs1 eq_refl eq_refl)).
    pose proof (fil_part_absent kw_minus dimen_units fil_units_minus (read_optional_spaces rest) (lvl0 - 1)) as Hr2.
    rewrite ros_idem in Hr2. specialize (Hr2 (Habs2 eq_refl)).
    eexists. exists None, None. split.
    + replace lvl0 with (lvl0 - 1 + 1) at 2 by lia. apply Hwidth. cbv zeta. unfold TAIL. cbn [print_fil app]. rewrite Hr1, Hr2. auto.
    + split; [exists f0; auto|]. split; exact I.
Qed.

(* what dim_denotes means in numbers *)
Lemma dim_denotes_plain : forall p v, dim_denotes p v -> In (p_unit p) dimen_units ->
  exists f, dimen_of_unit (p_unit p) = Some f /\ (v == inject_Z (sign_value (p_sr p)) * dec_value (p_dec p) * f)%Q.
Proof.
  intros p v (q & f & Hf & Hq & ->) Hu. exists f. split; [exact Hf|].
  pose proof (proj1 (forallb_forall _ _) dimen_units_small _ Hu) as Hsmall. cbn beta in Hsmall. rewrite Hf in Hsmall.
  apply negb_true_iff in Hsmall. unfold scale_unit. rewrite Hsmall, Hq. reflexivity.
Qed.

Lemma dim_denotes_fil : forall p v off, dim_denotes p v ->
  (p_unit p = s_fil /\ off = two_e9) \/ (p_unit p = s_fill /\ off = four_e9) \/ (p_unit p = s_filll /\ off = six_e9) ->
  exists a, (a == inject_Z (sign_value (p_sr p)) * dec_value (p_dec p))%Q /\ (v == if qlt_b a 0 then a - off else a + off)%Q.
Proof.
  intros p v off (q & f & Hf & Hq & ->) Hu.
  exists (inject_Z (sign_value (p_sr p)) * q)%Q. split; [rewrite Hq; reflexivity|].
  destruct fil_encoding as (E1 & E2 & E3).
  destruct Hu as [(Hu & ->)|[(Hu & ->)|(Hu & ->)]]; rewrite Hu in Hf.
  - rewrite E1 in Hf. inversion Hf; subst. apply fil_scale. cbn; auto.
  - rewrite E2 in Hf. inversion Hf; subst. apply fil_scale. cbn; auto.
  - rewrite E3 in Hf. inversion Hf; subst. apply fil_scale. cbn; auto.
Qed.

(* ================================================================ internal registers as dimensions and as units *)

Lemma expand1_register : forall lvl k e, lvl < 0 -> is_param k = true -> expand1 lvl (Cs k e) = Some (Cs k true).
Proof.
  intros lvl k e Hl Hp. assert (Hlt : (0 <=? lvl) = false) by (apply Z.leb_gt; lia).
  destruct k; try discriminate; destruct e; cbn [expand1 is_param andb]; rewrite ?Hlt; reflexivity.
Qed.

(* <optional signs><internal dimen>: a dimen register, or a count / glue register coerced *)
Theorem read_dimen_register : forall U sr k e rest lvl0,
  lvl0 <= 0 -> is_param k = true ->
  read_dimen U (print_signs sr ++ Cs k e :: rest) lvl0 = Ok (inject_Z (sign_value sr) * as_dimen k)%Q rest lvl0.
Proof.
  intros U sr k e rest lvl0 Hl Hp. unfold read_dimen.
  pose proof (expand1_register (lvl0 - 1) k e ltac:(lia) Hp) as He.
  rewrite (read_signs_print (lvl0 - 1) sr (Cs k e) (Cs k true) rest He I).
  rewrite (expand1_register (lvl0 - 1) k true ltac:(lia) Hp), Hp.
  replace (lvl0 - 1 + 1) with lvl0 by lia. reflexivity.
Qed.

Lemma read_unit_register : forall U n k e rest lvl0, lvl0 <= 0 -> is_param k = true ->
  read_unit_of_measure U (blanks n ++ Cs k e :: rest) lvl0 = Ok (as_dimen k) rest lvl0.
Proof.
  intros U n k e rest lvl0 Hl Hp. unfold read_unit_of_measure. rewrite ros_blanks. cbn [read_optional_spaces].
  rewrite (expand1_register (lvl0 - 1) k e ltac:(lia) Hp), Hp. replace (lvl0 - 1 + 1) with lvl0 by lia. reflexivity.
Qed.

(* what follows a decimal factor: blanks, then the register *)
Lemma register_tail : forall lvl n k e rest, lvl < 0 -> is_param k = true ->
  ends_run lvl tex_dec (blanks n ++ Cs k e :: rest) /\ not_point_next lvl (blanks n ++ Cs k e :: rest) /\
  (exists n' e', peek lvl (blanks n ++ Cs k e :: rest) = blanks n' ++ Cs k e' :: rest) /\
  (exists n' e', seq_rest lvl true (blanks n ++ Cs k e :: rest) = blanks n' ++ Cs k e' :: rest).
Proof.
  intros lvl n k e rest Hl Hp. pose proof (expand1_register lvl k e Hl Hp) as He.
  assert (Hns : stops_unexpanded (Cs k e) = false).
  { destruct k; try discriminate; destruct e; reflexivity. }
  destruct n as [|m]; cbn [blanks repeat app].
  - repeat split.
    + right. exists (Cs k true). split; [exact He|exact I].
    + exists (Cs k true). split; [exact He|]. intros; discriminate.
    + exists O, true. cbn [peek]. rewrite He. reflexivity.
    + exists O, true. cbn [seq_rest]. rewrite Hns, He. reflexivity.
  - repeat split.
    + right. exists blank. split; reflexivity.
    + exists blank. split; [reflexivity|]. intros cat c E. inversion E; subst. reflexivity.
    + exists (S m), e. reflexivity.
    + exists m, e. reflexivity.
Qed.

(* <optional signs><factor><optional spaces><internal dimen>: a register multiple (1.5\parindent) *)
Theorem read_dimen_multiple : forall U sr d n k e rest lvl0,
  lvl0 <= 0 -> declit_ok d -> is_param k = true -> qle_b two_e9 (qabs (as_dimen k)) = false ->
  exists v, read_dimen U (print_signs sr ++ print_dec d ++ blanks n ++ Cs k e :: rest) lvl0 = Ok v rest lvl0 /\
            (v == inject_Z (sign_value sr) * dec_value d * as_dimen k)%Q.
Proof.
  intros U sr d n k e rest lvl0 Hl Hd Hp Hsmall.
  destruct (register_tail (lvl0 - 1) n k e rest ltac:(lia) Hp) as (Hend & Hnp & (np & ep & Hpeek) & (ns & es & Hseq)).
  destruct (print_dec_head d Hd) as (cat & c & pd & Hpd & Hm & Hstop).
  destruct (read_decimal_print (lvl0 - 1) (mkSR 0 []) d (blanks n ++ Cs k e :: rest) Hd Hend (fun _ => Hnp)) as (q & Hq & Hqv).
  change (print_signs (mkSR 0 [])) with (@nil tok) in Hq. cbn [app] in Hq.
  unfold read_dimen.
  replace (print_signs sr ++ print_dec d ++ blanks n ++ Cs k e :: rest)
    with (print_signs sr ++ Ch cat c :: pd ++ blanks n ++ Cs k e :: rest) by (rewrite Hpd; reflexivity).
  rewrite (read_signs_print (lvl0 - 1) sr (Ch cat c) (Ch cat c) _ (expand1_plain _ _ _ Hm) Hstop).
  rewrite (expand1_plain _ _ _ Hm). cbv zeta.
  replace (Ch cat c :: pd ++ blanks n ++ Cs k e :: rest) with (print_dec d ++ blanks n ++ Cs k e :: rest) by (rewrite Hpd; reflexivity).
  rewrite Hq.
  assert (Hrest : exists n' e', dec_rest (lvl0 - 1) d (blanks n ++ Cs k e :: rest) = blanks n' ++ Cs k e' :: rest).
  { unfold dec_rest. destruct (d_point d); [exists ns, es; exact Hseq|exists np, ep; exact Hpeek]. }
  destruct Hrest as (n' & e' & ->).
  rewrite (read_unit_register U n' k e' rest (lvl0 - 1) ltac:(lia) Hp).
  eexists. split.
  - unfold scale_unit. rewrite Hsmall. replace (lvl0 - 1 + 1) with lvl0 by lia. reflexivity.
  - rewrite Hqv. change (sign_value (mkSR 0 [])) with 1. change (inject_Z 1) with 1%Q.
    generalize (inject_Z (sign_value sr)) (dec_value d) (as_dimen k). intros a b f. ring.
Qed.

(* ================================================================ mu units (readMuDimen, readMuGlue) *)

Definition s_mu : list Z := [109; 117].

Lemma mudimen_units_is : mudimen_units = [s_mu] /\ dimen_of_unit s_mu = Some 1%Q.
Proof. split; reflexivity. Qed.

Theorem read_mudimen_exact : forall sr d n1 tr utoks rest lvl0,
  declit_ok d -> true_part tr -> spells s_mu utoks ->
  exists v, read_dimen mudimen_units (print_signs sr ++ print_dec d ++ blanks n1 ++ tr ++ utoks ++ rest) lvl0
            = Ok v (read_one_optional_space rest) lvl0 /\ (v == inject_Z (sign_value sr) * dec_value d)%Q.
Proof.
  intros sr d n1 tr utoks rest lvl0 Hd Htr Hsp.
  assert (Hne : utoks <> []).
  { intros ->. destruct Hsp as (_ & H). discriminate. }
  assert (Hur : unit_reads mudimen_units s_mu utoks rest).
  { split.
    - apply (not_true_kw s_mu utoks Hsp). cbn. discriminate.
    - change mudimen_units with [s_mu]. apply keyword_loop_match, Hsp. }
  destruct (read_dimen_gen mudimen_units sr d n1 tr utoks s_mu 1%Q rest lvl0 Hd Htr Hsp Hne Hur eq_refl) as (q & Hr & Hq).
  eexists. split; [exact Hr|]. unfold scale_unit. change (qle_b two_e9 (qabs 1)) with false. cbv iota. rewrite Hq. ring.
Qed.
