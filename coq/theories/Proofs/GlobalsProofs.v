(* Proofs about Model/Globals.v (C17). *)
From Coq Require Import List ZArith Bool Lia.
Import ListNotations.
From Verif Require Import Val GlobalCells Globals.
Local Open Scope Z_scope.

(* ------------------------------------------------------------------------------------------------------------ *)
(* cells *)

Lemma cell_eqb_eq : forall a b, cell_eqb a b = true <-> a = b.
Proof.
  intros [a1 a2] [b1 b2]. unfold cell_eqb. cbn [fst snd]. rewrite andb_true_iff, !Z.eqb_eq.
  split; [intros [-> ->]; reflexivity | intros H; inversion H; auto].
Qed.

Lemma cell_eqb_refl : forall a, cell_eqb a a = true.
Proof. intros a. apply cell_eqb_eq. reflexivity. Qed.

Lemma cell_eqb_neq : forall a b, cell_eqb a b = false <-> a <> b.
Proof.
  intros a b. split.
  - intros H E. apply cell_eqb_eq in E. congruence.
  - intros H. destruct (cell_eqb a b) eqn:E; [apply cell_eqb_eq in E; contradiction | reflexivity].
Qed.

Lemma cell_eqb_sym : forall a b, cell_eqb a b = cell_eqb b a.
Proof.
  intros a b. destruct (cell_eqb a b) eqn:E.
  - apply cell_eqb_eq in E. subst. symmetry. apply cell_eqb_refl.
  - symmetry. apply cell_eqb_neq. apply cell_eqb_neq in E. congruence.
Qed.

Lemma upd_same : forall st c v, upd st c v c = v.
Proof. intros. unfold upd. rewrite cell_eqb_refl. reflexivity. Qed.

Lemma upd_other : forall st c v c', cell_eqb c' c = false -> upd st c v c' = st c'.
Proof. intros. unfold upd. rewrite H. reflexivity. Qed.

(* ------------------------------------------------------------------------------------------------------------ *)
(* exec *)

Definition agree (s1 s2 : state) : Prop := forall c, s1 c = s2 c.

Definition res_agree (r1 r2 : option (state * list cv)) : Prop :=
  match r1, r2 with
  | Some (a, o1), Some (b, o2) => o1 = o2 /\ agree a b
  | None, None => True
  | _, _ => False
  end.

Lemma exec1_ext : forall s1 s2 e, agree s1 s2 -> res_agree (exec1 s1 e) (exec1 s2 e).
Proof.
  intros s1 s2 e A. unfold exec1. rewrite (A (cell_of e)).
  destruct (apply1 (s2 (cell_of e)) e) as [v'|]; cbn; [|exact I].
  split.
  - destruct e; cbn; try reflexivity. rewrite A. reflexivity.
  - intros c. unfold upd. destruct (cell_eqb c (cell_of e)); [reflexivity | apply A].
Qed.

Lemma exec_ext : forall h s1 s2, agree s1 s2 -> res_agree (exec s1 h) (exec s2 h).
Proof.
  induction h as [|e h IH]; intros s1 s2 A; cbn [exec].
  - cbn. split; [reflexivity | exact A].
  - pose proof (exec1_ext s1 s2 e A) as H1. unfold res_agree in H1.
    destruct (exec1 s1 e) as [[a o1]|], (exec1 s2 e) as [[b o2]|]; try contradiction; [|exact I].
    destruct H1 as [-> Aab]. specialize (IH a b Aab). unfold res_agree in IH.
    destruct (exec a h) as [[a' o1']|], (exec b h) as [[b' o2']|]; try contradiction; cbn; [|exact I].
    destruct IH as [-> A']. split; [reflexivity | exact A'].
Qed.

Lemma exec_app : forall h1 h2 st,
  exec st (h1 ++ h2) =
  match exec st h1 with
  | None => None
  | Some (s1, o1) => match exec s1 h2 with None => None | Some (s2, o2) => Some (s2, o1 ++ o2) end
  end.
Proof.
  induction h1 as [|e h1 IH]; intros h2 st; cbn [app exec].
  - destruct (exec st h2) as [[s o]|]; reflexivity.
  - destruct (exec1 st e) as [[s1 o1]|]; [|reflexivity].
    rewrite IH. destruct (exec s1 h1) as [[s2 o2]|]; [|reflexivity].
    destruct (exec s2 h2) as [[s3 o3]|]; [|reflexivity]. rewrite app_assoc. reflexivity.
Qed.

Lemma exec1_cell : forall st e st' o c, exec1 st e = Some (st', o) ->
  if cell_eqb (cell_of e) c then apply1 (st c) e = Some (st' c) else st' c = st c.
Proof.
  intros st e st' o c H. unfold exec1 in H.
  destruct (apply1 (st (cell_of e)) e) as [v'|] eqn:A; [|discriminate]. inversion H; subst; clear H.
  destruct (cell_eqb (cell_of e) c) eqn:E.
  - apply cell_eqb_eq in E. subst c. rewrite upd_same. exact A.
  - apply upd_other. rewrite cell_eqb_sym. exact E.
Qed.

Lemma exec_replay : forall h st st' o c, exec st h = Some (st', o) -> replay c h (st c) = Some (st' c).
Proof.
  induction h as [|e h IH]; intros st st' o c H; cbn [exec replay] in *.
  - inversion H; reflexivity.
  - destruct (exec1 st e) as [[s1 o1]|] eqn:E1; [|discriminate].
    destruct (exec s1 h) as [[s2 o2]|] eqn:E2; [|discriminate]. inversion H; subst; clear H.
    pose proof (exec1_cell st e s1 o1 c E1) as HC.
    destruct (cell_eqb (cell_of e) c).
    + rewrite HC. eapply IH; eauto.
    + rewrite <- HC. eapply IH; eauto.
Qed.

Lemma replay_app : forall c h1 h2 v,
  replay c (h1 ++ h2) v = match replay c h1 v with None => None | Some v' => replay c h2 v' end.
Proof.
  induction h1 as [|e h1 IH]; intros h2 v; cbn [app replay]; [reflexivity|].
  destruct (cell_eqb (cell_of e) c); [|apply IH].
  destruct (apply1 v e); [apply IH | reflexivity].
Qed.

Lemma replay_not_written : forall c h v, ~ In c (written h) -> replay c h v = Some v.
Proof.
  induction h as [|e h IH]; intros v N; cbn [replay]; [reflexivity|].
  unfold written in N. cbn [filter] in N.
  destruct (cell_eqb (cell_of e) c) eqn:E.
  - apply cell_eqb_eq in E. destruct (is_write e) eqn:W.
    + exfalso. apply N. cbn [map]. left. exact E.
    + destruct e; cbn in W; try discriminate. cbn [apply1]. apply IH. exact N.
  - apply IH. intros I. apply N. destruct (is_write e); [cbn [map]; right; exact I | exact I].
Qed.

(* ------------------------------------------------------------------------------------------------------------ *)
(* sequences of documents *)

Lemma run_seq_replay : forall R init hs st st' c,
  R c = false -> run_seq R init st hs = Some st' -> replay c (concat hs) (st c) = Some (st' c).
Proof.
  induction hs as [|h hs IH]; intros st st' c Rc H; cbn [run_seq concat] in *.
  - inversion H; reflexivity.
  - unfold process in H. destruct (exec (reset R init st) h) as [[s1 o1]|] eqn:E; [|discriminate].
    rewrite replay_app. pose proof (exec_replay h _ _ _ c E) as HR. unfold reset in HR at 1. rewrite Rc in HR.
    rewrite HR. apply IH; assumption.
Qed.

Lemma reset_agree : forall R init st, restored R init st -> agree (reset R init st) (reset R init init).
Proof.
  intros R init st H c. unfold reset. destruct (R c) eqn:E; [reflexivity | apply H; exact E].
Qed.

(* T1: the result of every later document is what it would be alone  <->  every cell that survives the creation of a new document
   has its initial value *)
Theorem independent_iff_restored : forall R init hs st,
  run_seq R init init hs = Some st -> (independent R init hs <-> restored R init st).
Proof.
  intros R init hs st H. split.
  - intros I c Rc. specialize (I [ERead c]). unfold result_after, result_alone, process in I. rewrite H in I.
    cbn [exec exec1 cell_of apply1 out1] in I. unfold reset in I. rewrite Rc in I. cbn in I. inversion I. reflexivity.
  - intros Rs B. unfold result_after, result_alone, process. rewrite H.
    pose proof (exec_ext B _ _ (reset_agree R init st Rs)) as A. unfold res_agree in A.
    destruct (exec (reset R init st) B) as [[a o1]|], (exec (reset R init init) B) as [[b o2]|]; try contradiction; [|reflexivity].
    destruct A as [-> _]. reflexivity.
Qed.

Lemma cell_in_dec : forall (c : cell) l, In c l \/ ~ In c l.
Proof.
  intros c l. induction l as [|x l IH]; [right; intros []|].
  destruct (cell_eqb x c) eqn:E.
  - left. left. apply cell_eqb_eq. exact E.
  - destruct IH as [I|N]; [left; right; exact I | right; intros [E'|I]; [subst; rewrite cell_eqb_refl in E; discriminate | contradiction]].
Qed.

(* M1 *)
Theorem isolation_iff : forall R init hs st,
  run_seq R init init hs = Some st ->
  (independent R init hs <->
   forall c, In c (written (concat hs)) -> R c = true \/ replay c (concat hs) (init c) = Some (init c)).
Proof.
  intros R init hs st H. rewrite (independent_iff_restored R init hs st H). split.
  - intros Rs c _. destruct (R c) eqn:Rc; [left; reflexivity | right].
    rewrite (run_seq_replay R init hs init st c Rc H). rewrite (Rs c Rc). reflexivity.
  - intros Hw c Rc.
    pose proof (run_seq_replay R init hs init st c Rc H) as HR.
    destruct (cell_in_dec c (written (concat hs))) as [I|N].
    + destruct (Hw c I) as [T|E]; [congruence|]. rewrite E in HR. inversion HR. reflexivity.
    + rewrite (replay_not_written c _ _ N) in HR. inversion HR. reflexivity.
Qed.

(* processing the same input twice: the second run of h gives what the first gave (when h restores what survives) *)
Corollary twice_same : forall R init h st o,
  process R init init h = Some (st, o) -> restored R init st -> result_after R init [h] h = Some o.
Proof.
  intros R init h st o H Rs.
  assert (RS : run_seq R init init [h] = Some st) by (cbn [run_seq]; rewrite H; reflexivity).
  pose proof (proj2 (independent_iff_restored R init [h] st RS) Rs h) as I. rewrite I.
  unfold result_alone. rewrite H. reflexivity.
Qed.

(* ------------------------------------------------------------------------------------------------------------ *)
(* balanced pairs *)

Lemma balanced_int_replay : forall c h, balanced_int c h -> forall z, replay c h (CI z) = Some (CI z).
Proof.
  intros c h B. induction B; intros z.
  - reflexivity.
  - cbn [replay]. rewrite H. apply IHB.
  - cbn [replay cell_of]. rewrite cell_eqb_refl. cbn [apply1]. apply IHB.
  - rewrite replay_app, IHB1. apply IHB2.
  - cbn [replay cell_of]. rewrite cell_eqb_refl. cbn [apply1]. rewrite replay_app, IHB.
    cbn [replay cell_of]. rewrite cell_eqb_refl. cbn [apply1]. f_equal. f_equal. lia.
Qed.

Lemma balanced_stack_replay : forall c h, balanced_stack c h -> forall l, replay c h (CS l) = Some (CS l).
Proof.
  intros c h B. induction B; intros l.
  - reflexivity.
  - cbn [replay]. rewrite H. apply IHB.
  - cbn [replay cell_of]. rewrite cell_eqb_refl. cbn [apply1]. apply IHB.
  - rewrite replay_app, IHB1. apply IHB2.
  - cbn [replay cell_of]. rewrite cell_eqb_refl. cbn [apply1]. rewrite replay_app, IHB.
    cbn [replay cell_of]. rewrite cell_eqb_refl. cbn [apply1]. reflexivity.
Qed.

Lemma only_adds_replay : forall c h z, only_adds c h = true -> replay c h (CI z) = Some (CI (z + sum_adds c h)).
Proof.
  induction h as [|e h IH]; intros z H; cbn [only_adds sum_adds replay] in *.
  - f_equal. f_equal. lia.
  - apply andb_true_iff in H. destruct H as [H1 H2].
    destruct (cell_eqb (cell_of e) c).
    + destruct e; try discriminate; cbn [apply1].
      * rewrite IH by assumption. f_equal. f_equal. lia.
      * rewrite IH by assumption. f_equal.
    + rewrite IH by assumption. f_equal.
Qed.

(* a counter that is only incremented and decremented is restored exactly when the increments cancel *)
Theorem counter_restored_iff : forall c h z,
  only_adds c h = true -> (replay c h (CI z) = Some (CI z) <-> sum_adds c h = 0).
Proof.
  intros c h z H. rewrite (only_adds_replay c h z H). split.
  - intros E. inversion E. lia.
  - intros ->. f_equal. f_equal. lia.
Qed.

(* M1 with the syntactic disciplines: a sequence whose histories touch unreset cells only in balanced pairs is isolated *)
Theorem balanced_isolated : forall R init hs st,
  run_seq R init init hs = Some st ->
  (forall c, In c (written (concat hs)) ->
     R c = true \/ (exists z, init c = CI z /\ balanced_int c (concat hs)) \/ (exists l, init c = CS l /\ balanced_stack c (concat hs))) ->
  independent R init hs.
Proof.
  intros R init hs st H Hw. apply (isolation_iff R init hs st H). intros c I.
  destruct (Hw c I) as [T|[[z [E B]]|[l [E B]]]]; [left; exact T | right | right]; rewrite E.
  - apply balanced_int_replay; exact B.
  - apply balanced_stack_replay; exact B.
Qed.

(* ------------------------------------------------------------------------------------------------------------ *)
(* PART 2: the token machine *)

Lemma pre_pre : forall h1 o1 h2 o2 r, pre h1 o1 (pre h2 o2 r) = pre (h1 ++ h2) (o1 ++ o2) r.
Proof. intros. destruct r as [[[s h] o]|]; cbn; [rewrite !app_assoc; reflexivity | reflexivity]. Qed.

Lemma pre_nil : forall r, pre [] [] r = r.
Proof. intros [[[s h] o]|]; reflexivity. Qed.

(* the history returned by the machine is a history in the sense of PART 1: replaying it gives the same state and outputs *)
Lemma run_toks_exec : forall K ts st ob skip s h o,
  run_toks K st ts ob skip = Some (s, h, o) -> exec st h = Some (s, o).
Proof.
  induction ts as [|t ts IH]; intros st ob skip s h o H; cbn [run_toks] in H.
  - destruct (exec st (eof_events K (getI (st (k_level K))) ob)) as [[s' o']|] eqn:E; [|discriminate]. inversion H; subst. exact E.
  - destruct skip; [eapply IH; exact H|].
    destruct (tok_events K st t (next_is_shift ts)) as [evs consumed].
    destruct (exec st evs) as [[st' o1]|] eqn:E; [|discriminate].
    destruct (run_toks K st' ts (boxes_after t ob) consumed) as [[[s2 h2] o2]|] eqn:E2; cbn [pre] in H; [|discriminate].
    inversion H; subst; clear H. rewrite exec_app, E. rewrite (IH _ _ _ _ _ _ E2). reflexivity.
Qed.

(* single events *)
Lemma ex_add : forall st c d z, st c = CI z -> exec1 st (EAdd c d) = Some (upd st c (CI (z + d)), []).
Proof. intros. unfold exec1. cbn [cell_of apply1 out1]. rewrite H. reflexivity. Qed.
Lemma ex_set : forall st c v, exec1 st (ESet c v) = Some (upd st c (CI v), []).
Proof. intros. reflexivity. Qed.
Lemma ex_push : forall st c v l, st c = CS l -> exec1 st (EPush c v) = Some (upd st c (CS (v :: l)), []).
Proof. intros. unfold exec1. cbn [cell_of apply1 out1]. rewrite H. reflexivity. Qed.
Lemma ex_pop : forall st c x l, st c = CS (x :: l) -> exec1 st (EPop c) = Some (upd st c (CS l), []).
Proof. intros. unfold exec1. cbn [cell_of apply1 out1]. rewrite H. reflexivity. Qed.
Lemma ex_read : forall st c, exec1 st (ERead c) = Some (upd st c (st c), [st c]).
Proof. intros. reflexivity. Qed.

Lemma exec_cons : forall st e h st1 o1, exec1 st e = Some (st1, o1) ->
  exec st (e :: h) = match exec st1 h with None => None | Some (s2, o2) => Some (s2, o1 ++ o2) end.
Proof. intros. cbn [exec]. rewrite H. reflexivity. Qed.

(* the raw values of the six trackers *)
Definition trk (K : cells) (st : state) (l en dp : Z) (env : list Z) (b1 b2 : Z) : Prop :=
  st (k_level K) = CI l /\ st (k_enabled K) = CI en /\ st (k_depth K) = CI dp /\ st (k_inenv K) = CS env /\
  st (k_dmb K) = CI b1 /\ st (k_dme K) = CI b2.

Record distinct (K : cells) : Prop := {
  d12 : cell_eqb (k_level K) (k_enabled K) = false; d13 : cell_eqb (k_level K) (k_depth K) = false;
  d14 : cell_eqb (k_level K) (k_inenv K) = false; d15 : cell_eqb (k_level K) (k_dmb K) = false;
  d16 : cell_eqb (k_level K) (k_dme K) = false; d23 : cell_eqb (k_enabled K) (k_depth K) = false;
  d24 : cell_eqb (k_enabled K) (k_inenv K) = false; d25 : cell_eqb (k_enabled K) (k_dmb K) = false;
  d26 : cell_eqb (k_enabled K) (k_dme K) = false; d34 : cell_eqb (k_depth K) (k_inenv K) = false;
  d35 : cell_eqb (k_depth K) (k_dmb K) = false; d36 : cell_eqb (k_depth K) (k_dme K) = false;
  d45 : cell_eqb (k_inenv K) (k_dmb K) = false; d46 : cell_eqb (k_inenv K) (k_dme K) = false;
  d56 : cell_eqb (k_dmb K) (k_dme K) = false }.

Lemma cells_distinct_facts : forall K, cells_distinct K = true -> distinct K.
Proof.
  intros K H. unfold cells_distinct in H. cbn [existsb] in H.
  repeat (apply andb_true_iff in H; destruct H as [? H]).
  repeat match goal with X : negb _ = true |- _ => apply negb_true_iff in X end.
  repeat match goal with X : (_ || _) = false |- _ => apply orb_false_iff in X; destruct X as [? X] end.
  constructor; assumption.
Qed.

Ltac dsym D :=
  pose proof (d12 _ D); pose proof (d13 _ D); pose proof (d14 _ D); pose proof (d15 _ D); pose proof (d16 _ D);
  pose proof (d23 _ D); pose proof (d24 _ D); pose proof (d25 _ D); pose proof (d26 _ D); pose proof (d34 _ D);
  pose proof (d35 _ D); pose proof (d36 _ D); pose proof (d45 _ D); pose proof (d46 _ D); pose proof (d56 _ D).

Ltac upds :=
  repeat first [ rewrite upd_same
               | rewrite upd_other by (first [assumption | rewrite cell_eqb_sym; assumption]) ].

Lemma trk_level : forall K st l en dp env b1 b2 l', distinct K -> trk K st l en dp env b1 b2 ->
  trk K (upd st (k_level K) (CI l')) l' en dp env b1 b2.
Proof. intros K st l en dp env b1 b2 l' D (H1 & H2 & H3 & H4 & H5 & H6). dsym D. unfold trk. upds. repeat split; assumption. Qed.
Lemma trk_enabled : forall K st l en dp env b1 b2 en', distinct K -> trk K st l en dp env b1 b2 ->
  trk K (upd st (k_enabled K) (CI en')) l en' dp env b1 b2.
Proof. intros K st l en dp env b1 b2 l' D (H1 & H2 & H3 & H4 & H5 & H6). dsym D. unfold trk. upds. repeat split; assumption. Qed.
Lemma trk_depth : forall K st l en dp env b1 b2 dp', distinct K -> trk K st l en dp env b1 b2 ->
  trk K (upd st (k_depth K) (CI dp')) l en dp' env b1 b2.
Proof. intros K st l en dp env b1 b2 l' D (H1 & H2 & H3 & H4 & H5 & H6). dsym D. unfold trk. upds. repeat split; assumption. Qed.
Lemma trk_inenv : forall K st l en dp env b1 b2 env', distinct K -> trk K st l en dp env b1 b2 ->
  trk K (upd st (k_inenv K) (CS env')) l en dp env' b1 b2.
Proof. intros K st l en dp env b1 b2 l' D (H1 & H2 & H3 & H4 & H5 & H6). dsym D. unfold trk. upds. repeat split; assumption. Qed.
Lemma trk_dmb : forall K st l en dp env b1 b2 b', distinct K -> trk K st l en dp env b1 b2 ->
  trk K (upd st (k_dmb K) (CI b')) l en dp env b' b2.
Proof. intros K st l en dp env b1 b2 l' D (H1 & H2 & H3 & H4 & H5 & H6). dsym D. unfold trk. upds. repeat split; assumption. Qed.
Lemma trk_dme : forall K st l en dp env b1 b2 b', distinct K -> trk K st l en dp env b1 b2 ->
  trk K (upd st (k_dme K) (CI b')) l en dp env b1 b'.
Proof. intros K st l en dp env b1 b2 l' D (H1 & H2 & H3 & H4 & H5 & H6). dsym D. unfold trk. upds. repeat split; assumption. Qed.

Lemma trk_other : forall K st l en dp env b1 b2 c v, is_tracker K c = false -> trk K st l en dp env b1 b2 ->
  trk K (upd st c v) l en dp env b1 b2.
Proof.
  intros K st l en dp env b1 b2 c v N (H1 & H2 & H3 & H4 & H5 & H6). unfold is_tracker in N.
  repeat (apply orb_false_iff in N; destruct N as [N ?]). unfold trk. upds. repeat split; assumption.
Qed.

Lemma trk_eq : forall K st l l' en dp dp' env b1 b2, trk K st l en dp env b1 b2 -> l = l' -> dp = dp' -> trk K st l' en dp' env b1 b2.
Proof. intros; subst; assumption. Qed.

Lemma trk_eq3 : forall K st l l' en en' dp env b1 b2, trk K st l en dp env b1 b2 -> l = l' -> en = en' -> trk K st l' en' dp env b1 b2.
Proof. intros; subst; assumption. Qed.

(* reading an argument: the level and the switch come back *)
Lemma exec_ev_arg : forall K st l dp env b1 b2, distinct K -> trk K st l (zge0 l) dp env b1 b2 ->
  exists st', exec st (ev_arg K l) = Some (st', []) /\ trk K st' l (zge0 l) dp env b1 b2.
Proof.
  intros K st l dp env b1 b2 D T. unfold ev_arg.
  assert (T1 := trk_level K _ _ _ _ _ _ _ (l + -1) D T).
  assert (T2 := trk_enabled K _ _ _ _ _ _ _ (zge0 (l - 1)) D T1).
  assert (T3 := trk_level K _ _ _ _ _ _ _ (l + -1 + 1) D T2).
  assert (T4 := trk_enabled K _ _ _ _ _ _ _ (zge0 l) D T3).
  eexists. split.
  - erewrite exec_cons by (apply ex_add; apply T).
    erewrite exec_cons by apply ex_set.
    erewrite exec_cons by (apply ex_add; apply T2).
    erewrite exec_cons by apply ex_set. cbn [exec app]. reflexivity.
  - apply (trk_eq _ _ _ _ _ _ _ _ _ _ T4); lia.
Qed.

Lemma exec_ev_args : forall K n st l dp env b1 b2, distinct K -> trk K st l (zge0 l) dp env b1 b2 ->
  exists st', exec st (ev_args K l n) = Some (st', []) /\ trk K st' l (zge0 l) dp env b1 b2.
Proof.
  induction n as [|n IH]; intros st l dp env b1 b2 D T; cbn [ev_args].
  - exists st. split; [reflexivity | exact T].
  - destruct (exec_ev_arg K st l dp env b1 b2 D T) as [s1 [E1 T1]].
    destruct (IH s1 l dp env b1 b2 D T1) as [s2 [E2 T2]].
    exists s2. split; [|exact T2]. rewrite exec_app, E1, E2. reflexivity.
Qed.

Definition text_top (env : list Z) : Prop := match env with [] => True | x :: _ => x = 0 end.

Lemma top_is_text : forall env k, text_top env -> k <> 0 -> top_is k env = false.
Proof. intros [|x env] k T N; cbn; [reflexivity|]. cbn in T. subst. apply Z.eqb_neq. congruence. Qed.

(* one step of the machine whose events are evs *)
Lemma run_step : forall K st t ts ob evs consumed st' o,
  tok_events K st t (next_is_shift ts) = (evs, consumed) -> exec st evs = Some (st', o) ->
  run_toks K st (t :: ts) ob false = pre evs o (run_toks K st' ts (boxes_after t ob) consumed).
Proof. intros. cbn [run_toks]. rewrite H, H0. reflexivity. Qed.

Scheme doc_ind2 := Induction for doc Sort Prop
  with mdoc_ind2 := Induction for mdoc Sort Prop.
Combined Scheme doc_mdoc_ind from doc_ind2, mdoc_ind2.

Ltac fin := rewrite ?pre_pre; repeat rewrite <- app_assoc; cbn [app]; reflexivity.

Definition okst (K : cells) (st : state) (l dp : Z) (env : list Z) : Prop := trk K st l (zge0 l) dp env 0 0.

(* M2 (core): a well-formed piece of text, whatever follows it and however deep it is nested, leaves every tracker as it found it;
   the same for the material of a formula *)
Lemma wf_restores : forall K, distinct K ->
  (forall d, wf_doc K d = true -> forall st rest ob l dp env, okst K st l dp env -> text_top env ->
     exists st' h o, okst K st' l dp env /\
       run_toks K st (pr_doc d ++ rest) ob false = pre h o (run_toks K st' rest ob false)) /\
  (forall m, wf_mdoc K m = true -> forall st rest ob l dp env k, okst K st l dp (k :: env) -> k <> 0 ->
     exists st' h o, okst K st' l dp (k :: env) /\
       run_toks K st (pr_mdoc m ++ rest) ob false = pre h o (run_toks K st' rest ob false)).
Proof.
  intros K D.
  assert (STEP : forall st t ts ob evs st' o, tok_events K st t (next_is_shift ts) = (evs, false) -> exec st evs = Some (st', o) ->
             run_toks K st (t :: ts) ob false = pre evs o (run_toks K st' ts (boxes_after t ob) false))
    by (intros; eapply run_step; eauto).
  apply (doc_mdoc_ind
    (fun d => wf_doc K d = true -> forall st rest ob l dp env, okst K st l dp env -> text_top env ->
       exists st' h o, okst K st' l dp env /\ run_toks K st (pr_doc d ++ rest) ob false = pre h o (run_toks K st' rest ob false))
    (fun m => wf_mdoc K m = true -> forall st rest ob l dp env k, okst K st l dp (k :: env) -> k <> 0 ->
       exists st' h o, okst K st' l dp (k :: env) /\ run_toks K st (pr_mdoc m ++ rest) ob false = pre h o (run_toks K st' rest ob false))).
  - (* DNil *) intros _ st rest ob l dp env T TT. exists st, [], []. split; [exact T | cbn [pr_doc app]; rewrite pre_nil; reflexivity].
  - (* DChar *) intros r IH W st rest ob l dp env T TT. cbn [wf_doc] in W.
    destruct (IH W st rest ob l dp env T TT) as (s' & h & o & T' & E).
    exists s', ([] ++ h), ([] ++ o). split; [exact T'|]. cbn [pr_doc app].
    rewrite (STEP st TChar _ ob [] st []) by reflexivity. cbn [boxes_after]. rewrite E. fin.
  - (* DMacro *) intros n r IH W st rest ob l dp env T TT. cbn [wf_doc] in W.
    destruct (exec_ev_args K n st l dp env 0 0 D T) as [s1 [E1 T1]].
    destruct (IH W s1 rest ob l dp env T1 TT) as (s' & h & o & T' & E).
    exists s', (ev_args K l n ++ h), ([] ++ o). split; [exact T'|]. cbn [pr_doc app].
    rewrite (STEP st (TMacro n) _ ob (ev_args K l n) s1 []); [| cbn [tok_events]; destruct T as [-> _]; reflexivity | exact E1].
    cbn [boxes_after]. rewrite E. fin.
  - (* DParam *) intros c v r IH W st rest ob l dp env T TT. cbn [wf_doc] in W. apply andb_true_iff in W. destruct W as [Wc W].
    apply negb_true_iff in Wc.
    destruct (Z.eqb (zge0 l) 0) eqn:EN.
    + (* parameters disabled: nothing happens *)
      destruct (IH W st rest ob l dp env T TT) as (s' & h & o & T' & E).
      exists s', ([] ++ h), ([] ++ o). split; [exact T'|]. cbn [pr_doc app].
      rewrite (STEP st (TParam c v) _ ob [] st []); [| cbn [tok_events]; destruct T as (_ & -> & _); cbn [getI]; rewrite EN; reflexivity | reflexivity].
      cbn [boxes_after]. rewrite E. fin.
    + assert (Z1 : zge0 l = 1) by (unfold zge0 in *; destruct (0 <=? l); [reflexivity | discriminate]).
      assert (T0 := trk_enabled K _ _ _ _ _ _ _ 0 D T).
      (* while the value is read the switch is 0 although the level says 1: ev_args is robust to that only through its own writes,
         so we go through the events one by one *)
      assert (A : exists s1, exec (upd st (k_enabled K) (CI 0)) (ev_args K l 2) = Some (s1, []) /\ trk K s1 l (zge0 l) dp env 0 0).
      { cbn [ev_args]. unfold ev_arg.
        assert (U1 := trk_level K _ _ _ _ _ _ _ (l + -1) D T0).
        assert (U2 := trk_enabled K _ _ _ _ _ _ _ (zge0 (l - 1)) D U1).
        assert (U3 := trk_level K _ _ _ _ _ _ _ (l + -1 + 1) D U2).
        assert (U4 := trk_enabled K _ _ _ _ _ _ _ (zge0 l) D U3).
        assert (U4' := trk_eq _ _ _ l _ _ dp _ _ _ U4 ltac:(lia) eq_refl).
        destruct (exec_ev_arg K _ l dp env 0 0 D U4') as [s2 [E2 T2]].
        exists s2. split; [|exact T2].
        cbn [app]. erewrite exec_cons by (apply ex_add; apply T0).
        erewrite exec_cons by apply ex_set.
        erewrite exec_cons by (apply ex_add; apply U2).
        erewrite exec_cons by apply ex_set.
        unfold ev_arg in E2. rewrite E2. reflexivity. }
      destruct A as [s1 [E1 T1]].
      assert (T2 := trk_other K _ _ _ _ _ _ _ c (CI v) Wc T1).
      assert (T3 := trk_enabled K _ _ _ _ _ _ _ 1 D T2). rewrite <- Z1 in T3 at 2.
      destruct (IH W _ rest ob l dp env T3 TT) as (s' & h & o & T' & E).
      exists s', ((ESet (k_enabled K) 0 :: ev_args K l 2 ++ [ESet c v; ESet (k_enabled K) 1]) ++ h), ([] ++ o).
      split; [exact T'|]. cbn [pr_doc app].
      rewrite (STEP st (TParam c v) _ ob (ESet (k_enabled K) 0 :: ev_args K l 2 ++ [ESet c v; ESet (k_enabled K) 1]) (upd (upd s1 c (CI v)) (k_enabled K) (CI 1)) []).
      * cbn [boxes_after]. rewrite E. fin.
      * cbn [tok_events]. destruct T as (-> & -> & _). cbn [getI]. rewrite EN. reflexivity.
      * erewrite exec_cons by apply ex_set. rewrite exec_app, E1. cbn [exec exec1 cell_of apply1 out1 app]. reflexivity.
  - (* DSetlen *) intros c v r IH W st rest ob l dp env T TT. cbn [wf_doc] in W. apply andb_true_iff in W. destruct W as [Wc W].
    apply negb_true_iff in Wc.
    destruct (exec_ev_args K 2 st l dp env 0 0 D T) as [s1 [E1 T1]].
    assert (T2 := trk_other K _ _ _ _ _ _ _ c (CI v) Wc T1).
    destruct (IH W _ rest ob l dp env T2 TT) as (s' & h & o & T' & E).
    exists s', ((ev_args K l 2 ++ [ESet c v]) ++ h), ([] ++ o). split; [exact T'|]. cbn [pr_doc app].
    rewrite (STEP st (TSetlen c v) _ ob (ev_args K l 2 ++ [ESet c v]) (upd s1 c (CI v)) []).
    + cbn [boxes_after]. rewrite E. fin.
    + cbn [tok_events]. destruct T as (-> & _). reflexivity.
    + rewrite exec_app, E1. cbn [exec exec1 cell_of apply1 out1 app]. reflexivity.
  - (* DPatch *) intros c v r IH W st rest ob l dp env T TT. cbn [wf_doc] in W. apply andb_true_iff in W. destruct W as [Wc W].
    apply negb_true_iff in Wc.
    assert (T2 := trk_other K _ _ _ _ _ _ _ c (CI v) Wc T).
    destruct (IH W _ rest ob l dp env T2 TT) as (s' & h & o & T' & E).
    exists s', ([ESet c v] ++ h), ([] ++ o). split; [exact T'|]. cbn [pr_doc].
    rewrite <- app_comm_cons.
    rewrite (STEP st (TPatch c v) _ ob [ESet c v] (upd st c (CI v)) []); [| reflexivity | reflexivity].
    cbn [boxes_after]. rewrite E. fin.
  - (* DRead *) intros c r IH W st rest ob l dp env T TT. cbn [wf_doc] in W.
    assert (T2 : okst K (upd st c (st c)) l dp env).
    { destruct T as (H1 & H2 & H3 & H4 & H5 & H6). unfold okst, trk, upd.
      repeat split; match goal with |- (if cell_eqb ?a ?b then _ else _) = _ => destruct (cell_eqb a b) eqn:EE; [apply cell_eqb_eq in EE; rewrite <- EE|]; assumption end. }
    destruct (IH W _ rest ob l dp env T2 TT) as (s' & h & o & T' & E).
    exists s', ([ERead c] ++ h), ([st c] ++ o). split; [exact T'|]. cbn [pr_doc].
    rewrite <- app_comm_cons.
    rewrite (STEP st (TRead c) _ ob [ERead c] (upd st c (st c)) [st c]); [| reflexivity | reflexivity].
    cbn [boxes_after]. rewrite E. fin.
  - (* DIfthen *) intros r IH W st rest ob l dp env T TT. cbn [wf_doc] in W.
    assert (T1 := trk_dmb K _ _ _ _ _ _ _ 1 D T). assert (T2 := trk_dme K _ _ _ _ _ _ _ 1 D T1).
    destruct (exec_ev_args K 3 _ l dp env 1 1 D T2) as [s1 [E1 U1]].
    assert (U2 := trk_dmb K _ _ _ _ _ _ _ 0 D U1). assert (U3 := trk_dme K _ _ _ _ _ _ _ 0 D U2).
    destruct (IH W _ rest ob l dp env U3 TT) as (s' & h & o & T' & E).
    exists s', (([ESet (k_dmb K) 1; ESet (k_dme K) 1] ++ ev_args K l 3 ++ [ESet (k_dmb K) 0; ESet (k_dme K) 0]) ++ h), ([] ++ o).
    split; [exact T'|]. cbn [pr_doc]. rewrite <- app_comm_cons.
    rewrite (STEP st TIfthen _ ob ([ESet (k_dmb K) 1; ESet (k_dme K) 1] ++ ev_args K l 3 ++ [ESet (k_dmb K) 0; ESet (k_dme K) 0]) (upd (upd s1 (k_dmb K) (CI 0)) (k_dme K) (CI 0)) []).
    + cbn [boxes_after]. rewrite E. fin.
    + cbn [tok_events]. destruct T as (-> & _). reflexivity.
    + cbn [app]. erewrite exec_cons by apply ex_set. erewrite exec_cons by apply ex_set.
      rewrite exec_app, E1. cbn [exec exec1 cell_of apply1 out1 app]. reflexivity.
  - (* DList *) intros b IHb r IHr W st rest ob l dp env T TT. cbn [wf_doc] in W. apply andb_true_iff in W. destruct W as [Wb Wr].
    assert (T1 := trk_depth K _ _ _ _ _ _ _ (dp + 1) D T).
    assert (T1' : okst K (upd (upd st (k_depth K) (CI (dp + 1))) (k_depth K) (CI (dp + 1))) l (dp + 1) env)
      by (apply (trk_depth K _ _ _ _ _ _ _ (dp + 1) D T1)).
    destruct (IHb Wb _ (TListEnd :: pr_doc r ++ rest) ob l (dp + 1) env T1' TT) as (s1 & h1 & o1 & U1 & E1).
    assert (U2 := trk_eq _ _ _ l _ _ dp _ _ _ (trk_depth K _ _ _ _ _ _ _ (dp + 1 + -1) D U1) eq_refl ltac:(lia)).
    destruct (IHr Wr _ rest ob l dp env U2 TT) as (s' & h & o & T' & E).
    exists s', ([EAdd (k_depth K) 1] ++ [ERead (k_depth K)] ++ h1 ++ [EAdd (k_depth K) (-1)] ++ h),
               ([] ++ [CI (dp + 1)] ++ o1 ++ [] ++ o).
    split; [exact T'|]. cbn [pr_doc]. rewrite <- !app_comm_cons.
    rewrite (STEP st TListBegin _ ob [EAdd (k_depth K) 1] (upd st (k_depth K) (CI (dp + 1))) []); [| reflexivity | cbn [exec]; erewrite ex_add by apply T; reflexivity].
    cbn [boxes_after].
    rewrite (STEP (upd st (k_depth K) (CI (dp + 1))) TItem _ ob [ERead (k_depth K)] (upd (upd st (k_depth K) (CI (dp + 1))) (k_depth K) (CI (dp + 1))) [CI (dp + 1)]);
      [| reflexivity | cbn [exec exec1 cell_of apply1 out1 app]; rewrite upd_same; reflexivity].
    cbn [boxes_after]. rewrite <- app_assoc. rewrite <- app_comm_cons. rewrite E1.
    rewrite (STEP s1 TListEnd _ ob [EAdd (k_depth K) (-1)] (upd s1 (k_depth K) (CI (dp + 1 + -1))) []); [| reflexivity | cbn [exec]; erewrite ex_add by apply U1; reflexivity].
    cbn [boxes_after]. rewrite E. fin.
  - (* DMath *) intros b IHb r IHr W st rest ob l dp env T TT. cbn [wf_doc] in W.
    apply andb_true_iff in W. destruct W as [W Wr]. apply andb_true_iff in W. destruct W as [Wn Wb].
    assert (NS : forall tl, next_is_shift (pr_mdoc b ++ tl) = false) by (destruct b; [discriminate | reflexivity | reflexivity]).
    assert (T1 := trk_inenv K _ _ _ _ _ _ _ (1 :: env) D T).
    destruct (IHb Wb _ (TShift :: pr_doc r ++ rest) ob l dp env 1 T1 ltac:(lia)) as (s1 & h1 & o1 & U1 & E1).
    assert (U2 := trk_inenv K _ _ _ _ _ _ _ env D U1).
    destruct (IHr Wr _ rest ob l dp env U2 TT) as (s' & h & o & T' & E).
    exists s', ([EPush (k_inenv K) 1] ++ h1 ++ [EPop (k_inenv K)] ++ h), ([] ++ o1 ++ [] ++ o).
    split; [exact T'|]. cbn [pr_doc]. rewrite <- !app_comm_cons. rewrite <- app_assoc. rewrite <- app_comm_cons.
    rewrite (STEP st TShift _ ob [EPush (k_inenv K) 1] (upd st (k_inenv K) (CS (1 :: env))) []).
    + cbn [boxes_after]. rewrite E1.
      rewrite (STEP s1 TShift _ ob [EPop (k_inenv K)] (upd s1 (k_inenv K) (CS env)) []).
      * cbn [boxes_after]. rewrite E. fin.
      * cbn [tok_events]. destruct U1 as (_ & _ & _ & -> & _). cbn [getS]. unfold ev_mathshift.
        destruct (next_is_shift (pr_doc r ++ rest)); cbn [top_is]; rewrite ?Z.eqb_refl; reflexivity.
      * cbn [exec]. erewrite ex_pop by apply U1. reflexivity.
    + cbn [tok_events]. destruct T as (_ & _ & _ & -> & _). cbn [getS]. unfold ev_mathshift. rewrite NS.
      rewrite (top_is_text env 1 TT) by lia. reflexivity.
    + cbn [exec]. erewrite ex_push by apply T. reflexivity.
  - (* DDisplay *) intros b IHb r IHr W st rest ob l dp env T TT. cbn [wf_doc] in W.
    apply andb_true_iff in W. destruct W as [W Wr]. apply andb_true_iff in W. destruct W as [Wn Wb].
    assert (T1 := trk_inenv K _ _ _ _ _ _ _ (2 :: env) D T).
    destruct (IHb Wb _ (TShift :: TShift :: pr_doc r ++ rest) ob l dp env 2 T1 ltac:(lia)) as (s1 & h1 & o1 & U1 & E1).
    assert (U2 := trk_inenv K _ _ _ _ _ _ _ env D U1).
    destruct (IHr Wr _ rest ob l dp env U2 TT) as (s' & h & o & T' & E).
    exists s', ([EPush (k_inenv K) 2] ++ h1 ++ [EPop (k_inenv K)] ++ h), ([] ++ o1 ++ [] ++ o).
    split; [exact T'|]. cbn [pr_doc]. rewrite <- !app_comm_cons. rewrite <- app_assoc. rewrite <- !app_comm_cons.
    rewrite (run_step K st TShift _ ob [EPush (k_inenv K) 2] true (upd st (k_inenv K) (CS (2 :: env))) []).
    + cbn [boxes_after]. cbn [run_toks]. rewrite E1.
      rewrite (run_step K s1 TShift _ ob [EPop (k_inenv K)] true (upd s1 (k_inenv K) (CS env)) []).
      * cbn [boxes_after]. cbn [run_toks]. rewrite E. fin.
      * cbn [tok_events next_is_shift]. destruct U1 as (_ & _ & _ & -> & _). cbn [getS]. unfold ev_mathshift. cbn [top_is].
        reflexivity.
      * cbn [exec]. erewrite ex_pop by apply U1. reflexivity.
    + cbn [tok_events next_is_shift]. destruct T as (_ & _ & _ & -> & _). cbn [getS]. unfold ev_mathshift.
      rewrite (top_is_text env 1 TT) by lia. rewrite (top_is_text env 2 TT) by lia. reflexivity.
    + cbn [exec]. erewrite ex_push by apply T. reflexivity.
  - (* MEnd *) intros _ st rest ob l dp env k T N. exists st, [], []. split; [exact T | cbn [pr_mdoc app]; rewrite pre_nil; reflexivity].
  - (* MSym *) intros r IH W st rest ob l dp env k T N. cbn [wf_mdoc] in W.
    destruct (IH W st rest ob l dp env k T N) as (s' & h & o & T' & E).
    exists s', ([] ++ h), ([] ++ o). split; [exact T'|]. cbn [pr_mdoc app].
    rewrite (STEP st TChar _ ob [] st []) by reflexivity. cbn [boxes_after]. rewrite E. fin.
  - (* MBox *) intros b IHb r IHr W st rest ob l dp env k T N. cbn [wf_mdoc] in W. apply andb_true_iff in W. destruct W as [Wb Wr].
    assert (T1 := trk_inenv K _ _ _ _ _ _ _ (0 :: k :: env) D T).
    assert (T2 := trk_level K _ _ _ _ _ _ _ (l + -1) D T1).
    assert (T3 := trk_enabled K _ _ _ _ _ _ _ (zge0 (l - 1)) D T2).
    assert (T3' : okst K (upd (upd (upd st (k_inenv K) (CS (0 :: k :: env))) (k_level K) (CI (l + -1))) (k_enabled K) (CI (zge0 (l - 1))))
                    (l - 1) dp (0 :: k :: env)) by (apply (trk_eq _ _ _ _ _ _ _ _ _ _ T3); lia).
    destruct (IHb Wb _ (TBoxClose :: pr_mdoc r ++ rest) (S ob) (l - 1) dp (0 :: k :: env) T3' eq_refl) as (s1 & h1 & o1 & U1 & E1).
    assert (U2 := trk_level K _ _ _ _ _ _ _ (l - 1 + 1) D U1).
    assert (U3 := trk_enabled K _ _ _ _ _ _ _ (zge0 (l - 1 + 1)) D U2).
    assert (U4 := trk_inenv K _ _ _ _ _ _ _ (k :: env) D U3).
    assert (U4' : okst K (upd (upd (upd s1 (k_level K) (CI (l - 1 + 1))) (k_enabled K) (CI (zge0 (l - 1 + 1)))) (k_inenv K) (CS (k :: env)))
                    l dp (k :: env)).
    { apply (trk_eq3 _ _ _ _ _ _ _ _ _ _ U4); [lia | f_equal; lia]. }
    destruct (IHr Wr _ rest ob l dp env k U4' N) as (s' & h & o & T' & E).
    exists s', ([EPush (k_inenv K) 0; EAdd (k_level K) (-1); ESet (k_enabled K) (zge0 (l - 1))] ++ h1 ++
                [EAdd (k_level K) 1; ESet (k_enabled K) (zge0 (l - 1 + 1)); EPop (k_inenv K)] ++ h), ([] ++ o1 ++ [] ++ o).
    split; [exact T'|]. cbn [pr_mdoc]. rewrite <- !app_comm_cons. rewrite <- app_assoc. rewrite <- app_comm_cons.
    rewrite (STEP st TBoxOpen _ ob [EPush (k_inenv K) 0; EAdd (k_level K) (-1); ESet (k_enabled K) (zge0 (l - 1))]
               (upd (upd (upd st (k_inenv K) (CS (0 :: k :: env))) (k_level K) (CI (l + -1))) (k_enabled K) (CI (zge0 (l - 1)))) []).
    + cbn [boxes_after]. rewrite E1.
      rewrite (STEP s1 TBoxClose _ (S ob) [EAdd (k_level K) 1; ESet (k_enabled K) (zge0 (l - 1 + 1)); EPop (k_inenv K)]
                 (upd (upd (upd s1 (k_level K) (CI (l - 1 + 1))) (k_enabled K) (CI (zge0 (l - 1 + 1)))) (k_inenv K) (CS (k :: env))) []).
      * cbn [boxes_after pred]. rewrite E. fin.
      * cbn [tok_events]. destruct U1 as (-> & _). reflexivity.
      * erewrite exec_cons by (apply ex_add; apply U1). erewrite exec_cons by apply ex_set.
        erewrite exec_cons by (eapply ex_pop; apply U3). reflexivity.
    + cbn [tok_events]. destruct T as (-> & _). reflexivity.
    + erewrite exec_cons by (apply ex_push; apply T). erewrite exec_cons by (apply ex_add; apply T1).
      erewrite exec_cons by apply ex_set. reflexivity.
Qed.

(* M2: every tracker is balanced over a completed well-formed document, for every nesting depth *)
Theorem balanced_cells : forall K d st l dp env,
  cells_distinct K = true -> wf_doc K d = true -> okst K st l dp env -> text_top env ->
  exists st' h o, run_toks K st (pr_doc d) 0 false = Some (st', h, o) /\ okst K st' l dp env /\ exec st h = Some (st', o).
Proof.
  intros K d st l dp env CD W T TT. pose proof (cells_distinct_facts K CD) as D.
  destruct (proj1 (wf_restores K D) d W st [] 0%nat l dp env T TT) as (s' & h & o & T' & E).
  rewrite app_nil_r in E. cbn [run_toks eof_events exec pre] in E. rewrite !app_nil_r in E.
  exists s', h, o. split; [exact E|]. split; [exact T'|]. eapply run_toks_exec. exact E.
Qed.

Lemma okst_tracker_eq : forall K s1 s2 l dp env c, okst K s1 l dp env -> okst K s2 l dp env -> is_tracker K c = true -> s1 c = s2 c.
Proof.
  intros K s1 s2 l dp env c (A1 & A2 & A3 & A4 & A5 & A6) (B1 & B2 & B3 & B4 & B5 & B6) H. unfold is_tracker in H.
  repeat (apply orb_true_iff in H; destruct H as [H|H]); apply cell_eqb_eq in H; subst c; congruence.
Qed.

Corollary balanced_cells_replay : forall K d st l dp env,
  cells_distinct K = true -> wf_doc K d = true -> okst K st l dp env -> text_top env ->
  exists st' h o, run_toks K st (pr_doc d) 0 false = Some (st', h, o) /\
    forall c, is_tracker K c = true -> replay c h (st c) = Some (st c).
Proof.
  intros K d st l dp env CD W T TT. destruct (balanced_cells K d st l dp env CD W T TT) as (s' & h & o & E & T' & X).
  exists s', h, o. split; [exact E|]. intros c H. rewrite (exec_replay h st s' o c X). f_equal.
  eapply okst_tracker_eq; eauto.
Qed.

(* which cells a token list can write *)
Definition tok_cells (t : tok) : list cell := match t with TParam c _ | TSetlen c _ | TPatch c _ => [c] | _ => [] end.
Definition toks_cells (ts : list tok) : list cell := flat_map tok_cells ts.

Lemma written_app : forall h1 h2, written (h1 ++ h2) = written h1 ++ written h2.
Proof. intros. unfold written. rewrite filter_app, map_app. reflexivity. Qed.

Lemma trk_refl : forall K c, In c [k_level K; k_enabled K; k_depth K; k_inenv K; k_dmb K; k_dme K] -> is_tracker K c = true.
Proof.
  intros K c H. unfold is_tracker. cbn [In] in H.
  repeat (destruct H as [H|H]; [subst c; rewrite cell_eqb_refl; rewrite ?orb_true_r; reflexivity|]). contradiction.
Qed.

Lemma ev_args_written : forall K l n c, In c (written (ev_args K l n)) -> is_tracker K c = true.
Proof.
  induction n as [|n IH]; intros c H; cbn [ev_args] in H; [contradiction|].
  rewrite written_app in H. apply in_app_or in H. destruct H as [H|H]; [|apply IH; exact H].
  apply trk_refl. cbn in H. cbn [In]. tauto.
Qed.

Lemma tok_events_written : forall K st t nx c,
  In c (written (fst (tok_events K st t nx))) -> is_tracker K c = true \/ In c (tok_cells t).
Proof.
  intros K st t nx c H. destruct t; cbn [tok_events fst tok_cells] in *.
  - contradiction.
  - left. apply trk_refl. unfold ev_mathshift in H.
    destruct (if nx then if top_is 1 (getS (st (k_inenv K))) then (1, false) else (2, true) else (1, false)) as [cur cons].
    destruct (top_is cur (getS (st (k_inenv K)))); cbn in H; cbn [In]; tauto.
  - left. apply trk_refl. cbn in H. cbn [In]. tauto.
  - left. apply trk_refl. cbn in H. cbn [In]. tauto.
  - left. apply trk_refl. cbn in H. cbn [In]. tauto.
  - left. apply trk_refl. cbn in H. cbn [In]. tauto.
  - contradiction.
  - left. eapply ev_args_written. exact H.
  - destruct (getI (st (k_enabled K)) =? 0); cbn [fst] in H; [contradiction|].
    change (ESet (k_enabled K) 0 :: ev_args K (getI (st (k_level K))) 2 ++ [ESet c0 v; ESet (k_enabled K) 1])
      with ([ESet (k_enabled K) 0] ++ ev_args K (getI (st (k_level K))) 2 ++ [ESet c0 v; ESet (k_enabled K) 1]) in H.
    rewrite !written_app in H. apply in_app_or in H. destruct H as [H|H]; [left; apply trk_refl; cbn in H; cbn [In]; tauto|].
    apply in_app_or in H. destruct H as [H|H]; [left; eapply ev_args_written; exact H|].
    cbn in H. destruct H as [H|[H|[]]]; [right; left; exact H | left; apply trk_refl; cbn [In]; tauto].
  - rewrite written_app in H. apply in_app_or in H. destruct H as [H|H]; [left; eapply ev_args_written; exact H|].
    cbn in H. destruct H as [H|[]]. right; left; exact H.
  - cbn in H. destruct H as [H|[]]. right; left; exact H.
  - contradiction.
  - rewrite !written_app in H. apply in_app_or in H. destruct H as [H|H]; [left; apply trk_refl; cbn in H; cbn [In]; tauto|].
    apply in_app_or in H. destruct H as [H|H]; [left; eapply ev_args_written; exact H|].
    left; apply trk_refl; cbn in H; cbn [In]; tauto.
Qed.

Lemma eof_events_written : forall K n l c, In c (written (eof_events K l n)) -> is_tracker K c = true.
Proof.
  induction n as [|n IH]; intros l c H; cbn [eof_events] in H; [contradiction|].
  rewrite written_app in H. apply in_app_or in H. destruct H as [H|H]; [|eapply IH; exact H].
  apply trk_refl. cbn in H. cbn [In]. tauto.
Qed.

Lemma run_toks_written : forall K ts st ob skip s h o,
  run_toks K st ts ob skip = Some (s, h, o) -> forall c, In c (written h) -> is_tracker K c = true \/ In c (toks_cells ts).
Proof.
  induction ts as [|t ts IH]; intros st ob skip s h o H c I; cbn [run_toks] in H.
  - destruct (exec st (eof_events K (getI (st (k_level K))) ob)) as [[s' o']|]; [|discriminate]. inversion H; subst.
    left. eapply eof_events_written; exact I.
  - cbn [toks_cells flat_map]. destruct skip.
    + destruct (IH _ _ _ _ _ _ H c I) as [T|J]; [left; exact T | right; apply in_or_app; right; exact J].
    + pose proof (tok_events_written K st t (next_is_shift ts) c) as TW.
      destruct (tok_events K st t (next_is_shift ts)) as [evs consumed]. cbn [fst] in TW.
      destruct (exec st evs) as [[st' o1]|]; [|discriminate].
      destruct (run_toks K st' ts (boxes_after t ob) consumed) as [[[s2 h2] o2]|] eqn:E2; cbn [pre] in H; [|discriminate].
      inversion H; subst; clear H. rewrite written_app in I. apply in_app_or in I. destruct I as [I|I].
      * destruct (TW I) as [T|J]; [left; exact T | right; apply in_or_app; left; exact J].
      * destruct (IH _ _ _ _ _ _ E2 c I) as [T|J]; [left; exact T | right; apply in_or_app; right; exact J].
Qed.

(* the machine sees a state only through the values of its cells *)
Lemma tok_events_ext : forall K s1 s2 t nx, agree s1 s2 -> tok_events K s1 t nx = tok_events K s2 t nx.
Proof. intros K s1 s2 t nx A. destruct t; cbn [tok_events]; rewrite ?(A (k_level K)), ?(A (k_enabled K)), ?(A (k_inenv K)); reflexivity. Qed.

Definition tres_agree (r1 r2 : res) : Prop :=
  match r1, r2 with
  | Some (a, h1, o1), Some (b, h2, o2) => h1 = h2 /\ o1 = o2 /\ agree a b
  | None, None => True
  | _, _ => False
  end.

Lemma run_toks_ext : forall K ts s1 s2 ob skip, agree s1 s2 -> tres_agree (run_toks K s1 ts ob skip) (run_toks K s2 ts ob skip).
Proof.
  induction ts as [|t ts IH]; intros s1 s2 ob skip A; cbn [run_toks].
  - rewrite (A (k_level K)).
    pose proof (exec_ext (eof_events K (getI (s2 (k_level K))) ob) s1 s2 A) as X. unfold res_agree in X.
    destruct (exec s1 (eof_events K (getI (s2 (k_level K))) ob)) as [[a o1]|], (exec s2 (eof_events K (getI (s2 (k_level K))) ob)) as [[b o2]|];
      try contradiction; cbn; [|exact I]. destruct X as [-> X]. auto.
  - destruct skip; [apply IH; exact A|].
    rewrite (tok_events_ext K s1 s2 t _ A). destruct (tok_events K s2 t (next_is_shift ts)) as [evs consumed].
    pose proof (exec_ext evs s1 s2 A) as X. unfold res_agree in X.
    destruct (exec s1 evs) as [[a o1]|], (exec s2 evs) as [[b o2]|]; try contradiction; [|exact I].
    destruct X as [-> X]. specialize (IH a b (boxes_after t ob) consumed X). unfold tres_agree in IH.
    destruct (run_toks K a ts (boxes_after t ob) consumed) as [[[a' h1] o1']|], (run_toks K b ts (boxes_after t ob) consumed) as [[[b' h2] o2']|];
      try contradiction; cbn [pre tres_agree]; [|exact I].
    destruct IH as (-> & -> & A'). auto.
Qed.

(* one document keeps "restored" when what it writes outside the trackers is re-created per document and it leaves the trackers
   that survive at their initial values *)
Lemma doc_step_restored : forall K R init ts st st' h o,
  process_toks K R init st ts = Some (st', h, o) -> restored R init st ->
  (forall c, In c (toks_cells ts) -> R c = true) ->
  (forall c, is_tracker K c = true -> R c = true \/ st' c = init c) ->
  restored R init st'.
Proof.
  intros K R init ts st st' h o P Rs HW HT c Rc. unfold process_toks in P.
  destruct (is_tracker K c) eqn:TK.
  - destruct (HT c TK) as [X|X]; [congruence | exact X].
  - pose proof (run_toks_exec _ _ _ _ _ _ _ _ P) as X. pose proof (exec_replay _ _ _ _ c X) as Y.
    rewrite replay_not_written in Y.
    + inversion Y as [Z]. unfold reset. rewrite Rc. apply Rs. exact Rc.
    + intros I. destruct (run_toks_written _ _ _ _ _ _ _ _ P c I) as [T|J]; [congruence | rewrite (HW c J) in Rc; discriminate].
Qed.

Lemma toks_independent_of_restored : forall K R init st B,
  restored R init st ->
  match process_toks K R init st B with None => None | Some (_, _, o) => Some o end = toks_alone K R init B.
Proof.
  intros K R init st B Rs. unfold toks_alone, process_toks.
  pose proof (run_toks_ext K B _ _ 0%nat false (reset_agree R init st Rs)) as X. unfold tres_agree in X.
  destruct (run_toks K (reset R init st) B 0 false) as [[[a h1] o1]|], (run_toks K (reset R init init) B 0 false) as [[[b h2] o2]|];
    try contradiction; [|reflexivity]. destruct X as (_ & -> & _). reflexivity.
Qed.

(* the fixed code: when every tracker and every written value cell starts afresh with each document, whatever the earlier documents
   were (ill-formed, ending inside lists, formulas or boxes), a later document is processed as if it were alone *)
Theorem reset_absorbs : forall K R init ds st,
  (forall c, is_tracker K c = true -> R c = true) ->
  (forall ts c, In ts ds -> In c (toks_cells ts) -> R c = true) ->
  run_docs K R init init ds = Some st ->
  restored R init st /\ forall B, toks_after K R init ds B = toks_alone K R init B.
Proof.
  intros K R init ds st HT HW H.
  assert (G : forall ds s0 st, (forall ts c, In ts ds -> In c (toks_cells ts) -> R c = true) -> restored R init s0 ->
                run_docs K R init s0 ds = Some st -> restored R init st).
  { induction ds0 as [|ts ds0 IH]; intros s0 s1 HW0 R0 H0; cbn [run_docs] in H0.
    - inversion H0; subst; exact R0.
    - destruct (process_toks K R init s0 ts) as [[[s2 h2] o2]|] eqn:P; [|discriminate].
      apply (IH s2 s1); [intros; eapply HW0; [right|]; eauto | | exact H0].
      eapply doc_step_restored; [exact P | exact R0 | intros; eapply HW0; [left; reflexivity | assumption] | intros; left; apply HT; assumption]. }
  assert (Rs : restored R init st) by (apply (G ds init st HW); [intros c _; reflexivity | exact H]).
  split; [exact Rs|]. intros B. unfold toks_after. rewrite H. apply toks_independent_of_restored. exact Rs.
Qed.

Lemma okst_reset : forall K R init st l dp env, okst K init l dp env -> restored R init st -> okst K (reset R init st) l dp env.
Proof.
  intros K R init st l dp env (A1 & A2 & A3 & A4 & A5 & A6) Rs. unfold okst, trk, reset.
  repeat split; match goal with |- (if R ?c then _ else _) = _ => destruct (R c) eqn:E; [assumption | rewrite (Rs c E); assumption] end.
Qed.

(* the code as it would be without any reset: completed well-formed documents that assign only cells re-created per document leave
   nothing behind, for every number of documents and every nesting depth (proved under the explicit exclusion of writes to cells
   that survive; the unrestricted statement is refuted below) *)
Theorem isolation_partial : forall K R init l dp env ds,
  cells_distinct K = true -> okst K init l dp env -> text_top env ->
  (forall d, In d ds -> wf_doc K d = true) ->
  (forall d c, In d ds -> In c (toks_cells (pr_doc d)) -> R c = true) ->
  exists st, run_docs K R init init (map pr_doc ds) = Some st /\ restored R init st /\
             forall B, toks_after K R init (map pr_doc ds) B = toks_alone K R init B.
Proof.
  intros K R init l dp env ds CD OK TT WF HW.
  assert (G : forall ds s0, (forall d, In d ds -> wf_doc K d = true) ->
                (forall d c, In d ds -> In c (toks_cells (pr_doc d)) -> R c = true) -> restored R init s0 ->
                exists st, run_docs K R init s0 (map pr_doc ds) = Some st /\ restored R init st).
  { induction ds0 as [|d ds0 IH]; intros s0 WF0 HW0 R0; cbn [map run_docs].
    - exists s0. split; [reflexivity | exact R0].
    - pose proof (okst_reset K R init s0 l dp env OK R0) as O1.
      destruct (balanced_cells K d (reset R init s0) l dp env CD (WF0 d (or_introl eq_refl)) O1 TT) as (s1 & h & o & E & O2 & X).
      unfold process_toks. rewrite E.
      apply IH; [intros; apply WF0; right; assumption | intros; eapply HW0; [right|]; eauto |].
      eapply doc_step_restored; [unfold process_toks; exact E | exact R0 | intros; eapply HW0; [left; reflexivity | assumption] |].
      intros c TK. right. rewrite (okst_tracker_eq K s1 (reset R init s0) l dp env c O2 O1 TK).
      unfold reset. destruct (R c) eqn:Rc; [reflexivity | apply R0; exact Rc]. }
  destruct (G ds init WF HW (fun c _ => eq_refl)) as [st [H Rs]].
  exists st. split; [exact H|]. split; [exact Rs|]. intros B. unfold toks_after. rewrite H. apply toks_independent_of_restored. exact Rs.
Qed.

(* ------------------------------------------------------------------------------------------------------------ *)
(* M3: the leaks.  The tree before the fixes resets nothing: R0 *)

Definition R0 : cell -> bool := fun _ => false.
Definition K0 : cells := {| k_level := (64, 0); k_enabled := (65, 0); k_depth := (27, 0); k_inenv := (43, 0); k_dmb := (32, 0); k_dme := (33, 0) |}.
Definition init0 : state := mk_init [((65, 0), CI 1); ((43, 0), CS [])].
Definition parindent : cell := (57, 1).
Definition theindex_level : cell := (26, 0).

Theorem leaks_refuted :
  (* a register assignment *)
  (toks_after K0 R0 init0 [[TParam parindent 5]] [TRead parindent] <> toks_alone K0 R0 init0 [TRead parindent]) /\
  (* a class patched by a document class *)
  (toks_after K0 R0 init0 [[TPatch theindex_level 1]] [TRead theindex_level] <> toks_alone K0 R0 init0 [TRead theindex_level]) /\
  (* a list left open at the end of the input: the items of the next document's list see depth 2 *)
  (toks_after K0 R0 init0 [[TListBegin; TItem; TChar]] [TListBegin; TItem; TListEnd] <> toks_alone K0 R0 init0 [TListBegin; TItem; TListEnd]) /\
  (* a formula left open at the end of the input: the first $ of the next document closes it *)
  (toks_after K0 R0 init0 [[TShift; TChar]] [TShift; TChar; TShift; TRead (k_inenv K0)]
     <> toks_alone K0 R0 init0 [TShift; TChar; TShift; TRead (k_inenv K0)]) /\
  (* ... and all of these documents are processed to completion *)
  (forall ts, In ts [[TParam parindent 5]; [TPatch theindex_level 1]; [TListBegin; TItem; TChar]; [TShift; TChar]] ->
     run_docs K0 R0 init0 init0 [ts] <> None).
Proof.
  repeat split; try (vm_compute; discriminate).
  intros ts H. cbn [In] in H. repeat (destruct H as [<-|H]; [vm_compute; discriminate|]). contradiction.
Qed.

(* with the resets of the fixed code the same four sequences are harmless *)
Definition R1 : cell -> bool := fun c => is_tracker K0 c || Z.eqb (fst c) 57.
Example leaks_absorbed :
  toks_after K0 R1 init0 [[TParam parindent 5]; [TListBegin; TItem; TChar]; [TShift; TChar]] [TShift; TChar; TShift; TListBegin; TItem; TListEnd; TRead parindent; TRead (k_inenv K0)]
  = toks_alone K0 R1 init0 [TShift; TChar; TShift; TListBegin; TItem; TListEnd; TRead parindent; TRead (k_inenv K0)].
Proof. vm_compute. reflexivity. Qed.

(* ------------------------------------------------------------------------------------------------------------ *)
(* the regenerated table *)

Lemma gen_table_ok : gen_accounted = true /\ ids_increasing (-1) gen_cells = true.
Proof. split; vm_compute; reflexivity. Qed.

(* M1 instantiated at the regenerated table: histories that write only cells which the table says start afresh with every document
   are isolated, whatever they do to them *)
Theorem gen_isolated : forall init hs st,
  run_seq gen_R init init hs = Some st ->
  (forall c, In c (written (concat hs)) -> gen_R c = true) ->
  independent gen_R init hs.
Proof.
  intros init hs st H HW. apply (isolation_iff gen_R init hs st H). intros c I. left. apply HW. exact I.
Qed.
