(* C18: sorted() modelled as the stable insertion sort [isort]: permutation, sortedness, stability,
   and uniqueness of the result among all stable sorts (for a strict weak order). *)
From Coq Require Import List Bool Arith Lia Permutation Sorted.
Import ListNotations.
From Verif Require Import Val Index IndexOrder.

Section SortFacts.
  Context {A : Type} (lt : A -> A -> bool) (H : swo lt).

  Definition le (x y : A) : Prop := lt y x = false.

  Lemma swo_asym x y : lt x y = true -> lt y x = false.
  Proof.
    intro L. destruct (lt y x) eqn:E; auto.
    pose proof (swo_trans _ H _ _ _ L E) as T. rewrite (swo_irr _ H) in T. discriminate.
  Qed.

  Lemma insert_perm x : forall l, Permutation (x :: l) (insert lt x l).
  Proof.
    induction l as [|y l IH]; simpl; auto.
    destruct (lt y x); auto.
    eapply perm_trans; [apply perm_swap|]. apply perm_skip. exact IH.
  Qed.

  Lemma isort_perm : forall l, Permutation l (isort lt l).
  Proof.
    induction l as [|x l IH]; simpl; auto.
    eapply perm_trans; [apply perm_skip; exact IH | apply insert_perm].
  Qed.

  Lemma insert_sorted x : forall l, StronglySorted le l -> StronglySorted le (insert lt x l).
  Proof.
    induction l as [|y l IH]; simpl; intro S.
    - constructor; constructor.
    - inversion S as [|? ? S' F]; subst. destruct (lt y x) eqn:L.
      + constructor; [apply IH; exact S'|].
        eapply Permutation_Forall; [apply insert_perm|]. constructor; [apply swo_asym; exact L | exact F].
      + constructor; [exact S|]. constructor; [exact L|].
        rewrite Forall_forall in *. intros z Hz. unfold le in *.
        apply (swo_ntrans _ H z y x); [apply F; exact Hz | exact L].
  Qed.

  Lemma isort_sorted : forall l, StronglySorted le (isort lt l).
  Proof. induction l as [|x l IH]; simpl; [constructor | apply insert_sorted; exact IH]. Qed.

  (* stability *)
  Lemma filter_insert (P : A -> bool) x :
    (forall y, P x = true -> P y = true -> lt y x = false) ->
    forall l, filter P (insert lt x l) = (if P x then [x] else []) ++ filter P l.
  Proof.
    intros HP. induction l as [|y l IH]; simpl.
    - destruct (P x); reflexivity.
    - destruct (lt y x) eqn:L; simpl.
      + destruct (P y) eqn:Py.
        * destruct (P x) eqn:Px.
          { rewrite (HP y eq_refl Py) in L. discriminate. }
          { rewrite IH. reflexivity. }
        * rewrite IH. reflexivity.
      + destruct (P x); reflexivity.
  Qed.

  Theorem isort_stable (P : A -> bool) :
    (forall x y, P x = true -> P y = true -> lt x y = false) ->
    forall l, filter P (isort lt l) = filter P l.
  Proof.
    intros HP. induction l as [|x l IH]; simpl; auto.
    rewrite filter_insert; [|intros y Px Py; apply HP; assumption].
    rewrite IH. destruct (P x); reflexivity.
  Qed.

  (* any two sorted stable rearrangements of the same list are equal *)
  Definition equivb (x y : A) : bool := negb (lt x y) && negb (lt y x).

  Lemma sorted_stable_unique : forall s1 s2,
    Permutation s1 s2 -> StronglySorted le s1 -> StronglySorted le s2 ->
    (forall x, filter (equivb x) s1 = filter (equivb x) s2) -> s1 = s2.
  Proof.
    induction s1 as [|a s1 IH]; intros s2 P S1 S2 F.
    - apply Permutation_nil in P. auto.
    - destruct s2 as [|b s2]; [apply Permutation_sym, Permutation_nil in P; discriminate|].
      inversion S1 as [|? ? S1' F1]; subst. inversion S2 as [|? ? S2' F2]; subst.
      assert (Lab : lt b a = false).
      { assert (I : In b (a :: s1)) by (eapply Permutation_in; [apply Permutation_sym; exact P | left; reflexivity]).
        destruct I as [E | I]; [subst; apply (swo_irr _ H)|]. rewrite Forall_forall in F1. apply F1. exact I. }
      assert (Lba : lt a b = false).
      { assert (I : In a (b :: s2)) by (eapply Permutation_in; [exact P | left; reflexivity]).
        destruct I as [E | I]; [subst; apply (swo_irr _ H)|]. rewrite Forall_forall in F2. apply F2. exact I. }
      assert (E1 : equivb a a = true) by (unfold equivb; rewrite (swo_irr _ H); reflexivity).
      assert (E2 : equivb a b = true) by (unfold equivb; rewrite Lab, Lba; reflexivity).
      pose proof (F a) as Fa. simpl in Fa. rewrite E1, E2 in Fa. injection Fa as Eab _. subst b.
      f_equal. apply IH; auto.
      + eapply Permutation_cons_inv. exact P.
      + intro x. pose proof (F x) as Fx. simpl in Fx. destruct (equivb x a); [injection Fx; auto | exact Fx].
  Qed.

  Theorem stable_sort_unique l l' :
    Permutation l l' -> StronglySorted le l' -> (forall x, filter (equivb x) l' = filter (equivb x) l) ->
    l' = isort lt l.
  Proof.
    intros P S F. apply sorted_stable_unique; auto.
    - eapply perm_trans; [apply Permutation_sym; exact P | apply isort_perm].
    - apply isort_sorted.
    - intro x. rewrite F. symmetry. apply isort_stable.
      intros y z Ey Ez. unfold equivb in *. apply andb_true_iff in Ey. apply andb_true_iff in Ez.
      destruct Ey as [Y1 Y2], Ez as [Z1 Z2]. apply negb_true_iff in Y1, Y2, Z1, Z2.
      apply (swo_ntrans _ H y x z); assumption.
  Qed.
End SortFacts.
