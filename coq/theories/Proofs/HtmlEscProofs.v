(* Proofs for C12: the Model of textDefault / processFileContent / Renderable.__str__ (Model/HtmlEsc.v) meets the HTML
   reading of Spec/HtmlSpec.v. *)
From Coq Require Import List NArith ZArith Bool Arith Lia.
Import ListNotations.
From Verif Require Import Val HtmlSpec HtmlEsc.
Local Open Scope N_scope.

(* ------------------------------------------------------------------------------------------------ *)
(* generic list facts *)

Lemma flat_map_app' {A B} (f : A -> list B) (a b : list A) : flat_map f (a ++ b) = flat_map f a ++ flat_map f b.
Proof. induction a as [|x a IH]; simpl; [reflexivity|]. rewrite IH, app_assoc. reflexivity. Qed.

Lemma prefixb_app (p r : str) : prefixb p (p ++ r) = true.
Proof. induction p as [|x p IH]; simpl; [reflexivity|]. rewrite N.eqb_refl, IH. reflexivity. Qed.

Lemma prefixb_spec (p s : str) : prefixb p s = true <-> exists r, s = p ++ r.
Proof.
  revert s. induction p as [|x p IH]; intros s; simpl.
  - split; [intros _; exists s; reflexivity | reflexivity].
  - destruct s as [|y s]; [split; [discriminate | intros [r Hr]; discriminate]|].
    rewrite andb_true_iff, N.eqb_eq, IH. split.
    + intros [-> [r ->]]. exists r. reflexivity.
    + intros [r Hr]. injection Hr as -> ->. split; [reflexivity | exists r; reflexivity].
Qed.

Lemma chars_of_app (a b : list token) : chars_of (a ++ b) = chars_of a ++ chars_of b.
Proof. induction a as [|[c|m] a IH]; simpl; rewrite ?IH; reflexivity. Qed.

Lemma chars_of_map_chr (s : str) : chars_of (map Chr s) = s.
Proof. induction s as [|c s IH]; simpl; rewrite ?IH; reflexivity. Qed.

Lemma forallb_is_chr_map (s : str) : forallb is_chr (map Chr s) = true.
Proof. induction s; simpl; auto. Qed.

(* ------------------------------------------------------------------------------------------------ *)
(* the escapers as one character map *)

Definition esc_char (c : N) : str :=
  if c =? 38 then e_amp else if c =? 60 then e_lt else if c =? 62 then e_gt else [c].

Lemma replace_char_app c rep a b : replace_char c rep (a ++ b) = replace_char c rep a ++ replace_char c rep b.
Proof. apply flat_map_app'. Qed.

Lemma escape_flat (s : str) : escape s = flat_map esc_char s.
Proof.
  unfold escape, text_default. simpl negb. cbv iota.
  induction s as [|c s IH]; [reflexivity|].
  change (c :: s) with ([c] ++ s).
  unfold replace_char at 3. rewrite flat_map_app'. fold (replace_char 38 e_amp s).
  rewrite !replace_char_app, IH. rewrite flat_map_app'. f_equal.
  simpl. unfold esc_char.
  destruct (c =? 38) eqn:E1; [reflexivity|].
  simpl. destruct (c =? 60) eqn:E2; [reflexivity|].
  simpl. destruct (c =? 62) eqn:E3; reflexivity.
Qed.

Definition esc_e_char (c : N) : str :=
  if c =? 38 then e_amp else if c =? 62 then e_gt else if c =? 60 then e_lt
  else if c =? 39 then e_n39 else if c =? 34 then e_n34 else [c].

Lemma escape_e_flat (s : str) : escape_e s = flat_map esc_e_char s.
Proof.
  unfold escape_e.
  induction s as [|c s IH]; [reflexivity|].
  change (c :: s) with ([c] ++ s).
  rewrite !replace_char_app, IH. rewrite flat_map_app'. f_equal.
  simpl. unfold esc_e_char.
  destruct (c =? 38) eqn:E1; [reflexivity|].
  simpl. destruct (c =? 62) eqn:E2; [reflexivity|].
  simpl. destruct (c =? 60) eqn:E3; [reflexivity|].
  simpl. destruct (c =? 39) eqn:E4; [reflexivity|].
  simpl. destruct (c =? 34) eqn:E5; reflexivity.
Qed.

Definition esc_h_char (c : N) : str :=
  if c =? 38 then e_amp else if c =? 60 then e_lt else if c =? 62 then e_gt
  else if c =? 34 then e_quot else if c =? 39 then e_x27 else [c].

Lemma escape_html_flat (s : str) : escape_html true s = flat_map esc_h_char s.
Proof.
  unfold escape_html.
  induction s as [|c s IH]; [reflexivity|].
  change (c :: s) with ([c] ++ s).
  rewrite !replace_char_app, IH. rewrite flat_map_app'. f_equal.
  simpl. unfold esc_h_char.
  destruct (c =? 38) eqn:E1; [reflexivity|].
  simpl. destruct (c =? 60) eqn:E2; [reflexivity|].
  simpl. destruct (c =? 62) eqn:E3; [reflexivity|].
  simpl. destruct (c =? 34) eqn:E4; [reflexivity|].
  simpl. destruct (c =? 39) eqn:E5; reflexivity.
Qed.

Lemma escape_html_false (s : str) : escape_html false s = escape s.
Proof. reflexivity. Qed.

(* ------------------------------------------------------------------------------------------------ *)
(* named references: what the longest match finds at "amp;", "lt;", "gt;", "quot;" *)

Lemma best_match_spec (ents : ent_table) (s n0 v0 : str) :
  In (n0, v0) ents -> prefixb n0 s = true ->
  (forall n v, In (n, v) ents -> prefixb n s = true -> (length n < length n0)%nat \/ (n = n0 /\ v = v0)) ->
  best_match ents s = Some (n0, v0).
Proof.
  intros Hin Hp Hall.
  assert (G : forall l, (forall n v, In (n, v) l -> prefixb n s = true -> (length n < length n0)%nat \/ (n = n0 /\ v = v0)) ->
              (In (n0, v0) l -> best_match l s = Some (n0, v0)) /\
              (forall n v, best_match l s = Some (n, v) -> In (n, v) l /\ prefixb n s = true)).
  { induction l as [|[n v] l IH]; intros Hl.
    - split; [intros [] | discriminate].
    - assert (Hl' : forall n v, In (n, v) l -> prefixb n s = true -> (length n < length n0)%nat \/ n = n0 /\ v = v0)
        by (intros; eapply Hl; [right; eassumption | assumption]).
      destruct (IH Hl') as [IH1 IH2]. simpl.
      destruct (prefixb n s) eqn:En.
      + destruct (Hl n v (or_introl eq_refl) En) as [Hlt | [-> ->]].
        * (* a shorter name: it never replaces the best one *)
          split.
          -- intros [Heq | Hin']; [injection Heq as -> ->; lia|].
             rewrite (IH1 Hin'). destruct (Nat.ltb_spec (length n0) (length n)); [lia | reflexivity].
          -- intros n' v'. destruct (best_match l s) as [[n2 v2]|] eqn:Eb.
             ++ destruct (length n2 <? length n)%nat.
                ** intros H; injection H as <- <-. split; [left; reflexivity | assumption].
                ** intros H; injection H as <- <-. destruct (IH2 _ _ eq_refl). split; [right; assumption | assumption].
             ++ intros H; injection H as <- <-. split; [left; reflexivity | assumption].
        * (* the entry itself *)
          split.
          -- intros _. destruct (best_match l s) as [[n2 v2]|] eqn:Eb; [|reflexivity].
             destruct (IH2 _ _ eq_refl) as [Hin2 Hp2].
             destruct (Hl' _ _ Hin2 Hp2) as [Hlt | [-> ->]].
             ++ apply Nat.ltb_lt in Hlt. rewrite Hlt. reflexivity.
             ++ rewrite Nat.ltb_irrefl. reflexivity.
          -- intros n' v'. destruct (best_match l s) as [[n2 v2]|] eqn:Eb.
             ++ destruct (length n2 <? length n0)%nat.
                ** intros H; injection H as <- <-. split; [left; reflexivity | assumption].
                ** intros H; injection H as <- <-. destruct (IH2 _ _ eq_refl). split; [right; assumption | assumption].
             ++ intros H; injection H as <- <-. split; [left; reflexivity | assumption].
      + split.
        * intros [Heq | Hin']; [injection Heq as -> ->; congruence | apply IH1; assumption].
        * intros n' v' H. destruct (IH2 _ _ H). split; [right; assumption | assumption].
  }
  apply (G ents Hall). assumption.
Qed.

(* a well-formed name that is a prefix of  body ++ ";" ++ rest  (body alphanumeric) is shorter than body ++ ";" or equal to it *)
Lemma name_prefix_bound (body : str) :
  forallb is_alnum body = true ->
  forall (n rest : str), name_tail_ok n = true -> prefixb n (body ++ 59 :: rest) = true ->
  (length n <= length body)%nat \/ n = body ++ [59].
Proof.
  induction body as [|b body IH]; intros Hb n rest Hn Hp.
  - simpl in Hp. destruct n as [|c n]; [left; simpl; lia|].
    apply andb_true_iff in Hp. destruct Hp as [Hc Hp]. apply N.eqb_eq in Hc. subst c.
    simpl in Hn. destruct n as [|d n]; [right; reflexivity | discriminate Hn].
  - simpl in Hb. apply andb_true_iff in Hb. destruct Hb as [Hb1 Hb2].
    destruct n as [|c n]; [left; simpl; lia|].
    simpl in Hp. apply andb_true_iff in Hp. destruct Hp as [Hc Hp]. apply N.eqb_eq in Hc. subst c.
    assert (Hn' : name_tail_ok n = true).
    { simpl in Hn. destruct n as [|d n]; [reflexivity|]. apply andb_true_iff in Hn. apply Hn. }
    destruct (IH Hb2 n rest Hn' Hp) as [Hl | ->]; [left; simpl; lia | right; reflexivity].
Qed.

Lemma name_ok_tail (n : str) : name_ok n = true -> name_tail_ok n = true.
Proof.
  destruct n as [|c n]; [discriminate|]. simpl. intros H. apply andb_true_iff in H. destruct H as [H1 H2].
  destruct n as [|d n]; [rewrite H1; apply orb_true_r | rewrite H1, H2; reflexivity].
Qed.

Section Entities.
  Context (ents : ent_table).

  Lemma ents_wf_in (n v : str) : ents_wf ents = true -> In (n, v) ents -> name_ok n = true.
  Proof.
    unfold ents_wf. rewrite forallb_forall. intros H Hin. apply (H (n, v) Hin).
  Qed.

  (* the reference  body;  with value v is what the longest match finds in front of any rest *)
  Lemma best_match_entity (body v rest : str) :
    ents_wf ents = true -> forallb is_alnum body = true ->
    has ents (body ++ [59]) -> knows ents (body ++ [59]) v ->
    best_match ents ((body ++ [59]) ++ rest) = Some (body ++ [59], v).
  Proof.
    intros Hwf Hb [v0 Hin] Hk.
    assert (v0 = v) by (eapply Hk; [eassumption | reflexivity]). subst v0.
    apply best_match_spec; [assumption | apply prefixb_app |].
    intros n w Hinw Hp.
    rewrite <- app_assoc in Hp. simpl in Hp.
    destruct (name_prefix_bound body Hb n rest (name_ok_tail _ (ents_wf_in _ _ Hwf Hinw)) Hp) as [Hl | ->].
    - left. rewrite app_length. simpl. lia.
    - right. split; [reflexivity | eapply Hk; [eassumption | reflexivity]].
  Qed.

  Lemma last_app_semi (body : str) : last (body ++ [59]) 0 = 59.
  Proof. induction body as [|b [|b' body] IH]; simpl in *; auto. Qed.

  Lemma char_ref_entity (body v rest : str) (in_attr : bool) :
    ents_wf ents = true -> forallb is_alnum body = true -> body <> [] ->
    has ents (body ++ [59]) -> knows ents (body ++ [59]) v ->
    char_ref ents in_attr ((body ++ [59]) ++ rest) = Some (v, S (length body)).
  Proof.
    intros Hwf Hb Hne Hh Hk.
    unfold char_ref.
    destruct body as [|b body]; [congruence|].
    simpl in Hb. apply andb_true_iff in Hb. destruct Hb as [Hb1 Hb2].
    assert (Hb35 : b <> 35).
    { intros ->. discriminate. }
    change (((b :: body) ++ [59]) ++ rest) with (b :: (body ++ [59]) ++ rest).
    destruct b as [|p]; [discriminate|].
    assert (E : best_match ents (N.pos p :: (body ++ [59]) ++ rest) = Some ((N.pos p :: body) ++ [59], v)).
    { apply (best_match_entity (N.pos p :: body) v rest Hwf); [simpl; rewrite Hb1, Hb2; reflexivity | assumption | assumption]. }
    destruct (N.pos p =? 35) eqn:E35; [apply N.eqb_eq in E35; congruence|].
    assert (G : match best_match ents (N.pos p :: (body ++ [59]) ++ rest) with
                | Some (n, v0) =>
                    if in_attr && negb (59 =? last n 0) &&
                       match skipn (length n) (N.pos p :: (body ++ [59]) ++ rest) with c :: _ => (c =? 61) || is_alnum c | [] => false end
                    then None else Some (v0, length n)
                | None => None
                end = Some (v, S (length (N.pos p :: body)))).
    { rewrite E. rewrite last_app_semi. simpl (59 =? 59). simpl negb. rewrite andb_false_r. simpl.
      rewrite app_length. simpl. f_equal. f_equal. lia. }
    revert G E35. clear. simpl length.
    destruct p as [p|p|]; try (intros G _; exact G).
    all: destruct p as [p|p|]; try (intros G _; exact G).
    all: destruct p as [p|p|]; try (intros G _; exact G).
    all: destruct p as [p|p|]; try (intros G _; exact G).
    all: destruct p as [p|p|]; try (intros G _; exact G).
    all: destruct p as [p|p|]; try (intros G _; exact G).
    intros _ E. discriminate E.
  Qed.
End Entities.

(* ------------------------------------------------------------------------------------------------ *)
(* M1: textDefault output is inert character data, in any context *)

Definition amp_begins_ref (post : str) : bool :=
  prefixb s_amp_semi post || prefixb s_lt_semi post || prefixb s_gt_semi post.

Fixpoint amps_ok (s : str) : bool :=
  match s with
  | [] => true
  | c :: r => (if c =? 38 then amp_begins_ref r else true) && amps_ok r
  end.

Lemma amps_ok_spec (x : str) : amps_ok x = true -> forall pre post, x = pre ++ 38 :: post -> amp_begins_ref post = true.
Proof.
  intros H pre. revert x H. induction pre as [|p pre IH]; intros x H post ->.
  - simpl in H. apply andb_true_iff in H. apply H.
  - simpl in H. apply andb_true_iff in H. destruct H as [_ H]. eapply IH; [exact H | reflexivity].
Qed.

Lemma amps_ok_app_plain (a b : str) : ~ In 38 a -> amps_ok b = true -> amps_ok (a ++ b) = true.
Proof.
  induction a as [|c a IH]; intros Hn Hb; [assumption|]. simpl.
  destruct (c =? 38) eqn:E; [apply N.eqb_eq in E; subst; exfalso; apply Hn; left; reflexivity|].
  simpl. apply IH; [intros H; apply Hn; right; assumption | assumption].
Qed.

Lemma esc_char_amps_ok (c : N) (t : str) : amps_ok t = true -> amps_ok (esc_char c ++ t) = true.
Proof.
  intros Ht. unfold esc_char.
  destruct (c =? 38) eqn:E1; [simpl; rewrite Ht; reflexivity|].
  destruct (c =? 60) eqn:E2; [simpl; rewrite Ht; reflexivity|].
  destruct (c =? 62) eqn:E3; [simpl; rewrite Ht; reflexivity|].
  simpl. rewrite E1, Ht. reflexivity.
Qed.

Lemma esc_char_no_angle (c x : N) : In x (esc_char c) -> x <> 60 /\ x <> 62.
Proof.
  unfold esc_char.
  destruct (c =? 38) eqn:E1; [simpl; intuition (subst; discriminate)|].
  destruct (c =? 60) eqn:E2; [simpl; intuition (subst; discriminate)|].
  destruct (c =? 62) eqn:E3; [simpl; intuition (subst; discriminate)|].
  simpl. intros [<- | []]. apply N.eqb_neq in E2, E3. split; assumption.
Qed.

Lemma escape_no_angle (s : str) : ~ In 60 (escape s) /\ ~ In 62 (escape s).
Proof.
  rewrite escape_flat. split; intros H; apply in_flat_map in H; destruct H as [c [_ H]];
    destruct (esc_char_no_angle _ _ H); congruence.
Qed.

Lemma escape_amps_ok (s : str) : amps_ok (escape s) = true.
Proof.
  rewrite escape_flat. induction s as [|c s IH]; [reflexivity|]. simpl. apply esc_char_amps_ok. assumption.
Qed.

Section Inert.
  Context (ents : ent_table) (Hok : ents_ok ents).

  Lemma tok_skip (pre rest : str) : tok ents (Data (length pre)) (pre ++ rest) = tok ents (Data 0) rest.
  Proof. induction pre as [|c pre IH]; [reflexivity | exact IH]. Qed.

  Lemma tok_plain (c : N) (r : str) : c <> 60 -> c <> 38 -> tok ents (Data 0) (c :: r) = Chr c :: tok ents (Data 0) r.
  Proof.
    intros H1 H2. simpl.
    destruct (c =? 60) eqn:E1; [apply N.eqb_eq in E1; congruence|].
    destruct (c =? 38) eqn:E2; [apply N.eqb_eq in E2; congruence|]. reflexivity.
  Qed.

  Lemma tok_amp_step (r : str) :
    tok ents (Data 0) (38 :: r) =
    match char_ref ents false r with
    | Some (v, k) => map Chr v ++ tok ents (Data k) r
    | None => Chr 38 :: tok ents (Data 0) r
    end.
  Proof. reflexivity. Qed.

  Lemma tok_entity (body v rest : str) :
    forallb is_alnum body = true -> body <> [] -> has ents (body ++ [59]) -> knows ents (body ++ [59]) v ->
    tok ents (Data 0) (38 :: (body ++ [59]) ++ rest) = map Chr v ++ tok ents (Data 0) rest.
  Proof.
    intros Hb Hne Hh Hk. rewrite tok_amp_step.
    rewrite (char_ref_entity ents body v rest false (eo_wf _ Hok) Hb Hne Hh Hk).
    f_equal. replace (S (length body)) with (length (body ++ [59])) by (rewrite app_length; simpl; lia).
    apply tok_skip.
  Qed.

  Lemma tok_e_amp (rest : str) : tok ents (Data 0) (e_amp ++ rest) = Chr 38 :: tok ents (Data 0) rest.
  Proof.
    destruct (eo_amp _ Hok) as [Hh Hk].
    exact (tok_entity [97; 109; 112] [38] rest eq_refl ltac:(discriminate) Hh Hk).
  Qed.
  Lemma tok_e_lt (rest : str) : tok ents (Data 0) (e_lt ++ rest) = Chr 60 :: tok ents (Data 0) rest.
  Proof.
    destruct (eo_lt _ Hok) as [Hh Hk].
    exact (tok_entity [108; 116] [60] rest eq_refl ltac:(discriminate) Hh Hk).
  Qed.
  Lemma tok_e_gt (rest : str) : tok ents (Data 0) (e_gt ++ rest) = Chr 62 :: tok ents (Data 0) rest.
  Proof.
    destruct (eo_gt _ Hok) as [Hh Hk].
    exact (tok_entity [103; 116] [62] rest eq_refl ltac:(discriminate) Hh Hk).
  Qed.

  Lemma esc_char_inert (c : N) (rest : str) : tok ents (Data 0) (esc_char c ++ rest) = Chr c :: tok ents (Data 0) rest.
  Proof.
    unfold esc_char.
    destruct (c =? 38) eqn:E1; [apply N.eqb_eq in E1; subst; apply tok_e_amp|].
    destruct (c =? 60) eqn:E2; [apply N.eqb_eq in E2; subst; apply tok_e_lt|].
    destruct (c =? 62) eqn:E3; [apply N.eqb_eq in E3; subst; apply tok_e_gt|].
    apply N.eqb_neq in E1, E2. apply tok_plain; assumption.
  Qed.

  (* whatever follows, the parser reads escape s back as the characters of s and is in the data state again *)
  Theorem escape_inert_ctx (s rest : str) :
    tok ents (Data 0) (escape s ++ rest) = map Chr s ++ tok ents (Data 0) rest.
  Proof.
    rewrite escape_flat. induction s as [|c s IH]; [reflexivity|].
    simpl. rewrite <- app_assoc, esc_char_inert, IH. reflexivity.
  Qed.

  Theorem escape_tokens (s : str) : tokenize ents (escape s) = map Chr s.
  Proof.
    unfold tokenize. rewrite <- (app_nil_r (escape s)), escape_inert_ctx. simpl. apply app_nil_r.
  Qed.

  Theorem escape_inert (s : str) :
    ~ In 60 (escape s) /\ ~ In 62 (escape s) /\ amps_ok (escape s) = true /\
    html_text ents (escape s) = s /\ markup_free ents (escape s).
  Proof.
    destruct (escape_no_angle s) as [H1 H2]. repeat split; try assumption.
    - apply escape_amps_ok.
    - unfold html_text. rewrite escape_tokens. apply chars_of_map_chr.
    - unfold markup_free. rewrite escape_tokens. apply forallb_is_chr_map.
  Qed.

  (* isMarkup text is passed through untouched *)
  Lemma text_default_markup (s : str) : text_default true s = s.
  Proof. reflexivity. Qed.
End Inert.

(* ------------------------------------------------------------------------------------------------ *)
(* M2: high-character escaping *)

Lemma dec_val_snoc (l : str) (d : N) : dec_val (l ++ [d]) = dec_val l * 10 + (d - 48).
Proof. unfold dec_val. rewrite fold_left_app. reflexivity. Qed.

Lemma dec_val_zeros (k : nat) (ds : str) : dec_val (repeat 48 k ++ ds) = dec_val ds.
Proof.
  unfold dec_val. rewrite fold_left_app. f_equal.
  induction k as [|k IH]; [reflexivity|]. simpl. exact IH.
Qed.

Lemma forallb_app' {A} (p : A -> bool) (a b : list A) : forallb p (a ++ b) = forallb p a && forallb p b.
Proof. induction a as [|x a IH]; simpl; [reflexivity|]. rewrite IH, andb_assoc. reflexivity. Qed.

Lemma is_digit_48_plus (d : N) : d < 10 -> is_digit (48 + d) = true.
Proof. intros H. unfold is_digit. apply andb_true_iff. split; apply N.leb_le; lia. Qed.

Lemma dec_digits_fuel_spec (f : nat) : forall n, n < 2 ^ N.of_nat f ->
  dec_val (dec_digits_fuel f n) = n /\ forallb is_digit (dec_digits_fuel f n) = true /\ dec_digits_fuel f n <> [].
Proof.
  induction f as [|f IH]; intros n Hn.
  - simpl in Hn. assert (n = 0) by lia. subst. repeat split; try reflexivity. discriminate.
  - cbn [dec_digits_fuel]. destruct (n <? 10) eqn:E.
    + apply N.ltb_lt in E. repeat split.
      * unfold dec_val. cbn [fold_left]. lia.
      * cbn [forallb]. rewrite is_digit_48_plus by assumption. reflexivity.
      * discriminate.
    + apply N.ltb_ge in E.
      assert (Hdiv : n / 10 < 2 ^ N.of_nat f).
      { rewrite Nat2N.inj_succ, N.pow_succ_r' in Hn. apply N.div_lt_upper_bound; lia. }
      destruct (IH _ Hdiv) as [H1 [H2 H3]]. repeat split.
      * rewrite dec_val_snoc, H1. pose proof (N.div_mod n 10 ltac:(lia)) as Hdm.
        generalize dependent (n / 10). generalize dependent (n mod 10). intros. lia.
      * rewrite forallb_app', H2. cbn [forallb andb]. rewrite is_digit_48_plus; [reflexivity|]. apply N.mod_lt. lia.
      * intros H. apply app_eq_nil in H. destruct H as [_ H]. discriminate.
Qed.

Lemma dec_digits_spec (n : N) :
  dec_val (dec_digits n) = n /\ forallb is_digit (dec_digits n) = true /\ dec_digits n <> [].
Proof.
  unfold dec_digits. apply dec_digits_fuel_spec. rewrite N2Nat.id. apply N.size_gt.
Qed.

Lemma fmt_3d_spec (n : N) :
  dec_val (fmt_3d n) = n /\ forallb is_digit (fmt_3d n) = true /\ fmt_3d n <> [].
Proof.
  destruct (dec_digits_spec n) as [H1 [H2 H3]]. unfold fmt_3d. repeat split.
  - rewrite dec_val_zeros. assumption.
  - rewrite forallb_app', H2, andb_true_r. induction (3 - length (dec_digits n))%nat; simpl; auto.
  - intros H. apply app_eq_nil in H. destruct H as [_ H]. contradiction.
Qed.

Lemma span_digits (ds tl : str) :
  forallb is_digit ds = true -> match tl with c :: _ => is_digit c = false | [] => True end ->
  span is_digit (ds ++ tl) = (ds, tl).
Proof.
  intros H Ht. induction ds as [|d ds IH]; simpl.
  - destruct tl as [|c tl]; [reflexivity|]. simpl. rewrite Ht. reflexivity.
  - simpl in H. apply andb_true_iff in H. destruct H as [Hd H]. rewrite Hd, (IH H). reflexivity.
Qed.

(* a scalar value that a numeric reference denotes faithfully *)
Definition ref_exact (c : N) : Prop := fix_code c = c.

Lemma ref_exact_intro (c : N) :
  127 < c -> (c < 128 \/ 159 < c) -> c <= 1114111 -> (c < 55296 \/ 57343 < c) -> ref_exact c.
Proof.
  intros H1 H2 H3 H4. unfold ref_exact, fix_code.
  destruct (c =? 0) eqn:E0; [apply N.eqb_eq in E0; lia|].
  destruct (1114111 <? c) eqn:E1; [apply N.ltb_lt in E1; lia|].
  destruct ((55296 <=? c) && (c <=? 57343)) eqn:E2.
  { apply andb_true_iff in E2. destruct E2 as [A B]. apply N.leb_le in A, B. lia. }
  assert (G : forall l, (forall a b, In (a, b) l -> 128 <= a <= 159) -> assocN c l = None).
  { induction l as [|[a b] l IH]; intros Hl; [reflexivity|]. simpl.
    destruct (a =? c) eqn:E; [apply N.eqb_eq in E; specialize (Hl a b (or_introl eq_refl)); lia|].
    apply IH. intros; eapply Hl; right; eassumption. }
  rewrite G; [reflexivity|].
  intros a b Hin. simpl in Hin.
  repeat (destruct Hin as [Hin | Hin]; [injection Hin as <- <-; lia|]). destruct Hin.
Qed.

Definition text_ok (s : str) : Prop := forall c, In c s -> c <= 127 \/ ref_exact c.

Lemma high_char_ascii (c x : N) : In x (high_char c) -> x <= 127.
Proof.
  unfold high_char. destruct (127 <? c) eqn:E.
  - destruct (fmt_3d_spec c) as [_ [H _]]. simpl. intros [<- | [<- | H']]; try lia.
    apply in_app_or in H'. destruct H' as [H' | [<- | []]]; [|lia].
    rewrite forallb_forall in H. specialize (H _ H'). unfold is_digit in H.
    apply andb_true_iff in H. destruct H as [_ H]. apply N.leb_le in H. lia.
  - apply N.ltb_ge in E. intros [<- | []]. assumption.
Qed.

Theorem post_high_ascii (s : str) : forall x, In x (post_high true s) -> x <= 127.
Proof.
  intros x H. simpl in H. apply in_flat_map in H. destruct H as [c [_ H]]. eapply high_char_ascii; eassumption.
Qed.

Lemma post_high_app (hi : bool) (a b : str) : post_high hi (a ++ b) = post_high hi a ++ post_high hi b.
Proof. destruct hi; [apply flat_map_app' | reflexivity]. Qed.

Lemma post_high_low (s : str) : (forall c, In c s -> c <= 127) -> post_high true s = s.
Proof.
  intros H. simpl. induction s as [|c s IH]; [reflexivity|]. simpl.
  unfold high_char at 1. destruct (127 <? c) eqn:E.
  - apply N.ltb_lt in E. specialize (H c (or_introl eq_refl)). lia.
  - simpl. f_equal. apply IH. intros; apply H; right; assumption.
Qed.

Section High.
  Context (ents : ent_table) (Hok : ents_ok ents).

  Lemma tok_numeric (c : N) (rest : str) :
    tok ents (Data 0) (38 :: 35 :: fmt_3d c ++ 59 :: rest) = Chr (fix_code c) :: tok ents (Data 0) rest.
  Proof.
    rewrite tok_amp_step.
    destruct (fmt_3d_spec c) as [Hv [Hd Hne]].
    assert (Hspan : span is_digit (fmt_3d c ++ 59 :: rest) = (fmt_3d c, 59 :: rest)) by (apply span_digits; [assumption | reflexivity]).
    destruct (fmt_3d c) as [|d ds] eqn:Ef; [congruence|].
    cbv beta iota delta [char_ref].
    assert (Hdd : is_digit d = true) by (simpl in Hd; apply andb_true_iff in Hd; apply Hd).
    change ((d :: ds) ++ 59 :: rest) with (d :: ds ++ 59 :: rest) in *.
    assert (Hx : (d =? 120) || (d =? 88) = false).
    { unfold is_digit in Hdd. apply andb_true_iff in Hdd. destruct Hdd as [A B]. apply N.leb_le in A, B.
      apply orb_false_iff. split; apply N.eqb_neq; lia. }
    cbv beta iota. rewrite Hx, Hspan, Hv. simpl semi_len. simpl map.
    change (38 :: 35 :: d :: ds ++ 59 :: rest) with (38 :: 35 :: d :: ds ++ 59 :: rest).
    cbn [app]. f_equal.
    replace (1 + length (d :: ds) + 1)%nat with (length (35 :: d :: ds ++ [59])) by (simpl; rewrite app_length; simpl; lia).
    replace (35 :: d :: ds ++ 59 :: rest) with ((35 :: d :: ds ++ [59]) ++ rest) by (simpl; rewrite <- app_assoc; reflexivity).
    apply tok_skip.
  Qed.

  Definition high_esc_char (c : N) : str := if 127 <? c then 38 :: 35 :: fmt_3d c ++ [59] else esc_char c.

  Lemma esc_char_low (c x : N) : c <= 127 -> In x (esc_char c) -> x <= 127.
  Proof.
    intros Hc. unfold esc_char.
    destruct (c =? 38); [simpl; intuition (subst; lia)|].
    destruct (c =? 60); [simpl; intuition (subst; lia)|].
    destruct (c =? 62); [simpl; intuition (subst; lia)|].
    simpl. intros [<- | []]. assumption.
  Qed.

  Lemma post_high_esc_char (c : N) : post_high true (esc_char c) = high_esc_char c.
  Proof.
    unfold high_esc_char. destruct (127 <? c) eqn:E.
    - apply N.ltb_lt in E. unfold esc_char.
      destruct (c =? 38) eqn:E1; [apply N.eqb_eq in E1; lia|].
      destruct (c =? 60) eqn:E2; [apply N.eqb_eq in E2; lia|].
      destruct (c =? 62) eqn:E3; [apply N.eqb_eq in E3; lia|].
      simpl. unfold high_char. apply N.ltb_lt in E. rewrite E. rewrite app_nil_r. reflexivity.
    - apply N.ltb_ge in E. apply post_high_low. intros x. apply esc_char_low. assumption.
  Qed.

  Lemma high_esc_char_inert (c : N) (rest : str) :
    c <= 127 \/ ref_exact c -> tok ents (Data 0) (high_esc_char c ++ rest) = Chr c :: tok ents (Data 0) rest.
  Proof.
    intros Hc. unfold high_esc_char. destruct (127 <? c) eqn:E.
    - apply N.ltb_lt in E. destruct Hc as [Hc | Hc]; [lia|].
      change ((38 :: 35 :: fmt_3d c ++ [59]) ++ rest) with (38 :: 35 :: (fmt_3d c ++ [59]) ++ rest).
      rewrite <- app_assoc. simpl ([59] ++ rest). rewrite tok_numeric, Hc. reflexivity.
    - apply esc_char_inert. assumption.
  Qed.

  (* with the option on: pure ASCII, and the parser reads the same text back, in any context *)
  Theorem highchars_ctx (s rest : str) : text_ok s ->
    tok ents (Data 0) (post_high true (escape s) ++ rest) = map Chr s ++ tok ents (Data 0) rest.
  Proof.
    rewrite escape_flat. induction s as [|c s IH]; intros Hs; [reflexivity|].
    cbn [flat_map]. rewrite post_high_app, post_high_esc_char, <- app_assoc.
    rewrite high_esc_char_inert by (apply Hs; left; reflexivity).
    rewrite IH by (intros x Hx; apply Hs; right; assumption). reflexivity.
  Qed.

  Theorem highchars (s : str) : text_ok s ->
    (forall x, In x (post_high true (escape s)) -> x <= 127) /\
    html_text ents (post_high true (escape s)) = s /\
    markup_free ents (post_high true (escape s)) /\
    html_text ents (post_high false (escape s)) = html_text ents (post_high true (escape s)).
  Proof.
    intros Hs.
    assert (T : tokenize ents (post_high true (escape s)) = map Chr s).
    { unfold tokenize. rewrite <- (app_nil_r (post_high true (escape s))), highchars_ctx by assumption. simpl. apply app_nil_r. }
    repeat split.
    - apply post_high_ascii.
    - unfold html_text. rewrite T. apply chars_of_map_chr.
    - unfold markup_free. rewrite T. apply forallb_is_chr_map.
    - unfold html_text at 2. rewrite T, chars_of_map_chr. simpl post_high. apply (escape_inert ents Hok).
  Qed.
End High.

(* C1 controls: the numeric reference is remapped by the HTML standard (windows-1252), so the text changes *)
Theorem highchars_c1_refuted :
  exists s, html_text core_ents (post_high true (escape s)) <> s /\ html_text core_ents (post_high false (escape s)) = s.
Proof. exists [97; 133; 98]. split; [vm_compute; discriminate | vm_compute; reflexivity]. Qed.

(* ------------------------------------------------------------------------------------------------ *)
(* M4: the image-placeholder substitution *)

Lemma skipn_skipn' {A} (a b : nat) (l : list A) : skipn a (skipn b l) = skipn (b + a) l.
Proof.
  revert l. induction b as [|b IH]; intros l; [reflexivity|].
  destruct l as [|x l]; [simpl; destruct a; reflexivity|]. simpl. apply IH.
Qed.

(* no "-width;", "-height;", "-depth;" anywhere in x *)
Definition suffix_free (x : str) : Prop := forall k, match_suffix (skipn k x) = None.

Lemma suffix_free_tail (c : N) (r : str) : suffix_free (c :: r) -> suffix_free r.
Proof. intros H k. exact (H (S k)). Qed.

Lemma backtrack_none (t : str) (n : nat) : (forall k, match_suffix (skipn k t) = None) -> backtrack n t = None.
Proof. intros H. induction n as [|n IH]; [reflexivity|]. cbn [backtrack]. rewrite H. exact IH. Qed.

Lemma match_here_none (s : str) : suffix_free s -> match_here s = None.
Proof.
  intros H. unfold match_here. destruct (prefixb e_amp s); [|reflexivity].
  rewrite backtrack_none; [reflexivity|]. intros k. rewrite skipn_skipn'. apply H.
Qed.

Theorem sub_placeholder_suffix_free (fixed : bool) (imgs : imgtable) (x : str) :
  suffix_free x -> sub_placeholder fixed imgs 0 x = Some x.
Proof.
  induction x as [|c r IH]; intros H; [reflexivity|].
  cbn [sub_placeholder]. rewrite (match_here_none _ H), (IH (suffix_free_tail _ _ H)). reflexivity.
Qed.

Lemma match_here_len (s : str) (m : pmatch) : match_here s = Some m -> (5 <= pm_len m)%nat.
Proof.
  unfold match_here. destruct (prefixb e_amp s); [|discriminate].
  destruct (backtrack _ _) as [[[k p] l]|]; [|discriminate].
  destruct (match_units _) as [[u ul]|]; intros H; injection H as <-; simpl; lia.
Qed.

(* after fix-1: a match whose file name is no image is put back as it was *)
Lemma sub_placeholder_fixed_id (imgs : imgtable) (x : str) : forall k,
  (forall f, In f (candidates k x) -> assoc_str f imgs = None) ->
  sub_placeholder true imgs k x = Some (skipn k x).
Proof.
  induction x as [|c r IH]; intros k H; [destruct k; reflexivity|].
  destruct k as [|k]; [|cbn [sub_placeholder skipn]; apply IH; exact H].
  cbn [sub_placeholder skipn]. cbn [candidates] in H.
  destruct (match_here (c :: r)) as [m|] eqn:Em.
  - pose proof (match_here_len _ _ Em) as Hl.
    assert (Hf : assoc_str (pm_file m) imgs = None) by (apply H; left; reflexivity).
    unfold set_image_data. rewrite Hf.
    rewrite IH by (intros f Hin; apply H; right; exact Hin).
    destruct (pm_len m) as [|L] eqn:EL; [lia|].
    cbn [firstn]. replace (S L - 1)%nat with L by lia.
    cbn [app]. rewrite firstn_skipn. reflexivity.
  - rewrite IH by exact H. reflexivity.
Qed.

Theorem placeholder_fixed_id (imgs : imgtable) (x : str) :
  (forall f, In f (candidates 0 x) -> assoc_str f imgs = None) -> sub_placeholder true imgs 0 x = Some x.
Proof. intros H. rewrite sub_placeholder_fixed_id by exact H. reflexivity. Qed.

Corollary placeholder_no_images (x : str) : sub_placeholder true [] 0 x = Some x.
Proof. apply placeholder_fixed_id. reflexivity. Qed.

Section Placeholder.
  Context (ents : ent_table) (Hok : ents_ok ents).

  (* M4: document text survives the whole of processFileContent unless it spells the placeholder of an existing image *)
  Theorem placeholder_safe (imgs : imgtable) (hi : bool) (s : str) :
    text_ok s ->
    (forall f, In f (candidates 0 (escape s)) -> assoc_str f imgs = None) ->
    exists out, post true imgs hi (escape s) = Some out /\ html_text ents out = s /\ markup_free ents out.
  Proof.
    intros Hs Hc. unfold post. rewrite (placeholder_fixed_id imgs _ Hc).
    exists (post_high hi (escape s)). split; [reflexivity|].
    destruct hi.
    - destruct (highchars ents Hok s Hs) as [_ [H1 [H2 _]]]. split; assumption.
    - destruct (escape_inert ents Hok s) as [_ [_ [_ [H1 H2]]]]. split; assumption.
  Qed.

  (* the code before fix-1, under the explicit exclusion of look-alikes *)
  Theorem placeholder_safe_partial (imgs : imgtable) (hi : bool) (s : str) :
    text_ok s -> suffix_free (escape s) ->
    exists out, post false imgs hi (escape s) = Some out /\ html_text ents out = s /\ markup_free ents out.
  Proof.
    intros Hs Hc. unfold post. rewrite (sub_placeholder_suffix_free false imgs _ Hc).
    exists (post_high hi (escape s)). split; [reflexivity|].
    destruct hi.
    - destruct (highchars ents Hok s Hs) as [_ [H1 [H2 _]]]. split; assumption.
    - destruct (escape_inert ents Hok s) as [_ [_ [_ [H1 H2]]]]. split; assumption.
  Qed.
End Placeholder.

(* the findings, on the faithful Model of the code before fix-1:  &lt-width;  is displayed as  <-width;  and
   &x-height;&pt;  loses  &pt;  *)
Definition w_lt_width : str := [38; 108; 116; 45; 119; 105; 100; 116; 104; 59].
Definition w_x_height_pt : str := [38; 120; 45; 104; 101; 105; 103; 104; 116; 59; 38; 112; 116; 59].

Theorem placeholder_refuted :
  (exists out, post false [] false (escape w_lt_width) = Some out /\ html_text core_ents out = [60; 45; 119; 105; 100; 116; 104; 59]) /\
  (exists out, post false [] false (escape w_x_height_pt) = Some out /\ html_text core_ents out = [38; 120; 45; 104; 101; 105; 103; 104; 116; 59]).
Proof.
  split.
  - exists w_lt_width. split; vm_compute; reflexivity.
  - exists [38; 120; 45; 104; 101; 105; 103; 104; 116; 59]. split; vm_compute; reflexivity.
Qed.

(* what remains after fix-1: text that spells the placeholder of an image that exists is still replaced *)
Definition w_img : imgtable := [([105; 46; 112; 110; 103], [(PWidth, ([51; 48], []))])].
Definition w_forged : str := [38; 105; 46; 112; 110; 103; 45; 119; 105; 100; 116; 104; 59].
Theorem placeholder_forged_refuted :
  exists out, post true w_img false (escape w_forged) = Some out /\ html_text core_ents out <> w_forged.
Proof. exists [51; 48]. split; [vm_compute; reflexivity | vm_compute; discriminate]. Qed.

(* ------------------------------------------------------------------------------------------------ *)
(* M5: document text inside a double-quoted attribute value *)

Section Attr.
  Context (ents : ent_table) (Hok : ents_ok ents).

  Definition cons_res (v : str) (o : option (str * str)) : option (str * str) :=
    match o with Some (a, tl) => Some (v ++ a, tl) | None => None end.

  Lemma attr_skip (pre rest : str) : attr_dq ents (length pre) (pre ++ rest) = attr_dq ents 0 rest.
  Proof. induction pre as [|c pre IH]; [reflexivity | exact IH]. Qed.

  Lemma attr_plain (c : N) (r : str) : c <> 34 -> c <> 38 -> attr_dq ents 0 (c :: r) = cons_res [c] (attr_dq ents 0 r).
  Proof.
    intros H1 H2. cbn [attr_dq].
    destruct (c =? 34) eqn:E1; [apply N.eqb_eq in E1; congruence|].
    destruct (c =? 38) eqn:E2; [apply N.eqb_eq in E2; congruence|]. reflexivity.
  Qed.

  Lemma attr_amp_step (r : str) :
    attr_dq ents 0 (38 :: r) =
    match char_ref ents true r with
    | Some (v, k) => cons_res v (attr_dq ents k r)
    | None => cons_res [38] (attr_dq ents 0 r)
    end.
  Proof. reflexivity. Qed.

  Lemma attr_entity (body v rest : str) :
    forallb is_alnum body = true -> body <> [] -> has ents (body ++ [59]) -> knows ents (body ++ [59]) v ->
    attr_dq ents 0 (38 :: (body ++ [59]) ++ rest) = cons_res v (attr_dq ents 0 rest).
  Proof.
    intros Hb Hne Hh Hk. rewrite attr_amp_step.
    rewrite (char_ref_entity ents body v rest true (eo_wf _ Hok) Hb Hne Hh Hk).
    f_equal. replace (S (length body)) with (length (body ++ [59])) by (rewrite app_length; simpl; lia).
    apply attr_skip.
  Qed.

  Lemma attr_e_amp rest : attr_dq ents 0 (e_amp ++ rest) = cons_res [38] (attr_dq ents 0 rest).
  Proof. destruct (eo_amp _ Hok) as [Hh Hk]. exact (attr_entity [97; 109; 112] [38] rest eq_refl ltac:(discriminate) Hh Hk). Qed.
  Lemma attr_e_lt rest : attr_dq ents 0 (e_lt ++ rest) = cons_res [60] (attr_dq ents 0 rest).
  Proof. destruct (eo_lt _ Hok) as [Hh Hk]. exact (attr_entity [108; 116] [60] rest eq_refl ltac:(discriminate) Hh Hk). Qed.
  Lemma attr_e_gt rest : attr_dq ents 0 (e_gt ++ rest) = cons_res [62] (attr_dq ents 0 rest).
  Proof. destruct (eo_gt _ Hok) as [Hh Hk]. exact (attr_entity [103; 116] [62] rest eq_refl ltac:(discriminate) Hh Hk). Qed.
  Lemma attr_e_n39 rest : attr_dq ents 0 (e_n39 ++ rest) = cons_res [39] (attr_dq ents 0 rest).
  Proof. reflexivity. Qed.
  Lemma attr_e_n34 rest : attr_dq ents 0 (e_n34 ++ rest) = cons_res [34] (attr_dq ents 0 rest).
  Proof. reflexivity. Qed.
  Lemma attr_e_x27 rest : attr_dq ents 0 (e_x27 ++ rest) = cons_res [39] (attr_dq ents 0 rest).
  Proof. reflexivity. Qed.

  Lemma esc_e_char_attr (c : N) (t : str) : attr_dq ents 0 (esc_e_char c ++ t) = cons_res [c] (attr_dq ents 0 t).
  Proof.
    unfold esc_e_char.
    destruct (c =? 38) eqn:E1; [apply N.eqb_eq in E1; subst; apply attr_e_amp|].
    destruct (c =? 62) eqn:E2; [apply N.eqb_eq in E2; subst; apply attr_e_gt|].
    destruct (c =? 60) eqn:E3; [apply N.eqb_eq in E3; subst; apply attr_e_lt|].
    destruct (c =? 39) eqn:E4; [apply N.eqb_eq in E4; subst; apply attr_e_n39|].
    destruct (c =? 34) eqn:E5; [apply N.eqb_eq in E5; subst; apply attr_e_n34|].
    apply N.eqb_neq in E1, E5. apply attr_plain; assumption.
  Qed.

  (* Jinja2's "e": the value read back is s and reading resumes right after the template's closing quote *)
  Theorem attr_context_e (s rest : str) : attr_dq ents 0 (escape_e s ++ 34 :: rest) = Some (s, rest).
  Proof.
    rewrite escape_e_flat. induction s as [|c s IH]; [reflexivity|].
    cbn [flat_map]. rewrite <- app_assoc, esc_e_char_attr, IH. reflexivity.
  Qed.

  Lemma esc_e_char_no_quote (c x : N) : In x (esc_e_char c) -> x <> 34.
  Proof.
    unfold esc_e_char.
    destruct (c =? 38); [simpl; intuition (subst; discriminate)|].
    destruct (c =? 62); [simpl; intuition (subst; discriminate)|].
    destruct (c =? 60); [simpl; intuition (subst; discriminate)|].
    destruct (c =? 39); [simpl; intuition (subst; discriminate)|].
    destruct (c =? 34) eqn:E; [simpl; intuition (subst; discriminate)|].
    simpl. intros [<- | []]. apply N.eqb_neq. assumption.
  Qed.

  Lemma escape_e_no_quote (s : str) : ~ In 34 (escape_e s).
  Proof.
    rewrite escape_e_flat. intros H. apply in_flat_map in H. destruct H as [c [_ H]].
    apply (esc_e_char_no_quote _ _ H). reflexivity.
  Qed.

  (* inside the tag the tokenizer stays in the quoted value over any text without a double quote *)
  Lemma tok_in_dq (v : str) : ~ In 34 v -> forall acc rest, tok ents (Tag QD acc) (v ++ rest) = tok ents (Tag QD (rev v ++ acc)) rest.
  Proof.
    induction v as [|c v IH]; intros Hn acc rest; [reflexivity|].
    cbn [app tok]. destruct (c =? 34) eqn:E; [apply N.eqb_eq in E; subst; exfalso; apply Hn; left; reflexivity|].
    rewrite IH by (intros H; apply Hn; right; assumption).
    cbn [rev]. rewrite <- app_assoc. reflexivity.
  Qed.

  (* simpleTAL / html.escape(quote=1) needs quot; in the table *)
  Section Html.
    Context (Hq : has ents s_quot_semi /\ knows ents s_quot_semi [34]).

    Lemma attr_e_quot rest : attr_dq ents 0 (e_quot ++ rest) = cons_res [34] (attr_dq ents 0 rest).
    Proof. destruct Hq as [Hh Hk]. exact (attr_entity [113; 117; 111; 116] [34] rest eq_refl ltac:(discriminate) Hh Hk). Qed.

    Lemma esc_h_char_attr (c : N) (t : str) : attr_dq ents 0 (esc_h_char c ++ t) = cons_res [c] (attr_dq ents 0 t).
    Proof.
      unfold esc_h_char.
      destruct (c =? 38) eqn:E1; [apply N.eqb_eq in E1; subst; apply attr_e_amp|].
      destruct (c =? 60) eqn:E3; [apply N.eqb_eq in E3; subst; apply attr_e_lt|].
      destruct (c =? 62) eqn:E2; [apply N.eqb_eq in E2; subst; apply attr_e_gt|].
      destruct (c =? 34) eqn:E5; [apply N.eqb_eq in E5; subst; apply attr_e_quot|].
      destruct (c =? 39) eqn:E4; [apply N.eqb_eq in E4; subst; apply attr_e_x27|].
      apply N.eqb_neq in E1, E5. apply attr_plain; assumption.
    Qed.

    Theorem attr_context_html (s rest : str) : attr_dq ents 0 (escape_html true s ++ 34 :: rest) = Some (s, rest).
    Proof.
      rewrite escape_html_flat. induction s as [|c s IH]; [reflexivity|].
      cbn [flat_map]. rewrite <- app_assoc, esc_h_char_attr, IH. reflexivity.
    Qed.
  End Html.

  Lemma esc_h_char_no_quote (c x : N) : In x (esc_h_char c) -> x <> 34.
  Proof.
    unfold esc_h_char.
    destruct (c =? 38); [simpl; intuition (subst; discriminate)|].
    destruct (c =? 60); [simpl; intuition (subst; discriminate)|].
    destruct (c =? 62); [simpl; intuition (subst; discriminate)|].
    destruct (c =? 34) eqn:E; [simpl; intuition (subst; discriminate)|].
    destruct (c =? 39); [simpl; intuition (subst; discriminate)|].
    simpl. intros [<- | []]. apply N.eqb_neq. assumption.
  Qed.

  Lemma escape_html_no_quote (s : str) : ~ In 34 (escape_html true s).
  Proof.
    rewrite escape_html_flat. intros H. apply in_flat_map in H. destruct H as [c [_ H]].
    apply (esc_h_char_no_quote _ _ H). reflexivity.
  Qed.
End Attr.

(* textDefault's escaping is not enough inside an attribute value: a double quote ends the value *)
Theorem attr_context_refuted :
  exists s rest, attr_dq core_ents 0 (escape s ++ 34 :: rest) <> Some (s, rest).
Proof. exists [34; 120], [62]. vm_compute. discriminate. Qed.

(* ------------------------------------------------------------------------------------------------ *)
(* M3: Renderable.__str__ over a template table whose text-bearing positions are rendered nodes (or escaped attribute text) *)

Section NodeInd.
  Context (P : node -> Prop)
          (Ht : forall mk s, P (NText mk s))
          (He : forall nm uni attrs ch, Forall P ch -> Forall (Forall P) attrs -> P (NElem nm uni attrs ch)).

  Fixpoint node_ind' (n : node) : P n :=
    match n with
    | NText mk s => Ht mk s
    | NElem nm uni attrs ch =>
        He nm uni attrs ch
          ((fix go (l : list node) : Forall P l :=
              match l with [] => Forall_nil _ | x :: r => Forall_cons _ (node_ind' x) (go r) end) ch)
          ((fix go2 (ll : list (list node)) : Forall (Forall P) ll :=
              match ll with
              | [] => Forall_nil _
              | l :: r => Forall_cons _
                            ((fix go (l : list node) : Forall P l :=
                                match l with [] => Forall_nil _ | x :: r => Forall_cons _ (node_ind' x) (go r) end) l)
                            (go2 r)
              end) attrs)
    end.
End NodeInd.

Lemma nth_Forall {A} (Q : list A -> Prop) (ll : list (list A)) (a : nat) : Forall Q ll -> Q [] -> Q (nth a ll []).
Proof.
  intros H H0. revert a. induction H as [|l ll Hl _ IH]; intros a; destruct a; simpl; auto.
Qed.

Section RenderProofs.
  Context (ents : ent_table).
  Context (td : bool -> str -> str) (te tr : str -> str) (tpl : N -> list piece).
  Context (good : str -> Prop).

  (* a literal piece of template that leaves the parser in the data state, whatever follows *)
  Definition data_closed (l : str) : Prop :=
    forall rest, tok ents (Data 0) (l ++ rest) = tokenize ents l ++ tok ents (Data 0) rest.
  (* ... that ends just inside a double-quoted attribute value / closes that value and its tag *)
  Definition opens_dq (pre : str) : Prop := forall x, tok ents (Data 0) (pre ++ x) = tok ents (Tag QD (rev pre)) x.
  Definition closes_dq (post : str) : Prop :=
    forall acc rest, tok ents (Tag QD acc) (post ++ rest) = Markup (rev acc ++ post) :: tok ents (Data 0) rest.

  (* the text functions of the renderer *)
  Definition td_inert : Prop :=
    forall s rest, good s -> tok ents (Data 0) (td false s ++ rest) = map Chr s ++ tok ents (Data 0) rest.
  Definition te_quote_free : Prop := forall s, ~ In 34 (te s).

  Inductive tpl_ok : list piece -> Prop :=
  | tk_nil : tpl_ok []
  | tk_lit l ps : data_closed l -> tpl_ok ps -> tpl_ok (Lit l :: ps)
  | tk_child ps : tpl_ok ps -> tpl_ok (RenderChild :: ps)
  | tk_attr a ps : tpl_ok ps -> tpl_ok (RenderAttr a :: ps)
  | tk_esc pre a post ps : opens_dq pre -> closes_dq post -> tpl_ok ps -> tpl_ok (Lit pre :: EscString a :: Lit post :: ps).

  Inductive tree_ok : node -> Prop :=
  | to_text s : good s -> tree_ok (NText false s)
  | to_mtext s : data_closed (td true s) -> tree_ok (NText true s)
  | to_uni nm u a c : good u -> tree_ok (NElem nm (Some (false, u)) a c)
  | to_muni nm u a c : data_closed (td true u) -> tree_ok (NElem nm (Some (true, u)) a c)
  | to_elem nm attrs ch : Forall tree_ok ch -> Forall (Forall tree_ok) attrs -> tree_ok (NElem nm None attrs ch).

  (* the tokens the parser is expected to see: the templates' own, the characters of the text leaves, and one tag token per
     attribute-embedded text whose raw form is the template's with the escaped text in between *)
  Fixpoint ptoks (body : list token) (astr : list (list token)) (atxt : list str) (ps : list piece) : list token :=
    match ps with
    | [] => []
    | Lit l :: ps1 =>
        match ps1 with
        | EscString a :: Lit post :: ps' => Markup (l ++ te (nth a atxt []) ++ post) :: ptoks body astr atxt ps'
        | _ => tokenize ents l ++ ptoks body astr atxt ps1
        end
    | RenderChild :: ps' => body ++ ptoks body astr atxt ps'
    | RenderAttr a :: ps' => nth a astr [] ++ ptoks body astr atxt ps'
    | RawString a :: ps' => tokenize ents (tr (nth a atxt [])) ++ ptoks body astr atxt ps'
    | EscString a :: ps' => tokenize ents (te (nth a atxt [])) ++ ptoks body astr atxt ps'
    end.

  Fixpoint etoks (n : node) : list token :=
    match n with
    | NText false s => map Chr s
    | NText true s => tokenize ents (td true s)
    | NElem _ (Some (false, u)) _ _ => map Chr u
    | NElem _ (Some (true, u)) _ _ => tokenize ents (td true u)
    | NElem nm None attrs ch =>
        ptoks (flat_map etoks ch) (map (flat_map etoks) attrs) (map (flat_map text_content) attrs) (tpl nm)
    end.

  Definition etoks_str (n : node) : list token :=
    match n with
    | NElem _ None _ ch => flat_map etoks ch
    | _ => etoks n
    end.

  Context (Hok : ents_ok ents) (Htd : td_inert) (Hte : te_quote_free) (Htpl : forall nm, tpl_ok (tpl nm)).

  Lemma tpl_ok_head (ps : list piece) : tpl_ok ps -> match ps with EscString _ :: _ => False | RawString _ :: _ => False | _ => True end.
  Proof. intros H. destruct H; exact Logic.I. Qed.

  Lemma pieces_tokens (body : str) (astr atxt : list str) (B : list token) (A : list (list token)) :
    (forall rest, tok ents (Data 0) (body ++ rest) = B ++ tok ents (Data 0) rest) ->
    (forall a rest, tok ents (Data 0) (nth a astr [] ++ rest) = nth a A [] ++ tok ents (Data 0) rest) ->
    forall ps, tpl_ok ps -> forall rest,
      tok ents (Data 0)
          (flat_map (fun p => match p with
                              | Lit l => l
                              | RenderChild => body
                              | RenderAttr a => nth a astr []
                              | RawString a => tr (nth a atxt [])
                              | EscString a => te (nth a atxt [])
                              end) ps ++ rest)
      = ptoks B A atxt ps ++ tok ents (Data 0) rest.
  Proof.
    intros HB HA ps Hps. induction Hps as [| l ps Hl Hps IH | ps Hps IH | a ps Hps IH | pre a post ps Hpre Hpost Hps IH]; intros rest.
    - reflexivity.
    - cbn [flat_map]. rewrite <- app_assoc, Hl, IH.
      assert (E : ptoks B A atxt (Lit l :: ps) = tokenize ents l ++ ptoks B A atxt ps).
      { pose proof (tpl_ok_head _ Hps) as Hh. destruct ps as [|[l'| |a'|a'|a'] ps']; try reflexivity; contradiction. }
      rewrite E, <- app_assoc. reflexivity.
    - cbn [flat_map ptoks]. rewrite <- !app_assoc, HB, IH. reflexivity.
    - cbn [flat_map ptoks]. rewrite <- !app_assoc, HA, IH. reflexivity.
    - cbn [flat_map ptoks]. rewrite <- !app_assoc.
      rewrite Hpre, (tok_in_dq ents _ (Hte _)), Hpost, IH.
      rewrite rev_app_distr, !rev_involutive, <- app_assoc. reflexivity.
  Qed.

  Lemma render_tokens (n : node) : tree_ok n ->
    forall rest, tok ents (Data 0) (render td te tr tpl n ++ rest) = etoks n ++ tok ents (Data 0) rest.
  Proof.
    induction n as [mk s | nm uni attrs ch IHch IHat] using node_ind'; intros Hn rest.
    - inversion Hn; subst; cbn [render etoks]; [apply Htd; assumption | match goal with H : data_closed _ |- _ => apply H end].
    - destruct uni as [[mk u]|].
      + inversion Hn; subst; cbn [render etoks]; [apply Htd; assumption | match goal with H : data_closed _ |- _ => apply H end].
      + inversion Hn as [| | | | nm' attrs' ch' Hch Hat]; subst.
        assert (Hlist : forall l, Forall (fun n => tree_ok n -> forall rest, tok ents (Data 0) (render td te tr tpl n ++ rest) = etoks n ++ tok ents (Data 0) rest) l ->
                                  Forall tree_ok l ->
                                  forall rest, tok ents (Data 0) (flat_map (render td te tr tpl) l ++ rest) = flat_map etoks l ++ tok ents (Data 0) rest).
        { induction l as [|x l IHl]; intros HP HT rest'; [reflexivity|].
          inversion HP; inversion HT; subst. cbn [flat_map]. rewrite <- !app_assoc.
          match goal with H : tree_ok x -> _ |- _ => rewrite (H ltac:(assumption)) end.
          rewrite IHl by assumption. reflexivity. }
        cbn [render etoks].
        apply pieces_tokens; [| | apply Htpl].
        * intros rest'. apply Hlist; assumption.
        * intros a rest'.
          change (@nil N) with (flat_map (render td te tr tpl) []) at 1.
          change (@nil token) with (flat_map etoks []) at 1.
          rewrite !map_nth. apply Hlist.
          -- apply (nth_Forall (Forall _) attrs a IHat). constructor.
          -- apply (nth_Forall (Forall tree_ok) attrs a Hat). constructor.
  Qed.

  (* M3 *)
  Theorem render_text (root : node) : tree_ok root ->
    tokenize ents (node_str td te tr tpl root) = etoks_str root.
  Proof.
    intros Hr. unfold tokenize. rewrite <- (app_nil_r (node_str td te tr tpl root)).
    destruct root as [mk s | nm [[mk u]|] attrs ch].
    - change (node_str td te tr tpl (NText mk s)) with (render td te tr tpl (NText mk s)).
      rewrite (render_tokens _ Hr). apply app_nil_r.
    - change (node_str td te tr tpl (NElem nm (Some (mk, u)) attrs ch)) with (render td te tr tpl (NElem nm (Some (mk, u)) attrs ch)).
      rewrite (render_tokens _ Hr). apply app_nil_r.
    - inversion Hr as [| | | | nm' attrs' ch' Hch Hat]; subst. cbn [node_str etoks_str].
      clear Hr Hat. induction ch as [|x ch IH]; [reflexivity|].
      inversion Hch; subst. cbn [flat_map]. rewrite <- app_assoc, (render_tokens x ltac:(assumption)).
      rewrite IH by assumption. reflexivity.
  Qed.
End RenderProofs.

(* ------------------------------------------------------------------------------------------------ *)
(* a per-character rewriting of the file (the high-character pass) commutes with rendering *)

Definition map_lit (g : N -> str) (p : piece) : piece :=
  match p with Lit l => Lit (flat_map g l) | _ => p end.

Section Commute.
  Context (g : N -> str) (td : bool -> str -> str) (te tr : str -> str) (tpl : N -> list piece).

  Let td' := fun mk s => flat_map g (td mk s).
  Let te' := fun s => flat_map g (te s).
  Let tr' := fun s => flat_map g (tr s).
  Let tpl' := fun nm => map (map_lit g) (tpl nm).

  Lemma flat_map_flat_map_list {A} (f f' : A -> str) (l : list A) :
    Forall (fun x => flat_map g (f x) = f' x) l -> flat_map g (flat_map f l) = flat_map f' l.
  Proof.
    induction 1 as [|x l Hx _ IH]; [reflexivity|]. cbn [flat_map]. rewrite flat_map_app', Hx, IH. reflexivity.
  Qed.

  Lemma render_commute (n : node) : flat_map g (render td te tr tpl n) = render td' te' tr' tpl' n.
  Proof.
    induction n as [mk s | nm uni attrs ch IHch IHat] using node_ind'; [reflexivity|].
    destruct uni as [[mk u]|]; [reflexivity|].
    cbn [render]. unfold tpl'.
    assert (Hb : flat_map g (flat_map (render td te tr tpl) ch) = flat_map (render td' te' tr' tpl') ch)
      by (apply flat_map_flat_map_list; exact IHch).
    assert (Ha : forall a, flat_map g (nth a (map (flat_map (render td te tr tpl)) attrs) []) =
                           nth a (map (flat_map (render td' te' tr' tpl')) attrs) []).
    { intros a.
      change (@nil N) with (flat_map (render td te tr tpl) []) at 1.
      change (@nil N) with (flat_map (render td' te' tr' tpl') []) at 1.
      rewrite !map_nth. apply flat_map_flat_map_list.
      apply (nth_Forall (Forall _) attrs a IHat). constructor. }
    induction (tpl nm) as [|p ps IH]; [reflexivity|].
    cbn [flat_map map]. rewrite flat_map_app', IH. f_equal.
    destruct p as [l| |a|a|a]; cbn [map_lit]; [reflexivity | exact Hb | apply Ha | reflexivity | reflexivity].
  Qed.

  Lemma node_str_commute (n : node) : flat_map g (node_str td te tr tpl n) = node_str td' te' tr' tpl' n.
  Proof.
    destruct n as [mk s | nm [[mk u]|] attrs ch]; [reflexivity | reflexivity |].
    cbn [node_str]. apply flat_map_flat_map_list. apply Forall_forall. intros x _. apply render_commute.
  Qed.
End Commute.

(* ------------------------------------------------------------------------------------------------ *)
(* M3 for the shipped text functions, before and after processFileContent *)

Lemma post_high_no_quote (v : str) : ~ In 34 v -> ~ In 34 (post_high true v).
Proof.
  intros Hv H. simpl in H. apply in_flat_map in H. destruct H as [c [Hc H]].
  unfold high_char in H. destruct (127 <? c) eqn:E.
  - destruct (fmt_3d_spec c) as [_ [Hd _]]. simpl in H. destruct H as [H | [H | H]]; try discriminate.
    apply in_app_or in H. destruct H as [H | [H | []]]; [|discriminate].
    rewrite forallb_forall in Hd. specialize (Hd _ H). discriminate.
  - destruct H as [H | []]. subst c. contradiction.
Qed.

Section Shipped.
  Context (ents : ent_table) (Hok : ents_ok ents) (tpl : N -> list piece).

  Definition id_str (s : str) : str := s.
  Definition any_text (s : str) : Prop := True.

  (* escape-high-chars off *)
  Theorem render_text_plain (root : node) :
    (forall nm, tpl_ok ents (tpl nm)) ->
    tree_ok ents text_default any_text root ->
    tokenize ents (node_str text_default escape_e id_str tpl root) = etoks_str ents text_default escape_e id_str tpl root.
  Proof.
    intros Htpl Hroot.
    apply (render_text ents text_default escape_e id_str tpl any_text); try assumption.
    - intros s rest _. apply escape_inert_ctx. assumption.
    - intros s. apply escape_e_no_quote.
  Qed.

  (* escape-high-chars on: the file is  post_high true (...)  and the expected tokens are those of the templates after the same pass *)
  Definition td_hi (mk : bool) (s : str) : str := flat_map high_char (text_default mk s).
  Definition te_hi (s : str) : str := flat_map high_char (escape_e s).
  Definition tr_hi (s : str) : str := flat_map high_char (id_str s).
  Definition tpl_hi (nm : N) : list piece := map (map_lit high_char) (tpl nm).

  Theorem render_text_high (root : node) :
    (forall nm, tpl_ok ents (tpl_hi nm)) ->
    tree_ok ents td_hi text_ok root ->
    (forall x, In x (post_high true (node_str text_default escape_e id_str tpl root)) -> x <= 127) /\
    tokenize ents (post_high true (node_str text_default escape_e id_str tpl root)) = etoks_str ents td_hi te_hi tr_hi tpl_hi root.
  Proof.
    intros Htpl Hroot. split; [apply post_high_ascii|].
    change (post_high true (node_str text_default escape_e id_str tpl root))
      with (flat_map high_char (node_str text_default escape_e id_str tpl root)).
    rewrite node_str_commute.
    apply (render_text ents td_hi te_hi tr_hi tpl_hi text_ok); try assumption.
    - intros s rest Hs. apply (highchars_ctx ents Hok s rest Hs).
    - intros s. apply (post_high_no_quote (escape_e s)). apply escape_e_no_quote.
  Qed.

  (* the whole of processFileContent on a rendered file *)
  Theorem render_text_post (imgs : imgtable) (root : node) :
    let file := node_str text_default escape_e id_str tpl root in
    (forall f, In f (candidates 0 file) -> assoc_str f imgs = None) ->
    post true imgs false file = Some file /\ post true imgs true file = Some (post_high true file).
  Proof.
    intros file Hc. unfold post. rewrite (placeholder_fixed_id imgs file Hc). split; reflexivity.
  Qed.
End Shipped.

(* a template that writes the DOM text of a title into an attribute without escaping it (the layout templates before fix-2):
   a title can add an element the templates never wrote *)
Definition w_tpl (nm : N) : list piece :=
  if nm =? 1 then [Lit [60; 97; 32; 116; 61; 34]; RawString 0; Lit [34; 62]] else [RenderChild].
Definition w_title : str := [34; 62; 60; 115; 62].   (* double quote, >, <s> *)
Definition w_doc : node := NElem 0 None [] [NElem 1 None [[NText false w_title]] []].

Theorem render_raw_refuted :
  In (Markup [60; 115; 62]) (tokenize core_ents (node_str text_default escape_e id_str w_tpl w_doc)).
Proof. vm_compute. right. left. reflexivity. Qed.

(* ... and with the "e" filter (fix-2) the same document yields the single tag the template wrote *)
Definition w_tpl_fixed (nm : N) : list piece :=
  if nm =? 1 then [Lit [60; 97; 32; 116; 61; 34]; EscString 0; Lit [34; 62]] else [RenderChild].
Example render_esc_example :
  tokenize core_ents (node_str text_default escape_e id_str w_tpl_fixed w_doc) =
  [Markup ([60; 97; 32; 116; 61; 34] ++ escape_e w_title ++ [34; 62])].
Proof. vm_compute. reflexivity. Qed.

(* ------------------------------------------------------------------------------------------------ *)
(* the table the extracted Model computes with meets the hypotheses; sample templates meet theirs *)

Lemma core_ents_ok : ents_ok core_ents.
Proof.
  assert (K : forall n v, In (n, v) core_ents -> forall a b, In (a, b) core_ents -> a = n -> b = v -> True) by auto.
  constructor.
  - vm_compute. reflexivity.
  - split; [exists [38]; simpl; auto|].
    intros a b H E. simpl in H.
    repeat (destruct H as [H | H]; [injection H as <- <-; first [reflexivity | discriminate E]|]). destruct H.
  - split; [exists [60]; simpl; auto|].
    intros a b H E. simpl in H.
    repeat (destruct H as [H | H]; [injection H as <- <-; first [reflexivity | discriminate E]|]). destruct H.
  - split; [exists [62]; simpl; auto|].
    intros a b H E. simpl in H.
    repeat (destruct H as [H | H]; [injection H as <- <-; first [reflexivity | discriminate E]|]). destruct H.
Qed.

Lemma core_ents_quot : has core_ents s_quot_semi /\ knows core_ents s_quot_semi [34].
Proof.
  split; [exists [34]; simpl; auto|].
  intros a b H E. simpl in H.
  repeat (destruct H as [H | H]; [injection H as <- <-; first [reflexivity | discriminate E]|]). destruct H.
Qed.

Definition l_p : str := [60; 112; 62].               (* <p> *)
Definition l_p_end : str := [60; 47; 112; 62].       (* </p> *)
Definition l_a_open : str := [60; 97; 32; 116; 61; 34].  (* <a t= and the opening quote *)
Definition l_a_close : str := [34; 62].              (* closing quote and > *)
Definition l_a_end : str := [60; 47; 97; 62].        (* </a> *)

Lemma l_p_closed ents : data_closed ents l_p.
Proof. intros rest. reflexivity. Qed.
Lemma l_p_end_closed ents : data_closed ents l_p_end.
Proof. intros rest. reflexivity. Qed.
Lemma l_a_end_closed ents : data_closed ents l_a_end.
Proof. intros rest. reflexivity. Qed.
Lemma l_a_open_opens ents : opens_dq ents l_a_open.
Proof. intros x. reflexivity. Qed.
Lemma l_a_close_closes ents : closes_dq ents l_a_close.
Proof. intros acc rest. cbn [l_a_close app tok]. cbn [N.eqb Pos.eqb rev]. rewrite <- app_assoc. reflexivity. Qed.

Definition ex_tpl (nm : N) : list piece :=
  if nm =? 1 then [Lit l_p; RenderChild; Lit l_p_end]
  else if nm =? 2 then [Lit l_a_open; EscString 0; Lit l_a_close; RenderAttr 0; Lit l_a_end]
  else [RenderChild].

Lemma ex_tpl_ok ents : forall nm, tpl_ok ents (ex_tpl nm).
Proof.
  intros nm. unfold ex_tpl. destruct (nm =? 1); [|destruct (nm =? 2)].
  - apply tk_lit; [apply l_p_closed|]. apply tk_child. apply tk_lit; [apply l_p_end_closed | apply tk_nil].
  - apply tk_esc; [apply l_a_open_opens | apply l_a_close_closes|]. apply tk_attr. apply tk_lit; [apply l_a_end_closed | apply tk_nil].
  - apply tk_child. apply tk_nil.
Qed.

Definition ex_text : str := [97; 60; 38; 34; 233; 62].     (* a < & quote e-acute > *)
Definition ex_doc : node :=
  NElem 0 None []
    [NElem 1 None [] [NText false ex_text; NElem 3 (Some (false, [38])) [] []];
     NElem 2 None [[NText false ex_text]] []].

Lemma ex_text_ok : text_ok ex_text.
Proof.
  intros c H. simpl in H.
  repeat (destruct H as [<- | H]; [first [left; vm_compute; discriminate | right; vm_compute; reflexivity]|]). destruct H.
Qed.

Lemma ex_doc_ok ents td : tree_ok ents td text_ok ex_doc.
Proof.
  assert (T : text_ok ex_text) by apply ex_text_ok.
  assert (A : text_ok [38]) by (intros c [<- | []]; left; vm_compute; discriminate).
  apply to_elem; [|constructor].
  constructor; [|constructor; [|constructor]].
  - apply to_elem; [|constructor]. constructor; [apply to_text; exact T|]. constructor; [apply to_uni; exact A | constructor].
  - apply to_elem; [constructor|]. constructor; [|constructor]. constructor; [apply to_text; exact T | constructor].
Qed.

(* statements in the form used by Properties/C12.v *)
Lemma escape_inert_full :
  forall ents, ents_ok ents -> forall s : str,
    ~ In 60 (escape s) /\ ~ In 62 (escape s) /\
    (forall pre post, escape s = pre ++ 38 :: post ->
       prefixb s_amp_semi post || prefixb s_lt_semi post || prefixb s_gt_semi post = true) /\
    html_text ents (escape s) = s /\ markup_free ents (escape s).
Proof.
  intros ents Hok s. destruct (escape_inert ents Hok s) as [H1 [H2 [H3 [H4 H5]]]].
  repeat split; try assumption. exact (amps_ok_spec _ H3).
Qed.

Lemma attr_stays_in_tag :
  forall ents (s acc rest : str),
    tok ents (Tag QD acc) (escape_e s ++ rest) = tok ents (Tag QD (rev (escape_e s) ++ acc)) rest.
Proof. intros ents s acc rest. exact (tok_in_dq ents (escape_e s) (escape_e_no_quote s) acc rest). Qed.

Lemma nonvacuous_example :
  (forall nm, tpl_ok core_ents (ex_tpl nm)) /\ tree_ok core_ents text_default text_ok ex_doc /\ text_ok ex_text /\
  chars_of (tokenize core_ents (node_str text_default escape_e id_str ex_tpl ex_doc)) = ex_text ++ [38] ++ ex_text /\
  chars_of (tokenize core_ents (post_high true (node_str text_default escape_e id_str ex_tpl ex_doc))) = ex_text ++ [38] ++ ex_text /\
  length (filter (fun t => negb (is_chr t)) (tokenize core_ents (node_str text_default escape_e id_str ex_tpl ex_doc))) = 4%nat /\
  html_text core_ents (escape ex_text) = ex_text /\
  (exists f, In f (candidates 0 (escape w_lt_width))).
Proof.
  split; [apply ex_tpl_ok|]. split; [apply ex_doc_ok|]. split; [apply ex_text_ok|].
  repeat split; try (vm_compute; reflexivity).
  eexists. vm_compute. left. reflexivity.
Qed.

(* ------------------------------------------------------------------------------------------------ *)
(* the tag clean-ups of HTML5 / XHTML.processFileContent start at "<" only: text without "<" (all escaped text) is left alone *)

Lemma sub_scan_no_match (m : str -> option (str * nat)) (x : str) :
  (forall c r, c <> 60 -> m (c :: r) = None) -> ~ In 60 x -> sub_scan m 0 x = x.
Proof.
  intros Hm. induction x as [|c r IH]; intros Hx; [reflexivity|].
  cbn [sub_scan]. rewrite Hm by (intros ->; apply Hx; left; reflexivity).
  rewrite IH by (intros H; apply Hx; right; assumption). reflexivity.
Qed.

Lemma prefix_ci_lt_head (p : str) (c : N) (r : str) : c <> 60 -> prefix_ci (60 :: p) (c :: r) = false.
Proof.
  intros Hc. cbn [prefix_ci]. destruct (60 =? lower c) eqn:E; [|reflexivity].
  apply N.eqb_eq in E. unfold lower in E.
  destruct ((65 <=? c) && (c <=? 90)) eqn:E2.
  - apply andb_true_iff in E2. destruct E2 as [A B]. apply N.leb_le in A, B. lia.
  - congruence.
Qed.

Lemma r1_no_lt (x : str) : ~ In 60 x -> r1 x = x.
Proof.
  apply sub_scan_no_match. intros c r Hc. unfold r1_match. rewrite (prefix_ci_lt_head [112; 62] c r Hc). reflexivity.
Qed.

Lemma r2_no_lt (x : str) : ~ In 60 x -> r2 x = x.
Proof.
  apply sub_scan_no_match. intros c r Hc. unfold r2_match.
  destruct r as [|a [|b t]]; try reflexivity.
  apply N.eqb_neq in Hc. rewrite Hc. reflexivity.
Qed.

Lemma r0_no_lt (x : str) : ~ In 60 x -> r0 x = x.
Proof.
  apply sub_scan_no_match. intros c r Hc. unfold r0_match.
  destruct c as [|p]; [reflexivity|].
  do 6 (destruct p as [p|p|]; try reflexivity). congruence.
Qed.

Theorem post_tags_text (x : str) : ~ In 60 x -> post_html5 x = x /\ post_xhtml x = x.
Proof.
  intros H. unfold post_html5, post_xhtml. rewrite (r0_no_lt x H), (r1_no_lt x H), (r2_no_lt x H). split; reflexivity.
Qed.

Corollary post_tags_escape (hi : bool) (s : str) :
  post_html5 (post_high hi (escape s)) = post_high hi (escape s) /\ post_xhtml (post_high hi (escape s)) = post_high hi (escape s).
Proof.
  apply post_tags_text. destruct hi.
  - intros H. simpl in H. apply in_flat_map in H. destruct H as [c [Hc H]].
    unfold high_char in H. destruct (127 <? c) eqn:E.
    + destruct (fmt_3d_spec c) as [_ [Hd _]]. simpl in H. destruct H as [H | [H | H]]; try discriminate.
      apply in_app_or in H. destruct H as [H | [H | []]]; [|discriminate].
      rewrite forallb_forall in Hd. specialize (Hd _ H). discriminate.
    + destruct H as [H | []]. subst c. apply (proj1 (escape_no_angle s)). assumption.
  - apply (proj1 (escape_no_angle s)).
Qed.
