(* C18: the prefix merge IndexUtils.digest builds, from the sorted entries, a tree with one node per distinct
   key path, each carrying the page references of exactly the entries that name it, in document order (M2),
   with the siblings of every level in collation order of their sort keys (M3). *)
From Coq Require Import List ZArith Bool Arith Lia Permutation Sorted.
Import ListNotations.
From Verif Require Import Val Index IndexOrder IndexSort.

(* ---------- generic list facts ---------- *)
Lemma SS_app {A} (R : A -> A -> Prop) : forall a b,
  StronglySorted R a -> StronglySorted R b -> (forall x y, In x a -> In y b -> R x y) -> StronglySorted R (a ++ b).
Proof.
  induction a as [|x a IH]; simpl; intros b Sa Sb Hab; auto.
  inversion Sa as [|? ? Sa' Fa]; subst. constructor.
  - apply IH; auto.
  - apply Forall_app. split; auto. rewrite Forall_forall. intros y Hy. apply Hab; auto.
Qed.

Lemma SS_NoDup {A} (R : A -> A -> Prop) (irr : forall x, ~ R x x) : forall l, StronglySorted R l -> NoDup l.
Proof.
  induction l as [|x l IH]; intro S; constructor; inversion S as [|? ? S' F]; subst; auto.
  intro I. rewrite Forall_forall in F. apply (irr x). apply F. exact I.
Qed.

Lemma SS_app_inv {A} (R : A -> A -> Prop) : forall a b,
  StronglySorted R (a ++ b) -> StronglySorted R a /\ StronglySorted R b /\ (forall x y, In x a -> In y b -> R x y).
Proof.
  induction a as [|x a IH]; simpl; intros b S.
  - repeat split; auto. constructor. intros ? ? [].
  - inversion S as [|? ? S' F]; subst. destruct (IH _ S') as (Sa & Sb & Hab).
    apply Forall_app in F. destruct F as [Fa Fb]. repeat split; auto.
    + constructor; auto.
    + intros u v [E | I] Iv; [subst; rewrite Forall_forall in Fb; apply Fb; auto | apply Hab; auto].
Qed.

(* ---------- the listing of a tree: every node with its full key path and its pages, in preorder ---------- *)
Definition path := list label.
Definition listing := list (path * list page).

Fixpoint nodes_at (pre : path) (n : node) : listing :=
  match n with
  | Node k s pgs kids => (pre ++ [(s, k)], pgs) :: flat_map (nodes_at (pre ++ [(s, k)])) kids
  end.
Definition nodes_f (pre : path) (kids : list node) : listing := flat_map (nodes_at pre) kids.

Definition path_eqb : path -> path -> bool := list_eqb label_eqb.
Lemma path_eqb_eq a b : path_eqb a b = true <-> a = b.
Proof. apply list_eqb_spec. apply label_eqb_eq. Qed.
Lemma path_eqb_refl a : path_eqb a a = true.
Proof. apply path_eqb_eq. reflexivity. Qed.

(* all page references listed under the path q *)
Definition pages_of (N : listing) (q : path) : list page :=
  concat (map snd (filter (fun x => path_eqb (fst x) q) N)).
Definition all_pages (N : listing) : list page := concat (map snd N).

Lemma pages_of_app N1 N2 q : pages_of (N1 ++ N2) q = pages_of N1 q ++ pages_of N2 q.
Proof. unfold pages_of. rewrite filter_app, map_app, concat_app. reflexivity. Qed.
Lemma all_pages_app N1 N2 : all_pages (N1 ++ N2) = all_pages N1 ++ all_pages N2.
Proof. unfold all_pages. rewrite map_app, concat_app. reflexivity. Qed.

Fixpoint node_ind' (P : node -> Prop)
  (H : forall k s pgs kids, Forall P kids -> P (Node k s pgs kids)) (n : node) : P n :=
  match n with
  | Node k s pgs kids =>
      H k s pgs kids ((fix go (l : list node) : Forall P l :=
                         match l with [] => Forall_nil P | x :: l' => Forall_cons x (node_ind' P H x) (go l') end) kids)
  end.

(* every node listed below the prefix pre has a longer path that extends pre *)
Lemma nodes_at_extends : forall n pre x, In x (nodes_at pre n) -> exists r, fst x = pre ++ r /\ r <> [].
Proof.
  induction n as [k s pgs kids IH] using node_ind'. intros pre x I. simpl in I. destruct I as [E | I].
  - subst x. simpl. exists [(s, k)]. split; auto. discriminate.
  - apply in_flat_map in I. destruct I as (c & Ic & Ix).
    rewrite Forall_forall in IH. destruct (IH c Ic _ _ Ix) as (r & E & N).
    exists ((s, k) :: r). split; [rewrite E, <- app_assoc; reflexivity | discriminate].
Qed.
Lemma nodes_f_extends kids pre x : In x (nodes_f pre kids) -> exists r, fst x = pre ++ r /\ r <> [].
Proof.
  unfold nodes_f. intro I. apply in_flat_map in I. destruct I as (c & _ & Ix). eapply nodes_at_extends; eauto.
Qed.
Lemma filter_none {A} (f : A -> bool) : forall l, (forall x, In x l -> f x = false) -> filter f l = [].
Proof.
  induction l as [|x l IH]; simpl; intro Hf; auto.
  rewrite (Hf x (or_introl eq_refl)). apply IH. intros y Hy. apply Hf. right. exact Hy.
Qed.

Lemma nodes_f_pages_of_pre kids pre : pages_of (nodes_f pre kids) pre = [].
Proof.
  unfold pages_of. rewrite filter_none; auto.
  intros x Ix. destruct (nodes_f_extends _ _ _ Ix) as (r & E & N).
  destruct (path_eqb (fst x) pre) eqn:P; auto. apply path_eqb_eq in P. rewrite P in E.
  rewrite <- (app_nil_r pre) in E at 1. apply app_inv_head in E. congruence.
Qed.

(* ---------- the zipper and its listing ---------- *)
Definition lab (f : frame) : label := (f_sort f, f_key f).
Definition spath (sp : list frame) : path := rev (map lab sp).

Fixpoint zn (sp : list frame) (R : list node) : listing :=
  match sp with
  | [] => nodes_f [] R
  | f :: fs => zn fs R ++ (spath (f :: fs), f_pages f) :: nodes_f (spath (f :: fs)) (f_kids f)
  end.

Lemma nodes_f_app pre a b : nodes_f pre (a ++ b) = nodes_f pre a ++ nodes_f pre b.
Proof. unfold nodes_f. apply flat_map_app. Qed.

Lemma close_nodes : forall sp pend R, nodes_f [] (close sp pend R) = zn sp R ++ nodes_f (spath sp) pend.
Proof.
  induction sp as [|f fs IH]; intros pend R; simpl.
  - apply nodes_f_app.
  - rewrite IH. unfold nodes_f at 2. simpl. rewrite app_nil_r.
    change (flat_map (nodes_at (spath fs ++ [(f_sort f, f_key f)])) (f_kids f ++ pend))
      with (nodes_f (spath fs ++ [(f_sort f, f_key f)]) (f_kids f ++ pend)).
    rewrite nodes_f_app. unfold spath at 3 4 5. simpl. fold (spath fs). unfold lab.
    rewrite <- app_assoc. simpl. reflexivity.
Qed.

Lemma zn_close sp R : zn sp R = nodes_f [] (close sp [] R).
Proof. rewrite close_nodes. unfold nodes_f. simpl. rewrite app_nil_r. reflexivity. Qed.

Lemma close_pop_one z z' : pop_one z = Some z' -> close (fst z') [] (snd z') = close (fst z) [] (snd z).
Proof.
  destruct z as [[|f [|g2 fs]] R]; simpl; intro E; inversion E; subst; simpl.
  - rewrite !app_nil_r. reflexivity.
  - rewrite !app_nil_r. reflexivity.
Qed.

Lemma pop_one_spec f fs R : exists sp' R', pop_one (f :: fs, R) = Some (sp', R') /\ map lab sp' = map lab fs /\ zn sp' R' = zn (f :: fs) R.
Proof.
  destruct fs as [|g2 fs].
  - exists [], (R ++ [mk f]). split; [reflexivity|]. split; [reflexivity|].
    rewrite !zn_close. apply (f_equal (nodes_f [])). apply (close_pop_one ([f], R) ([], R ++ [mk f])). reflexivity.
  - eexists _, R. split; [reflexivity|]. split; [reflexivity|].
    rewrite !zn_close. apply (f_equal (nodes_f [])).
    apply (close_pop_one (f :: g2 :: fs, R) (_, R)). reflexivity.
Qed.

Lemma pop_n_spec : forall n sp R, (n <= length sp)%nat ->
  exists sp' R', pop_n n (sp, R) = Some (sp', R') /\ map lab sp' = skipn n (map lab sp) /\ zn sp' R' = zn sp R.
Proof.
  induction n as [|n IH]; intros sp R L.
  - exists sp, R. auto.
  - destruct sp as [|f fs]; [simpl in L; lia|]. simpl in L.
    destruct (pop_one_spec f fs R) as (sp1 & R1 & E1 & L1 & Z1).
    assert (Len : (n <= length sp1)%nat).
    { rewrite <- (map_length lab sp1), L1, map_length. lia. }
    destruct (IH sp1 R1 Len) as (sp2 & R2 & E2 & L2 & Z2).
    exists sp2, R2.
    change (pop_n (S n) (f :: fs, R)) with (match pop_one (f :: fs, R) with Some z' => pop_n n z' | None => None end).
    rewrite E1. split; [exact E2|]. split.
    + rewrite L2, L1. reflexivity.
    + rewrite Z2. exact Z1.
Qed.

(* pushing fresh frames appends nodes (without pages) at the end of the listing *)
Lemma push_levels_spec : forall ks ss sp, (length ks <= length ss)%nat ->
  exists sp1, push_levels ks ss sp = Some sp1 /\
    map lab sp1 = rev (combine ss ks) ++ map lab sp /\
    (forall R, zn sp1 R = zn sp R ++ map (fun j => (spath sp ++ firstn j (combine ss ks), [])) (seq 1 (length ks))) /\
    (ks <> [] -> exists f fs, sp1 = f :: fs /\ f_pages f = [] /\ f_kids f = []).
Proof.
  induction ks as [|k ks IH]; intros ss sp L.
  - exists sp. simpl. repeat split; auto.
    + destruct ss; reflexivity.
    + intro R. rewrite app_nil_r. reflexivity.
    + congruence.
  - destruct ss as [|s ss]; [simpl in L; lia|]. simpl in L.
    destruct (IH ss (mkF k s [] [] :: sp) ltac:(lia)) as (sp1 & E & Lb & Z & Fr).
    exists sp1. simpl push_levels. split; [exact E|]. split; [|split].
    + rewrite Lb. simpl. rewrite <- app_assoc. reflexivity.
    + intro R. rewrite Z. simpl zn. rewrite <- app_assoc. f_equal.
      cbn [app length seq map combine].
      assert (Hd : spath (mkF k s [] [] :: sp) = spath sp ++ [(s, k)]) by (unfold spath; reflexivity).
      rewrite Hd. rewrite <- (seq_shift (length ks) 1), map_map. cbn [firstn].
      apply (f_equal2 cons); [reflexivity|]. apply map_ext. intro j. rewrite <- app_assoc. reflexivity.
    + intros _. destruct ks as [|k2 ks].
      * simpl in E. inversion E. subst. eexists _, _. split; [reflexivity|]. auto.
      * apply Fr. discriminate.
Qed.

(* ---------- adding a page to the innermost open node ---------- *)
Lemma pages_of_cons p pgs B q : pages_of ((p, pgs) :: B) q = (if path_eqb p q then pgs else []) ++ pages_of B q.
Proof. unfold pages_of. simpl. destruct (path_eqb p q); reflexivity. Qed.

Lemma zn_add_page pg f fs R :
  let f' := mkF (f_key f) (f_sort f) (f_pages f ++ [pg]) (f_kids f) in
  map fst (zn (f' :: fs) R) = map fst (zn (f :: fs) R) /\
  (forall q, pages_of (zn (f' :: fs) R) q = pages_of (zn (f :: fs) R) q ++ (if path_eqb (spath (f :: fs)) q then [pg] else [])) /\
  Permutation (all_pages (zn (f' :: fs) R)) (pg :: all_pages (zn (f :: fs) R)).
Proof.
  intro f'. assert (Sp : spath (f' :: fs) = spath (f :: fs)) by reflexivity.
  simpl zn. rewrite Sp. subst f'. cbn [f_pages f_kids]. split; [|split].
  - rewrite !map_app. reflexivity.
  - intro q. rewrite !pages_of_app, !pages_of_cons.
    destruct (path_eqb (spath (f :: fs)) q) eqn:E.
    + apply path_eqb_eq in E. subst q. rewrite nodes_f_pages_of_pre, !app_nil_r, !app_assoc. reflexivity.
    + rewrite !app_nil_r. reflexivity.
  - rewrite !all_pages_app. unfold all_pages at 2 4. cbn [map concat snd].
    fold (all_pages (nodes_f (spath (f :: fs)) (f_kids f))).
    rewrite <- !app_assoc. cbn [app].
    eapply perm_trans; [|apply Permutation_sym, Permutation_middle].
    apply Permutation_app_head. apply Permutation_sym. apply Permutation_middle.
Qed.

Lemma pages_of_blank {B} (h : B -> path) q : forall l, pages_of (map (fun j => (h j, @nil page)) l) q = [].
Proof.
  unfold pages_of. induction l as [|x l IH]; simpl; auto.
  destruct (path_eqb (h x) q); simpl; exact IH.
Qed.
Lemma all_pages_blank {B} (h : B -> path) : forall l, all_pages (map (fun j => (h j, @nil page)) l) = [].
Proof. unfold all_pages. induction l as [|x l IH]; simpl; auto. Qed.

(* ---------- list arithmetic ---------- *)
Lemma firstn_plus {A} : forall c j (l : list A), firstn (c + j) l = firstn c l ++ firstn j (skipn c l).
Proof.
  induction c as [|c IH]; intros j l; simpl; auto.
  destruct l as [|x l]; simpl; [destruct j; reflexivity|]. f_equal. apply IH.
Qed.
Lemma combine_skipn {A B} : forall n (a : list A) (b : list B), combine (skipn n a) (skipn n b) = skipn n (combine a b).
Proof.
  induction n as [|n IH]; intros a b; simpl; auto.
  destruct a as [|x a]; simpl; auto. destruct b as [|y b]; simpl; [destruct (skipn n a); reflexivity | apply IH].
Qed.
Lemma map_seq_shift {B} (f : nat -> B) a : forall m b, map f (seq (a + b) m) = map (fun j => f (a + j)%nat) (seq b m).
Proof.
  induction m as [|m IH]; intro b; simpl; auto. f_equal. rewrite <- Nat.add_succ_r. apply IH.
Qed.
Lemma common_prefix_spec : forall a b,
  firstn (common_prefix a b) a = firstn (common_prefix a b) b /\
  (common_prefix a b <= length a)%nat /\ (common_prefix a b <= length b)%nat.
Proof.
  induction a as [|x a IH]; intros b; simpl.
  - repeat split; auto; lia.
  - destruct b as [|y b]; simpl; [repeat split; auto; lia|].
    destruct (label_eqb x y) eqn:E; simpl; [|repeat split; auto; lia].
    apply label_eqb_eq in E. subst y. destruct (IH b) as (F & L1 & L2). rewrite F. repeat split; auto; lia.
Qed.

Section Digest.
  Context {K : Type} (ck : str -> K) (keqb kltb : K -> K -> bool) (HK : sto keqb kltb).
  Context (tx : list tok -> str) (src : list tok -> str).
  Context (src_inj : forall a b, src a = src b -> a = b).

  Notation entry_lt := (entry_lt ck keqb kltb tx src).
  Notation keys_lt := (keys_lt keqb kltb).
  Notation g := (g ck tx src).

  Definition pg (e : entry) : page := (e_type e, e_node e).
  (* what index.invoke always produces: at least one key, and a sort key for every key *)
  Definition wf (e : entry) : Prop := (1 <= length (e_key e) <= length (e_sort e))%nat.

  Lemma labels_length e : (length (e_key e) <= length (e_sort e))%nat -> length (labels e) = length (e_key e).
  Proof.
    intro L. unfold labels. transitivity (Nat.min (length (e_sort e)) (length (e_key e))); [apply combine_length | lia].
  Qed.

  Lemma step_spec prev item sp R :
    map lab sp = rev (labels prev) -> length (labels prev) = length (e_key prev) -> wf item ->
    let c := common_prefix (labels prev) (labels item) in
    let ls := labels item in
    exists sp2 R2, digest_step prev item (sp, R) = Some (sp2, R2) /\ map lab sp2 = rev ls /\
      map fst (zn sp2 R2) = map fst (zn sp R) ++ map (fun j => firstn j ls) (seq (S c) (length ls - c)) /\
      (forall q, pages_of (zn sp2 R2) q = pages_of (zn sp R) q ++ (if path_eqb ls q then [pg item] else [])) /\
      Permutation (all_pages (zn sp2 R2)) (pg item :: all_pages (zn sp R)).
  Proof.
    intros Hsp Hlen Hwf c ls.
    destruct (common_prefix_spec (labels prev) (labels item)) as (Fc & Lc1 & Lc2). fold c in Fc, Lc1, Lc2. fold ls in Fc, Lc2.
    assert (Lls : length ls = length (e_key item)) by (apply labels_length; unfold wf in Hwf; lia).
    assert (Lsp : length sp = length (e_key prev)).
    { rewrite <- (map_length lab sp), Hsp, rev_length. exact Hlen. }
    unfold digest_step. fold c.
    destruct (pop_n_spec (length (e_key prev) - c) sp R ltac:(lia)) as (sp1 & R1 & E1 & L1 & Z1).
    rewrite E1.
    assert (Sp1 : spath sp1 = firstn c ls).
    { unfold spath. rewrite L1, Hsp, skipn_rev, rev_involutive, <- Fc. f_equal. lia. }
    assert (Lb1 : map lab sp1 = rev (firstn c ls)).
    { rewrite <- Sp1. unfold spath. rewrite rev_involutive. reflexivity. }
    destruct (push_levels_spec (skipn c (e_key item)) (skipn c (e_sort item)) sp1) as (sp2' & E2 & L2 & Z2 & _).
    { rewrite !skipn_length. unfold wf in Hwf. lia. }
    rewrite E2.
    rewrite combine_skipn in L2, Z2. fold (labels item) in L2, Z2. fold ls in L2, Z2.
    assert (L2' : map lab sp2' = rev ls).
    { rewrite L2, Lb1, <- rev_app_distr, firstn_skipn. reflexivity. }
    destruct sp2' as [|f fs].
    { exfalso. simpl in L2'. assert (length ls = 0%nat) by (rewrite <- (rev_length ls), <- L2'; reflexivity).
      unfold wf in Hwf. lia. }
    cbn [add_page].
    eexists _, R1. split; [reflexivity|].
    destruct (zn_add_page (e_type item, e_node item) f fs R1) as (A1 & A2 & A3).
    assert (Spf : spath (f :: fs) = ls).
    { unfold spath. rewrite L2'. apply rev_involutive. }
    split; [exact L2'|]. split; [|split].
    - rewrite A1, Z2, map_app, Z1, map_map. cbn [fst]. f_equal.
      rewrite skipn_length, <- Lls, Sp1.
      replace (S c) with (c + 1)%nat by lia. rewrite map_seq_shift.
      apply map_ext. intro j. symmetry. apply firstn_plus.
    - intro q. rewrite A2, Z2, pages_of_app, pages_of_blank, app_nil_r, Z1, Spf. reflexivity.
    - eapply perm_trans; [exact A3|]. apply perm_skip.
      rewrite Z2, all_pages_app, all_pages_blank, app_nil_r, Z1. apply Permutation_refl.
  Qed.
End Digest.

(* ---------- strict total orders: mixed transitivity ---------- *)
Section StoFacts.
  Context {A : Type} (eqb lt : A -> A -> bool) (H : sto eqb lt).
  Lemma sto_le_lt_trans a b c : lt b a = false -> lt b c = true -> lt a c = true.
  Proof.
    intros L1 L2. destruct (lt a c) eqn:E; auto. destruct (lt c a) eqn:E2.
    - rewrite (sto_trans _ _ H _ _ _ L2 E2) in L1. discriminate.
    - pose proof (sto_tot _ _ H _ _ E E2). subst c. congruence.
  Qed.
  Lemma sto_lt_le_trans a b c : lt a b = true -> lt c b = false -> lt a c = true.
  Proof.
    intros L1 L2. destruct (lt a c) eqn:E; auto. destruct (lt c a) eqn:E2.
    - rewrite (sto_trans _ _ H _ _ _ E2 L1) in L2. discriminate.
    - pose proof (sto_tot _ _ H _ _ E E2). subst c. congruence.
  Qed.
  Lemma sto_le_trans a b c : lt b a = false -> lt c b = false -> lt c a = false.
  Proof.
    intros L1 L2. destruct (lt c a) eqn:E; auto.
    rewrite (sto_lt_le_trans _ _ _ E L1) in L2. discriminate.
  Qed.
End StoFacts.

Definition is_prefix (q l : path) : Prop := exists r, l = q ++ r.

(* the boolean statement of M3: at every level the siblings are in collation order of their sort keys *)
Section LevelsSorted.
  Context {K : Type} (ck : str -> K) (kltb : K -> K -> bool).
  Definition sk_le (a b : node) : bool := negb (kltb (ck (node_sortkey b)) (ck (node_sortkey a))).
  Fixpoint sibs_sortedb (l : list node) : bool :=
    match l with
    | a :: r => match r with b :: _ => sk_le a b && sibs_sortedb r | [] => true end
    | [] => true
    end.
  Fixpoint levels_sortedb (n : node) : bool :=
    match n with Node _ _ _ kids => sibs_sortedb kids && forallb levels_sortedb kids end.
  Definition forest_sortedb (t : list node) : bool := sibs_sortedb t && forallb levels_sortedb t.
End LevelsSorted.

Section Digest2.
  Context {K : Type} (ck : str -> K) (keqb kltb : K -> K -> bool) (HK : sto keqb kltb).
  Context (tx : list tok -> str) (src : list tok -> str).
  Context (src_inj : forall a b, src a = src b -> a = b).

  Notation entry_lt := (entry_lt ck keqb kltb tx src).
  Notation keys_lt := (keys_lt keqb kltb).
  Notation g := (g ck tx src).
  Notation KS := (keys_sto keqb kltb HK).

  (* ---- invariant that holds for any order of the entries ---- *)
  Definition inv1 (prev : entry) (done : list entry) (z : zipper) : Prop :=
    map lab (fst z) = rev (labels prev) /\ length (labels prev) = length (e_key prev) /\
    Permutation (all_pages (zn (fst z) (snd z))) (map pg done) /\
    (forall q, pages_of (zn (fst z) (snd z)) q = map pg (filter (fun e => path_eqb (labels e) q) done)) /\
    (forall q, In q (map fst (zn (fst z) (snd z))) -> q <> [] /\ exists e, In e done /\ is_prefix q (labels e)).

  Lemma loop_inv1 : forall es prev done z, Forall wf es -> inv1 prev done z ->
    exists z' prev', digest_loop prev es z = Some z' /\ inv1 prev' (done ++ es) z'.
  Proof.
    induction es as [|item es IH]; intros prev done z W I.
    - exists z, prev. rewrite app_nil_r. auto.
    - inversion W as [|? ? Wi We]; subst. destruct z as [sp R]. destruct I as (I1 & I2 & I3 & I4 & I5). simpl in *.
      destruct (step_spec prev item sp R I1 I2 Wi) as (sp2 & R2 & E & S1 & S2 & S3 & S4).
      rewrite E.
      assert (Lls : length (labels item) = length (e_key item)) by (apply labels_length; unfold wf in Wi; lia).
      destruct (common_prefix_spec (labels prev) (labels item)) as (_ & _ & Lc).
      destruct (IH item (done ++ [item]) (sp2, R2) We) as (z' & prev' & E' & I').
      { unfold inv1. simpl. split; [exact S1|]. split; [exact Lls|]. split; [|split].
        - eapply perm_trans; [exact S4|]. rewrite map_app. simpl.
          eapply perm_trans; [apply perm_skip; exact I3 | apply Permutation_cons_append].
        - intro q. rewrite S3, I4, filter_app, map_app. simpl.
          destruct (path_eqb (labels item) q); reflexivity.
        - intros q Hq. rewrite S2 in Hq. apply in_app_or in Hq. destruct Hq as [Hq | Hq].
          + destruct (I5 q Hq) as (N & e & Ie & P). split; auto. exists e. split; auto. apply in_or_app. auto.
          + apply in_map_iff in Hq. destruct Hq as (j & Ej & Ij). apply in_seq in Ij. subst q. split.
            * intro Z. apply (f_equal (@length _)) in Z. rewrite firstn_length in Z. simpl in Z. unfold wf in Wi. lia.
            * exists item. split; [apply in_or_app; right; left; reflexivity|].
              exists (skipn j (labels item)). symmetry. apply firstn_skipn. }
      exists z', prev'. split; auto. rewrite <- app_assoc in I'. exact I'.
  Qed.

  Lemma inv1_init : inv1 prev0 [] ([], []).
  Proof.
    unfold inv1. simpl. repeat split; auto; contradiction.
  Qed.

  (* M2, part 1 (any comparator): the loop never fails; every entry is listed exactly once; under each path the
     pages of the entries naming that path, in the order of the sorted list; no node that no entry asks for *)
  Theorem digest_lists_every_entry (lt : entry -> entry -> bool) (es : list entry) :
    Forall wf es ->
    exists t, digest_with lt es = Some t /\
      Permutation (all_pages (nodes_f [] t)) (map pg es) /\
      (forall q, pages_of (nodes_f [] t) q = map pg (filter (fun e => path_eqb (labels e) q) (isort lt es))) /\
      (forall q, In q (map fst (nodes_f [] t)) -> q <> [] /\ exists e, In e es /\ is_prefix q (labels e)).
  Proof.
    intro W.
    assert (W' : Forall wf (isort lt es)) by (eapply Permutation_Forall; [apply isort_perm | exact W]).
    destruct (loop_inv1 (isort lt es) prev0 [] ([], []) W' inv1_init) as ([sp R] & prev' & E & I).
    unfold digest_with. rewrite E. exists (close sp [] R). split; auto.
    rewrite <- zn_close. destruct I as (_ & _ & I3 & I4 & I5). simpl in *. split; [|split].
    - eapply perm_trans; [exact I3|]. apply Permutation_map. apply Permutation_sym. apply isort_perm.
    - exact I4.
    - intros q Hq. destruct (I5 q Hq) as (N & e & Ie & P). split; auto. exists e. split; auto.
      eapply Permutation_in; [apply Permutation_sym; apply isort_perm | exact Ie].
  Qed.

  (* ---- the order of the listing, for entries sorted by the (fixed) comparator ---- *)
  Definition plt (p q : path) : Prop := keys_lt (map g p) (map g q) = true.
  Definition ple (p q : path) : Prop := keys_lt (map g q) (map g p) = false.

  Lemma plt_firstn ls a j : (a < j)%nat -> (j <= length ls)%nat -> plt (firstn a ls) (firstn j ls).
  Proof.
    intros L1 L2. unfold plt, Index.keys_lt. replace j with (a + (j - a))%nat by lia. rewrite firstn_plus, map_app.
    rewrite <- (app_nil_r (map g (firstn a ls))) at 1. rewrite (lex_app_l _ _ (lkey_sto keqb kltb HK)).
    destruct (firstn (j - a) (skipn a ls)) eqn:E; [|reflexivity].
    apply (f_equal (@length _)) in E. rewrite firstn_length, skipn_length in E. simpl in E. lia.
  Qed.
  Lemma ple_firstn ls j : ple (firstn j ls) ls.
  Proof.
    unfold ple, Index.keys_lt. rewrite <- (firstn_skipn j ls) at 1. rewrite map_app. apply (lex_prefix_le _ _ (lkey_sto keqb kltb HK)).
  Qed.

  Lemma g_neq x y : x <> y -> lkey_eqb keqb (g x) (g y) = false.
  Proof.
    intro N. apply (sto_neq _ _ (lkey_sto keqb kltb HK)). intro E. apply N. eapply g_inj; eauto.
  Qed.

  Lemma lcp_lt : forall p l, ple p l -> (common_prefix p l < length l)%nat -> plt p (firstn (S (common_prefix p l)) l).
  Proof.
    unfold ple, plt. induction p as [|x p IH]; intros l Le Lt.
    - destruct l as [|y l]; [simpl in Lt; lia|]. reflexivity.
    - destruct l as [|y l]; [simpl in Lt; lia|]. cbn [common_prefix] in Lt |- *.
      destruct (label_eqb x y) eqn:E.
      + apply label_eqb_eq in E. subst y.
        change (firstn (S (S (common_prefix p l))) (x :: l)) with (x :: firstn (S (common_prefix p l)) l).
        cbn [map] in Le |- *. unfold Index.keys_lt in Le |- *. cbn [lex_lt] in Le |- *.
        rewrite (sto_refl _ _ (lkey_sto keqb kltb HK)) in Le |- *. apply IH; [exact Le | simpl in Lt; lia].
      + assert (N : x <> y) by (intro Q; subst; rewrite (proj2 (label_eqb_eq y y) eq_refl) in E; discriminate).
        change (firstn 1 (y :: l)) with [y].
        cbn [map] in Le |- *. unfold Index.keys_lt in Le |- *. cbn [lex_lt] in Le |- *.
        rewrite (g_neq _ _ N).
        rewrite (g_neq y x) in Le by congruence.
        destruct (lkey_lt keqb kltb (g x) (g y)) eqn:L; auto.
        pose proof (sto_tot _ _ (lkey_sto keqb kltb HK) _ _ L Le) as Q. exfalso. apply N. eapply g_inj; eauto.
  Qed.

  Lemma new_paths_sorted ls : forall m a, (a + m <= S (length ls))%nat ->
    StronglySorted plt (map (fun j => firstn j ls) (seq a m)).
  Proof.
    induction m as [|m IH]; intros a L; simpl; constructor.
    - apply IH. lia.
    - rewrite Forall_forall. intros q Hq. apply in_map_iff in Hq. destruct Hq as (j & Ej & Ij). subst q.
      apply in_seq in Ij. apply plt_firstn; lia.
  Qed.

  Definition inv2 (prev : entry) (z : zipper) : Prop :=
    StronglySorted plt (map fst (zn (fst z) (snd z))) /\
    Forall (fun q => ple q (labels prev)) (map fst (zn (fst z) (snd z))).

  Fixpoint chain (prev : entry) (es : list entry) : Prop :=
    match es with [] => True | item :: es' => ple (labels prev) (labels item) /\ chain item es' end.

  Lemma loop_inv2 : forall es prev z z', Forall wf es -> chain prev es ->
    map lab (fst z) = rev (labels prev) -> length (labels prev) = length (e_key prev) ->
    inv2 prev z -> digest_loop prev es z = Some z' -> exists prev', inv2 prev' z'.
  Proof.
    induction es as [|item es IH]; intros prev z z' W C I1 I2 J E.
    - simpl in E. inversion E. subst. exists prev. exact J.
    - inversion W as [|? ? Wi We]; subst. destruct C as [C1 C2]. destruct z as [sp R]. simpl in *.
      destruct (step_spec prev item sp R I1 I2 Wi) as (sp2 & R2 & E2 & S1 & S2 & _ & _).
      rewrite E2 in E.
      assert (Lls : length (labels item) = length (e_key item)) by (apply labels_length; unfold wf in Wi; lia).
      destruct (common_prefix_spec (labels prev) (labels item)) as (_ & _ & Lc).
      apply (IH item (sp2, R2) z' We C2 S1 Lls); [|exact E].
      destruct J as [J1 J2]. unfold inv2. simpl. rewrite S2. split.
      + apply SS_app; auto.
        * apply new_paths_sorted. lia.
        * intros q q' Hq Hq'. apply in_map_iff in Hq'. destruct Hq' as (j & Ej & Ij). subst q'. apply in_seq in Ij.
          rewrite Forall_forall in J2. pose proof (J2 q Hq) as Lq.
          assert (P1 : plt (labels prev) (firstn (S (common_prefix (labels prev) (labels item))) (labels item))).
          { apply lcp_lt; [exact C1 | lia]. }
          assert (P2 : plt q (firstn (S (common_prefix (labels prev) (labels item))) (labels item))).
          { unfold plt, ple in *. eapply (sto_le_lt_trans _ _ KS); eauto. }
          destruct (Nat.eq_dec j (S (common_prefix (labels prev) (labels item)))) as [Q | Q]; [subst j; exact P2|].
          unfold plt in *. eapply (sto_trans _ _ KS); [exact P2|]. apply plt_firstn; lia.
      + apply Forall_app. split.
        * rewrite Forall_forall in *. intros q Hq. pose proof (J2 q Hq) as Lq. unfold ple in *.
          eapply (sto_le_trans _ _ KS); eauto.
        * rewrite Forall_forall. intros q Hq. apply in_map_iff in Hq. destruct Hq as (j & Ej & _). subst q. apply ple_firstn.
  Qed.

  Lemma ple_nil q : ple [] q.
  Proof. unfold ple. simpl. destruct (map g q); reflexivity. Qed.

  Lemma sorted_chain : forall es prev,
    StronglySorted (le entry_lt) es -> (forall e, In e es -> ple (labels prev) (labels e)) -> chain prev es.
  Proof.
    induction es as [|a es IH]; intros prev S Hp; simpl; auto.
    inversion S as [|? ? S' F]; subst. split; [apply Hp; left; reflexivity|].
    apply IH; auto. intros e Ie. rewrite Forall_forall in F. pose proof (F e Ie) as L. unfold le in L.
    apply (entry_lt_false ck keqb kltb HK tx src) in L. unfold ple. rewrite <- !(cmpkey_labels ck tx src).
    destruct L as [L | [Q _]].
    - apply (sto_asym _ _ KS). exact L.
    - rewrite Q. apply (sto_irr _ _ KS).
  Qed.

  (* M2 part 2 / M3, on the listing: strictly increasing, hence without duplicates *)
  Theorem digest_listing_sorted (es : list entry) t :
    Forall wf es -> digest ck keqb kltb tx src es = Some t -> StronglySorted plt (map fst (nodes_f [] t)).
  Proof.
    intros W D. unfold digest, digest_with in D.
    pose proof (entry_lt_swo ck keqb kltb HK tx src) as SW.
    assert (W' : Forall wf (isort entry_lt es)) by (eapply Permutation_Forall; [apply isort_perm | exact W]).
    destruct (digest_loop prev0 (isort entry_lt es) ([], [])) as [[sp R]|] eqn:E; [|discriminate].
    inversion D. subst t. rewrite <- zn_close.
    destruct (loop_inv2 (isort entry_lt es) prev0 ([], []) (sp, R) W') as (prev' & J1 & J2); auto.
    - apply sorted_chain; [apply isort_sorted; exact SW | intros; apply ple_nil].
    - split; simpl; constructor.
  Qed.

  Lemma plt_irr q : ~ plt q q.
  Proof. unfold plt. rewrite (sto_irr _ _ KS). discriminate. Qed.

  (* from the listing order to the sibling order *)
  Lemma sibling_order pre la lb : plt (pre ++ [la]) (pre ++ [lb]) -> kltb (ck (fst lb)) (ck (fst la)) = false.
  Proof.
    unfold plt, Index.keys_lt. rewrite !map_app, (lex_app_l _ _ (lkey_sto keqb kltb HK)). cbn [map lex_lt].
    destruct (lkey_eqb keqb (g la) (g lb)) eqn:E; [discriminate|]. clear E.
    destruct la as [sa ka], lb as [sb kb]. unfold IndexOrder.g, lkey_lt. cbn [fst snd].
    destruct (keqb (ck sa) (ck sb)) eqn:E1; cbn [negb].
    - apply (sto_eq _ _ HK) in E1. rewrite E1. intros _. apply (sto_irr _ _ HK).
    - intro L. apply (sto_asym _ _ HK). exact L.
  Qed.

  Lemma forest_sorted_aux : forall kids,
    Forall (fun n => forall pre, StronglySorted plt (map fst (nodes_at pre n)) -> levels_sortedb ck kltb n = true) kids ->
    forall pre, StronglySorted plt (map fst (nodes_f pre kids)) ->
    sibs_sortedb ck kltb kids = true /\ forallb (levels_sortedb ck kltb) kids = true.
  Proof.
    induction kids as [|a kids IH]; intros Hk pre S; [split; reflexivity|].
    inversion Hk as [|? ? Ha Hk']; subst.
    unfold nodes_f in S. simpl in S. rewrite map_app in S.
    apply SS_app_inv in S. destruct S as (Sa & Sk & Cross).
    destruct (IH Hk' pre Sk) as (I1 & I2). split.
    - destruct kids as [|b kids]; [reflexivity|].
      change (sk_le ck kltb a b && sibs_sortedb ck kltb (b :: kids) = true). rewrite I1, andb_true_r.
      unfold sk_le. apply negb_true_iff.
      destruct a as [ka sa pa ca], b as [kb sb pb cb]. simpl.
      apply (sibling_order pre (sa, ka) (sb, kb)). apply Cross.
      + simpl. left. reflexivity.
      + unfold nodes_f. simpl. left. reflexivity.
    - simpl. rewrite I2, andb_true_r. apply (Ha pre). exact Sa.
  Qed.

  Lemma node_sorted : forall n pre, StronglySorted plt (map fst (nodes_at pre n)) -> levels_sortedb ck kltb n = true.
  Proof.
    induction n as [k s pgs kids IH] using node_ind'. intros pre S. simpl in S.
    inversion S as [|? ? S' _]; subst.
    destruct (forest_sorted_aux kids IH _ S') as (A1 & A2). simpl. rewrite A1, A2. reflexivity.
  Qed.

  Theorem listing_sorted_levels t pre : StronglySorted plt (map fst (nodes_f pre t)) -> forest_sortedb ck kltb t = true.
  Proof.
    intro S. destruct (forest_sorted_aux t) with (pre := pre) as (A1 & A2); auto.
    - rewrite Forall_forall. intros n _ pre'. apply node_sorted.
    - unfold forest_sortedb. rewrite A1, A2. reflexivity.
  Qed.

  (* ---- M2 and M3 in their final form ---- *)
  Theorem merge_complete (es : list entry) :
    Forall wf es ->
    exists t, digest ck keqb kltb tx src es = Some t /\
      NoDup (map fst (nodes_f [] t)) /\
      Permutation (all_pages (nodes_f [] t)) (map pg es) /\
      (forall q, pages_of (nodes_f [] t) q = map pg (filter (fun e => path_eqb (labels e) q) es)) /\
      (forall q, In q (map fst (nodes_f [] t)) -> q <> [] /\ exists e, In e es /\ is_prefix q (labels e)).
  Proof.
    intro W. destruct (digest_lists_every_entry entry_lt es W) as (t & D & P1 & P2 & P3).
    exists t. split; [exact D|]. split; [|split; [exact P1|split; [|exact P3]]].
    - eapply SS_NoDup; [apply plt_irr|]. eapply digest_listing_sorted; eauto.
    - intro q. rewrite P2. f_equal.
      pose proof (entry_lt_swo ck keqb kltb HK tx src) as SW.
      (* stability: entries naming the same path are inseparable, so the sort keeps their document order *)
      set (P := fun e => path_eqb (labels e) q && (length (e_key e) =? length q)%nat).
      assert (Ext : forall l, Forall wf l -> filter (fun e => path_eqb (labels e) q) l = filter P l).
      { intros l Wl. apply filter_ext_in. intros e Ie. unfold P. destruct (path_eqb (labels e) q) eqn:Q; auto.
        apply path_eqb_eq in Q. rewrite Forall_forall in Wl. pose proof (Wl e Ie) as We.
        rewrite <- Q, labels_length by (unfold wf in We; lia). rewrite Nat.eqb_refl. reflexivity. }
      rewrite (Ext es W), (Ext (isort entry_lt es)) by (eapply Permutation_Forall; [apply isort_perm | exact W]).
      apply isort_stable.
      intros x y Px Py. unfold P in Px, Py. apply andb_true_iff in Px, Py.
      destruct Px as [X1 X2], Py as [Y1 Y2]. apply path_eqb_eq in X1, Y1. apply Nat.eqb_eq in X2, Y2.
      apply (entry_lt_false ck keqb kltb HK tx src). right. rewrite !(cmpkey_labels ck tx src), X1, Y1. split; [reflexivity | lia].
  Qed.

  Theorem sorted_levels (es : list entry) t :
    Forall wf es -> digest ck keqb kltb tx src es = Some t -> forest_sortedb ck kltb t = true.
  Proof.
    intros W D. apply (listing_sorted_levels t []). eapply digest_listing_sorted; eauto.
  Qed.
End Digest2.
