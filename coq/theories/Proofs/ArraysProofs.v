(* Proofs about Model/Arrays.v: the column-specification compiler (M4), the border computation (M3), spans (M2). *)
From Coq Require Import List ZArith Bool Lia Arith.
Import ListNotations.
From Verif Require Import Val Lists TableSpec Arrays.
Local Open Scope Z_scope.

(* ================================================================================================ *)
(* M4  compileColspec                                                                                 *)

(* induction principle for the nested type cs *)
Section cs_ind.
  Context (P : cs -> Prop).
  Context (Hcol : forall c, P (SCol c)) (Harg : forall c a, P (SColArg c a)) (Hbar : P SBar)
          (Hat : forall a, P (SAt a)) (Hgt : forall a, P (SGt a)) (Hbl : P SBlank)
          (Hstar : forall ds body, Forall P body -> P (SStar ds body)).
  Fixpoint cs_ind' (s : cs) : P s :=
    match s with
    | SCol c => Hcol c
    | SColArg c a => Harg c a
    | SBar => Hbar
    | SAt a => Hat a
    | SGt a => Hgt a
    | SBlank => Hbl
    | SStar ds body =>
        Hstar ds body ((fix go (l : list cs) : Forall P l :=
                          match l with [] => Forall_nil P | x :: xs => Forall_cons x (cs_ind' x) (go xs) end) body)
    end.
End cs_ind.

(* left-to-right reading of the written-out specification: the state of the compiler loop *)
Definition astep (st : list colstyle * bool) (a : atom) : list colstyle * bool :=
  match a with
  | ACol c => (fst st ++ [mkCol (align_of c) false false], snd st)
  | ABar => match fst st with [] => ([], true) | _ => (set_right_last (fst st), snd st) end
  end.
Definition arun (l : list atom) (st : list colstyle * bool) : list colstyle * bool := fold_left astep l st.

Lemma arun_app : forall a b st, arun (a ++ b) st = arun b (arun a st).
Proof. intros. unfold arun. apply fold_left_app. Qed.

(* steps the loop takes on a printed specification *)
Fixpoint cost (s : cs) : nat :=
  match s with
  | SStar ds body => S (Z.to_nat (dec_val ds) * fold_right (fun x a => (cost x + a)%nat) O body)
  | _ => 1%nat
  end.
Definition cost_l (l : list cs) : nat := fold_right (fun x a => (cost x + a)%nat) O l.

Lemma skip_sp_CT : forall c r, skip_sp (CT c :: r) = CT c :: r. Proof. reflexivity. Qed.

Lemma read_group_plain : forall a lv k acc,
  read_group (S lv) (map CT a ++ k) acc = read_group (S lv) k (acc ++ map CT a).
Proof.
  induction a as [|x a IH]; intros lv k acc; simpl.
  - rewrite app_nil_r. reflexivity.
  - rewrite IH. rewrite <- app_assoc. reflexivity.
Qed.

Lemma read_arg_braced_plain : forall a k, read_arg (braced (map CT a) ++ k) = Some (map CT a, k).
Proof.
  intros a k. unfold read_arg, braced. simpl. rewrite <- app_assoc. rewrite read_group_plain. simpl. reflexivity.
Qed.

Lemma read_group_digits : forall ds lv k acc,
  read_group (S lv) (digit_toks ds ++ k) acc = read_group (S lv) k (acc ++ digit_toks ds).
Proof. intros. unfold digit_toks. rewrite <- (map_map (fun d => 48 + d) CT). apply read_group_plain. Qed.

(* a printed specification is brace-balanced *)
Lemma read_group_print : forall s lv k acc,
  read_group (S lv) (print_cs s ++ k) acc = read_group (S lv) k (acc ++ print_cs s).
Proof.
  induction s as [c|c a| |a|a| |ds body IH] using cs_ind'; intros lv k acc; simpl.
  - reflexivity.
  - rewrite <- app_assoc. rewrite read_group_plain. simpl. rewrite <- !app_assoc. reflexivity.
  - reflexivity.
  - rewrite <- app_assoc. rewrite read_group_plain. simpl. rewrite <- !app_assoc. reflexivity.
  - rewrite <- app_assoc. rewrite read_group_plain. simpl. rewrite <- !app_assoc. reflexivity.
  - reflexivity.
  - (* star *)
    rewrite <- !app_assoc. rewrite read_group_digits. simpl.
    assert (Hb : forall lv k acc, read_group (S lv) (flat_map print_cs body ++ k) acc
                                 = read_group (S lv) k (acc ++ flat_map print_cs body)).
    { clear - IH. induction IH as [|x xs Hx _ IHxs]; intros lv k acc; simpl.
      - rewrite app_nil_r. reflexivity.
      - rewrite <- app_assoc. rewrite Hx. rewrite IHxs. rewrite <- app_assoc. reflexivity. }
    rewrite <- app_assoc. rewrite Hb. simpl. f_equal.
    unfold braced. repeat (rewrite <- app_assoc; simpl). reflexivity.
Qed.

Lemma read_group_print_l : forall l lv k acc,
  read_group (S lv) (print_spec l ++ k) acc = read_group (S lv) k (acc ++ print_spec l).
Proof.
  induction l as [|x xs IH]; intros lv k acc; unfold print_spec; simpl.
  - rewrite app_nil_r. reflexivity.
  - rewrite <- app_assoc. rewrite read_group_print. unfold print_spec in IH. rewrite IH. rewrite <- app_assoc. reflexivity.
Qed.

Lemma read_arg_braced_spec : forall l k, read_arg (braced (print_spec l) ++ k) = Some (print_spec l, k).
Proof.
  intros l k. unfold read_arg, braced. simpl. rewrite <- app_assoc. rewrite read_group_print_l. simpl. reflexivity.
Qed.

Lemma read_arg_braced_digits : forall ds k, read_arg (braced (digit_toks ds) ++ k) = Some (digit_toks ds, k).
Proof.
  intros. unfold read_arg, braced. simpl. rewrite <- app_assoc. rewrite read_group_digits. reflexivity.
Qed.

Lemma digits_val_toks : forall ds acc, forallb is_digit ds = true ->
  digits_val (digit_toks ds) acc = Some (fold_left (fun a d => 10 * a + d) ds acc).
Proof.
  induction ds as [|d ds IH]; intros acc H; [reflexivity|].
  cbn [forallb] in H. apply andb_true_iff in H. destruct H as [Hd H]. unfold is_digit in Hd.
  apply andb_true_iff in Hd. destruct Hd as [H0 H9].
  cbn [digit_toks map digits_val fold_left]. fold (digit_toks ds).
  replace ((48 <=? 48 + d) && (48 + d <=? 57)) with true by (symmetry; apply andb_true_iff; split; lia).
  replace (48 + d - 48) with d by lia. apply IH. exact H.
Qed.

(* one compiler step on each kind of specification element *)
Lemma special_false : forall c, special_char c = false -> 0 <= c ->
  (c =? -3) = false /\ (c =? 124) = false /\ (c =? 62) = false /\ (c =? 60) = false /\ (c =? 64) = false /\ (c =? 42) = false
  /\ argcol_char c = false.
Proof.
  intros c H Hc. unfold special_char in H. unfold argcol_char.
  repeat (apply orb_false_iff in H; destruct H as [H ?]).
  repeat split; try assumption; try lia.
  all: try (repeat (apply orb_false_iff; split); assumption).
Qed.

Lemma argcol_true : forall c, argcol_char c = true ->
  (c =? -3) = false /\ (c =? 124) = false /\ (c =? 62) = false /\ (c =? 60) = false /\ (c =? 64) = false /\ (c =? 42) = false.
Proof.
  intros c H. unfold argcol_char in H.
  repeat (apply orb_true_iff in H; destruct H as [H|H]); apply Z.eqb_eq in H; subst; repeat split; reflexivity.
Qed.

Lemma compile_print : forall s, wf_cs s = true ->
  forall f k out left,
    compile (cost s + f) (print_cs s ++ k) out left
    = compile f k (fst (arun (expand s) (out, left))) (snd (arun (expand s) (out, left))).
Proof.
  induction s as [c|c a| |a|a| |ds body IH] using cs_ind'; intros Hwf f k out left.
  - (* SCol *)
    simpl in Hwf. apply andb_true_iff in Hwf. destruct Hwf as [Hwf Hc]. apply negb_true_iff in Hwf.
    destruct (special_false c Hwf ltac:(lia)) as (E1 & E2 & E3 & E4 & E5 & E6 & E7).
    cbn [cost Nat.add print_cs app compile tok_code]. rewrite E1, E2, E3, E4, E5, E6. unfold takes_arg. cbn [tok_code]. rewrite E7.
    reflexivity.
  - (* SColArg *)
    simpl in Hwf. destruct (argcol_true c Hwf) as (E1 & E2 & E3 & E4 & E5 & E6).
    cbn [cost Nat.add print_cs app compile tok_code]. rewrite E1, E2, E3, E4, E5, E6. unfold takes_arg. cbn [tok_code]. rewrite Hwf.
    rewrite read_arg_braced_plain. reflexivity.
  - (* SBar *)
    cbn [cost Nat.add print_cs app compile tok_code]. cbn [Z.eqb Pos.eqb].
    destruct out; reflexivity.
  - (* SAt *)
    cbn [cost Nat.add print_cs app compile tok_code]. cbn [Z.eqb Pos.eqb]. rewrite read_arg_braced_plain. reflexivity.
  - (* SGt *)
    cbn [cost Nat.add print_cs app compile tok_code]. cbn [Z.eqb Pos.eqb]. rewrite read_arg_braced_plain. reflexivity.
  - (* SBlank *)
    cbn [cost Nat.add print_cs app compile tok_code]. cbn [Z.eqb Pos.eqb]. reflexivity.
  - (* SStar *)
    simpl in Hwf. apply andb_true_iff in Hwf. destruct Hwf as [Hwf Hbody]. apply andb_true_iff in Hwf. destruct Hwf as [Hne Hdig].
    cbn [cost Nat.add print_cs app compile tok_code]. cbn [Z.eqb Pos.eqb].
    rewrite <- app_assoc. rewrite read_arg_braced_digits.
    rewrite digits_val_toks by exact Hdig. fold (dec_val ds).
    destruct ds as [|d0 ds']; [discriminate|]. cbn [digit_toks map]. fold (digit_toks ds').
    change (flat_map print_cs body) with (print_spec body).
    rewrite read_arg_braced_spec.
    (* n copies of the body, then k *)
    cbn [expand]. set (n := Z.to_nat (dec_val (d0 :: ds'))).
    assert (Hl : forall l, Forall (fun s => wf_cs s = true ->
                  forall f k out left, compile (cost s + f) (print_cs s ++ k) out left
                    = compile f k (fst (arun (expand s) (out, left))) (snd (arun (expand s) (out, left)))) l ->
                forallb wf_cs l = true ->
                forall f k out left, compile (cost_l l + f) (print_spec l ++ k) out left
                  = compile f k (fst (arun (flat_map expand l) (out, left))) (snd (arun (flat_map expand l) (out, left)))).
    { clear. induction l as [|x xs IHl]; intros HF Hw f k out left.
      - reflexivity.
      - inversion HF as [|? ? Hx Hxs]; subst. simpl in Hw. apply andb_true_iff in Hw. destruct Hw as [Hwx Hwxs].
        unfold print_spec. cbn [cost_l fold_right flat_map]. fold (cost_l xs). rewrite <- app_assoc.
        rewrite <- Nat.add_assoc. rewrite (Hx Hwx). fold (print_spec xs). rewrite (IHl Hxs Hwxs).
        rewrite arun_app. destruct (arun (expand x) (out, left)); reflexivity. }
    specialize (Hl body IH Hbody). fold (cost_l body).
    clearbody n. clear - Hl. revert f k out left.
    induction n as [|n IHn]; intros f k out left.
    + reflexivity.
    + cbn [rep Nat.mul]. rewrite <- app_assoc. rewrite <- Nat.add_assoc. rewrite Hl.
      rewrite IHn. rewrite arun_app.
      destruct (arun (flat_map expand body) (out, left)); reflexivity.
Qed.

Lemma compile_print_l : forall l, forallb wf_cs l = true ->
  forall f k out left,
    compile (cost_l l + f) (print_spec l ++ k) out left
    = compile f k (fst (arun (expand_spec l) (out, left))) (snd (arun (expand_spec l) (out, left))).
Proof.
  induction l as [|x xs IHl]; intros Hw f k out left.
  - reflexivity.
  - simpl in Hw. apply andb_true_iff in Hw. destruct Hw as [Hwx Hwxs].
    unfold print_spec, expand_spec. cbn [cost_l fold_right flat_map]. fold (cost_l xs). rewrite <- app_assoc.
    rewrite <- Nat.add_assoc. rewrite (compile_print x Hwx). fold (print_spec xs). rewrite (IHl Hwxs).
    rewrite arun_app. fold (expand_spec xs). destruct (arun (expand x) (out, left)); reflexivity.
Qed.

(* left-to-right (the loop) against right-to-left (the Spec) *)
Definition with_right (c : colstyle) : colstyle := mkCol (c_align c) (c_left c) true.

Lemma set_right_last_snoc : forall l c, set_right_last (l ++ [c]) = l ++ [with_right c].
Proof. intros. unfold set_right_last. rewrite rev_app_distr. simpl. rewrite rev_involutive. reflexivity. Qed.

Lemma set_right_last_idem : forall l, set_right_last (set_right_last l) = set_right_last l.
Proof.
  intros l. destruct l as [|x l] using rev_ind; [reflexivity|].
  rewrite set_right_last_snoc. rewrite set_right_last_snoc. reflexivity.
Qed.

Lemma set_right_last_nonempty : forall l, l <> [] -> set_right_last l <> [].
Proof.
  intros l H. destruct l as [|x l] using rev_ind; [congruence|]. rewrite set_right_last_snoc. destruct l; discriminate.
Qed.

Lemma arun_cols_right : forall l out left,
  arun l (out, left) =
  let (b, cols) := cols_right l in
  match out with
  | [] => (cols, left || b)
  | _ => ((if b then set_right_last out else out) ++ cols, left)
  end.
Proof.
  induction l as [|a l IH]; intros out left.
  - simpl. destruct out; [rewrite orb_false_r; reflexivity|rewrite app_nil_r; reflexivity].
  - destruct a as [c|].
    + (* a column letter *)
      cbn [arun fold_left astep fst snd]. fold (arun l (out ++ [mkCol (align_of c) false false], left)).
      rewrite IH. cbn [cols_right]. destruct (cols_right l) as [b cols].
      destruct out as [|o out'].
      * cbn [app]. rewrite orb_false_r. destruct b; reflexivity.
      * assert (Hne : (o :: out') ++ [mkCol (align_of c) false false] <> []) by (destruct out'; discriminate).
        destruct ((o :: out') ++ [mkCol (align_of c) false false]) eqn:E; [congruence|]. rewrite <- E.
        destruct b.
        -- rewrite set_right_last_snoc. rewrite <- app_assoc. reflexivity.
        -- rewrite <- app_assoc. reflexivity.
    + (* a bar *)
      cbn [arun fold_left astep fst snd].
      destruct out as [|o out'].
      * fold (arun l ([], true)). rewrite IH. cbn [cols_right]. destruct (cols_right l) as [b cols].
        rewrite orb_true_r. reflexivity.
      * fold (arun l (set_right_last (o :: out'), left)). rewrite IH. cbn [cols_right]. destruct (cols_right l) as [b cols].
        pose proof (set_right_last_nonempty (o :: out') ltac:(discriminate)) as Hne.
        destruct (set_right_last (o :: out')) eqn:E; [congruence|]. rewrite <- E.
        destruct b; [rewrite set_right_last_idem|]; reflexivity.
Qed.

(* M4: on every well-formed specification the compiler returns its meaning (and raises exactly when a bar has no column) *)
Theorem colspec_compile : forall l, forallb wf_cs l = true ->
  forall f, (cost_l l < f)%nat ->
    compile f (print_spec l) [] false = match den_spec l with Some cols => COk cols | None => CCrash end.
Proof.
  intros l Hw f Hf.
  replace f with (cost_l l + S (f - cost_l l - 1))%nat by lia.
  rewrite <- (app_nil_r (print_spec l)). rewrite (compile_print_l l Hw).
  rewrite arun_cols_right. unfold den_spec, den_atoms. destruct (cols_right (expand_spec l)) as [b cols].
  cbn [fst snd compile orb]. destruct b; [destruct cols|]; reflexivity.
Qed.

Lemma cols_right_length : forall l, length (snd (cols_right l)) = count_cols l.
Proof.
  induction l as [|a l IH]; [reflexivity|]. destruct a; cbn [cols_right]; destruct (cols_right l) as [b cols]; simpl in *.
  - unfold count_cols in *. simpl. lia.
  - unfold count_cols in *. simpl. exact IH.
Qed.

(* the number of columns is the number of column letters of the written-out specification *)
Theorem colspec_columns : forall l cols, den_spec l = Some cols -> length cols = count_cols (expand_spec l).
Proof.
  intros l cols H. unfold den_spec, den_atoms in H. pose proof (cols_right_length (expand_spec l)) as HL.
  destruct (cols_right (expand_spec l)) as [b cs']. simpl in HL.
  destruct b; [destruct cs'; [discriminate|]|]; inversion H; subst; simpl in *; exact HL.
Qed.

Theorem star_expands : forall ds body, expand (SStar ds body) = rep (Z.to_nat (dec_val ds)) (expand_spec body).
Proof. reflexivity. Qed.

Definition starts_with_bar (l : list atom) : bool := match l with ABar :: _ => true | _ => false end.

Lemma cols_right_fst : forall l, fst (cols_right l) = starts_with_bar l.
Proof. destruct l as [|[c|] l']; cbn [cols_right]; try destruct (cols_right l'); reflexivity. Qed.

Lemma cols_right_nth : forall a c b,
  nth_error (snd (cols_right (a ++ ACol c :: b))) (count_cols a) = Some (mkCol (align_of c) false (starts_with_bar b)).
Proof.
  induction a as [|x a IH]; intros c b.
  - cbn [app cols_right]. rewrite <- cols_right_fst. destruct (cols_right b). reflexivity.
  - destruct x as [c'|]; cbn [app cols_right]; specialize (IH c b); destruct (cols_right (a ++ ACol c :: b)) as [b' cols'].
    + unfold count_cols. simpl. exact IH.
    + unfold count_cols. simpl. exact IH.
Qed.

(* a bar is the right border of exactly the column whose letter it follows, the left border of exactly the first column when
   it precedes every letter; the alignment is that of the letter *)
Theorem colspec_bars : forall l cols a c b,
  den_atoms l = Some cols -> l = a ++ ACol c :: b ->
  exists col, nth_error cols (count_cols a) = Some col
              /\ c_align col = align_of c
              /\ c_right col = starts_with_bar b
              /\ c_left col = (Nat.eqb (count_cols a) 0 && starts_with_bar l).
Proof.
  intros l cols a c b H E. rewrite E in H. rewrite E. clear E l. unfold den_atoms in H.
  pose proof (cols_right_nth a c b) as Hn. pose proof (cols_right_fst (a ++ ACol c :: b)) as Hf.
  destruct (cols_right (a ++ ACol c :: b)) as [b0 cs']. simpl in Hn, Hf. subst b0.
  destruct (starts_with_bar (a ++ ACol c :: b)) eqn:Es.
  - destruct cs' as [|c0 r]; [discriminate|]. inversion H; subst. clear H.
    destruct (count_cols a) as [|n] eqn:En.
    + simpl in Hn. inversion Hn; subst. eexists. split; [reflexivity|]. simpl. repeat split; reflexivity.
    + simpl in Hn. exists (mkCol (align_of c) false (starts_with_bar b)). simpl. repeat split; try reflexivity. exact Hn.
  - inversion H; subst. exists (mkCol (align_of c) false (starts_with_bar b)). rewrite andb_false_r. repeat split; try reflexivity. exact Hn.
Qed.

(* ================================================================================================ *)
(* M3  borders                                                                                        *)

(* the marks a row has received, as a function of the rules applied so far *)
Fixpoint mark_row (tops bots : list rule) (s : Z) (spans : list Z) (sts : list cstyle) : list cstyle :=
  match spans, sts with
  | sp :: spans', st :: sts' =>
      mkS (s_top st || existsb (covers s sp) tops) (s_bottom st || existsb (covers s sp) bots)
          (s_left st) (s_right st) (s_align st)
      :: mark_row tops bots (s + sp) spans' sts'
  | _, _ => sts
  end.

Lemma mark_row_nil : forall spans s sts, mark_row [] [] s spans sts = sts.
Proof.
  induction spans as [|sp spans IH]; intros s sts; [reflexivity|]. destruct sts as [|st sts]; [reflexivity|].
  cbn [mark_row existsb]. rewrite IH. destruct st; simpl. rewrite !orb_false_r. reflexivity.
Qed.

Lemma apply_rule_mark : forall r top spans s sts T B,
  apply_rule r top s spans (mark_row T B s spans sts)
  = mark_row (if top then T ++ [r] else T) (if top then B else B ++ [r]) s spans sts.
Proof.
  intros r top. induction spans as [|sp spans IH]; intros s sts T B.
  - destruct top; reflexivity.
  - destruct sts as [|st sts]; [destruct top; reflexivity|].
    cbn [mark_row apply_rule]. rewrite IH. f_equal.
    destruct top; rewrite existsb_app; cbn [existsb]; rewrite orb_false_r;
      destruct (covers s sp r); unfold mark; cbn [s_top s_bottom s_left s_right s_align];
      rewrite ?orb_true_r, ?orb_false_r; reflexivity.
Qed.

Lemma apply_rules_mark : forall top rs spans sts T B,
  apply_rules top rs spans (mark_row T B 1 spans sts)
  = mark_row (if top then T ++ rs else T) (if top then B else B ++ rs) 1 spans sts.
Proof.
  intros top. induction rs as [|r rs IH]; intros spans sts T B.
  - unfold apply_rules. simpl. rewrite !app_nil_r. destruct top; reflexivity.
  - unfold apply_rules in *. cbn [fold_left]. rewrite apply_rule_mark. rewrite IH.
    destruct top; rewrite <- app_assoc; reflexivity.
Qed.

Lemma apply_cell_mark : forall loc c spans sts T B,
  apply_cell loc c spans (mark_row T B 1 spans sts)
  = match loc with
    | Some true => mark_row (T ++ cell_rules c) B 1 spans sts
    | Some false => mark_row T (B ++ cell_rules c) 1 spans sts
    | None => mark_row (T ++ a_lead c) (B ++ a_trail c) 1 spans sts
    end.
Proof.
  intros loc c spans sts T B. unfold apply_cell, cell_rules. destruct loc as [[|]|].
  - rewrite (apply_rules_mark true). rewrite (apply_rules_mark true). rewrite <- app_assoc. reflexivity.
  - rewrite (apply_rules_mark false). rewrite (apply_rules_mark false). rewrite <- app_assoc. reflexivity.
  - rewrite (apply_rules_mark true). rewrite (apply_rules_mark false). reflexivity.
Qed.

Lemma apply_row_mark : forall loc src spans sts T B,
  apply_row loc src spans (mark_row T B 1 spans sts)
  = match loc with
    | Some true => mark_row (T ++ row_rules src) B 1 spans sts
    | Some false => mark_row T (B ++ row_rules src) 1 spans sts
    | None => mark_row (T ++ row_lead src) (B ++ row_trail src) 1 spans sts
    end.
Proof.
  intros loc. induction src as [|c src IH]; intros spans sts T B.
  - unfold apply_row, row_rules, row_lead, row_trail. simpl. rewrite !app_nil_r. destruct loc as [[|]|]; reflexivity.
  - unfold apply_row in *. cbn [fold_left]. rewrite apply_cell_mark.
    unfold row_rules, row_lead, row_trail in *. cbn [flat_map].
    destruct loc as [[|]|]; rewrite IH; rewrite <- ?app_assoc; reflexivity.
Qed.

(* column types applied to a row, cell by cell *)
Definition upd_all (st : cstyle) (specs : list colstyle) : cstyle := fold_left upd specs st.

Fixpoint spec_row (cols : list colstyle) (row : list acell) (sts : list cstyle) : list cstyle :=
  match row, sts with
  | c :: row', st :: sts' =>
      upd_all st (cell_specs cols 0 c) :: spec_row (skipn (Z.to_nat (a_span c)) cols) row' sts'
  | _, _ => sts
  end.

Lemma upd_nth_app : forall pre st cur spec, upd_nth (length pre) spec (pre ++ st :: cur) = pre ++ upd st spec :: cur.
Proof. induction pre as [|p pre IH]; intros; simpl; [reflexivity|]. rewrite IH. reflexivity. Qed.

Lemma zip_repeat : forall n cols own rest pre st cur,
  zip_specs cols (repeat (length pre, own) n ++ rest) (pre ++ st :: cur)
  = zip_specs (skipn n cols) rest
      (pre ++ upd_all st (match own with Some o => map (fun _ => o) (firstn n cols) | None => firstn n cols end) :: cur).
Proof.
  induction n as [|n IH]; intros cols own rest pre st cur.
  - simpl. destruct own; reflexivity.
  - destruct cols as [|spec cols].
    + simpl. destruct own; reflexivity.
    + cbn [repeat app zip_specs skipn firstn]. rewrite upd_nth_app. rewrite IH.
      destruct own; reflexivity.
Qed.

Lemma zip_expand : forall row cols pre cur, length cur = length row ->
  zip_specs cols (expand_cells (length pre) row) (pre ++ cur) = pre ++ spec_row cols row cur.
Proof.
  induction row as [|c row IH]; intros cols pre cur Hlen.
  - destruct cur; [|discriminate]. simpl. destruct cols; reflexivity.
  - destruct cur as [|st cur]; [discriminate|]. simpl in Hlen.
    cbn [expand_cells spec_row]. rewrite zip_repeat.
    replace (S (length pre)) with (length (pre ++ [upd_all st (cell_specs cols 0 c)])) by (rewrite app_length; simpl; lia).
    replace (pre ++ upd_all st (match a_own c with
                                | Some o => map (fun _ => o) (firstn (Z.to_nat (a_span c)) cols)
                                | None => firstn (Z.to_nat (a_span c)) cols end) :: cur)
      with ((pre ++ [upd_all st (cell_specs cols 0 c)]) ++ cur).
    + rewrite IH by lia. rewrite <- app_assoc. reflexivity.
    + rewrite <- app_assoc. unfold cell_specs. cbn [skipn app]. destruct (a_own c); reflexivity.
Qed.

Lemma upd_all_fields : forall specs st,
  upd_all st specs = mkS (s_top st) (s_bottom st) (s_left st || existsb c_left specs) (s_right st || existsb c_right specs)
                         (fold_left (fun a c => if c_align c =? 0 then a else c_align c) specs (s_align st)).
Proof.
  induction specs as [|sp specs IH]; intros st.
  - simpl. destruct st; simpl. rewrite !orb_false_r. reflexivity.
  - unfold upd_all in *. cbn [fold_left existsb]. rewrite IH. unfold upd. cbn [s_top s_bottom s_left s_right s_align].
    rewrite !orb_assoc. reflexivity.
Qed.

Lemma mark_upd_all : forall top st specs, mark top (upd_all st specs) = upd_all (mark top st) specs.
Proof. intros. rewrite !upd_all_fields. destruct top; reflexivity. Qed.

Lemma apply_rule_spec_row : forall r top row cols s sts,
  apply_rule r top s (map a_span row) (spec_row cols row sts) = spec_row cols row (apply_rule r top s (map a_span row) sts).
Proof.
  intros r top. induction row as [|c row IH]; intros cols s sts.
  - destruct sts; reflexivity.
  - destruct sts as [|st sts]; [reflexivity|]. cbn [map spec_row apply_rule]. rewrite IH. f_equal.
    destruct (covers s (a_span c) r); [apply mark_upd_all|reflexivity].
Qed.

Lemma apply_rules_spec_row : forall top rs row cols sts,
  apply_rules top rs (map a_span row) (spec_row cols row sts) = spec_row cols row (apply_rules top rs (map a_span row) sts).
Proof.
  intros top. induction rs as [|r rs IH]; intros; [reflexivity|].
  unfold apply_rules in *. cbn [fold_left]. rewrite apply_rule_spec_row. apply IH.
Qed.

Lemma apply_row_spec_row : forall loc src row cols sts,
  apply_row loc src (map a_span row) (spec_row cols row sts) = spec_row cols row (apply_row loc src (map a_span row) sts).
Proof.
  intros loc. induction src as [|c src IH]; intros; [reflexivity|].
  unfold apply_row in *. cbn [fold_left]. rewrite <- IH. f_equal.
  unfold apply_cell. destruct loc as [t|]; rewrite !apply_rules_spec_row; reflexivity.
Qed.

Definition empties (row : list acell) : list cstyle := map (fun _ => s_empty) row.

(* the styles of a row after the rules T (top) and B (bottom) were applied to it, with the column types if [use] *)
Definition nf (cols : list colstyle) (use : bool) (T B : list rule) (row : list acell) : list cstyle :=
  let m := mark_row T B 1 (map a_span row) (empties row) in
  if use then spec_row cols row m else m.

Lemma nf_apply_row : forall loc src cols use T B row,
  apply_row loc src (map a_span row) (nf cols use T B row)
  = match loc with
    | Some true => nf cols use (T ++ row_rules src) B row
    | Some false => nf cols use T (B ++ row_rules src) row
    | None => nf cols use (T ++ row_lead src) (B ++ row_trail src) row
    end.
Proof.
  intros. unfold nf. destruct use.
  - rewrite apply_row_spec_row. rewrite apply_row_mark. destruct loc as [[|]|]; reflexivity.
  - rewrite apply_row_mark. destruct loc as [[|]|]; reflexivity.
Qed.

Lemma nf_zip : forall cols T B row,
  zip_specs cols (expand_cells 0 row) (nf cols false T B row) = nf cols true T B row.
Proof.
  intros. unfold nf. apply (zip_expand row cols []).
  assert (H : forall spans s sts, length (mark_row T B s spans sts) = length sts).
  { induction spans; intros; destruct sts; simpl; auto. }
  rewrite H. unfold empties. apply map_length.
Qed.

Lemma skipn_skipn' : forall {A} (x y : nat) (l : list A), skipn x (skipn y l) = skipn (y + x) l.
Proof.
  intros A x y. revert x. induction y as [|y IH]; intros x l; [reflexivity|].
  destruct l as [|a l]; [destruct x; reflexivity|]. simpl. apply IH.
Qed.

(* the normal form is what the Spec says *)
Lemma spec_row_mark : forall row cols T B s j,
  spec_row (skipn j cols) row (mark_row T B s (map a_span row) (empties row)) = row_spec cols T B s j row.
Proof.
  induction row as [|c row IH]; intros cols T B s j; [reflexivity|].
  cbn [map empties mark_row spec_row row_spec]. fold (empties row). f_equal.
  - rewrite upd_all_fields. unfold style_spec, cell_specs, last_align. cbn [s_top s_bottom s_left s_right s_align s_empty orb skipn].
    reflexivity.
  - rewrite skipn_skipn'. apply IH.
Qed.

Lemma nf_spec : forall cols T B row, nf cols true T B row = row_spec cols T B 1 0 row.
Proof. intros. unfold nf. apply (spec_row_mark row cols T B 1 0%nat). Qed.

(* ---- Array.applyBorders: the loop over the rows ---- *)

Lemma follow_snoc : forall l r,
  following_rules (l ++ [r])
  = if forallb row_bonly l && row_bonly r then following_rules l ++ row_rules r else following_rules l.
Proof.
  induction l as [|x l IH]; intros r.
  - simpl. destruct (row_bonly r); [rewrite app_nil_r|]; reflexivity.
  - cbn [app following_rules forallb]. destruct (row_bonly x); [|reflexivity].
    rewrite IH. cbn [andb]. destruct (forallb row_bonly l && row_bonly r); [rewrite app_assoc|]; reflexivity.
Qed.

Lemma nth_error_ext' : forall {A} (l l' : list A), (forall k, nth_error l k = nth_error l' k) -> l = l'.
Proof.
  induction l as [|x l IH]; intros l' H.
  - destruct l'; [reflexivity|]. specialize (H O). discriminate.
  - destruct l' as [|y l']; [specialize (H O); discriminate|].
    pose proof (H O) as H0. simpl in H0. inversion H0; subst. f_equal. apply IH. intros k. exact (H (S k)).
Qed.

Lemma length_set_nth : forall {A} i (x : A) l, length (set_nth i x l) = length l.
Proof.
  intros A i x l. unfold set_nth. rewrite app_length.
  destruct (skipn i l) as [|y r] eqn:E.
  - simpl. rewrite Nat.add_0_r. rewrite firstn_all2; [reflexivity|].
    apply (f_equal (@length A)) in E. rewrite skipn_length in E. simpl in E. lia.
  - simpl. rewrite <- (firstn_skipn i l) at 2. rewrite app_length. rewrite E. reflexivity.
Qed.

Lemma nth_set_nth_eq : forall {A} i (x d : A) l, (i < length l)%nat -> nth i (set_nth i x l) d = x.
Proof.
  intros A i x d l H. unfold set_nth.
  destruct (skipn i l) as [|y r] eqn:E.
  - apply (f_equal (@length A)) in E. rewrite skipn_length in E. simpl in E. lia.
  - rewrite app_nth2; rewrite firstn_length_le by lia; [|lia]. rewrite Nat.sub_diag. reflexivity.
Qed.

Lemma nth_set_nth_neq : forall {A} i j (x d : A) l, i <> j -> nth j (set_nth i x l) d = nth j l d.
Proof.
  intros A i j x d l H. unfold set_nth.
  rewrite <- (firstn_skipn i l) at 3.
  destruct (Nat.lt_ge_cases j i) as [Hlt|Hge].
  - destruct (Nat.lt_ge_cases j (length (firstn i l))) as [H1|H1].
    + rewrite !app_nth1 by exact H1. reflexivity.
    + rewrite firstn_length in H1.
      assert (Hl : (length l <= j)%nat) by lia.
      rewrite !nth_overflow; [reflexivity| |].
      * rewrite app_length, firstn_length, skipn_length. lia.
      * rewrite app_length, firstn_length. destruct (skipn i l) eqn:E; simpl.
        -- lia.
        -- apply (f_equal (@length A)) in E. rewrite skipn_length in E. simpl in E. lia.
  - destruct (skipn i l) as [|y r] eqn:E.
    + reflexivity.
    + assert (Hi : (i < length l)%nat).
      { apply (f_equal (@length A)) in E. rewrite skipn_length in E. simpl in E. lia. }
      rewrite !app_nth2; rewrite firstn_length_le by lia; try lia.
      destruct (j - i)%nat as [|m] eqn:Em; [lia|]. reflexivity.
Qed.

Definition prev_ok (done : list (list acell)) (prev : option nat) : Prop :=
  match prev with
  | Some p => exists rp, nth_error done p = Some rp /\ row_bonly rp = false /\ forallb row_bonly (skipn (S p) done) = true
  | None => forallb row_bonly done = true
  end.

Section AB.
  Context (cols : list colstyle) (rows : list (list acell)).
  Let FR := first_rules_of rows.

  Definition tops_at (k : nat) (row : list acell) : list rule := (if Nat.eqb k 1 then FR else []) ++ row_lead row.

  Definition inv_done (done : list (list acell)) (sts : list (list cstyle)) : Prop :=
    forall k row, nth_error done k = Some row -> row_bonly row = false ->
      nth k sts [] = nf cols true (tops_at k row) (row_trail row ++ following_rules (skipn (S k) done)) row.

  Definition inv_todo (done todo : list (list acell)) (sts : list (list cstyle)) : Prop :=
    forall k row, nth_error todo k = Some row ->
      nth (length done + k) sts []
      = nf cols false (if Nat.eqb (length done + k) 1 && Nat.leb 1 (length done) then FR else []) [] row.

  Lemma skipn_snoc : forall {A} k (l : list A) x, (k <= length l)%nat -> skipn k (l ++ [x]) = skipn k l ++ [x].
  Proof.
    intros A k. induction k as [|k IH]; intros l x H; [reflexivity|].
    destruct l as [|a l]; [simpl in H; lia|]. simpl. apply IH. simpl in H. lia.
  Qed.

  Lemma nth_error_skipn' : forall {A} a (l : list A) b, nth_error (skipn a l) b = nth_error l (a + b).
  Proof.
    intros A a. induction a as [|a IH]; intros l b; [reflexivity|].
    destruct l as [|x l]; [destruct b; reflexivity|]. simpl. apply IH.
  Qed.

  Lemma prev_unique : forall done p k row,
    prev_ok done (Some p) -> nth_error done k = Some row -> row_bonly row = false ->
    forallb row_bonly (skipn (S k) done) = true -> k = p.
  Proof.
    intros done p k row (rp & Hp & Hbp & Hall) Hk Hb Hallk.
    destruct (Nat.lt_trichotomy k p) as [Hlt|[Heq|Hgt]]; [|exact Heq|].
    - exfalso. rewrite forallb_forall in Hallk.
      assert (Hin : In rp (skipn (S k) done)).
      { apply nth_error_In with (n := (p - S k)%nat). rewrite nth_error_skipn'.
        replace (S k + (p - S k))%nat with p by lia. exact Hp. }
      rewrite (Hallk _ Hin) in Hbp. discriminate.
    - exfalso. rewrite forallb_forall in Hall.
      assert (Hin : In row (skipn (S p) done)).
      { apply nth_error_In with (n := (k - S p)%nat). rewrite nth_error_skipn'.
        replace (S p + (k - S p))%nat with k by lia. exact Hk. }
      rewrite (Hall _ Hin) in Hb. discriminate.
  Qed.

  Lemma zip_or_not : forall (own : list cstyle) cells,
    match cols with [] => own | _ => zip_specs cols cells own end = zip_specs cols cells own.
  Proof. intros. destruct cols; reflexivity. Qed.

  Lemma nth_rows_done : forall done todo p rp, rows = done ++ todo -> nth_error done p = Some rp -> nth p rows [] = rp.
  Proof.
    intros done todo p rp Hr Hp. subst rows. apply nth_error_nth.
    rewrite nth_error_app1; [exact Hp|]. apply nth_error_Some. congruence.
  Qed.

  Lemma ab_loop_correct : forall todo done prev sts dead,
    rows = done ++ todo -> length sts = length rows ->
    prev_ok done prev -> inv_done done sts -> inv_todo done todo sts -> dead = map row_bonly done ->
    forall sts' dead', ab_loop cols rows (length rows - 1) todo (length done) prev sts dead = (sts', dead') ->
    dead' = map row_bonly rows /\ length sts' = length rows /\ inv_done rows sts'.
  Proof.
    induction todo as [|row rest IH]; intros done prev sts dead Hrows Hlen Hprev Hdone Htodo Hdead sts' dead' Hrun.
    - simpl in Hrun. inversion Hrun; subst sts' dead'. rewrite app_nil_r in Hrows. subst done. auto.
    - cbn [ab_loop] in Hrun.
      assert (Hrows' : rows = (done ++ [row]) ++ rest) by (rewrite <- app_assoc; exact Hrows).
      assert (Hld : length (done ++ [row]) = S (length done)) by (rewrite app_length; simpl; lia).
      assert (Hn : length rows = (length done + S (length rest))%nat) by (rewrite Hrows, app_length; reflexivity).
      rewrite <- Hld in Hrun.
      destruct (row_bonly row) eqn:Hb.
      + (* a border-only row *)
        assert (Hdead' : dead ++ [true] = map row_bonly (done ++ [row])).
        { rewrite map_app. simpl. rewrite Hb, Hdead. reflexivity. }
        destruct (Nat.eqb (length done) 0 && negb (Nat.eqb (length rows - 1) 0)) eqn:Hfirst.
        * (* the first row of at least two: marks the top of the second *)
          apply andb_true_iff in Hfirst. destruct Hfirst as [Hd0 Hn1]. apply Nat.eqb_eq in Hd0.
          destruct done; [|discriminate]. clear Hd0. apply negb_true_iff in Hn1. apply Nat.eqb_neq in Hn1.
          destruct rest as [|row1 rest']; [simpl in Hn; lia|].
          assert (HFR : FR = row_rules row).
          { unfold FR. rewrite Hrows. cbn [app first_rules_of]. rewrite Hb. reflexivity. }
          assert (H1 : nth 1 rows [] = row1) by (rewrite Hrows; reflexivity).
          rewrite H1 in Hrun.
          pose proof (Htodo 1%nat row1 eq_refl) as Hs1. cbn [length Nat.add Nat.eqb Nat.leb andb] in Hs1.
          rewrite Hs1 in Hrun. rewrite (nf_apply_row (Some true)) in Hrun. cbn [app] in Hrun.
          eapply (IH [row] prev _ _ Hrows') in Hrun; try exact Hdead'.
          -- exact Hrun.
          -- rewrite length_set_nth. exact Hlen.
          -- destruct prev as [p|]; [destruct Hprev as (rp & Hp & _); destruct p; discriminate|].
             simpl. rewrite Hb. reflexivity.
          -- intros k r Hk Hbr. destruct k; [simpl in Hk; inversion Hk; subst; congruence|destruct k; discriminate].
          -- intros k r Hk. cbn [length]. destruct k as [|k].
             ++ simpl in Hk. inversion Hk; subst r. cbn [Nat.add Nat.eqb Nat.leb andb].
                rewrite nth_set_nth_eq by (rewrite Hlen, Hn; simpl; lia). rewrite HFR. reflexivity.
             ++ cbn [Nat.add]. rewrite nth_set_nth_neq by lia.
                pose proof (Htodo (S (S k)) r Hk) as Hs. cbn [length Nat.add] in Hs. rewrite Hs.
                cbn [Nat.add Nat.eqb Nat.leb andb]. reflexivity.
        * (* applied to the bottom of the previous remaining row, if any *)
          assert (Hrest : length done = 0%nat -> rest = []).
          { intros Hd. rewrite Hd in Hfirst. cbn [Nat.eqb andb] in Hfirst. apply negb_false_iff in Hfirst.
            apply Nat.eqb_eq in Hfirst. destruct rest; [reflexivity|]. simpl in Hn. lia. }
          assert (Htodo' : forall sts1, (forall j, (length done < j)%nat -> nth j sts1 [] = nth j sts []) ->
                                  inv_todo (done ++ [row]) rest sts1).
          { intros sts1 Hsame k r Hk. rewrite Hld. rewrite Hsame by lia.
            replace (S (length done) + k)%nat with (length done + S k)%nat by lia.
            rewrite (Htodo (S k) r Hk).
            destruct (length done) as [|d] eqn:Hd; [rewrite (Hrest eq_refl) in Hk; destruct k; discriminate|].
            reflexivity. }
          destruct prev as [p|].
          -- destruct Hprev as (rp & Hp & Hbp & Hall).
             assert (Hpd : (p < length done)%nat) by (apply nth_error_Some; congruence).
             rewrite (nth_rows_done done (row :: rest) p rp Hrows Hp) in Hrun.
             rewrite (Hdone p rp Hp Hbp) in Hrun. rewrite (nf_apply_row (Some false)) in Hrun.
             eapply (IH (done ++ [row]) (Some p) _ _ Hrows') in Hrun; try exact Hdead'.
             ++ exact Hrun.
             ++ rewrite length_set_nth. exact Hlen.
             ++ exists rp. split; [rewrite nth_error_app1 by exact Hpd; exact Hp|]. split; [exact Hbp|].
                rewrite skipn_snoc by lia. rewrite forallb_app. rewrite Hall. simpl. rewrite Hb. reflexivity.
             ++ intros k r Hk Hbr.
                assert (Hkd : (k < length done)%nat).
                { destruct (Nat.lt_ge_cases k (length done)) as [|Hge]; [assumption|].
                  rewrite nth_error_app2 in Hk by exact Hge. destruct (k - length done)%nat as [|m]; simpl in Hk.
                  - inversion Hk; subst; congruence.
                  - destruct m; discriminate. }
                rewrite nth_error_app1 in Hk by exact Hkd.
                rewrite skipn_snoc by lia. rewrite follow_snoc. rewrite Hb, andb_true_r.
                destruct (Nat.eq_dec k p) as [->|Hne].
                ** rewrite nth_set_nth_eq by lia. rewrite Hp in Hk. inversion Hk; subst r.
                   rewrite Hall. rewrite app_assoc. reflexivity.
                ** rewrite nth_set_nth_neq by (intro; subst; congruence).
                   destruct (forallb row_bonly (skipn (S k) done)) eqn:Hk2.
                   --- exfalso. apply Hne. eapply prev_unique; try eassumption. exists rp. auto.
                   --- apply Hdone; assumption.
             ++ apply Htodo'. intros j Hj. apply nth_set_nth_neq. lia.
          -- eapply (IH (done ++ [row]) None _ _ Hrows') in Hrun; try exact Hdead'.
             ++ exact Hrun.
             ++ exact Hlen.
             ++ simpl in *. rewrite forallb_app. rewrite Hprev. simpl. rewrite Hb. reflexivity.
             ++ intros k r Hk Hbr. exfalso. simpl in Hprev. rewrite forallb_forall in Hprev.
                destruct (Nat.lt_ge_cases k (length done)) as [Hkd|Hge].
                ** rewrite nth_error_app1 in Hk by exact Hkd. apply nth_error_In in Hk. rewrite (Hprev _ Hk) in Hbr. discriminate.
                ** rewrite nth_error_app2 in Hk by exact Hge. destruct (k - length done)%nat as [|m]; simpl in Hk.
                   --- inversion Hk; subst; congruence.
                   --- destruct m; discriminate.
             ++ apply Htodo'. intros; reflexivity.
      + (* a row with content: its own rules, then the column types *)
        assert (Hdead' : dead ++ [false] = map row_bonly (done ++ [row])).
        { rewrite map_app. simpl. rewrite Hb, Hdead. reflexivity. }
        rewrite zip_or_not in Hrun.
        pose proof (Htodo 0%nat row eq_refl) as Hs0. rewrite Nat.add_0_r in Hs0.
        rewrite Hs0 in Hrun. rewrite (nf_apply_row None) in Hrun. cbn [app] in Hrun. rewrite nf_zip in Hrun.
        assert (Hcond : (Nat.eqb (length done) 1 && Nat.leb 1 (length done)) = Nat.eqb (length done) 1).
        { destruct (length done) as [|[|d]]; reflexivity. }
        rewrite Hcond in Hrun.
        eapply (IH (done ++ [row]) (Some (length done)) _ _ Hrows') in Hrun; try exact Hdead'.
        * exact Hrun.
        * rewrite length_set_nth. exact Hlen.
        * exists row. split; [rewrite nth_error_app2 by lia; rewrite Nat.sub_diag; reflexivity|]. split; [exact Hb|].
          rewrite skipn_all2 by (rewrite Hld; lia). reflexivity.
        * intros k r Hk Hbr.
          destruct (Nat.lt_ge_cases k (length done)) as [Hkd|Hge].
          -- rewrite nth_error_app1 in Hk by exact Hkd. rewrite nth_set_nth_neq by lia.
             rewrite skipn_snoc by lia. rewrite follow_snoc. rewrite Hb, andb_false_r. apply Hdone; assumption.
          -- rewrite nth_error_app2 in Hk by exact Hge. destruct (k - length done)%nat as [|m] eqn:Em; simpl in Hk.
             ++ inversion Hk; subst r. assert (k = length done) by lia. subst k.
                rewrite nth_set_nth_eq by lia. rewrite skipn_all2 by (rewrite Hld; lia). cbn [following_rules].
                rewrite app_nil_r. reflexivity.
             ++ destruct m; discriminate.
        * intros k r Hk. rewrite Hld. rewrite nth_set_nth_neq by lia.
          replace (S (length done) + k)%nat with (length done + S k)%nat by lia.
          rewrite (Htodo (S k) r Hk).
          destruct (length done) as [|d] eqn:Hd; [|reflexivity].
          destruct done; [|discriminate].
          assert (HFR : FR = []).
          { unfold FR. rewrite Hrows. cbn [app first_rules_of]. rewrite Hb. destruct rest; reflexivity. }
          rewrite HFR. destruct (Nat.eqb (0 + S k) 1 && Nat.leb 1 0), (Nat.eqb (0 + S k) 1 && Nat.leb 1 1); reflexivity.
  Qed.
End AB.

Lemma rows_spec_from_inv : forall cols FR rows' sts pre,
  length sts = length rows' ->
  (forall k row, nth_error rows' k = Some row -> row_bonly row = false ->
     nth k sts [] = row_spec cols ((if Nat.eqb (pre + k) 1 then FR else []) ++ row_lead row)
                             (row_trail row ++ following_rules (skipn (S k) rows')) 1 0 row) ->
  map (fun p => if (snd p : bool) then None else Some (fst p)) (combine sts (map row_bonly rows'))
  = rows_spec cols pre FR rows'.
Proof.
  intros cols FR. induction rows' as [|row rest IH]; intros sts pre Hlen H.
  - destruct sts; reflexivity.
  - destruct sts as [|st sts]; [discriminate|]. cbn [map combine rows_spec fst snd]. f_equal.
    + destruct (row_bonly row) eqn:Hb; [reflexivity|].
      pose proof (H 0%nat row eq_refl Hb) as H0. rewrite Nat.add_0_r in H0. simpl in H0. rewrite H0. reflexivity.
    + apply IH; [simpl in Hlen; lia|]. intros k r Hk Hbr.
      pose proof (H (S k) r Hk Hbr) as Hk'. simpl in Hk'. rewrite Hk'.
      replace (pre + S k)%nat with (S pre + k)%nat by lia. reflexivity.
Qed.

(* M3: the border computation of the Model is the Spec, for every table *)
Theorem borders_adjacent : forall cols rows, apply_borders cols rows = table_spec cols rows.
Proof.
  intros cols rows. unfold apply_borders, table_spec.
  destruct (ab_loop cols rows (length rows - 1) rows 0 None (map (fun row => map (fun _ => s_empty) row) rows) [])
    as [sts dead] eqn:Hrun.
  pose proof (ab_loop_correct cols rows rows [] None (map (fun row => map (fun _ => s_empty) row) rows) [] eq_refl) as HC.
  destruct (HC (map_length _ _)) with (sts' := sts) (dead' := dead) as (Hdead & Hlen & Hinv).
  - reflexivity.
  - intros k row Hk. destruct k; discriminate.
  - intros k row Hk. cbn [length Nat.add]. rewrite andb_false_r. unfold nf. rewrite mark_row_nil.
    change [] with ((fun row0 : list acell => map (fun _ => s_empty) row0) []) at 1.
    rewrite map_nth. unfold empties. f_equal. apply nth_error_nth. exact Hk.
  - reflexivity.
  - exact Hrun.
  - subst dead. apply rows_spec_from_inv; [exact Hlen|].
    intros k row Hk Hb. rewrite (Hinv k row Hk Hb). rewrite nf_spec. reflexivity.
Qed.

(* ================================================================================================ *)
(* M2  spans                                                                                          *)

Lemma last_multi_app : forall a b, last_multi (a ++ b)
  = match last_multi b with Some p => Some p | None => last_multi a end.
Proof.
  intros a b. unfold last_multi. rewrite fold_left_app.
  generalize (fold_left (fun acc c => match multi_of c with Some p => Some p | None => acc end) a None) as acc0.
  induction b as [|x b IH]; intros acc0; [reflexivity|]. cbn [fold_left].
  rewrite IH. rewrite (IH (match multi_of x with Some p => Some p | None => None end)).
  destruct (fold_left _ b None); [reflexivity|]. destruct (multi_of x); reflexivity.
Qed.

Lemma last_multi_none : forall l, (forall t, In t l -> multi_of t = None) -> last_multi l = None.
Proof.
  induction l as [|x l IH] using rev_ind; intros H; [reflexivity|].
  rewrite last_multi_app. unfold last_multi at 1. simpl. rewrite (H x) by (apply in_or_app; right; left; reflexivity).
  apply IH. intros t Ht. apply H. apply in_or_app. left. exact Ht.
Qed.

(* a cell that holds a \multicolumn{n}{spec}{..} (and none after it) carries colspan n and the column type of spec;
   a cell without one spans one column *)
Theorem span_multicolumn : forall d d' before after n col body,
  (forall t, In t after -> multi_of t = None) ->
  let v := cell_view (T KCell d (before ++ leaf (KMulti n col body) d' :: after)) in
  a_span v = n /\ a_own v = Some col.
Proof.
  intros d d' before after n col body H. unfold cell_view. cbn [children].
  destruct (scan_rules (rev (before ++ leaf (KMulti n col body) d' :: after))) as [tr all].
  destruct (scan_rules (before ++ leaf (KMulti n col body) d' :: after)) as [ld e].
  rewrite last_multi_app. change (leaf (KMulti n col body) d' :: after) with ([leaf (KMulti n col body) d'] ++ after).
  rewrite last_multi_app. rewrite (last_multi_none after H). simpl. split; reflexivity.
Qed.

Theorem span_plain : forall d ch, (forall t, In t ch -> multi_of t = None) ->
  a_span (cell_view (T KCell d ch)) = 1 /\ a_own (cell_view (T KCell d ch)) = None.
Proof.
  intros d ch H. unfold cell_view. cbn [children].
  destruct (scan_rules (rev ch)) as [tr all]. destruct (scan_rules ch) as [ld e].
  rewrite (last_multi_none ch H). simpl. split; reflexivity.
Qed.

(* the width of a digested row is the sum of the spans of its cells *)
Theorem row_width_sum : forall d cells,
  row_width (row_view (T KRow d cells)) = fold_right (fun c a => a_span (cell_view c) + a) 0 cells.
Proof. intros d cells. unfold row_view, row_width. cbn [children]. induction cells; simpl; [reflexivity|]. rewrite IHcells. reflexivity. Qed.

(* numCols: when every remaining row has width N, the table has N columns *)
Theorem num_cols_uniform : forall rows res N, 0 <= N -> length rows = length res ->
  (forall k row sts, nth_error rows k = Some row -> nth_error res k = Some (Some sts) -> row_width row = N) ->
  (exists k sts, nth_error res k = Some (Some sts)) ->
  num_cols rows res = N.
Proof.
  intros rows res N HN Hlen Hall Hex. unfold num_cols.
  assert (G : forall (rows : list (list acell)) (res : list (option (list cstyle))) m, length rows = length res ->
            (forall k row sts, nth_error rows k = Some row -> nth_error res k = Some (Some sts) -> row_width row = N) ->
            (m = -1 \/ m = N) ->
            let r := fold_left (fun m p => match snd p with Some _ => Z.max m (row_width (fst p)) | None => m end) (combine rows res) m in
            (r = N \/ (r = m /\ forall k sts, nth_error res k <> Some (Some sts)))).
  { clear - HN. induction rows as [|row rows IH]; intros res m Hlen Hall Hm.
    - destruct res; [|discriminate]. simpl. right. split; [reflexivity|]. intros k sts. destruct k; discriminate.
    - destruct res as [|o res]; [discriminate|]. cbn [combine fold_left fst snd].
      assert (Hall' : forall k row sts, nth_error rows k = Some row -> nth_error res k = Some (Some sts) -> row_width row = N).
      { intros k r sts H1 H2. exact (Hall (S k) r sts H1 H2). }
      destruct o as [sts|].
      + pose proof (Hall 0%nat row sts eq_refl eq_refl) as Hw. rewrite Hw.
        assert (Hm' : Z.max m N = N) by (destruct Hm; subst; lia). rewrite Hm'.
        destruct (IH res N ltac:(simpl in Hlen; lia) Hall' (or_intror eq_refl)) as [H|[H _]]; left; exact H.
      + destruct (IH res m ltac:(simpl in Hlen; lia) Hall' Hm) as [H|[H Hn]]; [left; exact H|].
        right. split; [exact H|]. intros k sts. destruct k; [discriminate|]. apply Hn. }
  destruct (G rows res (-1) Hlen Hall (or_introl eq_refl)) as [H|[_ Hn]]; [exact H|].
  destruct Hex as (k & sts & Hk). exfalso. exact (Hn k sts Hk).
Qed.

Lemma covers_hline : forall s sp, covers s sp RH = true.
Proof. reflexivity. Qed.

Lemma covers_cline : forall s sp a b, covers s sp (RC a b) = true <-> (a <= s + sp - 1 /\ s <= b).
Proof. intros. unfold covers. rewrite andb_true_iff, !Z.leb_le. tauto. Qed.

(* ================================================================================================ *)
(* what the border code sees of a digested cell is what was written in it                             *)

Lemma is_ws_tree_of : forall d c, is_ws (tree_of d c) = blank_content c.
Proof. intros d c. destruct c as [k| | | | |]; try reflexivity; destruct k; reflexivity. Qed.

Lemma rule_of_tree_of : forall d c, rule_of (kind_of (tree_of d c)) = content_rule c.
Proof. intros d c. destruct c as [k| | | | |]; try reflexivity; destruct k; reflexivity. Qed.

Lemma multi_of_tree_of : forall d c, multi_of (tree_of d c) = content_multi c.
Proof. intros d c. destruct c as [k| | | | |]; try reflexivity; destruct k; reflexivity. Qed.

Lemma scan_tree_of : forall d b, scan_rules (map (tree_of d) b) = scan_content b.
Proof.
  intros d. induction b as [|c b IH]; [reflexivity|]. cbn [map scan_rules scan_content].
  rewrite is_ws_tree_of, rule_of_tree_of, IH. reflexivity.
Qed.

Lemma border_only_tree_of : forall d c,
  border_only_item (tree_of d c) = (blank_content c || match content_rule c with Some _ => true | None => false end).
Proof. intros d c. destruct c as [k| | | | |]; try reflexivity; destruct k; reflexivity. Qed.

Theorem cell_view_written : forall d d' cell, cell_view (T KCell d' (map (tree_of d) cell)) = acell_of cell.
Proof.
  intros d d' cell. unfold cell_view, acell_of. cbn [children].
  rewrite <- map_rev. rewrite !scan_tree_of.
  assert (Hm : last_multi (map (tree_of d) cell)
               = fold_left (fun acc c => match content_multi c with Some p => Some p | None => acc end) cell None).
  { unfold last_multi. generalize (@None (Z * colstyle)). induction cell as [|c cell IH]; intros acc; [reflexivity|].
    cbn [map fold_left]. rewrite multi_of_tree_of. apply IH. }
  rewrite Hm.
  assert (Hb : forallb border_only_item (map (tree_of d) cell)
               = forallb (fun c => blank_content c || match content_rule c with Some _ => true | None => false end) cell).
  { clear Hm. induction cell as [|c cell IH]; [reflexivity|]. cbn [map forallb]. rewrite border_only_tree_of, IH. reflexivity. }
  rewrite Hb. reflexivity.
Qed.

(* the styles of the table digested from a written table are the Spec's styles of the table as written *)
Theorem written_table_styles : forall cols d rows,
  apply_borders cols (map row_view (map (fun row => T KRow d (map (fun cell => T KCell d (map (tree_of d) cell)) row)) rows))
  = table_spec cols (map (map acell_of) rows).
Proof.
  intros cols d rows. rewrite borders_adjacent. f_equal. rewrite map_map. apply map_ext. intros row.
  unfold row_view. cbn [children]. rewrite map_map. apply map_ext. intros cell. apply cell_view_written.
Qed.
