(* C18: the hypothesis on .source relative to the document.  [src_inj] (two keys with the same .source are written with the
   same tokens) cannot hold for ALL token lists of real LaTeX (\textbf x and \textbf{x} have one source); M2, M3 and the
   document theorem only need it for the keys that occur in the document at hand. *)
From Coq Require Import List ZArith Bool Arith Lia Permutation Sorted.
Import ListNotations.
From Verif Require Import Val Index IndexProofs.
Local Open Scope Z_scope.

Lemma insert_ext_in {A} (lt lt' : A -> A -> bool) x : forall s,
  (forall y, In y s -> lt y x = lt' y x) -> insert lt x s = insert lt' x s.
Proof.
  induction s as [|y s IH]; intro H; simpl; auto.
  rewrite <- (H y (or_introl eq_refl)). destruct (lt y x); auto. f_equal. apply IH. intros z Hz. apply H. right. exact Hz.
Qed.

Lemma isort_ext_in {A} (lt lt' : A -> A -> bool) : forall l,
  (forall x y, In x l -> In y l -> lt x y = lt' x y) -> isort lt l = isort lt' l.
Proof.
  induction l as [|x l IH]; intro H; simpl; auto.
  rewrite <- IH by (intros a b Ha Hb; apply H; right; assumption).
  apply insert_ext_in. intros y Hy. apply H; [right|left; reflexivity].
  eapply Permutation_in; [apply Permutation_sym; apply isort_perm | exact Hy].
Qed.

Section Relative.
  Context {K : Type} (ck : str -> K) (keqb kltb : K -> K -> bool) (HK : sto keqb kltb).
  Context (tx : list tok -> str) (src : list tok -> str).

  Definition inD (D : list (list tok)) (k : list tok) : bool := existsb (toks_eqb k) D.
  Lemma inD_In D k : inD D k = true <-> In k D.
  Proof.
    unfold inD. rewrite existsb_exists. split.
    - intros (x & Ix & E). apply toks_eqb_eq in E. subst. exact Ix.
    - intro I. exists k. split; auto. apply toks_eqb_eq. reflexivity.
  Qed.

  (* a globally injective rendering that agrees (up to a tag) with src on the keys of the document *)
  Definition src_on (D : list (list tok)) (k : list tok) : str := if inD D k then 0 :: src k else 1 :: src_enc k.

  Definition inj_on (D : list (list tok)) : Prop := forall a b, In a D -> In b D -> src a = src b -> a = b.

  Lemma src_on_inj D : inj_on D -> forall a b, src_on D a = src_on D b -> a = b.
  Proof.
    intros H a b. unfold src_on. destruct (inD D a) eqn:Ea, (inD D b) eqn:Eb; intro E; try discriminate.
    - apply inD_In in Ea. apply inD_In in Eb. injection E as E. apply H; assumption.
    - injection E as E. apply src_enc_inj. exact E.
  Qed.

  Notation g0 := (g ck tx src).
  Notation g1 D := (g ck tx (src_on D)).

  Lemma lkey_agree D (x y : label) : In (snd x) D -> In (snd y) D ->
    lkey_eqb keqb (g1 D x) (g1 D y) = lkey_eqb keqb (g0 x) (g0 y) /\
    lkey_lt keqb kltb (g1 D x) (g1 D y) = lkey_lt keqb kltb (g0 x) (g0 y).
  Proof.
    intros Hx Hy. destruct x as [sx kx], y as [sy ky]. simpl in Hx, Hy.
    unfold IndexOrder.g, lkey_eqb, lkey_lt, src_on. cbn [fst snd].
    rewrite (proj2 (inD_In D kx) Hx), (proj2 (inD_In D ky) Hy).
    change (str_eqb (0 :: src kx) (0 :: src ky)) with (str_eqb (src kx) (src ky)).
    change (str_lt (0 :: src kx) (0 :: src ky)) with (str_lt (src kx) (src ky)).
    split; reflexivity.
  Qed.

  Lemma keys_agree D : forall la lb : list label,
    (forall x, In x la -> In (snd x) D) -> (forall x, In x lb -> In (snd x) D) ->
    keys_lt keqb kltb (map (g1 D) la) (map (g1 D) lb) = keys_lt keqb kltb (map g0 la) (map g0 lb).
  Proof.
    unfold keys_lt. induction la as [|x la IH]; destruct lb as [|y lb]; intros Ha Hb; cbn [map lex_lt]; auto.
    destruct (lkey_agree D x y (Ha x (or_introl eq_refl)) (Hb y (or_introl eq_refl))) as [E1 E2].
    rewrite E1, E2. rewrite IH; auto; intros z Hz; [apply Ha | apply Hb]; right; exact Hz.
  Qed.

  Lemma labels_keys e x : In x (labels e) -> In (snd x) (e_key e).
  Proof. destruct x as [s k]. unfold labels. intro I. apply in_combine_r in I. exact I. Qed.

  Lemma entry_lt_agree D a b : incl (e_key a) D -> incl (e_key b) D ->
    entry_lt ck keqb kltb tx (src_on D) a b = entry_lt ck keqb kltb tx src a b.
  Proof.
    intros Ha Hb. unfold entry_lt. rewrite !(cmpkey_labels ck tx (src_on D)), !(cmpkey_labels ck tx src).
    rewrite (keys_agree D (labels a) (labels b)), (keys_agree D (labels b) (labels a));
      auto; intros x Hx; try (apply Ha; apply labels_keys; exact Hx); apply Hb; apply labels_keys; exact Hx.
  Qed.

  Definition keys_of (es : list entry) : list (list tok) := flat_map e_key es.

  Lemma digest_agree es : digest ck keqb kltb tx (src_on (keys_of es)) es = digest ck keqb kltb tx src es.
  Proof.
    unfold digest, digest_with. rewrite (isort_ext_in (entry_lt ck keqb kltb tx (src_on (keys_of es))) (entry_lt ck keqb kltb tx src)); auto.
    intros x y Hx Hy. apply entry_lt_agree; intros k Hk; unfold keys_of; apply in_flat_map; eauto.
  Qed.

  (* M2 with the relative hypothesis *)
  Theorem merge_complete_rel (es : list entry) :
    inj_on (keys_of es) -> Forall wf es ->
    exists t, digest ck keqb kltb tx src es = Some t /\
      NoDup (map fst (nodes_f [] t)) /\
      Permutation (all_pages (nodes_f [] t)) (map pg es) /\
      (forall q, pages_of (nodes_f [] t) q = map pg (filter (fun e => path_eqb (labels e) q) es)) /\
      (forall q, In q (map fst (nodes_f [] t)) -> q <> [] /\ exists e, In e es /\ is_prefix q (labels e)).
  Proof.
    intros Hi W. rewrite <- digest_agree.
    exact (merge_complete ck keqb kltb HK tx (src_on (keys_of es)) (src_on_inj _ Hi) es W).
  Qed.

  (* M3 with the relative hypothesis *)
  Theorem sorted_levels_rel (es : list entry) t :
    inj_on (keys_of es) -> Forall wf es -> digest ck keqb kltb tx src es = Some t -> forest_sortedb ck kltb t = true.
  Proof.
    intros Hi W D. rewrite <- digest_agree in D.
    exact (sorted_levels ck keqb kltb HK tx (src_on (keys_of es)) (src_on_inj _ Hi) es t W D).
  Qed.

  (* the document theorem with the relative hypothesis: only the display parts written in this document matter *)
  Definition displays (doc : list ientry) : list (list tok) := flat_map (fun e => map l_disp (i_levels e)) doc.

  Theorem index_of_document_rel (doc : list ientry) :
    inj_on (displays doc) -> Forall ispec_ok doc ->
    exists t, digest ck keqb kltb tx src (entries_of tx doc) = Some t /\
      NoDup (map fst (nodes_f [] t)) /\
      (forall q, pages_of (nodes_f [] t) q =
                 map (fun p => (spelled_type (snd p), Z.of_nat (fst p)))
                     (filter (fun p => path_eqb (spelled_path tx (snd p)) q) (numbered doc))) /\
      (forall q, In q (map fst (nodes_f [] t)) -> q <> [] /\ exists e, In e doc /\ is_prefix q (spelled_path tx e)) /\
      forest_sortedb ck kltb t = true.
  Proof.
    intros Hi Ok.
    assert (Inc : incl (keys_of (entries_of tx doc)) (displays doc)).
    { intros k Hk. unfold keys_of in Hk. apply in_flat_map in Hk. destruct Hk as (x & Ix & Ik).
      unfold entries_of in Ix. apply in_map_iff in Ix. destruct Ix as ([n e] & E & Ip). subst x.
      assert (Ie : In e doc) by (apply in_combine_r in Ip; exact Ip).
      rewrite Forall_forall in Ok. destruct (Ok e Ie) as [N F].
      unfold stored, entry_of in Ik. cbn [fst snd] in Ik. rewrite (parse_entry_print tx e N F) in Ik.
      unfold displays. apply in_flat_map. exists e. split; auto.
      destruct (i_fmt e) as [[name args]|]; exact Ik. }
    assert (Hi' : inj_on (keys_of (entries_of tx doc))) by (intros a b Ha Hb; apply Hi; apply Inc; assumption).
    rewrite <- digest_agree.
    exact (index_of_document ck keqb kltb HK tx (src_on (keys_of (entries_of tx doc))) (src_on_inj _ Hi') doc Ok).
  Qed.
End Relative.

(* non-vacuity: in the example document no two different display parts have the same source under the concrete rule src_c
   (which is NOT injective on all token lists) *)
Lemma doc_example_inj_on : inj_on src_c (displays doc_example).
Proof.
  intros a b Ha Hb E. simpl in Ha, Hb.
  repeat (destruct Ha as [Ha | Ha]; [subst a|]); try contradiction;
  repeat (destruct Hb as [Hb | Hb]; [subst b|]); try contradiction; try reflexivity; vm_compute in E; discriminate.
Qed.
Lemma src_c_not_injective : exists a b, src_c a = src_c b /\ a <> b.
Proof. exists [(0, [97])], [(11, [92]); (11, [97])]. split; [reflexivity | discriminate]. Qed.
