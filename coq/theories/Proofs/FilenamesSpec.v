(* C15: the reference generator (Spec) on templates of the documented grammar, and the theorem that the Model of
   plasTeX/Filenames.py -- started from the parsed template -- returns exactly what the Spec returns, for every history. *)
From Coq Require Import List ZArith NArith Bool Lia ZifyBool.
Import ListNotations.
From Verif Require Import Val Filenames FilenamesProofs.
Local Open Scope Z_scope.

(* ------------------------------------------------------------------------------------------------ *)
(* Spec.  Written from the property statement, on the template AST (names = literal runs and variables), with the
   candidate text given by [spec_expand] (FilenamesProofs): no strings are scanned here. *)

Section Spec.
  Context (c : cfg).

  (* go through candidates in order: an unbound candidate is passed (number unchanged); a bound candidate advances the number
     if it is numbered and is issued unless its name is taken.  Result: the name issued with the number afterwards and the
     candidates not yet looked at, or nothing; and the number afterwards. *)
  Fixpoint scan (vars : ns) (taken : list str) (num : N) (l : list name_t) : option (str * list name_t) * N :=
    match l with
    | [] => (None, num)
    | n :: r =>
        match spec_expand c num vars n with
        | None => scan vars taken num r
        | Some s =>
            let num' := if numbered n then (num + 1)%N else num in
            let name := add_extension (ext c) s in
            if mem name taken then scan vars taken num' r else (Some (name, r), num')
        end
    end.

  (* at most k passes over the alternatives of the wildcard *)
  Fixpoint wild_try (k : nat) (vars : ns) (taken : list str) (num : N) (wild : list name_t) : option str * N :=
    match k with
    | O => (None, num)
    | S k' => match scan vars taken num wild with
              | (Some (name, _), num') => (Some name, num')
              | (None, num') => wild_try k' vars taken num' wild
              end
    end.

  Record sstate := { s_static : list name_t;      (* static names not yet used *)
                     s_wild : list name_t;        (* the alternatives of the wildcard, expanded *)
                     s_g : option ns;             (* the namespace of the first request, once there was one *)
                     s_num : N;                   (* the running number *)
                     s_vars : ns;                 (* the namespace the caller sees *)
                     s_taken : list str;          (* reserved and issued names *)
                     s_dead : bool }.             (* an error has been reported *)

  Definition s_init (static wild : list name_t) (vars0 : ns) (reserved : list str) : sstate :=
    {| s_static := static; s_wild := wild; s_g := None; s_num := 1%N; s_vars := vars0; s_taken := reserved; s_dead := false |}.

  (* one request: the caller's bindings are added to the namespace; static names first, in order; then the wildcard, at most 101
     passes; a name that is issued is recorded and the namespace goes back to the one of the first request *)
  Definition s_request (ss : sstate) (b : list (str * str)) : res * sstate :=
    let vars := update (s_vars ss) b in
    if s_dead ss then
      (RNone, {| s_static := s_static ss; s_wild := s_wild ss; s_g := s_g ss; s_num := s_num ss; s_vars := vars;
                 s_taken := s_taken ss; s_dead := true |})
    else
      let g := match s_g ss with Some g => g | None => vars end in
      match scan vars (s_taken ss) (s_num ss) (s_static ss) with
      | (Some (name, rest), num') =>
          (RName name, {| s_static := rest; s_wild := s_wild ss; s_g := Some g; s_num := num'; s_vars := g;
                          s_taken := s_taken ss ++ [name]; s_dead := false |})
      | (None, num1) =>
          match wild_try 101 vars (s_taken ss) num1 (s_wild ss) with
          | (Some name, num') =>
              (RName name, {| s_static := []; s_wild := s_wild ss; s_g := Some g; s_num := num'; s_vars := g;
                              s_taken := s_taken ss ++ [name]; s_dead := false |})
          | (None, num') =>
              (RRaise K_Bail, {| s_static := []; s_wild := s_wild ss; s_g := Some g; s_num := num'; s_vars := vars;
                                 s_taken := s_taken ss; s_dead := true |})
          end
      end.

  Fixpoint s_run (ss : sstate) (reqs : list (list (str * str))) : list res :=
    match reqs with
    | [] => []
    | b :: reqs' => let '(r, ss') := s_request ss b in r :: s_run ss' reqs'
    end.
End Spec.

(* ------------------------------------------------------------------------------------------------ *)
(* Refinement *)

(* a name of the documented grammar in which every variable occurs once *)
Definition name_ok (n : name_t) : Prop := wf_name n /\ NoDup (map fst (keys_of n)).
(* the caller leaves the reserved variable alone *)
Definition no_num (b : list (str * str)) : Prop := Forall (fun kv => str_eqb (fst kv) k_num = false) b.

Lemma lookup_set_num : forall k v n, str_eqb k k_num = false -> lookup k_num n = None -> lookup k_num (set k v n) = None.
Proof.
  intros k v n H L. rewrite lookup_set_other; [exact L|]. rewrite str_eqb_sym. exact H.
Qed.

Lemma update_no_num : forall b n, no_num b -> lookup k_num n = None -> lookup k_num (update n b) = None.
Proof.
  intros b. unfold update. induction b as [|[k v] b IH]; intros n H L; cbn [fold_left]; [exact L|].
  inversion H; subst. apply IH; [assumption|]. cbn [fst snd]. apply lookup_set_num; assumption.
Qed.

Section Refine.
  Context (c : cfg) (Hreset : legacy_reset c = false) (Hwords : legacy_words c = false) (Hpasses : legacy_passes c = false).

  Lemma try_item_spec : forall w g num vars taken n, name_ok n -> lookup k_num vars = None ->
    try_item c w g num vars taken (pr_int n) =
      match spec_expand c num vars n with
      | None => TKey vars
      | Some s => let num' := if numbered n then (num + 1)%N else num in
                  let name := add_extension (ext c) s in
                  if mem name taken then TSkip num' vars else TYield name num' g (taken ++ [name])
      end.
  Proof.
    intros w g num vars taken n [Hwf Hnd] Hn. unfold try_item. rewrite (expand_spec c Hwords num vars n Hwf Hnd Hn).
    destruct (spec_expand c num vars n) as [s|].
    - cbv zeta. rewrite Hreset. reflexivity.
    - destruct w; [rewrite (remove_absent _ _ Hn)|]; reflexivity.
  Qed.

  Lemma wild_for_spec : forall g taken l num vars, Forall name_ok l -> lookup k_num vars = None ->
    wild_for c g num vars taken (map pr_int l) =
      match scan c vars taken num l with
      | (Some (name, _), num') => FYield name num' g (taken ++ [name])
      | (None, num') => FExhausted num' vars
      end.
  Proof.
    intros g taken l. induction l as [|n l IH]; intros num vars H Hn; cbn [map wild_for scan]; [reflexivity|].
    inversion H as [|? ? Hok H']; subst. rewrite (try_item_spec true g num vars taken n Hok Hn).
    destruct (spec_expand c num vars n) as [s|].
    - cbv zeta. destruct (mem (add_extension (ext c) s) taken).
      + apply IH; assumption.
      + reflexivity.
    - apply IH; assumption.
  Qed.

  (* k passes left, the pass counter stands at 101 - k *)
  Lemma wild_loop_spec : forall k g taken wild num vars passes, Forall name_ok wild -> lookup k_num vars = None ->
    (N.of_nat (S k) + passes = 101)%N ->
    wild_loop (S k) c (map pr_int wild) g num vars taken passes =
      match wild_try c (S k) vars taken num wild with
      | (Some name, num') => (RName name, {| ph := PWild (map pr_int wild) g num' 0; vars := g; inval := taken ++ [name] |})
      | (None, _) => (RRaise K_Bail, dead vars taken)
      end.
  Proof.
    induction k as [|k IH]; intros g taken wild num vars passes H Hn Hp; cbn [wild_loop wild_try];
      rewrite (wild_for_spec g taken wild num vars H Hn); destruct (scan c vars taken num wild) as [[[name rest]|] num'].
    - rewrite Hpasses. reflexivity.
    - replace (100 <? passes + 1)%N with true by (symmetry; apply N.ltb_lt; lia). reflexivity.
    - rewrite Hpasses. reflexivity.
    - replace (100 <? passes + 1)%N with false by (symmetry; apply N.ltb_ge; lia).
      apply IH; [assumption|assumption|lia].
  Qed.

  Lemma static_loop_spec : forall wild g taken l num vars, Forall name_ok l -> Forall name_ok wild -> lookup k_num vars = None ->
    static_loop c (map pr_int wild) g num vars taken (map pr_int l) =
      match scan c vars taken num l with
      | (Some (name, rest), num') =>
          (RName name, {| ph := PStatic (map pr_int rest) (map pr_int wild) g num'; vars := g; inval := taken ++ [name] |})
      | (None, num1) =>
          match wild_try c 101 vars taken num1 wild with
          | (Some name, num') => (RName name, {| ph := PWild (map pr_int wild) g num' 0; vars := g; inval := taken ++ [name] |})
          | (None, _) => (RRaise K_Bail, dead vars taken)
          end
      end.
  Proof.
    intros wild g taken l. induction l as [|n l IH]; intros num vars H Hw Hn; cbn [map static_loop scan].
    - unfold pass_fuel. apply (wild_loop_spec 100); [assumption|assumption|reflexivity].
    - inversion H as [|? ? Hok H']; subst. rewrite (try_item_spec false g num vars taken n Hok Hn).
      destruct (spec_expand c num vars n) as [s|].
      + cbv zeta. destruct (mem (add_extension (ext c) s) taken).
        * apply IH; assumption.
        * reflexivity.
      + apply IH; assumption.
  Qed.

  (* the scan keeps names well-formed *)
  Lemma scan_rest_ok : forall vars taken l num name rest num', Forall name_ok l ->
    scan c vars taken num l = (Some (name, rest), num') -> Forall name_ok rest.
  Proof.
    intros vars taken l. induction l as [|n l IH]; intros num name rest num' H E; cbn [scan] in E; [discriminate|].
    inversion H as [|? ? Hok H']; subst. destruct (spec_expand c num vars n) as [s|].
    - cbv zeta in E. destruct (mem (add_extension (ext c) s) taken).
      + eapply IH; eassumption.
      + inversion E; subst. assumption.
    - eapply IH; eassumption.
  Qed.

  (* the simulation relation between the state of the Model and the state of the Spec *)
  Definition sim (ms : st) (ss : sstate) : Prop :=
    Forall name_ok (s_static ss) /\ Forall name_ok (s_wild ss) /\
    match ph ms with
    | PDead => s_dead ss = true
    | PFresh files =>
        s_dead ss = false /\ s_g ss = None /\ s_num ss = 1%N /\
        split_files files [] = (map pr_int (s_static ss), map pr_int (s_wild ss)) /\
        vars ms = s_vars ss /\ inval ms = s_taken ss /\ lookup k_num (vars ms) = None
    | PStatic rest wild g num =>
        s_dead ss = false /\ s_g ss = Some g /\ s_num ss = num /\ rest = map pr_int (s_static ss) /\ wild = map pr_int (s_wild ss) /\
        vars ms = s_vars ss /\ inval ms = s_taken ss /\ lookup k_num (vars ms) = None /\ lookup k_num g = None
    | PWild wild g num passes =>
        s_dead ss = false /\ s_g ss = Some g /\ s_num ss = num /\ s_static ss = [] /\ wild = map pr_int (s_wild ss) /\ passes = 0%N /\
        vars ms = s_vars ss /\ inval ms = s_taken ss /\ lookup k_num (vars ms) = None /\ lookup k_num g = None
    end.

  Lemma sim_step : forall ms ss b, sim ms ss -> no_num b ->
    fst (request c ms b) = fst (s_request c ss b) /\ sim (snd (request c ms b)) (snd (s_request c ss b)).
  Proof.
    intros ms ss b [Hs [Hw S]] Hb. unfold request, s_request.
    destruct (ph ms) as [files|rest wild g num|wild g num passes|] eqn:Hph.
    - (* first request *)
      destruct S as [Hd [Hg [Hnum [Hsplit [Hv [Hi Hn]]]]]]. rewrite Hd, Hg, Hnum, Hsplit, <- Hv, <- Hi.
      pose proof (update_no_num b (vars ms) Hb Hn) as Hn'.
      rewrite (static_loop_spec (s_wild ss) (update (vars ms) b) (inval ms) (s_static ss) 1 (update (vars ms) b) Hs Hw Hn').
      destruct (scan c (update (vars ms) b) (inval ms) 1 (s_static ss)) as [[[name rest]|] num'] eqn:E.
      + cbn [fst snd]. split; [reflexivity|]. unfold sim. cbn [ph s_static s_wild s_dead s_g s_num s_vars s_taken Filenames.vars inval].
        split; [exact (scan_rest_ok _ _ _ _ _ _ _ Hs E)|]. split; [assumption|]. repeat split; try reflexivity; assumption.
      + destruct (wild_try c 101 (update (vars ms) b) (inval ms) num' (s_wild ss)) as [[name|] num2]; cbn [fst snd].
        * split; [reflexivity|]. unfold sim. cbn [ph s_static s_wild s_dead s_g s_num s_vars s_taken Filenames.vars inval].
          split; [constructor|]. split; [assumption|]. repeat split; try reflexivity; assumption.
        * split; [reflexivity|]. unfold sim, dead. cbn [ph s_static s_wild s_dead]. split; [constructor|]. split; [assumption|reflexivity].
    - destruct S as [Hd [Hg [Hnum [Hrest [Hwild [Hv [Hi [Hn Hgn]]]]]]]]. rewrite Hd, Hg, Hnum, Hrest, Hwild, <- Hv, <- Hi. subst num.
      pose proof (update_no_num b (vars ms) Hb Hn) as Hn'.
      rewrite (static_loop_spec (s_wild ss) g (inval ms) (s_static ss) (s_num ss) (update (vars ms) b) Hs Hw Hn').
      destruct (scan c (update (vars ms) b) (inval ms) (s_num ss) (s_static ss)) as [[[name rest']|] num'] eqn:E.
      + cbn [fst snd]. split; [reflexivity|]. unfold sim. cbn [ph s_static s_wild s_dead s_g s_num s_vars s_taken Filenames.vars inval].
        split; [exact (scan_rest_ok _ _ _ _ _ _ _ Hs E)|]. split; [assumption|]. repeat split; try reflexivity; assumption.
      + destruct (wild_try c 101 (update (vars ms) b) (inval ms) num' (s_wild ss)) as [[name|] num2]; cbn [fst snd].
        * split; [reflexivity|]. unfold sim. cbn [ph s_static s_wild s_dead s_g s_num s_vars s_taken Filenames.vars inval].
          split; [constructor|]. split; [assumption|]. repeat split; try reflexivity; assumption.
        * split; [reflexivity|]. unfold sim, dead. cbn [ph s_static s_wild s_dead]. split; [constructor|]. split; [assumption|reflexivity].
    - destruct S as [Hd [Hg [Hnum [Hst [Hwild [Hp [Hv [Hi [Hn Hgn]]]]]]]]]. rewrite Hd, Hg, Hnum, Hst, Hwild, <- Hv, <- Hi. subst num passes.
      pose proof (update_no_num b (vars ms) Hb Hn) as Hn'. cbn [scan]. unfold pass_fuel.
      rewrite (wild_loop_spec 100 g (inval ms) (s_wild ss) (s_num ss) (update (vars ms) b) 0 Hw Hn' eq_refl).
      destruct (wild_try c 101 (update (vars ms) b) (inval ms) (s_num ss) (s_wild ss)) as [[name|] num2]; cbn [fst snd].
      + split; [reflexivity|]. unfold sim. cbn [ph s_static s_wild s_dead s_g s_num s_vars s_taken Filenames.vars inval].
        split; [constructor|]. split; [assumption|]. repeat split; try reflexivity; assumption.
      + split; [reflexivity|]. unfold sim, dead. cbn [ph s_static s_wild s_dead]. split; [constructor|]. split; [assumption|reflexivity].
    - cbn [sim] in S. rewrite S. cbn [fst snd]. split; [reflexivity|]. unfold sim. cbn [ph s_static s_wild s_dead]. auto.
  Qed.

  Theorem run_meets_spec : forall reqs ms ss, sim ms ss -> Forall no_num reqs ->
    map fst (fst (run c ms reqs)) = s_run c ss reqs.
  Proof.
    induction reqs as [|b reqs IH]; intros ms ss S H; [reflexivity|]. inversion H as [|? ? Hb H']; subst.
    destruct (sim_step ms ss b S Hb) as [E S']. cbn [run s_run].
    destruct (request c ms b) as [r ms1]. destruct (s_request c ss b) as [r' ss1]. cbn [fst snd] in *.
    specialize (IH ms1 ss1 S' H'). destruct (run c ms1 reqs) as [out ms2]. cbn [fst map] in *. rewrite E, IH. reflexivity.
  Qed.
End Refine.

(* ------------------------------------------------------------------------------------------------ *)
(* from names / templates / the template string *)

Theorem model_meets_spec : forall c static wild files vars0 reserved reqs,
  legacy_reset c = false -> legacy_words c = false -> legacy_passes c = false ->
  split_files files [] = (map pr_int static, map pr_int wild) ->
  Forall name_ok static -> Forall name_ok wild -> lookup k_num vars0 = None -> Forall no_num reqs ->
  map fst (fst (run c {| ph := PFresh files; vars := vars0; inval := reserved |} reqs)) =
  s_run c (s_init static wild vars0 reserved) reqs.
Proof.
  intros c static wild files vars0 reserved reqs H1 H2 H3 Hsplit Hs Hw Hn Hr.
  apply (run_meets_spec c H1 H2 H3); [|exact Hr]. unfold sim, s_init. cbn. repeat split; auto.
Qed.

(* the names a template stands for: the static names, and the alternatives of the bracket group expanded with the text around
   the brackets; without a bracket group the last name is the wildcard (one alternative) *)
Definition template_names (static : list name_t) (wild : option wildcard) : list name_t * list name_t :=
  match wild with
  | Some w => (static, map (fun a => w_pre w ++ a ++ w_post w) (w_alt0 w :: w_alts w))
  | None => match rev static with
            | last :: init => (rev init, [last])
            | [] => ([], [])
            end
  end.

Lemma split_files_strs : forall l tail acc,
  split_files (map (fun n => FStr (pr_int n)) l ++ tail) acc = split_files tail (acc ++ map pr_int l).
Proof.
  induction l as [|n l IH]; intros tail acc; cbn [map app split_files].
  - rewrite app_nil_r. reflexivity.
  - rewrite IH. rewrite <- app_assoc. reflexivity.
Qed.

Lemma split_template : forall static wild,
  split_files (template_files static wild) [] =
  (map pr_int (fst (template_names static wild)), map pr_int (snd (template_names static wild))).
Proof.
  intros static wild. unfold template_files. rewrite split_files_strs. cbn [app]. destruct wild as [w|]; cbn [split_files template_names fst snd].
  - unfold wild_alts. rewrite map_map. reflexivity.
  - rewrite <- map_rev. destruct (rev static) as [|last init]; cbn [map fst snd]; [reflexivity|]. rewrite map_rev. reflexivity.
Qed.

(* the property in one statement: for every template of the documented grammar, printed as a string, parseFilenames succeeds and
   every history of requests (bindings of any variables but "num", any values, any reserved set, any forbidden-character set and
   extension) gets from the Model of Filenames exactly the results of the reference generator on the template *)
Theorem template_string_meets_spec : forall c static wild vars0 reserved reqs,
  legacy_reset c = false -> legacy_words c = false -> legacy_passes c = false ->
  Forall wf_name1 static -> (match wild with Some w => wf_wild w | None => True end) ->
  Forall name_ok (fst (template_names static wild)) -> Forall name_ok (snd (template_names static wild)) ->
  lookup k_num vars0 = None -> Forall no_num reqs ->
  exists files,
    parse_filenames (pr_surf (template_toks static wild)) = Some files /\
    map fst (fst (run c {| ph := PFresh files; vars := vars0; inval := reserved |} reqs)) =
    s_run c (s_init (fst (template_names static wild)) (snd (template_names static wild)) vars0 reserved) reqs.
Proof.
  intros c static wild vars0 reserved reqs H1 H2 H3 Hs Hw Hn1 Hn2 Hv Hr. exists (template_files static wild). split.
  - apply parse_print_template; assumption.
  - apply model_meets_spec; try assumption. apply split_template.
Qed.

(* non-vacuity: index [${id},sect${num}(4)] with extension .html, sect0002.html reserved, requests {}, {id:a}, {id:a}, {} *)
Example spec_example :
  let static := [[SLit [105;110;100;101;120]]] in
  let w := {| w_pre := []; w_alt0 := [SVar [105;100] None]; w_alts := [[SLit [115;101;99;116]; SVar k_num (Some [52])]]; w_post := [] |} in
  let c := {| cs := None; ext := [46;104;116;109;108]; legacy_reset := false; legacy_words := false; legacy_passes := false |} in
  let reqs := [[]; [([105;100], [97])]; [([105;100], [97])]; []] in
  (Forall wf_name1 static /\ wf_wild w /\
   Forall name_ok (fst (template_names static (Some w))) /\ Forall name_ok (snd (template_names static (Some w))) /\ Forall no_num reqs) /\
  s_run c (s_init (fst (template_names static (Some w))) (snd (template_names static (Some w))) [] [[115;101;99;116;48;48;48;50;46;104;116;109;108]]) reqs =
    [RName [105;110;100;101;120;46;104;116;109;108]; RName [97;46;104;116;109;108];
     RName [115;101;99;116;48;48;48;49;46;104;116;109;108]; RName [115;101;99;116;48;48;48;51;46;104;116;109;108]].
Proof.
  cbv zeta. split; [|vm_compute; reflexivity].
  assert (P1 : plain [105;110;100;101;120]) by (repeat constructor).
  assert (P2 : plain [115;101;99;116]) by (repeat constructor).
  assert (I1 : ident [105;100]) by (split; [repeat constructor | reflexivity]).
  assert (I2 : ident k_num) by (split; [repeat constructor | reflexivity]).
  assert (D : digits [52]) by (split; [discriminate | repeat constructor]).
  split; [|split; [|split; [|split]]].
  - repeat constructor; try discriminate; assumption.
  - unfold wf_wild, wf_name1, wf_seg1. cbn. repeat split; repeat constructor; try discriminate; try assumption; try apply I1; try apply I2; try apply D.
  - cbn. repeat constructor; try assumption; intros [].
  - cbn. constructor; [|constructor; [|constructor]].
    + split; [repeat constructor; try apply I1|]. cbn. repeat constructor. intros [].
    + split; [repeat constructor; try assumption; try apply I2; try apply D|]. cbn. repeat constructor. intros [].
  - repeat constructor.
Qed.

(* ------------------------------------------------------------------------------------------------ *)
(* Clean names: no forbidden character in any issued name (Spec level, hence Model level by the theorems above) *)

Lemma split_words_chars : forall s cur w ch, In w (split_words cur s) -> In ch w -> In ch cur \/ In ch s.
Proof.
  induction s as [|c s IH]; intros cur w ch Hw Hc; cbn [split_words] in Hw.
  - destruct cur as [|c0 cur']; [destruct Hw|]. destruct Hw as [E|[]]. subst w. left. apply in_rev. exact Hc.
  - destruct (is_space c).
    + destruct cur as [|c0 cur'].
      * destruct (IH [] w ch Hw Hc) as [[]|H]. right. right. exact H.
      * destruct Hw as [E|Hw].
        { subst w. left. apply in_rev. exact Hc. }
        { destruct (IH [] w ch Hw Hc) as [[]|H]. right. right. exact H. }
    + destruct (IH (c :: cur) w ch Hw Hc) as [[E|H]|H]; [subst; right; left; reflexivity | left; exact H | right; right; exact H].
Qed.

Lemma join_sp_chars : forall l ch, In ch (join_sp l) -> ch = 32 /\ (2 <= length l)%nat \/ exists w, In w l /\ In ch w.
Proof.
  induction l as [|w l IH]; intros ch H; cbn [join_sp] in H; [destruct H|].
  destruct l as [|w' l'].
  - right. exists w. split; [left; reflexivity | exact H].
  - apply in_app_or in H. destruct H as [H|[H|H]].
    + right. exists w. split; [left; reflexivity | exact H].
    + left. split; [unfold c_space in H; congruence | cbn [length]; lia].
    + destruct (IH ch H) as [[E L]|[w0 [Hw Hc]]]; [left; split; [exact E | cbn [length] in *; lia] | right; exists w0; split; [right; exact Hw | exact Hc]].
Qed.

Lemma in_firstn : forall (A : Type) n (l : list A) x, In x (firstn n l) -> In x l.
Proof.
  intros A n. induction n as [|n IH]; intros l x H; cbn [firstn] in H; [destruct H|].
  destruct l as [|y l]; [destruct H|]. destruct H as [H|H]; [left; exact H | right; apply IH; exact H].
Qed.

Lemma split_no_space : forall s cur, (forall ch, In ch s -> is_space ch = false) -> (length (split_words cur s) <= 1)%nat.
Proof.
  induction s as [|c s IH]; intros cur H; cbn [split_words].
  - destruct cur; cbn; lia.
  - rewrite (H c (or_introl eq_refl)). apply IH. intros ch Hc. apply H. right. exact Hc.
Qed.

Section Clean.
  Context (c : cfg) (bad sub : str) (Hcs : cs c = Some (bad, sub)).
  Context (Hsub : forall ch, In ch sub -> ~ In ch bad)                                  (* the substitute is not itself forbidden *)
          (Hdig : forall ch, In ch bad -> is_digit ch = false)                          (* digits are not forbidden *)
          (Hblank : In 32 bad -> forall ch, is_space ch = true -> In ch bad).           (* if the blank is forbidden, all white space is *)

  Definition clean (s : str) : Prop := forall ch, In ch s -> ~ In ch bad.
  Definition lits_clean (n : name_t) : Prop := forall l, In (SLit l) n -> clean l.

  Lemma limitf_clean : forall d v, clean v -> clean (limitf d v).
  Proof.
    intros d v Hv ch Hc. unfold limitf in Hc. apply join_sp_chars in Hc. destruct Hc as [[E L]|[w [Hw Hcw]]].
    - subst ch. intro Hb. assert (Hns : forall x, In x v -> is_space x = false).
      { intros x Hx. destruct (is_space x) eqn:Sx; [|reflexivity]. exfalso. apply (Hv x Hx). apply Hblank; assumption. }
      pose proof (split_no_space v [] Hns) as Len. rewrite firstn_length in L. lia.
    - apply in_firstn in Hw. destruct (split_words_chars v [] w ch Hw Hcw) as [[]|H]. apply Hv. exact H.
  Qed.

  Lemma var_value_clean : forall num vars x w v, var_value c num vars x w = Some v -> clean v.
  Proof.
    intros num vars x w v H. unfold var_value in H. destruct (str_eqb x k_num).
    - inversion H; subst. intros ch Hc Hb. destruct (fmt_num_spec (fmt_of w) num) as [_ [_ [_ [Hd _]]]].
      rewrite Forall_forall in Hd. specialize (Hd ch Hc). rewrite (Hdig ch Hb) in Hd. discriminate.
    - destruct (lookup x vars) as [v0|]; [|discriminate]. inversion H; subst. rewrite Hcs.
      assert (C0 : clean (charsub_val (Some (bad, sub)) v0)) by (intros ch Hc; apply (charsub_clean bad sub v0 ch Hsub Hc)).
      destruct w as [d|]; [apply limitf_clean|]; exact C0.
  Qed.

  Theorem spec_expand_clean : forall num vars name s, lits_clean name -> spec_expand c num vars name = Some s -> clean s.
  Proof.
    intros num vars name. induction name as [|sg name IH]; intros s Hl H; cbn [spec_expand] in H.
    - inversion H; subst. intros ch [].
    - assert (Hl' : lits_clean name) by (intros l Hin; apply Hl; right; exact Hin).
      destruct sg as [l|x w].
      + destruct (spec_expand c num vars name) as [s'|]; [|discriminate]. inversion H; subst.
        intros ch Hc. apply in_app_or in Hc. destruct Hc as [Hc|Hc]; [apply (Hl l (or_introl eq_refl)); exact Hc | apply (IH s' Hl' eq_refl); exact Hc].
      + destruct (var_value c num vars x w) as [v|] eqn:V; [|discriminate].
        destruct (spec_expand c num vars name) as [s'|]; [|discriminate]. inversion H; subst.
        intros ch Hc. apply in_app_or in Hc. destruct Hc as [Hc|Hc]; [apply (var_value_clean num vars x w v V); exact Hc | apply (IH s' Hl' eq_refl); exact Hc].
  Qed.

  Context (Hext : clean (ext c)).

  Lemma scan_clean : forall vars taken l num name rest num', Forall lits_clean l ->
    scan c vars taken num l = (Some (name, rest), num') -> clean name /\ Forall lits_clean rest.
  Proof.
    intros vars taken l. induction l as [|n l IH]; intros num name rest num' H E; cbn [scan] in E; [discriminate|].
    inversion H as [|? ? Hn H']; subst. destruct (spec_expand c num vars n) as [s|] eqn:Es.
    - cbv zeta in E. destruct (mem (add_extension (ext c) s) taken).
      + eapply IH; eassumption.
      + inversion E; subst. split; [|assumption]. unfold add_extension. pose proof (spec_expand_clean num vars n s Hn Es) as Cs.
        destruct (has_ext s); [exact Cs|]. intros ch Hc. apply in_app_or in Hc. destruct Hc as [Hc|Hc]; [apply Cs | apply Hext]; exact Hc.
    - eapply IH; eassumption.
  Qed.

  Lemma wild_try_clean : forall k vars taken num wild name num', Forall lits_clean wild ->
    wild_try c k vars taken num wild = (Some name, num') -> clean name.
  Proof.
    induction k as [|k IH]; intros vars taken num wild name num' H E; cbn [wild_try] in E; [discriminate|].
    destruct (scan c vars taken num wild) as [[[nm rest]|] n1] eqn:Es.
    - inversion E; subst. apply (scan_clean vars taken wild num name rest num' H Es).
    - eapply IH; eassumption.
  Qed.

  (* every name the reference generator ever issues is free of forbidden characters *)
  Theorem s_run_clean : forall reqs ss name,
    Forall lits_clean (s_static ss) -> Forall lits_clean (s_wild ss) ->
    In (RName name) (s_run c ss reqs) -> clean name.
  Proof.
    induction reqs as [|b reqs IH]; intros ss name Hs Hw Hin; cbn [s_run] in Hin; [destruct Hin|].
    unfold s_request in Hin. destruct (s_dead ss).
    - destruct Hin as [E|Hin]; [discriminate|]. apply (IH _ name) in Hin; assumption.
    - destruct (scan c (update (s_vars ss) b) (s_taken ss) (s_num ss) (s_static ss)) as [[[nm rest]|] n1] eqn:Es.
      + destruct (scan_clean _ _ _ _ _ _ _ Hs Es) as [Cn Hr]. destruct Hin as [E|Hin]; [inversion E; subst; exact Cn|].
        apply (IH _ name) in Hin; assumption.
      + destruct (wild_try c 101 (update (s_vars ss) b) (s_taken ss) n1 (s_wild ss)) as [[nm|] n2] eqn:Ew.
        * destruct Hin as [E|Hin]; [inversion E; subst; eapply wild_try_clean; eassumption|].
          apply (IH _ name) in Hin; [assumption | constructor | assumption].
        * destruct Hin as [E|Hin]; [discriminate|]. apply (IH _ name) in Hin; [assumption | constructor | assumption].
  Qed.
End Clean.

(* the hypothesis on white space matters: with only the blank forbidden, a value with a TAB and a word limit gets a blank back
   ("a<TAB>b" limited to 2 words is "a b") *)
Example clean_needs_whitespace_hypothesis :
  let c := {| cs := Some ([32], [45]); ext := []; legacy_reset := false; legacy_words := false; legacy_passes := false |} in
  spec_expand c 1 [([116], [97; 9; 98])] [SVar [116] (Some [50])] = Some [97; 32; 98].
Proof. vm_compute. reflexivity. Qed.

Lemma names_of_In : forall out name, In name (names_of out) <-> In (RName name) (map fst out).
Proof.
  induction out as [|[r v] out IH]; intro name; cbn [names_of map fst]; [tauto|].
  destruct r as [s| |k|]; cbn [In]; rewrite <- ?IH; split; intro H.
  - destruct H as [H|H]; [left; congruence | right; exact H].
  - destruct H as [H|H]; [left; congruence | right; exact H].
  - right. exact H.
  - destruct H as [H|H]; [discriminate | exact H].
  - right. exact H.
  - destruct H as [H|H]; [discriminate | exact H].
  - right. exact H.
  - destruct H as [H|H]; [discriminate | exact H].
Qed.

(* clean names, for the Model: every name the generator issues, in every history, is free of forbidden characters *)
Theorem model_names_clean : forall c bad sub static wild files vars0 reserved reqs name,
  legacy_reset c = false -> legacy_words c = false -> legacy_passes c = false ->
  split_files files [] = (map pr_int static, map pr_int wild) ->
  Forall name_ok static -> Forall name_ok wild -> lookup k_num vars0 = None -> Forall no_num reqs ->
  cs c = Some (bad, sub) ->
  (forall ch, In ch sub -> ~ In ch bad) -> (forall ch, In ch bad -> is_digit ch = false) ->
  (In 32 bad -> forall ch, is_space ch = true -> In ch bad) ->
  Forall (lits_clean bad) static -> Forall (lits_clean bad) wild -> clean bad (ext c) ->
  In name (names_of (fst (run c {| ph := PFresh files; vars := vars0; inval := reserved |} reqs))) -> clean bad name.
Proof.
  intros c bad sub static wild files vars0 reserved reqs name H1 H2 H3 Hsp Hs Hw Hv Hr Hcs Hsub Hdig Hbl Ls Lw He Hin.
  apply names_of_In in Hin. rewrite (model_meets_spec c static wild files vars0 reserved reqs H1 H2 H3 Hsp Hs Hw Hv Hr) in Hin.
  apply (s_run_clean c bad sub Hcs Hsub Hdig Hbl He reqs (s_init static wild vars0 reserved) name); assumption.
Qed.

(* non-vacuity: ":" and "/" forbidden, "-" the substitute, template [${t}] with extension .x: the title a:b/c gives a-b-c.x *)
Example clean_example :
  let c := {| cs := Some ([58; 47], [45]); ext := [46; 120]; legacy_reset := false; legacy_words := false; legacy_passes := false |} in
  let wild := [[SVar [116] None]] in
  ((forall ch, In ch [45] -> ~ In ch [58; 47]) /\ (forall ch, In ch [58; 47] -> is_digit ch = false) /\
   (In 32 [58; 47] -> forall ch, is_space ch = true -> In ch [58; 47]) /\ Forall (lits_clean [58; 47]) wild /\ clean [58; 47] (ext c)) /\
  s_run c (s_init [] wild [] []) [[([116], [97; 58; 98; 47; 99])]] = [RName [97; 45; 98; 45; 99; 46; 120]].
Proof.
  cbv zeta. split; [|vm_compute; reflexivity]. repeat split.
  - intros ch [E|[]] [F|[F|[]]]; subst; discriminate.
  - intros ch [E|[E|[]]]; subst; reflexivity.
  - intros [F|[F|[]]]; discriminate.
  - repeat constructor. intros l [F|[]]. discriminate.
  - intros ch [E|[E|[]]] [F|[F|[]]]; subst; discriminate.
Qed.
