From Coq Require Import List NArith ZArith Bool Lia ZifyBool Arith.
Import ListNotations.
From Verif Require Import Val Tokenizer Expand MacroSpec.
Local Open Scope N_scope.

(* ---------------------------------------------------------------------------------------------- *)
(* M1: expandDef is TeX's substitution                                                              *)

Lemma is_param_hash : is_param hash_tok = true.
Proof. reflexivity. Qed.
Lemma is_param_digit k : is_param (digit_tok k) = false.
Proof. reflexivity. Qed.
Lemma digit_of_digit k : (k <= 9)%nat -> digit_of (digit_tok k) = Some k.
Proof.
  intros Hk. unfold digit_of, digit_tok. cbn [ttext].
  assert (H1 : (48 <=? 48 + N.of_nat k) = true) by lia.
  assert (H2 : (48 + N.of_nat k <=? 57) = true) by lia.
  rewrite H1, H2. cbn [andb]. f_equal. lia.
Qed.

Lemma nth_params k (args : list (list tok)) : (1 <= k)%nat ->
  match nth k (None :: map Some args) None with Some a => a | None => [] end = nth (k - 1) args [].
Proof.
  intros Hk. destruct k as [|k]; [lia|]. cbn [nth]. replace (S k - 1)%nat with k by lia.
  revert k Hk. induction args as [|a args IH]; intros k Hk.
  - destruct k; reflexivity.
  - destruct k as [|k]; [reflexivity|]. cbn [map nth]. destruct k as [|k'].
    + destruct args; reflexivity.
    + specialize (IH (S k')). cbn [nth] in IH. apply IH. lia.
Qed.

Lemma expand_def_subst b : forall prev args,
  body_ok prev b = true ->
  expand_def (render_body b) prev (None :: map Some args) = Some (subst_body args b).
Proof.
  induction b as [|p b IH]; intros prev args Hok; [reflexivity|].
  destruct p as [t|k|].
  - cbn [body_ok] in Hok. apply andb_true_iff in Hok. destruct Hok as (Hl & Hr).
    unfold lit_ok in Hl. apply negb_true_iff in Hl.
    cbn [render_body flat_map render_piece app subst_body subst_piece expand_def]. rewrite Hl.
    fold (render_body b). fold (subst_body args b). now rewrite (IH _ _ Hr).
  - cbn [body_ok] in Hok. repeat (apply andb_true_iff in Hok; destruct Hok as (Hok & ?)).
    apply negb_true_iff in Hok. subst prev.
    match goal with H : Nat.leb 1 k = true |- _ => apply Nat.leb_le in H; rename H into H1 end.
    match goal with H : Nat.leb k 9 = true |- _ => apply Nat.leb_le in H; rename H into H9 end.
    cbn [render_body flat_map render_piece app subst_body subst_piece].
    fold (render_body b). fold (subst_body args b).
    cbn [expand_def]. rewrite is_param_hash, is_param_digit, (digit_of_digit k H9).
    match goal with H : body_ok false b = true |- _ => rewrite (IH _ _ H) end.
    now rewrite (nth_params k args H1).
  - cbn [body_ok] in Hok.
    cbn [render_body flat_map render_piece app subst_body subst_piece].
    fold (render_body b). fold (subst_body args b).
    cbn [expand_def]. rewrite !is_param_hash. now rewrite (IH _ _ Hok).
Qed.

(* the documented exception: a parameter directly after \ifx is wrapped in a group *)
Lemma expand_def_ifx_hack k args : (1 <= k <= 9)%nat ->
  expand_def (Tok CC_ESCAPE [105; 102; 120] :: render_body [PArg k]) false (None :: map Some args)
  = Some (Tok CC_ESCAPE [105; 102; 120] ::
          match nth_error args (k - 1) with Some a => bgroup_tok :: a ++ [egroup_tok] | None => [] end).
Proof.
  intros Hk. cbn [render_body flat_map render_piece app expand_def].
  change (is_param (Tok CC_ESCAPE [105; 102; 120])) with false. cbn iota.
  change (is_ifx (Tok CC_ESCAPE [105; 102; 120])) with true.
  rewrite is_param_hash, is_param_digit, (digit_of_digit k) by lia.
  destruct k as [|k]; [lia|]. cbn [nth]. replace (S k - 1)%nat with k by lia.
  f_equal. f_equal. rewrite app_nil_r.
  revert k Hk. induction args as [|a args IH]; intros k Hk.
  - destruct k; reflexivity.
  - destruct k as [|k]; [reflexivity|]. cbn [map nth nth_error].
    destruct k as [|k']; [destruct args; reflexivity|]. specialize (IH (S k')). cbn [nth] in IH. apply IH. lia.
Qed.

(* ---------------------------------------------------------------------------------------------- *)
(* readers                                                                                          *)

Lemma read_group_app a : forall d acc rest d',
  depth_after a d = Some d' -> read_group (a ++ rest) d acc = read_group rest d' (rev a ++ acc).
Proof.
  induction a as [|t a IH]; intros d acc rest d' H.
  - cbn in H. inversion H; subst. reflexivity.
  - cbn [depth_after] in H. cbn [app read_group rev]. rewrite <- app_assoc. cbn [app].
    destruct (is_bgroup t); [now apply IH|].
    destruct (is_egroup t); [destruct d as [|d0]; [discriminate | now apply IH] | now apply IH].
Qed.

Lemma is_space_bgroup : is_space bgroup_tok = false. Proof. reflexivity. Qed.

Lemma read_argument_braced a rest :
  balanced a = true -> read_argument (bgroup_tok :: a ++ egroup_tok :: rest) = (Some a, rest).
Proof.
  intros Hb. unfold read_argument. cbn [read_optional_spaces]. rewrite is_space_bgroup.
  unfold read_token. change (is_bgroup bgroup_tok) with true. cbn iota.
  unfold balanced in Hb. destruct (depth_after a O) as [[|n]|] eqn:Hd; try discriminate.
  rewrite (read_group_app a O [] (egroup_tok :: rest) O Hd).
  cbn [read_group]. change (is_bgroup egroup_tok) with false. change (is_egroup egroup_tok) with true. cbn iota.
  now rewrite app_nil_r, rev_involutive.
Qed.

Lemma read_until_spec d a : forall acc rest,
  forallb (fun t => negb (tok_eqb t d)) a = true ->
  read_until d (a ++ d :: rest) acc = (rev acc ++ a, rest).
Proof.
  induction a as [|t a IH]; intros acc rest H.
  - cbn [app read_until]. assert (Hr : tok_eqb d d = true).
    { destruct d as [k x]. unfold tok_eqb. rewrite N.eqb_refl. destruct (list_eq_dec N.eq_dec x x); [reflexivity|contradiction]. }
    rewrite Hr. now rewrite app_nil_r.
  - cbn [forallb] in H. apply andb_true_iff in H. destruct H as (Ht & Ha). apply negb_true_iff in Ht.
    cbn [app read_until]. rewrite Ht. rewrite IH by assumption. cbn [rev]. now rewrite <- app_assoc.
Qed.

(* ---------------------------------------------------------------------------------------------- *)
(* M2: matching a conforming call against its parameter text                                        *)

Lemma lits_consumed l : forall r params s,
  forallb lit_ok l = true ->
  match_pattern (l ++ r) false false params (l ++ s) = match_pattern r false false params s.
Proof.
  induction l as [|t l IH]; intros r params s H; [reflexivity|].
  cbn [forallb] in H. apply andb_true_iff in H. destruct H as (Ht & Hl).
  unfold lit_ok in Ht. apply negb_true_iff in Ht.
  cbn [app match_pattern]. rewrite Ht. cbn [tl]. now apply IH.
Qed.

(* equations of the pattern walk *)
Lemma mp_hash_digit i r pending params s : (i <= 9)%nat ->
  match_pattern (hash_tok :: digit_tok i :: r) false pending params s =
  if pending then let '(x, s') := read_argument s in match_pattern r false true (x :: params) s'
  else match_pattern r false true params s.
Proof.
  intros Hi. cbn [match_pattern]. rewrite is_param_hash.
  destruct pending.
  - destruct (read_argument s) as [x s']. cbn [match_pattern]. now rewrite (digit_of_digit i Hi).
  - cbn [match_pattern]. now rewrite (digit_of_digit i Hi).
Qed.

Lemma mp_delim d r params s : lit_ok d = true ->
  match_pattern (d :: r) false true params s =
  let '(x, s') := read_until d s [] in match_pattern r false false (Some x :: params) s'.
Proof. intros Hd. unfold lit_ok in Hd. apply negb_true_iff in Hd. cbn [match_pattern]. now rewrite Hd. Qed.

Definition pend_stream (p : option (list tok)) : list tok := match p with Some a => bgroup_tok :: a ++ [egroup_tok] | None => [] end.
Definition pend_list (p : option (list tok)) : list (option (list tok)) := match p with Some a => [Some a] | None => [] end.
Definition pend_flag (p : option (list tok)) : bool := match p with Some _ => true | None => false end.
Definition pend_ok (p : option (list tok)) : bool := match p with Some a => balanced a | None => true end.

Lemma match_params l : forall i args params pend rest,
  call_ok l args = true -> pend_ok pend = true -> (i + length l <= 10)%nat ->
  match_pattern (render_params i l) false (pend_flag pend) params (pend_stream pend ++ render_args l args ++ rest) =
  MOk (rev params ++ pend_list pend ++ map Some args) rest.
Proof.
  induction l as [|k l IH]; intros i args params pend rest Hok Hp Hi.
  - destruct args; [|discriminate]. cbn [render_params render_args app map]. rewrite app_nil_r.
    destruct pend as [a0|]; cbn [pend_flag pend_stream pend_list match_pattern].
    + cbn [pend_ok] in Hp. change ((bgroup_tok :: a0 ++ [egroup_tok]) ++ rest) with (bgroup_tok :: (a0 ++ [egroup_tok]) ++ rest).
      rewrite <- app_assoc. cbn [app]. rewrite (read_argument_braced a0 rest Hp). cbn [rev]. reflexivity.
    + now rewrite app_nil_r.
  - destruct args as [|a args]; [destruct k; discriminate|].
    cbn [length] in Hi. cbn [render_params]. rewrite mp_hash_digit by lia.
    (* the pending undelimited argument, if any, is read at this '#' *)
    assert (Hstep : forall r' tail,
              (if pend_flag pend then let '(x, s') := read_argument (pend_stream pend ++ tail) in match_pattern r' false true (x :: params) s'
               else match_pattern r' false true params (pend_stream pend ++ tail)) =
              match_pattern r' false true (pend_list pend ++ params) tail).
    { intros r' tail. destruct pend as [a0|]; cbn [pend_flag pend_stream pend_list app]; [|reflexivity].
      cbn [pend_ok] in Hp. rewrite <- app_assoc. cbn [app]. now rewrite (read_argument_braced a0 tail Hp). }
    rewrite Hstep. clear Hstep.
    assert (Hrev : forall tl, rev (pend_list pend ++ params) ++ tl = rev params ++ pend_list pend ++ tl).
    { intros tl. destruct pend; cbn [pend_list app rev]; [now rewrite <- app_assoc | reflexivity]. }
    destruct k as [|d more].
    + cbn [call_ok] in Hok. apply andb_true_iff in Hok. destruct Hok as (Hb & Hok).
      cbn [delim app render_args].
      assert (E : (bgroup_tok :: a ++ egroup_tok :: render_args l args) ++ rest = pend_stream (Some a) ++ render_args l args ++ rest).
      { cbn [pend_stream app]. rewrite <- !app_assoc. reflexivity. }
      change (bgroup_tok :: (a ++ egroup_tok :: render_args l args) ++ rest) with ((bgroup_tok :: a ++ egroup_tok :: render_args l args) ++ rest).
      rewrite E. change true with (pend_flag (Some a)).
      rewrite (IH (S i) args (pend_list pend ++ params) (Some a) rest Hok) by (assumption || lia).
      cbn [pend_list map app]. rewrite Hrev. reflexivity.
    + cbn [call_ok] in Hok. repeat (apply andb_true_iff in Hok; destruct Hok as (Hok & ?)).
      cbn [delim render_args]. rewrite <- !app_comm_cons. rewrite mp_delim by assumption.
      rewrite <- !app_assoc. cbn [app].
      match goal with H : forallb (fun t => negb (tok_eqb t d)) a = true |- _ => rewrite (read_until_spec d a [] _ H) end.
      cbn [rev app]. rewrite <- ?app_assoc.
      match goal with H : forallb lit_ok more = true |- _ => rewrite (lits_consumed more _ _ _ H) end.
      change false with (pend_flag None) at 2. change (render_args l args ++ rest) with (pend_stream None ++ render_args l args ++ rest).
      match goal with H : call_ok l args = true |- _ => rewrite (IH (S i) args (Some a :: pend_list pend ++ params) None rest H) by (reflexivity || lia) end.
      cbn [pend_list map app rev]. rewrite <- app_assoc. cbn [app]. rewrite Hrev. reflexivity.
Qed.

Lemma match_roundtrip p args rest :
  pattern_ok p = true -> call_ok (ps p) args = true ->
  match_pattern (render_pattern p) false false [None] (render_call p args ++ rest) = MOk (None :: map Some args) rest.
Proof.
  intros Hp Hc. unfold pattern_ok in Hp. apply andb_true_iff in Hp. destruct Hp as (Hpre & Hn). apply Nat.leb_le in Hn.
  unfold render_pattern, render_call. rewrite <- app_assoc. rewrite (lits_consumed (pre p) _ _ _ Hpre).
  change false with (pend_flag None) at 2. change (render_args (ps p) args ++ rest) with (pend_stream None ++ render_args (ps p) args ++ rest).
  rewrite (match_params (ps p) 1 args [None] None rest Hc) by (reflexivity || lia).
  reflexivity.
Qed.

(* M1 + M2: a \def macro applied to a conforming call yields the body with each #k replaced by the k-th argument, followed by
   exactly the text that followed the call *)
Lemma definition_invoke_spec p b args rest :
  pattern_ok p = true -> call_ok (ps p) args = true -> body_ok false b = true -> render_pattern p <> [] ->
  definition_invoke (render_pattern p) (render_body b) (render_call p args ++ rest) = Some (subst_body args b ++ rest).
Proof.
  intros Hp Hc Hb Hne. unfold definition_invoke. destruct (render_pattern p) eqn:E; [contradiction|]. rewrite <- E.
  rewrite (match_roundtrip p args rest Hp Hc). now rewrite (expand_def_subst b false args Hb).
Qed.

Lemma definition_invoke_noargs b rest : definition_invoke [] b rest = Some (b ++ rest).
Proof. reflexivity. Qed.

(* ---------------------------------------------------------------------------------------------- *)
(* M3: \newcommand with and without optional argument                                               *)

Fixpoint render_braced (args : list (list tok)) : list tok :=
  match args with [] => [] | a :: r => bgroup_tok :: a ++ egroup_tok :: render_braced r end.

Lemma read_n_braced args : forall acc rest,
  forallb balanced args = true ->
  read_n_arguments (length args) (render_braced args ++ rest) acc = (rev acc ++ map Some args, rest).
Proof.
  induction args as [|a args IH]; intros acc rest H.
  - cbn. now rewrite app_nil_r.
  - cbn [forallb] in H. apply andb_true_iff in H. destruct H as (Ha & Hr).
    cbn [length read_n_arguments render_braced]. rewrite <- app_comm_cons, <- app_assoc. cbn [app].
    rewrite (read_argument_braced a _ Ha). rewrite IH by assumption. cbn [rev map]. now rewrite <- app_assoc.
Qed.

Lemma newcommand_no_optional b args rest :
  forallb balanced args = true -> body_ok false b = true ->
  newcommand_invoke (length args) None (render_body b) (render_braced args ++ rest) = Some (subst_body args b ++ rest).
Proof.
  intros Ha Hb. unfold newcommand_invoke. rewrite (read_n_braced args [] rest Ha). cbn [rev app].
  now rewrite (expand_def_subst b false args Hb).
Qed.

(* bracket balance for the optional argument: nesting is counted on [ and ] only *)
Fixpoint bdepth_after (l : list tok) (d : nat) : option nat :=
  match l with
  | [] => Some d
  | t :: r => if text_is 91 t then bdepth_after r (S d)
              else if text_is 93 t then match d with O => None | S d' => bdepth_after r d' end
              else bdepth_after r d
  end.
Definition bracket_balanced (l : list tok) : bool := match bdepth_after l O with Some O => true | _ => false end.
Definition lbracket : tok := Tok CC_OTHER [91].
Definition rbracket : tok := Tok CC_OTHER [93].

Lemma read_bracket_app a : forall d acc rest d',
  bdepth_after a d = Some d' -> read_bracket 91 93 (a ++ rest) d acc = read_bracket 91 93 rest d' (rev a ++ acc).
Proof.
  induction a as [|t a IH]; intros d acc rest d' H.
  - cbn in H. inversion H; subst. reflexivity.
  - cbn [bdepth_after] in H. cbn [app read_bracket rev]. rewrite <- app_assoc. cbn [app].
    destruct (text_is 91 t); [now apply IH|].
    destruct (text_is 93 t); [destruct d as [|d0]; [discriminate | now apply IH] | now apply IH].
Qed.

Lemma read_optional_present o rest :
  bracket_balanced o = true -> read_optional (lbracket :: o ++ rbracket :: rest) = (Some o, rest).
Proof.
  intros Hb. unfold read_optional. cbn [read_optional_spaces]. change (is_space lbracket) with false. cbn iota.
  unfold read_grouping. change (text_is 91 lbracket) with true. cbn iota.
  unfold bracket_balanced in Hb. destruct (bdepth_after o O) as [[|n]|] eqn:Hd; try discriminate.
  rewrite (read_bracket_app o O [] (rbracket :: rest) O Hd). cbn [read_bracket].
  change (text_is 91 rbracket) with false. change (text_is 93 rbracket) with true. cbn iota.
  now rewrite app_nil_r, rev_involutive.
Qed.

Lemma read_optional_absent rest :
  read_optional (bgroup_tok :: rest) = (None, bgroup_tok :: rest).
Proof. reflexivity. Qed.

Lemma newcommand_optional_present b o d args rest :
  bracket_balanced o = true -> forallb balanced args = true -> body_ok false b = true ->
  newcommand_invoke (S (length args)) (Some d) (render_body b) (lbracket :: o ++ rbracket :: render_braced args ++ rest)
  = Some (subst_body (o :: args) b ++ rest).
Proof.
  intros Ho Ha Hb. unfold newcommand_invoke. rewrite (read_optional_present o _ Ho). cbn [pred].
  rewrite (read_n_braced args [] rest Ha). cbn [rev app].
  change (Some o :: map Some args) with (map Some (o :: args)).
  now rewrite (expand_def_subst b false (o :: args) Hb).
Qed.

(* absent optional argument: the default is used, and the text that follows is untouched *)
Lemma newcommand_optional_absent b d a args rest :
  forallb balanced (a :: args) = true -> body_ok false b = true ->
  newcommand_invoke (S (length (a :: args))) (Some d) (render_body b) (render_braced (a :: args) ++ rest)
  = Some (subst_body (d :: a :: args) b ++ rest).
Proof.
  intros Ha Hb. unfold newcommand_invoke. cbn [render_braced]. rewrite <- app_comm_cons. rewrite read_optional_absent. cbn [pred].
  change (bgroup_tok :: (a ++ egroup_tok :: render_braced args) ++ rest) with (render_braced (a :: args) ++ rest).
  rewrite (read_n_braced (a :: args) [] rest Ha). cbn [rev app].
  change (Some d :: map Some (a :: args)) with (map Some (d :: a :: args)).
  now rewrite (expand_def_subst b false (d :: a :: args) Hb).
Qed.
