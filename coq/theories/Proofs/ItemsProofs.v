(* C08 -- M5 in general form: in ANY document of the strict domain (all constructs, arbitrary order and nesting, itemize and
   enumerate mixed) that does not assign to a list counter explicitly, the items of every enumerate count 1, 2, 3, ... within
   their list and start again in every nested list. *)
From Coq Require Import List ZArith Bool Lia.
Import ListNotations.
From Verif Require Import Val CounterSyntax FormatParse ClassCounters Counters NumberingSpec CountersProofs FormatParseProofs NumberingProofs.
Local Open Scope Z_scope.

(* what a reader expects, from the list structure alone: one running count per open list, a new list starts at 0;
   Some k = the k-th item of an enumerate, None = an item of another kind of list (or outside any list) *)
Fixpoint expected_items (es : list event) (st : list (bool * Z)) : list (option Z) :=
  match es with
  | [] => []
  | EBeginList b :: r => expected_items r ((b, 0) :: st)
  | EEndList :: r => expected_items r (tl st)
  | EItem :: r =>
      match st with
      | (true, c) :: s => Some (c + 1) :: expected_items r ((true, c + 1) :: s)
      | _ => None :: expected_items r st
      end
  | _ :: r => expected_items r st
  end.

(* explicit operations on the list counters are excluded here (they legitimately change the numbering) *)
Definition no_enum_op (e : event) : bool :=
  match e with
  | ESet c _ | EAddTo c _ | EStep c => negb (is_enum c)
  | _ => true
  end.

(* the refs of the item observations, in order *)
Fixpoint item_refs (o : list out) : list (option str) :=
  match o with
  | [] => []
  | (k, r) :: o' => if k =? k_bullet then None :: item_refs o' else if k =? k_item then r :: item_refs o' else item_refs o'
  end.

Definition item_ok (e : option Z) (r : option str) : Prop :=
  match e with Some k => r = Some (arabic k) | None => True end.

Lemma item_refs_app : forall a b, item_refs (a ++ b) = item_refs a ++ item_refs b.
Proof.
  induction a as [|[k r] a IH]; intro b; [reflexivity|]. cbn [app item_refs].
  destruct (k =? k_bullet); [cbn [app]; f_equal; apply IH|]. destruct (k =? k_item); [cbn [app]; f_equal|]; apply IH.
Qed.

Fixpoint cstack_rel (vals : list (name * Z)) (st : list (bool * Z)) : Prop :=
  match st with
  | [] => True
  | (b, c) :: r => (b = true -> sval (enum_nth (count_true (map fst st))) vals = c) /\ cstack_rel vals r
  end.

Lemma cstack_rel_ext : forall vals vals' st,
  (forall j, (1 <= j <= count_true (map fst st))%nat -> sval (enum_nth j) vals' = sval (enum_nth j) vals) ->
  cstack_rel vals st -> cstack_rel vals' st.
Proof.
  induction st as [|[b c] r IH]; intros H HR; [exact I|]. cbn [cstack_rel] in *. destruct HR as [H1 H2]. split.
  - intro Hb. rewrite H; [apply H1; exact Hb|]. subst b. unfold count_true. cbn [map fst filter length]. lia.
  - apply IH; [|exact H2]. intros j Hj. apply H. unfold count_true in *. cbn [map fst filter]. destruct b; cbn [length]; lia.
Qed.

Definition Wok (W : list (name * name)) : Prop := forall d p, In (d, p) W -> is_enum d = false.

Lemma spec_step_frame : forall W vals c n, Wok W -> is_enum c = false -> is_enum n = true ->
  sval n (spec_step c W vals) = sval n vals.
Proof.
  intros W vals c n HW Hc Hn. unfold sval. rewrite spec_step_lookup. destruct (lookup_name n vals) as [v|]; [|reflexivity].
  assert (X : name_eqb n c = false) by (apply name_eqb_neq; intro; subst; congruence). rewrite X.
  cbn [is_within]. destruct (lookup_name n W) as [p|] eqn:E; [|reflexivity].
  apply lookup_name_in in E. apply HW in E. congruence.
Qed.

Lemma spec_set_frame : forall c v vals n, is_enum c = false -> is_enum n = true -> sval n (spec_set c v vals) = sval n vals.
Proof. intros c v vals n Hc Hn. unfold sval. rewrite spec_set_other; [reflexivity|]. intro; subst; congruence. Qed.

(* an event that is not a list event: the open lists and the list counters are as before, no item is printed *)
Definition frame (ss ss' : sstate) (o : list out) : Prop :=
  s_lists ss' = s_lists ss /\ (forall n, is_enum n = true -> sval n (s_vals ss') = sval n (s_vals ss)) /\ item_refs o = [].

Lemma obj_frame : forall ss kind c ss' o, Wok (s_within ss) -> is_enum c = false -> kind <> k_item -> kind <> k_bullet ->
  spec_obj true kind c ss = Some (ss', o) -> frame ss ss' o.
Proof.
  intros ss kind c ss' o HW Hc Hk1 Hk2 H. unfold spec_obj in H. destruct (lookup_name c (s_vals ss)); [|discriminate].
  destruct (the_in true _ c); [|discriminate]. injection H as <- <-. split; [reflexivity|]. split.
  - intros n Hn. cbn [with_vals s_vals]. apply spec_step_frame; assumption.
  - cbn [item_refs]. apply Z.eqb_neq in Hk1. apply Z.eqb_neq in Hk2. rewrite Hk1, Hk2. reflexivity.
Qed.

Lemma rows_frame : forall rows ss acc ss' o, Wok (s_within ss) -> item_refs acc = [] ->
  spec_rows true rows ss acc = Some (ss', o) ->
  s_lists ss' = s_lists ss /\ (forall n, is_enum n = true -> sval n (s_vals ss') = sval n (s_vals ss)) /\ item_refs o = [].
Proof.
  induction rows as [|b rows IH]; intros ss acc ss' o HW Hacc H; cbn [spec_rows] in H.
  - destruct (lookup_name n_equation (s_vals ss)) as [v|]; [|discriminate]. injection H as <- <-.
    split; [reflexivity|]. split; [|exact Hacc]. intros n Hn. cbn [with_vals s_vals]. apply spec_set_frame; [reflexivity | exact Hn].
  - destruct b.
    + destruct (true && negb match the_in true ss n_equation with Some _ => true | None => false end); [discriminate|].
      apply (IH ss (acc ++ [(k_row, None)]) ss' o HW); [rewrite item_refs_app, Hacc; reflexivity | exact H].
    + destruct (the_in true ss n_equation) as [t|]; [|discriminate].
      assert (Hacc' : item_refs (acc ++ [(k_row, Some t)]) = []) by (rewrite item_refs_app, Hacc; reflexivity).
      destruct (IH (with_vals ss (spec_step n_equation (s_within ss) (s_vals ss))) (acc ++ [(k_row, Some t)]) ss' o HW Hacc' H) as (H1 & H2 & H3).
      split; [exact H1|]. split; [|exact H3]. intros n Hn. rewrite (H2 n Hn). cbn [with_vals s_vals].
      apply spec_step_frame; [exact HW | reflexivity | exact Hn].
Qed.

Definition is_list_event (e : event) : bool := match e with EBeginList _ | EEndList | EItem => true | _ => false end.

Lemma sim_Wok : forall cls ms ss, sim cls ms ss -> Wok (s_within ss).
Proof. intros cls ms ss Sm d p Hin. destruct (sim_w _ _ _ Sm d p Hin) as (_ & _ & H & _). exact H. Qed.

Lemma snoc_frame : forall cls ms ss nm n, sim cls ms ss -> is_enum n = true -> sval n (s_vals ss ++ [(nm, 0)]) = sval n (s_vals ss).
Proof.
  intros cls ms ss nm n Sm Hn. unfold sval. rewrite lookup_name_app.
  destruct (lookup_name_some _ n (s_vals ss)) as (v & E); [apply (sim_enum_dom _ _ _ Sm); apply is_enum_In; exact Hn|]. rewrite E. reflexivity.
Qed.

Lemma event_frame : forall cls depth e ms ss ss' o, (cls = 0 \/ cls = 1) -> sim cls ms ss ->
  is_list_event e = false -> no_enum_op e = true -> spec_event true cls depth e ss = Some (ss', o) -> frame ss ss' o.
Proof.
  intros cls depth e ms ss ss' o Hc Sm Hl Hn H. pose proof (sim_Wok _ _ _ Sm) as HW.
  assert (Fid : forall k r, k <> k_item -> k <> k_bullet -> frame ss ss [(k, r)]).
  { intros k r H1 H2. split; [reflexivity|]. split; [reflexivity|]. cbn [item_refs]. apply Z.eqb_neq in H1. apply Z.eqb_neq in H2. rewrite H1, H2. reflexivity. }
  destruct e; try discriminate Hl; cbn [spec_event] in H.
  - (* ESec *)
    destruct (lookup_name macro (spec_sec_table cls)) as [[level c]|] eqn:El; [|discriminate].
    destruct (sec_table_agree _ _ _ _ Hc El) as (_ & _ & _ & _ & He).
    destruct (starred || (depth <? level)); [injection H as <- <-; apply Fid; discriminate | eapply obj_frame; eauto; discriminate].
  - eapply obj_frame; eauto; try discriminate. reflexivity.
  - (* EEqnarray *)
    destruct rows as [|b rows]; [discriminate|]. destruct (lookup_name n_equation (s_vals ss)); [|discriminate].
    destruct (rows_frame (b :: rows) (with_vals ss (spec_step n_equation (s_within ss) (s_vals ss))) [] ss' o HW eq_refl H) as (H1 & H2 & H3).
    split; [exact H1|]. split; [|exact H3]. intros n Hn'. rewrite (H2 n Hn'). cbn [with_vals s_vals].
    apply spec_step_frame; [exact HW | reflexivity | exact Hn'].
  - injection H as <- <-. split; [reflexivity|]. split; reflexivity.
  - eapply obj_frame; eauto; try discriminate. destruct table; reflexivity.
  - (* EThm *)
    destruct (lookup_name env (s_envs ss)) as [[c|]|] eqn:El; [| |discriminate].
    + apply lookup_name_in in El. destruct (sim_envs_dom _ _ _ Sm env c El) as [_ He]. eapply obj_frame; eauto; discriminate.
    + injection H as <- <-. apply Fid; discriminate.
  - (* ENewTheorem *)
    destruct (negb (fresh_name nm ss)); [discriminate|].
    destruct shared as [c|]; destruct within as [w|]; destruct starred; try discriminate;
      repeat match type of H with (if ?b then _ else _) = _ => destruct b; [|discriminate] end;
      injection H as <- <-; (split; [reflexivity|]; split; [|reflexivity]); intros n Hn'; cbn [s_vals]; try reflexivity;
      apply (snoc_frame cls ms ss nm n Sm Hn').
  - (* ENewCounter *)
    destruct (negb (fresh_name nm ss)); [discriminate|].
    destruct within as [w|]; repeat match type of H with (if ?b then _ else _) = _ => destruct b; [|discriminate] end;
      injection H as <- <-; (split; [reflexivity|]; split; [|reflexivity]); intros n Hn'; cbn [s_vals];
      apply (snoc_frame cls ms ss nm n Sm Hn').
  - (* ESet *)
    cbn [no_enum_op] in Hn. apply negb_true_iff in Hn.
    destruct (lookup_name c (s_vals ss)); [|discriminate]. destruct (enum_ok c (s_lists ss) || enum_unused c (s_lists ss)); [|discriminate].
    injection H as <- <-. split; [reflexivity|]. split; [|reflexivity]. intros n Hn'. cbn [with_vals s_vals]. apply spec_set_frame; assumption.
  - cbn [no_enum_op] in Hn. apply negb_true_iff in Hn.
    destruct (lookup_name c (s_vals ss)); [|discriminate]. destruct (enum_ok c (s_lists ss) || enum_unused c (s_lists ss)); [|discriminate].
    injection H as <- <-. split; [reflexivity|]. split; [|reflexivity]. intros n Hn'. cbn [with_vals s_vals]. apply spec_set_frame; assumption.
  - cbn [no_enum_op] in Hn. apply negb_true_iff in Hn.
    destruct (lookup_name c (s_vals ss)); [|discriminate]. destruct (enum_index c); [discriminate|].
    injection H as <- <-. split; [reflexivity|]. split; [|reflexivity]. intros n Hn'. cbn [with_vals s_vals]. apply spec_step_frame; assumption.
  - (* EAppendix *)
    destruct Hc as [-> | ->]; cbn [Z.eqb] in H; injection H as <- <-; (split; [reflexivity|]; split; [|reflexivity]);
      intros n Hn'; cbn [s_vals fold_left]; rewrite !spec_set_frame by (reflexivity || exact Hn'); reflexivity.
  - (* EPrint *)
    destruct (lookup_name c (s_vals ss)); [|discriminate]. destruct (enum_ok c (s_lists ss)); [|discriminate].
    destruct (match r with Some r' => spec_repr r' z | None => the_in true ss c end); [|discriminate].
    injection H as <- <-. apply Fid; discriminate.
Qed.

Lemma expected_skip : forall e es st, is_list_event e = false -> expected_items (e :: es) st = expected_items es st.
Proof. intros e es st H. destruct e; try discriminate H; reflexivity. Qed.

Lemma count_true_le4 : forall cls ms ss (st : list (bool * Z)), sim cls ms ss -> s_lists ss = map fst st -> (count_true (map fst st) <= 4)%nat.
Proof.
  intros cls ms ss st Sm Hst. pose proof (sim_depth4 _ _ _ Sm) as H4. rewrite Hst in H4. pose proof (count_true_le (map fst st)). lia.
Qed.

Lemma items_spec : forall cls depth, (cls = 0 \/ cls = 1) -> dmin cls <= depth ->
  forall es ms ss st acc ss1 o,
    sim cls ms ss -> s_lists ss = map fst st -> cstack_rel (s_vals ss) st -> forallb no_enum_op es = true ->
    spec_events true cls depth es ss acc = Some (ss1, o) ->
    exists o', o = acc ++ o' /\ Forall2 item_ok (expected_items es st) (item_refs o').
Proof.
  intros cls depth Hc Hd. induction es as [|e es IH]; intros ms ss st acc ss1 o Sm Hst HR Hno Hs.
  - cbn in Hs. injection Hs as <- <-. exists []. rewrite app_nil_r. split; [reflexivity | constructor].
  - cbn [spec_events] in Hs. destruct (spec_event true cls depth e ss) as [[ss' oe]|] eqn:Ee; [|discriminate].
    cbn [forallb] in Hno. apply andb_true_iff in Hno. destruct Hno as [Hne Hno].
    destruct (all_events_sim cls depth Hc Hd e ms ss ss' oe Sm Ee) as (ms' & mo & _ & _ & Sm').
    pose proof (count_true_le4 _ _ _ _ Sm Hst) as Hct.
    destruct (is_list_event e) eqn:El.
    + destruct e; try discriminate El; cbn [spec_event] in Ee.
      * (* \begin{list} *)
        destruct (Nat.leb (length (enumerate :: s_lists ss)) 4 && Nat.leb (count_true (enumerate :: s_lists ss)) 4 &&
                  Nat.leb (length (enumerate :: s_lists ss) - count_true (enumerate :: s_lists ss)) 4) eqn:Eb; [|discriminate].
        injection Ee as <- <-.
        assert (Hst' : s_lists (mkss (if enumerate then match nth_error enum_names (count_true (enumerate :: s_lists ss) - 1) with
                                                         | Some c => spec_set c 0 (s_vals ss) | None => s_vals ss end else s_vals ss)
                                      (s_within ss) (s_the ss) (s_envs ss) (enumerate :: s_lists ss)) = map fst ((enumerate, 0) :: st))
          by (cbn [s_lists map fst]; rewrite Hst; reflexivity).
        destruct (IH ms' _ ((enumerate, 0) :: st) (acc ++ []) ss1 o Sm' Hst') as (o' & Eo & Ho); [|exact Hno|exact Hs|].
        { cbn [s_vals cstack_rel map fst]. rewrite Hst.
          apply andb_true_iff in Eb. destruct Eb as [Eb _]. apply andb_true_iff in Eb. destruct Eb as [_ Eb]. apply Nat.leb_le in Eb. rewrite Hst in Eb.
          destruct enumerate.
          - set (e' := count_true (true :: map fst st)) in *.
            assert (He1 : e' = Datatypes.S (count_true (map fst st))) by (unfold e', count_true; cbn [filter length]; reflexivity).
            rewrite (nth_error_enum e') by lia. split.
            + intros _. unfold sval. rewrite spec_set_same; [reflexivity|]. apply (sim_enum_dom _ _ _ Sm). apply enum_nth_In. lia.
            + eapply cstack_rel_ext; [|exact HR]. intros j Hj. unfold sval. rewrite spec_set_other; [reflexivity|].
              intro X. apply enum_nth_inj in X; lia.
          - split; [discriminate | exact HR]. }
        exists o'. rewrite app_nil_r in Eo. split; [exact Eo | exact Ho].
      * (* \end{list} *)
        destruct (s_lists ss) as [|b rest] eqn:E2; [discriminate|]. injection Ee as <- <-.
        destruct st as [|[b' c] st']; [discriminate|]. cbn [map fst] in Hst. injection Hst as -> Hst.
        cbn [cstack_rel] in HR. destruct HR as [_ HR].
        destruct (IH ms' _ st' (acc ++ []) ss1 o Sm' Hst HR Hno Hs) as (o' & Eo & Ho).
        exists o'. rewrite app_nil_r in Eo. split; [exact Eo | exact Ho].
      * (* \item *)
        destruct (s_lists ss) as [|b rest] eqn:E2; [discriminate|].
        destruct st as [|[b' c] st']; [discriminate|]. cbn [map fst] in Hst. injection Hst as -> Hst.
        destruct b'.
        -- (* of an enumerate *)
           set (e' := count_true (true :: rest)) in *.
           assert (He' : (1 <= e' <= 4)%nat).
           { pose proof (count_true_pos rest). cbn [map fst] in Hct. rewrite <- Hst in Hct. fold e' in Hct. unfold e'. lia. }
           rewrite (nth_error_enum e' He') in Ee.
           cbn [cstack_rel map fst] in HR. rewrite <- Hst in HR. fold e' in HR. destruct HR as [Hhead Htail]. specialize (Hhead eq_refl).
           assert (Hdom : In (enum_nth e') (dom ss)) by (apply (sim_enum_dom _ _ _ Sm); apply enum_nth_In; exact He').
           destruct (lookup_name_some _ _ (s_vals ss) Hdom) as (v & Ev).
           assert (v = c) by (unfold sval in Hhead; rewrite Ev in Hhead; exact Hhead). subst v.
           assert (Ev' : lookup_name (enum_nth e') (spec_step (enum_nth e') (s_within ss) (s_vals ss)) = Some (c + 1)).
           { rewrite (spec_step_enum cls ms ss _ _ Sm (enum_nth_enum e' He')), Ev, name_eqb_refl. reflexivity. }
           unfold spec_obj in Ee. rewrite Ev in Ee.
           rewrite (enum_the_vals cls ms ss _ _ _ Sm (enum_nth_enum e' He') Ev') in Ee. injection Ee as <- <-.
           destruct (IH ms' _ ((true, c + 1) :: st') (acc ++ [(k_item, Some (arabic (c + 1)))]) ss1 o Sm') as (o' & Eo & Ho); [| |exact Hno|exact Hs|].
           ++ cbn [with_vals s_lists map fst]. rewrite E2, Hst. reflexivity.
           ++ cbn [cstack_rel map fst with_vals s_vals]. rewrite <- Hst. fold e'. split.
              ** intros _. unfold sval. rewrite Ev'. reflexivity.
              ** eapply cstack_rel_ext; [|exact Htail]. intros j Hj. unfold sval.
                 rewrite (spec_step_enum cls ms ss _ _ Sm (enum_nth_enum e' He')).
                 destruct (lookup_name (enum_nth j) (s_vals ss)); [|reflexivity].
                 assert (X : name_eqb (enum_nth j) (enum_nth e') = false).
                 { apply name_eqb_neq. intro X. rewrite <- Hst in Hj. unfold e', count_true in *. cbn [filter length] in *.
                   apply enum_nth_inj in X; lia. }
                 rewrite X. reflexivity.
           ++ exists ((k_item, Some (arabic (c + 1))) :: o'). split; [rewrite Eo, <- app_assoc; reflexivity|].
              cbn [expected_items item_refs]. change (k_item =? k_bullet) with false. change (k_item =? k_item) with true. cbv iota.
              constructor; [reflexivity | exact Ho].
        -- (* of another kind of list: no number *)
           injection Ee as <- <-.
           destruct (IH ms' ss ((false, c) :: st') (acc ++ [(k_bullet, None)]) ss1 o Sm') as (o' & Eo & Ho); [| |exact Hno|exact Hs|].
           ++ rewrite E2, Hst. reflexivity.
           ++ exact HR.
           ++ exists ((k_bullet, None) :: o'). split; [rewrite Eo, <- app_assoc; reflexivity|].
              cbn [expected_items item_refs]. change (k_bullet =? k_bullet) with true. cbv iota. constructor; [exact I | exact Ho].
    + (* any other event: lists and list counters untouched *)
      destruct (event_frame cls depth e ms ss ss' oe Hc Sm El Hne Ee) as (F1 & F2 & F3).
      destruct (IH ms' ss' st (acc ++ oe) ss1 o Sm') as (o' & Eo & Ho); [rewrite F1; exact Hst | | exact Hno | exact Hs |].
      * eapply cstack_rel_ext; [|exact HR]. intros j Hj. apply F2. apply enum_nth_enum. lia.
      * exists (oe ++ o'). split; [rewrite Eo, <- app_assoc; reflexivity|].
        rewrite item_refs_app, F3, (expected_skip e es st El). exact Ho.
Qed.

Lemma items_transfer : forall s m exp, outs_agree s m = true -> Forall2 item_ok exp (item_refs s) -> Forall2 item_ok exp (item_refs m).
Proof.
  induction s as [|[ks rs] s IH]; intros [|[km rm] m] exp Ha H; cbn [outs_agree] in Ha; try discriminate; [exact H|].
  apply andb_true_iff in Ha. destruct Ha as [H1 H2]. cbn [item_refs] in *.
  destruct (ks =? k_bullet) eqn:Eb.
  - apply Z.eqb_eq in H1. subst km. change (k_item =? k_bullet) with false. change (k_item =? k_item) with true. cbv iota.
    inversion H as [|e r exp' refs' He Hrest]; subst. constructor; [|apply IH; assumption].
    destruct e as [k|]; [cbn in He; discriminate | exact I].
  - apply andb_true_iff in H1. destruct H1 as [H1 H3]. apply Z.eqb_eq in H1. subst km. rewrite Eb.
    assert (rs = rm).
    { destruct rs, rm; cbn in H3; try discriminate; [apply str_eqb_eq in H3; congruence | reflexivity]. }
    subst rm. destruct (ks =? k_item).
    + inversion H as [|e r exp' refs' He Hrest]; subst. constructor; [exact He | apply IH; assumption].
    + apply IH; assumption.
Qed.

(* M5, general form.  Any document of the strict domain -- all constructs, any order and nesting, itemize and enumerate mixed --
   without explicit operations on enumi..enumiv: plasTeX's item numbers are, in document order, what the list structure alone
   prescribes: the k-th item of every enumerate carries k, and a nested list starts again from 1. *)
Theorem enumerate_items_general : forall cls depth es ss souts,
  spec_doc true cls depth es = Some (ss, souts) -> forallb no_enum_op es = true ->
  exists ms mo, number_doc cls depth es = Ok (ms, mo) /\ Forall2 item_ok (expected_items es []) (item_refs mo).
Proof.
  intros cls depth es ss souts Hs Hno.
  destruct (number_doc_spec_partial cls depth es ss souts Hs) as (ms & mo & Em & Ho & _).
  exists ms, mo. split; [exact Em|]. apply (items_transfer souts mo _ Ho).
  unfold spec_doc in Hs. destruct (spec_init cls) as [ss0|] eqn:Ei; [|discriminate].
  destruct ((if cls =? 0 then 0 else -1) <=? depth) eqn:Ed; [|discriminate]. apply Z.leb_le in Ed.
  assert (Hc : cls = 0 \/ cls = 1).
  { unfold spec_init in Ei. destruct (cls =? 0) eqn:E0; [left; apply Z.eqb_eq; exact E0|].
    destruct (cls =? 1) eqn:E1; [right; apply Z.eqb_eq; exact E1 | discriminate]. }
  assert (Hl0 : s_lists ss0 = map fst ([] : list (bool * Z))).
  { unfold spec_init in Ei. destruct Hc as [-> | ->]; cbn [Z.eqb] in Ei; injection Ei as <-; reflexivity. }
  destruct (items_spec cls depth Hc Ed es (init_state cls) ss0 [] [] ss souts (init_sim cls ss0 Ei) Hl0 I Hno Hs) as (o' & Eo & H).
  cbn [app] in Eo. subst o'. exact H.
Qed.
