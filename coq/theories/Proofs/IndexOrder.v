(* Proofs about Model/Index.v (property C18). *)
From Coq Require Import List ZArith Bool Arith Lia Permutation Sorted.
Import ListNotations.
From Verif Require Import Val Index.
Local Open Scope Z_scope.

(* ================================================================================================ *)
(* A. equality tests reflect equality; strict total orders; lexicographic and pair orders           *)

Lemma list_eqb_spec {A} (eqb : A -> A -> bool) (H : forall x y, eqb x y = true <-> x = y) :
  forall a b, list_eqb eqb a b = true <-> a = b.
Proof.
  induction a as [|x a IH]; destruct b as [|y b]; simpl; split; intro E; try discriminate; auto.
  - apply andb_true_iff in E. destruct E as [E1 E2]. apply H in E1. apply IH in E2. subst. reflexivity.
  - inversion E; subst. apply andb_true_iff. split; [apply H; reflexivity | apply IH; reflexivity].
Qed.

Lemma str_eqb_eq a b : str_eqb a b = true <-> a = b.
Proof. apply list_eqb_spec. apply Z.eqb_eq. Qed.
Lemma tok_eqb_eq a b : tok_eqb a b = true <-> a = b.
Proof.
  destruct a as [c s], b as [c' s']. unfold tok_eqb. simpl. rewrite andb_true_iff, Z.eqb_eq, str_eqb_eq.
  split; [intros [E1 E2]; subst; reflexivity | intro E; inversion E; auto].
Qed.
Lemma toks_eqb_eq a b : toks_eqb a b = true <-> a = b.
Proof. apply list_eqb_spec. apply tok_eqb_eq. Qed.
Lemma label_eqb_eq (a b : label) : label_eqb a b = true <-> a = b.
Proof.
  destruct a as [s k], b as [s' k']. unfold label_eqb. simpl. rewrite andb_true_iff, str_eqb_eq, toks_eqb_eq.
  split; [intros [E1 E2]; subst; reflexivity | intro E; inversion E; auto].
Qed.

(* a boolean strict total order together with its equality test *)
Record sto {A} (eqb lt : A -> A -> bool) : Prop := mkSto {
  sto_eq : forall x y, eqb x y = true <-> x = y;
  sto_irr : forall x, lt x x = false;
  sto_trans : forall x y z, lt x y = true -> lt y z = true -> lt x z = true;
  sto_tot : forall x y, lt x y = false -> lt y x = false -> x = y }.

Lemma sto_refl {A} (eqb lt : A -> A -> bool) (H : sto eqb lt) x : eqb x x = true.
Proof. apply (sto_eq _ _ H). reflexivity. Qed.
Lemma sto_neq {A} (eqb lt : A -> A -> bool) (H : sto eqb lt) x y : eqb x y = false <-> x <> y.
Proof.
  split.
  - intros E1 E2. apply (sto_eq _ _ H) in E2. congruence.
  - intro N. destruct (eqb x y) eqn:E; auto. apply (sto_eq _ _ H) in E. contradiction.
Qed.
Lemma sto_asym {A} (eqb lt : A -> A -> bool) (H : sto eqb lt) x y : lt x y = true -> lt y x = false.
Proof.
  intro L. destruct (lt y x) eqn:E; auto.
  pose proof (sto_trans _ _ H _ _ _ L E) as T. rewrite (sto_irr _ _ H) in T. discriminate.
Qed.

Lemma Z_sto : sto Z.eqb Z.ltb.
Proof.
  constructor.
  - apply Z.eqb_eq.
  - apply Z.ltb_irrefl.
  - intros x y z. rewrite !Z.ltb_lt. lia.
  - intros x y. rewrite !Z.ltb_ge. lia.
Qed.

Section Lex.
  Context {A : Type} (eqb lt : A -> A -> bool) (H : sto eqb lt).

  Lemma lex_irr : forall x, lex_lt eqb lt x x = false.
  Proof. induction x as [|a x IH]; simpl; auto. rewrite (sto_refl _ _ H). exact IH. Qed.

  Lemma lex_trans : forall x y z, lex_lt eqb lt x y = true -> lex_lt eqb lt y z = true -> lex_lt eqb lt x z = true.
  Proof.
    induction x as [|a x IH]; destruct y as [|b y], z as [|c z]; simpl; intros L1 L2; try discriminate; auto.
    destruct (eqb a b) eqn:Eab.
    - apply (sto_eq _ _ H) in Eab. subst b.
      destruct (eqb a c) eqn:Eac; auto. eapply IH; eauto.
    - destruct (eqb b c) eqn:Ebc.
      + apply (sto_eq _ _ H) in Ebc. subst c. rewrite Eab. exact L1.
      + pose proof (sto_trans _ _ H _ _ _ L1 L2) as T.
        destruct (eqb a c) eqn:Eac; auto.
        apply (sto_eq _ _ H) in Eac. subst c.
        rewrite (sto_asym _ _ H _ _ L1) in L2. discriminate.
  Qed.

  Lemma lex_tot : forall x y, lex_lt eqb lt x y = false -> lex_lt eqb lt y x = false -> x = y.
  Proof.
    induction x as [|a x IH]; destruct y as [|b y]; simpl; intros L1 L2; try discriminate; auto.
    destruct (eqb a b) eqn:Eab.
    - apply (sto_eq _ _ H) in Eab. subst b. rewrite (sto_refl _ _ H) in L2. f_equal. apply IH; assumption.
    - assert (Eba : eqb b a = false).
      { apply (sto_neq _ _ H). apply (sto_neq _ _ H) in Eab. congruence. }
      rewrite Eba in L2. pose proof (sto_tot _ _ H _ _ L1 L2). subst b.
      rewrite (sto_refl _ _ H) in Eab. discriminate.
  Qed.

  Lemma lex_sto : sto (list_eqb eqb) (lex_lt eqb lt).
  Proof.
    constructor.
    - apply list_eqb_spec. apply (sto_eq _ _ H).
    - apply lex_irr.
    - apply lex_trans.
    - apply lex_tot.
  Qed.

  (* a common prefix does not matter; a proper prefix is smaller *)
  Lemma lex_app_l : forall p x y, lex_lt eqb lt (p ++ x) (p ++ y) = lex_lt eqb lt x y.
  Proof. induction p as [|a p IH]; simpl; intros; auto. rewrite (sto_refl _ _ H). apply IH. Qed.

  Lemma lex_prefix_le : forall p x, lex_lt eqb lt (p ++ x) p = false.
  Proof.
    intros p x. rewrite <- (app_nil_r p) at 2. rewrite lex_app_l. destruct x; reflexivity.
  Qed.
End Lex.

Lemma str_sto : sto str_eqb str_lt.
Proof. apply lex_sto. apply Z_sto. Qed.

Definition pair_eqb {A B} (ea : A -> A -> bool) (eb : B -> B -> bool) (x y : A * B) : bool :=
  ea (fst x) (fst y) && eb (snd x) (snd y).
Definition pair_lt {A B} (ea la : A -> A -> bool) (lb : B -> B -> bool) (x y : A * B) : bool :=
  if negb (ea (fst x) (fst y)) then la (fst x) (fst y) else lb (snd x) (snd y).

Lemma pair_sto {A B} (ea la : A -> A -> bool) (eb lb : B -> B -> bool) :
  sto ea la -> sto eb lb -> sto (pair_eqb ea eb) (pair_lt ea la lb).
Proof.
  intros HA HB. constructor.
  - intros [a b] [a' b']. unfold pair_eqb. simpl. rewrite andb_true_iff, (sto_eq _ _ HA), (sto_eq _ _ HB).
    split; [intros [E1 E2]; subst; reflexivity | intro E; inversion E; auto].
  - intros [a b]. unfold pair_lt. simpl. rewrite (sto_refl _ _ HA). simpl. apply (sto_irr _ _ HB).
  - intros [a b] [a' b'] [a'' b'']. unfold pair_lt. simpl.
    destruct (ea a a') eqn:E1; simpl.
    + apply (sto_eq _ _ HA) in E1. subst a'.
      destruct (ea a a'') eqn:E2; simpl; auto. apply (sto_trans _ _ HB).
    + destruct (ea a' a'') eqn:E2; simpl.
      * apply (sto_eq _ _ HA) in E2. subst a''. rewrite E1. simpl. auto.
      * intros L1 L2. pose proof (sto_trans _ _ HA _ _ _ L1 L2) as T.
        destruct (ea a a'') eqn:E3; simpl; auto.
        apply (sto_eq _ _ HA) in E3. subst a''. rewrite (sto_asym _ _ HA _ _ L1) in L2. discriminate.
  - intros [a b] [a' b']. unfold pair_lt. simpl.
    destruct (ea a a') eqn:E1; simpl.
    + apply (sto_eq _ _ HA) in E1. subst a'. rewrite (sto_refl _ _ HA). simpl.
      intros L1 L2. f_equal. apply (sto_tot _ _ HB); assumption.
    + assert (E2 : ea a' a = false).
      { apply (sto_neq _ _ HA). apply (sto_neq _ _ HA) in E1. congruence. }
      rewrite E2. simpl. intros L1 L2. pose proof (sto_tot _ _ HA _ _ L1 L2). subst a'.
      rewrite (sto_refl _ _ HA) in E1. discriminate.
Qed.

(* a strict weak order, as a boolean comparator: what sorted() needs from __lt__ *)
Record swo {A} (lt : A -> A -> bool) : Prop := mkSwo {
  swo_irr : forall x, lt x x = false;
  swo_trans : forall x y z, lt x y = true -> lt y z = true -> lt x z = true;
  swo_ntrans : forall x y z, lt x y = false -> lt y z = false -> lt x z = false }.

Definition incomparable {A} (lt : A -> A -> bool) (x y : A) : Prop := lt x y = false /\ lt y x = false.

Lemma swo_incomparable_trans {A} (lt : A -> A -> bool) (H : swo lt) x y z :
  incomparable lt x y -> incomparable lt y z -> incomparable lt x z.
Proof.
  intros [A1 A2] [B1 B2]. split.
  - apply (swo_ntrans _ H x y z); assumption.
  - apply (swo_ntrans _ H z y x); assumption.
Qed.

(* ================================================================================================ *)
(* B. the comparator IndexEntry.__lt__ (M4)                                                         *)

Section Order.
  Context {K : Type} (ck : str -> K) (keqb kltb : K -> K -> bool) (HK : sto keqb kltb).
  Context (tx : list tok -> str) (src : list tok -> str).
  (* == of expanded fragments, equality of their .source strings and equality of the token lists coincide *)
  Context (src_inj : forall a b, src a = src b -> a = b).

  Notation lkey := (@lkey K).
  Notation cmpkey := (cmpkey ck tx src).
  Notation keys_lt := (keys_lt keqb kltb).
  Notation entry_lt := (entry_lt ck keqb kltb tx src).

  Lemma lkey_sto : sto (lkey_eqb keqb) (lkey_lt keqb kltb).
  Proof.
    pose proof (pair_sto _ _ _ _ (pair_sto _ _ _ _ (pair_sto _ _ _ _ HK HK) str_sto) str_sto) as P.
    destruct P as [P1 P2 P3 P4]. constructor.
    - intros [[[a1 a2] a3] a4] [[[b1 b2] b3] b4]. rewrite <- P1. reflexivity.
    - intros [[[a1 a2] a3] a4]. rewrite <- (P2 (a1, a2, a3, a4)). unfold lkey_lt, pair_lt, pair_eqb. simpl.
      destruct (keqb a1 a1), (keqb a2 a2), (str_eqb a3 a3); reflexivity.
    - intros [[[a1 a2] a3] a4] [[[b1 b2] b3] b4] [[[c1 c2] c3] c4].
      pose proof (P3 (a1, a2, a3, a4) (b1, b2, b3, b4) (c1, c2, c3, c4)) as T.
      unfold lkey_lt, pair_lt, pair_eqb in *. simpl in *.
      destruct (keqb a1 b1), (keqb a2 b2), (str_eqb a3 b3), (keqb b1 c1), (keqb b2 c2), (str_eqb b3 c3),
               (keqb a1 c1), (keqb a2 c2), (str_eqb a3 c3); simpl in *; exact T.
    - intros [[[a1 a2] a3] a4] [[[b1 b2] b3] b4].
      pose proof (P4 (a1, a2, a3, a4) (b1, b2, b3, b4)) as T.
      unfold lkey_lt, pair_lt, pair_eqb in *. simpl in *.
      destruct (keqb a1 b1), (keqb a2 b2), (str_eqb a3 b3), (keqb b1 a1), (keqb b2 a2), (str_eqb b3 a3); simpl in *; exact T.
  Qed.

  Lemma keys_sto : sto (list_eqb (lkey_eqb keqb)) keys_lt.
  Proof. apply lex_sto. apply lkey_sto. Qed.

  (* entry_lt is the lexicographic product of the order on cmpkey and < on the number of keys *)
  Lemma entry_lt_char a b :
    entry_lt a b = true <->
    keys_lt (cmpkey a) (cmpkey b) = true \/ (cmpkey a = cmpkey b /\ (length (e_key a) < length (e_key b))%nat).
  Proof.
    unfold Index.entry_lt.
    destruct (keys_lt (cmpkey a) (cmpkey b)) eqn:L1.
    - split; auto.
    - destruct (keys_lt (cmpkey b) (cmpkey a)) eqn:L2.
      + split; [discriminate|]. intros [D | [E _]]; [discriminate|].
        rewrite E in L2. rewrite (sto_irr _ _ keys_sto) in L2. discriminate.
      + pose proof (sto_tot _ _ keys_sto _ _ L1 L2) as E. rewrite Nat.ltb_lt.
        split; [intro; right; auto | intros [D | [_ L]]; [discriminate | exact L]].
  Qed.

  Lemma entry_lt_false a b :
    entry_lt a b = false <->
    keys_lt (cmpkey b) (cmpkey a) = true \/ (cmpkey a = cmpkey b /\ (length (e_key b) <= length (e_key a))%nat).
  Proof.
    split.
    - intro F. destruct (keys_lt (cmpkey b) (cmpkey a)) eqn:L2; auto. right.
      destruct (keys_lt (cmpkey a) (cmpkey b)) eqn:L1.
      + assert (T : entry_lt a b = true) by (apply entry_lt_char; auto). congruence.
      + pose proof (sto_tot _ _ keys_sto _ _ L1 L2) as E. split; auto.
        destruct (le_lt_dec (length (e_key b)) (length (e_key a))) as [L|L]; auto.
        assert (T : entry_lt a b = true) by (apply entry_lt_char; auto). congruence.
    - intro C. destruct (entry_lt a b) eqn:T; auto. apply entry_lt_char in T.
      destruct C as [C | [E C]], T as [T | [E' T]].
      + rewrite (sto_asym _ _ keys_sto _ _ C) in T. discriminate.
      + rewrite E' in C. rewrite (sto_irr _ _ keys_sto) in C. discriminate.
      + rewrite E in T. rewrite (sto_irr _ _ keys_sto) in T. discriminate.
      + lia.
  Qed.

  Theorem entry_lt_swo : swo entry_lt.
  Proof.
    constructor.
    - intro x. destruct (entry_lt x x) eqn:T; auto. apply entry_lt_char in T.
      destruct T as [T | [_ T]]; [rewrite (sto_irr _ _ keys_sto) in T; discriminate | lia].
    - intros x y z A B. apply entry_lt_char in A. apply entry_lt_char in B. apply entry_lt_char.
      destruct A as [A | [EA A]], B as [B | [EB B]].
      + left. eapply (sto_trans _ _ keys_sto); eauto.
      + left. rewrite <- EB. exact A.
      + left. rewrite EA. exact B.
      + right. split; [congruence | lia].
    - intros x y z A B. apply entry_lt_false in A. apply entry_lt_false in B. apply entry_lt_false.
      destruct A as [A | [EA A]], B as [B | [EB B]].
      + left. eapply (sto_trans _ _ keys_sto); eauto.
      + left. rewrite <- EB. exact A.
      + left. rewrite EA. exact B.
      + right. split; [congruence | lia].
  Qed.

  (* entries that the comparator cannot separate name the same index line *)
  Definition g (l : label) : lkey := (ck (fst l), ck (tx (snd l)), fst l, src (snd l)).
  Lemma g_inj a b : g a = g b -> a = b.
  Proof.
    destruct a as [s k], b as [s' k']. unfold g. simpl. intro E. injection E as E1 E2 E3 E4. subst s'. f_equal. apply src_inj. exact E4.
  Qed.
  Lemma cmpkey_labels e : cmpkey e = map g (labels e).
  Proof. reflexivity. Qed.
  Lemma map_g_inj : forall a b, map g a = map g b -> a = b.
  Proof.
    induction a as [|x a IH]; destruct b as [|y b]; simpl; intro E; try discriminate; auto.
    assert (H1 : g x = g y) by (exact (f_equal (fun l => match l with h :: _ => h | [] => g x end) E)).
    assert (H2 : map g a = map g b) by (exact (f_equal (@tl _) E)).
    f_equal; [apply g_inj; assumption | apply IH; assumption].
  Qed.

  Theorem entry_incomparable_same_path a b :
    entry_lt a b = false -> entry_lt b a = false -> labels a = labels b /\ length (e_key a) = length (e_key b).
  Proof.
    intros A B. apply entry_lt_false in A. apply entry_lt_false in B.
    destruct A as [A | [EA A]], B as [B | [EB B]].
    - rewrite (sto_asym _ _ keys_sto _ _ A) in B. discriminate.
    - rewrite EB in A. rewrite (sto_irr _ _ keys_sto) in A. discriminate.
    - rewrite EA in B. rewrite (sto_irr _ _ keys_sto) in B. discriminate.
    - split; [apply map_g_inj; rewrite <- !cmpkey_labels; exact EA | lia].
  Qed.
End Order.
