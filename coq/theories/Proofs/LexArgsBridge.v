(* C05 x C01 -- from the characters of the source to the value: the token stream the tokenizer Model (Model/Tokenizer.v, proved
   equal to the lexical rules of Spec/Lexer.v) produces for the characters of a numeric literal is, token for token, the
   printed literal of Spec/NumericSpec.v, so the reader theorems apply to source text. *)
From Coq Require Import List ZArith NArith Bool QArith Lia.
From Verif Require Import Val Units Numeric NumericSpec NumericProofs.
From Verif Require Tokenizer LexItems LexItemsProofs.
Import ListNotations.
Local Open Scope Z_scope.

Module T := Tokenizer.
Module LI := LexItems.

(* a token of the tokenizer Model as a token of the argument readers: a character token keeps category and code point, a control
   sequence is a macro about which nothing is known here (inert) *)
Definition embed (t : T.tok) : tok :=
  match t with
  | T.Tok k text =>
      if (k =? 0)%N then Cs (KInert (map Z.of_N text)) false
      else match text with [c] => Ch (Z.of_N k) (Z.of_N c) | _ => Ch (Z.of_N k) 0 end
  end.

Definition dt := T.default_table.

(* ---- the source text of <optional signs><digits> *)
Definition blanks_item (n : nat) : list LI.item :=
  match n with O => [] | S m => [LI.IBlanks 32%N (repeat 32%N m)] end.
Definition sign_char (m : bool) : N := if m then 45%N else 43%N.
Fixpoint sign_items (l : list (bool * nat)) : list LI.item :=
  match l with [] => [] | (m, n) :: r => LI.IChar (sign_char m) :: blanks_item n ++ sign_items r end.
Definition char_items (cs : list N) : list LI.item := map LI.IChar cs.

(* any run of blanks is one space token (or none): the sign run as the readers see it *)
Definition norm_signs (l : list (bool * nat)) : list (bool * nat) := map (fun p => (fst p, Nat.min (snd p) 1)) l.

Definition char_toks (k : Z) (cs : list N) : list tok := map (fun c => Ch k (Z.of_N c)) cs.

Definition is_dec_char (c : N) : bool := ((48 <=? c) && (c <=? 57))%N.

Lemma code_dec : forall c, is_dec_char c = true -> T.which_code dt c = 12%N.
Proof.
  intros c H. unfold is_dec_char in H. apply andb_prop in H. destruct H as (H1 & H2). apply N.leb_le in H1, H2.
  assert (Hc : In c [48; 49; 50; 51; 52; 53; 54; 55; 56; 57]%N).
  { assert (c = 48 \/ c = 49 \/ c = 50 \/ c = 51 \/ c = 52 \/ c = 53 \/ c = 54 \/ c = 55 \/ c = 56 \/ c = 57)%N by lia.
    cbn. intuition. }
  cbn in Hc. repeat (destruct Hc as [<-|Hc]; [vm_compute; reflexivity|]). destruct Hc.
Qed.

Lemma lex_blanks_item : forall st pv n r,
  LI.lex_items dt st pv (blanks_item n ++ r) =
  match n, st with
  | S _, T.SM => T.space_tok :: LI.lex_items dt T.SS (Some T.space_tok) r
  | _, _ => LI.lex_items dt st pv r
  end.
Proof. intros st pv [|m] r; [destruct st; reflexivity|]. cbn [blanks_item app LI.lex_items]. destruct st; reflexivity. Qed.

Lemma min1 : forall n, Nat.min n 1 = match n with O => O | S _ => 1%nat end.
Proof. intros [|[|n]]; reflexivity. Qed.

(* digits (or any characters of category other): one token each; the state afterwards is M with the last token remembered *)
Lemma lex_chars : forall k cs st pv tl last0,
  Forall (fun c => T.which_code dt c = k) cs -> (k <> 0)%N ->
  map embed (LI.lex_items dt st pv (char_items cs ++ tl)) =
  char_toks (Z.of_N k) cs ++
  map embed (LI.lex_items dt (match cs with [] => st | _ => T.SM end)
                         (match cs with [] => pv | _ => Some (T.Tok k [last cs last0]) end) tl).
Proof.
  intros k cs. induction cs as [|c cs IH]; intros st pv tl last0 Hk Hk0; [reflexivity|].
  pose proof (Forall_inv Hk) as Hc. pose proof (Forall_inv_tail Hk) as Hcs. cbn beta in Hc. cbn [char_items map app LI.lex_items]. rewrite Hc.
  cbn [map embed]. replace (k =? 0)%N with false by (symmetry; apply N.eqb_neq; exact Hk0).
  cbn [char_toks map]. f_equal.
  change (map LI.IChar cs) with (char_items cs).
  rewrite (IH T.SM (Some (T.Tok k [c])) tl last0 Hcs Hk0).
  destruct cs as [|c2 cs']; reflexivity.
Qed.

Lemma lex_signs : forall l st pv r,
  map embed (LI.lex_items dt st pv (sign_items l ++ r)) =
  print_sign_list (norm_signs l) ++
  map embed (match l with
             | [] => LI.lex_items dt st pv r
             | _ => let '(m, n) := last l (false, O) in
                    match n with
                    | O => LI.lex_items dt T.SM (Some (T.Tok 12%N [sign_char m])) r
                    | S _ => LI.lex_items dt T.SS (Some T.space_tok) r
                    end
             end).
Proof.
  induction l as [|[m n] l IH]; intros st pv r; [reflexivity|].
  cbn [sign_items app LI.lex_items norm_signs map fst snd print_sign_list].
  assert (Hcode : T.which_code dt (sign_char m) = 12%N) by (destruct m; vm_compute; reflexivity).
  rewrite Hcode. cbn [map embed N.eqb]. rewrite <- app_assoc, lex_blanks_item.
  assert (Htok : Ch 12 (Z.of_N (sign_char m)) = sign_tok m) by (destruct m; reflexivity).
  change (Ch (Z.of_N 12) (Z.of_N (sign_char m))) with (Ch 12 (Z.of_N (sign_char m))). rewrite Htok. cbn [app]. f_equal.
  rewrite min1. destruct n as [|n'].
  - cbn [blanks repeat app]. rewrite (IH T.SM _ r). fold (norm_signs l). destruct l as [|p l']; [reflexivity|]. reflexivity.
  - cbn [map embed T.space_tok N.eqb blanks repeat app]. change (Ch (Z.of_N 10) (Z.of_N 32)) with blank. f_equal.
    rewrite (IH T.SS _ r). fold (norm_signs l). destruct l as [|p l']; [reflexivity|]. reflexivity.
Qed.

(* ---- the literal's items are legal source items *)
Lemma items_ok_chars : forall cs tl, Forall (fun c => LI.sigcat (T.which_code dt c) = true) cs ->
  LI.items_ok dt (char_items cs ++ tl) = LI.items_ok dt tl.
Proof.
  induction cs as [|c cs IH]; intros tl H; [reflexivity|]. inversion H as [|? ? Hc Hcs]; subst.
  cbn [char_items map app LI.items_ok LI.item_ok]. rewrite Hc. cbn [andb]. exact (IH tl Hcs).
Qed.

Lemma items_ok_blanks : forall n tl, LI.items_ok dt (blanks_item n ++ tl) = LI.items_ok dt tl.
Proof.
  intros [|m] tl; [reflexivity|]. cbn [blanks_item app LI.items_ok LI.item_ok].
  assert (H : forallb (fun x => (T.which_code dt x =? T.CC_SPACE)%N) (32%N :: repeat 32%N m) = true).
  { cbn [forallb]. change (T.which_code dt 32 =? T.CC_SPACE)%N with true. cbn [andb].
    induction m as [|m IH]; [reflexivity|]. cbn [repeat forallb]. change (T.which_code dt 32 =? T.CC_SPACE)%N with true. exact IH. }
  rewrite H. reflexivity.
Qed.

Lemma items_ok_signs : forall l tl, LI.items_ok dt (sign_items l ++ tl) = LI.items_ok dt tl.
Proof.
  induction l as [|[m n] l IH]; intros tl; [reflexivity|].
  cbn [sign_items app LI.items_ok LI.item_ok].
  assert (Hs : LI.sigcat (T.which_code dt (sign_char m)) = true) by (destruct m; vm_compute; reflexivity).
  rewrite Hs. cbn [andb]. rewrite <- app_assoc, items_ok_blanks. apply IH.
Qed.

Lemma dec_sigcat : forall cs, Forall (fun c => is_dec_char c = true) cs -> Forall (fun c => LI.sigcat (T.which_code dt c) = true) cs.
Proof. intros cs H. eapply Forall_impl; [|exact H]. intros c Hc. rewrite (code_dec c Hc). reflexivity. Qed.

Lemma norm_signs_value : forall l, sign_list_value (norm_signs l) = sign_list_value l.
Proof. induction l as [|[m n] l IH]; [reflexivity|]. cbn [norm_signs map fst snd sign_list_value]. fold (norm_signs l). rewrite IH. reflexivity. Qed.

(* the characters  <blanks> (+|-) <blanks> ... <digits> <anything>  give, through the tokenizer, the printed integer literal *)
Theorem source_int_tokens : forall lead signs d ds tl,
  Forall (fun c => is_dec_char c = true) (d :: ds) -> LI.items_ok dt tl = true ->
  exists toks,
    T.tokenize dt (LI.print_items (blanks_item lead ++ sign_items signs ++ char_items (d :: ds) ++ tl)) = T.RToks toks /\
    map embed toks = print_signs (mkSR 0 (norm_signs signs)) ++ char_toks 12 (d :: ds) ++
                     map embed (LI.lex_items dt T.SM (Some (T.Tok 12%N [last (d :: ds) d])) tl).
Proof.
  intros lead signs d ds tl Hd Htl.
  eexists. split.
  - apply LexItemsProofs.items_tokenize.
    rewrite items_ok_blanks, items_ok_signs, (items_ok_chars _ _ (dec_sigcat _ Hd)). exact Htl.
  - rewrite lex_blanks_item.
    assert (Hskip : forall r, match lead with
                              | S _ => LI.lex_items dt T.SN None r
                              | O => LI.lex_items dt T.SN None r
                              end = LI.lex_items dt T.SN None r) by (intros r; destruct lead; reflexivity).
    rewrite Hskip, lex_signs. unfold print_signs. cbn [sr_lead sr_signs blanks repeat app]. f_equal.
    assert (Hk : Forall (fun c => T.which_code dt c = 12%N) (d :: ds)).
    { eapply Forall_impl; [|exact Hd]. intros c Hc. apply code_dec, Hc. }
    assert (Hall : forall st pv, map embed (LI.lex_items dt st pv (char_items (d :: ds) ++ tl)) =
                                 char_toks 12 (d :: ds) ++ map embed (LI.lex_items dt T.SM (Some (T.Tok 12%N [last (d :: ds) d])) tl)).
    { intros st pv. rewrite (lex_chars 12%N (d :: ds) st pv tl d Hk ltac:(discriminate)). reflexivity. }
    destruct signs as [|p l']; [apply Hall|].
    destruct (last (p :: l') (false, O)) as [m n]. destruct n; apply Hall.
Qed.

(* ---- reading it *)
Lemma embed_not_register : forall t, is_register (embed t) = false.
Proof. intros [k text]. cbn. destruct (k =? 0)%N; [reflexivity|]. destruct text as [|c [|c2 r]]; reflexivity. Qed.

Lemma no_register_embed : forall lvl o l, no_register_next (seq_rest lvl o (map embed l)).
Proof.
  intros lvl o [|t r]; [exact I|]. cbn [map seq_rest].
  destruct (stops_unexpanded (embed t)) eqn:Es; [cbn; apply embed_not_register|].
  destruct (embed t) as [cat c|k e] eqn:Et.
  - cbn in Es. rewrite (expand1_plain lvl cat c Es).
    destruct (o && (cat =? 10)); [|reflexivity]. destruct r as [|t2 r2]; [exact I|]. cbn. apply embed_not_register.
  - (* an embedded control sequence is unexpanded and inert: it stops the run *)
    destruct t as [kk text]. cbn in Et. destruct (kk =? 0)%N; [inversion Et; subst; discriminate|].
    destruct text as [|c0 [|c1 rr]]; discriminate.
Qed.

Definition not_digit_head (l : list tok) : Prop :=
  match l with Ch cat c :: _ => has_macro cat = true \/ memz c tex_dec = false | _ => True end.

Lemma ends_run_embed : forall lvl l, not_digit_head (map embed l) -> ends_run lvl tex_dec (map embed l).
Proof.
  intros lvl [|t r] H; [exact I|]. cbn [map ends_run not_digit_head] in *.
  destruct (embed t) as [cat c|k e] eqn:Et.
  - destruct (has_macro cat) eqn:Hm; [left; exact Hm|]. right. exists (Ch cat c). split; [apply expand1_plain, Hm|].
    destruct H as [H|H]; [congruence|exact H].
  - left. destruct t as [kk text]. cbn in Et. destruct (kk =? 0)%N; [inversion Et; reflexivity|].
    destruct text as [|c0 [|c1 rr]]; discriminate.
Qed.

Lemma dec_digit_tok : forall c, is_dec_char c = true -> digit_tok tex_dec (Ch 12 (Z.of_N c)).
Proof.
  intros c H. exists 12, (Z.of_N c). split; [reflexivity|]. split; [right; reflexivity|].
  unfold is_dec_char in H. apply andb_prop in H. destruct H as (H1 & H2). apply N.leb_le in H1, H2.
  assert (Hc : In c [48; 49; 50; 51; 52; 53; 54; 55; 56; 57]%N).
  { assert (c = 48 \/ c = 49 \/ c = 50 \/ c = 51 \/ c = 52 \/ c = 53 \/ c = 54 \/ c = 55 \/ c = 56 \/ c = 57)%N by lia.
    cbn. intuition. }
  cbn in Hc. repeat (destruct Hc as [<-|Hc]; [reflexivity|]). destruct Hc.
Qed.

Lemma codes_char_toks : forall k cs, codes (char_toks k cs) = map Z.of_N cs.
Proof. intros k cs. induction cs as [|c cs IH]; [reflexivity|]. cbn. f_equal. exact IH. Qed.

(* from the characters of the source to the value: tokenize (Model of C01) then readInteger (Model of C05) *)
Theorem source_int_value : forall lead signs d ds tl lvl0,
  Forall (fun c => is_dec_char c = true) (d :: ds) -> LI.items_ok dt tl = true ->
  let TL := map embed (LI.lex_items dt T.SM (Some (T.Tok 12%N [last (d :: ds) d])) tl) in
  not_digit_head TL ->
  exists toks,
    T.tokenize dt (LI.print_items (blanks_item lead ++ sign_items signs ++ char_items (d :: ds) ++ tl)) = T.RToks toks /\
    read_integer true (map embed toks) lvl0 =
    Ok (sign_list_value signs * pos_value 10 (map Z.of_N (d :: ds))) (seq_rest (lvl0 - 1) true TL) lvl0.
Proof.
  intros lead signs d ds tl lvl0 Hd Htl TL Hnd.
  destruct (source_int_tokens lead signs d ds tl Hd Htl) as (toks & Htok & Hemb).
  exists toks. split; [exact Htok|]. rewrite Hemb. fold TL.
  assert (Hdt : Forall (digit_tok tex_dec) (char_toks 12 (d :: ds))).
  { unfold char_toks. apply Forall_forall. intros t Ht. apply in_map_iff in Ht. destruct Ht as (c & <- & Hc).
    apply dec_digit_tok. exact (proj1 (Forall_forall _ _) Hd c Hc). }
  change (char_toks 12 (d :: ds)) with (Ch 12 (Z.of_N d) :: char_toks 12 ds) in *.
  rewrite (read_integer_dec (mkSR 0 (norm_signs signs)) (Ch 12 (Z.of_N d)) (char_toks 12 ds) TL lvl0 Hdt
             (ends_run_embed _ _ Hnd) (no_register_embed _ _ _)).
  unfold sign_value. cbn [sr_signs]. rewrite norm_signs_value.
  change (codes (Ch 12 (Z.of_N d) :: char_toks 12 ds)) with (Z.of_N d :: codes (char_toks 12 ds)). rewrite codes_char_toks. reflexivity.
Qed.

(* ================================================================ dimensions from source characters *)

Definition is_letter_char (c : N) : bool := (((65 <=? c) && (c <=? 90)) || ((97 <=? c) && (c <=? 122)))%N.

Definition all_letters : list N := map N.of_nat (seq 65 26 ++ seq 97 26).

Lemma letters_code_table : forallb (fun c => (T.which_code dt c =? 11)%N) all_letters = true.
Proof. vm_compute. reflexivity. Qed.

Lemma code_letter : forall c, is_letter_char c = true -> T.which_code dt c = 11%N.
Proof.
  intros c H. apply N.eqb_eq. apply (proj1 (forallb_forall _ _) letters_code_table).
  unfold all_letters. apply in_map_iff. exists (N.to_nat c). split; [apply N2Nat.id|].
  apply in_or_app. unfold is_letter_char in H. apply orb_prop in H.
  destruct H as [H|H]; apply andb_prop in H; destruct H as (H1 & H2); apply N.leb_le in H1, H2; [left|right]; apply in_seq; lia.
Qed.

Definition is_point_char (c : N) : bool := ((c =? 46) || (c =? 44))%N.

Lemma code_point : forall c, is_point_char c = true -> T.which_code dt c = 12%N.
Proof. intros c H. unfold is_point_char in H. apply orb_prop in H. destruct H as [H|H]; apply N.eqb_eq in H; subst; vm_compute; reflexivity. Qed.

(* the characters of a decimal factor: integer digits, optionally a point and fraction digits *)
Definition dec_chars (ip : list N) (pto : option (N * list N)) : list N :=
  ip ++ match pto with Some (p, fp) => p :: fp | None => [] end.
Definition dec_lit (ip : list N) (pto : option (N * list N)) : declit :=
  match pto with
  | Some (p, fp) => mkDec (char_toks 12 ip) (Some (Ch 12 (Z.of_N p))) (char_toks 12 fp)
  | None => mkDec (char_toks 12 ip) None []
  end.
Definition dec_chars_ok (ip : list N) (pto : option (N * list N)) : Prop :=
  Forall (fun c => is_dec_char c = true) ip /\
  match pto with
  | Some (p, fp) => is_point_char p = true /\ Forall (fun c => is_dec_char c = true) fp
  | None => ip <> []
  end.

Lemma dec_lit_print : forall ip pto, print_dec (dec_lit ip pto) = char_toks 12 (dec_chars ip pto).
Proof.
  intros ip [[p fp]|]; unfold print_dec, dec_lit, dec_chars, char_toks; cbn [d_ip d_point d_fp].
  - rewrite map_app. reflexivity.
  - rewrite !app_nil_r. reflexivity.
Qed.

Lemma dec_lit_ok : forall ip pto, dec_chars_ok ip pto -> declit_ok (dec_lit ip pto).
Proof.
  intros ip pto (Hip & Hp).
  assert (Hd : forall cs, Forall (fun c => is_dec_char c = true) cs -> Forall (digit_tok tex_dec) (char_toks 12 cs)).
  { intros cs H. unfold char_toks. apply Forall_forall. intros t Ht. apply in_map_iff in Ht. destruct Ht as (c & <- & Hc).
    apply dec_digit_tok. exact (proj1 (Forall_forall _ _) H c Hc). }
  destruct pto as [[p fp]|]; unfold declit_ok, dec_lit; cbn [d_ip d_point d_fp].
  - destruct Hp as (Hpt & Hfp). split; [apply Hd, Hip|]. split; [apply Hd, Hfp|].
    exists 12, (Z.of_N p). split; [reflexivity|]. split; [right; reflexivity|].
    unfold is_point_char in Hpt. apply orb_prop in Hpt. destruct Hpt as [H|H]; apply N.eqb_eq in H; subst; [left|right]; reflexivity.
  - split; [apply Hd, Hip|]. split; [constructor|]. split; [|reflexivity]. destruct ip; [congruence|discriminate].
Qed.

Lemma dec_chars_code : forall ip pto, dec_chars_ok ip pto -> Forall (fun c => T.which_code dt c = 12%N) (dec_chars ip pto).
Proof.
  intros ip pto (Hip & Hp). unfold dec_chars. apply Forall_app. split.
  - eapply Forall_impl; [|exact Hip]. intros c Hc. apply code_dec, Hc.
  - destruct pto as [[p fp]|]; [|constructor]. destruct Hp as (Hpt & Hfp). constructor; [apply code_point, Hpt|].
    eapply Forall_impl; [|exact Hfp]. intros c Hc. apply code_dec, Hc.
Qed.

Lemma dec_chars_nonempty : forall ip pto, dec_chars_ok ip pto -> dec_chars ip pto <> [].
Proof. intros ip [[p fp]|] (_ & H); unfold dec_chars; [destruct ip; discriminate|rewrite app_nil_r; exact H]. Qed.

Lemma letters_kw : forall cs, Forall (fun c => is_letter_char c = true) cs -> Forall kw_tok (char_toks 11 cs).
Proof.
  intros cs H. unfold char_toks. apply Forall_forall. intros t Ht. apply in_map_iff in Ht. destruct Ht as (c & <- & Hc).
  exists 11, (Z.of_N c). split; [reflexivity|]. split; [left; reflexivity|].
  pose proof (proj1 (Forall_forall _ _) H c Hc) as Hl. unfold is_letter_char in Hl. unfold is_letter_code.
  apply orb_prop in Hl. destruct Hl as [Hl|Hl]; apply andb_prop in Hl; destruct Hl as (H1 & H2); apply N.leb_le in H1, H2;
    apply orb_true_iff; [left|right]; apply andb_true_iff; split; apply Z.leb_le; lia.
Qed.

(* <blanks><signs><decimal><blanks><unit letters><anything>: characters -> tokens -> exact value *)
Theorem source_dimen_value : forall lead signs ip pto n ucs u f tl lvl0,
  dec_chars_ok ip pto ->
  ucs <> [] -> Forall (fun c => is_letter_char c = true) ucs -> map upper (map Z.of_N ucs) = map upper u ->
  In u dimen_units -> dimen_of_unit u = Some f ->
  LI.items_ok dt tl = true ->
  let TL := map embed (LI.lex_items dt T.SM (Some (T.Tok 11%N [last ucs 0%N])) tl) in
  exists toks v,
    T.tokenize dt (LI.print_items (blanks_item lead ++ sign_items signs ++ char_items (dec_chars ip pto) ++
                                   blanks_item n ++ char_items ucs ++ tl)) = T.RToks toks /\
    read_dimen dimen_units (map embed toks) lvl0 = Ok v (read_one_optional_space TL) lvl0 /\
    (v == inject_Z (sign_list_value signs) * dec_value (dec_lit ip pto) * f)%Q.
Proof.
  intros lead signs ip pto n ucs u f tl lvl0 Hdec Hune Hul Hup Hu Hf Htl TL.
  pose proof (dec_chars_code ip pto Hdec) as Hc12. pose proof (dec_chars_nonempty ip pto Hdec) as Hne.
  assert (Hc11 : Forall (fun c => T.which_code dt c = 11%N) ucs).
  { eapply Forall_impl; [|exact Hul]. intros c Hc. apply code_letter, Hc. }
  (* tokens *)
  assert (Htoks : exists toks,
    T.tokenize dt (LI.print_items (blanks_item lead ++ sign_items signs ++ char_items (dec_chars ip pto) ++
                                   blanks_item n ++ char_items ucs ++ tl)) = T.RToks toks /\
    map embed toks = print_signs (mkSR 0 (norm_signs signs)) ++ print_dec (dec_lit ip pto) ++ blanks (Nat.min n 1) ++
                     [] ++ char_toks 11 ucs ++ TL).
  { eexists. split.
    - apply LexItemsProofs.items_tokenize.
      rewrite items_ok_blanks, items_ok_signs, items_ok_chars, items_ok_blanks, items_ok_chars; [exact Htl| |].
      + eapply Forall_impl; [|exact Hc11]. intros c Hc. rewrite Hc. reflexivity.
      + eapply Forall_impl; [|exact Hc12]. intros c Hc. rewrite Hc. reflexivity.
    - rewrite lex_blanks_item.
      assert (Hskip : forall r, match lead with S _ => LI.lex_items dt T.SN None r | O => LI.lex_items dt T.SN None r end
                                = LI.lex_items dt T.SN None r) by (intros r; destruct lead; reflexivity).
      rewrite Hskip, lex_signs. unfold print_signs. cbn [sr_lead sr_signs blanks repeat app]. f_equal.
      assert (Hall : forall st pv, map embed (LI.lex_items dt st pv (char_items (dec_chars ip pto) ++ blanks_item n ++ char_items ucs ++ tl)) =
                                   print_dec (dec_lit ip pto) ++ blanks (Nat.min n 1) ++ char_toks 11 ucs ++ TL).
      { intros st pv. rewrite (lex_chars 12%N (dec_chars ip pto) st pv _ 0%N Hc12 ltac:(discriminate)), dec_lit_print. f_equal.
        destruct (dec_chars ip pto) as [|c0 cs0] eqn:E; [congruence|].
        rewrite lex_blanks_item, min1. destruct n as [|n'].
        - cbn [blanks repeat app]. rewrite (lex_chars 11%N ucs _ _ tl 0%N Hc11 ltac:(discriminate)).
          destruct ucs; [congruence|]. reflexivity.
        - cbn [map embed T.space_tok N.eqb blanks repeat app]. change (Ch (Z.of_N 10) (Z.of_N 32)) with blank. f_equal.
          rewrite (lex_chars 11%N ucs _ _ tl 0%N Hc11 ltac:(discriminate)). destruct ucs; [congruence|]. reflexivity. }
      destruct signs as [|p l']; [apply Hall|]. destruct (last (p :: l') (false, O)) as [m k]. destruct k; apply Hall. }
  destruct Htoks as (toks & Htok & Hemb). exists toks.
  assert (Hsp : spells u (char_toks 11 ucs)).
  { split; [apply letters_kw, Hul|]. rewrite codes_char_toks. exact Hup. }
  destruct (read_dimen_exact (mkSR 0 (norm_signs signs)) (dec_lit ip pto) (Nat.min n 1) [] (char_toks 11 ucs) u f TL lvl0
              (dec_lit_ok ip pto Hdec) (or_introl eq_refl) Hu Hsp Hf) as (v & Hr & Hv).
  exists v. split; [exact Htok|]. rewrite Hemb. split; [exact Hr|].
  rewrite Hv. unfold sign_value. cbn [sr_signs]. rewrite norm_signs_value. reflexivity.
Qed.
