(* C05 -- M5 for typed arguments: Macro.parse binds each declared name to the VALUE denoted by the tokens written in its
   position, for the argument types whose cast is a pure function of the delimited token list:
   str/chr/char, int/number/count, float/double, dimen/length (casts), Number, Dimen, Glue (primitive readers), list, dict, cs,
   Tok, and the untyped / optional / modifier forms of ArgsProofs.call.  What is excluded is named in [conforms]. *)
From Coq Require Import List ZArith Bool QArith Qabs Lia.
From Verif Require Import Val Units Numeric Args NumericSpec NumericProofs ArgsProofs GlueProofs.
Import ListNotations.
Local Open Scope Z_scope.

(* ================================================================ framework *)

(* reading argument a from s yields some value satisfying P and leaves s' ; at every enable level *)
Definition areads (a : arg) (s : list tok) (P : aval -> Prop) (s' : list tok) : Prop :=
  forall lvl, exists v, read_argument a s lvl = AOk v s' lvl /\ P v.

Definition generic (c : tycl) : bool :=
  match c with
  | TyNone | TyCs | TyStr | TyNox | TyList | TyDict | TyDimenC | TyNumberC | TyFloatC | TyUnknown => true
  | _ => false
  end.

(* how an argument is delimited: a brace group, or the o ... c grouping the signature declares *)
Inductive delimited : option (list Z) -> list tok -> list tok -> Prop :=
| del_brace : forall x y body, balanced b_open b_close body -> delimited None (Ch 1 x :: body ++ [Ch 2 y]) body
| del_group : forall o c body, o <> c -> balanced (g_open o) (g_open c) body ->
    delimited (Some [o; c]) (Ch 12 o :: body ++ [Ch 12 c]) body.

Lemma delimited_head : forall sp piece body, delimited sp piece body -> exists t r, piece = t :: r /\ cat_of t <> 10.
Proof. intros sp piece body H. destruct H; eexists; eexists; (split; [reflexivity|cbn; lia]). Qed.

Lemma read_generic_delimited : forall a piece body rest lvl,
  delimited (a_spec a) piece body ->
  read_generic a (piece ++ rest) lvl =
  match cast a body rest lvl with AOk v s'' l' => AOk v s'' (l' + 1) | r => r end.
Proof.
  intros a piece body rest lvl H. unfold read_generic. destruct H as [x y body Hb|o c body Hoc Hb].
  - cbn [app]. rewrite <- app_assoc. cbn [app]. rewrite (read_token_balanced x y body rest Hb). reflexivity.
  - cbn [app]. rewrite <- app_assoc. cbn [app]. rewrite (read_grouping_balanced o c 12 12 body rest Hoc) by (try lia; exact Hb). reflexivity.
Qed.

Lemma read_argument_generic : forall a k piece body rest lvl,
  generic (classify (a_type a)) = true -> delimited (a_spec a) piece body ->
  read_argument a (blanks k ++ piece ++ rest) lvl =
  match cast a body rest (lvl - 1) with AOk v s'' l' => AOk v s'' (l' + 1) | r => r end.
Proof.
  intros a k piece body rest lvl Hg Hd. unfold read_argument. rewrite ros_blanks.
  destruct (delimited_head _ _ _ Hd) as (t & r & Hp & Hc).
  assert (Hros : read_optional_spaces (piece ++ rest) = piece ++ rest).
  { rewrite Hp. cbn [app]. apply ros_not_blank. destruct t; cbn in *; auto. }
  rewrite Hros. destruct (classify (a_type a)); try discriminate; apply read_generic_delimited; exact Hd.
Qed.

(* ---- plain token lists *)

Lemma plain_modelled : forall l, forallb is_plain l = true -> existsb unmodelled_char l = false.
Proof.
  induction l as [|t l IH]; intros H; [reflexivity|]. cbn in H. apply andb_prop in H. destruct H as (Ht & Hl).
  cbn [existsb]. rewrite (IH Hl), orb_false_r. destruct t as [cat c|k e]; [|reflexivity].
  cbn in *. apply negb_true_iff in Ht. rewrite Ht. reflexivity.
Qed.

Lemma plain_expand : forall lvl l, forallb is_plain l = true -> expand_for_cast lvl l = Some l.
Proof.
  intros lvl l. unfold expand_for_cast. induction l as [|t l IH]; intros H; [reflexivity|].
  cbn in H. apply andb_prop in H. destruct H as (Ht & Hl). cbn [mapM]. rewrite (IH Hl).
  destruct t as [cat c|k e]; [|discriminate]. cbn in Ht. apply negb_true_iff in Ht. rewrite Ht. reflexivity.
Qed.

Lemma plain_no_braces : forall l n, forallb is_plain l = true -> scan b_open b_close n l = Some n.
Proof.
  induction l as [|t l IH]; intros n H; [reflexivity|]. cbn in H. apply andb_prop in H. destruct H as (Ht & Hl).
  cbn [scan]. destruct t as [cat c|k e]; [|discriminate]. cbn in Ht. apply negb_true_iff in Ht.
  unfold b_open, b_close. cbn [cat_of]. unfold has_macro in Ht.
  repeat (apply orb_false_elim in Ht; destruct Ht as (Ht & ?)).
  rewrite Ht. match goal with E : (cat =? 2) = false |- _ => rewrite E end. apply IH, Hl.
Qed.

Lemma forallb_app_true : forall A (f : A -> bool) a b, forallb f a = true -> forallb f b = true -> forallb f (a ++ b) = true.
Proof. intros. rewrite forallb_app. rewrite H, H0. reflexivity. Qed.

Lemma blanks_plain : forall n, forallb is_plain (blanks n) = true.
Proof. induction n; [reflexivity|]. cbn. exact IHn. Qed.

Lemma signs_plain : forall sr, forallb is_plain (print_signs sr) = true.
Proof.
  intros [lead l]. unfold print_signs. cbn [sr_lead sr_signs]. apply forallb_app_true; [apply blanks_plain|].
  induction l as [|[m n] l IH]; [reflexivity|]. cbn [print_sign_list]. destruct m; cbn [sign_tok forallb is_plain];
    (apply forallb_app_true; [apply blanks_plain|exact IH]).
Qed.

Lemma digits_plain : forall set ds, Forall (digit_tok set) ds -> forallb is_plain ds = true.
Proof.
  intros set ds H. induction H as [|d ds Hd _ IH]; [reflexivity|]. destruct Hd as (cat & c & -> & Hc & _).
  cbn [forallb is_plain]. rewrite (has_macro_11_12 _ Hc), IH. reflexivity.
Qed.

Lemma kw_plain : forall l, Forall kw_tok l -> forallb is_plain l = true.
Proof.
  intros l H. induction H as [|t l Ht _ IH]; [reflexivity|]. destruct Ht as (cat & c & -> & Hc & _).
  cbn [forallb is_plain]. rewrite (has_macro_11_12 _ Hc), IH. reflexivity.
Qed.

Lemma dec_plain : forall d, declit_ok d -> forallb is_plain (print_dec d) = true.
Proof.
  intros [ip pt fp] (Hip & Hfp & Hpt). unfold print_dec. cbn [d_ip d_point d_fp] in *.
  apply forallb_app_true; [eapply digits_plain; eauto|]. destruct pt as [p|]; [|reflexivity].
  destruct Hpt as (cat & c & -> & Hc & _). cbn [forallb is_plain]. rewrite (has_macro_11_12 _ Hc). cbn. eapply digits_plain; eauto.
Qed.

Lemma true_part_plain : forall tr, true_part tr -> forallb is_plain tr = true.
Proof.
  intros tr [->|(tt & n & -> & (Hk & _))]; [reflexivity|]. apply forallb_app_true; [apply kw_plain, Hk|apply blanks_plain].
Qed.

Lemma dim_plain : forall U p, pdim_ok U p -> forallb is_plain (print_dim p) = true.
Proof.
  intros U p (Hd & Htr & _ & (Hk & _)). unfold print_dim.
  apply forallb_app_true; [apply signs_plain|]. apply forallb_app_true; [apply dec_plain, Hd|].
  apply forallb_app_true; [apply blanks_plain|]. apply forallb_app_true; [apply true_part_plain, Htr|apply kw_plain, Hk].
Qed.

(* ================================================================ strings, control sequences, tokens, untyped *)

Lemma areads_str : forall a k piece body rest,
  classify (a_type a) = TyStr -> delimited (a_spec a) piece body -> forallb is_plain body = true ->
  areads a (blanks k ++ piece ++ rest) (eq (VStr (strip (map code_of body)))) rest.
Proof.
  intros a k piece body rest Hc Hd Hp lvl. rewrite (read_argument_generic a k piece body rest lvl) by (rewrite ?Hc; auto).
  unfold cast. rewrite (plain_modelled body Hp), Hc. unfold cast_str, normalize. rewrite Hp.
  eexists. split; [replace (lvl - 1 + 1) with lvl by lia; reflexivity|reflexivity].
Qed.

(* a string argument that contains brace groups or commands: the value is the source text of the argument (since 7145f1b) --
   the characters with their braces, a command as \name followed by one blank; not stripped *)
Lemma areads_str_source : forall a k piece body rest src,
  classify (a_type a) = TyStr -> delimited (a_spec a) piece body -> modelled body ->
  forallb is_plain body = false -> braces_balanced O body = true -> source_of body = Some src ->
  areads a (blanks k ++ piece ++ rest) (eq (VStr src)) rest.
Proof.
  intros a k piece body rest src Hc Hd Hm Hp Hb Hs lvl. rewrite (read_argument_generic a k piece body rest lvl) by (rewrite ?Hc; auto).
  unfold cast. unfold modelled in Hm. rewrite Hm, Hc. unfold cast_str, normalize. rewrite Hp, Hb, Hs.
  eexists. split; [replace (lvl - 1 + 1) with lvl by lia; reflexivity|reflexivity].
Qed.

Lemma areads_untyped : forall a k piece body rest,
  classify (a_type a) = TyNone \/ classify (a_type a) = TyNox -> delimited (a_spec a) piece body -> modelled body ->
  areads a (blanks k ++ piece ++ rest) (eq (VToks body)) rest.
Proof.
  intros a k piece body rest Hc Hd Hm lvl.
  rewrite (read_argument_generic a k piece body rest lvl) by (destruct Hc as [E|E]; rewrite ?E; auto).
  unfold cast. unfold modelled in Hm. rewrite Hm.
  eexists. split; [|reflexivity]. destruct Hc as [E|E]; rewrite E; replace (lvl - 1 + 1) with lvl by lia; reflexivity.
Qed.

(* a control sequence, bare or in braces *)
Lemma areads_cs : forall a k ks rest (braced : bool),
  classify (a_type a) = TyCs -> a_spec a = None ->
  areads a (blanks k ++ (if braced then [Ch 1 123; Cs ks false; Ch 2 125] else [Cs ks false]) ++ rest)
         (eq (VTok (Cs ks false))) rest.
Proof.
  intros a k ks rest braced Hc Hs lvl. destruct braced.
  - rewrite (read_argument_generic a k [Ch 1 123; Cs ks false; Ch 2 125] [Cs ks false] rest lvl).
    + unfold cast. cbn [existsb unmodelled_char orb]. rewrite Hc. cbn [filter cat_of]. change (0 =? 0) with true. cbv iota.
      eexists. split; [replace (lvl - 1 + 1) with lvl by lia; reflexivity|reflexivity].
    + rewrite Hc. reflexivity.
    + rewrite Hs. apply (del_brace 123 125 [Cs ks false]). reflexivity.
  - unfold read_argument. rewrite ros_blanks. cbn [app read_optional_spaces]. rewrite Hc. unfold read_generic. rewrite Hs.
    cbn [read_token cat_of]. change (0 =? 1) with false. change (0 =? 3) with false. cbv iota.
    unfold cast. cbn [existsb unmodelled_char orb]. rewrite Hc. cbn [filter cat_of]. change (0 =? 0) with true. cbv iota.
    eexists. split; [replace (lvl - 1 + 1) with lvl by lia; reflexivity|reflexivity].
Qed.

Lemma areads_tok : forall a k t rest,
  classify (a_type a) = TyTok -> cat_of t <> 10 ->
  areads a (blanks k ++ t :: rest) (eq (VTok t)) rest.
Proof.
  intros a k t rest Hc Ht lvl. unfold read_argument. rewrite ros_blanks, ros_not_blank by (destruct t; cbn in *; auto).
  rewrite Hc. eexists. split; [replace (lvl - 1 + 1) with lvl by lia; reflexivity|reflexivity].
Qed.

(* an optional grouping that is absent *)
Lemma areads_absent : forall a o c k s,
  generic (classify (a_type a)) = true -> a_spec a = Some [o; c] ->
  not_blank_head s -> match s with [] => True | t :: _ => tok_is_delim t o = false end ->
  areads a (blanks k ++ s) (eq VNone) s.
Proof.
  intros a o c k s Hg Hs Hnb Hno lvl. unfold read_argument. rewrite ros_blanks, (ros_not_blank s Hnb).
  assert (Hgen : read_generic a s (lvl - 1) = AOk VNone s (lvl - 1 + 1)).
  { unfold read_generic. rewrite Hs, (read_grouping_absent o c s Hno). reflexivity. }
  exists VNone. split; [|reflexivity].
  destruct (classify (a_type a)); try discriminate; rewrite Hgen; replace (lvl - 1 + 1) with lvl by lia; reflexivity.
Qed.

(* modifiers and = *)
Lemma areads_mod_present : forall a ch k rest,
  a_type a = None -> a_spec a = Some [ch] -> ch <> 32 ->
  areads a (blanks k ++ Ch 12 ch :: rest) (eq (VTok (Ch 12 ch))) rest.
Proof.
  intros a ch k rest Ht Hs Hch lvl. unfold read_argument. rewrite ros_blanks, ros_not_blank by (cbn; lia).
  rewrite Ht. cbn [classify]. unfold read_generic. rewrite Hs. cbn [read_character tok_is_char]. rewrite Z.eqb_refl.
  eexists. split; [replace (lvl - 1 + 1) with lvl by lia; reflexivity|reflexivity].
Qed.

Lemma areads_mod_absent : forall a ch k s,
  a_type a = None -> a_spec a = Some [ch] -> not_blank_head s ->
  match s with [] => True | t :: _ => tok_is_char t ch = false end ->
  areads a (blanks k ++ s) (eq VNone) s.
Proof.
  intros a ch k s Ht Hs Hnb Hno lvl. unfold read_argument. rewrite ros_blanks, (ros_not_blank s Hnb).
  rewrite Ht. cbn [classify]. unfold read_generic. rewrite Hs.
  assert (Hrc : read_character ch s = (None, s)).
  { destruct s as [|t r]; [reflexivity|]. cbn [read_character]. rewrite Hno. reflexivity. }
  rewrite Hrc. eexists. split; [replace (lvl - 1 + 1) with lvl by lia; reflexivity|reflexivity].
Qed.

(* ================================================================ numbers *)

Inductive intlit := ILDec (ds : list tok) | ILOct (ds : list tok) | ILHex (ds : list tok).

Definition il_toks (l : intlit) : list tok :=
  match l with ILDec ds => ds | ILOct ds => Ch 12 39 :: ds | ILHex ds => Ch 12 34 :: ds end.
Definition il_ok (l : intlit) : Prop :=
  match l with
  | ILDec ds => ds <> [] /\ Forall (digit_tok tex_dec) ds
  | ILOct ds => Forall (digit_tok tex_oct) ds
  | ILHex ds => Forall (digit_tok tex_hex) ds
  end.
Definition il_value (l : intlit) : Z :=
  match l with
  | ILDec ds => pos_value 10 (codes ds) | ILOct ds => pos_value 8 (codes ds) | ILHex ds => pos_value 16 (codes ds)
  end.

Definition relax_tok : tok := Cs (KInert kw_relax) false.

Lemma il_plain : forall l, il_ok l -> forallb is_plain (il_toks l) = true.
Proof.
  intros [ds|ds|ds] H; cbn [il_toks il_ok] in *.
  - destruct H as (_ & H). eapply digits_plain; eauto.
  - cbn. eapply digits_plain; eauto.
  - cbn. eapply digits_plain; eauto.
Qed.

(* an integer literal followed by the \relax that readInternalType pushes *)
Lemma read_int_relax : forall sr l rest lvl, il_ok l ->
  read_integer true (print_signs sr ++ il_toks l ++ relax_tok :: rest) lvl
  = Ok (sign_value sr * il_value l) (relax_tok :: rest) lvl.
Proof.
  intros sr l rest lvl Hok.
  assert (Hend : forall set, ends_run (lvl - 1) set (relax_tok :: rest)).
  { intros set. left. reflexivity. }
  destruct l as [ds|ds|ds]; cbn [il_toks il_ok il_value] in *.
  - destruct Hok as (Hne & Hds). destruct ds as [|d ds]; [congruence|].
    rewrite (read_integer_dec sr d ds (relax_tok :: rest) lvl Hds (Hend _)); reflexivity.
  - cbn [app]. rewrite (read_integer_oct sr ds (relax_tok :: rest) lvl Hok (Hend _)). reflexivity.
  - cbn [app]. rewrite (read_integer_hex sr ds (relax_tok :: rest) lvl Hok (Hend _)). reflexivity.
Qed.

Lemma drop_relax : forall e rest, drop_to_relax (Cs (KInert kw_relax) e :: rest) = rest.
Proof. reflexivity. Qed.

Lemma areads_int : forall a k piece sr l rest,
  classify (a_type a) = TyNumberC -> delimited (a_spec a) piece (print_signs sr ++ il_toks l) -> il_ok l ->
  areads a (blanks k ++ piece ++ rest) (eq (VInt (sign_value sr * il_value l))) rest.
Proof.
  intros a k piece sr l rest Hc Hd Hok lvl.
  assert (Hp : forallb is_plain (print_signs sr ++ il_toks l) = true) by (apply forallb_app_true; [apply signs_plain|apply il_plain, Hok]).
  rewrite (read_argument_generic a k piece (print_signs sr ++ il_toks l) rest lvl) by (rewrite ?Hc; auto).
  unfold cast. rewrite (plain_modelled _ Hp), Hc. unfold internal. rewrite (plain_expand _ _ Hp).
  rewrite <- app_assoc. change (Cs (KInert kw_relax) false) with relax_tok. rewrite (read_int_relax sr l rest (lvl - 1) Hok).
  unfold relax_tok. rewrite drop_relax.
  eexists. split; [replace (lvl - 1 + 1) with lvl by lia; reflexivity|reflexivity].
Qed.

Lemma areads_float : forall a k piece sr d rest,
  classify (a_type a) = TyFloatC -> delimited (a_spec a) piece (print_signs sr ++ print_dec d) -> declit_ok d ->
  areads a (blanks k ++ piece ++ rest)
         (fun v => exists q, v = VQ q /\ (q == inject_Z (sign_value sr) * dec_value d)%Q) rest.
Proof.
  intros a k piece sr d rest Hc Hd Hok lvl.
  assert (Hp : forallb is_plain (print_signs sr ++ print_dec d) = true) by (apply forallb_app_true; [apply signs_plain|apply dec_plain, Hok]).
  rewrite (read_argument_generic a k piece (print_signs sr ++ print_dec d) rest lvl) by (rewrite ?Hc; auto).
  unfold cast. rewrite (plain_modelled _ Hp), Hc. unfold internal. rewrite (plain_expand _ _ Hp).
  rewrite <- app_assoc. change (Cs (KInert kw_relax) false) with relax_tok.
  destruct (read_decimal_print (lvl - 1) sr d (relax_tok :: rest) Hok) as (q & Hr & Hq).
  { left. reflexivity. }
  { intros _. cbn. eexists. split; [reflexivity|]. intros cat c E. discriminate. }
  rewrite Hr.
  assert (Hrest : drop_to_relax (dec_rest (lvl - 1) d (relax_tok :: rest)) = rest).
  { unfold dec_rest. destruct (d_point d); reflexivity. }
  rewrite Hrest.
  eexists. split; [replace (lvl - 1 + 1) with lvl by lia; reflexivity|]. exists q. auto.
Qed.

(* the value of a printed dimension over the 11 units *)
Definition dimen_value (p : pdim) (v : aval) : Prop :=
  exists q f, v = VQ q /\ dimen_of_unit (p_unit p) = Some f /\
              (q == inject_Z (sign_value (p_sr p)) * dec_value (p_dec p) * f)%Q.

Lemma read_dimen_pdim : forall p rest lvl, pdim_ok dimen_units p ->
  exists q f, read_dimen dimen_units (print_dim p ++ rest) lvl = Ok q (read_one_optional_space rest) lvl /\
              dimen_of_unit (p_unit p) = Some f /\ (q == inject_Z (sign_value (p_sr p)) * dec_value (p_dec p) * f)%Q.
Proof.
  intros [sr d g tr ut u] rest lvl (Hd & Htr & Hu & Hsp). unfold print_dim. cbn [p_sr p_dec p_gap p_true p_utoks p_unit] in *.
  assert (HuF : In u UF) by (apply in_or_app; left; exact Hu).
  destruct (UF_handled u HuF) as (f & Hf).
  destruct (read_dimen_exact sr d g tr ut u f rest lvl Hd Htr Hu Hsp Hf) as (v & Hr & Hv).
  exists v, f. rewrite <- !app_assoc. auto.
Qed.

Lemma areads_dimen_cast : forall a k piece p rest,
  classify (a_type a) = TyDimenC -> delimited (a_spec a) piece (print_dim p) -> pdim_ok dimen_units p ->
  areads a (blanks k ++ piece ++ rest) (dimen_value p) rest.
Proof.
  intros a k piece p rest Hc Hd Hok lvl.
  pose proof (dim_plain _ _ Hok) as Hp.
  rewrite (read_argument_generic a k piece (print_dim p) rest lvl) by (rewrite ?Hc; auto).
  unfold cast. rewrite (plain_modelled _ Hp), Hc. unfold internal. rewrite (plain_expand _ _ Hp).
  change (Cs (KInert kw_relax) false) with relax_tok.
  destruct (read_dimen_pdim p (relax_tok :: rest) (lvl - 1) Hok) as (q & f & Hr & Hf & Hq).
  rewrite Hr. change (read_one_optional_space (relax_tok :: rest)) with (Cs (KInert kw_relax) false :: rest). rewrite drop_relax.
  eexists. split; [replace (lvl - 1 + 1) with lvl by lia; reflexivity|]. exists q, f. auto.
Qed.

(* ---- the primitive readers: Number, Dimen, Glue (no delimiter: the literal itself ends the argument) *)

Lemma ros_print_signs : forall sr t r, cat_of t <> 10 ->
  read_optional_spaces (print_signs sr ++ t :: r) = print_signs (mkSR 0 (sr_signs sr)) ++ t :: r.
Proof.
  intros [lead l] t r Ht. unfold print_signs. cbn [sr_lead sr_signs blanks repeat app]. rewrite <- app_assoc, ros_blanks.
  destruct l as [|[m n] l]; cbn [print_sign_list app].
  - apply ros_not_blank. destruct t; cbn in *; auto.
  - destruct m; reflexivity.
Qed.

(* what follows a Number argument is not a register (a register would multiply the constant: known finding) *)
Definition not_register_head (rest : list tok) : Prop := match rest with [] => True | t :: _ => is_register t = false end.

Lemma il_head : forall l, il_ok l -> exists t r, il_toks l = t :: r /\ cat_of t <> 10.
Proof.
  intros [ds|ds|ds] H; cbn [il_toks il_ok] in *.
  - destruct H as (Hne & Hds). destruct ds as [|d ds]; [congruence|]. inversion Hds as [|? ? Hd _]; subst.
    destruct Hd as (cat & c & -> & Hc & _). eexists; eexists; split; [reflexivity|]. cbn. destruct Hc; lia.
  - eexists; eexists; split; [reflexivity|cbn; lia].
  - eexists; eexists; split; [reflexivity|cbn; lia].
Qed.

(* Number: the literal is ended by a blank (taken); whatever follows -- a brace, a control sequence, text -- is left untouched
   and unexpanded, unless it is a register *)
Lemma areads_number : forall a sr l rest,
  classify (a_type a) = TyNumberP -> il_ok l -> not_register_head rest ->
  areads a (print_signs sr ++ il_toks l ++ blank :: rest) (eq (VInt (sign_value sr * il_value l))) rest.
Proof.
  intros a sr l rest Hc Hok Hst lvl. unfold read_argument. rewrite Hc.
  destruct (il_head l Hok) as (t0 & r0 & Hil & Ht0).
  rewrite Hil. cbn [app]. rewrite (ros_print_signs sr t0 _ Ht0).
  change (t0 :: r0 ++ blank :: rest) with ((t0 :: r0) ++ blank :: rest). rewrite <- Hil.
  set (sr' := mkSR 0 (sr_signs sr)).
  assert (Hsv : sign_value sr' = sign_value sr) by reflexivity.
  assert (Hend : forall set, memz 32 set = false -> ends_run (lvl - 1 - 1) set (blank :: rest)).
  { intros set Hs. right. eexists. split; [reflexivity|exact Hs]. }
  destruct l as [ds|ds|ds]; cbn [il_toks il_ok il_value] in *.
  - destruct Hok as (Hne & Hds). destruct ds as [|d ds]; [congruence|].
    rewrite (read_integer_dec sr' d ds (blank :: rest) (lvl - 1) Hds (Hend tex_dec eq_refl)).
    + change (seq_rest (lvl - 1 - 1) true (blank :: rest)) with rest. rewrite Hsv. cbn [of_res].
      eexists. split; [replace (lvl - 1 + 1) with lvl by lia; reflexivity|reflexivity].
    + change (seq_rest (lvl - 1 - 1) true (blank :: rest)) with rest. exact Hst.
  - cbn [app]. rewrite (read_integer_oct sr' ds (blank :: rest) (lvl - 1) Hok (Hend tex_oct eq_refl)).
    change (seq_rest (lvl - 1 - 1) true (blank :: rest)) with rest. rewrite Hsv. cbn [of_res].
    eexists. split; [replace (lvl - 1 + 1) with lvl by lia; reflexivity|reflexivity].
  - cbn [app]. rewrite (read_integer_hex sr' ds (blank :: rest) (lvl - 1) Hok (Hend tex_hex eq_refl)).
    change (seq_rest (lvl - 1 - 1) true (blank :: rest)) with rest. rewrite Hsv. cbn [of_res].
    eexists. split; [replace (lvl - 1 + 1) with lvl by lia; reflexivity|reflexivity].
Qed.

Lemma pdim_strip_lead : forall p rest, declit_ok (p_dec p) ->
  exists p', read_optional_spaces (print_dim p ++ rest) = print_dim p' ++ rest /\
             sign_value (p_sr p') = sign_value (p_sr p) /\ p_dec p' = p_dec p /\ p_gap p' = p_gap p /\ p_true p' = p_true p /\
             p_utoks p' = p_utoks p /\ p_unit p' = p_unit p.
Proof.
  intros [sr d g tr ut u] rest Hd. cbn [p_dec] in Hd.
  exists (mkPD (mkSR 0 (sr_signs sr)) d g tr ut u). split; [|repeat split].
  unfold print_dim. cbn [p_sr p_dec p_gap p_true p_utoks].
  destruct (print_dec_head d Hd) as (cat & c & pd & Hpd & _ & Hs).
  rewrite <- !app_assoc, Hpd. cbn [app]. apply ros_print_signs. cbn. destruct Hs as (_ & _ & Hc). exact Hc.
Qed.

Lemma areads_dimen_prim : forall a p rest,
  classify (a_type a) = TyDimenP -> pdim_ok dimen_units p ->
  areads a (print_dim p ++ rest) (dimen_value p) (read_one_optional_space rest).
Proof.
  intros a p rest Hc Hok lvl. unfold read_argument. rewrite Hc.
  destruct (pdim_strip_lead p rest (proj1 Hok)) as (p' & -> & Hs & Hd & Hg & Ht & Hu & Hun).
  assert (Hok' : pdim_ok dimen_units p').
  { destruct Hok as (H1 & H2 & H3 & H4). unfold pdim_ok. rewrite Hd, Ht, Hu, Hun. auto. }
  destruct (read_dimen_pdim p' rest (lvl - 1) Hok') as (q & f & Hr & Hf & Hq).
  rewrite Hr. cbn [of_res]. eexists. split; [replace (lvl - 1 + 1) with lvl by lia; reflexivity|].
  exists q, f. rewrite <- Hun, <- Hd, <- Hs. auto.
Qed.

Definition glue_value (p0 : pdim) (st sh : option pfil) (v : aval) : Prop :=
  exists v0 ov1 ov2, v = VGlue (v0, ov1, ov2) /\
    (exists f0, dimen_of_unit (p_unit p0) = Some f0 /\
                (v0 == inject_Z (sign_value (p_sr p0)) * dec_value (p_dec p0) * f0)%Q) /\
    opt_denotes st ov1 /\ opt_denotes sh ov2.

Lemma areads_glue_prim : forall a p0 st sh rest,
  classify (a_type a) = TyGlueP ->
  pdim_ok dimen_units p0 -> pfil_ok kw_plus st -> pfil_ok kw_minus sh ->
  match st with Some x => fil_next_ok (f_dim x) (print_fil sh ++ rest) | None => True end ->
  match sh with Some x => fil_next_ok (f_dim x) rest | None => True end ->
  (st = None -> sh = None -> misses kw_plus (read_optional_spaces rest)) ->
  (sh = None -> misses kw_minus (read_optional_spaces rest)) ->
  areads a (print_dim p0 ++ print_fil st ++ print_fil sh ++ rest) (glue_value p0 st sh)
         (match sh with Some _ => read_one_optional_space rest | None => read_optional_spaces rest end).
Proof.
  intros a p0 st sh rest Hc Hok Hst Hsh Hf1 Hf2 Ha1 Ha2 lvl. unfold read_argument. rewrite Hc.
  destruct (pdim_strip_lead p0 (print_fil st ++ print_fil sh ++ rest) (proj1 Hok)) as (p' & -> & Hs & Hd & Hg & Ht & Hu & Hun).
  assert (Hok' : pdim_ok dimen_units p').
  { destruct Hok as (H1 & H2 & H3 & H4). unfold pdim_ok. rewrite Hd, Ht, Hu, Hun. auto. }
  destruct (read_glue_exact p' st sh rest (lvl - 1) Hok' Hst Hsh Hf1 Hf2 Ha1 Ha2) as (v0 & ov1 & ov2 & Hr & (f0 & Hf0 & Hv0) & Ho1 & Ho2).
  rewrite Hr. cbn [of_res]. eexists. split; [replace (lvl - 1 + 1) with lvl by lia; reflexivity|].
  exists v0, ov1, ov2. split; [reflexivity|]. split; [|split; assumption].
  exists f0. rewrite <- Hun, <- Hd, <- Hs. auto.
Qed.

(* ================================================================ lists *)

(* an item: character tokens, none of them the delimiter *)
Definition item_ok (d : Z) (it : list tok) : Prop := forallb is_plain it = true /\ Forall (fun t => tok_is_char t d = false) it.

Fixpoint join (d : Z) (items : list (list tok)) : list tok :=
  match items with
  | [] => []
  | [it] => it
  | it :: r => it ++ Ch 12 d :: join d r
  end.

Lemma split_items_item : forall d it rest cur, item_ok d it ->
  split_items d (it ++ rest) O cur = split_items d rest O (rev it ++ cur).
Proof.
  intros d it. induction it as [|t it IH]; intros rest cur (Hp & Hd); [reflexivity|].
  cbn in Hp. apply andb_prop in Hp. destruct Hp as (Ht & Hp). inversion Hd as [|? ? Htd Hd']; subst.
  cbn [app split_items]. rewrite Htd.
  destruct t as [cat c|k e]; [|discriminate]. cbn in Ht. apply negb_true_iff in Ht. unfold has_macro in Ht.
  repeat (apply orb_false_elim in Ht; destruct Ht as (Ht & ?)). cbn [cat_of]. rewrite Ht.
  rewrite (IH rest (Ch cat c :: cur) (conj Hp Hd')). cbn [rev]. rewrite <- app_assoc. reflexivity.
Qed.

Lemma split_items_join : forall d items cur, items <> [] -> Forall (item_ok d) items ->
  split_items d (join d items) O cur = match items with it :: r => (rev cur ++ it) :: r | [] => [] end.
Proof.
  intros d items. induction items as [|it r IH]; intros cur Hne Hok; [congruence|].
  inversion Hok as [|? ? Hit Hr]; subst. destruct r as [|it2 r'].
  - cbn [join]. rewrite <- (app_nil_r it) at 1. rewrite (split_items_item d it [] cur Hit). cbn [split_items].
    rewrite rev_app_distr, rev_involutive. reflexivity.
  - change (join d (it :: it2 :: r')) with (it ++ Ch 12 d :: join d (it2 :: r')).
    rewrite (split_items_item d it _ cur Hit). cbn [split_items tok_is_char]. rewrite Z.eqb_refl.
    rewrite rev_app_distr, rev_involutive. f_equal.
    rewrite (IH [] ltac:(discriminate) Hr). reflexivity.
Qed.

Lemma item_no_cs : forall d it, item_ok d it -> existsb (fun t => match t with Cs _ _ => true | _ => false end) it = false.
Proof.
  intros d it (Hp & _). induction it as [|t it IH]; [reflexivity|]. cbn in Hp. apply andb_prop in Hp. destruct Hp as (Ht & Hp).
  destruct t; [|discriminate]. cbn. apply IH, Hp.
Qed.

Lemma join_plain : forall d items, (has_macro 12 = false) -> Forall (item_ok d) items -> forallb is_plain (join d items) = true.
Proof.
  intros d items _ H. induction H as [|it r (Hp & _) Hr IH]; [reflexivity|]. destruct r as [|it2 r'].
  - exact Hp.
  - change (join d (it :: it2 :: r')) with (it ++ Ch 12 d :: join d (it2 :: r')).
    apply forallb_app_true; [exact Hp|]. cbn [forallb is_plain]. exact IH.
Qed.

Lemma join_no_cs : forall d items, Forall (item_ok d) items ->
  existsb (fun t => match t with Cs _ _ => true | _ => false end) (join d items) = false.
Proof.
  intros d items H. pose proof (join_plain d items eq_refl H) as Hp. generalize (join d items) Hp. clear.
  induction l as [|t l IH]; intros Hp; [reflexivity|]. cbn in Hp. apply andb_prop in Hp. destruct Hp as (Ht & Hp).
  destruct t; [|discriminate]. cbn. apply IH, Hp.
Qed.

Definition str_sub (sub : option (list Z)) : Prop := classify sub = TyNone \/ classify sub = TyStr.

Lemma cast_item_str : forall lvl sub it, str_sub sub -> forallb is_plain it = true ->
  cast_item lvl sub it = Some (VStr (strip (map code_of it))).
Proof.
  intros lvl sub it Hs Hp. unfold cast_item. destruct Hs as [-> | ->]; unfold cast_str, normalize; rewrite Hp; reflexivity.
Qed.

Lemma mapM_items : forall lvl sub d items, str_sub sub -> Forall (item_ok d) items ->
  mapM (cast_item lvl sub) items = Some (map (fun it => VStr (strip (map code_of it))) items).
Proof.
  intros lvl sub d items Hs H. induction H as [|it r (Hp & _) _ IH]; [reflexivity|].
  cbn [mapM map]. rewrite (cast_item_str lvl sub it Hs Hp), IH. reflexivity.
Qed.

(* list: items separated by the delimiter (default ,), each bound to its text with surrounding blanks stripped *)
Lemma areads_list : forall a k piece items rest,
  classify (a_type a) = TyList -> str_sub (a_subtype a) -> items <> [] -> Forall (item_ok (delim_of a)) items ->
  delimited (a_spec a) piece (join (delim_of a) items) ->
  areads a (blanks k ++ piece ++ rest) (eq (VList (map (fun it => VStr (strip (map code_of it))) items))) rest.
Proof.
  intros a k piece items rest Hc Hs Hne Hok Hd lvl.
  rewrite (read_argument_generic a k piece (join (delim_of a) items) rest lvl) by (rewrite ?Hc; auto).
  unfold cast. rewrite (plain_modelled _ (join_plain _ _ eq_refl Hok)), Hc, (join_no_cs _ _ Hok).
  rewrite (split_items_join (delim_of a) items [] Hne Hok).
  destruct items as [|it r]; [congruence|]. cbn [rev app].
  rewrite (mapM_items (lvl - 1) (a_subtype a) (delim_of a) (it :: r) Hs Hok).
  eexists. split; [replace (lvl - 1 + 1) with lvl by lia; reflexivity|reflexivity].
Qed.

(* ---- list with an integer subtype: every item is an integer literal *)

Definition int_item (p : signrun * intlit) : list tok := print_signs (fst p) ++ il_toks (snd p).
Definition int_item_value (p : signrun * intlit) : aval := VInt (sign_value (fst p) * il_value (snd p)).

Lemma cast_item_int : forall lvl sub p, classify sub = TyNumberC -> il_ok (snd p) ->
  cast_item lvl sub (int_item p) = Some (int_item_value p).
Proof.
  intros lvl sub [sr l] Hc Hok. unfold cast_item, int_item, int_item_value. cbn [fst snd] in *. rewrite Hc. unfold internal.
  assert (Hp : forallb is_plain (print_signs sr ++ il_toks l) = true) by (apply forallb_app_true; [apply signs_plain|apply il_plain, Hok]).
  rewrite (plain_expand _ _ Hp), <- app_assoc. change (Cs (KInert kw_relax) false) with relax_tok.
  rewrite (read_int_relax sr l [] lvl Hok). reflexivity.
Qed.

Lemma mapM_int_items : forall lvl sub ps, classify sub = TyNumberC -> Forall (fun p => il_ok (snd p)) ps ->
  mapM (cast_item lvl sub) (map int_item ps) = Some (map int_item_value ps).
Proof.
  intros lvl sub ps Hc H. induction H as [|p r Hp _ IH]; [reflexivity|].
  cbn [map mapM]. rewrite (cast_item_int lvl sub p Hc Hp), IH. reflexivity.
Qed.

Lemma areads_list_int : forall a k piece ps rest,
  classify (a_type a) = TyList -> classify (a_subtype a) = TyNumberC -> ps <> [] ->
  Forall (fun p => il_ok (snd p)) ps -> Forall (item_ok (delim_of a)) (map int_item ps) ->
  delimited (a_spec a) piece (join (delim_of a) (map int_item ps)) ->
  areads a (blanks k ++ piece ++ rest) (eq (VList (map int_item_value ps))) rest.
Proof.
  intros a k piece ps rest Hc Hs Hne Hil Hok Hd lvl.
  rewrite (read_argument_generic a k piece (join (delim_of a) (map int_item ps)) rest lvl) by (rewrite ?Hc; auto).
  unfold cast. rewrite (plain_modelled _ (join_plain _ _ eq_refl Hok)), Hc, (join_no_cs _ _ Hok).
  assert (Hne' : map int_item ps <> []) by (destruct ps; [congruence|discriminate]).
  rewrite (split_items_join (delim_of a) (map int_item ps) [] Hne' Hok).
  destruct ps as [|p r]; [congruence|]. cbn [map rev app].
  change (int_item p :: map int_item r) with (map int_item (p :: r)).
  rewrite (mapM_int_items (lvl - 1) (a_subtype a) (p :: r) Hs Hil).
  eexists. split; [replace (lvl - 1 + 1) with lvl by lia; reflexivity|reflexivity].
Qed.

(* ================================================================ dictionaries *)

Definition dfinish (lvl : Z) (sub : option (list Z)) (d : list (aval * aval)) (key : list tok) (value : option (list tok))
  : option (list (aval * aval)) :=
  match normalize (rev key) with
  | VStr k =>
      match value with
      | None => Some (dict_set (VStr k) VTrue key_eqb d)
      | Some v => match cast_item lvl sub (rev v) with
                  | Some x => Some (dict_set (VStr k) x key_eqb d)
                  | None => None
                  end
      end
  | _ => None
  end.

Definition is_nil {A} (l : list A) : bool := match l with [] => true | _ => false end.

Lemma plain_cat : forall t, is_plain t = true -> (cat_of t =? 1) = false.
Proof.
  intros [cat c|k e] H; [|discriminate]. cbn in *. apply negb_true_iff in H. unfold has_macro in H.
  repeat (apply orb_false_elim in H; destruct H as (H & ?)). exact H.
Qed.

Lemma dict_step_plain : forall lvl sub dl t r d key value, is_plain t = true ->
  dict_loop lvl sub dl (t :: r) O d key value =
  (let '(key1, value1) :=
     if tok_is_char t 61 then (key, Some [])
     else if tok_is_char t dl then (key, value)
     else match value with None => (t :: key, None) | Some v => (key, Some (t :: v)) end in
   if tok_is_char t dl || is_nil r then
     match dfinish lvl sub d key1 value1 with
     | Some d' => dict_loop lvl sub dl r O d' [] None
     | None => None
     end
   else dict_loop lvl sub dl r O d key1 value1).
Proof.
  intros lvl sub dl t r d key value Hp. cbn [dict_loop]. rewrite (plain_cat t Hp), Hp. cbn [negb].
  destruct r; reflexivity.
Qed.

(* a token of a key or of a value: a character that is neither = nor the delimiter *)
Definition dtok_ok (dl : Z) (t : tok) : Prop := is_plain t = true /\ tok_is_char t 61 = false /\ tok_is_char t dl = false.

Lemma dict_key_run : forall lvl sub dl kt rest d key0, Forall (dtok_ok dl) kt -> rest <> [] ->
  dict_loop lvl sub dl (kt ++ rest) O d key0 None = dict_loop lvl sub dl rest O d (rev kt ++ key0) None.
Proof.
  intros lvl sub dl kt. induction kt as [|t kt IH]; intros rest d key0 Hk Hne; [reflexivity|].
  inversion Hk as [|? ? (Hp & He & Hd) Hk']; subst. cbn [app]. rewrite (dict_step_plain _ _ _ t _ _ _ _ Hp), He, Hd.
  assert (Hnil : is_nil (kt ++ rest) = false) by (destruct kt; [destruct rest; [congruence|reflexivity]|reflexivity]).
  rewrite Hnil. cbn [orb]. rewrite (IH rest d (t :: key0) Hk' Hne). cbn [rev]. rewrite <- app_assoc. reflexivity.
Qed.

Lemma dict_value_run : forall lvl sub dl vt rest d key v0, Forall (dtok_ok dl) vt -> rest <> [] ->
  dict_loop lvl sub dl (vt ++ rest) O d key (Some v0) = dict_loop lvl sub dl rest O d key (Some (rev vt ++ v0)).
Proof.
  intros lvl sub dl vt. induction vt as [|t vt IH]; intros rest d key v0 Hk Hne; [reflexivity|].
  inversion Hk as [|? ? (Hp & He & Hd) Hk']; subst. cbn [app]. rewrite (dict_step_plain _ _ _ t _ _ _ _ Hp), He, Hd.
  assert (Hnil : is_nil (vt ++ rest) = false) by (destruct vt; [destruct rest; [congruence|reflexivity]|reflexivity]).
  rewrite Hnil. cbn [orb]. rewrite (IH rest d key (t :: v0) Hk' Hne). cbn [rev]. rewrite <- app_assoc. reflexivity.
Qed.

Lemma dtoks_plain : forall dl l, Forall (dtok_ok dl) l -> forallb is_plain l = true.
Proof. intros dl l H. induction H as [|t l (Hp & _) _ IH]; [reflexivity|]. cbn. rewrite Hp, IH. reflexivity. Qed.

(* a dictionary entry: key tokens and, after `=`, value tokens (possibly none); a bare key has no `=` *)
Definition entry := (list tok * option (list tok))%type.

(* a bare key is True; `key=` with nothing after it is the empty string *)
Definition entry_value (e : entry) : aval * aval :=
  (VStr (strip (map code_of (fst e))),
   match snd e with None => VTrue | Some vt => VStr (strip (map code_of vt)) end).

Lemma dfinish_entry : forall lvl sub dl d kt ov, str_sub sub -> Forall (dtok_ok dl) kt ->
  match ov with Some vt => Forall (dtok_ok dl) vt | None => True end ->
  dfinish lvl sub d (rev kt) (match ov with Some vt => Some (rev vt) | None => None end) =
  Some (dict_set (fst (entry_value (kt, ov))) (snd (entry_value (kt, ov))) key_eqb d).
Proof.
  intros lvl sub dl d kt ov Hs Hk Hv. unfold dfinish, normalize. rewrite rev_involutive, (dtoks_plain dl kt Hk).
  destruct ov as [vt|]; [|reflexivity].
  rewrite rev_involutive, (cast_item_str lvl sub vt Hs (dtoks_plain dl vt Hv)). reflexivity.
Qed.

Definition eq_tok : tok := Ch 12 61.

Definition entry_toks (e : entry) : list tok := fst e ++ match snd e with Some vt => eq_tok :: vt | None => [] end.

Definition entry_ok (dl : Z) (e : entry) : Prop :=
  Forall (dtok_ok dl) (fst e) /\
  match snd e with Some vt => Forall (dtok_ok dl) vt | None => fst e <> [] end.

(* the last entry of the argument *)
Lemma dict_last_entry : forall lvl sub dl d e, str_sub sub -> dl <> 61 -> entry_ok dl e ->
  dict_loop lvl sub dl (entry_toks e) O d [] None =
  Some (dict_set (fst (entry_value e)) (snd (entry_value e)) key_eqb d).
Proof.
  intros lvl sub dl d [kt ov] Hs Hdl (Hk & Hv). unfold entry_toks. cbn [fst snd] in *.
  destruct ov as [vt|].
  - (* key = value *)
    rewrite (dict_key_run lvl sub dl kt (eq_tok :: vt) d [] Hk) by discriminate. rewrite app_nil_r.
    rewrite (dict_step_plain _ _ _ eq_tok) by reflexivity. cbn [eq_tok tok_is_char]. change (61 =? 61) with true. cbv iota.
    replace (61 =? dl) with false by (symmetry; apply Z.eqb_neq; congruence).
    destruct vt as [|v0 vt0].
    + (* nothing after the = : the empty string *)
      cbn [is_nil orb]. pose proof (dfinish_entry lvl sub dl d kt (Some []) Hs Hk Hv) as Hf. cbv beta iota in Hf. cbn [rev] in Hf. rewrite Hf. reflexivity.
    + assert (Hne : v0 :: vt0 <> []) by discriminate.
      cbn [is_nil orb].
      destruct (exists_last Hne) as (vt' & tl & E). rewrite E in *.
      apply Forall_app in Hv. destruct Hv as (Hv' & Hl). inversion Hl as [|? ? (Hp & He & Hd) _]; subst.
      rewrite (dict_value_run lvl sub dl vt' [tl] d (rev kt) [] Hv') by discriminate. rewrite app_nil_r.
      rewrite (dict_step_plain _ _ _ tl _ _ _ _ Hp), He, Hd. cbn [is_nil orb].
      assert (Hall : Forall (dtok_ok dl) (vt' ++ [tl])) by (apply Forall_app; split; [exact Hv'|repeat constructor; auto]).
      pose proof (dfinish_entry lvl sub dl d kt (Some (vt' ++ [tl])) Hs Hk Hall) as Hf. cbv beta iota in Hf.
      rewrite rev_app_distr in Hf. cbn [rev app] in Hf. rewrite Hf. reflexivity.
  - (* a bare key *)
    rewrite app_nil_r. destruct (exists_last Hv) as (kt' & tl & E). rewrite E in *.
    apply Forall_app in Hk. destruct Hk as (Hk' & Hl). inversion Hl as [|? ? (Hp & He & Hd) _]; subst.
    rewrite (dict_key_run lvl sub dl kt' [tl] d [] Hk') by discriminate. rewrite app_nil_r.
    rewrite (dict_step_plain _ _ _ tl _ _ _ _ Hp), He, Hd. cbn [is_nil orb].
    assert (Hall : Forall (dtok_ok dl) (kt' ++ [tl])) by (apply Forall_app; split; [exact Hk'|repeat constructor; auto]).
    pose proof (dfinish_entry lvl sub dl d (kt' ++ [tl]) None Hs Hall I) as Hf. cbv beta iota in Hf.
    rewrite rev_app_distr in Hf. cbn [rev app] in Hf. rewrite Hf. reflexivity.
Qed.

(* an entry followed by the delimiter and more *)
Lemma dict_entry_then : forall lvl sub dl d e rest, str_sub sub -> dl <> 61 -> entry_ok dl e ->
  dict_loop lvl sub dl (entry_toks e ++ Ch 12 dl :: rest) O d [] None =
  dict_loop lvl sub dl rest O (dict_set (fst (entry_value e)) (snd (entry_value e)) key_eqb d) [] None.
Proof.
  intros lvl sub dl d [kt ov] rest Hs Hdl (Hk & Hv). unfold entry_toks. cbn [fst snd] in *. rewrite <- app_assoc.
  rewrite (dict_key_run lvl sub dl kt _ d [] Hk) by (destruct ov; discriminate). rewrite app_nil_r.
  destruct ov as [vt|]; cbn [app].
  - rewrite (dict_step_plain _ _ _ eq_tok) by reflexivity. cbn [eq_tok tok_is_char]. change (61 =? 61) with true. cbv iota.
    replace (61 =? dl) with false by (symmetry; apply Z.eqb_neq; congruence).
    assert (Hnil : is_nil (vt ++ Ch 12 dl :: rest) = false) by (destruct vt; reflexivity). rewrite Hnil. cbn [orb].
    rewrite (dict_value_run lvl sub dl vt (Ch 12 dl :: rest) d (rev kt) [] Hv) by discriminate. rewrite app_nil_r.
    rewrite (dict_step_plain _ _ _ (Ch 12 dl)) by reflexivity. cbn [tok_is_char].
    replace (dl =? 61) with false by (symmetry; apply Z.eqb_neq; congruence). rewrite Z.eqb_refl. cbn [orb].
    rewrite (dfinish_entry lvl sub dl d kt (Some vt) Hs Hk Hv). reflexivity.
  - rewrite (dict_step_plain _ _ _ (Ch 12 dl)) by reflexivity. cbn [tok_is_char].
    replace (dl =? 61) with false by (symmetry; apply Z.eqb_neq; congruence). rewrite Z.eqb_refl. cbn [orb].
    rewrite (dfinish_entry lvl sub dl d kt None Hs Hk I). reflexivity.
Qed.

Fixpoint join_entries (dl : Z) (es : list entry) : list tok :=
  match es with
  | [] => []
  | [e] => entry_toks e
  | e :: r => entry_toks e ++ Ch 12 dl :: join_entries dl r
  end.

(* the dictionary the entries denote: in order of first occurrence of a key, a later entry with the same key replaces the value *)
Definition dict_of (es : list entry) (d0 : list (aval * aval)) : list (aval * aval) :=
  fold_left (fun d e => dict_set (fst (entry_value e)) (snd (entry_value e)) key_eqb d) es d0.

Lemma dict_entries : forall lvl sub dl es d0, str_sub sub -> dl <> 61 -> es <> [] -> Forall (entry_ok dl) es ->
  dict_loop lvl sub dl (join_entries dl es) O d0 [] None = Some (dict_of es d0).
Proof.
  intros lvl sub dl es. induction es as [|e r IH]; intros d0 Hs Hdl Hne Hok; [congruence|].
  inversion Hok as [|? ? He Hr]; subst. destruct r as [|e2 r'].
  - cbn [join_entries]. rewrite (dict_last_entry lvl sub dl d0 e Hs Hdl He). reflexivity.
  - change (join_entries dl (e :: e2 :: r')) with (entry_toks e ++ Ch 12 dl :: join_entries dl (e2 :: r')).
    rewrite (dict_entry_then lvl sub dl d0 e _ Hs Hdl He).
    rewrite (IH _ Hs Hdl ltac:(discriminate) Hr). reflexivity.
Qed.

Lemma entry_plain : forall dl e, entry_ok dl e -> forallb is_plain (entry_toks e) = true.
Proof.
  intros dl [kt ov] (Hk & Hv). unfold entry_toks. cbn [fst snd] in *. apply forallb_app_true; [eapply dtoks_plain; eauto|].
  destruct ov as [vt|]; [|reflexivity]. cbn [forallb eq_tok is_plain]. eapply dtoks_plain; eauto.
Qed.

Lemma entries_plain : forall dl es, Forall (entry_ok dl) es -> forallb is_plain (join_entries dl es) = true.
Proof.
  intros dl es H. induction H as [|e r He _ IH]; [reflexivity|]. destruct r as [|e2 r'].
  - cbn [join_entries]. eapply entry_plain; eauto.
  - change (join_entries dl (e :: e2 :: r')) with (entry_toks e ++ Ch 12 dl :: join_entries dl (e2 :: r')).
    apply forallb_app_true; [eapply entry_plain; eauto|]. cbn [forallb is_plain]. exact IH.
Qed.

(* dict: entries separated by the delimiter; a bare key is bound to True, key=value to the value's text with blanks stripped,
   `key=` with nothing after it to the empty string *)
Lemma areads_dict : forall a k piece es rest,
  classify (a_type a) = TyDict -> str_sub (a_subtype a) -> delim_of a <> 61 -> es <> [] -> Forall (entry_ok (delim_of a)) es ->
  delimited (a_spec a) piece (join_entries (delim_of a) es) ->
  areads a (blanks k ++ piece ++ rest) (eq (VDict (dict_of es []))) rest.
Proof.
  intros a k piece es rest Hc Hs Hdl Hne Hok Hd lvl.
  rewrite (read_argument_generic a k piece (join_entries (delim_of a) es) rest lvl) by (rewrite ?Hc; auto).
  unfold cast. rewrite (plain_modelled _ (entries_plain _ _ Hok)), Hc.
  rewrite (dict_entries (lvl - 1) (a_subtype a) (delim_of a) es [] Hs Hdl Hne Hok).
  eexists. split; [replace (lvl - 1 + 1) with lvl by lia; reflexivity|reflexivity].
Qed.

(* ================================================================ Number ended directly by a token that is not expanded *)

(* what follows the digits is nothing, or a token the digit scanner leaves alone: a brace, $, an ordinary control sequence *)
Definition stops_head (rest : list tok) : Prop := match rest with [] => True | t :: _ => stops_unexpanded t = true end.

Lemma stops_head_seq_rest : forall lvl o rest, stops_head rest -> seq_rest lvl o rest = rest.
Proof. intros lvl o [|t r] H; [reflexivity|]. cbn [seq_rest stops_head] in *. rewrite H. reflexivity. Qed.

Lemma stops_head_ends : forall lvl set rest, stops_head rest -> ends_run lvl set rest.
Proof. intros lvl set [|t r] H; [exact I|]. left. exact H. Qed.

Lemma stops_not_register : forall t, stops_unexpanded t = true -> is_register t = false.
Proof.
  intros [cat c|k e] H; [reflexivity|]. destruct k; destruct e; cbn in *; try discriminate; reflexivity.
Qed.

(* \foo 12{abc}: the Number argument ends at the brace, which stays in the stream untouched (since 076499b) *)
Lemma areads_number_tight : forall a sr l rest,
  classify (a_type a) = TyNumberP -> il_ok l -> stops_head rest ->
  areads a (print_signs sr ++ il_toks l ++ rest) (eq (VInt (sign_value sr * il_value l))) rest.
Proof.
  intros a sr l rest Hc Hok Hst lvl. unfold read_argument. rewrite Hc.
  destruct (il_head l Hok) as (t0 & r0 & Hil & Ht0).
  rewrite Hil. cbn [app]. rewrite (ros_print_signs sr t0 _ Ht0).
  change (t0 :: r0 ++ rest) with ((t0 :: r0) ++ rest). rewrite <- Hil.
  set (sr' := mkSR 0 (sr_signs sr)).
  assert (Hsv : sign_value sr' = sign_value sr) by reflexivity.
  assert (Hnr : no_register_next rest).
  { destruct rest as [|t r]; [exact I|]. cbn in *. apply stops_not_register, Hst. }
  destruct l as [ds|ds|ds]; cbn [il_toks il_ok il_value] in *.
  - destruct Hok as (Hne & Hds). destruct ds as [|d ds]; [congruence|].
    rewrite (read_integer_dec sr' d ds rest (lvl - 1) Hds (stops_head_ends _ _ _ Hst)).
    + rewrite (stops_head_seq_rest _ _ _ Hst), Hsv. cbn [of_res].
      eexists. split; [replace (lvl - 1 + 1) with lvl by lia; reflexivity|reflexivity].
    + rewrite (stops_head_seq_rest _ _ _ Hst). exact Hnr.
  - cbn [app]. rewrite (read_integer_oct sr' ds rest (lvl - 1) Hok (stops_head_ends _ _ _ Hst)).
    rewrite (stops_head_seq_rest _ _ _ Hst), Hsv. cbn [of_res].
    eexists. split; [replace (lvl - 1 + 1) with lvl by lia; reflexivity|reflexivity].
  - cbn [app]. rewrite (read_integer_hex sr' ds rest (lvl - 1) Hok (stops_head_ends _ _ _ Hst)).
    rewrite (stops_head_seq_rest _ _ _ Hst), Hsv. cbn [of_res].
    eexists. split; [replace (lvl - 1 + 1) with lvl by lia; reflexivity|reflexivity].
Qed.

(* ================================================================ an absent plus / minus, syntactically *)

(* the keyword search misses when the first token cannot be the keyword's first letter (and is not an expanded element, which
   readKeyword would drop) *)
Lemma misses_first : forall kw l ls s, map upper kw = l :: ls ->
  match s with [] => True | t :: _ => is_element t = false /\ tok_upper_is t l = false end ->
  misses kw s.
Proof.
  intros kw l ls s Hk Hs. unfold misses. rewrite Hk. destruct s as [|t r]; [reflexivity|].
  destruct Hs as (He & Hu). cbn [match_word]. rewrite He, Hu. reflexivity.
Qed.

(* ================================================================ conforming typed arguments and calls *)

(* conforms a s P s' : the stream s starts with a conforming use of the declared argument a, the value it denotes
   satisfies P, and s' is what follows.  One constructor per form; the side conditions say precisely what is excluded:
   - str: character tokens give the stripped text; with brace groups or commands inside the value is the source text
     (c_str_source; registers, active characters and unbalanced braces inside a string are outside the Model);
   - int / float / dimen casts: the argument is exactly a printed literal (signs, digits / decimal / dimension);
   - Number: the literal is ended by a blank and not followed by a register (which would multiply it: known finding), or
     directly by a token the digit scanner does not expand (a brace, $, an ordinary control sequence: c_number_tight);
     Dimen, Glue: as in the numeric theorems (after fil/fill no further l; absent plus/minus really absent);
   - list / dict: items, keys and values are character tokens without the delimiter (and without = in a dict), subtype none or
     a string type (for list also an integer type: every item an integer literal); a dict entry is a bare key (True), key=value
     or key= (the empty string); delimiter other than = for dict. *)
Inductive conforms : arg -> list tok -> (aval -> Prop) -> list tok -> Prop :=
| c_untyped : forall a k piece body rest,
    classify (a_type a) = TyNone \/ classify (a_type a) = TyNox -> delimited (a_spec a) piece body -> modelled body ->
    conforms a (blanks k ++ piece ++ rest) (eq (VToks body)) rest
| c_absent : forall a o c k s,
    generic (classify (a_type a)) = true -> a_spec a = Some [o; c] ->
    not_blank_head s -> match s with [] => True | t :: _ => tok_is_delim t o = false end ->
    conforms a (blanks k ++ s) (eq VNone) s
| c_mod_present : forall a ch k rest,
    a_type a = None -> a_spec a = Some [ch] -> ch <> 32 ->
    conforms a (blanks k ++ Ch 12 ch :: rest) (eq (VTok (Ch 12 ch))) rest
| c_mod_absent : forall a ch k s,
    a_type a = None -> a_spec a = Some [ch] -> not_blank_head s ->
    match s with [] => True | t :: _ => tok_is_char t ch = false end ->
    conforms a (blanks k ++ s) (eq VNone) s
| c_str : forall a k piece body rest,
    classify (a_type a) = TyStr -> delimited (a_spec a) piece body -> forallb is_plain body = true ->
    conforms a (blanks k ++ piece ++ rest) (eq (VStr (strip (map code_of body)))) rest
| c_str_source : forall a k piece body rest src,
    classify (a_type a) = TyStr -> delimited (a_spec a) piece body -> modelled body ->
    forallb is_plain body = false -> braces_balanced O body = true -> source_of body = Some src ->
    conforms a (blanks k ++ piece ++ rest) (eq (VStr src)) rest
| c_cs : forall a k ks rest (braced : bool),
    classify (a_type a) = TyCs -> a_spec a = None ->
    conforms a (blanks k ++ (if braced then [Ch 1 123; Cs ks false; Ch 2 125] else [Cs ks false]) ++ rest)
             (eq (VTok (Cs ks false))) rest
| c_tok : forall a k t rest,
    classify (a_type a) = TyTok -> cat_of t <> 10 ->
    conforms a (blanks k ++ t :: rest) (eq (VTok t)) rest
| c_int : forall a k piece sr l rest,
    classify (a_type a) = TyNumberC -> delimited (a_spec a) piece (print_signs sr ++ il_toks l) -> il_ok l ->
    conforms a (blanks k ++ piece ++ rest) (eq (VInt (sign_value sr * il_value l))) rest
| c_float : forall a k piece sr d rest,
    classify (a_type a) = TyFloatC -> delimited (a_spec a) piece (print_signs sr ++ print_dec d) -> declit_ok d ->
    conforms a (blanks k ++ piece ++ rest)
             (fun v => exists q, v = VQ q /\ (q == inject_Z (sign_value sr) * dec_value d)%Q) rest
| c_dimen_cast : forall a k piece p rest,
    classify (a_type a) = TyDimenC -> delimited (a_spec a) piece (print_dim p) -> pdim_ok dimen_units p ->
    conforms a (blanks k ++ piece ++ rest) (dimen_value p) rest
| c_number : forall a sr l rest,
    classify (a_type a) = TyNumberP -> il_ok l -> not_register_head rest ->
    conforms a (print_signs sr ++ il_toks l ++ blank :: rest) (eq (VInt (sign_value sr * il_value l))) rest
| c_number_tight : forall a sr l rest,
    classify (a_type a) = TyNumberP -> il_ok l -> stops_head rest ->
    conforms a (print_signs sr ++ il_toks l ++ rest) (eq (VInt (sign_value sr * il_value l))) rest
| c_dimen : forall a p rest,
    classify (a_type a) = TyDimenP -> pdim_ok dimen_units p ->
    conforms a (print_dim p ++ rest) (dimen_value p) (read_one_optional_space rest)
| c_glue : forall a p0 st sh rest,
    classify (a_type a) = TyGlueP ->
    pdim_ok dimen_units p0 -> pfil_ok kw_plus st -> pfil_ok kw_minus sh ->
    match st with Some x => fil_next_ok (f_dim x) (print_fil sh ++ rest) | None => True end ->
    match sh with Some x => fil_next_ok (f_dim x) rest | None => True end ->
    (st = None -> sh = None -> misses kw_plus (read_optional_spaces rest)) ->
    (sh = None -> misses kw_minus (read_optional_spaces rest)) ->
    conforms a (print_dim p0 ++ print_fil st ++ print_fil sh ++ rest) (glue_value p0 st sh)
             (match sh with Some _ => read_one_optional_space rest | None => read_optional_spaces rest end)
| c_list : forall a k piece items rest,
    classify (a_type a) = TyList -> str_sub (a_subtype a) -> items <> [] -> Forall (item_ok (delim_of a)) items ->
    delimited (a_spec a) piece (join (delim_of a) items) ->
    conforms a (blanks k ++ piece ++ rest) (eq (VList (map (fun it => VStr (strip (map code_of it))) items))) rest
| c_list_int : forall a k piece ps rest,
    classify (a_type a) = TyList -> classify (a_subtype a) = TyNumberC -> ps <> [] ->
    Forall (fun p => il_ok (snd p)) ps -> Forall (item_ok (delim_of a)) (map int_item ps) ->
    delimited (a_spec a) piece (join (delim_of a) (map int_item ps)) ->
    conforms a (blanks k ++ piece ++ rest) (eq (VList (map int_item_value ps))) rest
| c_dict : forall a k piece es rest,
    classify (a_type a) = TyDict -> str_sub (a_subtype a) -> delim_of a <> 61 -> es <> [] ->
    Forall (entry_ok (delim_of a)) es -> delimited (a_spec a) piece (join_entries (delim_of a) es) ->
    conforms a (blanks k ++ piece ++ rest) (eq (VDict (dict_of es []))) rest.

Theorem conforms_reads : forall a s P s', conforms a s P s' -> areads a s P s'.
Proof.
  intros a s P s' H. destruct H.
  - apply areads_untyped; assumption.
  - eapply areads_absent; eassumption.
  - apply areads_mod_present; assumption.
  - eapply areads_mod_absent; eassumption.
  - apply areads_str; assumption.
  - eapply areads_str_source; eassumption.
  - apply areads_cs; assumption.
  - apply areads_tok; assumption.
  - apply areads_int; assumption.
  - apply areads_float; assumption.
  - apply areads_dimen_cast; assumption.
  - apply areads_number; assumption.
  - apply areads_number_tight; assumption.
  - apply areads_dimen_prim; assumption.
  - apply areads_glue_prim; assumption.
  - apply areads_list; assumption.
  - apply areads_list_int; assumption.
  - apply areads_dict; assumption.
Qed.

(* a conforming call of a whole signature: declared arguments, stream, (name, value predicate) in order, what remains *)
Inductive tcall : list arg -> list tok -> list (list Z * (aval -> Prop)) -> list tok -> Prop :=
| tcall_nil : forall s, tcall [] s [] s
| tcall_cons : forall a args s P s1 b s',
    conforms a s P s1 -> tcall args s1 b s' -> tcall (a :: args) s ((a_name a, P) :: b) s'.

Definition bound (nv : list Z * aval) (np : list Z * (aval -> Prop)) : Prop := fst nv = fst np /\ snd np (snd nv).

Theorem parse_binds_typed : forall args s b s',
  tcall args s b s' ->
  forall lvl acc, exists vals, parse_args args s lvl acc = POk (rev acc ++ vals) s' lvl /\ Forall2 bound vals b.
Proof.
  intros args s b s' H. induction H as [s|a args s P s1 b s' Hc _ IH]; intros lvl acc.
  - exists []. rewrite app_nil_r. split; [reflexivity|constructor].
  - destruct (conforms_reads a s P s1 Hc lvl) as (v & Hr & Hv).
    destruct (IH lvl ((a_name a, v) :: acc)) as (vals & Hp & Hb).
    exists ((a_name a, v) :: vals). split.
    + cbn [parse_args]. rewrite Hr, Hp. cbn [rev]. rewrite <- app_assoc. reflexivity.
    + constructor; [split; [reflexivity|exact Hv]|exact Hb].
Qed.
