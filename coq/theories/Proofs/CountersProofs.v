(* C08 -- proofs about Model/Counters.v: representations (M2) and the transitive reset (M1). *)
From Coq Require Import List ZArith Bool Lia.
Import ListNotations.
From Verif Require Import Val CounterSyntax ClassCounters Counters NumberingSpec.
Local Open Scope Z_scope.

(* ---------------------------------------------------------------------------------------------- *)
(** * Names *)

Lemma str_eqb_eq : forall a b, str_eqb a b = true <-> a = b.
Proof.
  induction a as [|x a IH]; destruct b as [|y b]; cbn; split; intro H; try congruence; try discriminate.
  - apply andb_true_iff in H. destruct H as [H1 H2]. apply Z.eqb_eq in H1. apply IH in H2. congruence.
  - inversion H; subst. apply andb_true_iff. split; [apply Z.eqb_refl | apply IH; reflexivity].
Qed.

Lemma name_eqb_eq : forall a b, name_eqb a b = true <-> a = b.
Proof. exact str_eqb_eq. Qed.

Lemma name_eqb_refl : forall a, name_eqb a a = true.
Proof. intro a. apply name_eqb_eq. reflexivity. Qed.

Lemma name_eqb_neq : forall a b, name_eqb a b = false <-> a <> b.
Proof.
  intros a b. split.
  - intros H E. apply name_eqb_eq in E. congruence.
  - intro H. destruct (name_eqb a b) eqn:E; [apply name_eqb_eq in E; contradiction | reflexivity].
Qed.

Lemma name_eqb_sym : forall a b, name_eqb a b = name_eqb b a.
Proof.
  intros a b. destruct (name_eqb a b) eqn:E.
  - apply name_eqb_eq in E. subst. symmetry. apply name_eqb_refl.
  - symmetry. apply name_eqb_neq. apply name_eqb_neq in E. congruence.
Qed.

Lemma name_eq_dec : forall a b : name, {a = b} + {a <> b}.
Proof.
  intros a b. destruct (name_eqb a b) eqn:E; [left; apply name_eqb_eq; exact E | right; apply name_eqb_neq; exact E].
Qed.

(* ---------------------------------------------------------------------------------------------- *)
(** * M2: representations *)

Definition range (lo : Z) (n : nat) : list Z := map (fun i => lo + Z.of_nat i) (seq 0 n).

Lemma in_range : forall lo n v, lo <= v < lo + Z.of_nat n -> In v (range lo n).
Proof.
  intros lo n v H. unfold range. apply in_map_iff. exists (Z.to_nat (v - lo)). split; [lia|].
  apply in_seq. lia.
Qed.

(** ** Roman numerals *)

Definition pre (r : str) (o : option (str * Z)) : option (str * Z) :=
  match o with Some (t, n) => Some (r ++ t, n) | None => None end.

Lemma while_ge_acc : forall fuel k s roman number,
  while_ge fuel k s roman number = pre roman (while_ge fuel k s [] number).
Proof.
  induction fuel as [|f IH]; intros k s roman number; cbn [while_ge].
  - destruct (number >=? k); cbn; [reflexivity | rewrite app_nil_r; reflexivity].
  - destruct (number >=? k).
    + rewrite IH. rewrite (IH k s ([] ++ s)). cbn [app].
      destruct (while_ge f k s [] (number - k)) as [[t n]|]; cbn; [rewrite app_assoc; reflexivity | reflexivity].
    + cbn. rewrite app_nil_r. reflexivity.
Qed.

Lemma run_rstep_acc : forall st roman number, run_rstep st roman number = pre roman (run_rstep st [] number).
Proof.
  intros [k s|k s] roman number; cbn [run_rstep].
  - destruct (number >=? k); cbn; [reflexivity | rewrite app_nil_r; reflexivity].
  - apply while_ge_acc.
Qed.

Lemma run_rprog_acc : forall p roman number,
  run_rprog p roman number = option_map (app roman) (run_rprog p [] number).
Proof.
  induction p as [|st p IH]; intros roman number; cbn [run_rprog].
  - cbn. rewrite app_nil_r. reflexivity.
  - rewrite run_rstep_acc. destruct (run_rstep st [] number) as [[t n]|]; cbn [pre]; [|reflexivity].
    rewrite IH. rewrite (IH t). destruct (run_rprog p [] n); cbn; [rewrite app_assoc; reflexivity | reflexivity].
Qed.

Definition roman_tail_ok (r : Z) : bool :=
  match run_rprog roman_prog [] r with
  | Some t => str_eqb t (spec_roman_tail r)
  | None => false
  end.

Lemma roman_tail_all : forallb roman_tail_ok (range 0 1000) = true.
Proof. vm_compute. reflexivity. Qed.

(* the implementation's numeral is the standard one, for every integer (the loops always end) *)
Theorem roman_standard : forall x, num_to_roman x = Some (spec_roman x).
Proof.
  intro x. unfold num_to_roman, spec_roman. rewrite run_rprog_acc.
  assert (H : roman_tail_ok (x mod 1000) = true).
  { eapply forallb_forall; [exact roman_tail_all|]. apply in_range. pose proof (Z.mod_pos_bound x 1000). lia. }
  unfold roman_tail_ok in H. destruct (run_rprog roman_prog [] (x mod 1000)) as [t|]; [|discriminate].
  apply str_eqb_eq in H. subst t. reflexivity.
Qed.

Lemma sym_val_le : forall c w, sym_val c = Some w -> 1 <= w <= 1000.
Proof.
  intros c w. unfold sym_val.
  repeat match goal with |- context [if ?b then _ else _] => destruct b end; intro H; inversion H; lia.
Qed.

Lemma roman_value_head : forall c s v, roman_value (c :: s) = Some v -> exists w, sym_val c = Some w.
Proof.
  intros c s v H. cbn [roman_value] in H. destruct (sym_val c) as [w|]; [eauto | discriminate].
Qed.

Lemma roman_value_M : forall q t v,
  roman_value t = Some v -> roman_value (repeat_str [77] q ++ t) = Some (1000 * Z.of_nat q + v).
Proof.
  induction q as [|q IH]; intros t v H.
  - cbn [repeat_str app]. replace (1000 * Z.of_nat 0 + v) with v by lia. exact H.
  - cbn [repeat_str app]. specialize (IH t v H).
    change (roman_value (77 :: (repeat_str [77] q ++ t))) with
      (match sym_val 77, roman_value (repeat_str [77] q ++ t) with
       | Some v0, Some r =>
           match repeat_str [77] q ++ t with
           | d :: _ => match sym_val d with Some w => Some (if v0 <? w then r - v0 else r + v0) | None => None end
           | [] => Some (r + v0)
           end
       | _, _ => None
       end).
    rewrite IH. change (sym_val 77) with (Some 1000).
    destruct (repeat_str [77] q ++ t) as [|d rest] eqn:E.
    + f_equal. lia.
    + destruct (roman_value_head d rest _ IH) as [w Hw]. rewrite Hw.
      pose proof (sym_val_le d w Hw). destruct (1000 <? w) eqn:L; [lia|]. f_equal. lia.
Qed.

Definition roman_tail_value_ok (r : Z) : bool :=
  match roman_value (spec_roman_tail r) with Some v => v =? r | None => false end.

Lemma roman_tail_value_all : forallb roman_tail_value_ok (range 0 1000) = true.
Proof. vm_compute. reflexivity. Qed.

(* reading the numeral back gives the number: every n >= 0 (unbounded: thousands are M's) *)
Theorem roman_value_correct : forall n, 0 <= n -> roman_value (spec_roman n) = Some n.
Proof.
  intros n Hn. unfold spec_roman.
  assert (H : roman_tail_value_ok (n mod 1000) = true).
  { eapply forallb_forall; [exact roman_tail_value_all|]. apply in_range. pose proof (Z.mod_pos_bound n 1000). lia. }
  unfold roman_tail_value_ok in H. destruct (roman_value (spec_roman_tail (n mod 1000))) as [v|] eqn:E; [|discriminate].
  apply Z.eqb_eq in H. subst v. rewrite (roman_value_M _ _ _ E). f_equal.
  pose proof (Z.div_mod n 1000). pose proof (Z.div_pos n 1000). lia.
Qed.

Theorem roman_correct : forall n, 1 <= n ->
  exists s, num_to_roman n = Some s /\ roman_value s = Some n /\ s = spec_roman n.
Proof.
  intros n Hn. exists (spec_roman n). split; [apply roman_standard|]. split; [apply roman_value_correct; lia | reflexivity].
Qed.

Theorem counter_Roman_roman : forall v,
  counter_repr RRoman v = Ok (spec_roman v) /\ counter_repr Rroman v = Ok (map lower_c (spec_roman v)).
Proof. intro v. unfold counter_repr. rewrite roman_standard. split; reflexivity. Qed.

(** ** Arabic *)

Lemma dec_value_aux_app : forall s1 s2 a,
  dec_value_aux (s1 ++ s2) a = match dec_value_aux s1 a with Some b => dec_value_aux s2 b | None => None end.
Proof.
  induction s1 as [|c s1 IH]; intros s2 a; cbn [app dec_value_aux]; [reflexivity|].
  destruct ((48 <=? c) && (c <=? 57)); [apply IH | reflexivity].
Qed.

Lemma digits_aux_spec : forall fuel n acc,
  0 <= n < 10 ^ Z.of_nat fuel -> (fuel > 0)%nat ->
  exists ds, digits_aux fuel n acc = ds ++ acc /\ ds <> [] /\ (forall c, In c ds -> 48 <= c <= 57) /\
             forall a, dec_value_aux ds a = Some (a * 10 ^ Z.of_nat (length ds) + n).
Proof.
  induction fuel as [|f IH]; intros n acc Hn Hf; [lia|].
  cbn [digits_aux]. destruct (n <? 10) eqn:L.
  - exists [48 + n]. split; [reflexivity|]. split; [discriminate|]. split.
    + intros c [<-|[]]. lia.
    + intro a. cbn [dec_value_aux length]. replace ((48 <=? 48 + n) && (48 + n <=? 57)) with true by lia.
      f_equal. change (Z.of_nat 1) with 1. lia.
  - assert (Hf' : (f > 0)%nat).
    { destruct f; [|lia]. cbn in Hn. lia. }
    assert (Hn' : 0 <= n / 10 < 10 ^ Z.of_nat f).
    { split; [apply Z.div_pos; lia|]. apply Z.div_lt_upper_bound; [lia|].
      rewrite Nat2Z.inj_succ, Z.pow_succ_r in Hn by lia. lia. }
    destruct (IH (n / 10) ((48 + n mod 10) :: acc) Hn' Hf') as (ds & E & Hne & Hd & Hv).
    exists (ds ++ [48 + n mod 10]). split; [rewrite E, <- app_assoc; reflexivity|].
    split; [destruct ds; discriminate|]. split.
    + intros c Hc. apply in_app_iff in Hc. destruct Hc as [Hc|[<-|[]]]; [auto|]. pose proof (Z.mod_pos_bound n 10). lia.
    + intro a. rewrite dec_value_aux_app, Hv. cbn [dec_value_aux].
      pose proof (Z.mod_pos_bound n 10).
      replace ((48 <=? 48 + n mod 10) && (48 + n mod 10 <=? 57)) with true by lia.
      f_equal. rewrite app_length. cbn [length]. rewrite Nat2Z.inj_add. change (Z.of_nat 1) with 1.
      rewrite Z.pow_add_r, Z.pow_1_r by lia. pose proof (Z.div_mod n 10). lia.
Qed.

Lemma digits_fuel : forall n, 0 <= n -> n < 10 ^ Z.of_nat (S (Z.to_nat (Z.log2 n))).
Proof.
  intros n Hn. rewrite Nat2Z.inj_succ, Z2Nat.id by apply Z.log2_nonneg.
  destruct (Z.eq_dec n 0) as [->|Hz]; [cbn; lia|].
  pose proof (Z.log2_spec n). assert (Hp : 0 < n) by lia. specialize (H Hp).
  eapply Z.lt_le_trans; [apply H|]. apply Z.pow_le_mono_l. pose proof (Z.log2_nonneg n). lia.
Qed.

Lemma digits_spec : forall n, 0 <= n ->
  exists ds, digits n = ds /\ ds <> [] /\ (forall c, In c ds -> 48 <= c <= 57) /\ dec_value_aux ds 0 = Some n.
Proof.
  intros n Hn. unfold digits.
  destruct (digits_aux_spec (S (Z.to_nat (Z.log2 n))) n []) as (ds & E & Hne & Hd & Hv); [split; [lia | apply digits_fuel; lia] | lia |].
  exists ds. rewrite app_nil_r in E. split; [exact E|]. split; [exact Hne|]. split; [exact Hd|]. rewrite Hv; f_equal; lia.
Qed.

(* str(int): the decimal numeral of z, for every integer *)
Theorem arabic_correct : forall z, dec_value (arabic z) = Some z.
Proof.
  intro z. unfold arabic. destruct (z <? 0) eqn:L.
  - destruct (digits_spec (- z)) as (ds & E & Hne & Hd & Hv); [lia|]. rewrite E.
    destruct ds as [|d ds]; [congruence|]. unfold dec_value. cbn [tl]. rewrite Hv. f_equal. lia.
  - destruct (digits_spec z) as (ds & E & Hne & Hd & Hv); [lia|]. rewrite E.
    destruct ds as [|d ds]; [congruence|]. unfold dec_value.
    assert (48 <= d <= 57) by (apply Hd; left; reflexivity).
    destruct (Z.eq_dec d 45); [lia|].
    destruct d as [|p|p]; try lia.
    repeat (destruct p as [p|p|]; try lia; try exact Hv).
Qed.

(* the digits of an arabic numeral: only 0-9 and a leading minus sign *)
Lemma arabic_chars : forall z c, In c (arabic z) -> 48 <= c <= 57 \/ c = 45.
Proof.
  intros z c. unfold arabic. destruct (z <? 0) eqn:L.
  - destruct (digits_spec (- z)) as (ds & E & _ & Hd & _); [lia|]. rewrite E. intros [<-|H]; [right; reflexivity | left; auto].
  - destruct (digits_spec z) as (ds & E & _ & Hd & _); [lia|]. rewrite E. intro H. left; auto.
Qed.

Lemma arabic_nonempty : forall z, arabic z <> [].
Proof.
  intro z. unfold arabic. destruct (z <? 0) eqn:L; [discriminate|].
  destruct (digits_spec z) as (ds & E & Hne & _); [lia|]. congruence.
Qed.

Lemma arabic_zero : arabic 0 = [48].
Proof. reflexivity. Qed.

(** ** Alph / alph *)

Definition Alph_ok (v : Z) : bool :=
  match counter_repr RAlph v, counter_repr Ralph v with
  | Ok a, Ok b => str_eqb a [64 + v] && str_eqb b [96 + v]
  | _, _ => false
  end.

Lemma Alph_all : forallb Alph_ok (range 1 26) = true.
Proof. vm_compute. reflexivity. Qed.

Theorem Alph_correct : forall v, 1 <= v <= 26 ->
  counter_repr RAlph v = Ok [64 + v] /\ counter_repr Ralph v = Ok [96 + v].
Proof.
  intros v Hv. assert (H : Alph_ok v = true).
  { eapply forallb_forall; [exact Alph_all|]. apply in_range. lia. }
  unfold Alph_ok in H. destruct (counter_repr RAlph v) as [a| |]; try discriminate.
  destruct (counter_repr Ralph v) as [b| |]; try discriminate.
  apply andb_true_iff in H. destruct H as [H1 H2]. apply str_eqb_eq in H1. apply str_eqb_eq in H2. subst. split; reflexivity.
Qed.

(* model representation = standard representation wherever the latter is defined *)
Theorem counter_repr_spec : forall r v s, spec_repr r v = Some s -> counter_repr r v = Ok s.
Proof.
  intros r v s. destruct r; cbn [spec_repr]; intro H.
  - inversion H. reflexivity.
  - destruct (1 <=? v); inversion H. apply counter_Roman_roman.
  - destruct (1 <=? v); inversion H. apply counter_Roman_roman.
  - unfold spec_Alph in H. destruct ((1 <=? v) && (v <=? 26)) eqn:E; inversion H. apply Alph_correct. lia.
  - unfold spec_alph in H. destruct ((1 <=? v) && (v <=? 26)) eqn:E; inversion H. apply Alph_correct. lia.
  - discriminate.
  - discriminate.
Qed.

(* ---------------------------------------------------------------------------------------------- *)
(** * M1: stepping a counter resets every counter declared within it, transitively *)

Definition keys (st : store) : list name := map fst st.
Definition shape (st : store) : list (name * option name) := map (fun p => (fst p, c_resetby (snd p))) st.

(* the counter that resets n (None: no resetby, or an empty one) *)
Definition parent (st : store) (n : name) : option name :=
  match lookup n st with Some c => truthy (c_resetby c) | None => None end.

(* desc par m x: x is reached from m by following parents, at least once *)
Inductive desc (par : name -> option name) : name -> name -> Prop :=
| desc_parent m x : par m = Some x -> desc par m x
| desc_step m p x : par m = Some p -> desc par p x -> desc par m x.

Definition acyclic (st : store) : Prop := forall n, ~ desc (parent st) n n.

Lemma desc_trans : forall par a b c, desc par a b -> desc par b c -> desc par a c.
Proof.
  intros par a b c H. induction H as [m x H|m p x H _ IH]; intro H2.
  - eapply desc_step; eauto.
  - eapply desc_step; eauto.
Qed.

Lemma desc_ext : forall par par' a b, (forall n, par n = par' n) -> desc par a b -> desc par' a b.
Proof.
  intros par par' a b E H. induction H as [m x H|m p x H _ IH].
  - apply desc_parent. rewrite <- E. exact H.
  - eapply desc_step; [rewrite <- E; exact H | exact IH].
Qed.

Lemma lookup_shape : forall st st' n, shape st = shape st' ->
  option_map c_resetby (lookup n st) = option_map c_resetby (lookup n st').
Proof.
  induction st as [|[m c] st IH]; destruct st' as [|[m' c'] st']; cbn; intros n H; try discriminate; [reflexivity|].
  inversion H; subst. destruct (name_eqb n m'); cbn; [congruence | apply IH; assumption].
Qed.

Lemma parent_shape : forall st st' n, shape st = shape st' -> parent st n = parent st' n.
Proof.
  intros st st' n H. unfold parent. pose proof (lookup_shape st st' n H) as E.
  destruct (lookup n st), (lookup n st'); cbn in E; try discriminate; [inversion E; congruence | reflexivity].
Qed.

Lemma keys_shape : forall st st', shape st = shape st' -> keys st = keys st'.
Proof.
  intros st st' H. unfold keys. assert (E : map fst (shape st) = map fst (shape st')) by (rewrite H; reflexivity).
  unfold shape in E. rewrite !map_map in E. exact E.
Qed.

Lemma shape_length : forall st st', shape st = shape st' -> length st = length st'.
Proof. intros st st' H. rewrite <- (map_length (fun p => (fst p, c_resetby (snd p))) st), <- (map_length (fun p => (fst p, c_resetby (snd p))) st'). unfold shape in H. rewrite H. reflexivity. Qed.

Lemma set_value_shape : forall n v st, shape (set_value n v st) = shape st.
Proof.
  unfold shape. induction st as [|[m c] st IH]; cbn [set_value map]; [reflexivity|].
  destruct (name_eqb n m); cbn [map fst snd c_resetby]; [reflexivity | rewrite IH; reflexivity].
Qed.

Lemma lookup_in : forall n st c, lookup n st = Some c -> In n (keys st).
Proof.
  induction st as [|[m d] st IH]; cbn; intros c H; [discriminate|].
  destruct (name_eqb n m) eqn:E; [left; symmetry; apply name_eqb_eq; exact E | right; eapply IH; eauto].
Qed.

Lemma lookup_none : forall n st, lookup n st = None <-> ~ In n (keys st).
Proof.
  induction st as [|[m d] st IH]; cbn; [tauto|].
  destruct (name_eqb n m) eqn:E.
  - apply name_eqb_eq in E. subst. split; [discriminate | intro H; exfalso; apply H; left; reflexivity].
  - apply name_eqb_neq in E. rewrite IH. split; [intros H [H1|H1]; [congruence | contradiction] | intros H H1; apply H; right; exact H1].
Qed.

Lemma in_lookup : forall st n c, NoDup (keys st) -> In (n, c) st -> lookup n st = Some c.
Proof.
  induction st as [|[m d] st IH]; cbn; intros n c ND H; [contradiction|].
  inversion ND as [|? ? Hm ND']; subst. destruct H as [H|H].
  - inversion H; subst. rewrite name_eqb_refl. reflexivity.
  - destruct (name_eqb n m) eqn:E.
    + apply name_eqb_eq in E. subst. exfalso. apply Hm. change m with (fst (m, c)). apply in_map. exact H.
    + apply IH; assumption.
Qed.

Lemma value_of_set_same : forall n v st, In n (keys st) -> value_of n (set_value n v st) = v.
Proof.
  unfold value_of. induction st as [|[m c] st IH]; cbn; intro H; [contradiction|].
  destruct (name_eqb n m) eqn:E; cbn; rewrite ?E; [reflexivity|].
  destruct H as [H|H]; [symmetry in H; apply name_eqb_eq in H; congruence | apply IH; exact H].
Qed.

Lemma value_of_set_other : forall n m v st, m <> n -> value_of m (set_value n v st) = value_of m st.
Proof.
  unfold value_of. induction st as [|[k c] st IH]; cbn; intro H; [reflexivity|].
  destruct (name_eqb n k) eqn:E; cbn.
  - apply name_eqb_eq in E. subst k. apply name_eqb_neq in H. rewrite H. reflexivity.
  - destruct (name_eqb m k); [reflexivity | apply IH; exact H].
Qed.

Lemma resets_parent : forall st n c x, NoDup (keys st) -> In (n, c) st -> resets c x = true -> parent st n = Some x.
Proof.
  intros st n c x ND Hin H. unfold parent. rewrite (in_lookup st n c ND Hin).
  unfold resets in H. destruct (c_resetby c) as [r|]; [|discriminate].
  apply andb_true_iff in H. destruct H as [H H3]. apply andb_true_iff in H. destruct H as [H1 H2].
  apply name_eqb_eq in H3. subst r. destruct x; [discriminate | reflexivity].
Qed.

Lemma parent_resets : forall st n x, parent st n = Some x -> exists c, In (n, c) st /\ resets c x = true.
Proof.
  intros st n x H. unfold parent in H. destruct (lookup n st) as [c|] eqn:E; [|discriminate].
  exists c. split.
  - clear H. induction st as [|[m d] st IH]; cbn in E; [discriminate|].
    destruct (name_eqb n m) eqn:E2; [apply name_eqb_eq in E2; inversion E; subst; left; reflexivity | right; apply IH; exact E].
  - unfold resets. destruct (c_resetby c) as [r|]; [|discriminate]. cbn in H. destruct r as [|a r]; [discriminate|].
    inversion H; subst. cbn [is_nil negb andb]. apply name_eqb_refl.
Qed.

(* the children of x among the entries of [snap], and what lies below them *)
Definition below (par : name -> option name) (snap : store) (x m : name) : Prop :=
  exists n c, In (n, c) snap /\ resets c x = true /\ (m = n \/ desc par m n).

(* the loop only reads the resetby fields of its snapshot *)
Lemma reset_loop_shape : forall rec x a b t, shape a = shape b -> reset_loop rec x a t = reset_loop rec x b t.
Proof.
  intros rec x. induction a as [|[n c] a IHa]; destruct b as [|[n' c'] b]; cbn; intros t H; try discriminate; [reflexivity|].
  inversion H as [[H1 H2 H3]]. subst n'. unfold resets. rewrite H2.
  destruct (match c_resetby c' with Some r => negb (is_nil r) && negb (is_nil x) && name_eqb r x | None => false end).
  - destruct (rec n (set_value n 0 t)); [apply IHa; exact H3 | reflexivity].
  - apply IHa. exact H3.
Qed.

Section Reset.
  Context (st0 : store).
  Context (ND : NoDup (keys st0)).
  Context (AC : acyclic st0).
  Let par := parent st0.

  (* what a terminating resetcounters call on x must deliver *)
  Definition reset_post (x : name) (s s' : store) : Prop :=
    shape s' = shape s /\
    (forall m, value_of m s' = 0 \/ value_of m s' = value_of m s) /\
    (forall m, desc par m x -> value_of m s' = 0) /\
    (forall m, ~ desc par m x -> value_of m s' = value_of m s).

  Lemma loop_sound : forall (rec : name -> store -> option store) x snap s,
    incl snap st0 -> shape s = shape st0 ->
    (forall n c s1, In (n, c) snap -> resets c x = true -> shape s1 = shape st0 ->
        exists s2, rec n s1 = Some s2 /\ reset_post n s1 s2) ->
    exists s', reset_loop rec x snap s = Some s' /\ shape s' = shape s /\
      (forall m, value_of m s' = 0 \/ value_of m s' = value_of m s) /\
      (forall m, below par snap x m -> value_of m s' = 0) /\
      (forall m, ~ below par snap x m -> value_of m s' = value_of m s).
  Proof.
    intros rec x snap. induction snap as [|[n c] rest IH]; intros s Hincl Hs Hrec.
    - exists s. cbn. split; [reflexivity|]. split; [reflexivity|]. split; [right; reflexivity|].
      split; [intros m (n & c & [] & _) | reflexivity].
    - cbn [reset_loop]. destruct (resets c x) eqn:R.
      + assert (Hin : In (n, c) st0) by (apply Hincl; left; reflexivity).
        assert (Hk : In n (keys s)).
        { rewrite (keys_shape _ _ Hs). change n with (fst (n, c)). apply in_map. exact Hin. }
        destruct (Hrec n c (set_value n 0 s)) as (s2 & E2 & Sh2 & Z2 & D2 & U2);
          [left; reflexivity | exact R | rewrite set_value_shape; exact Hs |].
        rewrite E2.
        destruct (IH s2) as (s' & E' & Sh' & Z' & B' & U').
        { intros p Hp. apply Hincl. right. exact Hp. }
        { rewrite Sh2, set_value_shape. exact Hs. }
        { intros n' c' s1 Hin' R' Hs1. apply (Hrec n' c' s1); [right; exact Hin' | exact R' | exact Hs1]. }
        exists s'. split; [exact E'|]. split; [rewrite Sh', Sh2, set_value_shape; reflexivity|].
        (* value of n and of what lies below n, after the recursive call *)
        assert (Hn : value_of n s2 = 0).
        { rewrite U2; [apply value_of_set_same; exact Hk|]. apply AC. }
        assert (Hbelow : forall m, m = n \/ desc par m n -> value_of m s2 = 0).
        { intros m [->|Hd]; [exact Hn | apply D2; exact Hd]. }
        assert (Hother : forall m, m <> n -> ~ desc par m n -> value_of m s2 = value_of m s).
        { intros m H1 H2. rewrite U2 by exact H2. apply value_of_set_other. exact H1. }
        split; [|split].
        * intro m. destruct (Z' m) as [H|H]; [left; exact H|]. rewrite H.
          destruct (Z2 m) as [H2|H2]; [left; exact H2|]. rewrite H2.
          destruct (name_eq_dec m n) as [->|Hne]; [left; apply value_of_set_same; exact Hk | right; apply value_of_set_other; exact Hne].
        * intros m (n' & c' & [Heq|Hin'] & R' & Hm).
          -- inversion Heq; subst n' c'. destruct (Z' m) as [H|H]; [exact H | rewrite H; apply Hbelow; exact Hm].
          -- apply B'. exists n', c'. auto.
        * intros m Hnb.
          assert (H1 : m <> n) by (intro; apply Hnb; exists n, c; split; [left; reflexivity | split; [exact R | left; assumption]]).
          assert (H2 : ~ desc par m n) by (intro; apply Hnb; exists n, c; split; [left; reflexivity | split; [exact R | right; assumption]]).
          rewrite U'; [apply Hother; assumption|].
          intros (n' & c' & Hin' & R' & Hm). apply Hnb. exists n', c'. split; [right; exact Hin' | auto].
      + destruct (IH s) as (s' & E' & Sh' & Z' & B' & U').
        { intros p Hp. apply Hincl. right. exact Hp. }
        { exact Hs. }
        { intros n' c' s1 Hin' R' Hs1. apply (Hrec n' c' s1); [right; exact Hin' | exact R' | exact Hs1]. }
        exists s'. split; [exact E'|]. split; [exact Sh'|]. split; [exact Z'|]. split.
        * intros m (n' & c' & [Heq|Hin'] & R' & Hm); [inversion Heq; subst; congruence | apply B'; exists n', c'; auto].
        * intros m Hnb. apply U'. intros (n' & c' & Hin' & R' & Hm). apply Hnb. exists n', c'. split; [right; exact Hin' | auto].
  Qed.

  Lemma below_desc : forall x m, below par st0 x m <-> desc par m x.
  Proof.
    intros x m. split.
    - intros (n & c & Hin & R & Hm). pose proof (resets_parent st0 n c x ND Hin R) as P.
      destruct Hm as [->|Hd]; [apply desc_parent; exact P|]. eapply desc_trans; [exact Hd | apply desc_parent; exact P].
    - intro H. induction H as [m x H|m p x H _ IH].
      + destruct (parent_resets st0 m x H) as (c & Hin & R). exists m, c. auto.
      + destruct IH as (n & c & Hin & R & Hm). exists n, c. split; [exact Hin|]. split; [exact R|]. right.
        destruct Hm as [->|Hd]; [apply desc_parent; exact H | eapply desc_step; eauto].
  Qed.

  (* [path]: x and the callers above it; all different because the graph is acyclic, so the fuel S (length st0) is never used up *)
  Lemma reset_sound : forall fuel x path s,
    shape s = shape st0 -> NoDup path -> incl path (keys st0) -> In x path ->
    (forall p, In p path -> p = x \/ desc par x p) ->
    (fuel + length path > length st0)%nat ->
    exists s', resetcounters fuel x s = Some s' /\ reset_post x s s'.
  Proof.
    induction fuel as [|f IH]; intros x path s Hs NDp Hincl Hx Hanc Hfuel.
    - exfalso. pose proof (NoDup_incl_length NDp Hincl) as L. unfold keys in L. rewrite map_length in L. lia.
    - cbn [resetcounters].
      assert (E : s = s) by reflexivity.
      (* the snapshot is s itself; its entries have the shape of st0's *)
      destruct (loop_sound (resetcounters f) x st0 s) as (s' & E' & Sh' & Z' & B' & U').
      { intros p Hp. exact Hp. }
      { exact Hs. }
      { intros n c s1 Hin R Hs1.
        pose proof (resets_parent st0 n c x ND Hin R) as P.
        assert (Hnp : ~ In n path).
        { intro Hn. destruct (Hanc n Hn) as [->|Hd].
          - apply (AC x). apply desc_parent. exact P.
          - apply (AC n). eapply desc_trans; [apply desc_parent; exact P | exact Hd]. }
        apply (IH n (n :: path)).
        - exact Hs1.
        - constructor; assumption.
        - intros p [<-|Hp]; [change n with (fst (n, c)); apply in_map; exact Hin | apply Hincl; exact Hp].
        - left. reflexivity.
        - intros p [<-|Hp]; [left; reflexivity|]. right. destruct (Hanc p Hp) as [->|Hd].
          + apply desc_parent. exact P.
          + eapply desc_step; eauto.
        - cbn [length]. lia. }
      (* the loop in the Model runs over the snapshot s, whose resetby fields are those of st0 *)
      assert (Hloop : reset_loop (resetcounters f) x s s = reset_loop (resetcounters f) x st0 s) by (apply reset_loop_shape; exact Hs).
      rewrite Hloop, E'. exists s'. split; [reflexivity|]. split; [exact Sh'|]. split; [exact Z'|]. split.
      + intros m Hd. apply B'. apply below_desc. exact Hd.
      + intros m Hd. apply U'. intro Hb. apply Hd. apply below_desc. exact Hb.
  Qed.
End Reset.

Lemma ensure_keys_in : forall c st, In c (keys (ensure c st)).
Proof.
  intros c st. unfold ensure. destruct (lookup c st) as [d|] eqn:E.
  - eapply lookup_in; eauto.
  - unfold keys. rewrite map_app. apply in_or_app. right. left. reflexivity.
Qed.

Lemma lookup_app_none : forall n st st2, lookup n st = None -> lookup n (st ++ st2) = lookup n st2.
Proof.
  induction st as [|[m d] st IH]; cbn; intros st2 H; [reflexivity|].
  destruct (name_eqb n m); [discriminate | apply IH; exact H].
Qed.

Lemma lookup_app_some : forall n st st2 c, lookup n st = Some c -> lookup n (st ++ st2) = Some c.
Proof.
  induction st as [|[m d] st IH]; cbn; intros st2 c H; [discriminate|].
  destruct (name_eqb n m); [exact H | apply IH; exact H].
Qed.

Lemma ensure_lookup : forall c st n,
  lookup n (ensure c st) = match lookup n st with Some d => Some d | None => if name_eqb n c then Some (mkc None 0) else None end.
Proof.
  intros c st n. unfold ensure. destruct (lookup c st) as [d|] eqn:E.
  - destruct (lookup n st) eqn:E2; [reflexivity|]. destruct (name_eqb n c) eqn:E3; [apply name_eqb_eq in E3; congruence | reflexivity].
  - destruct (lookup n st) as [d|] eqn:E2.
    + apply lookup_app_some. exact E2.
    + rewrite lookup_app_none by exact E2. cbn. destruct (name_eqb n c); reflexivity.
Qed.

Lemma ensure_parent : forall c st n, parent (ensure c st) n = parent st n.
Proof.
  intros c st n. unfold parent. rewrite ensure_lookup. destruct (lookup n st); [reflexivity|]. destruct (name_eqb n c); reflexivity.
Qed.

Lemma ensure_value : forall c st n, value_of n (ensure c st) = value_of n st.
Proof.
  intros c st n. unfold value_of. rewrite ensure_lookup. destruct (lookup n st); [reflexivity|]. destruct (name_eqb n c); reflexivity.
Qed.

Lemma NoDup_snoc : forall (l : list name) a, NoDup l -> ~ In a l -> NoDup (l ++ [a]).
Proof.
  induction l as [|b l IH]; cbn; intros a ND H.
  - constructor; [intros [] | constructor].
  - inversion ND; subst. constructor.
    + intro Hin. apply in_app_iff in Hin. destruct Hin as [Hin|[Hin|[]]]; [contradiction | subst; apply H; left; reflexivity].
    + apply IH; [assumption | intro; apply H; right; assumption].
Qed.

Lemma ensure_nodup : forall c st, NoDup (keys st) -> NoDup (keys (ensure c st)).
Proof.
  intros c st ND. unfold ensure. destruct (lookup c st) eqn:E; [exact ND|].
  unfold keys. rewrite map_app. cbn [map fst]. apply NoDup_snoc; [exact ND | apply lookup_none; exact E].
Qed.

Lemma set_value_keys : forall n v st, keys (set_value n v st) = keys st.
Proof. intros. apply keys_shape. apply set_value_shape. Qed.

Lemma set_value_parent : forall n v st m, parent (set_value n v st) m = parent st m.
Proof. intros. apply parent_shape. apply set_value_shape. Qed.

Lemma acyclic_shape : forall st st', (forall n, parent st n = parent st' n) -> acyclic st -> acyclic st'.
Proof. intros st st' E AC n H. apply (AC n). eapply desc_ext; [|exact H]. intro m. symmetry. apply E. Qed.

(* M1.  For every store with an acyclic reset graph (unique keys: it is a dict) and every counter name c -- present or not --
   stepcounter ends, c is one more than before, every counter transitively within c is 0, every other counter keeps its
   value, and no counter is added (except c itself), removed or re-parented. *)
Theorem step_resets_transitively : forall st c,
  NoDup (keys st) -> acyclic st ->
  exists st', stepcounter c st = Some st' /\
    shape st' = shape (ensure c st) /\
    value_of c st' = value_of c st + 1 /\
    (forall n, desc (parent st) n c -> value_of n st' = 0) /\
    (forall n, n <> c -> ~ desc (parent st) n c -> value_of n st' = value_of n st) /\
    (forall n, n <> c -> value_of n st' = 0 \/ value_of n st' = value_of n st).
Proof.
  intros st c ND AC. unfold stepcounter.
  set (st1 := ensure c st). set (st2 := set_value c (value_of c st1 + 1) st1).
  assert (ND1 : NoDup (keys st1)) by (apply ensure_nodup; exact ND).
  assert (P1 : forall n, parent st1 n = parent st n) by (intro; apply ensure_parent).
  assert (AC1 : acyclic st1) by (eapply acyclic_shape; [|exact AC]; intro; symmetry; apply P1).
  assert (Sh2 : shape st2 = shape st1) by apply set_value_shape.
  assert (Hc : In c (keys st1)) by apply ensure_keys_in.
  destruct (reset_sound st1 ND1 AC1 (S (length st2)) c [c] st2) as (s' & E & Sh & Z & D & U).
  - exact Sh2.
  - constructor; [intros [] | constructor].
  - intros p [<-|[]]. exact Hc.
  - left. reflexivity.
  - intros p [<-|[]]. left. reflexivity.
  - rewrite (shape_length _ _ Sh2). cbn [length]. lia.
  - exists s'. split; [exact E|]. split; [rewrite Sh; exact Sh2|]. split; [|split; [|split]].
    + rewrite U by apply AC1. unfold st2. rewrite value_of_set_same by exact Hc. unfold st1. rewrite ensure_value. reflexivity.
    + intros n Hd. apply D. eapply desc_ext; [|exact Hd]. intro m. symmetry. apply P1.
    + intros n Hne Hd. rewrite U.
      * unfold st2. rewrite value_of_set_other by exact Hne. apply ensure_value.
      * intro H. apply Hd. eapply desc_ext; [|exact H]. exact P1.
    + intros n Hne. destruct (Z n) as [H|H]; [left; exact H|]. right. rewrite H.
      unfold st2. rewrite value_of_set_other by exact Hne. apply ensure_value.
Qed.

(* a cyclic declaration (\newcounter{a}[a], or a within b within a) makes the recursion endless: RecursionError in Python *)
Theorem reset_cycle_refuted : exists st c, NoDup (keys st) /\ stepcounter c st = None.
Proof.
  exists [([97], mkc (Some [97]) 0)], [97]. split; [constructor; [intros [] | constructor] | vm_compute; reflexivity].
Qed.

(* \setcounter and \addtocounter assign and reset nothing (repaired code) *)
Theorem setcounter_spec : forall st c v,
  shape (setcounter c v st) = shape (ensure c st) /\ value_of c (setcounter c v st) = v /\
  forall n, n <> c -> value_of n (setcounter c v st) = value_of n st.
Proof.
  intros st c v. unfold setcounter. split; [apply set_value_shape|]. split.
  - apply value_of_set_same. apply ensure_keys_in.
  - intros n H. rewrite value_of_set_other by exact H. apply ensure_value.
Qed.

Theorem addtocounter_spec : forall st c v,
  shape (addtocounter c v st) = shape (ensure c st) /\ value_of c (addtocounter c v st) = value_of c st + v /\
  forall n, n <> c -> value_of n (addtocounter c v st) = value_of n st.
Proof.
  intros st c v. unfold addtocounter. split; [apply set_value_shape|]. split.
  - rewrite value_of_set_same by apply ensure_keys_in. rewrite ensure_value. reflexivity.
  - intros n H. rewrite value_of_set_other by exact H. apply ensure_value.
Qed.

(** ** The shipped classes: reset graph acyclic (re-proved against the regenerated table) *)

(* a rank that decreases towards the parent rules out cycles *)
Lemma rank_acyclic : forall st (rk : name -> nat),
  (forall n p, parent st n = Some p -> (rk p < rk n)%nat) -> acyclic st.
Proof.
  intros st rk H n Hd.
  assert (G : forall a b, desc (parent st) a b -> (rk b < rk a)%nat).
  { intros a b D. induction D as [m x P|m p x P _ IH]; [apply H; exact P | specialize (H _ _ P); lia]. }
  specialize (G n n Hd). lia.
Qed.

Fixpoint anc_len (fuel : nat) (st : store) (n : name) : nat :=
  match fuel with
  | O => O
  | S f => match parent st n with Some p => S (anc_len f st p) | None => O end
  end.

Definition rank_ok (st : store) : bool :=
  let rk := anc_len (S (length st)) st in
  forallb (fun p => match parent st (fst p) with Some q => Nat.ltb (rk q) (rk (fst p)) | None => true end) st.

Lemma rank_ok_acyclic : forall st, rank_ok st = true -> acyclic st.
Proof.
  intros st H. apply (rank_acyclic st (anc_len (S (length st)) st)). intros n p P.
  unfold rank_ok in H. rewrite forallb_forall in H.
  destruct (parent_resets st n p P) as (c & Hin & _). specialize (H (n, c) Hin). cbn [fst] in H. rewrite P in H.
  apply Nat.ltb_lt. exact H.
Qed.

Fixpoint nodupb (l : list name) : bool :=
  match l with [] => true | a :: r => negb (existsb (name_eqb a) r) && nodupb r end.

Lemma nodupb_sound : forall l, nodupb l = true -> NoDup l.
Proof.
  induction l as [|a l IH]; cbn; intro H; [constructor|]. apply andb_true_iff in H. destruct H as [H1 H2].
  constructor; [|apply IH; exact H2]. intro Hin. apply negb_true_iff in H1.
  assert (existsb (name_eqb a) l = true) by (apply existsb_exists; exists a; split; [exact Hin | apply name_eqb_refl]). congruence.
Qed.

Theorem class_counters_wellformed : forall cls,
  NoDup (keys (m_counters (init_state cls))) /\ acyclic (m_counters (init_state cls)).
Proof.
  intro cls. unfold init_state.
  destruct (cls =? 0); [|destruct (cls =? 1)];
    (split; [apply nodupb_sound; vm_compute; reflexivity | apply rank_ok_acyclic; vm_compute; reflexivity]).
Qed.

(* stepping any counter of a shipped class -- before any user declaration -- ends *)
Corollary class_step_terminates : forall cls c, exists st', stepcounter c (m_counters (init_state cls)) = Some st'.
Proof.
  intros cls c. destruct (class_counters_wellformed cls) as [ND AC].
  destruct (step_resets_transitively _ c ND AC) as (st' & E & _). eauto.
Qed.
