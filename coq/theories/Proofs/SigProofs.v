(* C05 -- M4: the signature compiler (Model of Macro.arguments) inverts the printer of signature ASTs.
   For every signature of the documented grammar -- modifiers * + -, =, mandatory arguments, optional groupings [ ] ( ) < > { },
   names, type tags with optional list/dict delimiter and subtype -- printed with arbitrary blanks between the items and
   inside the groupings:  compile_sig (print_sig s) = SigOk (the arguments s declares). *)
From Coq Require Import List ZArith Bool Lia.
From Verif Require Import Val Units Numeric Args.
Import ListNotations.
Local Open Scope Z_scope.

(* ================================================================ the AST and its printer (Spec side) *)

Definition sp (n : nat) : list Z := repeat 32 n.

Record stype := mkTy { t_name : list Z; t_delim : option Z; t_sub : option (list Z) }.

Inductive sitem :=
| SMod (c : Z)                                   (* * + - *)
| SEq                                            (* = *)
| SArg (name : list Z) (opener : option Z) (ty : option stype) (n1 n2 : nat).    (* n1 n2: blanks inside the grouping *)

Definition body_str (name : list Z) (ty : option stype) : list Z :=
  name ++ match ty with
          | None => []
          | Some t => 58 :: t_name t ++ (match t_delim t with Some d => [40; d; 41] | None => [] end)
                         ++ (match t_sub t with Some s => 58 :: s | None => [] end)
          end.

Definition print_item (it : sitem) : list Z :=
  match it with
  | SMod c => [c]
  | SEq => [61]
  | SArg name None ty _ _ => body_str name ty
  | SArg name (Some o) ty n1 n2 => o :: sp n1 ++ body_str name ty ++ sp n2 ++ [closer o]
  end.

(* each item is followed by at least one blank (more are allowed); blanks may lead *)
Fixpoint print_items (l : list (sitem * nat)) : list Z :=
  match l with
  | [] => []
  | (it, n) :: r => print_item it ++ sp (S n) ++ print_items r
  end.
Definition print_sig (lead : nat) (l : list (sitem * nat)) : list Z := sp lead ++ print_items l.

(* what the item declares *)
Definition arg_of_item (it : sitem) : arg :=
  match it with
  | SMod c => mkArg nm_modifier (Some [c]) None None None false
  | SEq => mkArg nm_equals (Some [61]) None None None false
  | SArg name o ty _ _ =>
      let spec := match o with Some x => Some [x; closer x] | None => None end in
      match ty with
      | None => mkArg name spec None None None true
      | Some t => mkArg name spec (Some (t_name t)) (t_delim t) (t_sub t)
                        (negb (list_eqb (t_name t) n_cs || list_eqb (t_name t) n_nox))
      end
  end.

Definition word (w : list Z) : Prop := w <> [] /\ forallb is_word w = true.

Definition wf_type (t : stype) : Prop :=
  word (t_name t) /\
  match t_delim t with Some d => is_word d = false /\ is_ws d = false /\ d <> 58 | None => True end /\
  match t_sub t with Some s => word s | None => True end.

Definition wf_item (it : sitem) : Prop :=
  match it with
  | SMod c => c = 42 \/ c = 43 \/ c = 45
  | SEq => True
  | SArg name o ty _ _ =>
      word name /\ (exists c r, name = c :: r /\ is_letter c = true) /\
      match o with Some x => x = 91 \/ x = 40 \/ x = 60 \/ x = 123 | None => True end /\
      match ty with Some t => wf_type t | None => True end
  end.

(* ================================================================ the lexer *)

Lemma span_word_spec : forall s a b, span_word s = (a, b) -> s = a ++ b.
Proof.
  induction s as [|c r IH]; intros a b H; cbn in H.
  - inversion H. reflexivity.
  - destruct (is_word c).
    + destruct (span_word r) as [a' b'] eqn:E. inversion H; subst. cbn. f_equal. apply IH. reflexivity.
    + inversion H. reflexivity.
Qed.

(* the part of lex_word after the leading word *)
Definition lex_tail (w r : list Z) : list Z * list Z :=
  match r with
  | 58 :: r1 =>
      let '(ty, r2) := span_word r1 in
      match ty with
      | [] => (w, r)
      | _ =>
          let '(dl, r3) := match r2 with
                           | 40 :: x :: 41 :: r3 => if is_ws x then ([], r2) else ([40; x; 41], r3)
                           | _ => ([], r2)
                           end in
          let '(sub, r4) := match r3 with
                            | 58 :: r4 => let '(st, r5) := span_word r4 in
                                          match st with [] => ([], r3) | _ => (58 :: st, r5) end
                            | _ => ([], r3)
                            end in
          (w ++ 58 :: ty ++ dl ++ sub, r4)
      end
  | _ => (w, r)
  end.

Lemma lex_word_tail : forall s, lex_word s = lex_tail (fst (span_word s)) (snd (span_word s)).
Proof. intros s. unfold lex_word, lex_tail. destruct (span_word s) as [w r]. reflexivity. Qed.

Lemma z_match_neq : forall (k c : Z) A (u v : A), (c =? k) = false ->
  forall f : Z -> A, (forall x, x <> k -> f x = v) -> f c = v.
Proof. intros k c A u v E f Hf. apply Hf. apply Z.eqb_neq. exact E. Qed.

Definition dl_part (r2 : list Z) : list Z * list Z :=
  match r2 with
  | 40 :: x :: 41 :: r3 => if is_ws x then ([], r2) else ([40; x; 41], r3)
  | _ => ([], r2)
  end.

Lemma dl_part_cases : forall r2,
  dl_part r2 = ([], r2) \/ exists x r3, r2 = 40 :: x :: 41 :: r3 /\ is_ws x = false /\ dl_part r2 = ([40; x; 41], r3).
Proof.
  intros r2. unfold dl_part.
  destruct r2 as [|a r]; [left; reflexivity|].
  destruct (a =? 40) eqn:Ea.
  2: { left. destruct a as [|p|p]; try reflexivity.
       do 6 (destruct p as [p|p|]; try reflexivity). cbn in Ea. discriminate. }
  apply Z.eqb_eq in Ea. subst a.
  destruct r as [|x r]; [left; reflexivity|]. destruct r as [|b r3]; [left; reflexivity|].
  destruct (b =? 41) eqn:Eb.
  2: { left. destruct b as [|p|p]; try reflexivity.
       do 6 (destruct p as [p|p|]; try reflexivity). cbn in Eb. discriminate. }
  apply Z.eqb_eq in Eb. subst b.
  destruct (is_ws x) eqn:Ex; [left; reflexivity|]. right. exists x, r3. auto.
Qed.

Lemma dl_shorter : forall r2, (length (snd (dl_part r2)) <= length r2)%nat.
Proof.
  intros r2. destruct (dl_part_cases r2) as [->|(x & r3 & -> & _ & ->)]; cbn [snd length]; lia.
Qed.

Lemma lex_tail_shorter : forall w r w' r', lex_tail w r = (w', r') -> (length r' <= length r)%nat.
Proof.
  intros w r w' r' H. unfold lex_tail in H.
  destruct r as [|c0 r1]; [inversion H; subst; lia|].
  destruct (c0 =? 58) eqn:E58.
  2: { assert (r' = c0 :: r1) as ->; [|lia].
       destruct c0 as [|p|p]; try (inversion H; reflexivity).
       do 6 (destruct p as [p|p|]; try (inversion H; reflexivity)); cbn in E58; discriminate. }
  apply Z.eqb_eq in E58. subst c0.
  destruct (span_word r1) as [ty r2] eqn:E1. pose proof (span_word_spec _ _ _ E1) as S1.
  assert (L2 : (length r2 <= length r1)%nat) by (rewrite S1, app_length; lia).
  destruct ty as [|t0 ty']; [inversion H; subst; cbn [length]; lia|].
  pose proof (dl_shorter r2) as LP. change (match r2 with
            | 40 :: x :: 41 :: r3 => if is_ws x then ([], r2) else ([40; x; 41], r3)
            | _ => ([], r2)
            end) with (dl_part r2) in H.
  destruct (dl_part r2) as [dl r3]. cbn [snd] in LP.
  destruct r3 as [|c3 r4]; [inversion H; subst; cbn [length]; lia|].
  destruct (c3 =? 58) eqn:E3.
  - apply Z.eqb_eq in E3. subst c3.
    destruct (span_word r4) as [st r5] eqn:E4. pose proof (span_word_spec _ _ _ E4) as S4.
    assert (L5 : (length r5 <= length r4)%nat) by (rewrite S4, app_length; lia).
    cbn [length] in LP. destruct st; inversion H; subst; cbn [length]; lia.
  - assert (r' = c3 :: r4) as ->; [|cbn [length] in *; lia].
    destruct c3 as [|p|p]; try (inversion H; reflexivity).
    do 6 (destruct p as [p|p|]; try (inversion H; reflexivity)); cbn in E3; discriminate.
Qed.

(* a word at the head is consumed: what lex_word leaves is shorter than the string without its first character *)
Lemma lex_word_shorter : forall c r w r', is_word c = true -> lex_word (c :: r) = (w, r') -> (length r' <= length r)%nat.
Proof.
  intros c r w r' Hc H. rewrite lex_word_tail in H. cbn [span_word] in H. rewrite Hc in H.
  destruct (span_word r) as [a b] eqn:Eb. cbn [fst snd] in H.
  pose proof (span_word_spec _ _ _ Eb) as Sb. apply lex_tail_shorter in H. rewrite Sb, app_length. lia.
Qed.

(* the fuel of lex_sig is irrelevant once it covers the string *)
Lemma lex_sig_fuel : forall f1 f2 s, (length s <= f1)%nat -> (length s <= f2)%nat -> lex_sig f1 s = lex_sig f2 s.
Proof.
  induction f1 as [|f1 IH]; intros f2 s H1 H2.
  - destruct s; [|cbn in H1; lia]. destruct f2; reflexivity.
  - destruct s as [|c r]; [destruct f2; reflexivity|].
    destruct f2 as [|f2]; [cbn in H2; lia|]. cbn [lex_sig]. cbn [length] in H1, H2.
    destruct (is_word c) eqn:Ew.
    + destruct (lex_word (c :: r)) as [w r'] eqn:El. f_equal.
      pose proof (lex_word_shorter _ _ _ _ Ew El) as L. apply IH; lia.
    + destruct (is_ws c); [|f_equal]; apply IH; lia.
Qed.

(* ---- lexing a printed body *)

Definition stop (h : Z) : Prop := h = 32 \/ h = 93 \/ h = 41 \/ h = 62 \/ h = 125.
Definition rest_ok (rest : list Z) : Prop := rest = [] \/ exists h t, rest = h :: t /\ stop h.

Lemma span_word_app : forall w rest, forallb is_word w = true ->
  (rest = [] \/ exists h t, rest = h :: t /\ is_word h = false) -> span_word (w ++ rest) = (w, rest).
Proof.
  induction w as [|c w IH]; intros rest Hw Hr.
  - cbn [app]. destruct Hr as [->|(h & t & -> & Hh)]; [reflexivity|]. cbn. rewrite Hh. reflexivity.
  - cbn in Hw. apply andb_prop in Hw. destruct Hw as (Hc & Hw). cbn [app span_word]. rewrite Hc, (IH rest Hw Hr). reflexivity.
Qed.

Definition ty_str (ty : option stype) : list Z :=
  match ty with
  | None => []
  | Some t => 58 :: t_name t ++ (match t_delim t with Some d => [40; d; 41] | None => [] end)
                 ++ (match t_sub t with Some s => 58 :: s | None => [] end)
  end.

Lemma body_str_eq : forall name ty, body_str name ty = name ++ ty_str ty.
Proof. intros name [t|]; reflexivity. Qed.

Lemma stop_not_word : forall h, stop h -> is_word h = false /\ h <> 58 /\ h <> 40.
Proof. intros h [->|[->|[->|[->| ->]]]]; repeat split; try reflexivity; discriminate. Qed.

Ltac stop_cases H := destruct H as [->|[->|[->|[->| ->]]]].

Lemma lex_tail_body : forall name ty rest,
  match ty with Some t => wf_type t | None => True end -> rest_ok rest ->
  lex_tail name (ty_str ty ++ rest) = (name ++ ty_str ty, rest).
Proof.
  intros name ty rest Hty Hrest.
  destruct ty as [[tn td ts]|].
  2: { cbn [ty_str app]. rewrite app_nil_r. destruct Hrest as [->|(h & t & -> & Hs)]; [reflexivity|]. stop_cases Hs; reflexivity. }
  destruct Hty as ((Htn0 & Htn) & Hd & Hs). cbn [t_name t_delim t_sub] in *.
  cbn [ty_str t_name t_delim t_sub]. rewrite <- app_comm_cons. unfold lex_tail.
  set (dpart := match td with Some d => [40; d; 41] | None => [] end).
  set (spart := match ts with Some s => 58 :: s | None => [] end).
  rewrite <- !app_assoc.
  assert (Hhead : (dpart ++ spart ++ rest = [] \/ exists h t, dpart ++ spart ++ rest = h :: t /\ is_word h = false)).
  { unfold dpart, spart. destruct td as [d|]; [right; eexists; eexists; split; [reflexivity|reflexivity]|].
    destruct ts as [s|]; [right; eexists; eexists; split; [reflexivity|reflexivity]|].
    cbn [app]. destruct Hrest as [->|(h & t & -> & Hst)]; [left; reflexivity|].
    right. exists h, t. split; [reflexivity|]. apply stop_not_word, Hst. }
  rewrite (span_word_app tn _ Htn Hhead).
  destruct tn as [|t0 tn']; [congruence|].
  (* the delimiter part *)
  assert (Hdl : dl_part (dpart ++ spart ++ rest) = (dpart, spart ++ rest)).
  { unfold dpart. destruct td as [d|].
    - destruct Hd as (_ & Hws & _). cbn [app]. unfold dl_part. rewrite Hws. reflexivity.
    - cbn [app]. unfold spart. destruct ts as [s|]; [reflexivity|]. cbn [app].
      destruct Hrest as [->|(h & t & -> & Hst)]; [reflexivity|]. stop_cases Hst; reflexivity. }
  change (match dpart ++ spart ++ rest with
          | 40 :: x :: 41 :: r3 => if is_ws x then ([], dpart ++ spart ++ rest) else ([40; x; 41], r3)
          | _ => ([], dpart ++ spart ++ rest)
          end) with (dl_part (dpart ++ spart ++ rest)).
  rewrite Hdl.
  (* the subtype part *)
  unfold spart. destruct ts as [s|].
  - destruct Hs as (Hs0 & Hsw). cbn [app].
    assert (Hr : rest = [] \/ exists h t, rest = h :: t /\ is_word h = false).
    { destruct Hrest as [->|(h & t & -> & Hst)]; [left; reflexivity|]. right. exists h, t. split; [reflexivity|apply stop_not_word, Hst]. }
    rewrite (span_word_app s rest Hsw Hr). destruct s as [|s0 s']; [congruence|]. reflexivity.
  - cbn [app]. rewrite app_nil_r.
    destruct Hrest as [->|(h & t & -> & Hst)]; [rewrite app_nil_r; reflexivity|]. stop_cases Hst; rewrite app_nil_r; reflexivity.
Qed.

Lemma lex_word_body : forall name ty rest,
  word name -> match ty with Some t => wf_type t | None => True end -> rest_ok rest ->
  lex_word (body_str name ty ++ rest) = (body_str name ty, rest).
Proof.
  intros name ty rest (Hn0 & Hnw) Hty Hrest. rewrite body_str_eq, <- app_assoc, lex_word_tail.
  assert (Hhead : ty_str ty ++ rest = [] \/ exists h t, ty_str ty ++ rest = h :: t /\ is_word h = false).
  { destruct ty as [t|]; [right; eexists; eexists; split; reflexivity|]. cbn [ty_str app].
    destruct Hrest as [->|(h & t & -> & Hst)]; [left; reflexivity|]. right. exists h, t. split; [reflexivity|apply stop_not_word, Hst]. }
  rewrite (span_word_app name _ Hnw Hhead). cbn [fst snd]. apply lex_tail_body; assumption.
Qed.

(* ---- lexing a printed signature *)

Definition lexs (s : list Z) : list (list Z) := lex_sig (length s) s.

Lemma lexs_blank : forall r, lexs (32 :: r) = lexs r.
Proof. reflexivity. Qed.

Lemma lexs_sp : forall n r, lexs (sp n ++ r) = lexs r.
Proof. induction n as [|n IH]; intros r; [reflexivity|]. cbn [sp repeat app]. rewrite lexs_blank. apply IH. Qed.

Lemma lexs_punct : forall c r, is_word c = false -> is_ws c = false -> lexs (c :: r) = [c] :: lexs r.
Proof. intros c r H1 H2. unfold lexs. cbn [length lex_sig]. rewrite H1, H2. reflexivity. Qed.

Lemma lexs_body : forall name ty rest,
  word name -> match ty with Some t => wf_type t | None => True end -> rest_ok rest ->
  lexs (body_str name ty ++ rest) = body_str name ty :: lexs rest.
Proof.
  intros name ty rest Hn Hty Hrest. pose proof (lex_word_body name ty rest Hn Hty Hrest) as Hl.
  destruct Hn as (Hn0 & Hnw). destruct name as [|c nr]; [congruence|].
  cbn in Hnw. apply andb_prop in Hnw. destruct Hnw as (Hc & _).
  unfold lexs. rewrite body_str_eq in *. cbn [app length lex_sig] in *. rewrite Hc, Hl. f_equal.
  apply lex_sig_fuel; [|lia]. rewrite !app_length. lia.
Qed.

Definition tokens_item (it : sitem) : list (list Z) :=
  match it with
  | SMod c => [[c]]
  | SEq => [[61]]
  | SArg name None ty _ _ => [body_str name ty]
  | SArg name (Some o) ty _ _ => [[o]; body_str name ty; [closer o]]
  end.

Lemma lexs_item : forall it n tail, wf_item it ->
  lexs (print_item it ++ sp (S n) ++ tail) = tokens_item it ++ lexs tail.
Proof.
  intros it n tail Hwf. destruct it as [c| |name [o|] ty n1 n2]; cbn [print_item tokens_item app].
  - destruct Hwf as [->|[->| ->]]; rewrite lexs_punct by reflexivity; rewrite lexs_sp; reflexivity.
  - rewrite lexs_punct by reflexivity. rewrite lexs_sp. reflexivity.
  - destruct Hwf as (Hn & _ & Ho & Hty).
    assert (Hop : is_word o = false /\ is_ws o = false) by (destruct Ho as [->|[->|[->| ->]]]; split; reflexivity).
    assert (Hcl : is_word (closer o) = false /\ is_ws (closer o) = false /\ stop (closer o)).
    { destruct Ho as [->|[->|[->| ->]]]; repeat split; try reflexivity; unfold stop; cbn; auto. }
    destruct Hop as (Ho1 & Ho2). destruct Hcl as (Hc1 & Hc2 & Hc3).
    rewrite lexs_punct by assumption. rewrite <- !app_assoc, lexs_sp.
    rewrite lexs_body; auto.
    + rewrite lexs_sp. cbn [app]. rewrite lexs_punct by assumption. rewrite lexs_sp. reflexivity.
    + destruct n2 as [|n2]; right; cbn [sp repeat app]; eexists; eexists; (split; [reflexivity|]); [exact Hc3|left; reflexivity].
  - destruct Hwf as (Hn & _ & _ & Hty). rewrite lexs_body; auto.
    + rewrite lexs_sp. reflexivity.
    + right. cbn [sp repeat app]. eexists; eexists. split; [reflexivity|left; reflexivity].
Qed.

Lemma lexs_items : forall (l : list (sitem * nat)), Forall wf_item (map fst l) ->
  lexs (print_items l) = concat (map (fun p => tokens_item (fst p)) l).
Proof.
  induction l as [|[it n] l IH]; intros Hwf; [reflexivity|].
  inversion Hwf as [|? ? Hit Hl]; subst. cbn [print_items map concat fst].
  rewrite (lexs_item it n _ Hit), (IH Hl). reflexivity.
Qed.

(* ---- the item loop *)

Lemma word_no_colon : forall w, forallb is_word w = true -> Forall (fun x => x <> 58) w.
Proof.
  induction w as [|c w IH]; intros H; [constructor|]. cbn in H. apply andb_prop in H. destruct H as (Hc & Hw).
  constructor; [intros ->; discriminate|auto].
Qed.

Lemma split_colon_plain : forall w cur, Forall (fun x => x <> 58) w -> split_colon w cur = [rev cur ++ w].
Proof.
  induction w as [|c w IH]; intros cur H; cbn [split_colon].
  - rewrite app_nil_r. reflexivity.
  - inversion H as [|? ? Hc Hw]; subst. replace (c =? 58) with false by (symmetry; apply Z.eqb_neq, Hc).
    rewrite (IH _ Hw). cbn [rev]. rewrite <- app_assoc. reflexivity.
Qed.

Lemma split_colon_app : forall w cur r, Forall (fun x => x <> 58) w ->
  split_colon (w ++ 58 :: r) cur = (rev cur ++ w) :: split_colon r [].
Proof.
  induction w as [|c w IH]; intros cur r H; cbn [app split_colon].
  - rewrite app_nil_r. reflexivity.
  - inversion H as [|? ? Hc Hw]; subst. replace (c =? 58) with false by (symmetry; apply Z.eqb_neq, Hc).
    rewrite (IH _ _ Hw). cbn [rev]. rewrite <- app_assoc. reflexivity.
Qed.

Lemma letter_plain : forall c, is_letter c = true ->
  (c =? 42) = false /\ (c =? 43) = false /\ (c =? 45) = false /\ (c =? 61) = false /\ (c =? 91) = false /\ (c =? 40) = false /\
  (c =? 60) = false /\ (c =? 123) = false /\ (c =? 93) = false /\ (c =? 41) = false /\ (c =? 62) = false /\ (c =? 125) = false.
Proof.
  intros c H. unfold is_letter in H. apply orb_prop in H.
  destruct H as [H|H]; apply andb_prop in H; destruct H as (H1 & H2); apply Z.leb_le in H1, H2;
  repeat split; apply Z.eqb_neq; lia.
Qed.

Definition dpart_of (t : stype) : list Z := match t_delim t with Some d => [40; d; 41] | None => [] end.

Lemma type_and_delim_printed : forall t, wf_type t ->
  type_and_delim (S (length (t_name t ++ dpart_of t))) (t_name t ++ dpart_of t) = Some (t_name t, t_delim t).
Proof.
  intros [tn td ts] ((Htn0 & Htn) & Hd & _). cbn [t_name t_delim t_sub dpart_of] in *.
  destruct tn as [|t0 tn']; [congruence|]. cbn [app type_and_delim].
  pose proof Htn as Htn'. cbn in Htn'. apply andb_prop in Htn'. destruct Htn' as (Ht0 & _). rewrite Ht0.
  destruct td as [d|]; unfold dpart_of; cbn [t_delim].
  - destruct Hd as (Hdw & _ & _). rewrite app_comm_cons.
    rewrite (span_word_app (t0 :: tn') [40; d; 41] Htn); [|right; eexists; eexists; split; reflexivity].
    rewrite Hdw. reflexivity.
  - rewrite app_nil_r. pose proof (span_word_app (t0 :: tn') [] Htn (or_introl eq_refl)) as Hsw. rewrite app_nil_r in Hsw.
    rewrite Hsw. reflexivity.
Qed.

Lemma compile_body : forall name ty spec its acc n1 n2 o,
  wf_item (SArg name o ty n1 n2) ->
  compile_items (body_str name ty :: its) spec acc =
  compile_items its None
    (match ty with
     | None => mkArg name spec None None None true
     | Some t => mkArg name spec (Some (t_name t)) (t_delim t) (t_sub t) (negb (list_eqb (t_name t) n_cs || list_eqb (t_name t) n_nox))
     end :: acc).
Proof.
  intros name ty spec its acc n1 n2 o ((Hn0 & Hnw) & (c & nr & -> & Hc) & _ & Hty).
  destruct (letter_plain c Hc) as (E1 & E2 & E3 & E4 & E5 & E6 & E7 & E8 & E9 & E10 & E11 & E12).
  pose proof (word_no_colon _ Hnw) as Hnc.
  destruct ty as [t|].
  - (* typed *)
    pose proof Hty as ((Htn0 & Htn) & Hd & Hs).
    rewrite body_str_eq. cbn [ty_str]. cbn [compile_items].
    assert (Hsplit : split_colon ((c :: nr) ++ 58 :: t_name t ++ dpart_of t ++ match t_sub t with Some s => 58 :: s | None => [] end) []
                     = (c :: nr) :: (t_name t ++ dpart_of t) :: match t_sub t with Some s => [s] | None => [] end).
    { rewrite (split_colon_app (c :: nr) [] _ Hnc). cbn [rev app]. f_equal.
      assert (Hp : Forall (fun x => x <> 58) (t_name t ++ dpart_of t)).
      { apply Forall_app. split; [apply word_no_colon, Htn|]. unfold dpart_of. destruct (t_delim t) as [d|]; [|constructor].
        destruct Hd as (_ & _ & Hd58). repeat constructor; try discriminate. exact Hd58. }
      destruct (t_sub t) as [s|].
      - rewrite app_assoc, (split_colon_app _ [] s Hp). cbn [rev app]. f_equal.
        destruct Hs as (_ & Hsw). rewrite (split_colon_plain s [] (word_no_colon _ Hsw)). reflexivity.
      - rewrite app_nil_r, (split_colon_plain _ [] Hp). reflexivity. }
    unfold dpart_of in Hsplit.
    destruct nr as [|c2 nr'].
    + cbn [app] in *. rewrite Hc. rewrite Hsplit.
      pose proof (type_and_delim_printed t Hty) as Htd. unfold dpart_of in Htd. rewrite Htd.
      destruct (t_sub t); reflexivity.
    + cbn [app] in *. rewrite Hc. rewrite Hsplit.
      pose proof (type_and_delim_printed t Hty) as Htd. unfold dpart_of in Htd. rewrite Htd.
      destruct (t_sub t); reflexivity.
  - (* untyped *)
    rewrite body_str_eq. cbn [ty_str]. rewrite app_nil_r. cbn [compile_items].
    destruct nr as [|c2 nr'].
    + rewrite E1, E2, E3, E4, E5, E6, E7, E8, E9, E10, E11, E12, Hc. reflexivity.
    + rewrite Hc, (split_colon_plain _ [] Hnc). reflexivity.
Qed.

Lemma compile_item : forall it its acc, wf_item it ->
  compile_items (tokens_item it ++ its) None acc = compile_items its None (arg_of_item it :: acc).
Proof.
  intros it its acc Hwf. destruct it as [c| |name [o|] ty n1 n2]; cbn [tokens_item app arg_of_item].
  - destruct Hwf as [->|[->| ->]]; reflexivity.
  - reflexivity.
  - pose proof Hwf as (_ & _ & Ho & _).
    assert (Hopen : compile_items ([o] :: body_str name ty :: [closer o] :: its) None acc
                    = compile_items (body_str name ty :: [closer o] :: its) (Some [o; closer o]) acc).
    { destruct Ho as [->|[->|[->| ->]]]; reflexivity. }
    rewrite Hopen, (compile_body name ty _ _ acc n1 n2 (Some o) Hwf).
    destruct Ho as [->|[->|[->| ->]]]; destruct ty; reflexivity.
  - rewrite (compile_body name ty _ _ acc n1 n2 None Hwf). destruct ty; reflexivity.
Qed.

Lemma compile_tokens : forall (l : list (sitem * nat)) acc, Forall wf_item (map fst l) ->
  compile_items (concat (map (fun p => tokens_item (fst p)) l)) None acc = SigOk (rev acc ++ map (fun p => arg_of_item (fst p)) l).
Proof.
  induction l as [|[it n] l IH]; intros acc Hwf.
  - cbn. rewrite app_nil_r. reflexivity.
  - inversion Hwf as [|? ? Hit Hl]; subst. cbn [map concat fst].
    rewrite (compile_item it _ acc Hit), (IH _ Hl). cbn [rev]. rewrite <- app_assoc. reflexivity.
Qed.

(* M4 *)
Theorem compile_print_sig : forall lead (l : list (sitem * nat)), Forall wf_item (map fst l) ->
  compile_sig (print_sig lead l) = SigOk (map (fun p => arg_of_item (fst p)) l).
Proof.
  intros lead l Hwf. unfold compile_sig, print_sig.
  change (lex_sig (length (sp lead ++ print_items l)) (sp lead ++ print_items l)) with (lexs (sp lead ++ print_items l)).
  rewrite lexs_sp, (lexs_items l Hwf). exact (compile_tokens l [] Hwf).
Qed.
