(* C04 deepening: (1) the category table in force in the Model of Context is the grouped table of Model/Tokenizer.v
   (apply_gops, proved for C01) run on the trace of the history; (2) \begin{x} .. \end{x} of any name is a group. *)
From Coq Require Import List NArith ZArith Bool Lia.
Import ListNotations.
From Verif Require Import Val Tokenizer TokenizerProofs Scope Context ContextProofs.
Local Open Scope N_scope.

(* ------------------------------------------------------------------------------------------------ *)
(* tables of the frames, top first, the global frame last: head = table in force, tail = tables saved by the open groups *)
Definition tabs (s : state) : list table := map (fun f => table_at s (cats f)) (ups s ++ [bottom s]).
Definition curt (s : state) : table := hd [] (tabs s).
Definition saved (s : state) : list table := tl (tabs s).

Definition g_enter : N * N := (0, 16).
Definition g_leave : N * N := (0, 17).

(* what one operation is for the grouped table: a push enters a group, a pop leaves as many groups as it removes frames
   (pop(obj) / pop() may remove several, or none at the global level), \catcode assigns; nothing else touches tables *)
Definition gop_of (o : op) (s : state) : list (N * N) :=
  match o with
  | Push _ => [g_enter]
  | Pop _ => repeat g_leave (length (ups s) - length (ups (step o s)))
  | Catcode c k => [(c, k)]
  | _ => []
  end.
Fixpoint gtrace (h : list op) (s : state) : list (N * N) :=
  match h with [] => [] | o :: r => gop_of o s ++ gtrace r (step o s) end.

(* operations the grouped table of C01 speaks about: no setVerbatimCatcodes, no document-level push, valid codes *)
Definition gop_ok (o : op) : bool :=
  match o with
  | Verbatim => false
  | Push x => negb (is_doc x)
  | Catcode _ k => k <? 16
  | _ => true
  end.

Lemma curt_which s : wf s -> curt s = table_at s (cur s).
Proof.
  intros (Hc & _). unfold curt, tabs. rewrite Hc. unfold top. destruct (ups s); reflexivity.
Qed.

Lemma tabs_ext (fs : list frame) (s s' : state) :
  (exists ext, heap s' = heap s ++ ext) -> Forall (fun f => (cats f < length (heap s))%nat) fs ->
  map (fun f => table_at s' (cats f)) fs = map (fun f => table_at s (cats f)) fs.
Proof.
  intros (ext & Hh) Hf. induction Hf as [|f fs Hlt _ IH]; cbn; [reflexivity|]. rewrite IH. f_equal.
  unfold table_at at 1. rewrite Hh. now apply table_at_ext.
Qed.

(* leaving n groups *)
Lemma apply_gops_leave (l1 l2 : list table) t rest :
  apply_gops (tl (l1 ++ t :: l2)) (hd [] (l1 ++ t :: l2)) (repeat g_leave (length l1) ++ rest) = apply_gops l2 t rest.
Proof.
  induction l1 as [|a l1 IH]; cbn [app length repeat hd tl]; [reflexivity|].
  cbn [apply_gops g_leave]. replace (17 =? 16) with false by reflexivity. replace (17 =? 17) with true by reflexivity.
  destruct l1 as [|b l1]; cbn [app] in *; exact IH.
Qed.

Lemma tabs_neutral s s' :
  ups s' ++ [bottom s'] = ups s ++ [bottom s] \/ map cats (ups s' ++ [bottom s']) = map cats (ups s ++ [bottom s]) ->
  heap s' = heap s -> tabs s' = tabs s.
Proof.
  intros H Hh. unfold tabs, table_at. rewrite Hh. destruct H as [->|H]; [reflexivity|].
  rewrite <- (map_map cats (fun r => nth r (heap s) [])), H, map_map. reflexivity.
Qed.

Lemma cats_upd_top g s : (forall f, cats (g f) = cats f) ->
  map cats (ups (upd_top g s) ++ [bottom (upd_top g s)]) = map cats (ups s ++ [bottom s]).
Proof. intros Hg. destruct s as [u b hp cr m]. destruct u; cbn; now rewrite Hg. Qed.
Lemma cats_upd_bottom g s : (forall f, cats (g f) = cats f) ->
  map cats (ups (upd_bottom g s) ++ [bottom (upd_bottom g s)]) = map cats (ups s ++ [bottom s]).
Proof. intros Hg. cbn. rewrite !map_app. cbn. now rewrite Hg. Qed.
Lemma cats_getitem k s :
  map cats (ups (fst (getitem k s)) ++ [bottom (fst (getitem k s))]) = map cats (ups s ++ [bottom s]).
Proof. unfold getitem. destruct (lookup s k); [reflexivity|]. now apply cats_upd_bottom. Qed.

Lemma tabs_getitem k s : tabs (fst (getitem k s)) = tabs s.
Proof. apply tabs_neutral; [right; apply cats_getitem|apply getitem_heap]. Qed.

Lemma tabs_let_macro l d src s : tabs (let_macro l d src s) = tabs s.
Proof.
  unfold let_macro. destruct (getitem src s) as [s1 v] eqn:E.
  assert (tabs s1 = tabs s) as <- by (change s1 with (fst (s1, v)); rewrite <- E; apply tabs_getitem).
  apply tabs_neutral; [right|apply heap_upd_target].
  destruct l; [now apply cats_upd_top|now apply cats_upd_bottom].
Qed.

(* one step *)
Lemma gops_step o s rest :
  wf s -> gop_ok o = true ->
  apply_gops (saved s) (curt s) (gop_of o s ++ rest) = apply_gops (saved (step o s)) (curt (step o s)) rest.
Proof.
  intros Hwf Hok. unfold saved, curt.
  destruct o; cbn [gop_ok] in Hok; try discriminate; cbn [gop_of app].
  - (* push *)
    apply negb_true_iff in Hok. cbn [step]. unfold push. rewrite Hok. cbn [apply_gops g_enter].
    replace (16 =? 16) with true by reflexivity.
    assert (tabs (map_methods (set_ups s ({| macros := locals_of o; lets := []; cats := cur s; fobj := o |} :: ups s)))
            = table_at s (cur s) :: tabs s) as -> by reflexivity.
    cbn [hd tl]. rewrite <- (curt_which s Hwf). unfold curt.
    destruct (tabs s) eqn:E; [|reflexivity].
    unfold tabs in E. destruct (ups s); discriminate E.
  - (* pop *)
    cbn [step]. set (s' := pop o s).
    assert (exists pre, ups s = pre ++ ups s') as (pre & Hpre).
    { unfold s', pop. cbn. destruct o as [p|]; [apply pop_obj_suffix|apply pop_none_suffix]. }
    assert (length (ups s) - length (ups s') = length pre)%nat as ->.
    { rewrite Hpre at 1. rewrite app_length. lia. }
    assert (tabs s = map (fun f => table_at s (cats f)) pre ++ tabs s') as ->.
    { unfold tabs. rewrite Hpre at 1. rewrite <- app_assoc, map_app. reflexivity. }
    rewrite <- (map_length (fun f => table_at s (cats f)) pre).
    destruct (tabs s') as [|t l2] eqn:E.
    { unfold tabs in E. destruct (ups s'); discriminate E. }
    apply apply_gops_leave.
  - rewrite (tabs_neutral s (step (AddLocal k v) s)); [reflexivity|right; now apply cats_upd_top|apply heap_upd_top].
  - rewrite (tabs_neutral s (step (AddGlobal k v) s)); [reflexivity|right; now apply cats_upd_bottom|reflexivity].
  - cbn [step]. now rewrite tabs_let_macro.
  - rewrite (tabs_neutral s (step (LetTok d t) s)); [reflexivity|right; now apply cats_upd_top|apply heap_upd_top].
  - cbn [step]. now rewrite tabs_let_macro.
  - rewrite (tabs_neutral s (step (GLetTok d t) s)); [reflexivity|right; now apply cats_upd_bottom|reflexivity].
  - (* catcode *)
    cbn [apply_gops]. apply N.ltb_lt in Hok.
    assert ((k =? 16) = false) as -> by (apply N.eqb_neq; lia).
    assert ((k =? 17) = false) as -> by (apply N.eqb_neq; lia).
    assert (tabs (step (Catcode c k) s) = set_catcode (table_at s (cur s)) c k :: tl (tabs s)) as ->.
    { destruct Hwf as (Hc & Hf). cbn [step]. unfold tabs.
      destruct s as [u b hp cr m]. cbn in Hc, Hf.
      assert (forall fs, Forall (fun f => (cats f < length hp)%nat) fs ->
                map (fun f => nth (cats f) (hp ++ [set_catcode (nth cr hp []) c k]) []) fs = map (fun f => nth (cats f) hp []) fs) as Hext.
      { intros fs Hfs. induction Hfs as [|f fs Hlt _ IH]; cbn; [reflexivity|]. rewrite IH. f_equal. now apply app_nth1. }
      destruct u as [|f r]; unfold catcode, alloc, heap_update, upd_top, table_at; cbn; rewrite update_nth_app_length; cbn.
      - now rewrite nth_middle.
      - rewrite nth_middle. f_equal. apply Hext. now inversion Hf. }
    cbn [hd tl]. now rewrite <- (curt_which s Hwf).
  - cbn [step]. now rewrite tabs_getitem.
  - rewrite (tabs_neutral s (step (NewIf k kt kf v vt vf cell init) s)); [reflexivity| |].
    + right. cbn [step]. unfold new_if. destruct (lookup s k); [reflexivity|]. cbn. rewrite !map_app. reflexivity.
    + cbn [step]. unfold new_if. destruct (lookup s k); reflexivity.
  - rewrite (tabs_neutral s (step (NewCounter c thek v init) s)); [reflexivity| |].
    + right. cbn [step]. unfold new_counter. destruct (find c (m_cells s)); [reflexivity|]. cbn. rewrite !map_app. reflexivity.
    + cbn [step]. unfold new_counter. destruct (find c (m_cells s)); reflexivity.
  - reflexivity.
Qed.

(* the refinement: for every history the grouped table of C01 computes on the trace what Context computes on its heap *)
Theorem table_refines_gops h : forall s rest,
  wf s -> forallb gop_ok h = true ->
  apply_gops (saved s) (curt s) (gtrace h s ++ rest) = apply_gops (saved (run h s)) (curt (run h s)) rest.
Proof.
  induction h as [|o h IH]; intros s rest Hwf Hok; [reflexivity|].
  cbn in Hok. apply andb_true_iff in Hok. destruct Hok as (Ho & Hok).
  cbn [gtrace]. rewrite <- app_assoc, (gops_step o s _ Hwf Ho). rewrite run_cons. apply IH; [now apply step_wf|assumption].
Qed.

Corollary which_is_gops h s c :
  wf s -> forallb gop_ok h = true ->
  which (run h s) c = which_code (apply_gops (saved s) (curt s) (gtrace h s)) c.
Proof.
  intros Hwf Hok. pose proof (table_refines_gops h s [] Hwf Hok) as H. rewrite app_nil_r in H. cbn [apply_gops] in H.
  unfold which. rewrite <- (curt_which _ (run_wf h s Hwf)). now rewrite H.
Qed.

(* ------------------------------------------------------------------------------------------------ *)
(* the brace fragment: only anonymous groups. There the trace is the history itself, read off syntactically, and C01's
   theorem about grouped tables (group_restores_table) gives the restoration of the category table a second time. *)
Definition gops_of (h : list op) : list (N * N) :=
  flat_map (fun o => match o with Push _ => [g_enter] | Pop _ => [g_leave] | Catcode c k => [(c, k)] | _ => [] end) h.

Lemma gops_of_cons o h : gops_of (o :: h) = gops_of [o] ++ gops_of h.
Proof. unfold gops_of. cbn [flat_map]. now rewrite app_nil_r. Qed.

Definition anon_ok (o : op) : bool :=
  match o with
  | Push None | Pop None => true
  | Push (Some _) | Pop (Some _) => false
  | _ => gop_ok o
  end.

Definition all_anon (s : state) : Prop := Forall (fun t => t = None) (tags s).

Lemma anon_gop_ok o : anon_ok o = true -> gop_ok o = true.
Proof. destruct o as [[x|]|[x|]| | | | | | | | | | | |]; cbn; intros H; try discriminate; try assumption; reflexivity. Qed.

Lemma tpop_none_suffix ts : exists pre, ts = pre ++ tpop_none ts.
Proof.
  induction ts as [|t r (pre & IH)]; cbn; [now exists []|]. destruct t; [exists (Some o :: pre); cbn; now rewrite <- IH|now exists [None]].
Qed.

Lemma all_anon_step o s : anon_ok o = true -> all_anon s -> all_anon (step o s).
Proof.
  unfold all_anon. intros Hok Ha. rewrite tags_step.
  destruct o as [[x|]|[x|]| | | | | | | | | | | |]; cbn [anon_ok] in Hok; try discriminate; cbn [tstep is_doc]; try assumption.
  - now constructor.
  - destruct (tpop_none_suffix (tags s)) as (pre & E). rewrite E in Ha. now apply Forall_suffix in Ha.
Qed.

Lemma saved_nil s : ups s = [] -> saved s = [].
Proof. intros E. unfold saved, tabs. now rewrite E. Qed.

Lemma gops_step_anon o s rest :
  wf s -> all_anon s -> anon_ok o = true ->
  apply_gops (saved s) (curt s) (gops_of [o] ++ rest) = apply_gops (saved (step o s)) (curt (step o s)) rest.
Proof.
  intros Hwf Ha Hok. rewrite <- (gops_step o s rest Hwf (anon_gop_ok o Hok)).
  destruct o as [[x|]|[x|]| | | | | | | | | | | |]; cbn [anon_ok] in Hok; try discriminate; try reflexivity.
  (* pop(): exactly one frame if there is one, none at the global level (where apply_gops ignores the leave, too) *)
  cbn [gops_of flat_map gop_of app]. cbn [step]. unfold pop. cbn [ups set_ups map_methods set_cur].
  destruct (ups s) as [|f r] eqn:E.
  - cbn [pop_none length Nat.sub repeat app]. rewrite (saved_nil s E). reflexivity.
  - unfold all_anon, tags in Ha. rewrite E in Ha. cbn in Ha. inversion Ha as [|? ? Hf _]; subst. cbn [pop_none]. rewrite Hf.
    cbn [length]. replace (S (length r) - length r)%nat with 1%nat by lia. reflexivity.
Qed.

Theorem table_refines_gops_braces h : forall s rest,
  wf s -> all_anon s -> forallb anon_ok h = true ->
  apply_gops (saved s) (curt s) (gops_of h ++ rest) = apply_gops (saved (run h s)) (curt (run h s)) rest.
Proof.
  induction h as [|o h IH]; intros s rest Hwf Ha Hok; [reflexivity|].
  cbn in Hok. apply andb_true_iff in Hok. destruct Hok as (Ho & Hok).
  rewrite gops_of_cons, <- app_assoc, (gops_step_anon o s (gops_of h ++ rest) Hwf Ha Ho), run_cons. apply IH; [now apply step_wf|now apply all_anon_step|assumption].
Qed.

(* the table in force after { b } is the one before it, by C01's group_restores_table applied to the trace of b *)
Theorem group_restores_table_via_C01 s b :
  wf s -> all_anon s -> forallb anon_ok b = true -> bal 0 (gops_of b) = true ->
  curt (run (Push None :: b ++ [Pop None]) s) = curt s /\ forall c, which (run (Push None :: b ++ [Pop None]) s) c = which s c.
Proof.
  intros Hwf Ha Hok Hbal.
  assert (curt (run (Push None :: b ++ [Pop None]) s) = curt s) as Hc.
  { assert (forallb anon_ok (Push None :: b ++ [Pop None]) = true) as Hok'.
    { cbn. rewrite forallb_app, Hok. reflexivity. }
    pose proof (table_refines_gops_braces _ s [] Hwf Ha Hok') as H. rewrite app_nil_r in H. change (apply_gops (saved (run (Push None :: b ++ [Pop None]) s)) (curt (run (Push None :: b ++ [Pop None]) s)) []) with (curt (run (Push None :: b ++ [Pop None]) s)) in H. rewrite <- H.
    assert (gops_of (Push None :: b ++ [Pop None]) = g_enter :: gops_of b ++ g_leave :: []) as ->.
    { unfold gops_of. cbn [flat_map app]. rewrite flat_map_app. reflexivity. }
    unfold g_enter, g_leave. now rewrite (group_restores_table (gops_of b) (saved s) (curt s) 0 0 [] Hbal). }
  split; [exact Hc|]. intros c. unfold which.
  rewrite <- (curt_which _ (run_wf _ s Hwf)), <- (curt_which s Hwf). now rewrite Hc.
Qed.

(* balanced histories of the brace fragment have balanced traces (Spec/Scope.v Bal vs Model/Tokenizer.v bal) *)
Lemma bal_gops K h : Bal K h -> K <> InObj -> forallb anon_ok h = true -> forall d rest, bal d (gops_of h ++ rest) = bal d rest.
Proof.
  induction 1 as [K|K o h Hs _ IH|K b h _ IHb _ IHh|K o p b h Hd Hc _ IHb _ IHh|h _ IH|o h Hd _ IH]; intros HK Hok d rest.
  - reflexivity.
  - cbn in Hok. apply andb_true_iff in Hok. destruct Hok as (Ho & Hok).
    rewrite gops_of_cons, <- app_assoc.
    destruct o as [x|x| | | | | | | | | | | |]; cbn [simple] in Hs; try discriminate; unfold gops_of at 1; cbn [flat_map app]; try (now apply IH).
    cbn [anon_ok gop_ok] in Ho. apply N.ltb_lt in Ho. cbn [bal].
    assert ((k =? 16) = false) as -> by (apply N.eqb_neq; lia). assert ((k =? 17) = false) as -> by (apply N.eqb_neq; lia).
    now apply IH.
  - cbn in Hok. rewrite forallb_app in Hok. cbn in Hok. apply andb_true_iff in Hok. destruct Hok as (Hb & Hh).
    assert (gops_of (Push None :: b ++ Pop None :: h) = g_enter :: gops_of b ++ g_leave :: gops_of h) as ->.
    { unfold gops_of. cbn [flat_map app]. rewrite flat_map_app. reflexivity. }
    cbn [app bal g_enter]. replace (16 =? 16) with true by reflexivity. rewrite <- app_assoc.
    rewrite (IHb (fun E => ltac:(discriminate E)) Hb). cbn [app bal g_leave].
    replace (17 =? 16) with false by reflexivity. replace (17 =? 17) with true by reflexivity. now apply IHh.
  - cbn in Hok. discriminate Hok.
  - now contradiction HK.
  - cbn in Hok. discriminate Hok.
Qed.

Corollary balanced_braces_bal h : Balanced h -> forallb anon_ok h = true -> bal 0 (gops_of h) = true.
Proof.
  intros H Hok. pose proof (bal_gops Strict h H (fun E => ltac:(discriminate E)) Hok 0%nat []) as E. now rewrite app_nil_r in E.
Qed.

(* ------------------------------------------------------------------------------------------------ *)
(* \begin{x} ... \end{x} of any name is a group *)

(* the body says nothing about the name x: it neither defines it nor opens an object whose class has a local macro x
   (otherwise \end{x} would instantiate another class than \begin{x} did) *)
Definition quiet (x : name) (o : op) : bool :=
  negb (binds x o) &&
  match o with Push (Some ob) => match find x (olocals ob) with None => true | Some _ => false end | _ => true end.

Definition env_obj (ck : ckind) (v : value) (i : N) (nm : list N) (locs : list (name * value)) : option objinfo :=
  match ck with CNewCommand => None | _ => Some (instance v i 1 nm locs) end.
Definition env_close (ck : ckind) (v : value) (i : N) (nm : list N) : option objinfo :=
  match ck with CNewCommand => None | _ => Some (instance v i 2 nm []) end.

Lemma begin_env_push x ck i nm locs s :
  begin_env x ck i nm locs s = push (env_obj ck (snd (getitem x s)) i nm locs) (fst (getitem x s)).
Proof. unfold begin_env. destruct (getitem x s) as [s1 v]. destruct ck; reflexivity. Qed.
Lemma end_env_pop x ck i nm s :
  end_env x ck i nm s = pop (env_close ck (snd (getitem x s)) i nm) (fst (getitem x s)).
Proof. unfold end_env. destruct (getitem x s) as [s1 v]. destruct ck; reflexivity. Qed.

Lemma sstep_quiet x o e : quiet x o = true ->
  find x (loc_m (sstep o e)) = find x (loc_m e) /\ find x (glo_m (sstep o e)) = find x (glo_m e).
Proof.
  unfold quiet. intros H. apply andb_true_iff in H. destruct H as (Hb & _). apply negb_true_iff in Hb.
  destruct o; cbn in Hb |- *; try (split; reflexivity).
  - now rewrite Hb.
  - now rewrite Hb.
  - apply orb_false_iff in Hb. destruct Hb as (Hd & Hs). unfold s_getitem. destruct (s_lookup e s); cbn; rewrite Hd; [split; reflexivity|].
    now rewrite Hs.
  - apply orb_false_iff in Hb. destruct Hb as (Hd & Hs). unfold s_getitem. destruct (s_lookup e s); cbn; rewrite Hd; [split; reflexivity|].
    now rewrite Hs.
  - unfold s_getitem. destruct (s_lookup e k); cbn; [split; reflexivity|]. now rewrite Hb.
  - apply orb_false_iff in Hb. destruct Hb as (Hb & H3). apply orb_false_iff in Hb. destruct Hb as (H1 & H2).
    destruct (s_lookup e k); cbn; [split; reflexivity|]. now rewrite H3, H2, H1.
  - destruct (find c (s_cells e)); cbn; [split; reflexivity|]. now rewrite Hb.
Qed.

Lemma enter_quiet x o e : match o with Some ob => find x (olocals ob) = None | None => True end ->
  find x (loc_m (enter o e)) = find x (loc_m e) /\ find x (glo_m (enter o e)) = find x (glo_m e).
Proof.
  intros H. split; [|reflexivity]. cbn. rewrite find_app. destruct o as [ob|]; cbn; [now rewrite H|reflexivity].
Qed.

Lemma sem_quiet x K h e e' : Sem K h e e' -> forallb (quiet x) h = true ->
  find x (loc_m e') = find x (loc_m e) /\ find x (glo_m e') = find x (glo_m e).
Proof.
  induction 1 as [K e|K o h e e' Hs _ IH|K b h e e1 e' _ IHb _ IHh|K o p b h e e1 e' Hd Hc _ IHb _ IHh
                 |h e e' _ IH|o h e e' Hd _ IH]; intros Hq.
  - split; reflexivity.
  - cbn in Hq. apply andb_true_iff in Hq. destruct Hq as (Ho & Hq). destruct (IH Hq) as (A & B).
    destruct (sstep_quiet x o e Ho) as (A' & B'). split; congruence.
  - cbn in Hq. rewrite forallb_app in Hq. cbn in Hq. apply andb_true_iff in Hq. destruct Hq as (Hb & Hh).
    destruct (IHb Hb) as (A1 & B1). destruct (IHh Hh) as (A & B). cbn in A, B. split; [exact A|]. rewrite B, B1. reflexivity.
  - assert (Hq' := Hq). cbn [forallb] in Hq. apply andb_true_iff in Hq. destruct Hq as (Ho & Hq).
    rewrite forallb_app in Hq. cbn [forallb] in Hq. apply andb_true_iff in Hq. destruct Hq as (Hb & Hh). apply andb_true_iff in Hh. destruct Hh as (_ & Hh).
    destruct (IHb Hb) as (A1 & B1). destruct (IHh Hh) as (A & B). cbn in A, B. split; [exact A|]. rewrite B, B1. reflexivity.
  - cbn in Hq. destruct (IH Hq) as (A & B). split; [rewrite A|rewrite B]; reflexivity.
  - cbn [forallb] in Hq. apply andb_true_iff in Hq. destruct Hq as (Ho & Hq). destruct (IH Hq) as (A & B).
    unfold quiet in Ho. apply andb_true_iff in Ho. destruct Ho as (_ & Ho).
    destruct (enter_quiet x (Some o) e) as (A' & B'); [cbn; destruct (find x (olocals o)); [discriminate|reflexivity]|].
    split; congruence.
Qed.

Lemma getitem_hit k s v : lookup s k = Some v -> getitem k s = (s, v).
Proof. unfold getitem. now intros ->. Qed.
Lemma getitem_lookup k s : lookup (fst (getitem k s)) k = Some (snd (getitem k s)).
Proof.
  unfold getitem. destruct (lookup s k) eqn:E; cbn [fst snd]; [exact E|].
  rewrite lookup_abs in E |- *. unfold s_lookup in *. cbn in *. rewrite find_app in *.
  destruct (find k (concat (map macros (ups s)))); [discriminate|]. cbn. now rewrite N.eqb_refl.
Qed.

Theorem env_is_group s x ck i1 i2 nm locs body e1 :
  wf s -> find x locs = None ->
  let sg := fst (getitem x s) in
  let o := env_obj ck (snd (getitem x s)) i1 nm locs in
  Sem (kind_of o) body (enter o (abs sg)) e1 ->
  forallb (quiet x) body = true ->
  let s' := end_env x ck i2 nm (run body (begin_env x ck i1 nm locs s)) in
  wf s' /\ ups s' = ups s /\ cur s' = cur s /\ (exists ext, heap s' = heap s ++ ext) /\
  bottom s' = set_lets (set_macros (bottom sg) (glo_m e1)) (glo_l e1) /\ m_cells s' = s_cells e1 /\
  abs s' = leave (abs sg) e1.
Proof.
  intros Hwf Hloc sg o Hsem Hq. cbn zeta.
  pose proof (wf_getitem x s Hwf) as Hwfg. fold sg in Hwfg.
  set (v := snd (getitem x s)) in *.
  assert (is_doc o = false) as Hd by (unfold o, env_obj; destruct ck; reflexivity).
  (* the state after the body *)
  rewrite begin_env_push. fold sg v o.
  destruct (push_abs o sg Hd Hwfg) as (W0 & A0 & H0 & B0 & C0 & f0 & U0 & F0).
  destruct (sem_run _ _ _ _ Hsem (push o sg) f0 (ups sg) W0 U0 A0) as (W1 & A1 & (ext1 & Hh1) & B1 & ex & f1 & U1 & F1 & X1).
  (* \end{x} instantiates the same class *)
  assert (lookup (run body (push o sg)) x = Some v) as Hl.
  { rewrite lookup_abs, A1. destruct (sem_quiet x _ _ _ _ Hsem Hq) as (A & B).
    unfold s_lookup. rewrite find_app, A, B.
    destruct (enter_quiet x o (abs sg)) as (A' & B'); [unfold o, env_obj; destruct ck; cbn; auto|].
    rewrite A', B', <- find_app. pose proof (getitem_lookup x s) as G. rewrite lookup_abs in G. exact G. }
  rewrite end_env_pop, (getitem_hit _ _ _ Hl). cbn [fst snd].
  assert (brackets o (env_close ck v i2 nm) = true) as Hbr.
  { unfold o, env_obj, env_close. destruct ck; cbn; try reflexivity; unfold closes, instance; cbn;
      rewrite N.eqb_refl; cbn; now rewrite orb_true_r. }
  assert (run body (push o sg) = run body (step (Push o) sg)) as E by reflexivity.
  pose proof (balanced_restores sg o (env_close ck v i2 nm) body e1 Hwfg Hbr Hsem) as R. cbn zeta in R.
  rewrite run_cons, run_app in R. cbn [run fold_left step] in R. cbn [step] in E.
  destruct R as (W & U & C & (ext & Hh) & B & M & A).
  assert (ups sg = ups s /\ cur sg = cur s /\ heap sg = heap s) as (Us & Cs & Hs).
  { unfold sg, getitem. destruct (lookup s x); repeat split. }
  split; [exact W|]. split; [now rewrite U|]. split; [now rewrite C|]. split; [exists ext; now rewrite Hh, Hs|].
  split; [exact B|]. split; [exact M|exact A].
Qed.

(* ------------------------------------------------------------------------------------------------ *)
(* reachable states: the well-formedness premise discharged *)
Definition reachable (s : state) : Prop := exists h0, s = run h0 init_state.

Lemma reachable_wf s : reachable s -> wf s.
Proof. intros (h0 & ->). apply run_wf, init_wf. Qed.

Theorem reachable_restores s o p b e1 :
  reachable s -> brackets o p = true -> Sem (kind_of o) b (enter o (abs s)) e1 ->
  let s' := run (Push o :: b ++ [Pop p]) s in
  reachable s' /\ ups s' = ups s /\ cur s' = cur s /\ (exists ext, heap s' = heap s ++ ext) /\
  bottom s' = set_lets (set_macros (bottom s) (glo_m e1)) (glo_l e1) /\ m_cells s' = s_cells e1 /\
  (forall c, which s' c = which s c).
Proof.
  intros Hr Hbr Hsem. pose proof (reachable_wf s Hr) as Hwf.
  destruct (balanced_restores s o p b e1 Hwf Hbr Hsem) as (W & U & C & H & B & M & A).
  destruct (local_dies s o p b e1 Hwf Hbr Hsem) as (Hw & _).
  split; [|repeat split; assumption].
  destruct Hr as (h0 & ->). exists (h0 ++ Push o :: b ++ [Pop p]). now rewrite run_app.
Qed.

(* from Context(): the table in force is C01's grouped table started from the default table, as in C01's own driver *)
Corollary which_is_gops_init h c :
  forallb gop_ok h = true ->
  which (run h init_state) c = which_code (apply_gops [] default_table (gtrace h init_state)) c.
Proof. intros Hok. exact (which_is_gops h init_state c init_wf Hok). Qed.

(* ------------------------------------------------------------------------------------------------ *)
(* the histories of the other grouping constructs are balanced (so everything proved of balanced histories applies) *)

Lemma bal_weaken h : Bal Strict h -> forall K, Bal K h.
Proof.
  intros H. remember Strict as K0 eqn:E. induction H as [K|K o h Hs _ IH|K b h Hb _ _ IHh|K o p b h Hd Hc Hb _ _ IHh|h _ _|o h _ _ _]; intros K'.
  - apply Bal_nil.
  - apply Bal_simple; [assumption|now apply IH].
  - apply Bal_group; [assumption|now apply IHh].
  - apply Bal_obj; try assumption. now apply IHh.
  - discriminate E.
  - discriminate E.
Qed.

Lemma bal_app h1 : Bal Strict h1 -> forall K h2, Bal K h2 -> Bal K (h1 ++ h2).
Proof.
  intros H. remember Strict as K0 eqn:E. induction H as [K|K o h Hs _ IH|K b h Hb _ _ IHh|K o p b h Hd Hc Hb _ _ IHh|h _ _|o h _ _ _]; intros K' h2 H2.
  - exact H2.
  - cbn. apply Bal_simple; [assumption|now apply IH].
  - cbn. rewrite <- app_assoc. cbn. apply Bal_group; [assumption|now apply IHh].
  - cbn. rewrite <- app_assoc. cbn. apply Bal_obj; try assumption. now apply IHh.
  - discriminate E.
  - discriminate E.
Qed.

Lemma closes_self o : closes o o = true.
Proof. unfold closes. now rewrite N.eqb_refl. Qed.

(* \cmd{body}: Macro.invoke pushes the command, the argument is expanded in a sub-process (TeX.createSubProcess pushes an
   ArgumentContext object, endSubProcess pops it), Macro.invoke pops the command - both closed by identity *)
Definition cmd_hist (o a : objinfo) (body : list op) : list op :=
  Push (Some o) :: Push (Some a) :: body ++ [Pop (Some a); Pop (Some o)].

Theorem cmd_hist_balanced K o a body rest :
  odoc o = false -> odoc a = false -> Bal InObj body -> Bal K rest -> Bal K (cmd_hist o a body ++ rest).
Proof.
  intros Ho Ha Hb Hr. unfold cmd_hist.
  assert ((Push (Some o) :: Push (Some a) :: body ++ [Pop (Some a); Pop (Some o)]) ++ rest
          = Push (Some o) :: (Push (Some a) :: body ++ Pop (Some a) :: []) ++ Pop (Some o) :: rest) as ->.
  { cbn. rewrite <- !app_assoc. reflexivity. }
  apply Bal_obj; [assumption|apply closes_self| |assumption].
  apply Bal_obj; [assumption|apply closes_self|assumption|apply Bal_nil].
Qed.

(* tabular: Array.invoke pushes the table object and an anonymous group for the first cell; & and \\ are pop(); push();
   \end{tabular} is pop(obj), which closes the last cell and the table *)
Fixpoint more_cells (cells : list (list op)) : list op :=
  match cells with [] => [] | c :: r => Pop None :: Push None :: c ++ more_cells r end.
Definition tabular_hist (tb te : objinfo) (first : list op) (cells : list (list op)) : list op :=
  Push (Some tb) :: (Push None :: first ++ more_cells cells) ++ [Pop (Some te)].

Lemma cells_balanced first cells :
  Bal Strict first -> Forall (Bal Strict) cells -> Bal InObj (Push None :: first ++ more_cells cells).
Proof.
  intros Hf Hc. revert first Hf. induction Hc as [|c r Hc _ IH]; intros first Hf; cbn.
  - rewrite app_nil_r. apply Bal_open_anon. now apply bal_weaken.
  - apply Bal_group; [now apply bal_weaken|]. now apply IH.
Qed.

Theorem tabular_hist_balanced K tb te first cells rest :
  odoc tb = false -> closes tb te = true -> Bal Strict first -> Forall (Bal Strict) cells -> Bal K rest ->
  Bal K (tabular_hist tb te first cells ++ rest).
Proof.
  intros Hd Hc Hf Hcs Hr. unfold tabular_hist.
  assert ((Push (Some tb) :: (Push None :: first ++ more_cells cells) ++ [Pop (Some te)]) ++ rest
          = Push (Some tb) :: (Push None :: first ++ more_cells cells) ++ Pop (Some te) :: rest) as ->.
  { cbn [app]. now rewrite <- app_assoc. }
  apply Bal_obj; [assumption|assumption| |assumption]. now apply cells_balanced.
Qed.
